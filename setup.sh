#!/bin/sh
# Offline setup: pure-Python helper wheels into /verif/.pydeps (the /venv is left untouched),
# then a full build of the Lean project (models, generated models, proofs, property theorems,
# compiled model driver).
set -e
HERE="$(cd "$(dirname "$0")" && pwd)"
cd "$HERE"
if [ ! -d .pydeps/mpmath ]; then
  /venv/bin/python -m pip install --quiet --no-index --find-links /opt/veriftools/wheels \
      --target "$HERE/.pydeps" mpmath sympy jsonschema 2>&1 | tail -2 || true
fi
/venv/bin/python tools/regen.py
cd lean
lake build Model Gen Proofs Props Driver Audit 2>&1 | grep -v '^trace' | tail -15
# one model driver per property (a generated model that no longer builds only affects its own checks)
lake build $(grep -o 'drv_C[0-9]*' lakefile.toml | sort -u) 2>&1 | grep -v '^trace' | tail -5

"""tools/regmeta.py <partest outdir> — bring seeded/<name>/meta.json up to date from the logs of a regression run
(tools/partest.sh over tools/mkjobs.py seeded): verdict lines, caught yes/no, and a history line when a change that was
missed before is reported now.  Prints every change that is NOT reported."""
import glob
import json
import os
import re
import sys

VERIF = os.path.dirname(os.path.dirname(os.path.abspath(__file__)))
out = sys.argv[1]
missed = []
n = 0
for log in sorted(glob.glob(os.path.join(out, 'C??-*.log'))):
    name = os.path.basename(log)[:-4]
    p = os.path.join(VERIF, 'seeded', name, 'meta.json')
    if not os.path.exists(p):
        continue
    lines = [l.strip() for l in open(log, errors='replace') if re.match(r'\[C\d\d\] (OK|FAIL|VIOLATION|ERROR|TIMEOUT|PATCH)', l) or 'PATCH DOES NOT APPLY' in l]
    ver = ' '.join(lines[:3])[:400]
    caught = any('VIOLATION' in l for l in lines)
    concrete = any('VIOLATION' in l and 'no-failing-input-found' not in l for l in lines)
    m = json.load(open(p))
    if isinstance(m.get('history'), str):
        m['history'] = [m['history']]
    if not m.get('caught') and caught:
        m.setdefault('history', []).append('initially MISSED (%s); caught after the check was strengthened'
                                           % (m.get('check_verdicts', '')[:120]))
    m['check_verdicts'] = ver
    m['caught'] = caught
    m['caught_with_concrete_input'] = concrete
    json.dump(m, open(p, 'w'), indent=1)
    n += 1
    if not caught:
        missed.append((name, ver))
print('%d metas updated; not reported: %d' % (n, len(missed)))
for name, ver in missed:
    print('  ', name, ver[:200])

"""Print the markdown table of seeded changes (seeded/*/meta.json)."""
import glob
import json
import os

VERIF = os.path.dirname(os.path.dirname(os.path.abspath(__file__)))
rows = []
for p in sorted(glob.glob(os.path.join(VERIF, 'seeded', '*', 'meta.json'))):
    m = json.load(open(p))
    name = os.path.basename(os.path.dirname(p))
    summ = (m.get('summary') or m.get('mechanism') or '')[:170].replace('|', '/').replace('\n', ' ')
    needs = (m.get('needs') or '')[:150].replace('|', '/').replace('\n', ' ')
    hist = 'caught' if m.get('caught') else (m.get('disposition') or 'MISSED')
    hh = m.get('history') or []
    hh = [hh] if isinstance(hh, str) else hh
    if any('initially MISSED' in h for h in hh) and not any('tool bug' in h for h in hh):
        hist += ' after strengthening'
    rows.append('| %s | %s | %s | %s |' % (name, summ, needs, hist))
print('| seed | change | needs | ./check %s |' % 'verdict')
print('|---|---|---|---|')
print('\n'.join(rows))

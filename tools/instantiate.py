"""Instantiate scalar templates lean/Scalar/*.lean.in twice: at Float (Gen/<N>F.lean, executable)
and at ℝ (Gen/<N>R.lean, noncomputable, what the theorems are about).  The body text is identical;
only the header differs.  Template directives (first lines):
    --! import A B      other templates this one depends on (→ Gen.AF / Gen.AR)
Files are only rewritten when their content changes (keeps lake's cache warm)."""
import glob
import os
import re

VERIF = os.path.dirname(os.path.dirname(os.path.abspath(__file__)))
LEAN = os.path.join(VERIF, 'lean')


def write_if_changed(path, text):
    if os.path.exists(path) and open(path).read() == text:
        return False
    os.makedirs(os.path.dirname(path), exist_ok=True)
    open(path, 'w').write(text)
    return True


def instantiate(name, body, origin):
    deps = []
    m = re.search(r'^--! import (.*)$', body, re.M)
    if m:
        deps = m.group(1).split()
    out = {}
    for tag, prelude, ns, extra in (('F', 'Model.ScalarF', 'Gep.F', ''),
                                    ('R', 'Proofs.ScalarR', 'Gep.R', 'noncomputable section\nopen Classical\n')):
        hdr = '-- AUTO-GENERATED from %s — do not edit\n' % origin
        hdr += 'import %s\n' % prelude + ''.join('import Gen.%s%s\n' % (d, tag) for d in deps)
        hdr += 'set_option linter.unusedVariables false\n' + extra + 'namespace %s\n' % ns
        out[tag] = hdr + body + '\nend %s\n' % ns
    return out


def emit(name, body, origin):
    changed = False
    for tag, text in instantiate(name, body, origin).items():
        changed |= write_if_changed(os.path.join(LEAN, 'Gen', name + tag + '.lean'), text)
    return changed


def main():
    for p in sorted(glob.glob(os.path.join(LEAN, 'Scalar', '*.lean.in'))):
        name = os.path.basename(p)[:-len('.lean.in')]
        emit(name, open(p).read(), 'lean/Scalar/%s.lean.in' % name)


if __name__ == '__main__':
    main()

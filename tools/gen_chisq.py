"""tools/gen_chisq.py — translate Theory.chisq_single and Theory.pull of gepard/theory.py from the Python AST of the CURRENT
/repo tree into the scalar template lean/Scalar/ChiSqSrc.lean.in   (property C10).  lean/Proofs/ChiSqBridge.lean proves
that the hand-written model (lean/Scalar/ChiSq.lean.in) is exactly this.

Structural reading of chisq_single(self, points, asym=False, **kwargs):
    <acc> = []                                  an empty list
    for <pt> in <points>:                       one loop over the points argument
        straight-line locals; `self.predict(<pt>, observable=<pt>.observable, **kwargs)` is the symbol `m.pred`,
        `<pt>.val/.err/.errplus/.errminus` are `m.val` …; if / else on `asym` (the keyword) or on `<local> > <number>`;
        every path ends in exactly one `<acc>.append(<expr>)`       →  pullOf asym m  (nested if-expression)
    <chi> = sum(<e(p)> for p in <acc>)          →  term p = e(p); Python's sum is a left fold from 0
    return <chi>
pull(self, pt): `return <expr>` with the same symbols.  Anything else is rejected (see tools/gen_qcd.py)."""
import ast
import os
import sys

HERE = os.path.dirname(os.path.abspath(__file__))
sys.path.insert(0, HERE)
from gen_qcd import Ex, Reject, body_of, simple_assign, num  # noqa: E402

VERIF = os.path.dirname(HERE)
REPO = os.environ.get('GEPARD_REPO', '/repo')
SRC = os.path.join(REPO, 'src', 'gepard')
OUT = os.path.join(VERIF, 'lean', 'Scalar', 'ChiSqSrc.lean.in')
FIELDS = ('val', 'err', 'errplus', 'errminus')


class PEx(Ex):
    def __init__(self, ptvar, kwargs_name):
        Ex.__init__(self, {}, {}, {})
        self.ptvar, self.kw = ptvar, kwargs_name

    def tr(self, node):
        if isinstance(node, ast.Attribute) and isinstance(node.value, ast.Name) and node.value.id == self.ptvar:
            if node.attr in FIELDS:
                return 'm.' + node.attr
            raise Reject('attribute %s of the point' % node.attr)
        if isinstance(node, ast.Call) and isinstance(node.func, ast.Attribute) and node.func.attr == 'predict' \
                and isinstance(node.func.value, ast.Name) and node.func.value.id == 'self':
            a = node.args
            if not (len(a) == 1 and isinstance(a[0], ast.Name) and a[0].id == self.ptvar):
                raise Reject('predict: positional arguments')
            seen_obs = False
            for k in node.keywords:
                if k.arg == 'observable':
                    v = k.value
                    if not (isinstance(v, ast.Attribute) and v.attr == 'observable' and isinstance(v.value, ast.Name)
                            and v.value.id == self.ptvar):
                        raise Reject('predict: observable is not the point\'s own')
                    seen_obs = True
                elif k.arg is None:
                    if not (isinstance(k.value, ast.Name) and k.value.id == self.kw):
                        raise Reject('predict: ** argument')
                else:
                    raise Reject('predict: keyword %s' % k.arg)
            if not seen_obs:
                raise Reject('predict: observable not passed')
            return 'm.pred'
        return Ex.tr(self, node)

    def cond(self, t, asym):
        if isinstance(t, ast.Name) and t.id == asym:
            return 'asym'
        if isinstance(t, ast.Compare) and len(t.ops) == 1 and isinstance(t.comparators[0], ast.Constant):
            op = {ast.Gt: '>', ast.Lt: '<', ast.GtE: '≥', ast.LtE: '≤'}.get(type(t.ops[0]))
            if op:
                return '%s %s %s' % (self.tr(t.left), op, num(t.comparators[0].value))
        raise Reject('condition of unexpected form')


def path(stmts, ex, asym, acc):
    """value appended on the way through `stmts` (exactly one append on every path) as a Lean expression"""
    lets = []
    for i, st in enumerate(stmts):
        sa = simple_assign(st)
        if sa:
            lets.append((sa[0], ex.tr(sa[1])))
            ex.env[sa[0]] = sa[0]
            continue
        if isinstance(st, ast.If):
            if i != len(stmts) - 1:
                raise Reject('statements after a branch')
            saved = dict(ex.env)
            a = path(st.body, ex, asym, acc)
            ex.env = dict(saved)
            b = path(st.orelse, ex, asym, acc)
            ex.env = saved
            t = st.test
            while isinstance(t, ast.UnaryOp) and isinstance(t.op, ast.Not):    # `if not c: A else: B` = `if c: B else: A`
                t, a, b = t.operand, b, a
            e = '(if %s then %s else %s)' % (ex.cond(t, asym), a, b)
            break
        if (isinstance(st, ast.Expr) and isinstance(st.value, ast.Call) and isinstance(st.value.func, ast.Attribute)
                and st.value.func.attr == 'append' and isinstance(st.value.func.value, ast.Name)
                and st.value.func.value.id == acc and len(st.value.args) == 1):
            if i != len(stmts) - 1:
                raise Reject('statements after append')
            e = ex.tr(st.value.args[0])
            break
        raise Reject('statement %s in the loop' % type(st).__name__)
    else:
        raise Reject('a path through the loop body appends nothing')
    for n, v in reversed(lets):
        e = '(let %s := %s; %s)' % (n, v, e)
    return e


def gen():
    mod = ast.parse(open(os.path.join(SRC, 'theory.py')).read())
    cls = [n for n in mod.body if isinstance(n, ast.ClassDef) and n.name == 'Theory']
    if not cls:
        raise Reject('class Theory not found')
    meth = {m.name: m for m in cls[0].body if isinstance(m, ast.FunctionDef)}
    fn = meth.get('chisq_single')
    if fn is None:
        raise Reject('Theory.chisq_single not found')
    a = fn.args
    names = [x.arg for x in a.args]
    if len(names) != 3 or a.kwarg is None:
        raise Reject('chisq_single: signature')
    points, asym, kw = names[1], names[2], a.kwarg.arg
    if not (len(a.defaults) == 1 and isinstance(a.defaults[0], ast.Constant) and a.defaults[0].value is False):
        raise Reject('chisq_single: default of asym')
    b = body_of(fn)
    if len(b) != 4:
        raise Reject('chisq_single: expected 4 statements, found %d' % len(b))
    sa = simple_assign(b[0])
    if not (sa and isinstance(sa[1], ast.List) and not sa[1].elts):
        raise Reject('chisq_single: first statement is not `<acc> = []`')
    acc = sa[0]
    loop = b[1]
    if not (isinstance(loop, ast.For) and isinstance(loop.target, ast.Name) and isinstance(loop.iter, ast.Name)
            and loop.iter.id == points and not loop.orelse):
        raise Reject('chisq_single: loop over the points')
    ex = PEx(loop.target.id, kw)
    pull_of = path(loop.body, ex, asym, acc)
    sa = simple_assign(b[2])
    if not sa:
        raise Reject('chisq_single: third statement')
    chi, v = sa
    if not (isinstance(v, ast.Call) and isinstance(v.func, ast.Name) and v.func.id == 'sum' and len(v.args) == 1
            and not v.keywords and isinstance(v.args[0], ast.GeneratorExp) and len(v.args[0].generators) == 1):
        raise Reject('chisq_single: not a sum over a generator')
    g = v.args[0].generators[0]
    if not (isinstance(g.target, ast.Name) and isinstance(g.iter, ast.Name) and g.iter.id == acc and not g.ifs):
        raise Reject('chisq_single: generator')
    term = Ex({g.target.id: 'p'}, {}, {}).tr(v.args[0].elt)
    if not (isinstance(b[3], ast.Return) and isinstance(b[3].value, ast.Name) and b[3].value.id == chi):
        raise Reject('chisq_single: return')
    fn = meth.get('pull')
    if fn is None:
        raise Reject('Theory.pull not found')
    pb = body_of(fn)
    if not (len(pb) == 1 and isinstance(pb[0], ast.Return) and len(fn.args.args) == 2):
        raise Reject('pull: not a single return')
    pull = PEx(fn.args.args[1].arg, None).tr(pb[0].value)
    out = ['--! import ChiSq', '/- AUTO-GENERATED by tools/gen_chisq.py from src/gepard/theory.py — do not edit -/\n',
           'namespace ChiSqSrc\n',
           '/-- what one pass of the loop of `chisq_single` appends -/\ndef pullOf (asym : Bool) (m : Meas) : K :=\n  %s\n' % pull_of,
           '/-- the summand of `sum(… for p in allpulls)` -/\ndef term (p : K) : K := %s\n' % term,
           '/-- `chisq_single(points, asym)`: Python\'s `sum` is a left fold from 0 over the list of pulls -/\n'
           'def chisq (asym : Bool) (ms : List Meas) : K :=\n  (ms.map (pullOf asym)).foldl (fun acc p => acc + term p) 0\n',
           '/-- `Theory.pull(pt)` -/\ndef pull (m : Meas) : K := %s\n' % pull,
           'end ChiSqSrc\n']
    return '\n'.join(out)


def main():
    import instantiate
    instantiate.write_if_changed(OUT, gen())


if __name__ == '__main__':
    main()

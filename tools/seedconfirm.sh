#!/bin/sh
# tools/seedconfirm.sh <agent out dir> <n> <seed name> "<check ids>"
# Confirm a proposed seeded change ourselves (scratch worktree): applies, test suite passes with it,
# demonstration fails with it and passes without it; run our checks against it; store under seeded/<name>/.
set -u
OUT="$1"; N="$2"; NAME="$3"; IDS="$4"
cd "$(dirname "$0")/.."
if [ -f "$OUT/confirmA$N.txt" ]; then
  RES=$(cat "$OUT/confirmA$N.txt")      # phase A already done by tools/seedconfirmA.sh (parallelisable)
else
  RES=$(tools/seedconfirmA.sh "$OUT" "$N")
fi
echo "$RES"
mkdir -p seeded/$NAME
cp "$OUT/patch$N.diff" seeded/$NAME/patch.diff
cp "$OUT/demo$N.py" seeded/$NAME/demo.py
VER=""
for id in $IDS; do
  V=$(tools/seedtest.sh seeded/$NAME/patch.diff $id 2>&1 | grep -E "^\[$id\] (OK|FAIL|VIOLATION|ERROR|TIMEOUT)" | head -3 | tr '\n' ' ' | cut -c1-400)
  VER="$VER $V"
done
echo "$VER"
/venv/bin/python - "$OUT/meta$N.json" "seeded/$NAME/meta.json" "$RES" "$VER" "$IDS" <<'PY'
import json, sys
src, dst, res, ver, ids = sys.argv[1:6]
try:
    m = json.load(open(src))
except Exception:
    m = {}
m['confirmed_by_us'] = res
m['what_we_ran'] = ('tools/seedconfirm.sh: git worktree of /repo HEAD + git apply patch.diff; pytest (unedited suite) with the change; '
                    'demo.py with and without the change; tools/seedtest.sh patch.diff "%s" (GEPARD_REPO=<scratch worktree> ./check <id>)' % ids)
m['check_verdicts'] = ver.strip()
m['caught'] = ('VIOLATION' in ver)
json.dump(m, open(dst, 'w'), indent=1)
print('caught' if m['caught'] else 'MISSED')
PY

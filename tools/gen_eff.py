"""tools/gen_eff.py — translate the form-factor formulas of gepard/eff.py (KellyEFF._pF1/_pF2/_nF1/_nF2, DipoleEFF.F1/F2)
and the particle dispatch of KellyEFF.F1/F2, DipoleEFF.F1/F2 from the Python AST of the CURRENT /repo tree into the scalar
template lean/Scalar/EffSrc.lean.in   (property C19).  lean/Proofs/EffBridge.lean proves over ℝ that each translated
formula equals the hand-written model (lean/Scalar/Eff.lean.in) the theorems of Props/C19.lean are about.

Structural, no text matching: a formula method is  [docstring] [t = pt.t] return <expr>   or
[docstring] [t = pt.t] if <particle test>: return <expr> else: raise …;  a dispatch method is
if <particle test>: return self.<m1>(pt.t) else: return self.<m2>(pt.t);  <particle test> is
`'in2particle' in pt and pt.in2particle == '<X>'`.  Anything else is rejected (see tools/gen_qcd.py)."""
import ast
import os
import sys

HERE = os.path.dirname(os.path.abspath(__file__))
sys.path.insert(0, HERE)
from gen_qcd import Ex, Reject, body_of, simple_assign  # noqa: E402

VERIF = os.path.dirname(HERE)
REPO = os.environ.get('GEPARD_REPO', '/repo')
SRC = os.path.join(REPO, 'src', 'gepard')
OUT = os.path.join(VERIF, 'lean', 'Scalar', 'EffSrc.lean.in')


def particle_test(t, ptvar):
    """'in2particle' in pt and pt.in2particle == 'X'  ->  'X'"""
    if not (isinstance(t, ast.BoolOp) and isinstance(t.op, ast.And) and len(t.values) == 2):
        raise Reject('particle test: not a conjunction')
    a, b = t.values
    ok_a = (isinstance(a, ast.Compare) and len(a.ops) == 1 and isinstance(a.ops[0], ast.In)
            and isinstance(a.left, ast.Constant) and a.left.value == 'in2particle'
            and isinstance(a.comparators[0], ast.Name) and a.comparators[0].id == ptvar)
    ok_b = (isinstance(b, ast.Compare) and len(b.ops) == 1 and isinstance(b.ops[0], ast.Eq)
            and isinstance(b.left, ast.Attribute) and b.left.attr == 'in2particle'
            and isinstance(b.left.value, ast.Name) and b.left.value.id == ptvar
            and isinstance(b.comparators[0], ast.Constant) and isinstance(b.comparators[0].value, str))
    if not (ok_a and ok_b):
        raise Reject('particle test: unexpected form')
    return b.comparators[0].value


def t_env(fn):
    """environment of a formula method: its second argument is t itself, or a point whose .t is read into a local"""
    args = [a.arg for a in fn.args.args]
    if len(args) != 2:
        raise Reject('%s: signature' % fn.name)
    return args[1]


def formula(fn):
    """-> (lean expression in t, particle the formula is restricted to or None)"""
    arg = t_env(fn)
    env = {}
    ptvar = None
    if arg == 't':
        env['t'] = 't'
    else:
        ptvar = arg
    ex = Ex(env, {}, {})
    stmts = body_of(fn)
    part = None
    i = 0
    while i < len(stmts):
        st = stmts[i]
        sa = simple_assign(st)
        if sa:
            n, v = sa
            if (ptvar and isinstance(v, ast.Attribute) and v.attr == 't' and isinstance(v.value, ast.Name)
                    and v.value.id == ptvar):
                ex.env[n] = 't'
            else:
                ex.env[n] = ex.tr(v)
            i += 1
            continue
        if isinstance(st, ast.Return) and st.value is not None:
            return ex.tr(st.value), part
        if isinstance(st, ast.If) and ptvar:
            part = particle_test(st.test, ptvar)
            if not (len(st.orelse) == 1 and isinstance(st.orelse[0], ast.Raise)):
                raise Reject('%s: else branch does not raise' % fn.name)
            stmts = st.body
            i = 0
            continue
        raise Reject('%s: statement %s' % (fn.name, type(st).__name__))
    raise Reject('%s: no return' % fn.name)


def dispatch(fn):
    """if <test X>: return self.m1(pt.t) else: return self.m2(pt.t)  ->  (X, m1, m2)"""
    ptvar = t_env(fn)
    stmts = body_of(fn)
    if not (len(stmts) == 1 and isinstance(stmts[0], ast.If)):
        raise Reject('%s: not a single if' % fn.name)
    st = stmts[0]
    x = particle_test(st.test, ptvar)

    def target(body):
        if not (len(body) == 1 and isinstance(body[0], ast.Return) and isinstance(body[0].value, ast.Call)):
            raise Reject('%s: branch is not `return self.m(pt.t)`' % fn.name)
        c = body[0].value
        f = c.func
        a = c.args
        if not (isinstance(f, ast.Attribute) and isinstance(f.value, ast.Name) and f.value.id == 'self' and len(a) == 1
                and not c.keywords and isinstance(a[0], ast.Attribute) and a[0].attr == 't'
                and isinstance(a[0].value, ast.Name) and a[0].value.id == ptvar):
            raise Reject('%s: branch is not `return self.m(pt.t)`' % fn.name)
        return f.attr
    return x, target(st.body), target(st.orelse)


def gen():
    mod = ast.parse(open(os.path.join(SRC, 'eff.py')).read())
    classes = {n.name: {m.name: m for m in n.body if isinstance(m, ast.FunctionDef)}
               for n in mod.body if isinstance(n, ast.ClassDef)}
    for c in ('KellyEFF', 'DipoleEFF'):
        if c not in classes:
            raise Reject('class %s not found' % c)
    out = ['/- AUTO-GENERATED by tools/gen_eff.py from src/gepard/eff.py — do not edit -/\n', 'namespace EffSrc\n']
    k = classes['KellyEFF']
    for m in ('_pF1', '_pF2', '_nF1', '_nF2'):
        if m not in k:
            raise Reject('KellyEFF.%s not found' % m)
        e, part = formula(k[m])
        if part is not None:
            raise Reject('KellyEFF.%s: unexpected particle test' % m)
        out.append('/-- `KellyEFF.%s(t)` -/\ndef %s (t : K) : K :=\n  %s\n' % (m, m.lstrip('_'), e))
    for m in ('F1', 'F2'):
        x, m1, m2 = dispatch(k[m])
        out.append('/-- `KellyEFF.%s`: `in2particle == "%s"` → `%s`, anything else (absent included) → `%s` -/' % (m, x, m1, m2))
        out.append('def kelly%s_when : String := "%s"\ndef kelly%s_then : String := "%s"\ndef kelly%s_else : String := "%s"\n'
                   % (m, x, m, m1, m, m2))
    d = classes['DipoleEFF']
    for m in ('F1', 'F2'):
        e, part = formula(d[m])
        if part is None:
            raise Reject('DipoleEFF.%s: no particle test' % m)
        out.append('/-- `DipoleEFF.%s(pt)` for `in2particle == "%s"`; anything else raises -/\ndef dip%s (t : K) : K :=\n  %s\n'
                   'def dip%s_when : String := "%s"\n' % (m, part, m, e, m, part))
    out.append('end EffSrc\n')
    return '\n'.join(out)


def main():
    import instantiate
    instantiate.write_if_changed(OUT, gen())


if __name__ == '__main__':
    main()

#!/bin/sh
# tools/seedtest.sh <patch.diff> "<check ids>" [seed]
# Apply a seeded change to a scratch worktree of /repo (never to /repo itself), run the given checks
# against it (GEPARD_REPO), print their verdict lines, remove the worktree and regenerate lean/Gen from /repo.
set -u
PATCH="$(readlink -f "$1")"; IDS="$2"; SEED="${3:-0}"
WT="/tmp/st_$$"
cd "$(dirname "$0")/.."
git -C /repo worktree add -q "$WT" HEAD || exit 3
if ! git -C "$WT" apply "$PATCH"; then echo "PATCH DOES NOT APPLY"; git -C /repo worktree remove --force "$WT"; exit 3; fi
for id in $IDS; do
  cp -f evidence/$id.json /tmp/ev_$$_$id.json 2>/dev/null
  GEPARD_REPO="$WT" VERIF_SEED=$SEED timeout 1500 ./check $id > /tmp/st_$$_$id.out 2>&1
  # verdict lines, each VIOLATION followed by its explanation line (tracebacks are left out)
  awk '/^(OK|FAIL|VIOLATION|ERROR|TIMEOUT)/ {print; v = ($0 ~ /^VIOLATION/); next} v && /^  / {print; v = 0; next} {v = 0}' /tmp/st_$$_$id.out | cut -c1-260 > /tmp/st_$$_$id.ver
  # the first verdict lines and always the closing OK / FAIL / ERROR line
  { head -30 /tmp/st_$$_$id.ver; [ "$(wc -l < /tmp/st_$$_$id.ver)" -gt 30 ] && grep -E "^(OK|FAIL|ERROR|TIMEOUT)" /tmp/st_$$_$id.ver | tail -1; } | sed "s/^/[$id] /"
  rm -f /tmp/st_$$_$id.ver
  rm -f /tmp/st_$$_$id.out
  # evidence committed under /verif must come from runs against /repo itself: put the previous file back
  mv -f /tmp/ev_$$_$id.json evidence/$id.json 2>/dev/null
done
git -C /repo worktree remove --force "$WT"
python3 tools/regen.py >/dev/null 2>&1

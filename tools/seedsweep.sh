#!/bin/sh
# tools/seedsweep.sh "<seeds>" [tier=quick] [workers=5] — run ALL checks on the unchanged tree for several seeds, in
# parallel in scratch copies of /verif (evidence of /verif itself is not touched); prints every non-OK verdict and a count.
set -u
SEEDS="$1"; TIER="${2:-quick}"; K="${3:-5}"
ROOT="$(cd "$(dirname "$0")/.." && pwd)"
OUT=/tmp/seedsweep_$$; mkdir -p $OUT
i=0
for s in $SEEDS; do
  ( W="/tmp/vsweep_$s"; mkdir -p "$W"; rsync -a --delete --exclude .git --exclude replays "$ROOT/" "$W/"
    cd "$W"
    for c in C01 C02 C03 C04 C05 C06 C07 C08 C09 C10 C11 C12 C13 C14 C15 C16 C17 C18 C19 C20; do
      VERIF_SEED=$s timeout 3000 ./check $c --tier $TIER 2>&1 | grep -E "^(OK|FAIL|VIOLATION|ERROR|TIMEOUT)" | sed "s/^/[seed $s] /"
    done > $OUT/$s.log 2>&1
    rm -rf "$W" ) &
  i=$((i+1))
  if [ $((i % K)) -eq 0 ]; then wait; fi
done
wait
cat $OUT/*.log | grep -v "\] OK" 
echo "OK lines: $(cat $OUT/*.log | grep -c '\] OK')  other: $(cat $OUT/*.log | grep -vc '\] OK')"
rm -rf $OUT

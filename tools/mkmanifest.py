"""Write /verif/MANIFEST.json from the table below (single source of truth for what is claimed)."""
import json
import os

VERIF = os.path.dirname(os.path.dirname(os.path.abspath(__file__)))
TB = ("Lean 4.33 kernel; axioms ⊆ {propext, Classical.choice, Quot.sound} (audited on every run, "
      "no sorry/native_decide/bv_decide); the theorem statements in lean/Props/%s.lean; "
      "the correspondence harness harness/props/%s.py that ties the Lean model to /repo's working tree")

# id -> (technique, level text, extra trusted base / what is modelled rather than verified, design ref)
CLAIMED = {
 'C17': ("Lean 4 proof (induction over the point/criteria lists; Int arithmetic of CPython slice "
         "normalisation) on a hand-written executable model + exact differential correspondence "
         "against gepard.select/__getitem__/__add__/DataPoint.copy on all bundled datasets",
         "select = filter(all/any) (hence sublist, once, in order, empty allowed), slice indices valid and "
         "complete for every (start,stop,step), plain slice = take/drop, concat = append with agreed "
         "attributes, copy does not alias: proved for all inputs in Lean; the model is tied to the code by "
         "running both on the same generated operations and comparing exactly.",
         "criteria are modelled as abstract decidable predicates (eval() of the criterion string is "
         "trusted to compute the comparison); attribute values compared by digest", "§4 C17"),
 'C10': ("Lean 4 proof over ℝ (list induction, List.Perm.sum_eq) on a scalar-template model instantiated at "
         "Float and ℝ + differential correspondence of the Float instance against Theory.chisq / pull",
         "chi-square = sum of squared pulls, non-negative, additive over ++, invariant under any permutation and "
         "re-slicing, asymmetric-error branch by the sign of the residual, pull = signed contribution: proved for "
         "all lists of measurements over ℝ; the accumulation code is tied to the model by running both on random "
         "sub-multisets/permutations of bundled points (shipped and ad-hoc theories) and comparing to 1e-11.",
         "the theory's predict() is a parameter of the model; floating-point summation is compared, not proved", "§4 C10"),
 'C13': ("Lean 4 proof over ℝ (field_simp/ring, Real.sqrt, exhaustive case split over frame × unit × harmonic "
         "tables) on a scalar-template model + differential correspondence of its Float instance against "
         "DataPoint completion and to/from/orig_conventions",
         "completion from each pair satisfies xB=Q2/(W²+Q2−M²) and reproduces a consistent triple, xi and tm, "
         "over-determined input rejected, under-determined untouched; from_conventions∘to_conventions = id for "
         "every frame/unit/harmonic and orig_conventions = the value map of from_conventions: proved over ℝ for "
         "all inputs; tied to the code on the full finite grid × random reals and on bundled points (ulp-level).",
         "rounding of the degree/radian and pb/nb conversions is compared within a few ulp, not proved", "§4 C13"),
}

NOT_YET = {}


def main():
    props = [json.loads(l) for l in open(os.path.join(VERIF, 'properties.jsonl'))]
    checks, na = [], []
    for p in props:
        i = p['id']
        if i in CLAIMED:
            tech, text, note, ref = CLAIMED[i]
            checks.append({
                'property_id': i,
                'quick_cmd': './check %s --tier quick' % i,
                'thorough_cmd': './check %s --tier thorough' % i,
                'evidence_file': 'evidence/%s.json' % i,
                'replay_cmd_template': './check %s --replay {path}' % i,
                'engine': 'lean4+correspondence',
                'level_claimed': {'category': 'proof', 'text': text, 'design_ref': 'DESIGN.md ' + ref},
                'level_note': (TB % (i, i)) + '; ' + note,
                'technique': tech,
            })
        else:
            na.append({'property_id': i, 'reason': NOT_YET.get(
                i, 'check not built yet in this session (planned per DESIGN.md §4); no claim is made')})
    m = {
        'version': 1,
        'setup_cmd': './setup.sh',
        'hooks': {'guard': 'GEPARD_VERIF', 'enable': 'no source hooks: checks import /repo/src in-process '
                  '(GEPARD_VERIF=1 is exported by the harness but nothing in /repo reads it)',
                  'baseline_off_cmd': 'cd /repo && /venv/bin/python -m pytest -ra -q -p no:cacheprovider '
                  '--timeout=900 --continue-on-collection-errors',
                  'source_commits': [], 'add_only': True},
        'engines': [{'name': 'lean4+correspondence', 'path': 'lean/ harness/ tools/',
                     'serves_properties': sorted(CLAIMED),
                     'kind_free_text': 'Lean 4 theorems about executable models (lean/Model hand-written, '
                     'lean/Gen regenerated from /repo by tools/py2lean.py on every run) + differential '
                     'correspondence of the compiled model driver against the running Python'}],
        'checks': checks,
        'not_applicable': na,
        'notes': 'See DESIGN.md. Every check: ./check <id> [--tier quick|thorough]; exit 0 ok, 1 violation, '
                 '2 timeout, 3 machinery error.',
    }
    json.dump(m, open(os.path.join(VERIF, 'MANIFEST.json'), 'w'), indent=1, ensure_ascii=False)
    print('MANIFEST: %d checks, %d not_applicable' % (len(checks), len(na)))


if __name__ == '__main__':
    main()

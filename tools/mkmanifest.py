"""Write /verif/MANIFEST.json from harness/meta/Cxx.json (one file per claimed property:
technique, level_text, level_note, design_ref) and harness/meta/not_applicable.json."""
import glob
import json
import os

VERIF = os.path.dirname(os.path.dirname(os.path.abspath(__file__)))
TB = ("Lean 4.33 kernel; axioms ⊆ {propext, Classical.choice, Quot.sound} (audited on every run, "
      "no sorry/native_decide/bv_decide); the theorem statements in lean/Props/%s.lean; "
      "the correspondence harness harness/props/%s.py that ties the Lean model to /repo's working tree")


def main():
    props = [json.loads(l) for l in open(os.path.join(VERIF, 'properties.jsonl'))]
    claimed = {}
    for p in glob.glob(os.path.join(VERIF, 'harness', 'meta', 'C*.json')):
        i = os.path.basename(p)[:-5]
        if os.path.exists(os.path.join(VERIF, 'harness', 'props', i + '.py')):
            claimed[i] = json.load(open(p))
    na_path = os.path.join(VERIF, 'harness', 'meta', 'not_applicable.json')
    na_reasons = json.load(open(na_path)) if os.path.exists(na_path) else {}
    checks, na = [], []
    for p in props:
        i = p['id']
        if i in claimed:
            c = claimed[i]
            checks.append({
                'property_id': i,
                'quick_cmd': './check %s --tier quick' % i,
                'thorough_cmd': './check %s --tier thorough' % i,
                'evidence_file': 'evidence/%s.json' % i,
                'replay_cmd_template': './check %s --replay {path}' % i,
                'engine': 'lean4+correspondence',
                'level_claimed': {'category': 'proof',
                                  'text': (('PARTIAL PROOF (theorems carry the exact core; the rest is compared / measured on '
                                            'the running code, not proved) — ' + c.get('partial_because', '') + '. ')
                                           if c.get('scope') == 'partial' else 'PROOF — ') + c['level_text'],
                                  'design_ref': 'DESIGN.md ' + c['design_ref']},
                'level_note': (TB % (i, i)) + '; ' + c['level_note'],
                'technique': c['technique'],
            })
        else:
            na.append({'property_id': i, 'reason': na_reasons.get(
                i, 'check not built yet in this session (planned per DESIGN.md §4); no claim is made')})
    m = {
        'version': 1,
        'setup_cmd': './setup.sh',
        'hooks': {'guard': 'GEPARD_VERIF', 'enable': 'no source hooks: checks import /repo/src in-process '
                  '(GEPARD_VERIF=1 is exported by the harness but nothing in /repo reads it)',
                  'baseline_off_cmd': 'cd /repo && /venv/bin/python -m pytest -ra -q -p no:cacheprovider '
                  '--timeout=900 --continue-on-collection-errors',
                  'source_commits': [], 'add_only': True},
        'engines': [{'name': 'lean4+correspondence', 'path': 'lean/ harness/ tools/',
                     'serves_properties': sorted(claimed),
                     'kind_free_text': 'Lean 4 theorems about executable models (lean/Model hand-written, '
                     'lean/Scalar templates instantiated at Float and ℝ, lean/Gen regenerated from /repo by '
                     'tools/py2lean.py on every run) + differential correspondence of the compiled model '
                     'driver against the running Python'}],
        'checks': checks,
        'not_applicable': na,
        'notes': 'See DESIGN.md. Every check: ./check <id> [--tier quick|thorough]; exit 0 ok, 1 violation, '
                 '2 timeout, 3 machinery error.',
    }
    json.dump(m, open(os.path.join(VERIF, 'MANIFEST.json'), 'w'), indent=1, ensure_ascii=False)
    print('MANIFEST: %d checks, %d not_applicable' % (len(checks), len(na)))


if __name__ == '__main__':
    main()

"""Regenerate every generated Lean file (lean/Gen/*.lean): scalar templates instantiated at
Float and ℝ, and the models translated from /repo's current Python sources."""
import os
import sys
HERE = os.path.dirname(os.path.abspath(__file__))
sys.path.insert(0, HERE)


def main():
    import instantiate
    instantiate.main()
    try:
        import py2lean_targets
    except ImportError:
        return 0
    return py2lean_targets.regen_all()


if __name__ == '__main__':
    sys.exit(main() or 0)

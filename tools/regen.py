"""Regenerate every translated Lean model (lean/Gen/*.lean) from /repo's current sources."""
import os
import sys
sys.path.insert(0, os.path.join(os.path.dirname(os.path.abspath(__file__)), '..', 'harness'))


def main():
    try:
        import py2lean_targets
    except ImportError:
        return 0
    return py2lean_targets.regen_all()


if __name__ == '__main__':
    sys.exit(main() or 0)

"""Regenerate every generated Lean file (lean/Gen/*.lean): scalar templates instantiated at
Float and ℝ, and the models translated from /repo's current Python sources."""
import os
import sys
HERE = os.path.dirname(os.path.abspath(__file__))
sys.path.insert(0, HERE)


def main():
    import warnings
    warnings.simplefilter('ignore', SyntaxWarning)
    import instantiate
    instantiate.main()
    rc = 0
    try:
        import py2lean_targets
        rc = py2lean_targets.regen_all() or 0
    except ImportError:
        pass
    for gen in ('gen_classtable', 'gen_adim', 'gen_bhref'):
        try:
            mod = __import__(gen)
        except ImportError:
            continue
        try:
            mod.main()
        except SystemExit:
            pass
    instantiate.main()
    return rc


if __name__ == '__main__':
    sys.exit(main() or 0)

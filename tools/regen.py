"""Regenerate every generated Lean file (lean/Gen/*.lean): scalar templates instantiated at
Float and ℝ, and the models translated from /repo's current Python sources.

Each generator is isolated: one that rejects the current source leaves its own outputs stale and is
recorded in lean/Gen/regen_status.json ({generator: "ok" | error text, "outputs": {generator: [modules]}});
harness/common.lean_side fails only the properties whose theorems import a module of a failed generator."""
import json
import os
import sys
HERE = os.path.dirname(os.path.abspath(__file__))
sys.path.insert(0, HERE)

# Lean modules each generator writes (directly, or through the scalar template it writes)
OUTPUTS = {
    'py2lean': ['Gen.BmkF', 'Gen.BmkR', 'Gen.BmkSymR', 'Gen.BmkDispatchF'],
    'gen_classtable': ['Gen.ClassTable'],
    'gen_adim': ['Gen.AdimF', 'Gen.AdimR'],
    'gen_bhref': ['Gen.BHRefF', 'Gen.BHRefR'],
    'gen_qcd': ['Gen.QcdSrcF', 'Gen.QcdSrcR'],
    'gen_eff': ['Gen.EffSrcF', 'Gen.EffSrcR'],
    'gen_kin': ['Gen.ConvSrcF', 'Gen.ConvSrcR'],
    'gen_chisq': ['Gen.ChiSqSrcF', 'Gen.ChiSqSrcR'],
    'gen_disp': ['Gen.DispSrcF', 'Gen.DispSrcR'],
}


def main(strict=False):
    import warnings
    warnings.simplefilter('ignore', SyntaxWarning)
    import instantiate
    instantiate.main()
    status = {}
    rc = 0
    try:
        import py2lean_targets
        rc = py2lean_targets.regen_all() or 0
        status['py2lean'] = 'ok'
    except ImportError:
        pass
    except Exception as e:
        status['py2lean'] = repr(e)[:400]
    for gen in ('gen_classtable', 'gen_adim', 'gen_bhref', 'gen_qcd', 'gen_eff', 'gen_kin', 'gen_chisq', 'gen_disp'):
        try:
            mod = __import__(gen)
        except ImportError:
            continue
        try:
            mod.main()
            status[gen] = 'ok'
        except SystemExit:
            status[gen] = 'ok'
        except Exception as e:
            status[gen] = repr(e)[:400]
    instantiate.main()
    out = os.path.join(os.path.dirname(HERE), 'lean', 'Gen', 'regen_status.json')
    tmp = out + '.%d.tmp' % os.getpid()
    json.dump(dict(status=status, outputs=OUTPUTS), open(tmp, 'w'), indent=1)
    os.replace(tmp, out)                      # atomic: a concurrent reader never sees a half-written file
    bad = {g: v for g, v in status.items() if v != 'ok'}
    if strict and bad:
        raise RuntimeError('generators failed: %r' % bad)
    return rc


if __name__ == '__main__':
    sys.exit(main() or 0)

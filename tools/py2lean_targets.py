"""What gets translated from /repo into lean/Gen (run by tools/regen.py on every check)."""
import os
import sys

HERE = os.path.dirname(os.path.abspath(__file__))
sys.path.insert(0, HERE)
import instantiate  # noqa: E402
import py2lean  # noqa: E402

REPO = os.environ.get('GEPARD_REPO', '/repo')
SRC = os.path.join(REPO, 'src', 'gepard')

FORMULA_SETS = ['BMK', 'hotfixedBMK', 'BM10ex', 'BM10', 'BM10tw2']
ENTRY = ['TBH2unp', 'TINTunp', 'TDVCS2unp', 'TBH2LP', 'TINTLP', 'TDVCS2LP', 'TBH2TP', 'TINTTP', 'TDVCS2TP',
         'PreFacBH', 'PreFacDVCS', 'PreFacINT',
         'cBH0unp', 'cBH1unp', 'cBH2unp', 'cBH0LP', 'cBH1LP', 'cBH0TP', 'cBH1TP', 'sBH1TP',
         'cINT0unp', 'cINT1unp', 'sINT1unp', 'cINT2unp', 'sINT2unp', 'cINT3unp', 'sINT3unp',
         'cINT0LP', 'cINT1LP', 'sINT1LP', 'cINT2LP', 'sINT2LP', 'cINT3LP', 'sINT3LP',
         'cDVCS0unp', 'cDVCS1unp', 'sDVCS1unp', 'cDVCS0LP', 'cDVCS1LP', 'sDVCS1LP',
         'ReCCALINTunp', 'ImCCALINTunp', 'ReDELCCALINTunp', 'ImDELCCALINTunp', 'CCALDVCSunp']
KIN = ['tmin', 'tmax', 'K2', 'J', 'r', 'P1P2', 'anintP1P2', 'weight_BH', 'long2trans', 'HandFlux', 'prepare', 'xBmin']
DVCS_ENTRY = ['PreFacSigma', '_XGAMMA_DVCS_t_Ex']


def struct(name, fields):
    return 'structure %s where\n' % name + ''.join('  %s : K\n' % f for f in fields) + '\n'


def gen_bmk():
    """kinematics.py + bmk.py + the formula-level parts of dvcs.py -> Gen/BmkF.lean, Gen/BmkR.lean.
    Returns dict with what was produced (entry points per formula set, rejected ones)."""
    pt_fields, m_fields = [], []
    consts = {'Mp': 'c.Mp', 'Mp2': 'c.Mp2', 'alpha': 'c.alpha', 'GeV2nb': 'c.GeV2nb', 'pi': 'kpi'}
    static = {"hasattr(pt, 's')": True, "'t' in pt": True, "'phi' in pt": True,
              'cff.HybridCFF in self.__class__.mro()': False}
    kin = py2lean.Module(os.path.join(SRC, 'kinematics.py'))
    # requested entry points get a definition of their own; every other module function of kinematics.py, and every
    # method whose name starts with `_`, is a helper and is inlined where it is called (see py2lean.py)
    tk = py2lean.Translator(kin, consts=consts, static_conds=static, pt_fields=pt_fields, m_fields=m_fields, targets=KIN)
    # Degradation is per entry point: a definition the translator rejects is left out TOGETHER WITH everything that
    # refers to it — callers are rejected in turn ("call to …": a dropped kinematics function is not offered to bmk.py),
    # aliases, dispatch entries, the XS assembly and the generated lemmas are emitted only for what exists — so that
    # Gen/*.lean and the drivers always build and the checks report what is missing instead of crashing.
    produced, rejected = {}, {}
    kin_names = {}
    for fn in KIN:
        if fn in kin.functions:
            try:
                kin_names[fn] = tk.gen_func(kin.functions[fn])
            except py2lean.Reject as ex:
                rejected[('kinematics', fn)] = str(ex)
    bmk = py2lean.Module(os.path.join(SRC, 'bmk.py'))
    tb = py2lean.Translator(bmk, consts=consts, static_conds=static, pt_fields=pt_fields, m_fields=m_fields,
                            module_funcs={k: (v[0], [a.arg for a in kin.functions[k].args.args]) for k, v in kin_names.items()},
                            targets=ENTRY)
    for cls in FORMULA_SETS:
        produced[cls] = {}
        for e in ENTRY:
            try:
                tb.resolve(cls, e)
            except py2lean.Reject:
                continue
            try:
                produced[cls][e] = tb.gen_method(cls, e)
            except py2lean.Reject as ex:
                rejected[(cls, e)] = str(ex)
    dv = py2lean.Module(os.path.join(SRC, 'dvcs.py'))
    td = py2lean.Translator(dv, consts=consts, static_conds=static, pt_fields=pt_fields, m_fields=m_fields, targets=DVCS_ENTRY)
    dv_names = {}
    for e in DVCS_ENTRY:
        try:
            dv_names[e] = td.gen_method('DVCS', e)
        except py2lean.Reject as ex:
            rejected[('DVCS', e)] = str(ex)
    # every field the formulas read, plus those prepare() writes
    for f in ['xB', 'Q2', 't', 'W', 's', 'phi', 'varphi', 'in1polarization', 'in1charge']:
        if f not in pt_fields:
            pt_fields.append(f)
    safe = tk.safe
    body = '/- kinematics.py, bmk.py and the formula-level methods of dvcs.py, translated by tools/py2lean.py -/\n\n'
    body += struct('Consts', ['Mp', 'Mp2', 'alpha', 'GeV2nb'])
    body += struct('Pt', [safe(f) for f in pt_fields])
    body += struct('CFFs', m_fields)
    # all-zero records: witnesses in proofs are written `{ Pt.zero with xB := 1/2, … }`, by field NAME, so that neither
    # the order in which the translator meets the fields nor a new field (a value cached on the point) matters
    body += '/-- every field 0 (base of concrete witnesses: `{ Pt.zero with Q2 := 4, … }`) -/\n'
    body += 'def Pt.zero : Pt := ⟨%s⟩\n' % ', '.join(['0'] * len(pt_fields))
    body += 'def CFFs.zero : CFFs := ⟨%s⟩\n\n' % ', '.join(['0'] * len(m_fields))
    body += '\n'.join(tk.defs) + '\n' + '\n'.join(tb.defs) + '\n' + '\n'.join(td.defs) + '\n'
    # stable aliases  <Set>.<entry>'  for the entry points of every formula set
    body += '/-! entry points per formula set -/\n'
    for cls in FORMULA_SETS:
        for e, (lname, typ) in produced[cls].items():
            alias = 'FS_%s_%s' % (cls, e)
            body += 'abbrev %s (c : Consts) (m : CFFs) (pt : Pt) : %s := %s c m pt\n' % (alias, tb.lean_type(typ), lname)
    # cross-section assembly of dvcs.DVCS.XS per formula set (hand-transcribed skeleton; the T-terms are the
    # translated ones).  target: 0 = U, 1 = L, 2 = T.  Flips and the copy of the point are the caller's business.
    body += '\n/-! DVCS.XS: wgh * PreFacSigma * (unp + in2polarization * (LP | TP)) -/\n'
    xs_missing = []
    for cls in FORMULA_SETS:
        have = produced[cls]
        UNP, LP, TP = ('TBH2unp', 'TINTunp', 'TDVCS2unp'), ('TBH2LP', 'TINTLP', 'TDVCS2LP'), ('TBH2TP', 'TINTTP', 'TDVCS2TP')

        def lost(group):
            # a term the class HAS (it resolves) but the translator rejected: the assembly cannot be modelled
            return any((cls, e) in rejected and rejected[(cls, e)] != 'raise' for e in group)
        if not all(e in have for e in UNP) or lost(LP) or lost(TP) or 'weight_BH' not in kin_names or 'PreFacSigma' not in dv_names:
            # the translator rejected a term this set needs: no XS model for it (the checks fall back
            # to the behavioural streams and report what no longer translates)
            xs_missing.append(cls)
            continue
        unp = ' + '.join('FS_%s_%s c m pt' % (cls, e) for e in UNP)
        lp = ' + '.join('FS_%s_%s c m pt' % (cls, e) for e in LP) if all(e in have for e in LP) else None
        tp = ' + '.join('FS_%s_%s c m pt' % (cls, e) for e in TP) if all(e in have for e in TP) else None
        body += 'def XSaux_%s (c : Consts) (m : CFFs) (pt : Pt) (target : Nat) (in2pol : K) : Option K :=\n' % cls
        body += '  let aux : K := %s\n' % unp
        body += '  match target with\n  | 0 => some aux\n'
        body += '  | 1 => %s\n' % ('some (aux + in2pol * (%s))' % lp if lp else 'none   -- ValueError: LP not implemented')
        body += '  | 2 => %s\n' % ('some (aux + in2pol * (%s))' % tp if tp else 'none')
        body += '  | _ => none\n'
        body += 'def XS_%s (c : Consts) (m : CFFs) (pt : Pt) (target : Nat) (in2pol : K) (weighted : Bool) : Option K :=\n' % cls
        body += '  (XSaux_%s c m pt target in2pol).map fun aux =>\n' % cls
        body += '    (if weighted then %s c pt else 1) * %s c m pt * aux\n\n' % (kin_names['weight_BH'][0], dv_names['PreFacSigma'][0])
    instantiate.emit('Bmk', body, 'src/gepard/{kinematics,bmk,dvcs}.py via tools/py2lean.py')
    # executable dispatch by name (Float instance only), used by the drivers
    d = '-- AUTO-GENERATED by tools/py2lean_targets.py — do not edit\nimport Gen.BmkF\nnamespace Gep.F\n\n'
    d += 'def constsOfList : List Float → Option Consts\n  | [%s] => some ⟨%s⟩\n  | _ => none\n\n' % (
        ', '.join('a%d' % i for i in range(4)), ', '.join('a%d' % i for i in range(4)))
    d += 'def cffsOfList : List Float → Option CFFs\n  | [%s] => some ⟨%s⟩\n  | _ => none\n\n' % (
        ', '.join('a%d' % i for i in range(len(m_fields))), ', '.join('a%d' % i for i in range(len(m_fields))))
    d += 'def ptOfList : List Float → Option Pt\n  | [%s] => some ⟨%s⟩\n  | _ => none\n\n' % (
        ', '.join('a%d' % i for i in range(len(pt_fields))), ', '.join('a%d' % i for i in range(len(pt_fields))))
    d += 'def listOfPt (p : Pt) : List Float := [%s]\n\n' % ', '.join('p.' + safe(f) for f in pt_fields)
    d += '/-- number of fields of `CFFs` / `Pt` (the drivers split their argument lists with these) -/\n'
    d += 'def nCFFs : Nat := %d\ndef nPt : Nat := %d\n\n' % (len(m_fields), len(pt_fields))
    d += '/-- kinematics.prepare, `none` when the translator rejected it -/\n'
    d += 'def prepareEval (c : Consts) (pt : Pt) : Option Pt := %s\n\n' % (
        'some (%s c pt)' % kin_names['prepare'][0] if kin_names.get('prepare', (None, None))[1] == 'Pt' else 'none')
    d += 'def bmkEval (set entry : String) (c : Consts) (m : CFFs) (pt : Pt) : Option Float :=\n  match set, entry with\n'
    for cls in FORMULA_SETS:
        for e, (lname, typ) in produced[cls].items():
            if typ == 'R':
                d += '  | "%s", "%s" => some (FS_%s_%s c m pt)\n' % (cls, e, cls, e)
    for e, (lname, typ) in dv_names.items():
        d += '  | _, "%s" => some (%s c m pt)\n' % (e, lname)
    d += '  | _, _ => none\n\n'
    d += 'def kinEval (f : String) (c : Consts) (pt : Pt) : Option Float :=\n  match f with\n'
    for fn, (lname, typ) in kin_names.items():
        node = kin.functions[fn]
        params = [a.arg for a in node.args.args]
        if typ != 'R':
            continue
        if params == ['pt']:
            d += '  | "%s" => some (%s c pt)\n' % (fn, lname)
        else:
            d += '  | "%s" => some (%s c %s)\n' % (fn, lname, ' '.join('pt.' + safe(p) for p in params))
    d += '  | _ => none\n\n'
    d += 'def xsEval (set : String) (c : Consts) (m : CFFs) (pt : Pt) (target : Nat) (in2pol : Float) (weighted : Bool) : Option (Option Float) :=\n  match set with\n'
    for cls in FORMULA_SETS:
        if cls in xs_missing:
            continue
        d += '  | "%s" => some (XS_%s c m pt target in2pol weighted)\n' % (cls, cls)
    d += '  | _ => none\n\nend Gep.F\n'
    instantiate.write_if_changed(os.path.join(instantiate.LEAN, 'Gen', 'BmkDispatchF.lean'), d)
    M_FIELDS[:] = m_fields
    gen_sym(tk, tb, td, pt_fields, safe)
    for cls in xs_missing:
        rejected[(cls, 'XS')] = 'a term of the cross section was not translated'
    return dict(produced=produced, rejected=rejected, pt_fields=pt_fields, m_fields=m_fields,
                ndefs=len(tk.defs) + len(tb.defs) + len(td.defs), kin=kin_names, dvcs=dv_names)


# defs that depend on the beam helicity but are neither even nor odd in it (sums of both kinds)
LAMBDA_MIXED_PREFIXES = ('TINT', 'TDVCS2', 'TBH2', 'XS')


COND_FIELDS = {k: v for k, v in py2lean.Translator.CONDS.items() if k != 'always'}
M_FIELDS = []


def gen_sym(tk, tb, td, pt_fields, safe):
    """Gen/BmkSymR.lean: for every translated function of the point its behaviour under
    phi -> 2pi - phi (mirror), helicity flip and charge flip, as far as it is uniform:
      * a function that never reads a field (directly or through callees) is invariant: `rfl`;
      * a helicity-dependent coefficient is expected to be odd (one factor lambda): `simp only; ring`.
    The list of lemmas is regenerated from the source; a change that breaks one breaks the build."""
    meta = {}
    for t in (tk, tb, td):
        meta.update(t.meta)
    closure = {}

    def reads(n):
        if n not in closure:
            closure[n] = set(meta[n]['reads'])
            for c in meta[n]['callees']:
                if c in meta:
                    closure[n] |= reads(c)
        return closure[n]
    out = '-- AUTO-GENERATED by tools/py2lean_targets.py — do not edit\n'
    out += 'import Gen.BmkR\nimport Proofs.BmkAttr\nimport Mathlib.Tactic.Ring\nset_option maxRecDepth 4000\nnamespace Gep.R\n\n'
    out += '/-- phi -> 2 pi - phi -/\nnoncomputable def mirror (pt : Pt) : Pt := { pt with phi := 2 * Real.pi - pt.phi }\n'
    out += '/-- beam helicity flip -/\ndef flipPol (pt : Pt) : Pt := { pt with in1polarization := -pt.in1polarization }\n'
    out += '/-- lepton charge flip -/\ndef flipChg (pt : Pt) : Pt := { pt with in1charge := -pt.in1charge }\n\n'
    for f in pt_fields:
        sf = safe(f)
        for op, fld, val in (('mirror', 'phi', '2 * Real.pi - pt.phi'), ('flipPol', 'in1polarization', '-pt.in1polarization'),
                             ('flipChg', 'in1charge', '-pt.in1charge')):
            rhs = val if f == fld else 'pt.' + sf
            out += '@[simp, bmk_sym] theorem %s_%s (pt : Pt) : (%s pt).%s = %s := rfl\n' % (op, sf, op, sf, rhs)
    out += '\n'
    for cond, fields in COND_FIELDS.items():
        out += 'def %s (m : CFFs) : CFFs := { m with %s }\n' % (cond, ', '.join('%s := 0' % f for f in fields))
        for f in M_FIELDS:
            out += '@[simp, bmk_sym] theorem %s_%s (m : CFFs) : (%s m).%s = %s := rfl\n' % (cond, f, cond, f, '0' if f in fields else 'm.' + f)
    out += '\n'
    info = {}
    for n, md in meta.items():
        if not md['has_pt'] or md['typ'] != 'R':
            continue
        args = 'c m' if md['has_m'] else 'c'
        binders = '(c : Consts) (m : CFFs) (pt : Pt)' if md['has_m'] else '(c : Consts) (pt : Pt)'
        r = reads(n)
        lem = n.replace('.', '_')
        info[n] = {}
        van = md.get('vanish') or {}
        ZS = 'mul_zero, zero_mul, add_zero, zero_add, sub_zero, neg_zero, zero_div, sub_self, zero_pow, ne_eq, OfNat.ofNat_ne_zero, not_false_eq_true'
        CX = ('Gep.Cx.mk_re, Gep.Cx.mk_im, Gep.Cx.add_re, Gep.Cx.add_im, Gep.Cx.sub_re, Gep.Cx.sub_im, Gep.Cx.neg_re, Gep.Cx.neg_im, '
              'Gep.Cx.mul_re, Gep.Cx.mul_im, Gep.Cx.div_re, Gep.Cx.div_im, Gep.Cx.smul_re, Gep.Cx.smul_im, Gep.Cx.divR_re, '
              'Gep.Cx.divR_im, Gep.Cx.ofReal_re, Gep.Cx.ofReal_im')
        if van.get('always'):
            zs = sorted({c.replace('.', '_') + '_zero' for c in md['callees'] if c in info and info[c].get('zero')})
            out += '@[bmk_sym] theorem %s_zero %s : %s %s pt = 0 := by\n  simp only [%s, %s]\n' % (
                lem, binders, n, args, ', '.join([n] + zs), ZS)
            info[n]['zero'] = True
        elif md['has_m']:
            for cond in COND_FIELDS:
                if not van.get(cond):
                    continue
                used = []
                for c in md['callees']:
                    if c in info and info[c].get('zero'):
                        used.append(c.replace('.', '_') + '_zero')
                    elif c in info and cond in info[c].get('vanish', []):
                        used.append(c.replace('.', '_') + '_' + cond)
                fl = ['%s_%s' % (cond, f) for f in sorted(md.get('mreads', []))]
                out += '@[bmk_sym] theorem %s_%s (c : Consts) (m : CFFs) (pt : Pt) : %s c (%s m) pt = 0 := by\n' % (lem, cond, n, cond)
                out += '  simp only [%s, %s, %s]\n  try ring\n' % (', '.join([n] + sorted(set(used)) + fl), CX, ZS)
                info[n].setdefault('vanish', []).append(cond)
        if 'phi' not in r:
            out += '@[bmk_sym] theorem %s_mirror %s : %s %s (mirror pt) = %s %s pt := rfl\n' % (lem, binders, n, args, n, args)
            info[n]['mirror'] = 'inv'
        if 'in1charge' not in r:
            out += '@[bmk_sym] theorem %s_flipChg %s : %s %s (flipChg pt) = %s %s pt := rfl\n' % (lem, binders, n, args, n, args)
            info[n]['flipChg'] = 'inv'
        if 'in1polarization' not in r:
            out += '@[bmk_sym] theorem %s_flipPol %s : %s %s (flipPol pt) = %s %s pt := rfl\n' % (lem, binders, n, args, n, args)
            info[n]['flipPol'] = 'inv'
        elif not md['pyname'].startswith(LAMBDA_MIXED_PREFIXES) and md['pyname'] not in ('prepare',) and 'TP' not in md['pyname']:
            used = []
            for c in md['callees']:
                if c in info and info[c].get('zero'):
                    used.append(c.replace('.', '_') + '_zero')
                elif c in info and 'flipPol' in info[c]:
                    used.append(c.replace('.', '_') + '_flipPol')
            out += '@[bmk_sym] theorem %s_flipPol %s : %s %s (flipPol pt) = -%s %s pt := by\n' % (lem, binders, n, args, n, args)
            out += '  simp only [%s, mul_zero, zero_mul, add_zero, zero_add]\n  try ring\n' % ', '.join([n] + sorted(set(used)) + ['flipPol_' + safe(f) for f in sorted(md['reads'])])
            info[n]['flipPol'] = 'odd'
    out += '\nend Gep.R\n'
    instantiate.write_if_changed(os.path.join(instantiate.LEAN, 'Gen', 'BmkSymR.lean'), out)
    import json
    json.dump(info, open(os.path.join(instantiate.LEAN, 'Gen', 'BmkSym.info.json'), 'w'), indent=0)


def regen_all():
    info = gen_bmk()
    import json
    json.dump({'ndefs': info['ndefs'], 'rejected': {'%s.%s' % k: v for k, v in info['rejected'].items()},
               'pt_fields': info['pt_fields'], 'm_fields': info['m_fields'],
               'entries': {c: sorted(v) for c, v in info['produced'].items()}},
              open(os.path.join(HERE, '..', 'lean', 'Gen', 'Bmk.info.json'), 'w'), indent=1)
    return 0


if __name__ == '__main__':
    info = gen_bmk()
    print('defs', info['ndefs'])
    print('rejected', info['rejected'])
    print('pt fields', info['pt_fields'])
    print('m fields', info['m_fields'])

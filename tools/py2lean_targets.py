"""What gets translated from /repo into lean/Gen (run by tools/regen.py on every check)."""
import os
import sys

HERE = os.path.dirname(os.path.abspath(__file__))
sys.path.insert(0, HERE)
import instantiate  # noqa: E402
import py2lean  # noqa: E402

REPO = os.environ.get('GEPARD_REPO', '/repo')
SRC = os.path.join(REPO, 'src', 'gepard')

FORMULA_SETS = ['BMK', 'hotfixedBMK', 'BM10ex', 'BM10', 'BM10tw2']
ENTRY = ['TBH2unp', 'TINTunp', 'TDVCS2unp', 'TBH2LP', 'TINTLP', 'TDVCS2LP', 'TBH2TP', 'TINTTP', 'TDVCS2TP',
         'PreFacBH', 'PreFacDVCS', 'PreFacINT',
         'cBH0unp', 'cBH1unp', 'cBH2unp', 'cBH0LP', 'cBH1LP', 'cBH0TP', 'cBH1TP', 'sBH1TP',
         'cINT0unp', 'cINT1unp', 'sINT1unp', 'cINT2unp', 'sINT2unp', 'cINT3unp', 'sINT3unp',
         'cINT0LP', 'cINT1LP', 'sINT1LP', 'cINT2LP', 'sINT2LP', 'cINT3LP', 'sINT3LP',
         'cDVCS0unp', 'cDVCS1unp', 'sDVCS1unp', 'cDVCS0LP', 'cDVCS1LP', 'sDVCS1LP',
         'ReCCALINTunp', 'ImCCALINTunp', 'ReDELCCALINTunp', 'ImDELCCALINTunp', 'CCALDVCSunp']


def struct(name, fields):
    return 'structure %s where\n' % name + ''.join('  %s : K\n' % f for f in fields) + '\n'


def gen_bmk():
    """kinematics.py + bmk.py + the formula-level parts of dvcs.py -> Gen/BmkF.lean, Gen/BmkR.lean.
    Returns dict with what was produced (entry points per formula set, rejected ones)."""
    pt_fields, m_fields = [], []
    consts = {'Mp': 'c.Mp', 'Mp2': 'c.Mp2', 'alpha': 'c.alpha', 'GeV2nb': 'c.GeV2nb', 'pi': 'kpi'}
    static = {"not hasattr(pt, 's')": False, "'t' in pt": True, "'phi' in pt": True,
              'cff.HybridCFF in self.__class__.mro()': False}
    kin = py2lean.Module(os.path.join(SRC, 'kinematics.py'))
    tk = py2lean.Translator(kin, consts=consts, static_conds=static, pt_fields=pt_fields, m_fields=m_fields)
    kin_names = {}
    for fn in ['tmin', 'tmax', 'K2', 'J', 'r', 'P1P2', 'anintP1P2', 'weight_BH', 'long2trans', 'HandFlux', 'prepare', 'xBmin']:
        if fn in kin.functions:
            kin_names[fn] = tk.gen_func(kin.functions[fn])
    bmk = py2lean.Module(os.path.join(SRC, 'bmk.py'))
    tb = py2lean.Translator(bmk, consts=consts, static_conds=static, pt_fields=pt_fields, m_fields=m_fields,
                            module_funcs={k: (v[0], None) for k, v in kin_names.items()})
    produced, rejected = {}, {}
    for cls in FORMULA_SETS:
        produced[cls] = {}
        for e in ENTRY:
            try:
                tb.resolve(cls, e)
            except py2lean.Reject:
                continue
            try:
                produced[cls][e] = tb.gen_method(cls, e)
            except py2lean.Reject as ex:
                rejected[(cls, e)] = str(ex)
    dv = py2lean.Module(os.path.join(SRC, 'dvcs.py'))
    td = py2lean.Translator(dv, consts=consts, static_conds=static, pt_fields=pt_fields, m_fields=m_fields)
    dv_names = {}
    for e in ['PreFacSigma', '_XGAMMA_DVCS_t_Ex']:
        dv_names[e] = td.gen_method('DVCS', e)
    # every field the formulas read, plus those prepare() writes
    for f in ['xB', 'Q2', 't', 'W', 's', 'phi', 'varphi', 'in1polarization', 'in1charge']:
        if f not in pt_fields:
            pt_fields.append(f)
    safe = tk.safe
    body = '/- kinematics.py, bmk.py and the formula-level methods of dvcs.py, translated by tools/py2lean.py -/\n\n'
    body += struct('Consts', ['Mp', 'Mp2', 'alpha', 'GeV2nb'])
    body += struct('Pt', [safe(f) for f in pt_fields])
    body += struct('CFFs', m_fields)
    body += '\n'.join(tk.defs) + '\n' + '\n'.join(tb.defs) + '\n' + '\n'.join(td.defs) + '\n'
    # stable aliases  <Set>.<entry>'  for the entry points of every formula set
    body += '/-! entry points per formula set -/\n'
    for cls in FORMULA_SETS:
        for e, (lname, typ) in produced[cls].items():
            alias = 'FS_%s_%s' % (cls, e)
            body += 'abbrev %s (c : Consts) (m : CFFs) (pt : Pt) : %s := %s c m pt\n' % (alias, tb.lean_type(typ), lname)
    # cross-section assembly of dvcs.DVCS.XS per formula set (hand-transcribed skeleton; the T-terms are the
    # translated ones).  target: 0 = U, 1 = L, 2 = T.  Flips and the copy of the point are the caller's business.
    body += '\n/-! DVCS.XS: wgh * PreFacSigma * (unp + in2polarization * (LP | TP)) -/\n'
    for cls in FORMULA_SETS:
        have = produced[cls]
        unp = ' + '.join('FS_%s_%s c m pt' % (cls, e) for e in ('TBH2unp', 'TINTunp', 'TDVCS2unp'))
        lp = ' + '.join('FS_%s_%s c m pt' % (cls, e) for e in ('TBH2LP', 'TINTLP', 'TDVCS2LP')) if 'TBH2LP' in have else None
        tp = ' + '.join('FS_%s_%s c m pt' % (cls, e) for e in ('TBH2TP', 'TINTTP', 'TDVCS2TP')) if 'TBH2TP' in have else None
        body += 'def XSaux_%s (c : Consts) (m : CFFs) (pt : Pt) (target : Nat) (in2pol : K) : Option K :=\n' % cls
        body += '  let aux : K := %s\n' % unp
        body += '  match target with\n  | 0 => some aux\n'
        body += '  | 1 => %s\n' % ('some (aux + in2pol * (%s))' % lp if lp else 'none   -- ValueError: LP not implemented')
        body += '  | 2 => %s\n' % ('some (aux + in2pol * (%s))' % tp if tp else 'none')
        body += '  | _ => none\n'
        body += 'def XS_%s (c : Consts) (m : CFFs) (pt : Pt) (target : Nat) (in2pol : K) (weighted : Bool) : Option K :=\n' % cls
        body += '  (XSaux_%s c m pt target in2pol).map fun aux =>\n' % cls
        body += '    (if weighted then %s c pt else 1) * %s c m pt * aux\n\n' % (kin_names['weight_BH'][0], dv_names['PreFacSigma'][0])
    instantiate.emit('Bmk', body, 'src/gepard/{kinematics,bmk,dvcs}.py via tools/py2lean.py')
    # executable dispatch by name (Float instance only), used by the drivers
    d = '-- AUTO-GENERATED by tools/py2lean_targets.py — do not edit\nimport Gen.BmkF\nnamespace Gep.F\n\n'
    d += 'def constsOfList : List Float → Option Consts\n  | [%s] => some ⟨%s⟩\n  | _ => none\n\n' % (
        ', '.join('a%d' % i for i in range(4)), ', '.join('a%d' % i for i in range(4)))
    d += 'def cffsOfList : List Float → Option CFFs\n  | [%s] => some ⟨%s⟩\n  | _ => none\n\n' % (
        ', '.join('a%d' % i for i in range(len(m_fields))), ', '.join('a%d' % i for i in range(len(m_fields))))
    d += 'def ptOfList : List Float → Option Pt\n  | [%s] => some ⟨%s⟩\n  | _ => none\n\n' % (
        ', '.join('a%d' % i for i in range(len(pt_fields))), ', '.join('a%d' % i for i in range(len(pt_fields))))
    d += 'def listOfPt (p : Pt) : List Float := [%s]\n\n' % ', '.join('p.' + safe(f) for f in pt_fields)
    d += 'def bmkEval (set entry : String) (c : Consts) (m : CFFs) (pt : Pt) : Option Float :=\n  match set, entry with\n'
    for cls in FORMULA_SETS:
        for e, (lname, typ) in produced[cls].items():
            if typ == 'R':
                d += '  | "%s", "%s" => some (FS_%s_%s c m pt)\n' % (cls, e, cls, e)
    for e, (lname, typ) in dv_names.items():
        d += '  | _, "%s" => some (%s c m pt)\n' % (e, lname)
    d += '  | _, _ => none\n\n'
    d += 'def kinEval (f : String) (c : Consts) (pt : Pt) : Option Float :=\n  match f with\n'
    for fn, (lname, typ) in kin_names.items():
        node = kin.functions[fn]
        params = [a.arg for a in node.args.args]
        if typ != 'R':
            continue
        if params == ['pt']:
            d += '  | "%s" => some (%s c pt)\n' % (fn, lname)
        else:
            d += '  | "%s" => some (%s c %s)\n' % (fn, lname, ' '.join('pt.' + safe(p) for p in params))
    d += '  | _ => none\n\n'
    d += 'def xsEval (set : String) (c : Consts) (m : CFFs) (pt : Pt) (target : Nat) (in2pol : Float) (weighted : Bool) : Option (Option Float) :=\n  match set with\n'
    for cls in FORMULA_SETS:
        d += '  | "%s" => some (XS_%s c m pt target in2pol weighted)\n' % (cls, cls)
    d += '  | _ => none\n\nend Gep.F\n'
    instantiate.write_if_changed(os.path.join(instantiate.LEAN, 'Gen', 'BmkDispatchF.lean'), d)
    return dict(produced=produced, rejected=rejected, pt_fields=pt_fields, m_fields=m_fields,
                ndefs=len(tk.defs) + len(tb.defs) + len(td.defs), kin=kin_names, dvcs=dv_names)


def regen_all():
    info = gen_bmk()
    import json
    json.dump({'ndefs': info['ndefs'], 'rejected': {'%s.%s' % k: v for k, v in info['rejected'].items()},
               'pt_fields': info['pt_fields'], 'm_fields': info['m_fields'],
               'entries': {c: sorted(v) for c, v in info['produced'].items()}},
              open(os.path.join(HERE, '..', 'lean', 'Gen', 'Bmk.info.json'), 'w'), indent=1)
    return 0


if __name__ == '__main__':
    info = gen_bmk()
    print('defs', info['ndefs'])
    print('rejected', info['rejected'])
    print('pt fields', info['pt_fields'])
    print('m fields', info['m_fields'])

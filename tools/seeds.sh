#!/bin/sh
# tools/seeds.sh "<ids>" "<seeds>" [tier]   — run checks for several seeds, print only the verdict lines
cd "$(dirname "$0")/.."
for id in $1; do
  for s in $2; do
    VERIF_SEED=$s ./check $id --tier ${3:-quick} 2>&1 | grep -E "^(OK|FAIL|VIOLATION|ERROR|TIMEOUT|KNOWN)" | cut -c1-300 | sed "s/^/[$id s=$s] /"
  done
done

"""tools/mkjobs.py seeded|harmless > jobs   — job lines for tools/partest.sh
seeded:   one job per seeded/<Cxx>-<n>/patch.diff, checked by its own property's check
harmless: one job per harmless/*.diff, checked by every check of its group (notes/harmprompts/groups.json,
          or the "checks" entry of its json)"""
import glob, json, os, re, sys
root = os.path.dirname(os.path.dirname(os.path.abspath(__file__)))
kind = sys.argv[1]
if kind == 'seeded':
    for d in sorted(glob.glob(os.path.join(root, 'seeded', 'C??-*'))):
        name = os.path.basename(d)
        print(name, os.path.join(d, 'patch.diff'), name.split('-')[0])
else:
    groups = json.load(open(os.path.join(root, 'notes', 'harmprompts', 'groups.json')))
    for p in sorted(glob.glob(os.path.join(root, 'harmless', '*.diff'))):
        name = os.path.basename(p)[:-5]
        meta = json.load(open(p[:-5] + '.json')) if os.path.exists(p[:-5] + '.json') else {}
        checks = meta.get('checks')
        if not checks:
            g = re.match(r'(H\d)', name)
            checks = ' '.join(groups[g.group(1)]) if g else ''
        print(name, p, checks)

"""tools/gen_adim.py — translate the formula functions of gepard's adim.py / c1dvcs.py (and the
three composite special functions S2_prime, S3_prime, S2_tilde of special.py, the colour factors
of constants.py) from the Python AST of the CURRENT /repo tree into the scalar template
lean/Scalar/Adim.lean.in  (property C03).

What is translated mechanically (function by function, expression by expression):
    constants.NC CF CA CG TF
    special.S2_prime, S3_prime (call sites must pass z = n/2), S2_tilde
    adim.non_singlet_LO, singlet_LO, non_singlet_NLO, singlet_NLO
    c1dvcs.c1_F2, c1_FL, c1_F1, c1_V
    adim.block, c1dvcs.shift1, c1dvcs.C1   — by SYMBOLIC EVALUATION of their bodies (class Sym below): the string
        dispatch on process_class / m.scheme is executed for each of the 3 x 3 combinations (DIS, DVCS, any other
        string) x (msbar, csbar, any other string), following if / elif / else, early returns, `raise`, local
        variables and calls among these functions; the numpy plumbing (np.array, atleast_3d, transpose, zeros_like,
        ones_like, block, stack, concatenate, einsum, indexing, elementwise arithmetic) is evaluated on symbolic arrays
        whose entries are Lean expressions, for ONE point of the array of moments (the axis of moments is tracked as
        the axis 'K').  What each branch computes ends up in the template, whatever the shape of the control flow.
What is hand-written here (HEAD text below): cpow, pochhammer's loop, the record types.

The model is at ONE complex moment n.  Calls of the primitive special functions are not
translated: each distinct call `F(arg)` becomes a field of a parameter structure
(SF: values at Mellin moment n;  SJ: values at conformal moment j) that the harness fills from
gepard.special at the same n.  The tables CALLS_N / CALLS_J fix which call is which field; the argument is matched
as an AFFINE FORM a*n + b with exact rational a, b (so `n/2`, `0.5*n`, `(1+n)/2`, `(n+1)/2`, a local `nh = n/2` are
the same call); a call that is not in the table is REJECTED (the translator raises rather than guesses).

Typing: every Python sub-expression is inferred real (K) or complex (Cx K); a real operand of a
mixed operation is promoted with `r` (= Cx.ofReal), which is what Python/numpy do (float → complex
before a complex operation).  `z ** k` for a literal integer k is `cpow z k` (k<0: `r 1 / cpow z |k|`).
"""
import ast
import itertools
import os
import sys
from fractions import Fraction

HERE = os.path.dirname(os.path.abspath(__file__))
VERIF = os.path.dirname(HERE)
REPO = os.environ.get('GEPARD_REPO', '/repo')
SRC = os.path.join(REPO, 'src', 'gepard')
OUT = os.path.join(VERIF, 'lean', 'Scalar', 'Adim.lean.in')


class Reject(Exception):
    pass


F = Fraction
# primitive special-function calls → (field, type).  Key: (function, (a, b)) for the argument a*n + b
CALLS_N = {
    ('S1', (F(1), F(0))): ('P.S1', 'C'),
    ('S2', (F(1), F(0))): ('P.S2', 'C'),
    ('S2', (F(1, 2), F(0))): ('P.S2h', 'C'),
    ('S3', (F(1, 2), F(0))): ('P.S3h', 'C'),
    ('S2', (F(1, 2), F(-1, 2))): ('P.S2hm', 'C'),
    ('S3', (F(1, 2), F(-1, 2))): ('P.S3hm', 'C'),
    ('psi', (F(1, 2), F(0))): ('P.psih', 'C'),
    ('psi', (F(1, 2), F(1, 2))): ('P.psih1', 'C'),
    ('MellinF2', (F(1), F(0))): ('P.MF2', 'C'),
    ('zeta', (F(0), F(2))): ('P.z2', 'R'),
    ('zeta', (F(0), F(3))): ('P.z3', 'R'),
}
# … a*j + b
CALLS_J = {
    ('S1', (F(1), F(0))): ('J.S1j', 'C'),
    ('S1', (F(1), F(1))): ('J.S1j1', 'C'),
    ('S1', (F(1), F(2))): ('J.S1j2', 'C'),
    ('S1', (F(1), F(3, 2))): ('J.S1j32', 'C'),
}


def affine(node, sym, var):
    """(a, b), exact rationals, with  node == a*var + b  as an expression of Python numbers; None if it is not of
    that form.  `sym`: local / formal names that stand for such forms."""
    if isinstance(node, ast.Constant):
        v = node.value
        if isinstance(v, bool) or not isinstance(v, (int, float)) or v != v or v in (float('inf'), float('-inf')):
            return None
        return F(0), F(v)
    if isinstance(node, ast.Name):
        if node.id in sym:
            return sym[node.id]
        if node.id == var:
            return F(1), F(0)
        return None
    if isinstance(node, ast.UnaryOp) and isinstance(node.op, (ast.USub, ast.UAdd)):
        x = affine(node.operand, sym, var)
        if x is None:
            return None
        return (-x[0], -x[1]) if isinstance(node.op, ast.USub) else x
    if isinstance(node, ast.BinOp):
        x, y = affine(node.left, sym, var), affine(node.right, sym, var)
        if x is None or y is None:
            return None
        if isinstance(node.op, ast.Add):
            return x[0] + y[0], x[1] + y[1]
        if isinstance(node.op, ast.Sub):
            return x[0] - y[0], x[1] - y[1]
        if isinstance(node.op, ast.Mult):
            if x[0] == 0:
                return x[1] * y[0], x[1] * y[1]
            if y[0] == 0:
                return y[1] * x[0], y[1] * x[1]
            return None
        if isinstance(node.op, ast.Div):
            if y[0] != 0 or y[1] == 0:
                return None
            return x[0] / y[1], x[1] / y[1]
    return None


# functions of the model that may be called from translated code:
#   name -> (lean name, [param types], return type)
MODEL_FUNCS = {
    'poch': ('poch', ['C', 'N'], 'C'),
    'S2_prime': None, 'S3_prime': None, 'S2_tilde': None,   # filled below (special handling)
    'non_singlet_NLO': ('non_singlet_NLO', ['C', 'R', 'R'], 'C'),
}


def num(v):
    """Python numeric literal → K literal"""
    if isinstance(v, bool) or not isinstance(v, (int, float)):
        raise Reject('literal %r' % (v,))
    if isinstance(v, int) or float(v).is_integer():
        return '(%d : K)' % int(v)
    s = repr(float(v))
    if 'e' in s or 'inf' in s or 'nan' in s:
        raise Reject('literal %r' % (v,))
    return '(%s : K)' % s


class Fn:
    """translator for one function body"""

    def __init__(self, env, calls, sym=None, kw='P', var='n'):
        self.env = dict(env)          # python name -> (lean text, type)
        self.calls = calls
        self.sym = dict(sym or {})    # python name -> affine form (a, b) in `var` it stands for (for call keys)
        self.var = var                # the moment variable the call tables refer to
        self.kw = kw

    # ---- affine form of a call argument, with formal parameters / locals substituted
    def canon(self, node):
        return affine(node, self.sym, self.var)

    def promote(self, t):
        txt, ty = t
        if ty == 'C':
            return txt
        if ty == 'R':
            return 'r %s' % paren(txt)
        raise Reject('cannot promote %s' % ty)

    def expr(self, e):
        if isinstance(e, ast.Constant):
            return num(e.value), 'R'
        if isinstance(e, ast.Name):
            if e.id in self.env:
                return self.env[e.id]
            raise Reject('unknown name %s (line %d)' % (e.id, e.lineno))
        if isinstance(e, ast.UnaryOp):
            if isinstance(e.op, ast.USub):
                t, ty = self.expr(e.operand)
                return '-%s' % paren(t), ty
            if isinstance(e.op, ast.UAdd):
                return self.expr(e.operand)
            raise Reject('unary op %s' % ast.dump(e.op))
        if isinstance(e, ast.BinOp):
            if isinstance(e.op, ast.Pow):
                return self.power(e)
            ops = {ast.Add: '+', ast.Sub: '-', ast.Mult: '*', ast.Div: '/'}
            if type(e.op) not in ops:
                raise Reject('binary op %s (line %d)' % (type(e.op).__name__, e.lineno))
            a, b = self.expr(e.left), self.expr(e.right)
            o = ops[type(e.op)]
            if a[1] == 'R' and b[1] == 'R':
                return '%s %s %s' % (paren(a[0]), o, paren(b[0])), 'R'
            return '%s %s %s' % (paren(self.promote(a)), o, paren(self.promote(b))), 'C'
        if isinstance(e, ast.Call):
            return self.call(e)
        raise Reject('expression %s (line %d)' % (type(e).__name__, getattr(e, 'lineno', 0)))

    def power(self, e):
        ex = e.right
        neg = False
        if isinstance(ex, ast.UnaryOp) and isinstance(ex.op, ast.USub):
            neg, ex = True, ex.operand
        if not (isinstance(ex, ast.Constant) and isinstance(ex.value, int) and not isinstance(ex.value, bool)
                and 0 <= ex.value <= 64):
            raise Reject('power with non-literal-integer exponent (line %d)' % e.lineno)
        k = ex.value
        b, ty = self.expr(e.left)
        if ty == 'R':
            if neg:
                return '(1 : K) / (%s ^ (%d : Nat))' % (paren(b), k), 'R'
            return '%s ^ (%d : Nat)' % (paren(b), k), 'R'
        if neg:
            return 'r (1 : K) / cpow %s %d' % (paren(b), k), 'C'
        return 'cpow %s %d' % (paren(b), k), 'C'

    def call(self, e):
        if e.keywords:
            raise Reject('keyword arguments in call (line %d)' % e.lineno)
        if not isinstance(e.func, ast.Name):
            raise Reject('call of %s (line %d)' % (ast.unparse(e.func), e.lineno))
        f = e.func.id
        if f in ('S2_prime', 'S3_prime'):
            # special.S2_prime(z, prty): call sites must pass z = n/2
            if len(e.args) != 2 or self.var != 'n' or self.canon(e.args[0]) != (F(1, 2), F(0)):
                raise Reject('%s call site is not (n/2, prty) (line %d)' % (f, e.lineno))
            p = self.expr(e.args[1])
            if p[1] != 'R':
                raise Reject('prty not real')
            return '%s_half %s P' % (f, paren(p[0])), 'C'
        if f == 'S2_tilde':
            if len(e.args) != 2 or self.var != 'n' or self.canon(e.args[0]) != (F(1), F(0)):
                raise Reject('S2_tilde call site is not (n, prty) (line %d)' % e.lineno)
            p = self.expr(e.args[1])
            return 'S2_tilde n %s P' % paren(p[0]), 'C'
        if f == 'poch':
            if len(e.args) != 2 or not (isinstance(e.args[1], ast.Constant) and isinstance(e.args[1].value, int)
                                        and e.args[1].value >= 1):
                raise Reject('poch with non-literal index (line %d)' % e.lineno)
            z = self.expr(e.args[0])
            return 'poch %s %d' % (paren(self.promote(z)), e.args[1].value), 'C'
        if f == 'non_singlet_NLO':
            if len(e.args) != 3:
                raise Reject('non_singlet_NLO arity')
            a = [self.expr(x) for x in e.args]
            if a[0][1] != 'C' or a[1][1] != 'R' or a[2][1] != 'R':
                raise Reject('non_singlet_NLO argument types')
            if self.var != 'n' or self.canon(e.args[0]) != (F(1), F(0)):
                raise Reject('non_singlet_NLO is not called at the moment n its special-function values belong to (line %d)' % e.lineno)
            return 'non_singlet_NLO %s %s %s P' % tuple(paren(x[0]) for x in a), 'C'
        if f in ('c1_F2', 'c1_FL'):
            a = [self.expr(x) for x in e.args]
            if len(a) != 2 or a[0][1] != 'C' or a[1][1] != 'R':
                raise Reject('%s argument types' % f)
            if self.var != 'n' or self.canon(e.args[0]) != (F(1), F(0)):
                raise Reject('%s is not called at the moment n its special-function values belong to (line %d)' % (f, e.lineno))
            return '%s %s %s P' % (f, paren(a[0][0]), paren(a[1][0])), 'V'
        if len(e.args) == 1:
            key = (f, self.canon(e.args[0]))
            if key[1] is not None and key in self.calls:
                return self.calls[key]
        raise Reject('call %s is not in the table of special-function parameters (line %d)' % (
            ast.unparse(e), e.lineno))


def paren(s):
    s = s.strip()
    if all(c.isalnum() or c in '._' for c in s):
        return s
    if s.startswith('(') and matching(s):
        return s
    return '(' + s + ')'


def matching(s):
    d = 0
    for i, c in enumerate(s):
        if c == '(':
            d += 1
        elif c == ')':
            d -= 1
            if d == 0 and i != len(s) - 1:
                return False
    return d == 0


def find_func(tree, name):
    for n in tree.body:
        if isinstance(n, ast.FunctionDef) and n.name == name:
            return n
    raise Reject('function %s not found' % name)


def body_stmts(fn):
    b = list(fn.body)
    if b and isinstance(b[0], ast.Expr) and isinstance(b[0].value, ast.Constant) and isinstance(b[0].value.value, str):
        b = b[1:]
    return b


def translate_function(fn, params, tr, ret_kind, lean_name, lean_sig, ret_ty, fname):
    """straight-line function: assignments `x = expr` then `return …`"""
    got = [a.arg for a in fn.args.args]
    if got != params:
        raise Reject('%s: parameters %s, expected %s' % (fn.name, got, params))
    lines = ['/-- %s.%s (line %d) -/' % (fname, fn.name, fn.lineno),
             'def %s %s : %s :=' % (lean_name, lean_sig, ret_ty)]
    stmts = body_stmts(fn)
    for st in stmts[:-1]:
        if isinstance(st, ast.AugAssign) and isinstance(st.target, ast.Name):      # x += e  is  x = x + e
            st = ast.copy_location(ast.Assign(targets=[ast.Name(id=st.target.id, ctx=ast.Store())], value=ast.copy_location(
                ast.BinOp(left=ast.Name(id=st.target.id, ctx=ast.Load()), op=st.op, right=st.value), st)), st)
        if not (isinstance(st, ast.Assign) and len(st.targets) == 1 and isinstance(st.targets[0], ast.Name)):
            raise Reject('%s: statement at line %d is not a simple assignment' % (fn.name, st.lineno))
        name = st.targets[0].id
        form = tr.canon(st.value)
        try:
            t, ty = tr.expr(st.value)
        except Reject:
            # zm = z - 1/2 where z itself has no value in the model (only the special functions AT it have):
            # the name stands for that argument in later calls, and for nothing else
            if form is None or form[0] == 0:
                raise
            tr.env.pop(name, None)
            tr.sym[name] = form
            continue
        lty = {'R': 'K', 'C': 'C', 'V': 'V4'}[ty]
        lines.append('  let %s : %s := %s' % (name, lty, t))
        tr.env[name] = (name, ty)
        tr.sym.pop(name, None)
        if form is not None and ty == 'C':
            tr.sym[name] = form       # e.g. nh = n/2: a later S2_prime(nh, prty) is the call at n/2
    last = stmts[-1]
    if not isinstance(last, ast.Return):
        raise Reject('%s: last statement is not return' % fn.name)
    v = last.value
    if ret_kind == 'C':
        t = tr.expr(v)
        lines.append('  ' + tr.promote(t))
    elif ret_kind == 'M2':
        # np.array([[a, b], [c, d]])
        ok = (isinstance(v, ast.Call) and ast.unparse(v.func) == 'np.array' and len(v.args) == 1 and
              isinstance(v.args[0], ast.List) and len(v.args[0].elts) == 2 and
              all(isinstance(r, ast.List) and len(r.elts) == 2 for r in v.args[0].elts))
        if ok:
            el = [tr.promote(tr.expr(x)) for r in v.args[0].elts for x in r.elts]
        else:
            # any other way of building the array of shape (2, 2, moments): evaluated symbolically
            res = eval_return(tr, v)
            if res.shape != (2, 2, 'K'):
                raise Reject('%s: returns an array of shape %r, expected (2, 2, moments)' % (fn.name, res.shape))
            el = [tr.promote(res.ent[(i, k, 0)]) for i in range(2) for k in range(2)]
        lines.append('  { qq := %s, qg := %s, gq := %s, gg := %s }' % tuple(el))
    elif ret_kind == 'V4':
        # np.array((Q, G, NSP, NSM)).transpose()
        ok = (isinstance(v, ast.Call) and isinstance(v.func, ast.Attribute) and v.func.attr == 'transpose' and
              not v.args and isinstance(v.func.value, ast.Call) and ast.unparse(v.func.value.func) == 'np.array' and
              len(v.func.value.args) == 1 and isinstance(v.func.value.args[0], ast.Tuple) and
              len(v.func.value.args[0].elts) == 4)
        if ok:
            el = [tr.promote(tr.expr(x)) for x in v.func.value.args[0].elts]
        else:
            res = eval_return(tr, v)
            if res.shape != ('K', 4):
                raise Reject('%s: returns an array of shape %r, expected (moments, 4)' % (fn.name, res.shape))
            el = [tr.promote(res.ent[(0, i)]) for i in range(4)]
        lines.append('  { Q := %s, G := %s, NSP := %s, NSM := %s }' % tuple(el))
    elif ret_kind == 'V4sub':
        # c1_F2(n, nf) - c1_FL(n, nf)
        if not (isinstance(v, ast.BinOp) and isinstance(v.op, ast.Sub)):
            raise Reject('%s: return is not a difference' % fn.name)
        a, b = tr.expr(v.left), tr.expr(v.right)
        if a[1] != 'V' or b[1] != 'V':
            raise Reject('%s: return operands are not coefficient vectors' % fn.name)
        lines.append('  V4.sub %s %s' % (paren(a[0]), paren(b[0])))
    else:
        raise Reject(ret_kind)
    return '\n'.join(lines) + '\n'


# ------------------------------------------------------------------------------------------------
# symbolic evaluation of the dispatch / array-plumbing functions: adim.block, c1dvcs.shift1, c1dvcs.C1
# ------------------------------------------------------------------------------------------------

class Raised(Exception):
    """the evaluated Python code executes `raise`"""


class Arr:
    """a numpy array at ONE point of the array of moments.  shape: tuple of axis sizes, the axis of moments is 'K';
    ent: {index tuple (0 at the 'K' axis) -> (lean text, 'R' | 'C')}.  A complex scalar has shape ('K',) (it is one
    entry of an array over the moments), a real scalar (nf, ln rf2, a literal) has shape ()."""

    def __init__(self, shape, ent):
        self.shape, self.ent = tuple(shape), ent

    @staticmethod
    def scalar(txt, ty):
        return Arr(('K',), {(0,): (txt, ty)}) if ty == 'C' else Arr((), {(): (txt, ty)})

    @staticmethod
    def keys(shape):
        return itertools.product(*[range(1 if a == 'K' else a) for a in shape])

    def is_scalar(self):
        return self.shape in ((), ('K',))

    def complex_(self):
        return any(ty == 'C' for _, ty in self.ent.values())

    def map(self, f):
        return Arr(self.shape, {k: f(v) for k, v in self.ent.items()})

    def transpose(self, perm):
        if sorted(perm) != list(range(len(self.shape))):
            raise Reject('transpose%r of an array with %d axes' % (tuple(perm), len(self.shape)))
        return Arr([self.shape[i] for i in perm], {tuple(k[i] for i in perm): v for k, v in self.ent.items()})

    @staticmethod
    def stack(items, axis=0):
        """np.stack / np.array of a list: a new axis"""
        if not items or any(x.shape != items[0].shape for x in items):
            raise Reject('stacking arrays of different shapes')
        n = len(items[0].shape)
        if not -n - 1 <= axis <= n:
            raise Reject('stack axis')
        axis %= n + 1
        shape = items[0].shape[:axis] + (len(items),) + items[0].shape[axis:]
        return Arr(shape, {k[:axis] + (i,) + k[axis:]: v for i, x in enumerate(items) for k, v in x.ent.items()})

    @staticmethod
    def concat(items, axis):
        n = len(items[0].shape)
        if any(len(x.shape) != n for x in items) or not -n <= axis < n:
            raise Reject('concatenating arrays of different rank')
        axis %= n
        for x in items:
            if x.shape[axis] == 'K' or x.shape[:axis] + x.shape[axis + 1:] != items[0].shape[:axis] + items[0].shape[axis + 1:]:
                raise Reject('concatenating arrays whose other axes differ (or along the axis of moments)')
        ent, off = {}, 0
        for x in items:
            for k, v in x.ent.items():
                ent[k[:axis] + (k[axis] + off,) + k[axis + 1:]] = v
            off += x.shape[axis]
        return Arr(items[0].shape[:axis] + (off,) + items[0].shape[axis + 1:], ent)


def sc_bin(o, a, b):
    """scalar `a o b` with Python's promotion real -> complex (same text as Fn.expr)"""
    if a[1] == 'R' and b[1] == 'R':
        return '%s %s %s' % (paren(a[0]), o, paren(b[0])), 'R'
    pa = a[0] if a[1] == 'C' else 'r %s' % paren(a[0])
    pb = b[0] if b[1] == 'C' else 'r %s' % paren(b[0])
    return '%s %s %s' % (paren(pa), o, paren(pb)), 'C'


def broadcast(o, A, B):
    """elementwise A o B with numpy's broadcasting (shapes aligned at the right; an axis of size 1 stretches)"""
    n = max(len(A.shape), len(B.shape))
    sa, sb = (1,) * (n - len(A.shape)) + A.shape, (1,) * (n - len(B.shape)) + B.shape
    shape = []
    for x, y in zip(sa, sb):
        if x == y or y == 1:
            shape.append(x)
        elif x == 1:
            shape.append(y)
        else:
            raise Reject('operands of shapes %r and %r do not broadcast' % (A.shape, B.shape))
    ent = {}
    for k in Arr.keys(shape):
        ka = tuple(0 if sa[i] == 1 else k[i] for i in range(n))[n - len(A.shape):]
        kb = tuple(0 if sb[i] == 1 else k[i] for i in range(n))[n - len(B.shape):]
        ent[k] = sc_bin(o, A.ent[ka], B.ent[kb])
    return Arr(shape, ent)


PROCS = ('DIS', 'DVCS')        # the process classes / schemes the model distinguishes; None = any other string
SCHEMES = ('msbar', 'csbar')
M2_FIELDS = {(0, 0): 'qq', (0, 1): 'qg', (1, 0): 'gq', (1, 1): 'gg'}
V4_FIELDS = ['Q', 'G', 'NSP', 'NSM']
# translated functions callable from the evaluated code: name -> (parameters, defaults, kind)
SUMMARIES = {
    'singlet_LO': (['n', 'nf', 'prty'], {'prty': 1}, 'M2'), 'singlet_NLO': (['n', 'nf', 'prty'], {'prty': 1}, 'M2'),
    'non_singlet_LO': (['n', 'nf', 'prty'], {'prty': 1}, 'C'), 'non_singlet_NLO': (['n', 'nf', 'prty'], {}, 'C'),
    'c1_F2': (['n', 'nf'], {}, 'V4'), 'c1_FL': (['n', 'nf'], {}, 'V4'), 'c1_F1': (['n', 'nf'], {}, 'V4'),
    'c1_V': (['j', 'nf'], {}, 'V4J'),
}


class Sym:
    """Evaluate a function body on symbolic arrays for ONE value of (process_class, m.scheme).

    var: the moment variable of the caller's frame ('n' in adim.block on its own, 'j' in shift1 / C1);
    p_form: the affine form, in `var`, of the Mellin moment the record P belongs to ((1,0) for block, (1,1) = j+1 for C1)
    and p_txt the Lean name of that moment; has_J: the record J (S1 around j) is available.
    funcs: {name: FunctionDef} of adim.block / shift1 (evaluated in place when called)."""

    def __init__(self, var, p_form, p_txt, has_J, consts, funcs, pc=None, sch=None, model=None, pcname=None):
        self.var, self.p_form, self.p_txt, self.has_J = var, p_form, p_txt, has_J
        self.consts, self.funcs = consts, funcs
        self.pc, self.sch, self.model, self.pcname = pc, sch, model, pcname
        self.depth = 0

    # ------------------------------------------------------------------ frames
    def frame(self, env, sym):
        fn = Fn(dict(self.consts), CALLS_J if self.var == 'j' else CALLS_N, sym=sym, var=self.var)
        return dict(arr=dict(env), fn=fn)

    def bind(self, fr, name, val):
        fr['arr'][name] = val
        fr['fn'].env.pop(name, None)
        fr['fn'].sym.pop(name, None)
        if val.is_scalar():
            fr['fn'].env[name] = val.ent[(0,) if val.shape else ()]

    # ------------------------------------------------------------------ statements
    def run(self, stmts, fr):
        """None when control falls through, else the returned Arr; `raise` raises Raised"""
        for st in stmts:
            if isinstance(st, ast.Expr) and isinstance(st.value, ast.Constant) and isinstance(st.value.value, str):
                continue
            if isinstance(st, ast.Pass):
                continue
            if isinstance(st, ast.Return):
                if st.value is None:
                    raise Reject('bare return (line %d)' % st.lineno)
                return self.ev(st.value, fr)
            if isinstance(st, ast.Raise):
                raise Raised()
            if isinstance(st, ast.AugAssign) and isinstance(st.target, ast.Name):
                st = ast.copy_location(ast.Assign(targets=[ast.Name(id=st.target.id, ctx=ast.Store())], value=ast.copy_location(
                    ast.BinOp(left=ast.Name(id=st.target.id, ctx=ast.Load()), op=st.op, right=st.value), st)), st)
            if isinstance(st, ast.Assign) and len(st.targets) == 1 and isinstance(st.targets[0], ast.Name) and (
                    isinstance(st.value, (ast.Compare, ast.BoolOp)) or (
                        isinstance(st.value, ast.UnaryOp) and isinstance(st.value.op, ast.Not))):
                # is_dis = process_class == 'DIS': a truth value known for the combination being evaluated
                name = st.targets[0].id
                fr.setdefault('bools', {})[name] = self.cond(st.value, fr)
                fr['arr'].pop(name, None)
                fr['fn'].env.pop(name, None)
                fr['fn'].sym.pop(name, None)
                continue
            if isinstance(st, ast.Assign) and len(st.targets) == 1 and isinstance(st.targets[0], ast.Name):
                name = st.targets[0].id
                fr.get('bools', {}).pop(name, None)
                form = affine(st.value, fr['fn'].sym, self.var)
                val = self.ev(st.value, fr)
                self.bind(fr, name, val)
                if form is not None and val.shape == ('K',):
                    fr['fn'].sym[name] = form          # n = j + 1: later calls at n are calls at j+1
                continue
            if isinstance(st, ast.If):
                r = self.run(st.body if self.cond(st.test, fr) else st.orelse, fr)
                if r is not None:
                    return r
                continue
            raise Reject('statement %s (line %d)' % (type(st).__name__, st.lineno))
        return None

    def cond(self, t, fr):
        """the truth value of a test on process_class / m.scheme for the combination being evaluated"""
        if isinstance(t, ast.BoolOp):
            stop = isinstance(t.op, ast.Or)
            for x in t.values:
                if self.cond(x, fr) == stop:
                    return stop
            return not stop
        if isinstance(t, ast.UnaryOp) and isinstance(t.op, ast.Not):
            return not self.cond(t.operand, fr)
        if isinstance(t, ast.Name) and t.id in fr.get('bools', {}):
            return fr['bools'][t.id]
        if isinstance(t, ast.Compare) and len(t.ops) == 1:
            op, a, b = t.ops[0], t.left, t.comparators[0]
            if isinstance(op, (ast.Eq, ast.NotEq)) and self.subject(b, fr) and not self.subject(a, fr):
                a, b = b, a
            who = self.subject(a, fr)
            if who:
                val, known = (self.pc, PROCS) if who == 'pc' else (self.sch, SCHEMES)
                if isinstance(op, (ast.Eq, ast.NotEq)) and isinstance(b, ast.Constant) and isinstance(b.value, str):
                    lits = [b.value]
                elif isinstance(op, (ast.In, ast.NotIn)) and isinstance(b, (ast.Tuple, ast.List, ast.Set)) and all(
                        isinstance(x, ast.Constant) and isinstance(x.value, str) for x in b.elts):
                    lits = [x.value for x in b.elts]
                else:
                    raise Reject('test %s (line %d)' % (ast.unparse(t), t.lineno))
                for l in lits:
                    if l not in known:
                        # "any other string" would no longer be one case
                        raise Reject('test against %r: the model distinguishes only %r (line %d)' % (l, known, t.lineno))
                r = val in lits
                return r if isinstance(op, (ast.Eq, ast.In)) else not r
        raise Reject('test %s is not a test on the process class / scheme (line %d)' % (ast.unparse(t), t.lineno))

    def subject(self, node, fr):
        if isinstance(node, ast.Name) and node.id == self.pcname and node.id not in fr['arr']:
            return 'pc'
        if isinstance(node, ast.Attribute) and isinstance(node.value, ast.Name) and node.value.id == self.model \
                and node.attr == 'scheme':
            return 'sch'
        return None

    # ------------------------------------------------------------------ expressions
    def ev(self, e, fr):
        if isinstance(e, ast.Name):
            if e.id in fr['arr']:
                return fr['arr'][e.id]
            return Arr.scalar(*fr['fn'].expr(e))
        if isinstance(e, ast.Constant):
            return Arr.scalar(*fr['fn'].expr(e))
        if isinstance(e, ast.Attribute):
            if isinstance(e.value, ast.Name) and e.value.id == self.model and self.model not in fr['arr']:
                if e.attr in ('rf2', 'nf'):
                    return Arr.scalar(e.attr, 'R')
                raise Reject('attribute %s of the model (line %d)' % (e.attr, e.lineno))
            if e.attr == 'T':
                x = self.ev(e.value, fr)
                return x.transpose(list(reversed(range(len(x.shape)))))
            raise Reject('attribute %s (line %d)' % (ast.unparse(e), e.lineno))
        if isinstance(e, ast.UnaryOp):
            x = self.ev(e.operand, fr)
            if isinstance(e.op, ast.USub):
                return x.map(lambda v: ('-%s' % paren(v[0]), v[1]))
            if isinstance(e.op, ast.UAdd):
                return x
            raise Reject('unary op (line %d)' % e.lineno)
        if isinstance(e, ast.BinOp):
            ops = {ast.Add: '+', ast.Sub: '-', ast.Mult: '*', ast.Div: '/'}
            if isinstance(e.op, ast.Pow):
                return Arr.scalar(*fr['fn'].power(e))        # scalar base only (names of scalars are in fn.env)
            if type(e.op) not in ops:
                raise Reject('binary op %s (line %d)' % (type(e.op).__name__, e.lineno))
            return broadcast(ops[type(e.op)], self.ev(e.left, fr), self.ev(e.right, fr))
        if isinstance(e, ast.Subscript):
            return self.subscript(e, fr)
        if isinstance(e, ast.Call):
            return self.call(e, fr)
        raise Reject('expression %s (line %d)' % (type(e).__name__, getattr(e, 'lineno', 0)))

    def subscript(self, e, fr):
        x = self.ev(e.value, fr)
        idx = list(e.slice.elts) if isinstance(e.slice, ast.Tuple) else [e.slice]

        def newaxis(i):
            return (isinstance(i, ast.Constant) and i.value is None) or ast.unparse(i) in ('np.newaxis', 'numpy.newaxis')
        # x[:, None]: a new axis of size 1 at that position (done first, on the positions of the result)
        if any(newaxis(i) for i in idx):
            pos = [k for k, i in enumerate(idx) if newaxis(i)]
            if any(not (isinstance(i, ast.Slice) and i.lower is None and i.upper is None and i.step is None) and not newaxis(i)
                   for i in idx) or len(idx) - len(pos) > len(x.shape):
                raise Reject('index %s (line %d)' % (ast.unparse(e.slice), e.lineno))
            shape, ent = list(x.shape), x.ent
            for p_ in pos:
                shape.insert(p_, 1)
                ent = {k[:p_] + (0,) + k[p_:]: v for k, v in ent.items()}
            return Arr(shape, ent)
        if len(idx) > len(x.shape):
            raise Reject('too many indices (line %d)' % e.lineno)
        keep, fix = [], {}
        for ax, size in enumerate(x.shape):
            i = idx[ax] if ax < len(idx) else None
            if i is None or (isinstance(i, ast.Slice) and i.lower is None and i.upper is None and i.step is None):
                keep.append(ax)
                continue
            v = i.value if isinstance(i, ast.Constant) else -i.operand.value if (
                isinstance(i, ast.UnaryOp) and isinstance(i.op, ast.USub) and isinstance(i.operand, ast.Constant)) else None
            if not isinstance(v, int) or isinstance(v, bool) or size == 'K' or not -size <= v < size:
                raise Reject('index %s (line %d)' % (ast.unparse(e.slice), e.lineno))
            fix[ax] = v % size
        ent = {tuple(k[a] for a in keep): v for k, v in x.ent.items() if all(k[a] == i for a, i in fix.items())}
        return Arr([x.shape[a] for a in keep], ent)

    def literal(self, node, fr):
        """np.array(<nested list / tuple display>)"""
        if isinstance(node, (ast.List, ast.Tuple)):
            return Arr.stack([self.literal(x, fr) for x in node.elts])
        return self.ev(node, fr)

    def int_args(self, nodes, what, line):
        out = []
        for a in nodes:
            try:
                v = ast.literal_eval(a)
            except (ValueError, SyntaxError):
                v = None
            out.append(v)
        return out

    def call(self, e, fr):
        f = e.func
        name = ast.unparse(f)
        kws = {k.arg: k.value for k in e.keywords}
        if None in kws:
            raise Reject('**kwargs (line %d)' % e.lineno)
        mod, _, base = name.rpartition('.')
        # ---- numpy plumbing
        if mod in ('np', 'numpy') and not isinstance(f, ast.Name):
            if base == 'array' and len(e.args) == 1 and not kws:
                return self.literal(e.args[0], fr)
            if base in ('zeros_like', 'ones_like') and len(e.args) == 1 and not kws:
                x = self.ev(e.args[0], fr)
                one = '(%d : K)' % (base == 'ones_like')
                return x.map(lambda v: ('r ' + one, 'C') if v[1] == 'C' else (one, 'R'))
            if base == 'atleast_3d' and len(e.args) == 1 and not kws:
                x = self.ev(e.args[0], fr)
                n = len(x.shape)
                if n >= 3:
                    return x
                if n == 2:
                    return Arr(x.shape + (1,), {k + (0,): v for k, v in x.ent.items()})
                if n == 1:
                    return Arr((1,) + x.shape + (1,), {(0,) + k + (0,): v for k, v in x.ent.items()})
                return Arr((1, 1, 1), {(0, 0, 0): x.ent[()]})
            if base == 'transpose' and 1 <= len(e.args) <= 2 and set(kws) <= {'axes'}:
                x = self.ev(e.args[0], fr)
                ax = e.args[1] if len(e.args) == 2 else kws.get('axes')
                perm = list(reversed(range(len(x.shape)))) if ax is None else self.int_args([ax], 'axes', e.lineno)[0]
                if not isinstance(perm, (list, tuple)) or not all(isinstance(i, int) for i in perm):
                    raise Reject('transpose axes (line %d)' % e.lineno)
                return x.transpose([i % len(x.shape) for i in perm])
            if base in ('stack', 'concatenate') and len(e.args) in (1, 2) and set(kws) <= {'axis'} and isinstance(
                    e.args[0], (ast.List, ast.Tuple)):
                axn = e.args[1] if len(e.args) == 2 else kws.get('axis')
                axis = 0 if axn is None else self.int_args([axn], 'axis', e.lineno)[0]
                if not isinstance(axis, int):
                    raise Reject('axis (line %d)' % e.lineno)
                items = [self.ev(x, fr) for x in e.args[0].elts]
                return Arr.stack(items, axis) if base == 'stack' else Arr.concat(items, axis)
            if base == 'block' and len(e.args) == 1 and not kws and isinstance(e.args[0], ast.List):
                rows = e.args[0].elts
                if rows and all(isinstance(r_, ast.List) for r_ in rows):       # [[A, B], [C, D]]
                    return Arr.concat([Arr.concat([self.ev(x, fr) for x in r_.elts], -1) for r_ in rows], -2)
                if rows and not any(isinstance(r_, ast.List) for r_ in rows):   # [A, B]
                    return Arr.concat([self.ev(x, fr) for x in rows], -1)
                raise Reject('np.block nesting (line %d)' % e.lineno)
            if base == 'einsum' and len(e.args) >= 2 and not kws and isinstance(e.args[0], ast.Constant) and isinstance(
                    e.args[0].value, str):
                return self.einsum(e.args[0].value, [self.ev(x, fr) for x in e.args[1:]], e.lineno)
            if base == 'log' and len(e.args) == 1 and not kws:
                return self.log(e, fr)
            raise Reject('numpy call %s (line %d)' % (ast.unparse(e)[:60], e.lineno))
        if name == 'math.log' and len(e.args) == 1 and not kws:
            return self.log(e, fr)
        # ---- methods of arrays
        if isinstance(f, ast.Attribute) and f.attr == 'transpose' and not kws:
            x = self.ev(f.value, fr)
            if not e.args:
                perm = list(reversed(range(len(x.shape))))
            else:
                a = self.int_args(e.args, 'axes', e.lineno)
                perm = list(a[0]) if len(a) == 1 and isinstance(a[0], (tuple, list)) else a
            if not all(isinstance(i, int) for i in perm):
                raise Reject('transpose axes (line %d)' % e.lineno)
            return x.transpose([i % len(x.shape) for i in perm])
        # ---- functions of the model
        if (isinstance(f, ast.Name) or mod == 'adim') and base not in fr['arr']:
            if base in SUMMARIES:
                return self.summary(base, e, kws, fr)
            if base in self.funcs:
                return self.inline(base, e, kws, fr)
        if isinstance(f, ast.Name):
            return Arr.scalar(*fr['fn'].call(e))          # a primitive special function (table) / poch / …
        raise Reject('call %s (line %d)' % (ast.unparse(e)[:60], e.lineno))

    def log(self, e, fr):
        x = self.ev(e.args[0], fr)
        if x.shape != () or x.ent[()][1] != 'R':
            raise Reject('log of a non-real or non-scalar (line %d)' % e.lineno)
        return Arr.scalar('klog %s' % paren(x.ent[()][0]), 'R')

    def einsum(self, spec, ops, line):
        spec = spec.replace(' ', '')
        if '->' not in spec or '.' in spec:
            raise Reject('einsum %r (line %d)' % (spec, line))
        ins, out = spec.split('->')
        ins = ins.split(',')
        if len(ins) != len(ops) or not all(x.isalpha() for x in ins + [out or 'a']) or len(set(out)) != len(out):
            raise Reject('einsum %r (line %d)' % (spec, line))
        size = {}
        for letters, x in zip(ins, ops):
            # a complex scalar is an array over the moments: shape ('K',)
            if len(letters) != len(x.shape) or len(set(letters)) != len(letters):
                raise Reject('einsum %r: operand of shape %r (line %d)' % (spec, x.shape, line))
            for l, s_ in zip(letters, x.shape):
                if size.setdefault(l, s_) != s_:
                    raise Reject('einsum %r: sizes of %s differ (line %d)' % (spec, l, line))
        if any(l not in size for l in out):
            raise Reject('einsum %r (line %d)' % (spec, line))
        summed = [l for l in size if l not in out]
        if any(size[l] == 'K' for l in summed):
            raise Reject('einsum %r sums over the moments (line %d)' % (spec, line))
        ent = {}
        for ko in Arr.keys([size[l] for l in out]):
            total = None
            for ks in Arr.keys([size[l] for l in summed]):
                at = dict(zip(out, ko))
                at.update(zip(summed, ks))
                term = None
                for letters, x in zip(ins, ops):
                    v = x.ent[tuple(at[l] for l in letters)]
                    term = v if term is None else sc_bin('*', term, v)
                total = term if total is None else sc_bin('+', total, term)
            ent[ko] = total
        return Arr([size[l] for l in out], ent)

    def arguments(self, params, defaults, e, kws, what):
        if len(e.args) > len(params) or any(k not in params[len(e.args):] for k in kws):
            raise Reject('arguments of %s (line %d)' % (what, e.lineno))
        got = dict(zip(params, e.args))
        got.update(kws)
        for p_ in params:
            if p_ not in got:
                if p_ not in defaults:
                    raise Reject('%s: argument %s missing (line %d)' % (what, p_, e.lineno))
                got[p_] = ast.copy_location(ast.Constant(value=defaults[p_]), e)
        return got

    def summary(self, name, e, kws, fr):
        """a call of a translated function: its value, entry by entry, in terms of the Lean definition"""
        params, defaults, kind = SUMMARIES[name]
        got = self.arguments(params, defaults, e, kws, name)
        form = affine(got[params[0]], fr['fn'].sym, self.var)
        nf = self.ev(got['nf'], fr)
        if nf.shape != () or nf.ent[()] != ('nf', 'R'):
            raise Reject('%s: the number of flavours is not m.nf / nf (line %d)' % (name, e.lineno))
        if kind == 'V4J':
            if not self.has_J or form != (F(1), F(0)):
                raise Reject('%s is not called at the conformal moment j its S1 values belong to (line %d)' % (name, e.lineno))
            call = '%s j nf J' % name
        else:
            if form is None or form != self.p_form:
                raise Reject('%s is not called at the Mellin moment its special-function values belong to (line %d)' % (name, e.lineno))
            call = '%s %s nf' % (name, self.p_txt)
            if 'prty' in params:
                pr = self.ev(got['prty'], fr)
                if pr.shape != () or pr.ent[()][1] != 'R':
                    raise Reject('%s: prty (line %d)' % (name, e.lineno))
                call += ' %s' % paren(pr.ent[()][0])
            call += ' P'
        if kind == 'C':
            return Arr.scalar(call, 'C')
        if kind == 'M2':       # np.array([[qq, qg], [gq, gg]]) of arrays over the moments: shape (2, 2, K)
            return Arr((2, 2, 'K'), {(i, k, 0): ('(%s).%s' % (call, fl), 'C') for (i, k), fl in M2_FIELDS.items()})
        # np.array((Q, G, NSP, NSM)).transpose(): shape (K, 4)
        return Arr(('K', 4), {(0, i): ('(%s).%s' % (call, fl), 'C') for i, fl in enumerate(V4_FIELDS)})

    def inline(self, name, e, kws, fr):
        """adim.block / shift1 called from the evaluated code: evaluate its body with the arguments bound"""
        fn = self.funcs[name]
        if self.depth > 4:
            raise Reject('recursion through %s' % name)
        params = [a.arg for a in fn.args.args]
        got = self.arguments(params, {}, e, kws, name)
        sub = Sym(self.var, self.p_form, self.p_txt, self.has_J, self.consts, self.funcs, self.pc, self.sch)
        sub.depth = self.depth + 1
        fr2 = sub.frame({}, {})
        if name == 'block':
            # block(n, nf): n must be the moment P belongs to; inside, `n` stands for that affine form
            if self.p_form is None or affine(got[params[0]], fr['fn'].sym, self.var) != self.p_form:
                raise Reject('block is not called at the Mellin moment its special-function values belong to (line %d)' % e.lineno)
            nf = self.ev(got[params[1]], fr)
            if nf.shape != () or nf.ent[()] != ('nf', 'R'):
                raise Reject('block: the number of flavours is not m.nf (line %d)' % e.lineno)
            sub.bind(fr2, params[0], Arr.scalar(self.p_txt, 'C'))
            fr2['fn'].sym[params[0]] = self.p_form
            sub.bind(fr2, params[1], nf)
        else:
            # shift1(m, j, process_class): the caller's own model, moments and process class, passed through
            for p_, want in ((params[0], self.model), (params[2], self.pcname)):
                a = got[p_]
                if not (isinstance(a, ast.Name) and a.id == want and a.id not in fr['arr']):
                    raise Reject('%s: argument %s is not the caller\'s %s (line %d)' % (name, p_, want, e.lineno))
            if affine(got[params[1]], fr['fn'].sym, self.var) != (F(1), F(0)) or self.ev(got[params[1]], fr).shape != ('K',):
                raise Reject('%s: argument %s is not the caller\'s array of moments (line %d)' % (name, params[1], e.lineno))
            sub.model, sub.pcname = params[0], params[2]
            sub.p_form = None                     # the Lean shift1 has no record P in scope
            sub.bind(fr2, params[1], Arr.scalar(self.var, 'C'))
            fr2['fn'].sym[params[1]] = (F(1), F(0))
        r_ = sub.run(fn.body, fr2)
        if r_ is None:
            raise Reject('%s: falls off the end without return' % name)
        return r_


def eval_return(tr, node):
    """the array a translated function returns, entry by entry, when it is not built by the literal pattern"""
    sy = Sym(tr.var, None, None, False, {}, {})
    fr = dict(arr={}, fn=tr)
    try:
        res = sy.ev(node, fr)
    except Raised:
        raise Reject('raise')
    if any(ty != 'C' and not res.shape for _, ty in res.ent.values()):
        raise Reject('returns a real scalar')
    return res


HEAD = '''/-
  Adim — model of gepard.adim (LO and NLO anomalous dimensions) and gepard.c1dvcs (NLO DIS / DVCS
  coefficient functions, shift s_1, "big C_1") at ONE complex moment.      (property C03)

  GENERATED by tools/gen_adim.py from the Python AST of /repo/src/gepard/{constants,special,adim,
  c1dvcs}.py — do not edit; the harness regenerates it on every run.  Hand-written parts (in the
  generator's HEAD/TAIL text): cpow, poch (pochhammer's loop), block, shift1, C1.

  The primitive special functions (scipy psi/zeta, gepard.special S1 S2 S3 MellinF2) are PARAMETERS:
  structure SF carries their values at Mellin moment n, SJ at conformal moment j.  Arrays of moments
  are List.map of this model (the real code is elementwise in n).
  C = Cx K; a real operand meeting a complex one is promoted with `r` (as Python does).
-/
namespace Adim

abbrev C := Cx K
/-- float → complex promotion -/
def r (x : K) : C := Cx.ofReal x

/-- z ** k for a literal non-negative integer k -/
def cpow (z : C) : Nat → C
  | 0 => r 1
  | k+1 => cpow z k * z

/-- special.pochhammer: `p = z; for k in range(1, m): p = p * (z + k)`; `kk` is the loop counter -/
def pochLoop (z : C) : Nat → K → C → C
  | 0, _, p => p
  | i+1, kk, p => pochLoop z i (kk + 1) (p * (z + r kk))
def poch (z : C) (m : Nat) : C := pochLoop z (m - 1) 1 z

/-- values of the primitive special functions at Mellin moment n (fed from gepard.special) -/
structure SF where
  S1 : C       -- S1(n)
  S2 : C       -- S2(n)
  S2h : C      -- S2(n/2)
  S3h : C      -- S3(n/2)
  S2hm : C     -- S2(n/2 - 1/2)
  S3hm : C     -- S3(n/2 - 1/2)
  psih : C     -- psi(n/2)
  psih1 : C    -- psi((n+1)/2)
  MF2 : C      -- MellinF2(n)
  z2 : K       -- zeta(2)
  z3 : K       -- zeta(3)

/-- values of S1 around conformal moment j (c1_V, shift1) -/
structure SJ where
  S1j : C      -- S1(j)
  S1j1 : C     -- S1(j+1)
  S1j2 : C     -- S1(j+2)
  S1j32 : C    -- S1(j+3/2)

/-- 2x2 matrix ((QQ, QG), (GQ, GG)) -/
structure M2 where
  qq : C
  qg : C
  gq : C
  gg : C

/-- (Q, G, NSP, NSM) -/
structure V4 where
  Q : C
  G : C
  NSP : C
  NSM : C

def V4.sub (a b : V4) : V4 := { Q := a.Q - b.Q, G := a.G - b.G, NSP := a.NSP - b.NSP, NSM := a.NSM - b.NSM }
def V4.add (a b : V4) : V4 := { Q := a.Q + b.Q, G := a.G + b.G, NSP := a.NSP + b.NSP, NSM := a.NSM + b.NSM }

'''

TYPES = """
/-! ### adim.block, c1dvcs.shift1, c1dvcs.C1: evaluated symbolically from the source (tools/gen_adim.py, class Sym) -/

inductive Proc where
  | DIS | DVCS | other
inductive Scheme where
  | msbar | csbar | other

"""

TAIL = """
end Adim
"""

LEAN_PROC = {'DIS': '.DIS', 'DVCS': '.DVCS', None: '.other'}
LEAN_SCH = {'msbar': '.msbar', 'csbar': '.csbar', None: '.other'}


def free_names(txt):
    import re
    return set(re.findall(r"(?<![\w.])([A-Za-z_]\w*)", txt))


def gen_block(atree, consts):
    """adim.block(n, nf) at one moment: the (LO, NLO) pair of 4x4 matrices, entry by entry"""
    fn = find_func(atree, 'block')
    params = [a.arg for a in fn.args.args]
    if len(params) != 2:
        raise Reject('adim.block: parameters %s' % params)
    sy = Sym('n', (F(1), F(0)), 'n', False, consts, {})
    fr = sy.frame({}, {})
    sy.bind(fr, params[0], Arr.scalar('n', 'C'))
    fr['fn'].sym[params[0]] = (F(1), F(0))
    sy.bind(fr, params[1], Arr.scalar('nf', 'R'))
    try:
        res = sy.run(fn.body, fr)
    except Raised:
        raise Reject('adim.block raises')
    if res is None or res.shape != ('K', 2, 4, 4):
        raise Reject('adim.block: result of shape %r, expected (moments, 2, 4, 4)' % (None if res is None else res.shape,))
    out = ['/-- adim.block(n, nf)[k] for one n (line %d): (LO 4x4, NLO 4x4), rows/columns (Q, G, NS+, NS-) -/' % fn.lineno,
           'def block (n : C) (nf : K) (P : SF) : List (List C) × List (List C) :=']
    mats = []
    for p_ in range(2):
        rows = []
        for i in range(4):
            cells = []
            for k in range(4):
                t, ty = res.ent[(0, p_, i, k)]
                cells.append(t if ty == 'C' else 'r %s' % paren(t))
            rows.append('[' + ', '.join(cells) + ']')
        mats.append('[' + ',\n    '.join(rows) + ']')
    out.append('  (' + ',\n   '.join(mats) + ')')
    return '\n'.join(out) + '\n\n'


def gen_shift1(dtree, consts):
    fn = find_func(dtree, 'shift1')
    params = [a.arg for a in fn.args.args]
    if len(params) != 3:
        raise Reject('c1dvcs.shift1: parameters %s' % params)
    out = ['/-- c1dvcs.shift1(m, j, process_class) (line %d), rf2 = m.rf2; none = `raise Exception` -/' % fn.lineno,
           'def shift1 (rf2 : K) (pc : Proc) (J : SJ) : Option C :=', '  match pc with']
    for pc in PROCS + (None,):
        sy = Sym('j', None, None, True, consts, {}, pc=pc, sch=None, model=params[0], pcname=params[2])
        fr = sy.frame({}, {})
        sy.bind(fr, params[1], Arr.scalar('j', 'C'))
        fr['fn'].sym[params[1]] = (F(1), F(0))
        try:
            res = sy.run(fn.body, fr)
            if res is None:
                raise Reject('c1dvcs.shift1 falls off the end without return')
            if res.shape == ():
                raise Reject('c1dvcs.shift1 returns a real scalar, not an array over the moments')
            if res.shape != ('K',):
                raise Reject('c1dvcs.shift1: result of shape %r' % (res.shape,))
            t, ty = res.ent[(0,)]
            bad = free_names(t) & {'j', 'n', 'nf', 'P'}
            if bad:
                raise Reject('c1dvcs.shift1 uses %s directly (the model has only S1 around j and rf2)' % sorted(bad))
            out.append('  | %s => some (%s)' % (LEAN_PROC[pc], t))
        except Raised:
            out.append('  | %s => none' % LEAN_PROC[pc])
    return '\n'.join(out) + '\n\n'


def gen_C1(dtree, atree, consts):
    fn = find_func(dtree, 'C1')
    params = [a.arg for a in fn.args.args]
    if len(params) != 3:
        raise Reject('c1dvcs.C1: parameters %s' % params)
    funcs = {'block': find_func(atree, 'block'), 'shift1': find_func(dtree, 'shift1')}
    out = ['/-- c1dvcs.C1(m, j, process_class) (line %d): m.rf2, m.nf, m.scheme are what it reads.' % fn.lineno,
           '    P = special values at n = j+1 (block(j+1), c1_F2(j+1), c1_F1(j+1)); J = S1 at j, j+1, j+2, j+3/2.',
           '    One arm per (scheme, process class); none = `raise Exception`. -/',
           'def C1 (rf2 nf : K) (sch : Scheme) (pc : Proc) (j : C) (P : SF) (J : SJ) : Option V4 :=',
           '  let n := j + r 1', '  match sch, pc with']
    for sch in SCHEMES + (None,):
        for pc in PROCS + (None,):
            sy = Sym('j', (F(1), F(1)), 'n', True, consts, funcs, pc=pc, sch=sch, model=params[0], pcname=params[2])
            fr = sy.frame({}, {})
            sy.bind(fr, params[1], Arr.scalar('j', 'C'))
            fr['fn'].sym[params[1]] = (F(1), F(0))
            try:
                res = sy.run(fn.body, fr)
                if res is None:
                    raise Reject('c1dvcs.C1 falls off the end without return')
                if res.shape != ('K', 4):
                    raise Reject('c1dvcs.C1: result of shape %r, expected (moments, 4)' % (res.shape,))
                cells = []
                for i, fl in enumerate(V4_FIELDS):
                    t, ty = res.ent[(0, i)]
                    cells.append('%s := %s' % (fl, t if ty == 'C' else 'r %s' % paren(t)))
                out.append('  | %s, %s => some\n      { %s }' % (LEAN_SCH[sch], LEAN_PROC[pc], ',\n        '.join(cells)))
            except Raised:
                out.append('  | %s, %s => none' % (LEAN_SCH[sch], LEAN_PROC[pc]))
    return '\n'.join(out) + '\n'


def generate():
    out = [HEAD]
    # ---- constants.py
    ctree = ast.parse(open(os.path.join(SRC, 'constants.py')).read())
    cenv = {}
    tr = Fn({}, {})
    out.append('/-! ### constants.py -/\n')
    want = ['NC', 'CF', 'CA', 'CG', 'TF']
    for st in ctree.body:
        if isinstance(st, ast.Assign) and len(st.targets) == 1 and isinstance(st.targets[0], ast.Name) \
                and st.targets[0].id in want:
            name = st.targets[0].id
            t, ty = tr.expr(st.value)
            if ty != 'R':
                raise Reject('constant %s is not real' % name)
            out.append('def %s : K := %s\n' % (name, t))
            tr.env[name] = (name, 'R')
            cenv[name] = (name, 'R')
    if sorted(cenv) != sorted(want):
        raise Reject('constants found: %s' % sorted(cenv))

    # ---- special.py composites
    stree = ast.parse(open(os.path.join(SRC, 'special.py')).read())
    out.append('\n/-! ### special.py: S2_prime, S3_prime at z = n/2 (every call site passes n/2), S2_tilde -/\n')
    for name in ('S2_prime', 'S3_prime'):
        fn = find_func(stree, name)
        t = Fn({'prty': ('prty', 'R')}, CALLS_N, sym={'z': (F(1, 2), F(0))})
        # z itself must not be used outside the primitive calls
        out.append(translate_function(fn, ['z', 'prty'], t, 'C', name + '_half', '(prty : K) (P : SF)', 'C',
                                      'special'))
    fn = find_func(stree, 'S2_tilde')
    t = Fn({'n': ('n', 'C'), 'prty': ('prty', 'R')}, CALLS_N)
    out.append(translate_function(fn, ['n', 'prty'], t, 'C', 'S2_tilde', '(n : C) (prty : K) (P : SF)', 'C',
                                  'special'))

    # ---- adim.py
    atree = ast.parse(open(os.path.join(SRC, 'adim.py')).read())
    out.append('\n/-! ### adim.py -/\n')
    base = dict(cenv)
    base.update({'n': ('n', 'C'), 'nf': ('nf', 'R'), 'prty': ('prty', 'R')})
    sig = '(n : C) (nf : K) (prty : K) (P : SF)'
    for name, kind, ty in (('non_singlet_LO', 'C', 'C'), ('singlet_LO', 'M2', 'M2'),
                           ('non_singlet_NLO', 'C', 'C'), ('singlet_NLO', 'M2', 'M2')):
        fn = find_func(atree, name)
        out.append(translate_function(fn, ['n', 'nf', 'prty'], Fn(base, CALLS_N), kind, name, sig, ty, 'adim'))
        out.append('\n')
    # ---- c1dvcs.py
    dtree = ast.parse(open(os.path.join(SRC, 'c1dvcs.py')).read())
    out.append('/-! ### c1dvcs.py -/\n')
    base = dict(cenv)
    base.update({'n': ('n', 'C'), 'nf': ('nf', 'R')})
    for name in ('c1_F2', 'c1_FL'):
        fn = find_func(dtree, name)
        out.append(translate_function(fn, ['n', 'nf'], Fn(base, CALLS_N), 'V4', name, '(n : C) (nf : K) (P : SF)',
                                      'V4', 'c1dvcs'))
        out.append('\n')
    fn = find_func(dtree, 'c1_F1')
    out.append(translate_function(fn, ['n', 'nf'], Fn(base, CALLS_N), 'V4sub', 'c1_F1', '(n : C) (nf : K) (P : SF)',
                                  'V4', 'c1dvcs'))
    out.append('\n')
    basej = dict(cenv)
    basej.update({'j': ('j', 'C'), 'nf': ('nf', 'R')})
    fn = find_func(dtree, 'c1_V')
    out.append(translate_function(fn, ['j', 'nf'], Fn(basej, CALLS_J, var='j'), 'V4', 'c1_V', '(j : C) (nf : K) (J : SJ)',
                                  'V4', 'c1dvcs'))
    out.append(TYPES)
    out.append(gen_block(atree, cenv))
    out.append(gen_shift1(dtree, cenv))
    out.append(gen_C1(dtree, atree, cenv))
    out.append(TAIL)
    return ''.join(out)


def main():
    text = generate()
    if os.path.exists(OUT) and open(OUT).read() == text:
        return False
    open(OUT, 'w').write(text)
    return True


if __name__ == '__main__':
    try:
        ch = main()
    except Reject as e:
        print('gen_adim: REJECTED: %s' % e)
        sys.exit(1)
    print('gen_adim: %s %s' % (OUT, 'rewritten' if ch else 'unchanged'))

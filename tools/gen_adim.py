"""tools/gen_adim.py — translate the formula functions of gepard's adim.py / c1dvcs.py (and the
three composite special functions S2_prime, S3_prime, S2_tilde of special.py, the colour factors
of constants.py) from the Python AST of the CURRENT /repo tree into the scalar template
lean/Scalar/Adim.lean.in  (property C03).

What is translated mechanically (function by function, expression by expression):
    constants.NC CF CA CG TF
    special.S2_prime, S3_prime (call sites must pass z = n/2), S2_tilde
    adim.non_singlet_LO, singlet_LO, non_singlet_NLO, singlet_NLO
    c1dvcs.c1_F2, c1_FL, c1_F1, c1_V
What is hand-written here (HEAD / TAIL text below; tied by the correspondence only):
    pochhammer's loop, adim.block's zero pattern, c1dvcs.shift1 and c1dvcs.C1 (string dispatch +
    einsum with c0 = (1,0,1,1)).

The model is at ONE complex moment n.  Calls of the primitive special functions are not
translated: each distinct call `F(arg)` becomes a field of a parameter structure
(SF: values at Mellin moment n;  SJ: values at conformal moment j) that the harness fills from
gepard.special at the same n.  The table CALLS below fixes which call is which field; a call that
is not in the table is REJECTED (the translator raises rather than guesses).

Typing: every Python sub-expression is inferred real (K) or complex (Cx K); a real operand of a
mixed operation is promoted with `r` (= Cx.ofReal), which is what Python/numpy do (float → complex
before a complex operation).  `z ** k` for a literal integer k is `cpow z k` (k<0: `r 1 / cpow z |k|`).
"""
import ast
import os
import sys

HERE = os.path.dirname(os.path.abspath(__file__))
VERIF = os.path.dirname(HERE)
REPO = os.environ.get('GEPARD_REPO', '/repo')
SRC = os.path.join(REPO, 'src', 'gepard')
OUT = os.path.join(VERIF, 'lean', 'Scalar', 'Adim.lean.in')


class Reject(Exception):
    pass


# primitive special-function calls → (field, type).  Key: (function, canonical argument text)
CALLS_N = {
    ('S1', 'n'): ('P.S1', 'C'),
    ('S2', 'n'): ('P.S2', 'C'),
    ('S2', 'n / 2'): ('P.S2h', 'C'),
    ('S3', 'n / 2'): ('P.S3h', 'C'),
    ('S2', 'n / 2 - 1 / 2'): ('P.S2hm', 'C'),
    ('S3', 'n / 2 - 1 / 2'): ('P.S3hm', 'C'),
    ('psi', 'n / 2'): ('P.psih', 'C'),
    ('psi', '(1 + n) / 2'): ('P.psih1', 'C'),
    ('psi', '(n + 1) / 2'): ('P.psih1', 'C'),
    ('MellinF2', 'n'): ('P.MF2', 'C'),
    ('zeta', '2'): ('P.z2', 'R'),
    ('zeta', '3'): ('P.z3', 'R'),
}
CALLS_J = {
    ('S1', 'j'): ('J.S1j', 'C'),
    ('S1', 'j + 1'): ('J.S1j1', 'C'),
    ('S1', 'j + 2'): ('J.S1j2', 'C'),
}

# functions of the model that may be called from translated code:
#   name -> (lean name, [param types], return type)
MODEL_FUNCS = {
    'poch': ('poch', ['C', 'N'], 'C'),
    'S2_prime': None, 'S3_prime': None, 'S2_tilde': None,   # filled below (special handling)
    'non_singlet_NLO': ('non_singlet_NLO', ['C', 'R', 'R'], 'C'),
}


def num(v):
    """Python numeric literal → K literal"""
    if isinstance(v, bool) or not isinstance(v, (int, float)):
        raise Reject('literal %r' % (v,))
    if isinstance(v, int) or float(v).is_integer():
        return '(%d : K)' % int(v)
    s = repr(float(v))
    if 'e' in s or 'inf' in s or 'nan' in s:
        raise Reject('literal %r' % (v,))
    return '(%s : K)' % s


class Fn:
    """translator for one function body"""

    def __init__(self, env, calls, sym=None, kw='P'):
        self.env = dict(env)          # python name -> (lean text, type)
        self.calls = calls
        self.sym = sym or {}          # python name -> canonical source text it stands for (for call keys)
        self.kw = kw

    # ---- canonical text of a call argument, with formal parameters substituted
    def canon(self, node):
        sym = self.sym

        class Sub(ast.NodeTransformer):
            def visit_Name(self, n):
                if n.id in sym:
                    return ast.parse(sym[n.id], mode='eval').body
                return n
        import copy
        return ast.unparse(Sub().visit(copy.deepcopy(node)))

    def promote(self, t):
        txt, ty = t
        if ty == 'C':
            return txt
        if ty == 'R':
            return 'r %s' % paren(txt)
        raise Reject('cannot promote %s' % ty)

    def expr(self, e):
        if isinstance(e, ast.Constant):
            return num(e.value), 'R'
        if isinstance(e, ast.Name):
            if e.id in self.env:
                return self.env[e.id]
            raise Reject('unknown name %s (line %d)' % (e.id, e.lineno))
        if isinstance(e, ast.UnaryOp):
            if isinstance(e.op, ast.USub):
                t, ty = self.expr(e.operand)
                return '-%s' % paren(t), ty
            if isinstance(e.op, ast.UAdd):
                return self.expr(e.operand)
            raise Reject('unary op %s' % ast.dump(e.op))
        if isinstance(e, ast.BinOp):
            if isinstance(e.op, ast.Pow):
                return self.power(e)
            ops = {ast.Add: '+', ast.Sub: '-', ast.Mult: '*', ast.Div: '/'}
            if type(e.op) not in ops:
                raise Reject('binary op %s (line %d)' % (type(e.op).__name__, e.lineno))
            a, b = self.expr(e.left), self.expr(e.right)
            o = ops[type(e.op)]
            if a[1] == 'R' and b[1] == 'R':
                return '%s %s %s' % (paren(a[0]), o, paren(b[0])), 'R'
            return '%s %s %s' % (paren(self.promote(a)), o, paren(self.promote(b))), 'C'
        if isinstance(e, ast.Call):
            return self.call(e)
        raise Reject('expression %s (line %d)' % (type(e).__name__, getattr(e, 'lineno', 0)))

    def power(self, e):
        ex = e.right
        neg = False
        if isinstance(ex, ast.UnaryOp) and isinstance(ex.op, ast.USub):
            neg, ex = True, ex.operand
        if not (isinstance(ex, ast.Constant) and isinstance(ex.value, int) and not isinstance(ex.value, bool)
                and 0 <= ex.value <= 64):
            raise Reject('power with non-literal-integer exponent (line %d)' % e.lineno)
        k = ex.value
        b, ty = self.expr(e.left)
        if ty == 'R':
            if neg:
                return '(1 : K) / (%s ^ (%d : Nat))' % (paren(b), k), 'R'
            return '%s ^ (%d : Nat)' % (paren(b), k), 'R'
        if neg:
            return 'r (1 : K) / cpow %s %d' % (paren(b), k), 'C'
        return 'cpow %s %d' % (paren(b), k), 'C'

    def call(self, e):
        if e.keywords:
            raise Reject('keyword arguments in call (line %d)' % e.lineno)
        if not isinstance(e.func, ast.Name):
            raise Reject('call of %s (line %d)' % (ast.unparse(e.func), e.lineno))
        f = e.func.id
        if f in ('S2_prime', 'S3_prime'):
            # special.S2_prime(z, prty): call sites must pass z = n/2
            if len(e.args) != 2 or self.canon(e.args[0]) != 'n / 2':
                raise Reject('%s call site is not (n/2, prty) (line %d)' % (f, e.lineno))
            p = self.expr(e.args[1])
            if p[1] != 'R':
                raise Reject('prty not real')
            return '%s_half %s P' % (f, paren(p[0])), 'C'
        if f == 'S2_tilde':
            if len(e.args) != 2 or self.canon(e.args[0]) != 'n':
                raise Reject('S2_tilde call site is not (n, prty) (line %d)' % e.lineno)
            p = self.expr(e.args[1])
            return 'S2_tilde n %s P' % paren(p[0]), 'C'
        if f == 'poch':
            if len(e.args) != 2 or not (isinstance(e.args[1], ast.Constant) and isinstance(e.args[1].value, int)
                                        and e.args[1].value >= 1):
                raise Reject('poch with non-literal index (line %d)' % e.lineno)
            z = self.expr(e.args[0])
            return 'poch %s %d' % (paren(self.promote(z)), e.args[1].value), 'C'
        if f == 'non_singlet_NLO':
            if len(e.args) != 3:
                raise Reject('non_singlet_NLO arity')
            a = [self.expr(x) for x in e.args]
            if a[0][1] != 'C' or a[1][1] != 'R' or a[2][1] != 'R':
                raise Reject('non_singlet_NLO argument types')
            return 'non_singlet_NLO %s %s %s P' % tuple(paren(x[0]) for x in a), 'C'
        if f in ('c1_F2', 'c1_FL'):
            a = [self.expr(x) for x in e.args]
            if len(a) != 2 or a[0][1] != 'C' or a[1][1] != 'R':
                raise Reject('%s argument types' % f)
            return '%s %s %s P' % (f, paren(a[0][0]), paren(a[1][0])), 'V'
        if len(e.args) == 1:
            key = (f, self.canon(e.args[0]))
            if key in self.calls:
                return self.calls[key]
        raise Reject('call %s is not in the table of special-function parameters (line %d)' % (
            ast.unparse(e), e.lineno))


def paren(s):
    s = s.strip()
    if all(c.isalnum() or c in '._' for c in s):
        return s
    if s.startswith('(') and matching(s):
        return s
    return '(' + s + ')'


def matching(s):
    d = 0
    for i, c in enumerate(s):
        if c == '(':
            d += 1
        elif c == ')':
            d -= 1
            if d == 0 and i != len(s) - 1:
                return False
    return d == 0


def find_func(tree, name):
    for n in tree.body:
        if isinstance(n, ast.FunctionDef) and n.name == name:
            return n
    raise Reject('function %s not found' % name)


def body_stmts(fn):
    b = list(fn.body)
    if b and isinstance(b[0], ast.Expr) and isinstance(b[0].value, ast.Constant) and isinstance(b[0].value.value, str):
        b = b[1:]
    return b


def translate_function(fn, params, tr, ret_kind, lean_name, lean_sig, ret_ty, fname):
    """straight-line function: assignments `x = expr` then `return …`"""
    got = [a.arg for a in fn.args.args]
    if got != params:
        raise Reject('%s: parameters %s, expected %s' % (fn.name, got, params))
    lines = ['/-- %s.%s (line %d) -/' % (fname, fn.name, fn.lineno),
             'def %s %s : %s :=' % (lean_name, lean_sig, ret_ty)]
    stmts = body_stmts(fn)
    for st in stmts[:-1]:
        if not (isinstance(st, ast.Assign) and len(st.targets) == 1 and isinstance(st.targets[0], ast.Name)):
            raise Reject('%s: statement at line %d is not a simple assignment' % (fn.name, st.lineno))
        name = st.targets[0].id
        t, ty = tr.expr(st.value)
        lty = {'R': 'K', 'C': 'C', 'V': 'V4'}[ty]
        lines.append('  let %s : %s := %s' % (name, lty, t))
        tr.env[name] = (name, ty)
    last = stmts[-1]
    if not isinstance(last, ast.Return):
        raise Reject('%s: last statement is not return' % fn.name)
    v = last.value
    if ret_kind == 'C':
        t = tr.expr(v)
        lines.append('  ' + tr.promote(t))
    elif ret_kind == 'M2':
        # np.array([[a, b], [c, d]])
        ok = (isinstance(v, ast.Call) and ast.unparse(v.func) == 'np.array' and len(v.args) == 1 and
              isinstance(v.args[0], ast.List) and len(v.args[0].elts) == 2 and
              all(isinstance(r, ast.List) and len(r.elts) == 2 for r in v.args[0].elts))
        if not ok:
            raise Reject('%s: return is not np.array([[a,b],[c,d]])' % fn.name)
        el = [tr.promote(tr.expr(x)) for r in v.args[0].elts for x in r.elts]
        lines.append('  { qq := %s, qg := %s, gq := %s, gg := %s }' % tuple(el))
    elif ret_kind == 'V4':
        # np.array((Q, G, NSP, NSM)).transpose()
        ok = (isinstance(v, ast.Call) and isinstance(v.func, ast.Attribute) and v.func.attr == 'transpose' and
              not v.args and isinstance(v.func.value, ast.Call) and ast.unparse(v.func.value.func) == 'np.array' and
              len(v.func.value.args) == 1 and isinstance(v.func.value.args[0], ast.Tuple) and
              len(v.func.value.args[0].elts) == 4)
        if not ok:
            raise Reject('%s: return is not np.array((Q, G, NSP, NSM)).transpose()' % fn.name)
        el = [tr.promote(tr.expr(x)) for x in v.func.value.args[0].elts]
        lines.append('  { Q := %s, G := %s, NSP := %s, NSM := %s }' % tuple(el))
    elif ret_kind == 'V4sub':
        # c1_F2(n, nf) - c1_FL(n, nf)
        if not (isinstance(v, ast.BinOp) and isinstance(v.op, ast.Sub)):
            raise Reject('%s: return is not a difference' % fn.name)
        a, b = tr.expr(v.left), tr.expr(v.right)
        if a[1] != 'V' or b[1] != 'V':
            raise Reject('%s: return operands are not coefficient vectors' % fn.name)
        lines.append('  V4.sub %s %s' % (paren(a[0]), paren(b[0])))
    else:
        raise Reject(ret_kind)
    return '\n'.join(lines) + '\n'


HEAD = '''/-
  Adim — model of gepard.adim (LO and NLO anomalous dimensions) and gepard.c1dvcs (NLO DIS / DVCS
  coefficient functions, shift s_1, "big C_1") at ONE complex moment.      (property C03)

  GENERATED by tools/gen_adim.py from the Python AST of /repo/src/gepard/{constants,special,adim,
  c1dvcs}.py — do not edit; the harness regenerates it on every run.  Hand-written parts (in the
  generator's HEAD/TAIL text): cpow, poch (pochhammer's loop), block, shift1, C1.

  The primitive special functions (scipy psi/zeta, gepard.special S1 S2 S3 MellinF2) are PARAMETERS:
  structure SF carries their values at Mellin moment n, SJ at conformal moment j.  Arrays of moments
  are List.map of this model (the real code is elementwise in n).
  C = Cx K; a real operand meeting a complex one is promoted with `r` (as Python does).
-/
namespace Adim

abbrev C := Cx K
/-- float → complex promotion -/
def r (x : K) : C := Cx.ofReal x

/-- z ** k for a literal non-negative integer k -/
def cpow (z : C) : Nat → C
  | 0 => r 1
  | k+1 => cpow z k * z

/-- special.pochhammer: `p = z; for k in range(1, m): p = p * (z + k)`; `kk` is the loop counter -/
def pochLoop (z : C) : Nat → K → C → C
  | 0, _, p => p
  | i+1, kk, p => pochLoop z i (kk + 1) (p * (z + r kk))
def poch (z : C) (m : Nat) : C := pochLoop z (m - 1) 1 z

/-- values of the primitive special functions at Mellin moment n (fed from gepard.special) -/
structure SF where
  S1 : C       -- S1(n)
  S2 : C       -- S2(n)
  S2h : C      -- S2(n/2)
  S3h : C      -- S3(n/2)
  S2hm : C     -- S2(n/2 - 1/2)
  S3hm : C     -- S3(n/2 - 1/2)
  psih : C     -- psi(n/2)
  psih1 : C    -- psi((n+1)/2)
  MF2 : C      -- MellinF2(n)
  z2 : K       -- zeta(2)
  z3 : K       -- zeta(3)

/-- values of S1 around conformal moment j (c1_V, shift1) -/
structure SJ where
  S1j : C      -- S1(j)
  S1j1 : C     -- S1(j+1)
  S1j2 : C     -- S1(j+2)
  S1j32 : C    -- S1(j+3/2)

/-- 2x2 matrix ((QQ, QG), (GQ, GG)) -/
structure M2 where
  qq : C
  qg : C
  gq : C
  gg : C

/-- (Q, G, NSP, NSM) -/
structure V4 where
  Q : C
  G : C
  NSP : C
  NSM : C

def V4.sub (a b : V4) : V4 := { Q := a.Q - b.Q, G := a.G - b.G, NSP := a.NSP - b.NSP, NSM := a.NSM - b.NSM }
def V4.add (a b : V4) : V4 := { Q := a.Q + b.Q, G := a.G + b.G, NSP := a.NSP + b.NSP, NSM := a.NSM + b.NSM }

'''

TAIL = '''
/-! ### hand-written: adim.block, c1dvcs.shift1, c1dvcs.C1 -/

/-- adim.block(n, nf)[k] for one n: (LO 4x4, NLO 4x4), rows/columns (Q, G, NS+, NS-) -/
def block (n : C) (nf : K) (P : SF) : List (List C) × List (List C) :=
  let lo := singlet_LO n nf 1 P
  let ns := non_singlet_LO n nf 1 P
  let nlo := singlet_NLO n nf 1 P
  let nsp := non_singlet_NLO n nf 1 P
  let nsm := non_singlet_NLO n nf (-1) P
  let z : C := r 0
  ([[lo.qq, lo.qg, z, z], [lo.gq, lo.gg, z, z], [z, z, ns, z], [z, z, z, ns]],
   [[nlo.qq, nlo.qg, z, z], [nlo.gq, nlo.gg, z, z], [z, z, nsp, z], [z, z, z, nsm]])

inductive Proc where
  | DIS | DVCS | other
inductive Scheme where
  | msbar | csbar | other

/-- c1dvcs.shift1(m, j, process_class) with LRF2 = log(m.rf2); none = `raise Exception` -/
def shift1 (rf2 : K) (pc : Proc) (J : SJ) : Option C :=
  let LRF2 := klog rf2
  match pc with
  | .DIS => some (r (-LRF2))
  | .DVCS => some (J.S1j32 - J.S1j2 + r (2 * klog 2) - r LRF2)
  | .other => none

/-- c1dvcs.C1(m, j, process_class): m.rf2, m.nf, m.scheme are what it reads.
    P = special values at n = j+1 (block(j+1), c1_F2(j+1), c1_F1(j+1)); J = S1 at j, j+1, j+2, j+3/2.
    einsum('k,i,kij->kj', s1, c0, block[:,0]) with c0 = (1,0,1,1) picks (qq0, qg0, ns0, ns0).
    none = `raise Exception` (unknown process in shift1, or unknown scheme for a non-DIS process). -/
def C1 (rf2 nf : K) (sch : Scheme) (pc : Proc) (j : C) (P : SF) (J : SJ) : Option V4 :=
  let n := j + r 1
  let lo := singlet_LO n nf 1 P
  let ns := non_singlet_LO n nf 1 P
  let row : V4 := { Q := lo.qq, G := lo.qg, NSP := ns, NSM := ns }
  let isDIS := match pc with | .DIS => true | _ => false
  let isCS := match sch with | .csbar => true | _ => false
  let isMS := match sch with | .msbar => true | _ => false
  let shift : Option V4 :=
    if isDIS || isCS then
      (shift1 rf2 pc J).map fun s =>
        { Q := s * row.Q / r 2, G := s * row.G / r 2, NSP := s * row.NSP / r 2, NSM := s * row.NSM / r 2 }
    else if isMS then
      let l := klog rf2
      some { Q := -(row.Q * r l / r 2), G := -(row.G * r l / r 2),
             NSP := -(row.NSP * r l / r 2), NSM := -(row.NSM * r l / r 2) }
    else none
  let c1 : V4 :=
    if isDIS then c1_F2 n nf P
    else if isCS then c1_F1 n nf P
    else c1_V j nf J
  shift.map fun s => V4.add c1 s

end Adim
'''


def generate():
    out = [HEAD]
    # ---- constants.py
    ctree = ast.parse(open(os.path.join(SRC, 'constants.py')).read())
    cenv = {}
    tr = Fn({}, {})
    out.append('/-! ### constants.py -/\n')
    want = ['NC', 'CF', 'CA', 'CG', 'TF']
    for st in ctree.body:
        if isinstance(st, ast.Assign) and len(st.targets) == 1 and isinstance(st.targets[0], ast.Name) \
                and st.targets[0].id in want:
            name = st.targets[0].id
            t, ty = tr.expr(st.value)
            if ty != 'R':
                raise Reject('constant %s is not real' % name)
            out.append('def %s : K := %s\n' % (name, t))
            tr.env[name] = (name, 'R')
            cenv[name] = (name, 'R')
    if sorted(cenv) != sorted(want):
        raise Reject('constants found: %s' % sorted(cenv))

    # ---- special.py composites
    stree = ast.parse(open(os.path.join(SRC, 'special.py')).read())
    out.append('\n/-! ### special.py: S2_prime, S3_prime at z = n/2 (every call site passes n/2), S2_tilde -/\n')
    for name in ('S2_prime', 'S3_prime'):
        fn = find_func(stree, name)
        t = Fn({'prty': ('prty', 'R')}, CALLS_N, sym={'z': 'n / 2'})
        # z itself must not be used outside the primitive calls
        out.append(translate_function(fn, ['z', 'prty'], t, 'C', name + '_half', '(prty : K) (P : SF)', 'C',
                                      'special'))
    fn = find_func(stree, 'S2_tilde')
    t = Fn({'n': ('n', 'C'), 'prty': ('prty', 'R')}, CALLS_N)
    out.append(translate_function(fn, ['n', 'prty'], t, 'C', 'S2_tilde', '(n : C) (prty : K) (P : SF)', 'C',
                                  'special'))

    # ---- adim.py
    atree = ast.parse(open(os.path.join(SRC, 'adim.py')).read())
    out.append('\n/-! ### adim.py -/\n')
    base = dict(cenv)
    base.update({'n': ('n', 'C'), 'nf': ('nf', 'R'), 'prty': ('prty', 'R')})
    sig = '(n : C) (nf : K) (prty : K) (P : SF)'
    for name, kind, ty in (('non_singlet_LO', 'C', 'C'), ('singlet_LO', 'M2', 'M2'),
                           ('non_singlet_NLO', 'C', 'C'), ('singlet_NLO', 'M2', 'M2')):
        fn = find_func(atree, name)
        out.append(translate_function(fn, ['n', 'nf', 'prty'], Fn(base, CALLS_N), kind, name, sig, ty, 'adim'))
        out.append('\n')
    # adim.block is hand-written: check the shape it relies on
    blk = ast.unparse(find_func(atree, 'block'))
    for needle in ('singlet_LO(n, nf)', 'non_singlet_LO(n, nf)', 'singlet_NLO(n, nf)',
                   'non_singlet_NLO(n, nf, prty=1)', 'non_singlet_NLO(n, nf, prty=-1)',
                   'np.block([[lo_SI, zero_SI], [zero_SI, lo_NS_block]])',
                   'np.block([[nlo_plus_NS, zero_NS], [zero_NS, nlo_minus_NS]])',
                   'np.stack([lo_block, nlo_block], axis=1)'):
        if needle not in blk:
            raise Reject('adim.block changed shape: %r not found' % needle)

    # ---- c1dvcs.py
    dtree = ast.parse(open(os.path.join(SRC, 'c1dvcs.py')).read())
    out.append('/-! ### c1dvcs.py -/\n')
    base = dict(cenv)
    base.update({'n': ('n', 'C'), 'nf': ('nf', 'R')})
    for name in ('c1_F2', 'c1_FL'):
        fn = find_func(dtree, name)
        out.append(translate_function(fn, ['n', 'nf'], Fn(base, CALLS_N), 'V4', name, '(n : C) (nf : K) (P : SF)',
                                      'V4', 'c1dvcs'))
        out.append('\n')
    fn = find_func(dtree, 'c1_F1')
    out.append(translate_function(fn, ['n', 'nf'], Fn(base, CALLS_N), 'V4sub', 'c1_F1', '(n : C) (nf : K) (P : SF)',
                                  'V4', 'c1dvcs'))
    out.append('\n')
    basej = dict(cenv)
    basej.update({'j': ('j', 'C'), 'nf': ('nf', 'R')})
    fn = find_func(dtree, 'c1_V')
    out.append(translate_function(fn, ['j', 'nf'], Fn(basej, CALLS_J), 'V4', 'c1_V', '(j : C) (nf : K) (J : SJ)',
                                  'V4', 'c1dvcs'))
    # shift1 / C1 are hand-written: check the pieces they rely on
    s1 = ast.unparse(find_func(dtree, 'shift1'))
    for needle in ("LRF2 = math.log(m.rf2)", "s1 = -LRF2 * np.ones_like(j)",
                   "s1 = S1(j + 3 / 2) - S1(j + 2) + 2 * math.log(2) - LRF2",
                   "if process_class == 'DIS':", "elif process_class == 'DVCS':"):
        if needle not in s1:
            raise Reject('c1dvcs.shift1 changed shape: %r not found' % needle)
    c1 = ast.unparse(find_func(dtree, 'C1'))
    for needle in ("c0 = np.array([1, 0, 1, 1])",
                   "if process_class == 'DIS' or m.scheme == 'csbar':",
                   "shift = np.einsum('k,i,kij->kj', shift1(m, j, process_class), c0, adim.block(j + 1, m.nf)[:, 0, :, :]) / 2",
                   "elif m.scheme == 'msbar':",
                   "shift = -np.einsum('i,kij->kj', c0, adim.block(j + 1, m.nf)[:, 0, :, :]) * math.log(m.rf2) / 2",
                   "c1 = c1_F2(j + 1, m.nf)", "c1 = c1_F1(j + 1, m.nf)", "c1 = c1_V(j, m.nf)",
                   "return c1 + shift"):
        if needle not in c1:
            raise Reject('c1dvcs.C1 changed shape: %r not found' % needle)
    out.append(TAIL)
    return ''.join(out)


def main():
    text = generate()
    if os.path.exists(OUT) and open(OUT).read() == text:
        return False
    open(OUT, 'w').write(text)
    return True


if __name__ == '__main__':
    try:
        ch = main()
    except Reject as e:
        print('gen_adim: REJECTED: %s' % e)
        sys.exit(1)
    print('gen_adim: %s %s' % (OUT, 'rewritten' if ch else 'unchanged'))

"""tools/gen_kin.py — translate the kinematic completion helpers of gepard/data.py (_complete_xBWQ2, _complete_tmt) from
the Python AST of the CURRENT /repo tree into the scalar template lean/Scalar/ConvSrc.lean.in   (property C13).
lean/Proofs/ConvBridge.lean proves that the hand-written model (lean/Scalar/Conv.lean.in: completeTrio, fillDuo) takes
exactly these branches with exactly these formulas.

Structural: each function is one if / elif / … / else chain whose final else raises; every test is a conjunction of
`'<key>' in kin` / `'<key>' not in kin`; every branch is  [assert kin.<key> <op> <number>]  kin.<key> = <expr>  with <expr>
an arithmetic expression of kin.<key>'s, the module constant Mp2 and math.sqrt.  Emitted per branch i of function f:
f_i_present, f_i_absent (lists of keys, sorted), f_i_sets (the key assigned), f_i_assert (text of the assertion, "" if
none), f_i (the formula as a function of the keys it reads, in alphabetical order, and M2).  Anything else is rejected."""
import ast
import os
import sys

HERE = os.path.dirname(os.path.abspath(__file__))
sys.path.insert(0, HERE)
from gen_qcd import Ex, Reject, body_of, num  # noqa: E402

VERIF = os.path.dirname(HERE)
REPO = os.environ.get('GEPARD_REPO', '/repo')
SRC = os.path.join(REPO, 'src', 'gepard')
OUT = os.path.join(VERIF, 'lean', 'Scalar', 'ConvSrc.lean.in')


class KEx(Ex):
    def __init__(self, kinvar):
        Ex.__init__(self, {}, {}, {})
        self.kinvar = kinvar
        self.reads = []

    def tr(self, node):
        if isinstance(node, ast.Attribute) and isinstance(node.value, ast.Name) and node.value.id == self.kinvar:
            if node.attr not in self.reads:
                self.reads.append(node.attr)
            return 'v_' + node.attr
        if isinstance(node, ast.Name) and node.id == 'Mp2':
            return 'M2'
        if isinstance(node, ast.Call) and not node.keywords and len(node.args) == 1:
            f = node.func
            if (isinstance(f, ast.Attribute) and f.attr == 'sqrt' and isinstance(f.value, ast.Name)
                    and f.value.id in ('math', 'np', 'numpy')) or (isinstance(f, ast.Name) and f.id == 'sqrt'):
                return '(ksqrt %s)' % self.tr(node.args[0])
        return Ex.tr(self, node)


def presence(test, kinvar):
    vals = test.values if isinstance(test, ast.BoolOp) and isinstance(test.op, ast.And) else [test]
    pres, absn = [], []
    for v in vals:
        if not (isinstance(v, ast.Compare) and len(v.ops) == 1 and isinstance(v.ops[0], (ast.In, ast.NotIn))
                and isinstance(v.left, ast.Constant) and isinstance(v.left.value, str)
                and isinstance(v.comparators[0], ast.Name) and v.comparators[0].id == kinvar):
            raise Reject('presence test of unexpected form')
        (pres if isinstance(v.ops[0], ast.In) else absn).append(v.left.value)
    return sorted(pres), sorted(absn)


def branches(fn):
    kinvar = fn.args.args[0].arg
    stmts = [s for s in body_of(fn) if not (isinstance(s, ast.Return) and s.value is None)]
    if not (len(stmts) == 1 and isinstance(stmts[0], ast.If)):
        raise Reject('%s: not a single if chain' % fn.name)
    st = stmts[0]
    out = []
    while True:
        pres, absn = presence(st.test, kinvar)
        body = list(st.body)
        asserted = ''
        if body and isinstance(body[0], ast.Assert):
            t = body[0].test
            ops = {ast.LtE: '<=', ast.GtE: '>=', ast.Lt: '<', ast.Gt: '>'}
            if not (isinstance(t, ast.Compare) and len(t.ops) == 1 and type(t.ops[0]) in ops
                    and isinstance(t.left, ast.Attribute) and isinstance(t.left.value, ast.Name)
                    and t.left.value.id == kinvar and isinstance(t.comparators[0], ast.Constant)):
                raise Reject('%s: assertion of unexpected form' % fn.name)
            asserted = '%s %s %s' % (t.left.attr, ops[type(t.ops[0])], num(t.comparators[0].value))
            body = body[1:]
        if not (len(body) == 1 and isinstance(body[0], ast.Assign) and len(body[0].targets) == 1
                and isinstance(body[0].targets[0], ast.Attribute) and isinstance(body[0].targets[0].value, ast.Name)
                and body[0].targets[0].value.id == kinvar):
            raise Reject('%s: branch is not a single assignment to an attribute of %s' % (fn.name, kinvar))
        ex = KEx(kinvar)
        e = ex.tr(body[0].value)
        out.append(dict(present=pres, absent=absn, sets=body[0].targets[0].attr, asserted=asserted, expr=e,
                        reads=sorted(ex.reads)))
        if len(st.orelse) == 1 and isinstance(st.orelse[0], ast.If):
            st = st.orelse[0]
            continue
        if not (len(st.orelse) == 1 and isinstance(st.orelse[0], ast.Raise)):
            raise Reject('%s: the final else does not raise' % fn.name)
        return out


def lst(xs):
    return '[' + ', '.join('"%s"' % x for x in xs) + ']'


def gen():
    mod = ast.parse(open(os.path.join(SRC, 'data.py')).read())
    funcs = {n.name: n for n in mod.body if isinstance(n, ast.FunctionDef)}
    out = ['/- AUTO-GENERATED by tools/gen_kin.py from src/gepard/data.py — do not edit -/\n', 'namespace ConvSrc\n']
    for py, nm in (('_complete_xBWQ2', 'trio'), ('_complete_tmt', 'duo')):
        if py not in funcs:
            raise Reject('data.%s not found' % py)
        bs = branches(funcs[py])
        out.append('/-- number of branches of `%s` before the raising else -/\ndef %s_branches : Nat := %d\n' % (py, nm, len(bs)))
        for i, b in enumerate(bs):
            out.append('def %s_%d_present : List String := %s' % (nm, i, lst(b['present'])))
            out.append('def %s_%d_absent : List String := %s' % (nm, i, lst(b['absent'])))
            out.append('def %s_%d_sets : String := "%s"' % (nm, i, b['sets']))
            out.append('def %s_%d_assert : String := "%s"' % (nm, i, b['asserted']))
            args = ' '.join('v_' + r for r in b['reads'])
            out.append('/-- `kin.%s = …` of branch %d of `%s` -/\ndef %s_%d (M2 %s : K) : K :=\n  %s\n'
                       % (b['sets'], i, py, nm, i, args, b['expr']))
    out.append('end ConvSrc\n')
    return '\n'.join(out)


def main():
    import instantiate
    instantiate.write_if_changed(OUT, gen())


if __name__ == '__main__':
    main()

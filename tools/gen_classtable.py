"""Extract the class table of gepard with Python's `ast` and emit lean/Gen/ClassTable.lean.

For every class defined at module level in /repo/src/gepard/*.py:
  * its bases (resolved to classes of the table or to the builtins object/dict/list/Exception),
  * the names its body defines (methods, class attributes),
  * for its __init__ (classes of the "block world" modules only; others are marked opaque):
    the sequence of events in source order, split at the `super().__init__(**kwargs)` call
        read a      – `self.a` is loaded (AttributeError if nobody created it before)
        mayRead a   – `self.a` is loaded on some paths only (nested in a loop / branch)
        write a     – `self.a = <expr>`
        ensure a    – `self.a` is created only if it is missing
        setdef k d  – `kwargs.setdefault(k, d)`
        bind a k d  – `self.a = kwargs.setdefault(k, d)`
        callMeth m  – `self.m(<args>)`     (summarised per defining class below)
        callInit C  – `C.__init__(self, **kwargs)`
  * summaries of the methods called from an __init__ (partially evaluated at the constant
    arguments of the call site).
Also: the documented maximal theory (docs/source/theory.rst) and the KM combinations
(classes of fits.py) as lists of block classes.

The extractor REJECTS (raises Unsupported) every construct it has no rule for; it never guesses.
"""
from __future__ import annotations

import ast
import os
import re
import sys

HERE = os.path.dirname(os.path.abspath(__file__))
VERIF = os.path.dirname(HERE)
REPO = os.environ.get('GEPARD_REPO', '/repo')
SRC = os.path.join(REPO, 'src', 'gepard')
DOC = os.path.join(REPO, 'docs', 'source', 'theory.rst')
OUT = os.path.join(VERIF, 'lean', 'Gen', 'ClassTable.lean')

BUILTIN_BASES = ['object', 'dict', 'list', 'Exception']
# modules whose __init__ methods are analysed (the building blocks and what they inherit from)
BLOCK_WORLD = ['theory', 'model', 'mellin', 'gpd', 'cff', 'gk', 'dvcs', 'bmk', 'dvmp', 'dis',
               'eff', 'fits']


class Unsupported(Exception):
    pass


def bad(node, why, mod='?'):
    raise Unsupported('%s.py:%s: %s' % (mod, getattr(node, 'lineno', '?'), why))


def is_self_attr(n):
    return isinstance(n, ast.Attribute) and isinstance(n.value, ast.Name) and n.value.id == 'self'


def is_setdefault(n):
    return (isinstance(n, ast.Call) and isinstance(n.func, ast.Attribute)
            and n.func.attr == 'setdefault' and isinstance(n.func.value, ast.Name)
            and n.func.value.id == 'kwargs')


def ensure_attr(st, expr_reads):
    """`if not hasattr(self, 'a'): self.a = <self-free expr>` (no else): the attribute it creates when missing, else None.
    Same meaning as `try: self.a / except AttributeError: self.a = …` (hasattr swallows AttributeError only)."""
    if not (isinstance(st, ast.If) and not st.orelse and len(st.body) == 1):
        return None
    t, b = st.test, st.body[0]
    if not (isinstance(t, ast.UnaryOp) and isinstance(t.op, ast.Not) and isinstance(t.operand, ast.Call)
            and isinstance(t.operand.func, ast.Name) and t.operand.func.id == 'hasattr' and len(t.operand.args) == 2
            and not t.operand.keywords and isinstance(t.operand.args[0], ast.Name) and t.operand.args[0].id == 'self'
            and isinstance(t.operand.args[1], ast.Constant) and isinstance(t.operand.args[1].value, str)):
        return None
    a = t.operand.args[1].value
    if not (isinstance(b, ast.Assign) and len(b.targets) == 1 and is_self_attr(b.targets[0]) and b.targets[0].attr == a
            and not a.startswith('__') and not expr_reads(b.value)):
        return None
    return a


def is_super_init(n):
    return (isinstance(n, ast.Call) and isinstance(n.func, ast.Attribute)
            and n.func.attr == '__init__' and isinstance(n.func.value, ast.Call)
            and isinstance(n.func.value.func, ast.Name) and n.func.value.func.id == 'super')


class Extractor:
    def __init__(self):
        self.mods = {}      # module -> ast.Module
        self.classes = {}   # class name -> dict
        self.order = []     # class names in table order
        self.imports = {}   # module -> {local name: (module, name)} for `from .x import Name`
        self.modnames = {}  # module -> set of local names bound to gepard modules
        self.called = set()  # (method, argskey) called from some __init__

    # ---------------------------------------------------------------- loading
    def load(self):
        for f in sorted(os.listdir(SRC)):
            if not f.endswith('.py'):
                continue
            mod = f[:-3]
            tree = ast.parse(open(os.path.join(SRC, f)).read(), filename=f)
            self.mods[mod] = tree
            self.imports[mod] = {}
            self.modnames[mod] = set()
            for st in tree.body:
                if isinstance(st, ast.ImportFrom) and st.level == 1:
                    if st.module is None:
                        for a in st.names:
                            self.modnames[mod].add(a.asname or a.name)
                            if a.asname and a.asname != a.name:
                                bad(st, 'module import with alias', mod)
                    else:
                        for a in st.names:
                            self.imports[mod][a.asname or a.name] = (st.module, a.name)
        for mod, tree in self.mods.items():
            for st in tree.body:
                if isinstance(st, ast.ClassDef):
                    if st.name in self.classes or st.name in BUILTIN_BASES:
                        bad(st, 'duplicate class name %s' % st.name, mod)
                    self.classes[st.name] = {'name': st.name, 'module': mod, 'node': st}
        # table order: builtins first, then modules alphabetically, classes in source order
        self.order = list(BUILTIN_BASES)
        for mod in sorted(self.mods):
            for st in self.mods[mod].body:
                if isinstance(st, ast.ClassDef):
                    self.order.append(st.name)

    def class_in_module(self, mod, name, seen=()):
        """the class that `name` denotes at module level of `mod` (own class or re-export)"""
        c = self.classes.get(name)
        if c is not None and c['module'] == mod:
            return name
        imp = self.imports.get(mod, {}).get(name)
        if imp is not None and (mod, name) not in seen and imp[0] in self.mods:
            return self.class_in_module(imp[0], imp[1], seen + ((mod, name),))
        return None

    def resolve_class_expr(self, mod, e):
        if isinstance(e, ast.Name):
            if e.id in BUILTIN_BASES:
                return e.id
            r = self.class_in_module(mod, e.id)
            if r is None:
                bad(e, 'cannot resolve class name %s' % e.id, mod)
            return r
        if isinstance(e, ast.Attribute) and isinstance(e.value, ast.Name):
            m = e.value.id
            if m in self.modnames[mod] and m in self.mods:
                r = self.class_in_module(m, e.attr)
                if r is None:
                    bad(e, 'cannot resolve %s.%s' % (m, e.attr), mod)
                return r
        bad(e, 'unsupported class expression %s' % ast.dump(e), mod)

    # ---------------------------------------------------------------- class bodies
    def scan_class(self, c):
        node, mod = c['node'], c['module']
        if node.keywords or node.decorator_list:
            bad(node, 'class keywords / decorators', mod)
        c['bases'] = [self.resolve_class_expr(mod, b) for b in node.bases] or ['object']
        defs = []
        strlists = {}       # class-level names bound to lists of string literals
        c['init_node'] = None
        c['methods'] = {}
        for st in node.body:
            if isinstance(st, ast.Expr) and isinstance(st.value, ast.Constant) \
                    and isinstance(st.value.value, str):
                continue
            if isinstance(st, ast.Pass):
                continue
            if isinstance(st, ast.FunctionDef):
                if st.decorator_list:
                    bad(st, 'decorated method %s' % st.name, mod)
                defs.append(st.name)
                c['methods'][st.name] = st
                if st.name == '__init__':
                    c['init_node'] = st
                continue
            if isinstance(st, ast.Assign) and all(isinstance(t, ast.Name) for t in st.targets):
                defs += [t.id for t in st.targets]
                if isinstance(st.value, ast.List) and all(
                        isinstance(x, ast.Constant) and isinstance(x.value, str)
                        for x in st.value.elts):
                    for t in st.targets:
                        strlists[t.id] = [x.value for x in st.value.elts]
                else:
                    for t in st.targets:
                        strlists.pop(t.id, None)
                continue
            if isinstance(st, ast.For) and isinstance(st.target, ast.Name) and not st.orelse \
                    and isinstance(st.iter, ast.Name) and st.iter.id in strlists \
                    and len(st.body) == 1 and isinstance(st.body[0], ast.Expr) \
                    and isinstance(st.body[0].value, ast.Call) \
                    and isinstance(st.body[0].value.func, ast.Name) \
                    and st.body[0].value.func.id == 'exec' and len(st.body[0].value.args) == 1 \
                    and not st.body[0].value.keywords \
                    and isinstance(st.body[0].value.args[0], ast.BinOp) \
                    and isinstance(st.body[0].value.args[0].op, ast.Mod) \
                    and isinstance(st.body[0].value.args[0].left, ast.Constant) \
                    and isinstance(st.body[0].value.args[0].left.value, str) \
                    and re.fullmatch(r'def %s\(self(, \w+)*\): return [^\n;]*',
                                     st.body[0].value.args[0].left.value) \
                    and isinstance(st.body[0].value.args[0].right, ast.Name) \
                    and st.body[0].value.args[0].right.id == st.target.id:
                # for name in LIST: exec('def %s(self, pt): return 0.' % name)
                # defines one method per element, and leaves the loop variable as a class attribute
                defs += list(strlists[st.iter.id])
                if strlists[st.iter.id]:
                    defs.append(st.target.id)
                continue
            if isinstance(st, ast.AnnAssign) and isinstance(st.target, ast.Name) \
                    and st.value is not None:
                defs.append(st.target.id)
                continue
            if isinstance(st, ast.Assign) and len(st.targets) == 1 \
                    and isinstance(st.targets[0], ast.Subscript) \
                    and isinstance(st.targets[0].value, ast.Name) and st.targets[0].value.id in defs:
                continue      # D[key] = value on a class-level dict defined above: no new name
            bad(st, 'unsupported statement in class body: %s' % type(st).__name__, mod)
        seen = []
        for d in defs:
            if d not in seen:
                seen.append(d)
        c['defs'] = seen
        if mod in BLOCK_WORLD:
            for d in seen:
                if d.startswith('__') and d.endswith('__') and d != '__init__':
                    # __getattr__, __setattr__, __new__, __slots__, … would change the object model
                    bad(node, 'block class %s defines special name %s' % (c['name'], d), mod)

    # ---------------------------------------------------------------- expressions
    def expr_reads(self, e, mod, allow_calls_on_self=False):
        """self-attribute loads of an expression, in evaluation (field) order.
        Rejects: kwargs use, self method calls, stores, lambdas, comprehensions with self."""
        reads = []

        def visit(n):
            if is_self_attr(n):
                if not isinstance(n.ctx, ast.Load):
                    bad(n, 'store to self attribute inside expression', mod)
                if n.attr.startswith('__'):
                    bad(n, 'dunder attribute read', mod)
                reads.append(n.attr)
                return
            if isinstance(n, ast.Name):
                if n.id == 'kwargs':
                    bad(n, 'kwargs used inside an expression', mod)
                if n.id == 'self':
                    bad(n, 'bare self inside an expression', mod)
                if n.id in ('getattr', 'setattr', 'hasattr', 'vars', 'super', 'delattr'):
                    bad(n, 'reflection inside an expression', mod)
                return
            if isinstance(n, ast.Call):
                f = n.func
                if is_self_attr(f):
                    bad(n, 'method call on self inside an expression', mod)
            def touches_self(x):
                return any(is_self_attr(sub) or (isinstance(sub, ast.Name) and sub.id in ('self', 'kwargs'))
                           for sub in ast.walk(x))
            if isinstance(n, ast.IfExp) and not touches_self(n.body) and not touches_self(n.orelse):
                # `a if <test> else b` with self read only in the test: the test is always evaluated
                visit(n.test)
                return
            if isinstance(n, ast.BoolOp) and not any(touches_self(v) for v in n.values[1:]):
                visit(n.values[0])           # the first operand is always evaluated
                return
            if isinstance(n, (ast.Lambda, ast.ListComp, ast.SetComp, ast.DictComp,
                              ast.GeneratorExp, ast.NamedExpr, ast.Await, ast.Yield,
                              ast.YieldFrom, ast.IfExp, ast.BoolOp, ast.Starred)):
                # conditional evaluation: reads below would not be certain
                for sub in ast.walk(n):
                    if is_self_attr(sub) or (isinstance(sub, ast.Name) and sub.id in ('self', 'kwargs')):
                        bad(n, 'self/kwargs under conditional or deferred evaluation', mod)
                return
            if isinstance(n, (ast.Constant, ast.BinOp, ast.UnaryOp, ast.Call, ast.Attribute,
                              ast.Subscript, ast.List, ast.Tuple, ast.Dict, ast.Set, ast.Compare,
                              ast.Slice, ast.keyword, ast.JoinedStr, ast.FormattedValue)):
                for ch in ast.iter_child_nodes(n):
                    if isinstance(ch, (ast.operator, ast.unaryop, ast.cmpop, ast.expr_context)):
                        continue
                    visit(ch)
                return
            bad(n, 'unsupported expression node %s' % type(n).__name__, mod)

        visit(e)
        return reads

    # ---------------------------------------------------------------- __init__ bodies
    def init_events(self, c):
        node, mod = c['init_node'], c['module']
        a = node.args
        if (len(a.args) != 1 or a.args[0].arg != 'self' or a.vararg or a.kwonlyargs
                or a.posonlyargs or a.defaults or a.kwarg is None or a.kwarg.arg != 'kwargs'):
            bad(node, '__init__ signature is not (self, **kwargs)', mod)
        evs = []            # list of tuples
        locals_lists = {}   # local name -> True if bound to a non-empty list literal

        def reads(e):
            for r in self.expr_reads(e, mod):
                evs.append(('read', r))

        def kwargs_only(call):
            if call.args or len(call.keywords) != 1 or call.keywords[0].arg is not None \
                    or not isinstance(call.keywords[0].value, ast.Name) \
                    or call.keywords[0].value.id != 'kwargs':
                bad(call, '__init__ call not of the form (**kwargs)', mod)

        def setdefault_parts(call):
            if len(call.args) != 2 or call.keywords or not isinstance(call.args[0], ast.Constant) \
                    or not isinstance(call.args[0].value, str):
                bad(call, 'kwargs.setdefault with non-literal key', mod)
            d = call.args[1]
            rd = self.expr_reads(d, mod)
            for r in rd:
                evs.append(('read', r))
            return call.args[0].value, ast.unparse(d)

        def write_only_branch(stmts):
            """a branch of an if: only assignments of self-free expressions; returns written attrs"""
            ws = []
            for st in stmts:
                if isinstance(st, ast.Assign) and len(st.targets) == 1:
                    if self.expr_reads(st.value, mod):
                        bad(st, 'self read inside a branch', mod)
                    t = st.targets[0]
                    if isinstance(t, ast.Name):
                        continue
                    if is_self_attr(t):
                        ws.append(t.attr)
                        continue
                bad(st, 'unsupported statement inside a branch of __init__', mod)
            return ws

        def stmt(st, nested=False):
            if isinstance(st, ast.Expr) and isinstance(st.value, ast.Constant):
                return
            if isinstance(st, ast.Pass):
                return
            if isinstance(st, (ast.Assign, ast.AnnAssign)):
                if isinstance(st, ast.Assign):
                    if len(st.targets) != 1:
                        bad(st, 'chained assignment', mod)
                    tgt, val = st.targets[0], st.value
                else:
                    tgt, val = st.target, st.value
                    if val is None:
                        bad(st, 'annotation without value', mod)
                if is_setdefault(val):
                    if nested or not is_self_attr(tgt):
                        bad(st, 'kwargs.setdefault result not bound to a self attribute', mod)
                    k, d = setdefault_parts(val)
                    evs.append(('bind', tgt.attr, k, d))
                    return
                if isinstance(val, ast.Name) and val.id == 'self' and is_self_attr(tgt) and not nested:
                    evs.append(('write', tgt.attr, 'self'))      # self.a = self  (alias)
                    return
                reads(val)
                if is_self_attr(tgt):
                    if nested:
                        bad(st, 'attribute write inside a loop', mod)
                    evs.append(('write', tgt.attr, ast.unparse(val)))
                elif isinstance(tgt, ast.Name):
                    if isinstance(val, ast.List) and val.elts:
                        locals_lists[tgt.id] = True
                    else:
                        locals_lists.pop(tgt.id, None)
                elif isinstance(tgt, ast.Tuple) and all(isinstance(x, ast.Name) for x in tgt.elts):
                    for x in tgt.elts:
                        locals_lists.pop(x.id, None)
                elif isinstance(tgt, ast.Subscript) and is_self_attr(tgt.value):
                    # self.a[i] = v : loads the container self.a (mutation, not an attribute write)
                    evs.append(('read', tgt.value.attr))
                    for r in self.expr_reads(tgt.slice, mod):
                        evs.append(('read', r))
                else:
                    bad(st, 'unsupported assignment target', mod)
                return
            if isinstance(st, ast.Expr) and isinstance(st.value, ast.Call):
                call = st.value
                if nested:
                    bad(st, 'call statement inside a loop of __init__', mod)
                if is_setdefault(call):
                    k, d = setdefault_parts(call)
                    evs.append(('setdef', k, d))
                    return
                if is_super_init(call):
                    if call.func.value.args or call.func.value.keywords:
                        bad(st, 'super() with arguments', mod)
                    kwargs_only(call)
                    evs.append(('super',))
                    return
                f = call.func
                if isinstance(f, ast.Attribute) and f.attr == '__init__':
                    # C.__init__(self, **kwargs)
                    if len(call.args) != 1 or not isinstance(call.args[0], ast.Name) \
                            or call.args[0].id != 'self':
                        bad(st, 'explicit __init__ call without self', mod)
                    call2 = ast.Call(func=f, args=[], keywords=call.keywords)
                    ast.copy_location(call2, call)
                    kwargs_only(call2)
                    evs.append(('callInit', self.resolve_class_expr(mod, f.value)))
                    return
                if is_self_attr(f):
                    for arg in call.args:
                        reads(arg)
                    if call.keywords:
                        bad(st, 'keyword arguments in a self method call', mod)
                    if all(isinstance(x, ast.Constant) for x in call.args):
                        key = repr(tuple(x.value for x in call.args))
                    else:
                        key = '*'
                    evs.append(('callMeth', f.attr, key))
                    self.called.add((f.attr, key))
                    return
                bad(st, 'unsupported call statement %s' % ast.unparse(call)[:60], mod)
            if isinstance(st, ast.If):
                if nested:
                    bad(st, 'if inside a loop of __init__', mod)
                a_ = ensure_attr(st, lambda e: self.expr_reads(e, mod))
                if a_ is not None:
                    evs.append(('ensure', a_))
                    return
                # pattern A: both branches assign the same attributes from self-free expressions
                reads(st.test)
                w1 = write_only_branch(st.body)
                w2 = write_only_branch(st.orelse)
                if sorted(w1) != sorted(w2):
                    bad(st, 'branches of if write different attributes', mod)
                for w in w1:
                    evs.append(('write', w, 'if ' + ast.unparse(st.test) + ' …'))
                return
            if isinstance(st, ast.For):
                if nested or st.orelse:
                    bad(st, 'nested loop / for-else in __init__', mod)
                it = st.iter
                # pattern B:  for d in ['a', 'b']: if not hasattr(self, d): setattr(self, d, X)
                if isinstance(it, ast.List) and it.elts and all(
                        isinstance(x, ast.Constant) and isinstance(x.value, str) for x in it.elts) \
                        and isinstance(st.target, ast.Name) and len(st.body) == 1 \
                        and isinstance(st.body[0], ast.If) and not st.body[0].orelse:
                    v = st.target.id
                    iff = st.body[0]
                    t = iff.test
                    ok = (isinstance(t, ast.UnaryOp) and isinstance(t.op, ast.Not)
                          and isinstance(t.operand, ast.Call) and isinstance(t.operand.func, ast.Name)
                          and t.operand.func.id == 'hasattr' and len(t.operand.args) == 2
                          and isinstance(t.operand.args[0], ast.Name) and t.operand.args[0].id == 'self'
                          and isinstance(t.operand.args[1], ast.Name) and t.operand.args[1].id == v
                          and len(iff.body) == 1 and isinstance(iff.body[0], ast.Expr)
                          and isinstance(iff.body[0].value, ast.Call)
                          and isinstance(iff.body[0].value.func, ast.Name)
                          and iff.body[0].value.func.id == 'setattr'
                          and len(iff.body[0].value.args) == 3
                          and isinstance(iff.body[0].value.args[0], ast.Name)
                          and iff.body[0].value.args[0].id == 'self'
                          and isinstance(iff.body[0].value.args[1], ast.Name)
                          and iff.body[0].value.args[1].id == v
                          and not self.expr_reads(iff.body[0].value.args[2], mod))
                    if not ok:
                        bad(st, 'for loop over literals with an unsupported body', mod)
                    for x in it.elts:
                        evs.append(('ensure', x.value))
                    return
                # pattern C: loop over a non-empty local list literal; body = simple statements
                # without attribute writes; executed at least once, reads are idempotent
                if isinstance(it, ast.Name) and locals_lists.get(it.id) and isinstance(st.target, ast.Name):
                    for b in st.body:
                        stmt(b, nested=True)
                    return
                bad(st, 'unsupported for loop', mod)
            bad(st, 'unsupported statement in __init__: %s' % type(st).__name__, mod)

        for st in node.body:
            stmt(st)
        nsuper = [i for i, e in enumerate(evs) if e[0] == 'super']
        if len(nsuper) > 1:
            bad(node, 'more than one super().__init__ call', mod)
        if nsuper:
            i = nsuper[0]
            return {'pre': evs[:i], 'sup': True, 'post': evs[i + 1:]}
        return {'pre': evs, 'sup': False, 'post': []}

    # ---------------------------------------------------------------- method summaries
    def method_summary(self, c, name, key):
        """events of method `name` of class c when called with constant arguments `key`
        ('*' = unknown arguments).  Top-level statements only give certain events; loads nested in
        loops/branches become mayRead; nested attribute writes are rejected."""
        node, mod = c['methods'][name], c['module']
        a = node.args
        if a.kwonlyargs or a.posonlyargs or a.defaults or a.kwarg:
            bad(node, 'method signature not supported for summarising', mod)
        params = [x.arg for x in a.args[1:]]
        consts = None
        if key != '*':
            vals = list(eval(key))
            consts = {}
            if a.vararg:
                if params:
                    bad(node, 'mixed positional and *args', mod)
                consts[a.vararg.arg] = tuple(vals)
            else:
                if len(vals) != len(params):
                    bad(node, 'arity mismatch at call site', mod)
                consts = dict(zip(params, vals))
        evs = []

        def static_test(t):
            """value of a test that depends only on constant arguments, else None"""
            if consts is None:
                return None
            try:
                names = {n.id for n in ast.walk(t) if isinstance(n, ast.Name)}
                if not names <= set(consts):
                    return None
                for n in ast.walk(t):
                    if not isinstance(n, (ast.Compare, ast.Name, ast.Constant, ast.Subscript,
                                          ast.Eq, ast.NotEq, ast.In, ast.NotIn, ast.Is, ast.IsNot,
                                          ast.BoolOp, ast.And, ast.Or, ast.UnaryOp, ast.Not, ast.USub,
                                          ast.Tuple, ast.List, ast.Load, ast.expr_context)):
                        return None
                return bool(eval(compile(ast.Expression(t), '<test>', 'eval'), {'__builtins__': {}},
                                 dict(consts)))
            except Exception:
                return None

        def nested(stmts):
            for st in stmts:
                for n in ast.walk(st):
                    if is_self_attr(n):
                        if isinstance(n.ctx, ast.Store) or isinstance(n.ctx, ast.Del):
                            bad(n, 'attribute write nested in a method called from __init__', mod)
                        evs.append(('mayRead', n.attr))
                    if isinstance(n, ast.Call) and is_self_attr(n.func):
                        bad(n, 'nested method call inside a summarised method', mod)
                    if isinstance(n, ast.Name) and n.id in ('setattr', 'delattr', 'vars'):
                        bad(n, 'reflection inside a summarised method', mod)

        def may_return(stmts):
            return any(isinstance(n, ast.Return) for st in stmts for n in ast.walk(st))

        def top(stmts):
            """events of a statement list every statement of which is certainly reached; True when the list certainly
            ends the method (`return`).  After a statement that MAY return (a `return` under a test that is not known,
            or in a loop) the rest runs on some paths only: its loads become mayRead, its attribute writes are rejected."""
            for i, st in enumerate(stmts):
                if isinstance(st, ast.Expr) and isinstance(st.value, ast.Constant):
                    continue
                if isinstance(st, ast.Pass):
                    continue
                if isinstance(st, ast.Return):
                    if st.value is not None:
                        for r in self.expr_reads(st.value, mod):
                            evs.append(('read', r))
                    return True
                if isinstance(st, ast.Try):
                    # try: self.a  except AttributeError: self.a = X   → ensure a
                    ok = (len(st.body) == 1 and isinstance(st.body[0], ast.Expr)
                          and is_self_attr(st.body[0].value) and len(st.handlers) == 1
                          and isinstance(st.handlers[0].type, ast.Name)
                          and st.handlers[0].type.id == 'AttributeError'
                          and not st.orelse and not st.finalbody
                          and len(st.handlers[0].body) == 1
                          and isinstance(st.handlers[0].body[0], ast.Assign)
                          and len(st.handlers[0].body[0].targets) == 1
                          and is_self_attr(st.handlers[0].body[0].targets[0])
                          and st.handlers[0].body[0].targets[0].attr == st.body[0].value.attr
                          and not self.expr_reads(st.handlers[0].body[0].value, mod))
                    if not ok:
                        bad(st, 'unsupported try statement', mod)
                    evs.append(('ensure', st.body[0].value.attr))
                    continue
                if isinstance(st, ast.Expr) and isinstance(st.value, ast.Call):
                    call = st.value
                    if is_self_attr(call.func):
                        bad(st, 'method calls method on self (not summarised)', mod)
                    for r in self.expr_reads(call, mod):
                        evs.append(('read', r))
                    continue
                if isinstance(st, ast.Assign) and len(st.targets) == 1:
                    for r in self.expr_reads(st.value, mod):
                        evs.append(('read', r))
                    t = st.targets[0]
                    if is_self_attr(t):
                        evs.append(('write', t.attr, ast.unparse(st.value)))
                    elif isinstance(t, ast.Subscript) and is_self_attr(t.value):
                        evs.append(('read', t.value.attr))
                    elif not isinstance(t, ast.Name):
                        bad(st, 'unsupported assignment target in method', mod)
                    continue
                if isinstance(st, ast.If) and ensure_attr(st, lambda e: self.expr_reads(e, mod)) is not None:
                    evs.append(('ensure', ensure_attr(st, lambda e: self.expr_reads(e, mod))))
                    continue
                if isinstance(st, ast.If):
                    v = static_test(st.test)
                    if v is None:
                        for r in self.expr_reads(st.test, mod):
                            evs.append(('read', r))
                        nested(st.body)
                        nested(st.orelse)
                        if may_return(st.body) or may_return(st.orelse):
                            nested(stmts[i + 1:])
                            return False
                    elif top(st.body if v else st.orelse):
                        return True         # the arm taken returns: the rest of the method is not executed
                    continue
                if isinstance(st, ast.For):
                    for r in self.expr_reads(st.iter, mod):
                        evs.append(('read', r))
                    nested(st.body)
                    nested(st.orelse)
                    if may_return(st.body) or may_return(st.orelse):
                        nested(stmts[i + 1:])
                        return False
                    continue
                bad(st, 'unsupported statement in summarised method: %s' % type(st).__name__, mod)
            return False

        top(node.body)
        return evs

    # ---------------------------------------------------------------- driver
    def run(self):
        self.load()
        for name in self.order:
            if name in BUILTIN_BASES:
                continue
            self.scan_class(self.classes[name])
        for name in self.order:
            if name in BUILTIN_BASES:
                continue
            c = self.classes[name]
            if c['init_node'] is None:
                c['init'] = None
            elif c['module'] in BLOCK_WORLD:
                c['init'] = self.init_events(c)
            else:
                c['init'] = 'opaque'
        for name in self.order:
            if name in BUILTIN_BASES:
                continue
            c = self.classes[name]
            c['summaries'] = []
            if c['module'] not in BLOCK_WORLD:
                continue
            for (m, key) in sorted(self.called):
                if m in c['methods']:
                    c['summaries'].append((m, key, self.method_summary(c, m, key)))
        # block world sanity: bases of block-world classes stay inside block world or object
        for name in self.order:
            if name in BUILTIN_BASES:
                continue
            c = self.classes[name]
            if c['module'] in BLOCK_WORLD:
                for b in c['bases']:
                    if b != 'object' and (b in BUILTIN_BASES or self.classes[b]['module'] not in BLOCK_WORLD):
                        bad(c['node'], 'block-world class %s has base %s outside it' % (name, b), c['module'])
        return self

    def documented_blocks(self):
        txt = open(DOC).read()
        m = re.search(r'class\s+MyTheory\(([^)]*)\):', txt)
        if not m:
            raise Unsupported('docs/source/theory.rst: no `class MyTheory(...)` example found')
        out = []
        for tok in m.group(1).split(','):
            tok = tok.strip()
            mm = re.fullmatch(r'g\.(\w+)', tok)
            if not mm or mm.group(1) not in self.classes:
                raise Unsupported('docs/source/theory.rst: block %r is not a gepard class' % tok)
            out.append(mm.group(1))
        return out

    def km_combinations(self):
        return [(n, self.classes[n]['bases']) for n in self.order
                if n not in BUILTIN_BASES and self.classes[n]['module'] == 'fits']


# ------------------------------------------------------------------------------------
# emission
# ------------------------------------------------------------------------------------

def lean_str(s):
    out = ['"']
    for ch in s:
        if ch == '"':
            out.append('\\"')
        elif ch == '\\':
            out.append('\\\\')
        elif ch == '\n':
            out.append('\\n')
        elif ch == '\t':
            out.append('\\t')
        elif ord(ch) < 32:
            out.append('\\x%02x' % ord(ch))
        else:
            out.append(ch)
    out.append('"')
    return ''.join(out)


def build(ex: Extractor):
    syms = []
    symid = {}

    def S(s):
        if s not in symid:
            symid[s] = len(syms)
            syms.append(s)
        return symid[s]

    S('__init__')                         # symbol 0 is always __init__
    cid = {n: i for i, n in enumerate(ex.order)}

    def prim(e):
        k = e[0]
        if k == 'read':
            return '.read %d' % S(e[1])
        if k == 'mayRead':
            return '.mayRead %d' % S(e[1])
        if k == 'write':
            return '.write %d %d' % (S(e[1]), S('expr:' + e[2]))
        if k == 'ensure':
            return '.ensure %d' % S(e[1])
        if k == 'setdef':
            return '.setdef %d %d' % (S(e[1]), S('val:' + e[2]))
        if k == 'bind':
            return '.bind %d %d %d' % (S(e[1]), S(e[2]), S('val:' + e[3]))
        raise Unsupported('event %r is not primitive' % (e,))

    def ev(e):
        k = e[0]
        if k == 'callMeth':
            return '.callMeth %d %d' % (S(e[1]), S('args:' + e[2]))
        if k == 'callInit':
            return '.callInit %d' % cid[e[1]]
        return '.prim (%s)' % prim(e)

    lines = []
    for n in ex.order:
        if n in BUILTIN_BASES:
            init = '.object' if n == 'object' else '.unknown'
            lines.append('  { name := %d, bases := [%s], defs := [0], init := %s, meths := [] }'
                         % (S(n), '' if n == 'object' else '0', init))
            continue
        c = ex.classes[n]
        if c['init'] is None:
            init = '.absent'
        elif c['init'] == 'opaque':
            init = '.unknown'
        else:
            i = c['init']
            init = '.evs [%s] %s [%s]' % (', '.join(ev(e) for e in i['pre']),
                                         'true' if i['sup'] else 'false',
                                         ', '.join(ev(e) for e in i['post']))
        meths = ', '.join('(%d, %d, [%s])' % (S(m), S('args:' + key), ', '.join(prim(e) for e in evs))
                          for (m, key, evs) in c['summaries'])
        lines.append('  { name := %d, bases := [%s], defs := [%s], init := %s, meths := [%s] }'
                     % (S(n), ', '.join(str(cid[b]) for b in c['bases']),
                        ', '.join(str(S(d)) for d in c['defs']), init, meths))
    doc = ex.documented_blocks()
    kms = ex.km_combinations()
    out = []
    out.append('/- GENERATED by tools/gen_classtable.py from %s/*.py and docs/source/theory.rst — do not edit.' % 'src/gepard')
    out.append('   Class table of gepard: bases, defined names, __init__ events (see Model/Mro.lean). -/')
    out.append('import Model.Mro')
    out.append('namespace Gep.Mro.Gen')
    out.append('open Gep.Mro')
    out.append('')
    out.append('/-- interned strings: class names, method / attribute names, kwargs keys, `val:`default')
    out.append('    texts, `expr:`right-hand sides, `args:`call-site argument keys -/')
    out.append('def symNames : Array String := #[')
    out.append(',\n'.join('  ' + lean_str(s) for s in syms))
    out.append(']')
    out.append('')
    out.append('def classTable : Table := [')
    out.append(',\n'.join(lines))
    out.append(']')
    out.append('')
    for n in ex.order:
        out.append('def c%s : Cls := %d' % (n if n not in ('object', 'dict', 'list') else '_' + n, cid[n]))
    out.append('')
    out.append('-- symbols of the instance attributes / kwargs keys that occur in the events')
    evsyms = []
    for n in ex.order:
        if n in BUILTIN_BASES:
            continue
        c = ex.classes[n]
        evl = []
        if isinstance(c['init'], dict):
            evl += c['init']['pre'] + c['init']['post']
        for (_, _, es) in c['summaries']:
            evl += es
        for e in evl:
            if e[0] in ('read', 'mayRead', 'write', 'ensure', 'setdef', 'bind'):
                for x in (e[1:3] if e[0] == 'bind' else e[1:2]):
                    if x not in evsyms and re.fullmatch(r'[A-Za-z_][A-Za-z0-9_]*', x):
                        evsyms.append(x)
    for x in evsyms:
        out.append('def s_%s : Sym := %d' % (x, S(x)))
    out.append('')
    out.append('/-- the documented maximal theory (docs/source/theory.rst) -/')
    out.append('def documentedBlocks : List Cls := [%s]' % ', '.join(str(cid[b]) for b in doc))
    out.append('/-- %s -/' % ', '.join(doc))
    out.append('def documentedBlockNames : List String := [%s]' % ', '.join(lean_str(b) for b in doc))
    out.append('')
    out.append('/-- the shipped KM combinations (classes of fits.py) -/')
    out.append('def kmCombinations : List (String × List Cls) := [')
    out.append(',\n'.join('  (%s, [%s])' % (lean_str(n), ', '.join(str(cid[b]) for b in bs))
                          for n, bs in kms))
    out.append(']')
    for n, bs in kms:
        out.append('def blocks%s : List Cls := [%s]   -- %s' % (n, ', '.join(str(cid[b]) for b in bs), ', '.join(bs)))
    out.append('')
    out.append('end Gep.Mro.Gen')
    return '\n'.join(out) + '\n', {'classes': ex.order, 'documented': doc, 'km': kms, 'syms': syms}


def main(write=True):
    ex = Extractor().run()
    text, info = build(ex)
    if write:
        old = open(OUT).read() if os.path.exists(OUT) else None
        if old != text:
            os.makedirs(os.path.dirname(OUT), exist_ok=True)
            open(OUT, 'w').write(text)
    return ex, info


if __name__ == '__main__':
    ex, info = main()
    if '-v' in sys.argv:
        for n in ex.order:
            if n in BUILTIN_BASES:
                continue
            c = ex.classes[n]
            print(n, c['bases'], 'init=', c['init'])
            for s in c['summaries']:
                print('    meth', s)
    print('classes: %d, symbols: %d, documented: %s' % (len(info['classes']), len(info['syms']), info['documented']))

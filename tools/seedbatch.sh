#!/bin/sh
# tools/seedbatch.sh "<property ids>" [prefix=/tmp/seed2_] [first number=3] [workers=5]
# Confirm and store the proposed seeded changes <prefix><id>_out/patch{1,2,3}.diff of several properties:
# phase A (applies / suite passes / demo fails with, passes without) in parallel, then our own check of that property
# against each change, in parallel in scratch copies of /verif (tools/partest.sh); writes seeded/<id>-<k>/.
set -u
IDS="$1"; PRE="${2:-/tmp/seed2_}"; FIRST="${3:-3}"; K="${4:-5}"
cd "$(dirname "$0")/.."
ROOT="$(pwd)"
for id in $IDS; do for n in 1 2 3; do
  [ -f "$PRE${id}_out/patch$n.diff" ] && [ ! -f "$PRE${id}_out/confirmA$n.txt" ] && echo "$PRE${id}_out $n"
done; done | xargs -r -P 6 -L 1 tools/seedconfirmA.sh >/dev/null 2>&1
JOBS=/tmp/seedbatch_$$.jobs; : > $JOBS
for id in $IDS; do for n in 1 2 3; do
  [ -f "$PRE${id}_out/patch$n.diff" ] || continue
  name="$id-$((n+FIRST-1))"
  mkdir -p seeded/$name
  cp "$PRE${id}_out/patch$n.diff" seeded/$name/patch.diff
  cp "$PRE${id}_out/demo$n.py" seeded/$name/demo.py
  echo "$name $ROOT/seeded/$name/patch.diff $id" >> $JOBS
done; done
OUT=/tmp/seedbatch_$$_out
tools/partest.sh $JOBS $K $OUT >/dev/null
for id in $IDS; do for n in 1 2 3; do
  [ -f "$PRE${id}_out/patch$n.diff" ] || continue
  name="$id-$((n+FIRST-1))"
  RES=$(cat "$PRE${id}_out/confirmA$n.txt")
  VER=$(grep -E "^\[$id\] (OK|FAIL|VIOLATION|ERROR|TIMEOUT)" $OUT/$name.log | head -3 | tr '\n' ' ' | cut -c1-400)
  /venv/bin/python - "$PRE${id}_out/meta$n.json" "seeded/$name/meta.json" "$RES" "$VER" "$id" <<'PY'
import json, sys
src, dst, res, ver, ids = sys.argv[1:6]
try:
    m = json.load(open(src))
except Exception:
    m = {}
m['confirmed_by_us'] = res
m['what_we_ran'] = ('tools/seedbatch.sh: git worktree of /repo HEAD + git apply patch.diff; pytest (unedited suite) with the change; '
                    'demo.py with and without the change; tools/seedtest.sh patch.diff "%s" (GEPARD_REPO=<scratch worktree> ./check <id>)' % ids)
m['check_verdicts'] = ver.strip()
m['caught'] = ('VIOLATION' in ver)
json.dump(m, open(dst, 'w'), indent=1)
print(dst.split('/')[1], 'caught' if m['caught'] else 'MISSED', '|', res[:14], res[-50:], '|', ver[:150])
PY
done; done
rm -rf $JOBS $OUT

"""tools/seeddesign.py — put the current table of seeded changes (tools/seedtable.py) into DESIGN.md §8.6"""
import os
import re
import subprocess
import sys
V = os.path.dirname(os.path.dirname(os.path.abspath(__file__)))
p = os.path.join(V, 'DESIGN.md')
s = open(p).read()
tab = subprocess.run([sys.executable, os.path.join(V, 'tools', 'seedtable.py')], capture_output=True, text=True).stdout
i = s.index('| seed | change | needs | ./check verdict |')
j = s.index('### 8.7 Harmless refactors')
open(p, 'w').write(s[:i] + tab.rstrip('\n') + '\n\n' + s[j:])
print('table rows:', tab.count('\n') - 2)

#!/bin/sh
# tools/seedconfirmA.sh <agent out dir> <n>: phase A of the confirmation of a proposed seeded change, in a scratch
# worktree of /repo: the patch applies, the unedited test suite passes with it, the demonstration fails with it and
# passes without it.  Prints one summary line and stores it in <out dir>/confirmA<n>.txt.  Safe to run in parallel.
set -u
OUT="$1"; N="$2"
cd "$(dirname "$0")/.."
WT="/tmp/sc_$$"
git -C /repo worktree add -q "$WT" HEAD || exit 3
RES="applies=no"
if git -C "$WT" apply "$OUT/patch$N.diff"; then
  RES="applies=yes"
  T=$(cd "$WT" && PYTHONPATH="$WT/src" timeout 1200 /venv/bin/python -m pytest -q -p no:cacheprovider --timeout=900 2>&1 | tail -1)
  RES="$RES; suite_with_change=[$T]"
  REPO_ROOT="$WT" PYTHONPATH="$WT/src" timeout 900 /venv/bin/python "$OUT/demo$N.py" "$WT" >/tmp/sc_demo_$$.log 2>&1; RC1=$?
  git -C "$WT" checkout -q -- .
  REPO_ROOT="$WT" PYTHONPATH="$WT/src" timeout 900 /venv/bin/python "$OUT/demo$N.py" "$WT" >/tmp/sc_demo0_$$.log 2>&1; RC0=$?
  RES="$RES; demo_with_change_rc=$RC1; demo_without_change_rc=$RC0"
fi
git -C /repo worktree remove --force "$WT"
rm -f /tmp/sc_demo_$$.log /tmp/sc_demo0_$$.log
echo "$RES" > "$OUT/confirmA$N.txt"
echo "$RES"

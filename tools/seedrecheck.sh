#!/bin/sh
# recheck.sh <name> <id>: rerun seedtest for an already stored seed and update meta
cd /verif
V=$(tools/seedtest.sh seeded/$1/patch.diff $2 2>&1 | grep -E "^\[$2\] (OK|FAIL|VIOLATION|ERROR|TIMEOUT)" | head -3 | tr '\n' ' ' | cut -c1-400)
echo "$1: $V"
/venv/bin/python - "$1" "$V" <<'PY'
import json, sys
name, ver = sys.argv[1:3]
p = 'seeded/%s/meta.json' % name
m = json.load(open(p))
if not m.get('caught') and 'VIOLATION' in ver:
    m.setdefault('history', []).append('initially MISSED (%s); caught after the check was strengthened' % m.get('check_verdicts', '')[:120])
m['check_verdicts'] = ver.strip(); m['caught'] = 'VIOLATION' in ver
json.dump(m, open(p, 'w'), indent=1)
PY

"""tools/gen_qcd.py — translate gepard/qcd.py (beta, _fbeta1, as2pf) and the colour factors of constants.py from the
Python AST of the CURRENT /repo tree into the scalar template lean/Scalar/QcdSrc.lean.in   (property C15).

The hand-written model of the coupling (lean/Scalar/Coupling.lean.in) is what the theorems of Props/C15.lean are about
and what the driver runs; this file gives the second tie: lean/Proofs/QcdBridge.lean proves, over ℝ, that every formula
translated here EQUALS the corresponding definition of the hand-written model, so a change of a formula in qcd.py breaks a
lemma on the next run (and the harness then looks for a failing input), while a re-spelling that is an identity of
commutative fields (x**2 → x*x, a/b/c → a/(b*c), re-association, hoisted locals) leaves the lemmas true.

What is translated, structurally (no text matching):
    constants.NC CF CA TF             module-level assignments whose value is an arithmetic expression of earlier ones
    beta(p, nf)                       the locals before the `if` chain, and one definition per branch `p == k`
                                      (`beta_k`), the list of k's (`betaOrders`); the final `else` must raise
    _fbeta1(a, nf)                    its return expression
    as2pf(p, nf, r2, as0, r20)        locals before the chain (NASTPS must be an integer literal; a, lrrat, dlr as
                                      functions of the arguments); branch p == 0: the new value of `a` (`loA`); branch
                                      p == 1: a `for k in range(lo, hi)` loop whose body is a sequence of assignments that do
                                      not read `k` (`rkStep`: one pass of the body as a function of the loop-carried `a`),
                                      `lo`, `hi` evaluated statically; the final `else` must raise; the statements after
                                      the chain up to `return` (`finalA`); the compositions `as2pf_lo`, `as2pf_nlo`.
Anything else (another statement kind, an unknown call, a loop body reading the loop variable, a branch test of another
form, …) is REJECTED: the generator raises, regen.py records it, and C15 reports its theorems as not checked against the
current source rather than guessing.
"""
import ast
import os
import sys

HERE = os.path.dirname(os.path.abspath(__file__))
VERIF = os.path.dirname(HERE)
REPO = os.environ.get('GEPARD_REPO', '/repo')
SRC = os.path.join(REPO, 'src', 'gepard')
OUT = os.path.join(VERIF, 'lean', 'Scalar', 'QcdSrc.lean.in')


class Reject(Exception):
    pass


def num(v):
    if isinstance(v, bool) or not isinstance(v, (int, float)):
        raise Reject('constant %r' % (v,))
    if v != v or v in (float('inf'), float('-inf')):
        raise Reject('non-finite constant')
    if v < 0:
        return '(-%s)' % num(-v)
    if isinstance(v, int) or float(v).is_integer():
        return '%d' % int(v)
    s = repr(float(v))
    if 'e' in s or 'E' in s:
        raise Reject('exponent literal %s' % s)
    return s


class Ex:
    """expression translator; env: Python name -> Lean text (already parenthesised where needed)"""

    def __init__(self, env, consts, funcs):
        self.env, self.consts, self.funcs = dict(env), consts, funcs

    def static_int(self, node):
        """value of an integer expression of literals and integer-valued names (for range bounds)"""
        if isinstance(node, ast.Constant) and isinstance(node.value, int) and not isinstance(node.value, bool):
            return node.value
        if isinstance(node, ast.Name) and node.id in self.ints:
            return self.ints[node.id]
        if isinstance(node, ast.BinOp) and isinstance(node.op, (ast.Add, ast.Sub, ast.Mult)):
            a, b = self.static_int(node.left), self.static_int(node.right)
            return a + b if isinstance(node.op, ast.Add) else a - b if isinstance(node.op, ast.Sub) else a * b
        raise Reject('not a static integer: %s' % ast.dump(node)[:80])

    ints = {}

    def tr(self, node):
        if isinstance(node, ast.Constant):
            return num(node.value)
        if isinstance(node, ast.Name):
            if node.id in self.env:
                return self.env[node.id]
            raise Reject('unknown name %s' % node.id)
        if isinstance(node, ast.Attribute):
            if isinstance(node.value, ast.Name) and node.value.id == 'constants' and node.attr in self.consts:
                return node.attr
            raise Reject('attribute %s' % ast.dump(node)[:80])
        if isinstance(node, ast.UnaryOp):
            if isinstance(node.op, ast.USub):
                return '(-%s)' % self.tr(node.operand)
            if isinstance(node.op, ast.UAdd):
                return self.tr(node.operand)
            raise Reject('unary operator')
        if isinstance(node, ast.BinOp):
            if isinstance(node.op, ast.Pow):
                if isinstance(node.right, ast.Constant) and isinstance(node.right.value, int) \
                        and not isinstance(node.right.value, bool) and node.right.value >= 0:
                    return '(%s ^ (%d:Nat))' % (self.tr(node.left), node.right.value)
                raise Reject('power with a non-literal or negative exponent')
            op = {ast.Add: '+', ast.Sub: '-', ast.Mult: '*', ast.Div: '/'}.get(type(node.op))
            if op is None:
                raise Reject('operator %s' % type(node.op).__name__)
            return '(%s %s %s)' % (self.tr(node.left), op, self.tr(node.right))
        if isinstance(node, ast.Call) and not node.keywords:
            f = node.func
            name = f.id if isinstance(f, ast.Name) else (
                f.attr if isinstance(f, ast.Attribute) and isinstance(f.value, ast.Name) and f.value.id in ('math', 'np', 'numpy')
                else None)
            if name == 'log' and len(node.args) == 1:
                return '(klog %s)' % self.tr(node.args[0])
            if name == 'beta' and len(node.args) == 2 and 'beta' in self.funcs:
                k = node.args[0]
                if isinstance(k, ast.Constant) and isinstance(k.value, int) and k.value in self.funcs['beta']:
                    return '(beta_%d %s)' % (k.value, self.tr(node.args[1]))
                raise Reject('beta() with a non-literal or unknown order')
            if name == '_fbeta1' and len(node.args) == 2 and '_fbeta1' in self.funcs:
                return '(fbeta1 %s %s)' % (self.tr(node.args[0]), self.tr(node.args[1]))
            raise Reject('call of %s' % (name or ast.dump(f)[:60]))
        raise Reject('expression %s' % type(node).__name__)


def body_of(fn):
    b = fn.body
    if b and isinstance(b[0], ast.Expr) and isinstance(b[0].value, ast.Constant) and isinstance(b[0].value.value, str):
        b = b[1:]
    return b


def simple_assign(st):
    if isinstance(st, ast.Assign) and len(st.targets) == 1 and isinstance(st.targets[0], ast.Name):
        return st.targets[0].id, st.value
    if isinstance(st, ast.AnnAssign) and isinstance(st.target, ast.Name) and st.value is not None:
        return st.target.id, st.value
    return None


def chain(st, var):
    """if var == k0: … elif var == k1: … else: …  →  ([(k, body)], else_body)"""
    out = []
    while True:
        t = st.test
        if not (isinstance(t, ast.Compare) and len(t.ops) == 1 and isinstance(t.ops[0], ast.Eq)
                and isinstance(t.left, ast.Name) and t.left.id == var and isinstance(t.comparators[0], ast.Constant)
                and isinstance(t.comparators[0].value, int)):
            raise Reject('branch test is not `%s == <int>`' % var)
        out.append((t.comparators[0].value, st.body))
        if len(st.orelse) == 1 and isinstance(st.orelse[0], ast.If):
            st = st.orelse[0]
            continue
        return out, st.orelse


def raises(stmts):
    return len(stmts) == 1 and isinstance(stmts[0], ast.Raise)


def lets(pairs, result):
    return ''.join('  let %s := %s\n' % (n, e) for n, e in pairs) + '  ' + result + '\n'


def gen():
    cmod = ast.parse(open(os.path.join(SRC, 'constants.py')).read())
    qmod = ast.parse(open(os.path.join(SRC, 'qcd.py')).read())
    out = ['/- AUTO-GENERATED by tools/gen_qcd.py from src/gepard/qcd.py and constants.py — do not edit -/\n',
           'namespace QcdSrc\n']
    # ---- constants.py: the colour factors, in source order
    want = ['NC', 'CF', 'CA', 'TF']
    consts = {}
    ex = Ex({}, consts, {})
    for st in cmod.body:
        sa = simple_assign(st)
        if sa and sa[0] in want:
            ex.env = {k: k for k in consts}
            consts[sa[0]] = ex.tr(sa[1])
            out.append('def %s : K := %s' % (sa[0], consts[sa[0]]))
    if set(consts) != set(want):
        raise Reject('constants.py: missing %s' % sorted(set(want) - set(consts)))
    funcs = {n.name: n for n in qmod.body if isinstance(n, ast.FunctionDef)}
    for f in ('beta', '_fbeta1', 'as2pf'):
        if f not in funcs:
            raise Reject('qcd.%s not found' % f)

    # ---- beta(p, nf)
    fn = funcs['beta']
    args = [a.arg for a in fn.args.args]
    if len(args) != 2:
        raise Reject('beta: signature')
    pvar, nfvar = args
    pre, rest = [], None
    ex = Ex({nfvar: 'nf'}, consts, {})
    b = body_of(fn)
    for i, st in enumerate(b):
        sa = simple_assign(st)
        if sa:
            pre.append((sa[0], ex.tr(sa[1])))
            ex.env[sa[0]] = sa[0]
            continue
        rest = b[i:]
        break
    if not rest or not isinstance(rest[0], ast.If):
        raise Reject('beta: no branch chain')
    branches, els = chain(rest[0], pvar)
    if not raises(els):
        raise Reject('beta: the final else does not raise')
    tail = rest[1:]
    if not (len(tail) == 1 and isinstance(tail[0], ast.Return) and isinstance(tail[0].value, ast.Name)):
        raise Reject('beta: expected `return <name>` after the chain')
    ret = tail[0].value.id
    orders = []
    for k, body in branches:
        loc = Ex(ex.env, consts, {})
        bl = []
        val = None
        for st in body:
            if isinstance(st, ast.Return) and st.value is not None:
                val = loc.tr(st.value)
                break
            sa = simple_assign(st)
            if not sa:
                raise Reject('beta: statement in branch %d' % k)
            e = loc.tr(sa[1])
            bl.append((sa[0] + "'" if sa[0] == ret else sa[0], e))
            loc.env[sa[0]] = sa[0] + "'" if sa[0] == ret else sa[0]
        if val is None:
            if ret not in loc.env:
                raise Reject('beta: branch %d does not set %s' % (k, ret))
            val = loc.env[ret]
        out.append('/-- `beta(%d, nf)` -/\ndef beta_%d (nf : K) : K :=\n%s' % (k, k, lets(pre + bl, val)))
        orders.append(k)
    out.append('/-- the orders `beta` knows; any other raises -/\ndef betaOrders : List Int := [%s]\n' % ', '.join(map(str, orders)))

    # ---- _fbeta1(a, nf)
    fn = funcs['_fbeta1']
    args = [a.arg for a in fn.args.args]
    if len(args) != 2:
        raise Reject('_fbeta1: signature')
    ex = Ex({args[0]: 'a', args[1]: 'nf'}, consts, {'beta': orders})
    pre = []
    val = None
    for st in body_of(fn):
        if isinstance(st, ast.Return) and st.value is not None:
            val = ex.tr(st.value)
            break
        sa = simple_assign(st)
        if not sa:
            raise Reject('_fbeta1: statement')
        pre.append((sa[0], ex.tr(sa[1])))
        ex.env[sa[0]] = sa[0]
    if val is None:
        raise Reject('_fbeta1: no return')
    out.append('/-- `_fbeta1(a, nf)` -/\ndef fbeta1 (a nf : K) : K :=\n%s' % lets(pre, val))

    # ---- as2pf(p, nf, r2, as0, r20)
    fn = funcs['as2pf']
    args = [a.arg for a in fn.args.args]
    if len(args) != 5:
        raise Reject('as2pf: signature')
    pvar = args[0]
    names = dict(zip(args[1:], ['nf', 'r2', 'as0', 'r20']))
    fk = {'beta': orders, '_fbeta1': True}
    ex = Ex(names, consts, fk)
    ex.ints = {}
    pre = []
    b = body_of(fn)
    rest = None
    for i, st in enumerate(b):
        sa = simple_assign(st)
        if sa:
            n, v = sa
            if isinstance(v, ast.Constant) and isinstance(v.value, int) and not isinstance(v.value, bool):
                ex.ints[n] = v.value
                ex.env[n] = num(v.value)
                continue
            pre.append((n, ex.tr(v)))
            ex.env[n] = n
            continue
        if isinstance(st, ast.Expr) and isinstance(st.value, ast.Constant):
            continue
        rest = b[i:]
        break
    if not rest or not isinstance(rest[0], ast.If):
        raise Reject('as2pf: no branch chain')
    branches, els = chain(rest[0], pvar)
    if not raises(els):
        raise Reject('as2pf: the final else does not raise')
    if [k for k, _ in branches] != [0, 1]:
        raise Reject('as2pf: branches %r, expected p == 0 and p == 1' % [k for k, _ in branches])
    carried = 'a'
    if carried not in ex.env:
        raise Reject('as2pf: no local `a` before the branch chain')
    sig = '(nf r2 as0 r20 : K)'
    callargs = 'nf r2 as0 r20'
    out.append('/-- `NASTPS` -/\ndef NASTPS : Nat := %d\n' % ex.ints.get('NASTPS', -1) if 'NASTPS' in ex.ints else '')
    # the state before the chain, each local as a function of the arguments
    out.append('/-- the locals of `as2pf` before the order is looked at -/')
    for idx, (n, e) in enumerate(pre):
        out.append('def pre_%s %s : K :=\n%s' % (n, sig, lets(pre[:idx], e)))
    # LO branch: straight-line assignments
    loc = Ex(ex.env, consts, fk)
    loc.ints = ex.ints
    bl = []
    for st in branches[0][1]:
        sa = simple_assign(st)
        if not sa:
            raise Reject('as2pf: statement in the LO branch')
        e = loc.tr(sa[1])
        nn = sa[0] + "'"
        bl.append((nn, e))
        loc.env[sa[0]] = nn
    out.append('/-- the value of `a` after the branch `p == 0` -/\ndef loA %s : K :=\n%s' % (sig, lets(pre + bl, loc.env[carried])))
    # NLO branch: one for loop over a static range
    nb = branches[1][1]
    if not (len(nb) == 1 and isinstance(nb[0], ast.For) and not nb[0].orelse and isinstance(nb[0].target, ast.Name)):
        raise Reject('as2pf: the NLO branch is not a single for loop')
    loop = nb[0]
    it = loop.iter
    if not (isinstance(it, ast.Call) and isinstance(it.func, ast.Name) and it.func.id == 'range' and 1 <= len(it.args) <= 2):
        raise Reject('as2pf: loop is not over range(lo, hi)')
    lo = ex.static_int(it.args[0]) if len(it.args) == 2 else 0
    hi = ex.static_int(it.args[-1])
    kvar = loop.target.id
    for n in ast.walk(ast.Module(body=loop.body, type_ignores=[])):
        if isinstance(n, ast.Name) and n.id == kvar:
            raise Reject('as2pf: the loop body reads the loop variable')
    # the body as a function of the loop-carried variable(s): only `a` may be carried
    free = [n for n, _ in pre if n != carried]
    step_env = {n: n for n in free}
    step_env.update({'nf': 'nf', carried: carried})
    # names of the arguments other than nf are not available inside the step except through the locals
    for py, ln in names.items():
        step_env.setdefault(py, ln)
    sx = Ex(step_env, consts, fk)
    sx.ints = ex.ints
    for n, v in ex.ints.items():
        sx.env[n] = num(v)
    sl = []
    assigned = set()
    for st in loop.body:
        sa = simple_assign(st)
        if not sa:
            raise Reject('as2pf: statement in the loop body')
        n, v = sa
        e = sx.tr(v)
        nn = n + "'" if n in step_env else n
        sl.append((nn, e))
        sx.env[n] = nn
        assigned.add(n)
    carried_other = [n for n in assigned if n in step_env and n != carried]
    if carried_other:
        raise Reject('as2pf: the loop carries more than `a`: %r' % carried_other)
    used = set()
    for _, e in sl:
        used.update(t for t in free + ['r2', 'as0', 'r20'] if (' ' + t + ' ') in (' ' + e.replace('(', ' ').replace(')', ' ') + ' '))
    extra = [t for t in free + ['r2', 'as0', 'r20'] if t in used]
    out.append('/-- one pass of the body of `for %s in range(%d, %d)` as a function of the carried `a` (other locals: %s) -/\n'
               'def rkStep (nf %sa : K) : K :=\n%s' % (kvar, lo, hi, ', '.join(extra) or 'none',
                                                     ''.join(t + ' ' for t in extra), lets(sl, sx.env[carried])))
    out.append('def loopLo : Nat := %d\ndef loopHi : Nat := %d\n' % (lo, hi))
    # after the chain
    post = Ex({carried: carried}, consts, fk)
    pl = []
    retv = None
    for st in rest[1:]:
        if isinstance(st, ast.Return) and st.value is not None:
            retv = post.tr(st.value)
            break
        sa = simple_assign(st)
        if not sa:
            raise Reject('as2pf: statement after the chain')
        e = post.tr(sa[1])
        nn = sa[0] + "'"
        pl.append((nn, e))
        post.env[sa[0]] = nn
    if retv is None:
        raise Reject('as2pf: no return')
    out.append('/-- the statements after the chain: what is returned for a final `a` -/\ndef finalA (a : K) : K :=\n%s' % lets(pl, retv))
    out.append('/-- `as2pf(0, nf, r2, as0, r20)` where it returns -/\ndef as2pf_lo %s : K := finalA (loA %s)\n' % (sig, callargs))
    stepargs = ' '.join('(pre_%s %s)' % (t, callargs) if t in free else t for t in extra)
    out.append('/-- `as2pf(1, nf, r2, as0, r20)` where it returns -/\ndef as2pf_nlo %s : K :=\n'
               '  finalA ((List.range\' loopLo (loopHi - loopLo)).foldl (fun acc _ => rkStep nf %s%sacc) (pre_%s %s))\n'
               % (sig, stepargs, ' ' if stepargs else '', carried, callargs))
    out.append('end QcdSrc\n')
    return '\n'.join(out), dict(orders=orders, lo=lo, hi=hi, step_extra=extra, pre=[n for n, _ in pre])


def main():
    sys.path.insert(0, HERE)
    import instantiate
    text, info = gen()
    instantiate.write_if_changed(OUT, text)
    return info


if __name__ == '__main__':
    print(main())

"""py2lean — translate the straight-line numerical Python of gepard's formula files into the scalar
template form used by lean/Scalar (instantiated at Float and ℝ by tools/instantiate.py).

Supported subset (anything else raises Reject — the translator never guesses):
  * methods `def f(self, pt, flag=0, ...)` and module functions `def f(a, b, ...)` / `def f(pt)`
    whose bodies are: docstrings, assignments to local names (also tuple-to-tuple), assignments
    `pt.attr = expr` (record update), `if` on a flag parameter / statically known condition,
    `return expr`;
  * expressions: + - * / ** unary -, numerals, `1j`, names, `pt.attr`, `self.m.NAME(pt)`,
    `self.NAME(pt, const-args)`, module functions, sqrt/cos/sin, `.real/.imag`, tuples,
    class-level dictionaries of functions `self.CINT[key](self, pt)`;
  * non-`pt` arguments must be integer constants at every call site: functions are specialised on
    them (so `if im:` / `CINT[..., n]` are resolved at translation time);
  * classes: `self.NAME` resolved along the MRO of the class being generated; identical
    specialisations are shared between classes;
  * helper functions are INLINED at the call site (as `((fun (a : K) … => body) args)`), so that extracting a
    helper leaves the generated definitions — and every proof about them — in place: a module function that is
    not a requested target, a method whose name starts with `_` and is not a requested target, and any method
    called with an argument that is neither `pt` nor a constant (a real expression, a bound method `self.NAME`,
    a tuple of such).  Bound methods and tuples of them are translation-time values: `cfuns[0](pt)`,
    `cfuns[1:]`, `fn(pt)` are resolved statically;
  * `for x in <tuple>`, `for i, x in enumerate(<tuple>, start=k)`, `for i in range(consts)`, `zip(...)` over
    translation-time sequences are unrolled; `x += e` is `x = x + e`;
  * conditions known at translation time may be combined with `not`, `and`, `or` (short-circuit, left to right:
    an operand that is not known makes the whole condition unknown unless an earlier operand already decided it),
    `const in [consts]` / `not in`, and appear in `a if cond else b`; `if c: return a` followed by `return b`,
    returns in both arms and swapped arms are the same thing to the translator (it follows the arm taken);
  * the builtin `pow(x, y)` is `x ** y`; a constant exponent that is not an integer goes through `kpow`;
  * a module-level `NAME = namedtuple('NAME', [fields])` is a translation-time record: `NAME(a, b, f=c)` is the tuple
    of its fields in declaration order, `rec.f` / `rec[k]` a projection, unpacking is positional.

Types: R (real scalar K), C (Cx K), T[...] (tuple).  Real/complex mixing is made explicit
(Cx.ofReal, Cx.smul, Cx.divR).
"""
from __future__ import annotations

import ast
import hashlib


class Reject(Exception):
    pass


R, C = 'R', 'C'


def lit(x) -> str:
    """Python number -> Lean K literal"""
    if isinstance(x, bool):
        raise Reject('bool literal')
    if isinstance(x, int):
        return '(%d : K)' % x if x >= 0 else '(-(%d : K))' % (-x)
    if isinstance(x, float):
        if x != x or x in (float('inf'), float('-inf')):
            raise Reject('non-finite literal')
        if x < 0:
            return '(-%s)' % lit(-x)
        if x == int(x) and abs(x) < 1e15:
            return '(%d : K)' % int(x)
        s = repr(x)
        if 'e' in s or 'E' in s:
            m, e = s.lower().split('e')
            return '(%se%d : K)' % (m if '.' in m else m + '.0', int(e))
        return '(%s : K)' % s
    raise Reject('literal %r' % (x,))


class ClassInfo:
    def __init__(self, name, bases, methods, tables):
        self.name, self.bases, self.methods, self.tables = name, bases, methods, tables


class Module:
    """parsed source of one Python file"""

    def __init__(self, path, src=None):
        self.path = path
        self.src = src if src is not None else open(path).read()
        self.tree = ast.parse(self.src)
        self.functions = {}
        self.classes = {}
        self.records = {}      # module-level  NAME = namedtuple('NAME', fields)  ->  tuple of field names
        self.bound = set()     # every name bound at module level (a builtin such as `pow` must not be among them)
        self.modalias = {}     # local name -> 'numpy' | 'math'  (import numpy as np / import math)
        for node in ast.walk(self.tree):
            if isinstance(node, (ast.Import, ast.ImportFrom)):
                for a in node.names:
                    self.bound.add((a.asname or a.name).split('.')[0])
                    if isinstance(node, ast.Import) and a.name in ('numpy', 'math'):
                        self.modalias[a.asname or a.name] = a.name
        for node in self.tree.body:
            if isinstance(node, (ast.FunctionDef, ast.ClassDef)):
                self.bound.add(node.name)
            elif isinstance(node, (ast.Assign, ast.AnnAssign, ast.AugAssign)):
                for t in (node.targets if isinstance(node, ast.Assign) else [node.target]):
                    for x in ast.walk(t):
                        if isinstance(x, ast.Name):
                            self.bound.add(x.id)
            if isinstance(node, ast.Assign) and len(node.targets) == 1 and isinstance(node.targets[0], ast.Name):
                fields = self.namedtuple_fields(node.value)
                if fields is not None:
                    self.records[node.targets[0].id] = fields
            if isinstance(node, ast.FunctionDef):
                self.functions[node.name] = node
            elif isinstance(node, ast.ClassDef):
                methods, tables = {}, {}
                for b in node.body:
                    if isinstance(b, ast.FunctionDef):
                        methods[b.name] = b
                    elif isinstance(b, ast.Assign) and len(b.targets) == 1:
                        t = b.targets[0]
                        if isinstance(t, ast.Name) and isinstance(b.value, ast.Dict) and not b.value.keys:
                            tables.setdefault(t.id, {})
                        elif isinstance(t, ast.Subscript) and isinstance(t.value, ast.Name) and isinstance(b.value, ast.Name):
                            key = ast.literal_eval(t.slice)
                            tables.setdefault(t.value.id, {})[key] = b.value.id
                bases = [x.id if isinstance(x, ast.Name) else x.attr for x in node.bases]
                self.classes[node.name] = ClassInfo(node.name, bases, methods, tables)

    @staticmethod
    def namedtuple_fields(v):
        """field names of  namedtuple('X', ['a', 'b'])  /  namedtuple('X', 'a b')  /  collections.namedtuple(...), else None"""
        if not (isinstance(v, ast.Call) and len(v.args) == 2 and not v.keywords):
            return None
        f = v.func
        name = f.id if isinstance(f, ast.Name) else f.attr if isinstance(f, ast.Attribute) and isinstance(f.value, ast.Name) \
            and f.value.id == 'collections' else None
        if name != 'namedtuple':
            return None
        try:
            spec = ast.literal_eval(v.args[1])
        except (ValueError, SyntaxError):
            return None
        if isinstance(spec, str):
            spec = spec.replace(',', ' ').split()
        if not isinstance(spec, (list, tuple)) or not spec or not all(isinstance(x, str) and x.isidentifier() for x in spec) \
                or len(set(spec)) != len(spec):
            return None
        return tuple(spec)


class RecT(tuple):
    """type of a translation-time record (namedtuple): the tuple of its field types, plus the field names"""
    fields = ()

    @staticmethod
    def make(types, fields):
        t = RecT(types)
        t.fields = tuple(fields)
        return t


class Translator:
    def __init__(self, mod: Module, *, consts, module_funcs=None, numpy_funcs=None, static_conds=None,
                 model_attr='m', pt_fields=None, m_fields=None, ns='Bmk', targets=None):
        self.mod = mod
        self.targets = set(targets or ())   # python names that are requested entry points: never inlined
        self.inline_depth = 0
        self.consts = consts                    # python name -> lean expr of type K
        self.module_funcs = module_funcs or {}  # python name -> (lean name, nargs) for already translated functions
        self.np = numpy_funcs or {'sqrt': 'ksqrt', 'cos': 'kcos', 'sin': 'ksin', 'exp': 'kexp', 'log': 'klog'}
        self.static_conds = static_conds or {}
        self.model_attr = model_attr
        self.pt_fields = pt_fields if pt_fields is not None else []
        self.m_fields = m_fields if m_fields is not None else []
        self.ns = ns
        self.emitted = {}      # signature -> lean name
        self.defs = []         # lean text in dependency order
        self.names_used = set()
        self.raises = set()    # (class, method) that raise unconditionally
        self.meta = {}         # lean name -> dict(reads, callees, has_m, has_pt)

    # ------------------------------------------------------------------ class helpers
    def mro(self, cname):
        """linear MRO for the single-inheritance chains in the formula files"""
        out = []
        c = cname
        while c in self.mod.classes:
            out.append(c)
            bases = [b for b in self.mod.classes[c].bases if b in self.mod.classes]
            if len(bases) > 1:
                raise Reject('multiple inheritance in %s' % c)
            c = bases[0] if bases else None
        return out

    def resolve(self, cname, meth):
        for c in self.mro(cname):
            if meth in self.mod.classes[c].methods:
                return c, self.mod.classes[c].methods[meth]
        raise Reject('method %s not found from %s' % (meth, cname))

    def resolve_table(self, cname, table):
        for c in self.mro(cname):
            if table in self.mod.classes[c].tables:
                return c, self.mod.classes[c].tables[table]
        raise Reject('table %s not found from %s' % (table, cname))

    # ------------------------------------------------------------------ function translation
    def field(self, lst, name):
        if name not in lst:
            lst.append(name)
        return name

    def gen_method(self, cname, meth, args=()):
        """returns (lean name, type) of the specialisation of cname.meth at constant args"""
        dcls, node = self.resolve(cname, meth)
        return self.gen_func(node, cls=cname, defcls=dcls, args=tuple(args))

    def gen_func(self, node, cls=None, defcls=None, args=()):
        fa = node.args
        params = [a.arg for a in fa.args]
        if cls is not None:
            if params[:2] != ['self', 'pt']:
                raise Reject('%s: expected (self, pt, ...)' % node.name)
            extra = params[2:]
        else:
            extra = None
        env = {}
        if cls is not None:
            defaults = [ast.literal_eval(d) for d in fa.defaults]
            dvals = dict(zip(extra[len(extra) - len(defaults):], defaults))
            given = dict(args)
            for e in extra:
                if e in given:
                    env[e] = ('const', given[e])
                elif e in dvals:
                    env[e] = ('const', dvals[e])
                else:
                    raise Reject('%s.%s: argument %s not given' % (cls, node.name, e))
            env['pt'] = ('pt', None)
            spec = tuple((e, env[e][1]) for e in extra)
            lean_params = '(c : Consts) (m : CFFs) (pt : Pt)'
        else:
            spec = ()
            if params == ['pt']:
                env['pt'] = ('pt', None)
                lean_params = '(c : Consts) (pt : Pt)'
            else:
                for p in params:
                    env[p] = ('var', R)
                lean_params = '(c : Consts) ' + ' '.join('(%s : K)' % self.safe(p) for p in params)
        ctx = dict(cls=cls, defcls=defcls, fname=node.name, callees=[], reads=set(), callmap={}, aenv={}, ret_abs=[], mreads=set(),
                   inlined=[], inl_abs={}, recargs={})
        body, typ = self.block(node.body, env, ctx)
        sig = (defcls, node.name, spec, tuple(ctx['callees'])) + ((tuple(ctx['inlined']),) if ctx['inlined'] else ())
        key = hashlib.sha1(repr(sig).encode()).hexdigest()
        if key in self.emitted:
            return self.emitted[key]
        base = (defcls + '.' if defcls else '') + node.name + ''.join('_%s%s' % (k, str(v).replace('-', 'm')) for k, v in spec)
        name = base
        if name in self.names_used:          # same defining class, different callees (override below)
            name = '%s.%s' % (cls, node.name) + ''.join('_%s%s' % (k, str(v).replace('-', 'm')) for k, v in spec)
            k = 2
            while name in self.names_used:
                name = '%s_%d' % (name, k)
                k += 1
        self.names_used.add(name)
        lty = self.lean_type(typ)
        self.defs.append('def %s %s : %s :=\n%s\n' % (name, lean_params, lty, body))
        self.meta[name] = dict(reads=set(ctx['reads']), callees=list(ctx['callees']), has_m='(m : CFFs)' in lean_params,
                               has_pt='(pt : Pt)' in lean_params, typ=typ, vanish=self.vanish_of(ctx['ret_abs'], typ), mreads=set(ctx['mreads']), cls=cls, defcls=defcls, pyname=node.name, spec=spec)
        self.emitted[key] = (name, typ)
        return name, typ

    def vanish_of(self, rets, typ):
        if typ != R or not rets or any(r[0] != 'R' for r in rets):
            return {}
        return {c: all(r[1][c] for r in rets) for c in self.CONDS}

    def lean_type(self, t):
        if t == R:
            return 'K'
        if t == C:
            return 'Cx K'
        if t == 'Pt':
            return 'Pt'
        if isinstance(t, tuple):
            return ' × '.join(self.lean_type(x) for x in t)
        raise Reject('type %r' % (t,))

    RESERVED = {'def', 'end', 'at', 'from', 'fun', 'let', 'in', 'if', 'then', 'else', 'match', 'with', 'do', 'where',
                'open', 'Type', 'Prop', 'theorem', 'structure', 'class', 'instance', 'K', 'c', 'm'}

    def safe(self, name):
        return name + '_' if name in self.RESERVED else name

    # ------------------------------------------------------------------ statements
    def block(self, stmts, env, ctx, indent='  '):
        """translate a statement list that ends in a return; returns (lean text, type)"""
        env = dict(env)
        lines = []
        t = self.run(stmts, env, ctx, indent, lines)
        if t is not None:
            return '\n'.join(lines), t
        # no return: a procedure updating pt (prepare)
        if env.get('pt', (None,))[0] == 'pt':
            lines.append(indent + 'pt')
            return '\n'.join(lines), 'Pt'
        raise Reject('%s: no return' % ctx['fname'])

    def run(self, stmts, env, ctx, indent, lines):
        """translate statements in order, appending `let` lines and updating env in place; returns the type of the
        returned expression as soon as a `return` is reached (the rest is dead code), None when control falls through"""
        for st in stmts:
            if isinstance(st, ast.Expr) and isinstance(st.value, ast.Constant) and isinstance(st.value.value, str):
                continue   # docstring / stray string
            if isinstance(st, ast.Pass):
                continue
            if isinstance(st, ast.Return):
                if st.value is None:
                    raise Reject('%s: bare return' % ctx['fname'])
                e, t = self.expr(st.value, env, ctx)
                ctx['ret_abs'].append(self.absval(st.value, ctx['aenv'], ctx))
                lines.append(indent + e)
                return t
            if isinstance(st, ast.Raise):
                raise Reject('raise')
            if isinstance(st, ast.AugAssign):
                if not isinstance(st.target, ast.Name):
                    raise Reject('%s: augmented assignment to %s' % (ctx['fname'], type(st.target).__name__))
                st = ast.Assign(targets=[ast.Name(id=st.target.id, ctx=ast.Store())],
                                value=ast.BinOp(left=ast.Name(id=st.target.id, ctx=ast.Load()), op=st.op, right=st.value))
            if isinstance(st, ast.AnnAssign) and st.value is not None and st.simple:
                st = ast.Assign(targets=[st.target], value=st.value)        # x: float = e  (the annotation is not evaluated into the value)
            if isinstance(st, ast.Assign):
                self.assign(st, env, ctx, indent, lines)
                continue
            if isinstance(st, ast.If):
                cond = self.static(st.test, env, ctx)
                if cond is None:
                    raise Reject('%s: non-static if: %s' % (ctx['fname'], ast.unparse(st.test)))
                # the branch may return; otherwise continue with the rest in the same scope
                t = self.run(st.body if cond else st.orelse, env, ctx, indent, lines)
                if t is not None:
                    return t
                continue
            if isinstance(st, ast.For):
                # a loop over a sequence known at translation time is unrolled
                if st.orelse:
                    raise Reject('%s: for/else' % ctx['fname'])
                items = self.static_iter(st.iter, env, ctx)
                if items is None:
                    raise Reject('%s: loop over a sequence not known at translation time: %s' % (ctx['fname'], ast.unparse(st.iter)[:60]))
                for it in items:
                    self.bind_static(st.target, it, env, ctx)
                    if self.run(st.body, env, ctx, indent, lines) is not None:
                        raise Reject('%s: return inside a loop' % ctx['fname'])
                continue
            raise Reject('%s: statement %s' % (ctx['fname'], type(st).__name__))
        return None

    def assign(self, st, env, ctx, indent, lines):
        if len(st.targets) != 1:
            raise Reject('chained assignment')
        tgt = st.targets[0]
        if isinstance(tgt, ast.Name) and (isinstance(st.value, (ast.Compare, ast.BoolOp)) or (
                isinstance(st.value, ast.UnaryOp) and isinstance(st.value.op, ast.Not)) or ast.unparse(st.value) in self.static_conds):
            # flag = <condition known at translation time>: a translation-time truth value (never a Lean number)
            cv = self.static(st.value, env, ctx)
            if cv is None:
                raise Reject('%s: non-static condition: %s' % (ctx['fname'], ast.unparse(st.value)))
            env[tgt.id] = ('const', bool(cv))
            ctx['aenv'].pop(tgt.id, None)
            return
        if isinstance(tgt, ast.Name):
            sv = self.static_value(st.value, env, ctx)
            if sv is not None and self.symbolic(sv):
                # a bound method / a tuple of bound methods: translation-time value, nothing to emit
                env[tgt.id] = sv
                ctx['aenv'].pop(tgt.id, None)
                return
            e, t = self.expr(st.value, env, ctx)
            ctx['aenv'][tgt.id] = self.absval(st.value, ctx['aenv'], ctx)
            v = self.safe(tgt.id)
            lines.append('%slet %s : %s := %s' % (indent, v, self.lean_type(t), e))
            env[tgt.id] = ('var', t)
        elif isinstance(tgt, ast.Tuple) and all(isinstance(x, ast.Name) for x in tgt.elts):
            if isinstance(st.value, ast.Tuple):
                if len(st.value.elts) != len(tgt.elts):
                    raise Reject('tuple arity')
                vals = [self.expr(v, env, ctx) for v in st.value.elts]   # evaluate all first
                avs = [self.absval(v, ctx['aenv'], ctx) for v in st.value.elts]
                for x, av in zip(tgt.elts, avs):
                    ctx['aenv'][x.id] = av
                for x, (e, t) in zip(tgt.elts, vals):
                    lines.append('%slet %s : %s := %s' % (indent, self.safe(x.id) + '__', self.lean_type(t), e))
                for x, (e, t) in zip(tgt.elts, vals):
                    lines.append('%slet %s : %s := %s' % (indent, self.safe(x.id), self.lean_type(t), self.safe(x.id) + '__'))
                    env[x.id] = ('var', t)
            else:
                e, t = self.expr(st.value, env, ctx)
                if not isinstance(t, tuple) or len(t) != len(tgt.elts):
                    raise Reject('unpacking non-tuple')
                lines.append('%slet tup__ : %s := %s' % (indent, self.lean_type(t), e))
                n = len(t)
                av = self.absval(st.value, ctx['aenv'], ctx)
                for k, x in enumerate(tgt.elts):
                    if av[0] == 'T' and len(av[1]) == n:
                        ctx['aenv'][x.id] = av[1][k]
                    proj = 'tup__' + '.2' * k + ('.1' if k < n - 1 else '')
                    lines.append('%slet %s : %s := %s' % (indent, self.safe(x.id), self.lean_type(t[k]), proj))
                    env[x.id] = ('var', t[k])
        elif isinstance(tgt, ast.Attribute) and isinstance(tgt.value, ast.Name) and env.get(tgt.value.id, (None,))[0] == 'pt':
            if ctx.get('inlining'):
                raise Reject('%s: an inlined helper assigns to the point' % ctx['fname'])
            e, t = self.expr(st.value, env, ctx)
            if t != R:
                raise Reject('non-real attribute')
            self.field(self.pt_fields, tgt.attr)
            lines.append('%slet pt : Pt := { pt with %s := %s }' % (indent, self.safe(tgt.attr), e))
        else:
            raise Reject('assignment target %s' % ast.dump(tgt))

    # ------------------------------------------------------------------ translation-time values
    # ('const', number | str | tuple of those)   ('meth', name) = the bound method self.name   ('tuple', (values…))
    def symbolic(self, sv):
        """has no Lean value: a bound method, or a tuple containing one"""
        return sv[0] == 'meth' or (sv[0] == 'tuple' and any(self.symbolic(x) for x in sv[1]))

    def static_value(self, node, env, ctx):
        if isinstance(node, ast.Name):
            k = env.get(node.id)
            return k if k and k[0] in ('const', 'meth', 'tuple') else None
        if isinstance(node, ast.Attribute) and isinstance(node.value, ast.Name) and node.value.id == 'self' \
                and 'self' not in env and ctx.get('cls') is not None:
            try:
                self.resolve(ctx['cls'], node.attr)
            except Reject:
                return None
            return ('meth', node.attr)
        if isinstance(node, (ast.Tuple, ast.List)):
            items = [self.static_value(e, env, ctx) for e in node.elts]
            return None if any(i is None for i in items) else ('tuple', tuple(items))
        if isinstance(node, ast.Subscript):
            base = self.static_value(node.value, env, ctx)
            if base is None or base[0] != 'tuple':
                return None
            sl = node.slice
            if isinstance(sl, ast.Slice):
                bounds = []
                for b in (sl.lower, sl.upper, sl.step):
                    v = None if b is None else self.const_value(b, env)
                    if b is not None and not isinstance(v, int):
                        return None
                    bounds.append(v)
                return ('tuple', base[1][slice(*bounds)])
            idx = self.const_value(sl, env)
            if not isinstance(idx, int):
                return None
            if not -len(base[1]) <= idx < len(base[1]):
                raise Reject('%s: index %d out of range' % (ctx['fname'], idx))
            return base[1][idx]
        cv = self.const_value(node, env)
        return None if cv is None else ('const', cv)

    def static_iter(self, node, env, ctx):
        """the items of a sequence known at translation time (list of translation-time values), else None"""
        sv = self.static_value(node, env, ctx)
        if sv is not None:
            if sv[0] == 'tuple':
                return list(sv[1])
            if sv[0] == 'const' and isinstance(sv[1], tuple):
                return [('const', x) for x in sv[1]]
            return None
        if isinstance(node, ast.Call) and isinstance(node.func, ast.Name) and node.func.id not in env:
            fn = node.func.id
            if fn == 'range' and not node.keywords and 1 <= len(node.args) <= 3:
                vs = [self.const_value(a, env) for a in node.args]
                if all(isinstance(v, int) for v in vs):
                    return [('const', i) for i in range(*vs)]
                return None
            if fn == 'enumerate' and 1 <= len(node.args) <= 2 and all(k.arg == 'start' for k in node.keywords):
                seq = self.static_iter(node.args[0], env, ctx)
                start = 0
                for a in list(node.args[1:]) + [k.value for k in node.keywords]:
                    start = self.const_value(a, env)
                if seq is None or not isinstance(start, int):
                    return None
                return [('tuple', (('const', start + i), x)) for i, x in enumerate(seq)]
            if fn == 'zip' and node.args and not node.keywords:
                seqs = [self.static_iter(a, env, ctx) for a in node.args]
                if any(q is None for q in seqs):
                    return None
                return [('tuple', tuple(xs)) for xs in zip(*seqs)]
        return None

    def bind_static(self, tgt, sv, env, ctx):
        if isinstance(tgt, ast.Name):
            env[tgt.id] = sv
            ctx['aenv'].pop(tgt.id, None)
            return
        if isinstance(tgt, (ast.Tuple, ast.List)):
            items = list(sv[1]) if sv[0] == 'tuple' else [('const', x) for x in sv[1]] if isinstance(sv[1], tuple) else None
            if items is None or len(items) != len(tgt.elts):
                raise Reject('%s: cannot unpack loop item' % ctx['fname'])
            for x, it in zip(tgt.elts, items):
                self.bind_static(x, it, env, ctx)
            return
        raise Reject('%s: loop target %s' % (ctx['fname'], type(tgt).__name__))

    # ------------------------------------------------------------------ vanishing analysis
    # For each condition on the model values (CONDS) decide syntactically (sound, not complete)
    # whether an expression is identically zero.  Real expressions: flag; complex: (re flag, im flag).
    IMS = ['ImH', 'ImE', 'ImHt', 'ImEt', 'ImHeff', 'ImEeff', 'ImHteff', 'ImEteff']
    RES = ['ReH', 'ReE', 'ReHt', 'ReEt', 'ReHeff', 'ReEeff', 'ReHteff', 'ReEteff']
    VEC = ['ReH', 'ImH', 'ReE', 'ImE', 'ReHeff', 'ImHeff', 'ReEeff', 'ImEeff']
    AX = ['ReHt', 'ImHt', 'ReEt', 'ImEt', 'ReHteff', 'ImHteff', 'ReEteff', 'ImEteff']
    EFFS = ['ReHeff', 'ImHeff', 'ReEeff', 'ImEeff', 'ReHteff', 'ImHteff', 'ReEteff', 'ImEteff']
    CONDS = {'always': [], 'realCFFs': IMS, 'zeroCFFs': IMS + RES, 'zeroEFF': ['F1', 'F2'], 'zeroVec': VEC, 'zeroAx': AX,
             'noEff': EFFS}

    def aR(self, f):
        return ('R', {c: f(c) for c in self.CONDS})

    def absval(self, node, aenv, ctx):
        T = lambda: self.aR(lambda c: False)
        if isinstance(node, ast.Constant):
            if isinstance(node.value, complex):
                return ('C', {c: (True, False) for c in self.CONDS})
            z = isinstance(node.value, (int, float)) and not isinstance(node.value, bool) and node.value == 0
            return self.aR(lambda c: z)
        if isinstance(node, ast.Name):
            return aenv.get(node.id, T())
        if isinstance(node, ast.Tuple):
            return ('T', [self.absval(e, aenv, ctx) for e in node.elts])
        if isinstance(node, ast.UnaryOp):
            return self.absval(node.operand, aenv, ctx)
        if isinstance(node, ast.Attribute):
            v = self.absval(node.value, aenv, ctx) if not isinstance(node.value, ast.Name) or node.value.id in aenv else T()
            if v[0] == 'T' and len(v) > 2:
                return v[1][v[2].index(node.attr)] if node.attr in v[2] else T()      # field of a record
            if node.attr in ('real', 'imag'):
                if v[0] == 'C':
                    k = 0 if node.attr == 'real' else 1
                    return self.aR(lambda c: v[1][c][k])
            return T()
        if isinstance(node, ast.Subscript):
            v = self.absval(node.value, aenv, ctx)
            k = None if isinstance(node.slice, ast.Slice) else self.const_value(node.slice, {})
            if v[0] == 'T' and isinstance(k, int) and -len(v[1]) <= k < len(v[1]):
                return v[1][k]
            return T()
        if isinstance(node, ast.IfExp):
            taken = ctx.get('recargs', {}).get(('ifexp', id(node)))
            if taken is not None:         # the arm expr() has taken for this specialisation
                return self.absval(taken, aenv, ctx)
            # otherwise: what holds for both arms
            a, b = self.absval(node.body, aenv, ctx), self.absval(node.orelse, aenv, ctx)
            if a[0] == 'R' and b[0] == 'R':
                return self.aR(lambda c: a[1][c] and b[1][c])
            if a[0] == 'C' and b[0] == 'C':
                return ('C', {c: (a[1][c][0] and b[1][c][0], a[1][c][1] and b[1][c][1]) for c in self.CONDS})
            return T()
        if isinstance(node, ast.BinOp):
            a, b = self.absval(node.left, aenv, ctx), self.absval(node.right, aenv, ctx)
            if a[0] == 'T' or b[0] == 'T':
                return T()
            op = node.op
            if isinstance(op, ast.Pow):
                return a if a[0] == 'R' else T()
            cx = a[0] == 'C' or b[0] == 'C'

            def lift(v, c):
                return v[1][c] if v[0] == 'C' else (v[1][c], True)
            if not cx:
                if isinstance(op, ast.Mult):
                    return self.aR(lambda c: a[1][c] or b[1][c])
                if isinstance(op, (ast.Add, ast.Sub)):
                    return self.aR(lambda c: a[1][c] and b[1][c])
                if isinstance(op, ast.Div):
                    return self.aR(lambda c: a[1][c])
                return T()
            out = {}
            for c in self.CONDS:
                (ar, ai), (br, bi) = lift(a, c), lift(b, c)
                if isinstance(op, (ast.Add, ast.Sub)):
                    out[c] = (ar and br, ai and bi)
                elif isinstance(op, ast.Mult):
                    out[c] = ((ar or br) and (ai or bi), (ar or bi) and (ai or br))
                elif isinstance(op, ast.Div):
                    # (a+bi)/(c+di) ∝ (ac+bd) + (bc-ad) i
                    out[c] = ((ar or br) and (ai or bi), (ai or br) and (ar or bi))
                else:
                    out[c] = (False, False)
            return ('C', out)
        if isinstance(node, ast.Call):
            f = node.func
            if isinstance(f, ast.Attribute) and isinstance(f.value, ast.Attribute) and isinstance(f.value.value, ast.Name) \
                    and f.value.value.id == 'self' and f.value.attr == self.model_attr:
                if f.attr == 'cff':
                    names = ['ReH', 'ImH', 'ReE', 'ImE', 'ReHt', 'ImHt', 'ReEt', 'ImEt']
                    return ('T', [self.aR(lambda c, n=n: n in self.CONDS[c]) for n in names])
                return self.aR(lambda c: f.attr in self.CONDS[c])
            if id(node) in ctx.get('inl_abs', {}):
                return ctx['inl_abs'][id(node)]
            if id(node) in ctx.get('recargs', {}) and isinstance(f, ast.Name) and f.id in self.mod.records:
                return ('T', [self.absval(a, aenv, ctx) for a in ctx['recargs'][id(node)]], self.mod.records[f.id])
            if isinstance(f, ast.Name) and f.id == 'pow' and f.id not in self.mod.bound and len(node.args) == 2:
                a = self.absval(node.args[0], aenv, ctx)
                return a if a[0] == 'R' else T()
            name = ctx.get('callmap', {}).get(id(node))
            if name and name in self.meta:
                van = self.meta[name].get('vanish', {})
                if self.meta[name]['typ'] == 'R':
                    return self.aR(lambda c: bool(van.get(c)))
            if isinstance(f, ast.Name) and f.id in self.np and f.id in ('sqrt', 'sin'):
                return self.absval(node.args[0], aenv, ctx) if node.args else T()
            if self.qualified(f, {}) in ('sqrt', 'sin') and len(node.args) == 1:
                return self.absval(node.args[0], aenv, ctx)
            return T()
        return T()

    def falls_through(self, stmts):
        return not (stmts and isinstance(stmts[-1], (ast.Return, ast.Raise)))

    def static(self, test, env, ctx):
        """value of a condition known at translation time, else None.  Structural: `not`, `and` / `or` (short-circuit,
        left to right), comparisons and membership tests of constants; the leaves may be given by `static_conds`
        (source text of an ATOMIC condition such as `hasattr(pt, 's')` -> its value)."""
        src = ast.unparse(test)
        if src in self.static_conds:
            return self.static_conds[src]
        if isinstance(test, ast.Constant) and isinstance(test.value, (bool, int, float)):
            return bool(test.value)
        if isinstance(test, ast.Name) and env.get(test.id, (None,))[0] == 'const':
            return bool(env[test.id][1])
        if isinstance(test, ast.UnaryOp) and isinstance(test.op, ast.Not):
            v = self.static(test.operand, env, ctx)
            return None if v is None else not v
        if isinstance(test, ast.BoolOp):
            # Python evaluates left to right and stops at the first operand that decides; an operand whose value is
            # not known before that makes the whole condition unknown (it might also raise)
            stop = isinstance(test.op, ast.Or)
            for operand in test.values:
                v = self.static(operand, env, ctx)
                if v is None:
                    return None
                if v == stop:
                    return stop
            return not stop
        if isinstance(test, ast.Compare):
            # a chain  a < b <= c  is the conjunction of its links; every operand must be a constant
            vals = [self.const_value(x, env) for x in [test.left] + list(test.comparators)]
            num = lambda v: isinstance(v, (int, float)) and not isinstance(v, bool)
            out = True
            for a, op, b, bnode in zip(vals, test.ops, vals[1:], test.comparators):
                if isinstance(op, (ast.In, ast.NotIn)):
                    seq = self.const_seq(bnode, env)
                    if seq is None or not (num(a) or isinstance(a, str)):
                        return None
                    r = a in seq
                    r = r if isinstance(op, ast.In) else not r
                elif (num(a) and num(b)) or (isinstance(a, str) and isinstance(b, str) and isinstance(op, (ast.Eq, ast.NotEq))):
                    for cls_, f in ((ast.Eq, lambda: a == b), (ast.NotEq, lambda: a != b), (ast.Lt, lambda: a < b),
                                    (ast.LtE, lambda: a <= b), (ast.Gt, lambda: a > b), (ast.GtE, lambda: a >= b)):
                        if isinstance(op, cls_):
                            r = f()
                            break
                    else:
                        return None
                else:
                    return None
                out = out and r
            return out
        return None

    # ------------------------------------------------------------------ expressions
    def const_value(self, node, env):
        """integer / float constant expression (for exponents and specialisation arguments)"""
        if isinstance(node, ast.Constant) and isinstance(node.value, (int, float)) and not isinstance(node.value, bool):
            return node.value
        if isinstance(node, ast.Name) and env.get(node.id, (None,))[0] == 'const':
            return env[node.id][1]
        if isinstance(node, ast.UnaryOp) and isinstance(node.op, ast.USub):
            v = self.const_value(node.operand, env)
            return -v if isinstance(v, (int, float)) else None
        if isinstance(node, ast.UnaryOp) and isinstance(node.op, ast.UAdd):
            v = self.const_value(node.operand, env)
            return v if isinstance(v, (int, float)) else None
        if isinstance(node, ast.BinOp):
            a, b = self.const_value(node.left, env), self.const_value(node.right, env)
            if not (isinstance(a, (int, float)) and isinstance(b, (int, float))):
                return None
            if a is None or b is None:
                return None
            if isinstance(node.op, ast.Div):
                return a / b
            if isinstance(node.op, ast.Mult):
                return a * b
            if isinstance(node.op, ast.Add):
                return a + b
            if isinstance(node.op, ast.Sub):
                return a - b
        if isinstance(node, ast.Tuple):
            vs = [self.const_value(e, env) for e in node.elts]
            return None if any(v is None for v in vs) else tuple(vs)
        if isinstance(node, ast.Constant) and isinstance(node.value, str):
            return node.value
        return None

    def const_seq(self, node, env):
        """a list / tuple / set display of constants as a tuple (right-hand side of `in`), else None"""
        if isinstance(node, (ast.List, ast.Tuple, ast.Set)):
            vs = [self.const_value(e, env) for e in node.elts]
            return None if any(v is None for v in vs) else tuple(vs)
        return None

    def to_c(self, e, t):
        return e if t == C else '(Cx.ofReal %s)' % e

    def expr(self, node, env, ctx):
        if isinstance(node, ast.Constant):
            if isinstance(node.value, complex):
                if node.value == 1j:
                    return '(Cx.I : Cx K)', C
                raise Reject('complex literal')
            return lit(node.value), R
        if isinstance(node, ast.Name):
            k = env.get(node.id)
            if k:
                if k[0] == 'var':
                    return self.safe(node.id), k[1]
                if k[0] == 'const':
                    return lit(k[1]), R
                raise Reject('bare use of %s' % node.id)
            if node.id in self.consts:
                return self.consts[node.id], R
            raise Reject('%s: unknown name %s' % (ctx['fname'], node.id))
        if isinstance(node, ast.Tuple):
            parts = [self.expr(e, env, ctx) for e in node.elts]
            return '(' + ', '.join(p[0] for p in parts) + ')', tuple(p[1] for p in parts)
        if isinstance(node, ast.UnaryOp):
            if isinstance(node.op, ast.USub):
                e, t = self.expr(node.operand, env, ctx)
                return '(-%s)' % e, t
            if isinstance(node.op, ast.UAdd):
                return self.expr(node.operand, env, ctx)
            raise Reject('unary op')
        if isinstance(node, ast.Attribute):
            if isinstance(node.value, ast.Name) and env.get(node.value.id, (None,))[0] == 'pt':
                self.field(self.pt_fields, node.attr)
                ctx['reads'].add(node.attr)
                return 'pt.%s' % self.safe(node.attr), R
            if isinstance(node.value, ast.Name) and node.value.id == 'self':
                raise Reject('attribute %s' % ast.unparse(node))
            if self.qualified(node, env) == 'pi' and 'pi' in self.consts:
                return self.consts['pi'], R
            e, t = self.expr(node.value, env, ctx)
            if isinstance(t, RecT):
                if node.attr not in t.fields:
                    raise Reject('%s: record has no field %s' % (ctx['fname'], node.attr))
                return self.proj(e, t, t.fields.index(node.attr))
            if node.attr in ('real', 'imag'):
                if t != C:
                    raise Reject('.real of non-complex')
                return '%s.%s' % (self.paren(e), 're' if node.attr == 'real' else 'im'), R
            raise Reject('attribute %s' % ast.unparse(node))
        if isinstance(node, ast.Subscript):
            # rec[k] / tup[k] with a constant index on a tuple-valued expression
            e, t = self.expr(node.value, env, ctx)
            k = None if isinstance(node.slice, ast.Slice) else self.const_value(node.slice, env)
            if not isinstance(t, tuple) or not isinstance(k, int) or isinstance(k, bool):
                raise Reject('%s: subscript %s' % (ctx['fname'], ast.unparse(node)[:60]))
            if not -len(t) <= k < len(t):
                raise Reject('%s: index %d out of range' % (ctx['fname'], k))
            return self.proj(e, t, k % len(t))
        if isinstance(node, ast.IfExp):
            cond = self.static(node.test, env, ctx)
            if cond is None:
                raise Reject('%s: non-static condition: %s' % (ctx['fname'], ast.unparse(node.test)))
            ctx['recargs'][('ifexp', id(node))] = node.body if cond else node.orelse     # for the vanishing analysis
            return self.expr(node.body if cond else node.orelse, env, ctx)
        if isinstance(node, ast.BinOp):
            return self.binop(node, env, ctx)
        if isinstance(node, ast.Call):
            return self.call(node, env, ctx)
        raise Reject('%s: expression %s' % (ctx['fname'], type(node).__name__))

    def proj(self, e, t, k):
        """k-th component of the tuple-typed term e (Lean tuples nest to the right)"""
        n = len(t)
        if n == 1:
            return e, t[0]
        return self.paren(e) + '.2' * k + ('.1' if k < n - 1 else ''), t[k]

    def paren(self, e):
        return e if (e.startswith('(') and e.endswith(')')) or e.replace('.', '').replace('_', '').isalnum() else '(%s)' % e

    def binop(self, node, env, ctx):
        op = node.op
        if isinstance(op, ast.Pow):
            b, bt = self.expr(node.left, env, ctx)
            ev = self.const_value(node.right, env)
            if ev is None:
                raise Reject('%s: non-constant exponent' % ctx['fname'])
            if bt != R:
                raise Reject('complex power')
            if isinstance(ev, int) or (isinstance(ev, float) and ev == int(ev)):
                n = int(ev)
                if n < 0:
                    return '(1 / (%s ^ (%d : Nat)))' % (b, -n), R
                return '(%s ^ (%d : Nat))' % (b, n), R
            return '(kpow %s %s)' % (b, lit(float(ev))), R
        a, at = self.expr(node.left, env, ctx)
        b, bt = self.expr(node.right, env, ctx)
        sym = {ast.Add: '+', ast.Sub: '-', ast.Mult: '*', ast.Div: '/'}.get(type(op))
        if sym is None:
            raise Reject('operator %s' % type(op).__name__)
        if at == R and bt == R:
            return '(%s %s %s)' % (a, sym, b), R
        # the idiom  re + 1j*im  →  ⟨re, im⟩
        if sym == '+' and at == R and isinstance(node.right, ast.BinOp) and isinstance(node.right.op, ast.Mult) \
                and isinstance(node.right.left, ast.Constant) and node.right.left.value == 1j:
            im, it = self.expr(node.right.right, env, ctx)
            if it == R:
                return '(Cx.mk %s %s)' % (a, im), C
        if sym in ('+', '-'):
            return '(%s %s %s)' % (self.to_c(a, at), sym, self.to_c(b, bt)), C
        if sym == '*':
            if at == R:
                return '(Cx.smul %s %s)' % (a, b), C
            if bt == R:
                return '(Cx.smul %s %s)' % (b, a), C
            return '(%s * %s)' % (a, b), C
        if sym == '/':
            if bt == R:
                return '(Cx.divR %s %s)' % (a, b), C
            return '(%s / %s)' % (self.to_c(a, at), b), C
        raise Reject('binop')

    def qualified(self, f, env):
        """np.sqrt / math.cos / np.pi …: the bare name when the prefix is numpy or math imported as a module"""
        if isinstance(f, ast.Attribute) and isinstance(f.value, ast.Name) and f.value.id in self.mod.modalias \
                and f.value.id not in env:
            return f.attr
        return None

    def call(self, node, env, ctx):
        f = node.func
        q = self.qualified(f, env)
        if q is not None:
            if q not in self.np:
                raise Reject('%s: call %s' % (ctx['fname'], ast.unparse(node)[:60]))
            if len(node.args) != 1 or node.keywords:
                raise Reject('call %s' % q)
            e, t = self.expr(node.args[0], env, ctx)
            if t != R:
                raise Reject('%s of complex' % q)
            return '(%s %s)' % (self.np[q], e), R
        # numpy / module functions
        if isinstance(f, ast.Name):
            if f.id in self.np:
                if len(node.args) != 1 or node.keywords:
                    raise Reject('call %s' % f.id)
                e, t = self.expr(node.args[0], env, ctx)
                if t != R:
                    raise Reject('%s of complex' % f.id)
                return '(%s %s)' % (self.np[f.id], e), R
            if f.id == 'pow' and f.id not in env and f.id not in self.mod.bound and f.id not in self.consts:
                # the builtin: pow(x, y) is x ** y (the three-argument form is integer arithmetic: not here)
                if len(node.args) != 2 or node.keywords:
                    raise Reject('%s: call %s' % (ctx['fname'], ast.unparse(node)[:60]))
                return self.binop(ast.BinOp(left=node.args[0], op=ast.Pow(), right=node.args[1]), env, ctx)
            if f.id in self.mod.records and f.id not in env:
                # construction of a module-level namedtuple: the tuple of its fields in declaration order
                fields = self.mod.records[f.id]
                given = dict(zip(fields, node.args))
                if len(node.args) > len(fields):
                    raise Reject('%s: too many fields for %s' % (ctx['fname'], f.id))
                for kw in node.keywords:
                    if kw.arg is None or kw.arg not in fields or kw.arg in given:
                        raise Reject('%s: field of %s' % (ctx['fname'], f.id))
                    given[kw.arg] = kw.value
                if set(given) != set(fields):
                    raise Reject('%s: %s needs every field' % (ctx['fname'], f.id))
                # Python evaluates the arguments in the order written; the expressions are pure, so the order of the
                # components is all that matters
                parts = [self.expr(given[fl], env, ctx) for fl in fields]
                if any(isinstance(pt_, tuple) or pt_ not in (R, C) for _, pt_ in parts):
                    raise Reject('%s: field of %s is not a scalar' % (ctx['fname'], f.id))
                ctx['recargs'][id(node)] = [given[fl] for fl in fields]
                e = parts[0][0] if len(parts) == 1 else '(' + ', '.join(x for x, _ in parts) + ')'
                return e, RecT.make([t_ for _, t_ in parts], fields)
            if f.id in self.module_funcs:
                lname, params = self.module_funcs[f.id]
                argn = list(node.args)
                if node.keywords:
                    # keyword arguments are put in the callee's parameter order (when that is known)
                    kws = {k.arg: k.value for k in node.keywords}
                    if params is None or None in kws or len(argn) + len(kws) != len(params) \
                            or set(kws) != set(params[len(argn):]):
                        raise Reject('call %s' % f.id)
                    argn += [kws[p_] for p_ in params[len(argn):]]
                elif params is not None and len(argn) != len(params):
                    raise Reject('%s: %s takes %d arguments' % (ctx['fname'], f.id, len(params)))
                args = [('pt', 'Pt') if isinstance(a, ast.Name) and env.get(a.id, (None,))[0] == 'pt' else self.expr(a, env, ctx) for a in argn]
                if any(t not in (R, 'Pt') for _, t in args):
                    raise Reject('call %s' % f.id)
                ctx['callees'].append(lname)
                return '(%s c %s)' % (lname, ' '.join(a for a, _ in args)), R
            if f.id in self.mod.functions and f.id not in env and f.id not in self.targets:
                # a module-level helper (not a requested entry point): inlined
                return self.inline_function(self.mod.functions[f.id], node, env, ctx)
            if f.id in self.mod.functions and f.id not in env:
                callee = self.mod.functions[f.id]
                lname, t = self.gen_func(callee)
                # every parameter exactly once, positional first, keywords put in the callee's order (no defaults:
                # the generated definition takes all of them)
                params = [a.arg for a in callee.args.args]
                kws = {k.arg: k.value for k in node.keywords}
                if None in kws or callee.args.vararg or callee.args.kwarg or callee.args.kwonlyargs or callee.args.posonlyargs \
                        or len(node.args) + len(kws) != len(params) or set(kws) != set(params[len(node.args):]):
                    raise Reject('%s: arguments of %s' % (ctx['fname'], f.id))
                args = []
                for a in list(node.args) + [kws[p_] for p_ in params[len(node.args):]]:
                    if isinstance(a, ast.Name) and env.get(a.id, (None,))[0] == 'pt':
                        args.append('pt')
                    else:
                        e, at = self.expr(a, env, ctx)
                        if at != R:
                            raise Reject('call arg')
                        args.append(e)
                ctx['callees'].append(lname)
                return '(%s c %s)' % (lname, ' '.join(args)), t
            sv = self.static_value(f, env, ctx)
            if sv is not None and sv[0] == 'meth':
                return self.method_call(sv[1], node, env, ctx)      # fn(pt) with fn a bound method
            raise Reject('%s: call to %s' % (ctx['fname'], f.id))
        if isinstance(f, ast.Subscript):
            sv = self.static_value(f, env, ctx)
            if sv is not None and sv[0] == 'meth':
                return self.method_call(sv[1], node, env, ctx)      # fns[k](pt)
        # self.m.NAME(pt)   /  self.NAME(pt, ...)  /  self.m.cff(pt)
        if isinstance(f, ast.Attribute):
            v = f.value
            if isinstance(v, ast.Attribute) and isinstance(v.value, ast.Name) and v.value.id == 'self' and v.attr == self.model_attr:
                if f.attr == 'cff':
                    names = ['ReH', 'ImH', 'ReE', 'ImE', 'ReHt', 'ImHt', 'ReEt', 'ImEt']
                    for n in names:
                        self.field(self.m_fields, n)
                        ctx['mreads'].add(n)
                    return '(' + ', '.join('m.' + n for n in names) + ')', tuple([R] * 8)
                self.field(self.m_fields, f.attr)
                ctx['mreads'].add(f.attr)
                return 'm.%s' % f.attr, R
            if isinstance(v, ast.Name) and v.id == 'self':
                return self.method_call(f.attr, node, env, ctx)
        # self.CINT[key](self, pt)
        if isinstance(f, ast.Subscript) and isinstance(f.value, ast.Attribute) and isinstance(f.value.value, ast.Name) \
                and f.value.value.id == 'self':
            key = self.const_value(f.slice, env)
            if key is None:
                raise Reject('%s: non-constant table key' % ctx['fname'])
            tcls, table = self.resolve_table(ctx['cls'], f.value.attr)
            if key not in table:
                raise Reject('%s: key %r not in %s' % (ctx['fname'], key, f.value.attr))
            if [ast.unparse(a) for a in node.args] != ['self', 'pt']:
                raise Reject('table call args')
            # the stored function object belongs to the class that filled the table
            fn = self.mod.classes[tcls].methods[table[key]]
            lname, t = self.gen_func(fn, cls=ctx['cls'], defcls=tcls, args=())
            ctx['callees'].append(lname)
            ctx['callmap'][id(node)] = lname
            return '(%s c m pt)' % lname, t
        raise Reject('%s: call %s' % (ctx['fname'], ast.unparse(node)[:60]))

    # ------------------------------------------------------------------ method calls, inlining
    def method_call(self, mname, node, env, ctx):
        """self.NAME(pt, args…): specialised definition when every argument is a constant; inlined when the callee is
        a private helper or takes a real-valued argument / a bound method / a tuple of them"""
        if ctx.get('cls') is None:
            raise Reject('%s: method call outside a class' % ctx['fname'])
        if not node.args or not (isinstance(node.args[0], ast.Name) and env.get(node.args[0].id, (None,))[0] == 'pt'):
            raise Reject('%s: self.%s without pt' % (ctx['fname'], mname))
        dcls, fn = self.resolve(ctx['cls'], mname)
        pnames = [a.arg for a in fn.args.args][2:]
        if fn.args.vararg or fn.args.kwarg or fn.args.kwonlyargs or fn.args.posonlyargs:
            raise Reject('%s: signature of %s' % (ctx['fname'], mname))
        given, other = {}, {}
        pairs = []
        for k, a in enumerate(node.args[1:]):
            if k >= len(pnames):
                raise Reject('%s: too many arguments to %s' % (ctx['fname'], mname))
            pairs.append((pnames[k], a))
        for kw in node.keywords:
            if kw.arg is None or kw.arg not in pnames:
                raise Reject('%s: keyword to %s' % (ctx['fname'], mname))
            pairs.append((kw.arg, kw.value))
        for pname, a in pairs:
            if pname in given or pname in other:
                raise Reject('%s: argument %s given twice' % (ctx['fname'], pname))
            cv = self.const_value(a, env)
            if cv is not None:
                given[pname] = cv
            else:
                other[pname] = a
        private = mname.startswith('_') and mname not in self.targets
        if other or private:
            return self.inline(fn, node, dcls, given, other, env, ctx, method=True)
        lname, t = self.gen_method(ctx['cls'], mname, tuple(sorted(given.items())))
        ctx['callees'].append(lname)
        ctx['callmap'][id(node)] = lname
        return '(%s c m pt)' % lname, t

    def inline_function(self, fn, node, env, ctx):
        params = [a.arg for a in fn.args.args]
        if node.keywords and any(k.arg is None or k.arg not in params for k in node.keywords):
            raise Reject('%s: keyword to %s' % (ctx['fname'], fn.name))
        if len(node.args) > len(params) or fn.args.vararg or fn.args.kwarg or fn.args.kwonlyargs or fn.args.posonlyargs:
            raise Reject('%s: signature of %s' % (ctx['fname'], fn.name))
        given, other = {}, {}
        for pname, a in list(zip(params, node.args)) + [(k.arg, k.value) for k in node.keywords]:
            if pname in given or pname in other:
                raise Reject('%s: argument %s given twice' % (ctx['fname'], pname))
            cv = self.const_value(a, env)
            if cv is not None:
                given[pname] = cv
            else:
                other[pname] = a
        return self.inline(fn, node, None, given, other, env, ctx, method=False)

    def inline(self, fn, node, defcls, given, other, env, ctx, method):
        """the body of `fn` as a term at the call site.  Constants, bound methods and tuples of them are bound at
        translation time; real-valued arguments become the arguments of a lambda (evaluated in the caller's scope);
        `pt` is the caller's point.  reads / callees / CFF reads accumulate in the caller's context."""
        if self.inline_depth > 12:
            raise Reject('%s: inlining too deep (recursive helper %s?)' % (ctx['fname'], fn.name))
        params = [a.arg for a in fn.args.args]
        extra = params[2:] if method else params
        defaults = [self.const_value(d, {}) for d in fn.args.defaults]
        dvals = dict(zip(params[len(params) - len(defaults):], defaults))
        env2, aenv2, lam, args = {}, {}, [], []
        if method:
            env2['pt'] = ('pt', None)
        for e in extra:
            if e in given:
                env2[e] = ('const', given[e])
            elif e in other:
                a = other[e]
                if isinstance(a, ast.Name) and env.get(a.id, (None,))[0] == 'pt':
                    if e != 'pt':
                        raise Reject('%s: the point passed as %s' % (ctx['fname'], e))
                    env2[e] = ('pt', None)
                    continue
                sv = self.static_value(a, env, ctx)
                if sv is not None:
                    env2[e] = sv
                    continue
                x, t = self.expr(a, env, ctx)
                if t != R:
                    raise Reject('%s: argument %s of %s is not a real scalar' % (ctx['fname'], e, fn.name))
                env2[e] = ('var', R)
                aenv2[e] = self.absval(a, ctx['aenv'], ctx)
                lam.append(self.safe(e))
                args.append(self.paren(x))
            elif e in dvals and dvals[e] is not None:
                env2[e] = ('const', dvals[e])
            else:
                raise Reject('%s: argument %s of %s not given' % (ctx['fname'], e, fn.name))
        # names of the caller's locals must not capture what the helper's body refers to globally
        ctx2 = dict(ctx)
        ctx2.update(fname=fn.name, aenv=aenv2, ret_abs=[], inlining=True)
        ctx['inlined'].append((defcls, fn.name))
        ncall = len(ctx['callees'])
        self.inline_depth += 1
        try:
            body, typ = self.block(fn.body, env2, ctx2, indent='    ')
        finally:
            self.inline_depth -= 1
        if typ == 'Pt':
            raise Reject('%s: inlined helper %s returns the point' % (ctx['fname'], fn.name))
        locals_ = {self.safe(k) for k, v in env.items() if v[0] == 'var'}
        clash = sorted(x for x in ctx['callees'][ncall:] if x in locals_)
        if clash:
            raise Reject('%s: local name %s of the caller would capture a function used by %s' % (ctx['fname'], clash[0], fn.name))
        rets = ctx2['ret_abs']
        if len(rets) == 1:
            ctx['inl_abs'][id(node)] = rets[0]
        elif rets and all(r[0] == 'R' for r in rets):
            ctx['inl_abs'][id(node)] = self.aR(lambda c: all(r[1][c] for r in rets))
        else:
            ctx['inl_abs'][id(node)] = self.aR(lambda c: False)
        if lam:
            return '((fun %s =>\n%s) %s)' % (' '.join('(%s : K)' % x for x in lam), body, ' '.join(args)), typ
        return '(\n%s)' % body, typ


#!/bin/sh
# tools/integrate.sh <workcopy>   — copy files that exist only in the work copy into /verif
set -e
W="$1"
cd "$W"
rsync -av --ignore-existing --exclude '.lake' --exclude 'lean/Gen' --exclude 'evidence' --exclude 'replays' \
  --exclude '__pycache__' --exclude '.pydeps' --exclude 'lean/Driver/Main.lean' --exclude 'MANIFEST.json' \
  --exclude '*.pyc' --exclude 'lean/.audit*' ./ /verif/ | grep -v '/$' | grep -v '^sending\|^sent\|^total\|^$' || true

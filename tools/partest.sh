#!/bin/sh
# tools/partest.sh <jobs file> [workers=4] [outdir=/tmp/partest_out]
# Run many seedtest jobs in parallel, each worker in its own scratch copy of /verif (own lean/.lake, own Gen).
# A job line: "<label> <absolute patch path> <check ids ...>".  Result lines land in <outdir>/<label>.log.
set -u
JOBS="$(readlink -f "$1")"; K="${2:-4}"; OUT="${3:-/tmp/partest_out}"
ROOT="$(cd "$(dirname "$0")/.." && pwd)"
mkdir -p "$OUT"
i=0
while [ $i -lt $K ]; do
  (
    W="/tmp/vpar_$i"
    mkdir -p "$W"
    rsync -a --delete --exclude .git --exclude replays "$ROOT/" "$W/"
    awk -v k=$K -v i=$i 'NR % k == i' "$JOBS" | while read label patch ids; do
      [ -z "$label" ] && continue
      "$W/tools/seedtest.sh" "$patch" "$ids" "${PARTEST_SEED:-0}" > "$OUT/$label.log" 2>&1
    done
    rm -rf "$W"
  ) &
  i=$((i+1))
done
wait
echo PARTEST-DONE

"""C01: derive the trace-reduced (invariant) form of the tree-level Bethe-Heitler |T|^2 / e^6 and emit it as
the scalar template lean/Scalar/BHRef.lean.in (instantiated by tools/instantiate.py at Float and at ℝ:
Gen/BHRefF.lean, Gen/BHRefR.lean).

Amplitude (one-photon exchange, massless lepton, elastic nucleon vertex; e^6 and the overall sign stripped):
    T^{mu}  =  ubar(k') O^{mu nu} u(k) . ubar(p2) Gamma_nu u(p1) / t
    O^{mu nu}   = gamma^mu (k/ - Delta/) gamma^nu / (k-Delta)^2 + gamma^nu (k'/ + Delta/) gamma^mu / (k'+Delta)^2
    Gamma^nu    = F1 gamma^nu + i F2 sigma^{nu rho} Delta_rho / (2M)
    |T|^2 = -g_{mu mu'} Tr[k'/ O^{mu nu} rho_l Obar^{mu' sigma}] Tr[(p2/+M) Gamma_nu rho_p Gammabar_sigma] / t^2
    rho_l = k/ (1 - h gamma5)/2        (helicity h;  gamma5 = i gamma^0 gamma^1 gamma^2 gamma^3)
    rho_p = (p1/ + M)(1 + gamma5 S/)/2 (rest-frame spin four-vector S, S.p1 = 0, S^2 = -1)
The traces are reduced by a small symbolic engine (Wick-type recursion for plain traces; for one gamma5:
Tr[g5 a1..an] = i sum_{i<j<k<l} (-1)^{i+j+k+l} eps(ai,aj,ak,al) Tr[rest]; eps.eps = -det of dot products) —
validated against explicit 4x4 matrices in harness/props/C01.py (oracle stream) on every run.

Result, in the dot products  a = k.k', d = k.Delta, u = k.P, up = k'.P (P = p1+p2), t, M, spin products
sk = S.k, skp = S.k', sD = S.Delta   (k'.Delta = a + d - t/2 from q2^2 = 0; P.Delta = 0; P^2 = 4M^2 - t):
    unp = [ FE2 * E + FM2 * Mg ] / t^2 ,   FE2 = F1^2 - t F2^2/(4M^2),  FM2 = (F1+F2)^2
    pol = h * [ M (F1+F2)^2 X + (F1+F2) F2 Y / M ] / t^2
each of E, Mg, X, Y = ia^2 (..)_AA + ib^2 (..)_BB + ia ib (..)_AB,  ia = 1/(k-Delta)^2, ib = 1/(k'+Delta)^2.
"""
import os
import sys
from fractions import Fraction
from functools import lru_cache
from itertools import combinations, permutations

HERE = os.path.dirname(os.path.abspath(__file__))
VERIF = os.path.dirname(HERE)
sys.path.append(os.path.join(VERIF, '.pydeps'))
if os.path.isdir('/verif/.pydeps'):
    sys.path.append('/verif/.pydeps')

# ----------------------------------------------------------------------------------------------
# polynomials in tensor monomials: dict {monomial: Fraction}; monomial = sorted tuple of factors
#   ('g', x, y)  metric / dot product / component (x, y vector names or '@index'), x <= y
#   ('e', a, b, c, d)  epsilon tensor = det of contravariant components
#   ('s', name)  scalar symbol
# ----------------------------------------------------------------------------------------------


def padd(p, q, c=1):
    r = dict(p)
    for m, v in q.items():
        w = r.get(m, 0) + c * v
        if w == 0:
            r.pop(m, None)
        else:
            r[m] = w
    return r


def pmulmono(p, mono, c=1):
    r = {}
    for m, v in p.items():
        mm = tuple(sorted(m + mono))
        w = r.get(mm, 0) + c * v
        if w == 0:
            r.pop(mm, None)
        else:
            r[mm] = w
    return r


def pmul(p, q):
    r = {}
    for m1, v1 in p.items():
        for m2, v2 in q.items():
            mm = tuple(sorted(m1 + m2))
            w = r.get(mm, 0) + v1 * v2
            if w == 0:
                r.pop(mm, None)
            else:
                r[mm] = w
    return r


def g(x, y):
    return ('g',) + tuple(sorted((x, y)))


@lru_cache(None)
def _tr(slots):
    """Tr[s1/ ... sn/]"""
    n = len(slots)
    if n == 0:
        return {(): Fraction(4)}
    if n % 2:
        return {}
    res = {}
    for i in range(1, n):
        sub = _tr(slots[1:i] + slots[i + 1:])
        res = padd(res, pmulmono(sub, (g(slots[0], slots[i]),)), (-1) ** (i - 1))
    return res


@lru_cache(None)
def _tr5(slots):
    """Tr[gamma5 s1/ ... sn/] / i"""
    n = len(slots)
    if n < 4 or n % 2:
        return {}
    res = {}
    for idx in combinations(range(n), 4):
        rest = tuple(s for i, s in enumerate(slots) if i not in idx)
        e = ('e',) + tuple(slots[i] for i in idx)
        res = padd(res, pmulmono(_tr(rest), (e,)), (-1) ** (sum(idx) + 4))
    return res


def perm_sign(p):
    s, p = 1, list(p)
    for i in range(len(p)):
        while p[i] != i:
            j = p[i]
            p[i], p[j] = p[j], p[i]
            s = -s
    return s


PERMS4 = [(p, perm_sign(p)) for p in permutations(range(4))]


def expand_eps(poly):
    """eps(a).eps(b) = -det[g(a_i, b_j)]; monomials with a single eps are returned separately"""
    out, odd = {}, {}
    for m, v in poly.items():
        es = [f for f in m if f[0] == 'e']
        rest = tuple(f for f in m if f[0] != 'e')
        if not es:
            out = padd(out, {m: v})
        elif len(es) == 1:
            odd = padd(odd, {m: v})
        else:
            assert len(es) == 2
            a, b = es[0][1:], es[1][1:]
            for p, sg in PERMS4:
                mono = tuple(sorted(rest + tuple(g(a[i], b[p[i]]) for i in range(4))))
                out = padd(out, {mono: -sg * v})
    return out, odd


def contract(poly):
    """contract every Lorentz index that appears twice (g-g, g-eps); eps with a repeated slot vanishes;
    indices shared by two eps factors are left for expand_eps"""
    out = {}
    for m, v in poly.items():
        fac, coef, dead, changed = list(m), v, False, True
        while changed and not dead:
            changed = False
            occ = {}
            for fi, f in enumerate(fac):
                if f[0] in 'ge':
                    for sl, s in enumerate(f[1:]):
                        if s.startswith('@'):
                            occ.setdefault(s, []).append((fi, sl + 1))
            for idx, w in occ.items():
                if len(w) != 2:
                    continue
                (i, a), (j, b) = w
                fi, fj = fac[i], fac[j]
                if i == j:
                    if fi[0] == 'e':
                        dead = True
                    else:
                        coef *= 4
                        fac.pop(i)
                    changed = True
                    break
                if fi[0] == 'e' and fj[0] == 'e':
                    continue
                if fi[0] == 'g' and fj[0] == 'g':
                    x = fi[1] if a == 2 else fi[2]
                    y = fj[1] if b == 2 else fj[2]
                    new = g(x, y)
                elif fi[0] == 'g':
                    e = list(fj)
                    e[b] = fi[1] if a == 2 else fi[2]
                    new = tuple(e)
                else:
                    e = list(fi)
                    e[a] = fj[1] if b == 2 else fj[2]
                    new = tuple(e)
                for kk in sorted((i, j), reverse=True):
                    fac.pop(kk)
                fac.append(new)
                changed = True
                break
        if dead:
            continue
        fac2 = []
        for f in fac:
            if f[0] == 'e':
                sl = list(f[1:])
                if len(set(sl)) < 4:
                    dead = True
                    break
                order = sorted(range(4), key=lambda i: sl[i])
                coef *= perm_sign(tuple(order))
                f = ('e',) + tuple(sl[i] for i in order)
            fac2.append(f)
        if not dead:
            out = padd(out, {tuple(sorted(fac2)): coef})
    return out


def S(name):
    return (('s', name),)


class Expr:
    """linear combination of gamma strings: list of (scalar polynomial, slots)"""

    def __init__(self, terms):
        self.terms = terms

    @staticmethod
    def vec(name):
        return Expr([({(): Fraction(1)}, (name,))])

    @staticmethod
    def one():
        return Expr([({(): Fraction(1)}, ())])

    def __add__(self, o):
        return Expr(self.terms + o.terms)

    def __sub__(self, o):
        return self + o.scale(-1)

    def scale(self, c, mono=()):
        return Expr([(pmulmono(p, mono, Fraction(c)), s) for p, s in self.terms])

    def __mul__(self, o):
        return Expr([(pmul(p1, p2), s1 + s2) for p1, s1 in self.terms for p2, s2 in o.terms])


def trace(expr):
    res = {}
    for p, s in expr.terms:
        res = padd(res, pmul(p, _tr(tuple(s))))
    return res


def trace5(X, Y):
    """Tr[X gamma5 Y] / i = (-1)^{len X} Tr[gamma5 X Y] / i"""
    res = {}
    for p1, s1 in X.terms:
        for p2, s2 in Y.terms:
            res = padd(res, pmul(pmul(p1, p2), _tr5(tuple(s1 + s2))), (-1) ** len(s1))
    return res


def simplify_scalars(poly):
    out = {}
    for m, v in poly.items():
        fac = list(m)
        while ('s', 'M') in fac and ('s', 'Minv') in fac:
            fac.remove(('s', 'M'))
            fac.remove(('s', 'Minv'))
        out = padd(out, {tuple(sorted(fac)): v})
    return out


# ----------------------------------------------------------------------------------------------
# the Bethe-Heitler traces
# ----------------------------------------------------------------------------------------------

V = Expr.vec
HALF = Fraction(1, 2)


def lepton():
    """L^{nu si} = -g_{mu mu'} Tr[k' O^{mu nu} k (1 - h g5)/2 Obar^{mu' si}]: (h-independent part, coefficient of i*h)"""
    mu, nu, si = V('@mu'), V('@nu'), V('@si')
    O = (mu * V('A') * nu).scale(1, S('ia')) + (nu * V('B') * mu).scale(1, S('ib'))
    Ob = (si * V('A') * mu).scale(1, S('ia')) + (mu * V('B') * si).scale(1, S('ib'))
    X = V('kp') * O * V('k')
    plain = {m: -HALF * v for m, v in contract(trace(X * Ob)).items()}
    pol = {m: HALF * v for m, v in contract(trace5(X, Ob)).items()}       # (-1) from -g, (-1) from -h g5
    return plain, pol


def hadron():
    """H^{nu si} = Tr[(p2+M) Gam^nu (p1+M) (1 + g5 S)/2 Gambar^si] with i sigma^{nu rho} D_rho = -(g^nu D - D g^nu)/2:
    (S-independent part, coefficient of i)"""
    nu, si, D, one = V('@nu'), V('@si'), V('D'), Expr.one()
    f = S('F2') + S('Minv')
    Gam = nu.scale(1, S('F1')) - (nu * D - D * nu).scale(Fraction(1, 4), f)
    Gamb = si.scale(1, S('F1')) + (si * D - D * si).scale(Fraction(1, 4), f)
    X = (V('p2') + one.scale(1, S('M'))) * Gam * (V('p1') + one.scale(1, S('M')))
    plain = {m: HALF * v for m, v in trace(X * Gamb).items()}
    pol = {m: HALF * v for m, v in trace5(X, V('S') * Gamb).items()}
    return simplify_scalars(plain), simplify_scalars(pol)


def bh_polynomials():
    Lp, L5 = lepton()
    Hp, H5 = hadron()
    unp = simplify_scalars(contract(pmul(Lp, Hp)))
    ex, odd = expand_eps(pmul(L5, H5))
    assert not odd
    pol = {m: -v for m, v in simplify_scalars(contract(ex)).items()}       # i*i = -1
    return unp, pol


# ----------------------------------------------------------------------------------------------
# reduction to independent invariants and printing
# ----------------------------------------------------------------------------------------------

def reduce_to_invariants(unp, pol):
    import sympy as sp
    a, d, u, up, t, M, F1, F2, sk, skp, sD, ia, ib = sp.symbols('a d u up t M F1 F2 sk skp sD ia ib')
    half = sp.Rational(1, 2)
    comp = {'k': {'k': 1}, 'kp': {'kp': 1}, 'D': {'D': 1}, 'S': {'S': 1},
            'A': {'k': 1, 'D': -1}, 'B': {'kp': 1, 'D': 1},
            'p1': {'P': half, 'D': -half}, 'p2': {'P': half, 'D': half}}
    bd = {('k', 'k'): 0, ('kp', 'kp'): 0, ('k', 'kp'): a, ('D', 'k'): d, ('D', 'kp'): a + d - t / 2, ('D', 'D'): t,
          ('P', 'P'): 4 * M ** 2 - t, ('D', 'P'): 0, ('P', 'k'): u, ('P', 'kp'): up,
          ('S', 'k'): sk, ('S', 'kp'): skp, ('D', 'S'): sD, ('P', 'S'): sD, ('S', 'S'): -1}
    sc = {'F1': F1, 'F2': F2, 'M': M, 'Minv': 1 / M, 'ia': ia, 'ib': ib}
    cache = {}

    def dot(x, y):
        if (x, y) not in cache:
            cache[(x, y)] = sp.expand(sum(cx * cy * bd[tuple(sorted((bx, by)))]
                                          for bx, cx in comp[x].items() for by, cy in comp[y].items()))
        return cache[(x, y)]

    def tosym(p):
        tot = 0
        for m, v in p.items():
            x = sp.Rational(v.numerator, v.denominator)
            for f in m:
                x *= dot(f[1], f[2]) if f[0] == 'g' else sc[f[1]]
            tot += x
        return sp.expand(tot)
    return tosym(unp), tosym(pol)


def lean_expr(e):
    """sympy polynomial expression -> Lean term over K (nested form is kept)"""
    import sympy as sp
    if e.is_Symbol:
        return str(e)
    if e.is_Integer:
        return '(%d : K)' % int(e) if e >= 0 else '(-(%d : K))' % -int(e)
    if e.is_Rational:
        s = '((%d : K) / (%d : K))' % (abs(e.p), e.q)
        return s if e > 0 else '(-%s)' % s
    if e.is_Add:
        return '(' + ' + '.join(lean_expr(x) for x in e.args) + ')'
    if e.is_Mul:
        return '(' + ' * '.join(lean_expr(x) for x in e.args) + ')'
    if e.is_Pow and e.exp.is_Integer and e.exp > 0:
        return '(%s ^ (%d : Nat))' % (lean_expr(e.base), int(e.exp))
    raise ValueError('cannot print %r' % (e,))


def main(out=None):
    import sympy as sp
    unp, pol = bh_polynomials()
    U, P = reduce_to_invariants(unp, pol)
    a, d, u, up, t, M, M2, F1, F2, sk, skp, sD, ia, ib = sp.symbols('a d u up t M M2 F1 F2 sk skp sD ia ib')
    # -- unpolarised: Rosenbluth structure FE2 * E + FM2 * Mg
    Up = sp.Poly(sp.expand(U.subs(M, sp.sqrt(M2))), F1, F2)
    c11, c12, c22 = (sp.expand(Up.coeff_monomial(m)) for m in (F1 ** 2, F1 * F2, F2 ** 2))
    Mg = sp.expand(c12 / 2)
    E = sp.expand(c11 - Mg)
    assert sp.expand(c22 - (Mg - t / (4 * M2) * E)) == 0 and sp.expand(Up.as_expr() - (F1 ** 2 * c11 + F1 * F2 * c12 + F2 ** 2 * c22)) == 0
    assert not E.has(sp.sqrt(M2)) and not Mg.has(sp.sqrt(M2))
    # -- polarised: M G^2 X + G F2 Y / M
    Pp = sp.Poly(P, F1, F2)
    p11, p12, p22 = (sp.expand(Pp.coeff_monomial(m)) for m in (F1 ** 2, F1 * F2, F2 ** 2))
    X = sp.expand(p11 / M)
    Y = sp.expand((p12 - 2 * p11) * M)
    assert sp.expand(p22 - (p12 - p11)) == 0 and sp.expand(Pp.as_expr() - (F1 ** 2 * p11 + F1 * F2 * p12 + F2 ** 2 * p22)) == 0
    assert not X.has(M)
    Y = sp.expand(Y.subs(M, sp.sqrt(M2)))
    assert not Y.has(sp.sqrt(M2))
    defs = []
    nterms = {}

    def piece(name, expr, args, doc):
        expr = sp.expand(expr)
        n = len(expr.as_ordered_terms()) if expr != 0 else 0
        nterms[name] = n
        assert n <= 25, (name, n)
        body = lean_expr(sp.horner(expr, wrt=[s for s in args if expr.has(s)])) if n else '(0 : K)'
        defs.append('/-- %s (%d terms) -/\ndef %s %s : K :=\n  %s\n' % (
            doc, n, name, ' '.join('(%s : K)' % s for s in args), body))
    props = (('AA', 2, 0), ('BB', 0, 2), ('AB', 1, 1))
    for tag, Z, args in (('E', E, (a, d, u, up, t, M2)), ('Mg', Mg, (a, d, u, up, t, M2))):
        tot = 0
        for pn, i, j in props:
            c = sp.expand(Z.coeff(ia, i).coeff(ib, j))
            tot += c * ia ** i * ib ** j
            piece('unp%s_%s' % (tag, pn), c, args, 'unpolarised, %s structure, propagator factor ia^%d ib^%d' % (
                'F1²−tF2²/4M²' if tag == 'E' else '(F1+F2)²', i, j))
        assert sp.expand(tot - Z) == 0
    for tag, Z, args in (('X', X, (a, d, u, up, t, M2)), ('Y', Y, (a, d, u, up, t, M2))):
        tot = 0
        for pn, i, j in props:
            for sn, s in (('k', sk), ('kp', skp), ('D', sD)):
                c = sp.expand(Z.coeff(ia, i).coeff(ib, j).coeff(s, 1))
                tot += c * ia ** i * ib ** j * s
                piece('pol%s_%s_%s' % (tag, pn, sn), c, args, 'beam helicity × target spin, %s structure, ia^%d ib^%d, coefficient of S·%s' % (
                    'M(F1+F2)²' if tag == 'X' else '(F1+F2)F2/M', i, j, {'k': 'k', 'kp': "k'", 'D': 'Δ'}[sn]))
        assert sp.expand(tot - Z) == 0
    A6 = 'a d u up t M2'
    hdr = '''/-
  BHRef — AUTO-GENERATED by tools/gen_bhref.py (do not edit): trace-reduced invariant form of the tree-level
  Bethe–Heitler |T|²/e⁶ (lepton Compton tensor ⊗ elastic nucleon tensor / t²), derived by a symbolic Dirac-trace
  engine; see the docstring of tools/gen_bhref.py for the amplitude and conventions.
  Arguments: a = k·k', d = k·Δ, u = k·P, up = k'·P (P = p₁+p₂), t = Δ², M2 = M², M; sk = S·k, skp = S·k', sD = S·Δ.
-/
namespace BHRef

'''
    comb = lambda tag: '(((ia ^ (2 : Nat)) * (%s_AA %s)) + ((ib ^ (2 : Nat)) * (%s_BB %s)) + ((ia * ib) * (%s_AB %s)))' % (
        tag, A6, tag, A6, tag, A6)
    A9 = A6 + ' sk skp sD'
    spin_defs = ''.join(
        'def %s_%s (a d u up t M2 sk skp sD : K) : K :=\n  ((sk * (%s_%s_k %s)) + (skp * (%s_%s_kp %s)) + (sD * (%s_%s_D %s)))\n' % (
            tag, pn, tag, pn, A6, tag, pn, A6, tag, pn, A6) for tag in ('polX', 'polY') for pn in ('AA', 'BB', 'AB'))
    combS = lambda tag: '(((ia ^ (2 : Nat)) * (%s_AA %s)) + ((ib ^ (2 : Nat)) * (%s_BB %s)) + ((ia * ib) * (%s_AB %s)))' % (
        tag, A9, tag, A9, tag, A9)
    tail = '''/-- lepton propagator factors 1/(k−Δ)² and 1/(k'+Δ)² -/
def ia (a d t : K) : K := (1 : K) / (t - ((2 : K) * d))
def ib (a d t : K) : K := (1 : K) / (((2 : K) * a) + ((2 : K) * d))

def unpE (a d u up t M2 : K) : K :=
  let ia : K := ia a d t
  let ib : K := ib a d t
  %s
def unpMg (a d u up t M2 : K) : K :=
  let ia : K := ia a d t
  let ib : K := ib a d t
  %s
/-- unpolarised |T_BH|²/e⁶ -/
def unp (a d u up t M2 F1 F2 : K) : K :=
  let FE2 : K := (F1 ^ (2 : Nat)) - ((t * (F2 ^ (2 : Nat))) / ((4 : K) * M2))
  let FM2 : K := (F1 + F2) ^ (2 : Nat)
  ((FE2 * (unpE a d u up t M2)) + (FM2 * (unpMg a d u up t M2))) / (t ^ (2 : Nat))

%s
def polX (a d u up t M2 sk skp sD : K) : K :=
  let ia : K := ia a d t
  let ib : K := ib a d t
  %s
def polY (a d u up t M2 sk skp sD : K) : K :=
  let ia : K := ia a d t
  let ib : K := ib a d t
  %s
/-- coefficient of (beam helicity h) in |T_BH|²/e⁶ for target spin four-vector S (linear in S) -/
def pol (a d u up t M F1 F2 sk skp sD : K) : K :=
  let M2 : K := M ^ (2 : Nat)
  (((M * ((F1 + F2) ^ (2 : Nat))) * (polX a d u up t M2 sk skp sD)) +
    ((((F1 + F2) * F2) / M) * (polY a d u up t M2 sk skp sD))) / (t ^ (2 : Nat))

end BHRef
''' % (comb('unpE'), comb('unpMg'), spin_defs, combS('polX'), combS('polY'))
    text = hdr + '\n'.join(defs) + '\n' + tail
    path = out or os.path.join(VERIF, 'lean', 'Scalar', 'BHRef.lean.in')
    if not (os.path.exists(path) and open(path).read() == text):
        open(path, 'w').write(text)
    return nterms


if __name__ == '__main__':
    nt = main()
    print('pieces', len(nt), 'max terms', max(nt.values()), 'total terms', sum(nt.values()))

import gepard as g, numpy as np
gk=g.GoloskokovKrollCFF()
for f in ['Huval','Hdval','Hs','Hudsea','Euval','Edval','Esea','Htuval','Htdval','Etuval']:
    for (x,eta) in [(0.3,0.1),(0.05,0.1),(-0.05,0.1),(-0.3,0.1)]:
        try: print(f,x,eta, getattr(gk,f)(x,eta,-0.2,4.))
        except Exception as e: print(f,x,eta,'EXC',type(e).__name__,str(e)[:80])

import gepard as g, math
for FTn in [-3,-2,-1,0,1,2,3]:
    pt=g.DataPoint(xB=0.1,t=-0.2,Q2=4.,FTn=FTn,frame='Trento',val=0.5,err=0.1,observable='ALU',units={'ALU':'1'},newunits={},errtypes=['err'])
    pt.to_conventions(); v1=pt.val; pt.from_conventions(); print(FTn, v1, pt.val, pt.orig_conventions(v1))
# overdetermined / underdetermined
for kw in [dict(xB=0.1,Q2=4,W=3), dict(xB=0.1), dict(t=-0.1,tm=0.1,xB=.1,Q2=2), dict(W=3.,Q2=4.), dict(xB=0.1, W=3.)]:
    try:
        p=g.DataPoint(**kw); print(kw, {k:p[k] for k in ['xB','W','Q2','xi','t','tm'] if k in p})
    except Exception as e: print(kw,'EXC',type(e).__name__, e)
pt=g.DataPoint(xB=0.1,t=-0.2,Q2=4.,phi=30.,frame='Trento',val=5.,err=1.,observable='XS',units={'XS':'pb/GeV^4','phi':'deg'},newunits={},errtypes=['err'])
pt.to_conventions(); print(pt.phi, pt.val, pt.err); pt.from_conventions(); print(pt.phi,pt.val,pt.err)

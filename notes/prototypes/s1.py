import sympy as sp
xB,Q2,t,y,M,r=sp.symbols('xB Q2 t y M r',positive=True)
eps2=4*xB**2*M**2/Q2
nu=Q2/(2*M*xB); E=nu/y
cl=-(1+y*eps2/2)/r
E2=M-t/(2*M); p2sq=E2**2-M**2
p2cH=((t-Q2)/2-nu*(E2-M))/(nu*r)
sl2=1-cl**2
K2vec=E**2*sl2*(p2sq-p2cH**2)*y**2*(1+eps2)**2/Q2**2
tmin=-Q2*(2*(1-xB)*(1-r)+eps2)/(4*xB*(1-xB)+eps2)
brace=r+(4*xB*(1-xB)+eps2)/(4*(1-xB))*(t-tmin)/Q2
K2code=-(t/Q2)*(1-xB)*(1-y-y*y*eps2/4)*(1-tmin/t)*brace
d=sp.together(K2vec-K2code)
num,den=sp.fraction(d)
num=sp.expand(num)
# reduce modulo r^2 - (1+eps2)
rel=sp.expand((r**2-(1+eps2))*Q2)
q,rem=sp.div(sp.Poly(num,r),sp.Poly(rel,r))
print('remainder zero?', sp.simplify(rem.as_expr())==0)
print('num terms',len(num.as_ordered_terms()),'deg r',sp.Poly(num,r).degree())
Jc=(1-y-y*eps2/2)*(1+t/Q2)-(1-xB)*(2-y)*t/Q2
lhs=Q2+2*E*(E2-M)-2*E*cl*p2cH
rhs=-Q2*Jc/(y*(1+eps2))
dd=sp.together(lhs-rhs); n2,_=sp.fraction(dd); n2=sp.expand(n2)
q2,rem2=sp.div(sp.Poly(n2,r),sp.Poly(rel,r)); print('J identity rem', sp.simplify(rem2.as_expr()))

import gepard as g, traceback
ds=g.dset[52]
print(len(ds))
def tr(f):
    try:
        r=f(); print('ok', r if not isinstance(r,list) else len(r))
    except Exception as e:
        print('EXC', type(e).__name__, e)
tr(lambda: g.select(ds, criteria=['FTn == -1','xB > 0.05'], logic='OR'))
tr(lambda: g.select(ds, criteria=['xB > 5']))
tr(lambda: ds[5:5])
tr(lambda: ds[::-2])
tr(lambda: ds[-3:])
tr(lambda: g.DataSet([])+g.DataSet([]))
s=ds+g.dset[53]
print(len(s), hasattr(s,'id'), s.__dict__.keys())
s2=ds[2:5]; print(s2.__dict__.get('id'), s2.__dict__ is ds.__dict__)
# copy
pt=ds[0]; c=pt.copy(); c.xB=99; print(pt.xB); c.units['phi']='zzz' if 'phi' in c.units else None; print(pt.units)
tr(lambda: g.select(ds, criteria=[], logic='OR'))
tr(lambda: g.select(ds, criteria=[], logic='AND'))
tr(lambda: g.select(ds, criteria=['xB>0'], logic='XOR'))

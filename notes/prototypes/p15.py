import gepard as g, numpy as np, warnings
from scipy.integrate import quad
warnings.filterwarnings('ignore')
from gepard.fits import th_KM15, th_KM10b, th_KM09a
from gepard import kinematics as K
# flux identity: zero EFF, zero axial CFFs
class ConstCFF(g.CFF):
    def ReH(s,pt): return 3.0
    def ImH(s,pt): return 7.0
    def ReE(s,pt): return -2.0
    def ImE(s,pt): return 5.0
for fs in ['BMK','hotfixedBMK','BM10ex','BM10','BM10tw2']:
    th=type('T',(ConstCFF,g.ZeroEFF,getattr(g,fs)),{})()
    for (xB,Q2,t,E) in [(0.1,4.,-0.3,27.6),(0.36,2.3,-0.28,5.75),(0.001,8.,-0.2,None)]:
        d=dict(xB=xB,Q2=Q2,t=t,in1charge=-1,in1polarization=0,process='ep2epgamma',in2particle='p')
        if E: d.update(exptype='fixed target',in1energy=E)
        else: d.update(exptype='collider',in1energy=27.5,in2energy=920.)
        pt=g.DataPoint(**d)
        lhs=th.XSintphi(pt.copy())
        kin=pt.copy(); kin.prepare()
        rhs=K.HandFlux(kin)*th._XGAMMA_DVCS_t_Ex(kin)
        print(fs,xB,Q2,'XSintphi',lhs,'flux*sigma',rhs,'ratio',lhs/rhs)
# harmonics vs adaptive quad
th=th_KM15
for pt in [g.dset[52][6], g.dset[67][0], g.dset[68][0], g.dset[53][3]]:
    v=th.predict(pt)
    n=pt.FTn
    def f(phi):
        p=pt.copy(); del p['FTn']; p.phi=phi
        return th.predict(p)
    if n<0: ref=quad(lambda ph:f(ph)*np.sin(-n*ph),0,2*np.pi)[0]/np.pi
    elif n>0: ref=quad(lambda ph:f(ph)*np.cos(n*ph),0,2*np.pi)[0]/np.pi
    else: ref=quad(f,0,2*np.pi)[0]/(2*np.pi)
    print(pt.observable,n,v,ref)

import gepard as g, numpy as np, copy
from gepard.fits import th_KM15, th_KM09a, th_KM10b
pt=g.dset[52][6]
snap=dict(pt)
def diff(a,b):
    ks=set(a)|set(b)
    return {k:(a.get(k,'<missing>'),b.get(k,'<missing>')) for k in ks if (k not in a) or (k not in b) or not (a[k] is b[k] or a[k]==b[k])}
v=th_KM15.predict(pt); print('TSA',v, diff(snap,dict(pt)))
p2=g.dset[31][12]; s2=dict(p2)
print('XSintphi', th_KM15.XSintphi(p2), diff(s2,dict(p2)))
p3=g.DataPoint(xB=0.1,t=-0.2,Q2=4.,in1energy=27.6,in1charge=1,in1polarization=0,process='ep2epgamma',exptype='fixed target',in2particle='p'); s3=dict(p3)
print('XSintphi', th_KM15.XSintphi(p3), diff(s3,dict(p3)))
# predict parameters + exception
old=dict(th_KM15.parameters)
try: th_KM15.predict(pt, observable='nonsense', parameters={'C':99.})
except Exception as e: print('EXC',type(e).__name__)
print('param diff after failed predict', diff(old, dict(th_KM15.parameters)))
th_KM15.parameters.update(old)
try: th_KM15.predict(pt, parameters={'newpar':1.})
except Exception as e: print('EXC',type(e).__name__)
print('param diff after predict w/ new key', diff(old, dict(th_KM15.parameters)))
# XGAMMA total leaving t on exception / normally
p4=g.dset[47][0]; s4=dict(p4); print(s4.get('t'), 'tm' in s4)
print('XGAMMA', th_KM15.predict(p4), diff(s4,dict(p4)))
# repeated bit-identical and history independence
a=th_KM15.predict(pt); th_KM15.predict(g.dset[45][0]); b=th_KM15.predict(pt); print(a==b)

import sympy as sp, pickle, time
R=pickle.load(open('Rinv.pkl','rb'))
xB,m,t,y,r,F1,F2,kap=sp.symbols('xB m t y r F1 F2 kap')
Q2=4*xB**2*m; M2=(r**2-1)*m; eps2=r**2-1
tmin=-Q2*(2*(1-xB)*(1-r)+eps2)/(4*xB*(1-xB)+eps2)
brace=r+(4*xB*(1-xB)+eps2)/(4*(1-xB))*(t-tmin)/Q2
K2=-(t/Q2)*(1-xB)*(1-y-y*y*eps2/4)*(1-tmin/t)*brace
J=(1-y-y*eps2/2)*(1+t/Q2)-(1-xB)*(2-y)*t/Q2
P1=-(J+2*kap)/(y*(1+eps2)); P2=1+t/Q2-P1
kD=Q2*(P1-1)/2
kkp=Q2/2; kpD=kD-(t-Q2)/2
p1k=Q2/(2*xB*y); p1q=Q2/(2*xB); p1kp=p1k-p1q
Pk=2*p1k+kD; Pkp=2*p1kp+kpD
sub={'d_k_kp':kkp,'d_D_k':kD,'d_D_kp':kpD,'d_D_D':t,'d_P_P':4*M2-t,'d_P_k':Pk,'d_P_kp':Pkp,
 'd_A_A':t-2*kD,'d_B_B':2*kD+Q2,'d_A_k':-kD,'d_A_kp':kkp-kpD,'d_A_D':kD-t,'d_A_P':Pk,'d_A_B':kkp+kD-kpD-t,
 'd_B_k':kkp+kD,'d_B_kp':kpD,'d_B_D':kpD+t,'d_B_P':Pkp,'ia':1/(t-2*kD),'ib':1/(2*kD+Q2)}
Rs=R.subs({sp.Symbol(k):v for k,v in sub.items()}).subs({sp.Symbol('t'):t,sp.Symbol('F1'):F1,sp.Symbol('F2'):F2})
Msym=sp.Symbol('M'); Rs=Rs.subs(Msym**2,M2)
assert Msym not in Rs.free_symbols, Rs.free_symbols
# code
FE2=F1**2-t*F2**2/(4*M2); FM2=(F1+F2)**2
b1=(2+3*eps2)*(Q2/t)*FE2+2*xB**2*FM2
b2=((2+eps2)*((4*xB**2*M2/t)*(1+t/Q2)**2+4*(1-xB)*(1+xB*t/Q2))*FE2+4*xB**2*(xB+(1-xB+eps2/2)*(1-t/Q2)**2-xB*(1-2*xB)*t**2/Q2**2)*FM2)
b3=2*eps2*(1-t/(4*M2))*FE2-xB**2*(1-t/Q2)**2*FM2
c0=8*K2*b1+(2-y)**2*b2+8*(1+eps2)*(1-y-eps2*y**2/4)*b3
c1k=8*kap*(2-y)*((4*xB**2*M2/t-2*xB-eps2)*FE2+2*xB**2*(1-(1-2*xB)*t/Q2)*FM2)
c2k=8*xB**2*(4*M2/t*FE2+2*FM2)*(2*kap**2-K2)
code=(c0+c1k+c2k)/(xB**2*y**2*(1+eps2)**2*t*P1*P2)
t0=time.time()
d=sp.together(Rs-code); num,den=sp.fraction(d); num=sp.expand(num)
print('zero?', num==0, 'time',time.time()-t0)
n1,_=sp.fraction(sp.together(Rs)); n2,_=sp.fraction(sp.together(code))
print('numerator sizes', len(sp.expand(n1).as_ordered_terms()), len(sp.expand(n2).as_ordered_terms()))

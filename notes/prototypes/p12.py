import gepard as g, numpy as np, warnings
from gepard import adim, evolution, qcd, special, c1dvcs
warnings.filterwarnings('ignore')
np.set_printoptions(precision=6, linewidth=150)
# C03 sum rules
for nf in [3,4,5]:
    lo=adim.singlet_LO(2+0j,nf); nlo=adim.singlet_NLO(2+0j,nf)
    print('nf',nf,'LO col sums',lo.sum(axis=0),'NLO col sums',nlo.sum(axis=0), 'NS-(1) LO',adim.non_singlet_LO(1+0j,nf),'NLO',adim.non_singlet_NLO(1+0j,nf,-1))
# affinity in nf
n=1.7+2.3j
a=[adim.singlet_NLO(n,nf) for nf in (2,3,4)]
print('affine', np.abs(a[0]-2*a[1]+a[2]).max())
# reflection
print('reflection', np.abs(adim.singlet_NLO(np.conj(n),4)-np.conj(adim.singlet_NLO(n,4))).max())
# C02: projectors
class T(g.PWNormGPD, g.MellinBarnesCFF, g.DIS): pass
for p in [0,1]:
  for scheme in ['msbar','csbar']:
    th=T(p=p,scheme=scheme)
    j=th.jpoints
    gam0=adim.singlet_LO(j+1,th.nf).transpose((2,0,1))
    lam,pr=evolution.projectors(gam0)
    P,Mn=pr[:,0],pr[:,1]
    I=np.eye(2)
    print(p,scheme,'complete',np.abs(P+Mn-I).max(),'idem',np.abs(P@P-P).max(),'orth',np.abs(P@Mn).max(),'recon',np.abs(lam[0][:,None,None]*P+lam[1][:,None,None]*Mn-gam0).max())
    E=evolution.evolop(th,j,th.Q02,'DVCS'); print('  identity at Q0', np.abs(E[:,0]-I).max(), np.abs(E[:,1]).max())
    jj=np.array([1.0+0j, 1.0+0j])
    E=evolution.evolop(th,jj,30.,'DIS'); 
    print('  momentum LO', (np.ones(2)@E[0,0]), ' NLO', (np.ones(2)@E[0,1]))
    Ens=evolution.evolopns(th,np.array([0j,0j]),30.,'DIS'); print('  NS j=0', Ens[0])

import gepard as g, numpy as np, warnings
warnings.filterwarnings('ignore')
from gepard import special as sp, qcd
from scipy.special import polygamma, gamma
# C16 quick: recurrence and integer values, conj
z=np.array([0.3+0.2j, 5.5+9.99j, 5.5+10.01j, 9.99+3j, 10.01+3j, -0.5+100j, 30-400j])
for k,S in enumerate([sp.S1,sp.S2,sp.S3,sp.S4],1):
    print(k, np.abs(S(z)-S(z-1)-z**(-k)).max(), np.abs(S(np.conj(z))-np.conj(S(z))).max(), abs(S(np.array([7.+0j]))[()] if False else abs(S(7+0j)-sum(1/n**k for n in range(1,8)))))
print('poch', abs(sp.pochhammer(1.3+2j,5)-gamma(6.3+2j)/gamma(1.3+2j)))
# C15
for p in [0,1]:
    for nf in [3,4,5]:
        a1=qcd.as2pf(p,nf,100.,0.05,2.5); a2=qcd.as2pf(p,nf,100.,qcd.as2pf(p,nf,10.,0.05,2.5),10.)
        print(p,nf,a1,a2,abs(a1/a2-1), qcd.as2pf(p,nf,2.5,0.05,2.5))

import numpy as np, gepard as gp, re, warnings
warnings.filterwarnings('ignore')
from bhref import TBH2, momenta, dot
Rtxt=open('Rinv.txt').read()
class Th(gp.CFF, gp.KellyEFF, gp.BMK): pass
th=Th(); rng=np.random.default_rng(5)
M=gp.constants.Mp
n=0
while n<5:
    xB=rng.uniform(0.05,0.5); Q2=rng.uniform(1.5,8); E=rng.uniform(5,30); phi=rng.uniform(0,2*np.pi)
    y=Q2/(2*M*xB*E)
    if y>0.9: continue
    eps2=4*xB**2*M**2/Q2
    tmin=gp.tmin(Q2,xB,eps2); tmax=gp.tmax(Q2,xB,eps2); t=rng.uniform(max(tmax,-1.5),tmin)
    pt=gp.DataPoint(xB=xB,Q2=Q2,t=t,phi=phi,in1energy=E,in1charge=-1,in1polarization=0,process='ep2epgamma',exptype='fixed target',in2particle='p')
    kin=pt.copy(); kin.prepare()
    if not kin.K2>0: continue
    n+=1
    F1,F2=th.F1(kin),th.F2(kin)
    k,q,p1,p2=momenta(xB,Q2,t,phi,kin.y); D=p2-p1; kp=k-q; P=p1+p2; A=k-D; B=kp+D
    vec=dict(k=k,kp=kp,D=D,P=P,A=A,B=B)
    env=dict(F1=F1,F2=F2,M=M,t=t,ia=1/dot(A,A),ib=1/dot(B,B))
    for a in vec:
        for b in vec:
            if a<=b: env[f'd_{a}_{b}']=dot(vec[a],vec[b])
    Rv=eval(Rtxt,{},env)
    print(f"code={th.TBH2unp(kin):.10g} matrices={TBH2(xB,Q2,t,phi,kin.y,F1,F2):.10g} invariant={Rv:.10g}")

import gepard as g, numpy as np, copy
from gepard.fits import th_KM15, th_KM09a
class T(g.PWNormGPD, g.MellinBarnesCFF, g.DIS): pass
th=T()
f=g.MinuitFitter(g.dset[201][:5], th)
def st():
    fr_t=th.free_parameters()
    fr_m=[n for n in f.minuit.parameters if not f.minuit.fixed[n]]
    return fr_t==fr_m, fr_t, fr_m
print(st())
f.release_parameters('ns','al0s'); print(st())
try: f.release_parameters('al0g','bogus')
except Exception as e: print('EXC',type(e).__name__,e)
print(st())
try: f.fix_parameters('ns','bogus')
except Exception as e: print('EXC',type(e).__name__,e)
print(st())
try: f.limit_parameters({'ns':(0,1),'bogus':(0,1)})
except Exception as e: print('EXC',type(e).__name__,e)
print(th.parameters_limits, {k:v for k,v in zip(f.minuit.parameters,f.minuit.limits) if v!=(-np.inf,np.inf)})
print('free_parameters()->', f.free_parameters())
f.fix_parameters('ALL'); print(st())

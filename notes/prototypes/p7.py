import gepard as g, numpy as np
from scipy.special import beta as B, gamma
def pdf_test(x, n, al0, bpow):  # moments: n * poch(2-al0, b)/poch(1-al0+j, b) ; j=n-1 Mellin: int x^j q(x) => q(x)= n * B-normalized x^-al0 (1-x)^(b-1)
    # int_0^1 x^{j} x^{-al0}(1-x)^{b-1} = B(1-al0+j, b) = Gamma(1-al0+j)Gamma(b)/Gamma(1-al0+j+b); poch(1-al0+j,b)=Gamma(1-al0+j+b)/Gamma(1-al0+j)
    # so 1/poch = B/Gamma(b)
    from scipy.special import poch
    return n*poch(2-al0,bpow)/gamma(bpow) * x**(-al0)*(1-x)**(bpow-1)
for p in [0,1]:
  for scheme in ['msbar','csbar']:
    class T(g.PWNormGPD, g.MellinBarnesCFF, g.DIS): pass
    th=T(p=p, scheme=scheme)
    th.parameters.update({'ns':0.15,'al0s':1.1,'al0g':1.2})
    for x in [1e-3,0.01,0.1]:
        pt=g.DataPoint(x=x, eta=0, t=0, Q2=th.Q02)
        hx=th.Hx(pt)
        ns=th.parameters['ns']; ng=0.6-ns
        # qj: norm*poch(2-al0,9)/poch(1-al0+j,9)*(1+j-al0)/(1+j-alpt) ; t=0 -> last factor 1
        print(p,scheme,x, hx, pdf_test(x,ns,1.1,9), pdf_test(x,ng,1.2,7)*x)

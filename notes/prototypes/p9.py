import numpy as np, gepard as gp
from bhref import TBH2, momenta, dot
class Th(gp.CFF, gp.KellyEFF, gp.BMK): pass
th=Th()
rng=np.random.default_rng(1)
for i in range(6):
    xB=rng.uniform(0.05,0.5); Q2=rng.uniform(1.5,8); E=rng.uniform(5,30); phi=rng.uniform(0,2*np.pi)
    pt=gp.DataPoint(xB=xB,Q2=Q2,t=-0.3,phi=phi,in1energy=E,in1charge=-1,in1polarization=0,process='ep2epgamma',exptype='fixed target',in2particle='p')
    kin=pt.copy(); kin.prepare()
    if not (kin.y<0.95): continue
    tmin=gp.tmin(Q2,xB,kin.eps2); tmax=gp.tmax(Q2,xB,kin.eps2)
    t=rng.uniform(max(tmax,-1.5),tmin)
    pt=gp.DataPoint(xB=xB,Q2=Q2,t=t,phi=phi,in1energy=E,in1charge=-1,in1polarization=0,process='ep2epgamma',exptype='fixed target',in2particle='p')
    kin=pt.copy(); kin.prepare()
    F1,F2=th.F1(kin),th.F2(kin)
    ref=TBH2(kin.xB,kin.Q2,kin.t,kin.phi,kin.y,F1,F2)
    k,q,p1,p2=momenta(kin.xB,kin.Q2,kin.t,kin.phi,kin.y); D=p2-p1
    P1=(Q2+2*dot(k,D))/Q2; P2=(-2*dot(k,D)+t)/Q2
    print(f"y={kin.y:.3f} t={t:.3f} code={th.TBH2unp(kin):.8g} ref={ref:.8g} ratio={th.TBH2unp(kin)/ref:.10f}  P1P2 {kin.P1P2:.8g} {P1*P2:.8g}")

import gepard as g, numpy as np, warnings
warnings.filterwarnings('ignore')
class T(g.PWNormGPD, g.MellinBarnesCFF, g.DIS): pass
th=T(p=0)
th.parameters.update({'ns':0.0,'al0s':1.1,'al0g':1.2})
for Q2 in [4.,40.]:
    for x in [1e-3,0.01,0.1]:
        pt=g.DataPoint(x=x,eta=0,t=0,Q2=Q2); print('gluon-only',Q2,x,th.Hx(pt))
th.parameters.update({'ns':0.15})
# momentum fractions via integrating x-space:  int x*q(x) + int x g(x) ; Hx[1] is x g(x)
from scipy.integrate import quad
def mom(Q2):
    fq=lambda x: x*th.Hx(g.DataPoint(x=x,eta=0,t=0,Q2=Q2))[0]
    fg=lambda x: th.Hx(g.DataPoint(x=x,eta=0,t=0,Q2=Q2))[1]
    a=quad(fq,1e-6,0.999,limit=200)[0]; b=quad(fg,1e-6,0.999,limit=200)[0]
    return a,b
for Q2 in [4.,40.]:
    print('momentum q,g,sum',Q2,mom(Q2))
# LO handbag: ImH vs pi*qs*Hx(xi,xi)
for Q2 in [4.,40.]:
    pt=g.DataPoint(xB=0.01,t=-0.2,Q2=Q2); px=g.DataPoint(x=pt.xi,eta=pt.xi,t=-0.2,Q2=Q2)
    print('handbag',Q2, th.ImH(pt), np.pi*5/18*th.Hx(px)[0], th.Hx(px))

import gepard as g, numpy as np, warnings
warnings.filterwarnings('ignore')
class T(g.PWNormGPD, g.MellinBarnesCFF, g.DIS): pass
th=T(p=0)
th.parameters.update({'ns':0.15,'al0s':1.0,'al0g':1.1})
pts=g.dset[201][:8]
f=g.MinuitFitter(pts, th)
before=dict(th.parameters); c0=th.chisq(pts)
f.release_parameters('ns','al0s')
f.limit_parameters({'ns':(0.05,0.3)})
f.fit()
m=f.minuit
print('valid',m.valid,'fval',m.fval,'chisq(th)',th.chisq(pts),'start',c0)
for k in ['ns','al0s','al0g','ng']:
    print(k, th.parameters[k], m.values[k], th.parameters[k]==m.values[k], before[k])
print('errors equal', th.parameters_errors==m.errors.to_dict())
print('cov', th.covariance[('ns','al0s')], m.covariance['ns','al0s'])
chg={k:(before[k],v) for k,v in th.parameters.items() if before[k]!=v}; print('changed',chg)

import gepard as g, itertools, numpy as np, collections, warnings
warnings.filterwarnings('ignore')
bases=[g.PWNormGPD, g.MellinBarnesCFF, g.KellyEFF, g.BM10tw2, g.MellinBarnesTFF, g.DVMP, g.DIS]
pt=g.dset[31][12]; ptd=g.dset[201][0]; ptm=[p for p in g.dset[76]][0] if 76 in g.dset else None
print(ptm.observable if ptm else None, getattr(ptm,'process',None))
res=collections.Counter(); vals=collections.defaultdict(set); errs=collections.Counter()
for perm in itertools.permutations(bases):
    try:
        cls=type('T',perm,{})
    except TypeError as e:
        res['mro-fail']+=1; continue
    try:
        th=cls()
    except Exception as e:
        res['init-fail']+=1; errs[type(e).__name__+':'+str(e)[:60]]+=1; continue
    try:
        v=(round(th.predict(pt),12), round(th.DISF2(ptd),12), round(th.predict(ptm),12) if ptm else None, th.nf)
        vals[v].add(tuple(c.__name__ for c in perm)); res['ok']+=1
    except Exception as e:
        res['predict-fail']+=1; errs['P:'+type(e).__name__+':'+str(e)[:60]]+=1
print(res); print(errs)
for v,s in vals.items(): print(v,len(s), sorted(s)[0])

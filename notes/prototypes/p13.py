import gepard as g, numpy as np, warnings, itertools
warnings.filterwarnings('ignore')
class ConstCFF(g.CFF):
    vals={}
    def ReH(s,pt): return s.vals['ReH']
    def ImH(s,pt): return s.vals['ImH']
    def ReE(s,pt): return s.vals['ReE']
    def ImE(s,pt): return s.vals['ImE']
    def ReHt(s,pt): return s.vals['ReHt']
    def ImHt(s,pt): return s.vals['ImHt']
    def ReEt(s,pt): return s.vals['ReEt']
    def ImEt(s,pt): return s.vals['ImEt']
class ConstEFF:
    f1=0.7; f2=1.1
    def F1(s,pt): return s.f1
    def F2(s,pt): return s.f2
sets={n:type(n,(ConstCFF,ConstEFF,getattr(g,n)),{})() for n in ['BMK','hotfixedBMK','BM10ex','BM10','BM10tw2']}
rng=np.random.default_rng(3)
names=['ReH','ImH','ReE','ImE','ReHt','ImHt','ReEt','ImEt']
def mkpt(xB,t,y,phi,Q2,hel=1,chg=-1,pol=None):
    E=Q2/(2*g.constants.Mp*xB*y)
    d=dict(xB=xB,t=t,Q2=Q2,phi=phi,in1energy=E,in1charge=chg,in1polarization=hel,process='ep2epgamma',exptype='fixed target',in2particle='p')
    if pol: d.update(in2polarizationvector=pol,in2polarization=1)
    return g.DataPoint(**d)
print('--- C06 Bjorken limit: rel diff of TINTunp & TDVCS2unp between sets, scaled by Q2')
for trial in range(3):
    vals={n:rng.uniform(-20,20) for n in names}; ConstCFF.vals=vals
    xB=rng.uniform(0.05,0.5); t=-rng.uniform(0.1,0.8); y=rng.uniform(0.1,0.8); phi=rng.uniform(0,6.28)
    for Q2 in [1e3,1e4,1e5]:
        kin=mkpt(xB,t,y,phi,Q2); kin.prepare()
        ref={k:(sets['BM10ex'].TINTunp(kin), sets['BM10ex'].TDVCS2unp(kin))}if False else None
        r=[(sets[n].TINTunp(kin), sets[n].TDVCS2unp(kin)) for n in sets]
        print(Q2, ['%.3g/%.3g'%((a/r[2][0]-1)*Q2,(b/r[2][1]-1)*Q2) for a,b in r])
print('--- C07: phi reflection & real CFF')
for n,th in sets.items():
    vals={k:rng.uniform(-20,20) for k in names}; ConstCFF.vals=vals
    pt=mkpt(0.2,-0.3,0.5,1.1,3.0); pm=mkpt(0.2,-0.3,0.5,2*np.pi-1.1,3.0)
    xuu=(th._XUU(pt),th._XUU(pm)); xlu=(th._XLU(pt),th._XLU(pm))
    out=[n,'XUU even %.2e'%(xuu[0]/xuu[1]-1),'XLU odd %.2e'%(xlu[0]/xlu[1]+1)]
    if n.startswith('BM10'):
        ptl=mkpt(0.2,-0.3,0.5,1.1,3.0,pol='L'); pml=mkpt(0.2,-0.3,0.5,2*np.pi-1.1,3.0,pol='L')
        ptl0=mkpt(0.2,-0.3,0.5,1.1,3.0,hel=0,pol='L'); pml0=mkpt(0.2,-0.3,0.5,2*np.pi-1.1,3.0,hel=0,pol='L')
        out+= ['XUL(hel0) odd %.2e'%(th.XUL(ptl0)/th.XUL(pml0)+1), 'BTSA even %.2e'%(th._BTSA(ptl)/th._BTSA(pml)-1)]
    ConstCFF.vals={k:(v if k.startswith('Re') else 0.) for k,v in vals.items()}
    out+=['realCFF XLU %.2e'%th._XLU(pt)]
    ConstCFF.vals={k:0. for k in names}
    out+=['BH: AC %.2e ALU %.2e'%(th._AC(pt), th._ALU(pt))]
    print(*out)

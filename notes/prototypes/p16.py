import gepard as g, numpy as np, warnings
from scipy.integrate import quad
warnings.filterwarnings('ignore')
from gepard.fits import th_KM09a, th_KM09b, th_KM15
gk=g.GoloskokovKrollCFF()
def pvV(th,imf,pt):
    xi=pt.xi
    f=lambda x: 2*x/(xi+x)*imf(pt,x)   # weight 1/(xi-x) handled by cauchy: int f(x)/(x - xi) => careful sign
    # (1/pi) PV int 2x/(xi^2-x^2) Im = (1/pi) PV int [2x/(xi+x)] Im /(xi - x) = -(1/pi) PV int g(x)/(x-xi)
    a=quad(lambda x: 2*x/(xi+x)*imf(pt,x),1e-12,1,weight='cauchy',wvar=xi,limit=400)[0]
    return -a/np.pi
def pvA(th,imf,pt):
    xi=pt.xi
    a=quad(lambda x: 2*xi/(xi+x)*imf(pt,x),1e-12,1,weight='cauchy',wvar=xi,limit=400)[0]
    return -a/np.pi
for th,name in [(th_KM09b,'KM09b'),(th_KM15,'KM15')]:
    for xB in [0.002,0.05,0.2,0.5]:
        pt=g.DataPoint(xB=xB,t=-0.3,Q2=4.)
        D=g.DispersionFixedPoleCFF
        imH=lambda p,x: D.ImH(th,p,x); imHt=lambda p,x: D.ImHt(th,p,x)
        reH=D.ReH(th,pt,imfun=D.ImH) if name=='KM15' else th.ReH(pt)
        reHt=D.ReHt(th,pt,imfun=D.ImHt) if name=='KM15' else th.ReHt(pt)
        print(name,xB,'ReH',reH, pvV(th,imH,pt)-th.subtraction(pt),' ReHt',reHt,pvA(th,imHt,pt))

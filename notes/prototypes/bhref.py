"""Independent numerical Bethe-Heitler |T|^2/e^6 from Dirac traces (target rest frame, BMK conventions)."""
import numpy as np
M = 0.938272013
g = np.diag([1.,-1.,-1.,-1.])
I2 = np.eye(2); Z2 = np.zeros((2,2))
sx = np.array([[0,1],[1,0]],dtype=complex); sy=np.array([[0,-1j],[1j,0]]); sz=np.array([[1,0],[0,-1]],dtype=complex)
g0 = np.block([[I2,Z2],[Z2,-I2]]).astype(complex)
def gi(s): return np.block([[Z2,s],[-s,Z2]])
G = [g0, gi(sx), gi(sy), gi(sz)]            # gamma^mu (upper index), Dirac rep
g5 = 1j*G[0]@G[1]@G[2]@G[3]
def slash(p): return sum(g[m,m]*p[m]*G[m] for m in range(4))
def dot(a,b): return a[0]*b[0]-a[1]*b[1]-a[2]*b[2]-a[3]*b[3]
def sigma(m,n): return 0.5j*(G[m]@G[n]-G[n]@G[m])
def bar(A): return G[0]@A.conj().T@G[0]

def momenta(xB,Q2,t,phi,y):
    eps2 = 4*xB**2*M**2/Q2
    nu = Q2/(2*M*xB); E = nu/y
    qv = nu*np.sqrt(1+eps2)
    q = np.array([nu,0,0,-qv])
    cl = -(1+y*eps2/2)/np.sqrt(1+eps2); sl = np.sqrt(max(0.,1-cl*cl))
    k = np.array([E,E*sl,0,E*cl])
    E2 = M - t/(2*M); p2m = np.sqrt(E2**2-M**2)
    # q.Delta = (t-Q2)/2 ... careful: q2^2 = (q-Delta)^2 = -Q2 -2 q.Delta + t = 0
    qD = (t-Q2)/2
    cH = (qD - nu*(E2-M))/(qv*p2m)
    sH = np.sqrt(max(0.,1-cH*cH))
    p1 = np.array([M,0,0,0.])
    p2 = np.array([E2,p2m*sH*np.cos(phi),p2m*sH*np.sin(phi),p2m*cH])
    return k,q,p1,p2

def TBH2(xB,Q2,t,phi,y,F1,F2,lam=0.,S=None):
    """sum over final spins, given beam helicity lam and target spin 4-vector S (or None). Returns |T_BH|^2/e^6."""
    k,q,p1,p2 = momenta(xB,Q2,t,phi,y)
    D = p2-p1; kp = k-q; q2 = q-D
    # lepton tensor operator O^{mu nu}: photon index mu (real photon), nu couples to proton current
    a = slash(k-D); b = slash(kp+D)
    da = dot(k-D,k-D); db = dot(kp+D,kp+D)
    O = [[G[m]@a@G[n]/da + G[n]@b@G[m]/db for n in range(4)] for m in range(4)]
    rho_l = slash(k)@(np.eye(4)+lam*g5)/2      # massless, helicity lam (sign convention!)
    Gam = [F1*G[n] + (1j*F2/(2*M))*sum(g[r,r]*D[r]*sigma(n,r) for r in range(4)) for n in range(4)]
    rho_p = (slash(p1)+M*np.eye(4))
    if S is not None:
        rho_p = rho_p@(np.eye(4)+g5@slash(S))
    # note: initial proton spin average factor: 1/2 when unpolarized; with (1+g5 S)/2 projector when polarised: both give /2
    rho_p = rho_p/2
    if True:
        tot = 0
        for m in range(4):
            for n in range(4):
                for s in range(4):
                    L = np.trace(slash(kp)@O[m][n]@rho_l@bar(O[m][s]))   # mu=rho contracted with -g
                    H = np.trace((slash(p2)+M*np.eye(4))@Gam[n]@rho_p@bar(Gam[s]))
                    tot += -g[m,m]*g[n,n]*g[s,s]*L*H
    # lepton spin: for lam=0 we need average over initial helicities: rho_l = kslash/2 -> done by (1+0)/2
    return (tot/t**2).real

if __name__=='__main__':
    import gepard as gp
    class Th(gp.CFF, gp.KellyEFF, gp.BMK): pass
    th=Th()
    pt=gp.DataPoint(xB=0.2,t=-0.3,Q2=2.5,phi=1.0,in1energy=6.,in1charge=-1,in1polarization=0,process='ep2epgamma',exptype='fixed target',in2particle='p')
    kin=pt.copy(); kin.prepare()
    F1,F2=th.F1(kin),th.F2(kin)
    print(th.TBH2unp(kin), TBH2(kin.xB,kin.Q2,kin.t,kin.phi,kin.y,F1,F2))

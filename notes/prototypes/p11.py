import gepard as g, itertools, numpy as np, collections, warnings
from gepard import fits
warnings.filterwarnings('ignore')
pts={'a':g.dset[31][12], 'b':g.dset[45][0], 'c':g.dset[52][6]}
for name in ['KM09','KM10','KM10b','AFKM12','KM15']:
    C=getattr(fits,name); bases=C.__bases__
    th0={'KM09':fits.th_KM09a,'KM10':fits.th_KM10,'KM10b':fits.th_KM10b,'AFKM12':fits.th_AFKM12,'KM15':fits.th_KM15}[name]
    res=collections.Counter(); vals=collections.defaultdict(list); errs=collections.Counter()
    for perm in itertools.permutations(bases):
        try: cls=type('T',perm,dict(E=C.__dict__['E']) if 'E' in C.__dict__ else {})
        except TypeError as e: res['mro-fail']+=1; continue
        try:
            th=cls(residualt='exp') if name=='AFKM12' else cls()
        except Exception as e:
            res['init-fail']+=1; errs[type(e).__name__+':'+str(e)[:50]]+=1; continue
        th.parameters.update(th0.parameters)
        v=[]
        for k,pt in pts.items():
            try: v.append(round(float(th.predict(pt)),11))
            except Exception as e: v.append(type(e).__name__)
        vals[tuple(v)].append(tuple(c.__name__ for c in perm)); res['ok']+=1
    print(name, dict(res), dict(errs))
    for v,s in vals.items(): print('   ',v,len(s),s[0])

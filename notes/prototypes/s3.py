import sympy as sp, numpy as np, pickle
from functools import lru_cache
def dot(a,b):
    a,b=sorted([a,b]); return sp.Symbol(f'd_{a}_{b}')
@lru_cache(None)
def tr(vs):
    n=len(vs)
    if n==0: return sp.Integer(4)
    if n%2: return sp.Integer(0)
    a=vs[0]; res=0
    for i in range(1,n):
        res+= (-1)**(i-1)*dot(a,vs[i])*tr(vs[1:i]+vs[i+1:])
    return sp.expand(res)
ia,ib=sp.symbols('ia ib')
def Lxy(X,Y):
    AA=-2*tr(('kp','A',X,'k',Y,'A'))
    BB=-2*tr(('kp',X,'B','k','B',Y))
    AB=-2*tr(('kp','k',X,'A','B',Y))
    BA=-2*tr(('kp',X,'B','A',Y,'k'))
    return -sp.Rational(1,2)*(AA*ia*ia+BB*ib*ib+(AB+BA)*ia*ib)
def Lg():
    AA=4*tr(('kp','A','k','A')); BB=4*tr(('kp','B','k','B'))
    AB=-32*dot('A','B')*dot('k','kp'); BA=AB
    return -sp.Rational(1,2)*(AA*ia*ia+BB*ib*ib+(AB+BA)*ia*ib)
t,F1,F2,M=sp.symbols('t F1 F2 M')
G=F1+F2
R=( G**2*(t*Lg()-Lxy('D','D')) + (F1**2-t*F2**2/(4*M**2))*Lxy('P','P') )/t**2
R=sp.expand(R)
pickle.dump(R,open('Rinv.pkl','wb'))
print(len(R.as_ordered_terms()),'terms'); print(sorted(str(s) for s in R.free_symbols))

import gepard as g
n=0;both=0;both2=0
for i,ds in g.dset.items():
    for pt in ds:
        n+=1
        if 'varphi' in pt and 'varFTn' in pt: both+=1
        if 'phi' in pt and 'FTn' in pt: both2+=1
print('bundled points', n,'varphi&varFTn', both,'phi&FTn', both2)
txt='''
y1name = AUT
y1unit = 1
y1value = column3
y1error = column4
frame = Trento
in1particle = e-
in2polarizationvector = T
x1name = varphi
x1unit = rad
x1value = column1
x2name = xB
x2unit = 1
x2value = column2
x3name = Q2
x3unit = GeV^2
x3value = 2.0
x4name = t
x4unit = GeV^2
x4value = -0.2
 1.0 0.1 0.5 0.1
'''
ds=g.DataSet(datafile=txt)
pt=ds[0]
print('varphi' in pt, pt.get('varFTn'), pt.val)
pt.to_conventions()
print('after to', pt.val, pt.varphi, 'orig_conventions(val)=', pt.orig_conventions(pt.val))
pt.from_conventions(); print('after from', pt.val, pt.varphi)

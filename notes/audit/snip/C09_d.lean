import Props.C09
open Gep.R Gep.R.C09

/-- general form (all 32 presence patterns), which Props/C09 only states for 2 patterns -/
theorem combine_err_sq_general (val : ℝ) (e : ErrIn) (h : e.total = none) :
    (combine val e).err ^ 2 =
      (e.stat.elim 0 (· ^ 2)) + (e.statPM.elim 0 (fun pm => max (pm.1 ^ 2) (pm.2 ^ 2))) +
      (e.syst.elim 0 (· ^ 2)) + (e.systPM.elim 0 (fun pm => max (pm.1 ^ 2) (pm.2 ^ 2))) +
      (e.norm.elim 0 (fun n => (n * val) ^ 2)) := by
  obtain ⟨tot, st, spm, sy, ypm, n⟩ := e
  simp only at h; subst h
  rcases st with _ | st <;> rcases spm with _ | ⟨sp, sm⟩ <;> rcases sy with _ | sy <;>
    rcases ypm with _ | ⟨yp, ym⟩ <;> rcases n with _ | n <;>
    simp only [combine, variances, ksqrt, kmax_eq, Option.elim] <;>
    (rw [Real.sq_sqrt (by positivity)]) <;> simp <;> ring

-- the preamble-line behaviour that has no theorem: concrete check only
open Gep.DF in
example : (parseLine ⟨[("a","1")], []⟩ "  y1unit =  nb/GeV^4  # c".toList).desc = [("a","1"),("y1unit","nb/GeV^4")] := by decide
-- a line with two '=' keeps only the second field (Python: desctpl[1]); value 'b', rest dropped
open Gep.DF in
example : (parseLine ⟨[], []⟩ "k = b = c".toList).desc = [("k","b")] := by decide

import Props.C02
open Gep Gep.R Gep.R.Evol Gep.R.C02
#print axioms Gep.R.C02.rg_NLO
#print axioms Gep.R.C02.rg_NLO_ns
#print axioms Gep.R.C02.rg_LO
#print axioms Gep.R.C02.momentum_evolop
#print axioms Gep.R.C02.projectors_spectral
#print axioms Gep.R.C02.evolop_identity
#print axioms Gep.R.C02.evolopLO_compose
#print axioms Gep.R.C02.csqrt_sq
#print axioms Gep.R.C02.gEx_hyps

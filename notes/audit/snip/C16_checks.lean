import Props.C16
open Gep Gep.R Gep.R.C16

#print axioms dpsi_shift_exact
#print axioms dpsi_unfold
#print axioms S2_recurrence
#print axioms pochhammer_gamma
#print axioms Sk_nat_sum_partial
#print axioms S2_zero_value
#print axioms MellinF2_moments
#print axioms dpsi_conj_partial
#print axioms arrays_are_maps

-- (a) running out of fuel is reported, not silently turned into a value
example : dpsiOne 0 ⟨1, 0⟩ 1 = .fuel := by
  simp [dpsiOne, shiftLoop]
example : dpsiOne 1 ⟨1, 0⟩ 1 = .fuel := by
  simp [dpsiOne, shiftLoop, cone]
  norm_num
example : dpsiOne 5 ⟨0, 0⟩ 1 = .zeroDivision := by
  simp [dpsiOne, shiftLoop]

-- (b) S1_recurrence is its hypothesis PsiRec read backwards: the converse holds
example (E : Ext)
    (h : ∀ z : Cx ℝ, (∀ k : ℕ, toC z ≠ -(k : ℂ)) → toC (S1 E z) - toC (S1 E (z - cone)) = 1 / toC z) :
    PsiRec E := by
  intro w hw
  have := h w hw
  unfold S1 at this
  rw [Cx.sub_add_cone, toC_add, toC_add] at this
  linear_combination this

-- (c) PsiConj is satisfiable (no example in the file); S1_conj is PsiConj shifted by one
example : ∃ E : Ext, PsiConj E := ⟨⟨fun w => w, 0, 0, 0, 0, 0⟩, fun _ => rfl⟩

-- (d) the hypotheses S_k(0) = 0 of Sk_nat_sum_partial are satisfiable -- but only by FED constants
--     chosen to make them true (zeta_k := the rational number the algorithm produces)
theorem real_val (f m : ℕ) (v : Cx ℝ) (h : dpsiOne f (cxNat 1) m = .ok v) : v.im = 0 := by
  have hc : Cx.conj (cxNat 1) = cxNat 1 := by apply Cx.ext' <;> simp
  have h2 := dpsiOne_conj f m (cxNat 1) (Or.inl ⟨by simp, by simp⟩)
  rw [hc, h] at h2
  simp only [Res.map_ok, Res.ok.injEq] at h2
  have h3 := congrArg Cx.im h2
  simp at h3
  linarith

example : ∃ E : Ext, S2 E 10 (cxNat 0) = .ok czero ∧ S3 E 10 (cxNat 0) = .ok czero ∧
    S4 E 10 (cxNat 0) = .ok czero := by
  obtain ⟨v1, h1⟩ := dpsiOne_ok 10 1 (cxNat 1) (by simp) (cxNat_noPole 1 le_rfl)
  obtain ⟨v2, h2⟩ := dpsiOne_ok 10 2 (cxNat 1) (by simp) (cxNat_noPole 1 le_rfl)
  obtain ⟨v3, h3⟩ := dpsiOne_ok 10 3 (cxNat 1) (by simp) (cxNat_noPole 1 le_rfl)
  have i1 := real_val _ _ _ h1
  have i2 := real_val _ _ _ h2
  have i3 := real_val _ _ _ h3
  refine ⟨⟨fun w => w, v1.re, -v2.re / 2, v3.re / 6, 0, 0⟩, ?_, ?_, ?_⟩
  · rw [S2, cxNat_succ, h1]; simp only [Res.map_ok]; congr 1
    apply Cx.ext' <;> simp [czero, i1]
  · rw [S3, cxNat_succ, h2]; simp only [Res.map_ok]; congr 1
    apply Cx.ext' <;> simp [czero, i2] <;> ring
  · rw [S4, cxNat_succ, h3]; simp only [Res.map_ok]; congr 1
    apply Cx.ext' <;> simp [czero, i3] <;> ring

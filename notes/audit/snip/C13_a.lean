import Props.C13
import Mathlib.Tactic.NormNum
open Gep.R Gep.R.C13

-- (1) non-vacuity of the hypotheses (no example in the file for these three theorems)
example : (0.1:ℝ) ≠ 0 ∧ (4:ℝ) ≠ 0 ∧ (0:ℝ) ≤ 4 / 0.1 - 4 + 0.88 := by norm_num
example : (0.1:ℝ) ≠ 1 ∧ (3:ℝ) ^ 2 - 0.88 ≠ 0 := by norm_num
example : Consistent 1 (1/2) 2 3 ∧ (0:ℝ) < 1/2 ∧ (1/2:ℝ) < 1 ∧ (0:ℝ) < 3 ∧ (0:ℝ) < 2 ∧ (0:ℝ) < 2 ^ 2 + 3 - 1 := by
  unfold Consistent; norm_num

-- (2) fill_from_W_Q2 "no side condition": at W² + Q² = M² the relation holds only because x/0 = 0 in Lean;
--     Python raises ZeroDivisionError there, the model answers .ok with xB = 0
example : fill 1 { W := some 1, Q2 := some 0, t := some 0 } =
    .ok { xB := some 0, W := some 1, Q2 := some 0, t := some 0, tm := some (-0), xi := some (0 / (2 - 0)) } := by
  have := fill_from_W_Q2 1 1 0 0 (le_refl 0)
  simpa using this
example : Consistent 1 0 1 0 := by unfold Consistent; norm_num
-- the relation `Consistent` is satisfied by xB = 0 for EVERY w, q on the singular surface
example (w q : ℝ) (h : w ^ 2 + q - 1 = 0) : Consistent 1 0 w q := by unfold Consistent; rw [h]; simp

-- (3) negative radicand: Python math.sqrt raises ValueError, the model says .ok with W = 0
example : fill 1 { xB := some 2, Q2 := some 4 } =
    .ok { xB := some 2, W := some 0, Q2 := some 4, xi := some (2 / (2 - 2)) } := by
  have h : Real.sqrt ((4:ℝ) / 2 - 4 + 1) = 0 := Real.sqrt_eq_zero_of_nonpos (by norm_num)
  simp [fill, countTrio, completeTrio, ksqrt, h]

-- (4) orig_conventions_is_from is FALSE without WellFormed (DESIGN 8.5 says "for all inputs")
example : ∃ (q : CPt) (v : ℝ), origConv q v ≠ (fromConv { q with val := v }).val := by
  refine ⟨{ val := 0, errs := [], phi := some 0, FTn := some 1, trento := true }, 1, ?_⟩
  simp [origConv, fromConv, flipsFTn]
  norm_num

-- (5) stronger "under-determined is untouched": nothing but xi (from xB) and the t/tm partner is added
theorem fill_underdetermined_strong (M2 : ℝ) (k k' : Kin) (hc : countTrio k ≤ 1) (h : fill M2 k = .ok k') :
    k'.xB = k.xB ∧ k'.W = k.W ∧ k'.Q2 = k.Q2 ∧ (k.xB = none → k'.xi = k.xi) ∧
    (k.t = none → k.tm = none → k'.t = none ∧ k'.tm = none) := by
  unfold fill at h
  have h3 : countTrio k ≠ 3 := by omega
  have h2 : countTrio k ≠ 2 := by omega
  simp only [h3, h2, if_false] at h
  rcases hxb : k.xB with _ | x <;> rcases ht : k.t with _ | t <;> rcases htm : k.tm with _ | tm <;>
  simp only [hxb, ht, htm] at h <;> (try split at h) <;> (try cases h) <;> simp_all

-- (6) non-vacuity of the round trip with an angle in degrees in the Trento frame
example : ∃ q, toConv ({ val := 2, errs := [1], phi := some 30, varphi := some 1, trento := true, phiDeg := true } : CPt) = some q ∧
    q.phi = some (Real.pi - 30 * Real.pi / 180) ∧ q.varphi = some (1 - Real.pi) := by
  refine ⟨_, rfl, ?_⟩
  simp [kpi]

#print axioms from_to_conventions
#print axioms completion_agrees
#print axioms fill_xi_tm
#print axioms orig_conventions_inverse
#print axioms flipsFTn_table

import Props.C01
import Props.C02
import Props.C03
import Props.C04
import Props.C05
import Props.C06
import Props.C07
import Props.C08
import Props.C09
import Props.C10
import Props.C11
import Props.C12
import Props.C13
import Props.C14
import Props.C15
import Props.C16
import Props.C17
import Props.C18
import Props.C19
import Props.C20
open Lean Elab Command in
#eval show CommandElabM Unit from do
  let env ← getEnv
  let allowed : List Name := [``propext, ``Classical.choice, ``Quot.sound]
  let mods := env.header.moduleNames
  let mut summary : Std.HashMap String (Nat × Nat × List String) := {}
  for (n, ci) in env.constants.toList do
    match env.getModuleIdxFor? n with
    | none => pure ()
    | some idx =>
      let m := mods[idx.toNat]!
      let ms := m.toString
      if ms.startsWith "Props." || ms.startsWith "Proofs." || ms.startsWith "Gen." || ms.startsWith "Model." then
        if n.isInternal then continue
        let isThm := match ci with | .thmInfo _ => true | _ => false
        let isAx := match ci with | .axiomInfo _ => true | _ => false
        let isOpq := match ci with | .opaqueInfo _ => true | _ => false
        if isAx then logInfo m!"AXIOM DECLARED: {n} in {ms}"
        if isOpq then logInfo m!"OPAQUE: {n} in {ms}"
        if isThm && ms.startsWith "Props." then
          let axs ← Lean.collectAxioms n
          let bad := axs.toList.filter (fun a => !allowed.contains a)
          let (t, b, l) := summary.getD ms (0,0,[])
          if bad.isEmpty then
            summary := summary.insert ms (t+1, b, l)
          else
            summary := summary.insert ms (t+1, b+1, (toString n ++ " : " ++ toString bad) :: l)
  for (k, (t,b,l)) in summary.toList do
    logInfo m!"{k}: {t} theorems checked, {b} with non-standard axioms {l}"

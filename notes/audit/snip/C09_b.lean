import Props.C09
open Gep.DF Gep.DF.C09

/-! whole-file composition that Props/C09 lacks: the grid of `parse` is the in-order concatenation of
    the per-line contributions (easy: parseLine's data contribution does not depend on p) -/
def rowOf (raw : List Char) : List (List Dec) :=
  if isGridLine (stripComment raw) then [(findall (stripComment raw)).map decOfToken] else []

theorem parseLine_data (p : Parsed) (raw : List Char) : (parseLine p raw).data = p.data ++ rowOf raw := by
  unfold parseLine rowOf
  simp only
  split <;> split <;> (try split) <;> simp

theorem foldl_data (ls : List (List Char)) (p : Parsed) :
    (ls.foldl parseLine p).data = p.data ++ ls.flatMap rowOf := by
  induction ls generalizing p with
  | nil => simp
  | cons l ls ih => simp [List.foldl_cons, ih, parseLine_data, List.append_assoc]

theorem parse_data (text : List Char) : (parse text).data = (splitLines text).flatMap rowOf := by
  unfold parse; rw [foldl_data]; simp

-- a concrete whole file through the model (CRLF, comment, preamble, exponent)
example : (parse "# c\nx1name = t\n 1.0 2.0 \r\n3 4e-1 # hi\n\n".toList).data =
    [[⟨false,10,-1⟩,⟨false,20,-1⟩],[⟨false,3,0⟩,⟨false,4,-1⟩]] ∧
    (parse "# c\nx1name = t\n 1.0 2.0 \r\n3 4e-1 # hi\n\n".toList).desc = [("x1name","t")] := by decide

import Props.C03
open Gep Gep.R Gep.R.Adim Gep.R.C03
#print axioms LO_momentum_quark_column
#print axioms affine_singlet_NLO
#print axioms affine_C1
#print axioms schwarz_C1
#print axioms NLO_momentum_quark_column
#print axioms NLO_momentum_gluon_column
#print axioms NLO_quark_number_minus
#print axioms LO_qq_is_moment_partial
#print axioms LO_gg_is_moment_partial
#print axioms c1_FL_is_moment_partial

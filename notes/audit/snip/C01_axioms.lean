import Props.C01
open Gep.R Gep.R.BH Gep.R.C01
#print axioms Gep.R.C01.XS_pure_BH
#print axioms Gep.R.C01.BH_unp_first_principles
#print axioms Gep.R.C01.BH_TP_first_principles
#print axioms Gep.R.C01.BH_LP_first_principles
#print axioms Gep.R.C01.physical_region
#print axioms Gep.R.C01.weight_BH_normalised
#print axioms Gep.R.C01.propagators_four_vector
#print axioms Gep.R.C01.K2_four_vector

-- ties between XSaux and the reference that are rfl
example (c : Consts) (m : CFFs) (pt : Pt) (tg : Nat) (pol : ℝ) (w : Bool) :
    XS_BMK c m pt tg pol w = (XSaux_BMK c m pt tg pol).map fun aux => (if w then weight_BH c pt else 1) * DVCS.PreFacSigma c m pt * aux := rfl
example (c : Consts) (m : CFFs) (pt : Pt) (tg : Nat) (pol : ℝ) (w : Bool) :
    XS_BM10ex c m pt tg pol w = (XSaux_BM10ex c m pt tg pol).map fun aux => (if w then weight_BH c pt else 1) * DVCS.PreFacSigma c m pt * aux := rfl

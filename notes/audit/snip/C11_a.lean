import Props.C11
open Gep.Fit Gep.Fit.C11

def s0 : St Nat Nat := init ["a", "b", "c"] [("a", 1), ("b", 2), ("c", 3)] [("a", true), ("b", false), ("c", true)] [("a", 7)]

-- non-vacuity of unknown_rejected / unknown_limit_rejected / rejected_unchanged
example : (step s0 (.release ["b", "bogus"])).2 = .valueError ∧ (step s0 (.fix ["b", "bogus"])).2 = .valueError :=
  unknown_rejected s0 ["b", "bogus"] "bogus" (by decide) (by decide) (by decide)
example : (step s0 (.limit [("c", 5), ("zz", 1)])).2 = .valueError :=
  unknown_limit_rejected s0 _ ("zz", 1) (by decide) (by decide)
example : (step s0 (.fix ["b", "bogus"])).1 = s0 :=
  rejected_unchanged s0 _ (Or.inl (unknown_rejected s0 ["b", "bogus"] "bogus" (by decide) (by decide) (by decide)).2)

-- non-vacuity of fit_values / fit_fixed_unchanged (a is fixed, b free and moved)
example : dget (step s0 (.fit [("a", 1), ("b", 9), ("c", 3)])).1.tvals "b" = some 9 :=
  (fit_values s0 _ (by decide) "b" 9 (by decide)).1
example : dget (step s0 (.fit [("a", 1), ("b", 9), ("c", 3)])).1.tvals "a" = dget s0.tvals "a" :=
  fit_fixed_unchanged s0 _ (by decide) "a" (by decide) (by decide) (by decide)

-- fit_fixed_unchanged never uses that n is fixed: it applies verbatim to the FREE parameter b
-- whenever migrad happens to return the old value
example : dget (step s0 (.fit [("a", 1), ("b", 2), ("c", 3)])).1.tvals "b" = dget s0.tvals "b" :=
  fit_fixed_unchanged s0 _ (by decide) "b" (by decide) (by decide) (by decide)

-- the second conjunct of fit_values is literally the hypothesis h (mvals := r)
example (s : St Nat Nat) (r : List (Name × Nat)) (n : Name) (v : Nat) (h : dget r n = some v) :
    dget (step s (.fit r)).1.mvals n = some v := h

-- value agreement (hypothesis hs of fit_fixed_unchanged) is NOT an invariant of the model:
-- the oracle result r is unconstrained, so a fit that reports fewer names breaks it
example : let s1 := (step s0 (.fit [("b", 9)])).1
    dget s1.tvals "a" = some 1 ∧ dget s1.mvals "a" = none := by decide

-- a fit can add a key to theory.parameters that is not in names (r unconstrained)
example : dget (step s0 (.fit [("zz", 9)])).1.tvals "zz" = some 9 := by decide

-- history with fix ALL, free, fit
example : let s := run s0 [.fix ["ALL"], .release ["b"], .free, .fit [("b", 5)], .fix []]
    tFree s = ["b"] ∧ mFree s = ["b"] ∧ dget s.tvals "b" = some 5 := by decide

-- Sync is preserved by construction: both copies get the same update. A deliberately "wrong"
-- step that applies a PARTIAL update (until the first unknown name) to BOTH sides and raises
-- also preserves Sync -- Sync alone cannot see partial updates.
def stepMirror {L V : Type} (s : St L V) : Op L V → St L V × Out
  | .release args =>
    let (tf, ok) := setUntilUnknown s.names s.tfixed false args
    let (mf, _) := setUntilUnknown s.names s.mfixed false args
    ({ s with tfixed := tf, mfixed := mf }, if ok then .ok else .valueError)
  | o => step s o

theorem setUntil_congr (names : List Name) (v : Bool) (args : List Name) :
    ∀ (d e : List (Name × Bool)), (∀ n, (dget d n).getD false = (dget e n).getD false) →
    ∀ n, (dget (setUntilUnknown names d v args).1 n).getD false = (dget (setUntilUnknown names e v args).1 n).getD false := by
  induction args with
  | nil => intro d e h n; simpa [setUntilUnknown] using h n
  | cons a as ih =>
    intro d e h n
    simp only [setUntilUnknown]
    split
    · apply ih; intro m; simp only [dget_dset]; split <;> simp [h m]
    · exact h n

theorem sync_stepMirror {L V : Type} (s : St L V) (op : Op L V) (h : Sync s) : Sync (stepMirror s op).1 := by
  cases op with
  | release args => exact ⟨setUntil_congr _ _ _ _ _ h.1, h.2⟩
  | fix a => exact sync_step s _ h
  | limit a => exact sync_step s _ h
  | free => exact sync_step s _ h
  | fit a => exact sync_step s _ h

#print axioms sync_history
#print axioms free_agree
#print axioms rejected_unchanged
#print axioms fit_fixed_unchanged
#print axioms covsync_entries
#print axioms old_code_refuted

import Props.C10
#check @Nat.add_comm

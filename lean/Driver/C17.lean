import Model.Util
import Model.DataSetOps
namespace Gep.Driver.C17
open Gep Gep.DS

def optInt? (s : String) : Option (Option Int) :=
  if s = "N" then some none else s.toInt?.map some

def parseKV (s : String) : Option (String × String) :=
  match s.splitOn "=" with
  | [k, v] => some (k, v)
  | _ => none

def showKV (kvs : List (String × String)) : String :=
  if kvs.isEmpty then "-" else joinSp (kvs.map fun kv => kv.1 ++ "=" ++ kv.2)

def parseKVs (ts : List String) : Option (List (String × String)) :=
  if ts = ["-"] then some [] else ts.mapM parseKV

def showIdx (l : List Int) : String := if l.isEmpty then "-" else joinSp (l.map toString)

def handle (op : String) (args : List String) : String :=
  match op, args with
  | "c17.select", logic :: ncrit :: rows =>
    match ncrit.toNat? with
    | none => "bad-op"
    | some nc =>
      let lg := if logic = "AND" then Logic.AND else if logic = "OR" then Logic.OR else Logic.other
      -- a point is (index, its row of the truth table); criterion j reads column j
      let pts : List (Nat × List Char) := (rows.map String.toList).zipIdx.map (fun (r, i) => (i, r))
      let crit : List (Nat × List Char → Bool) :=
        (List.range nc).map fun j => fun p => p.2.getD j '0' == '1'
      showIdx ((selectPts lg crit pts).map fun p => (p.1 : Int))
  | "c17.slice", [n, a, b, c] =>
    match n.toNat?, optInt? a, optInt? b, optInt? c with
    | some n, some a, some b, some c =>
      match sliceIdx n a b c with
      | none => "ValueError"
      | some idx => showIdx idx
    | _, _, _, _ => "bad-op"
  | "c17.add", rest =>
    match splitTok "|" rest with
    | [a, b] =>
      match parseKVs a, parseKVs b with
      | some a, some b => showKV (commonAttrs a b)
      | _, _ => "bad-op"
    | _ => "bad-op"
  | "c17.copyset", rest =>
    match splitTok "|" rest with
    | [a, b] =>
      match parseKVs a, parseKVs b with
      | some orig, some assign =>
        -- heap with the original at reference 0; `copy` allocates, assignments go through the copy's reference
        let h0 : Heap String := [orig]
        let (h1, c) := h0.copy 0
        let h2 := h1.setMany c assign
        showKV (h2.get 0) ++ " | " ++ showKV (h2.get c)
      | _, _ => "bad-op"
    | _ => "bad-op"
  | _, _ => "bad-op"

end Gep.Driver.C17

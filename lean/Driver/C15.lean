import Model.Util
import Gen.CouplingF
namespace Gep.Driver.C15
open Gep Gep.F Gep.F.Coupling

/-- `c15.beta <p> <nf>`            → hex | ValueError
    `c15.fbeta1 <a> <nf>`          → hex
    `c15.as2pf <p> <nf> <r2> <as0> <r20>` → ok hex | ValueError | ZeroDivisionError
    (p decimal integer, everything else 16-hex-digit binary64) -/
def handle (op : String) (args : List String) : String :=
  match op, args with
  | "c15.beta", [p, nf] =>
    match p.toInt?, floatOfHex? nf with
    | some p, some nf => match beta p nf with
      | some b => hexOfFloat b
      | none => "ValueError"
    | _, _ => "bad-op"
  | "c15.fbeta1", [a, nf] =>
    match floatOfHex? a, floatOfHex? nf with
    | some a, some nf => hexOfFloat (fbeta1 a nf)
    | _, _ => "bad-op"
  | "c15.as2pf", [p, nf, r2, as0, r20] =>
    match p.toInt?, floats? [nf, r2, as0, r20] with
    | some p, some [nf, r2, as0, r20] => match as2pf p nf r2 as0 r20 with
      | .ok a => "ok " ++ hexOfFloat a
      | .valueError => "ValueError"
      | .zeroDivisionError => "ZeroDivisionError"
    | _, _ => "bad-op"
  | _, _ => "bad-op"

end Gep.Driver.C15

import Model.Util
import Gen.EvolF
namespace Gep.Driver.C02
open Gep Gep.F Gep.F.Evol

def cxs : List Float → List (Cx Float)
  | r :: i :: rest => ⟨r, i⟩ :: cxs rest
  | _ => []

def m2? : List (Cx Float) → Option M2
  | [a, b, c, d] => some ⟨a, b, c, d⟩
  | _ => none

def showCx (z : Cx Float) : List String := [hexOfFloat z.re, hexOfFloat z.im]
def showM2 (m : M2) : List String := showCx m.a ++ showCx m.b ++ showCx m.c ++ showCx m.d

/--
 `c02.si p b0 b1 R g0(8) g1(8)` → lam(2 cx) pr0 pr1 (2×4 cx) r1proj (4×4 cx) er (4 cx) E0 (4 cx) E1 (4 cx)
 `c02.ns p b0 b1 R g0(2) g1(2)` → E0 E1
 `c02.ernd b0 R lamn(2) lamk(2)` → erEntry b0 (lamn−lamk) R, rfact b0 lamk R
 `c02.aslo b0 as0 lrrat` → as2pfLO
 `c02.wce asmuf2 asmur2 wc0(q,g,n: 6) wc1(q,g,n: 6) E0(8) E1(8) E0ns(2) E1ns(2)` → wce (q, g, n)
-/
def handle (op : String) (args : List String) : String :=
  match op, args with
  | "c02.si", p :: rest =>
    match p.toNat?, floats? rest with
    | some p, some (b0 :: b1 :: r :: gs) =>
      let zs := cxs gs
      match m2? (zs.take 4), m2? (zs.drop 4) with
      | some g0, some g1 =>
        if zs.length != 8 then "bad-op" else
        let lam := lambdaf g0
        let pr := projectors g0
        let rp := r1proj g0 g1 b0 b1
        let er := erfunc b0 lam r
        let e := evolop p g0 g1 b0 b1 r none
        joinSp (showCx lam.1 ++ showCx lam.2 ++ showM2 pr.1 ++ showM2 pr.2 ++
                showM2 rp.pp ++ showM2 rp.pm ++ showM2 rp.mp ++ showM2 rp.mm ++
                showCx er.pp ++ showCx er.pm ++ showCx er.mp ++ showCx er.mm ++
                showM2 e.1 ++ showM2 e.2)
      | _, _ => "bad-op"
    | _, _ => "bad-op"
  | "c02.ns", p :: rest =>
    match p.toNat?, floats? rest with
    | some p, some [b0, b1, r, g0r, g0i, g1r, g1i] =>
      let e := evolopns p ⟨g0r, g0i⟩ ⟨g1r, g1i⟩ b0 b1 r none
      joinSp (showCx e.1 ++ showCx e.2)
    | _, _ => "bad-op"
  | "c02.ernd", rest =>
    match floats? rest with
    | some [b0, r, nr, ni, kr, ki] =>
      let lamn : Cx Float := ⟨nr, ni⟩
      let lamk : Cx Float := ⟨kr, ki⟩
      joinSp (showCx (erEntry b0 (lamn - lamk) r) ++ showCx (rfact b0 lamk r))
    | _ => "bad-op"
  | "c02.aslo", rest =>
    match floats? rest with
    | some [b0, as0, l] => hexOfFloat (as2pfLO b0 as0 l)
    | _ => "bad-op"
  | "c02.wce", rest =>
    match floats? rest with
    | some (af :: ar :: xs) =>
      if xs.length != 32 then "bad-op" else
      match cxs xs with
      | [q0, g0, n0, q1, g1, n1, a0, b0, c0, d0, a1, b1, c1, d1, s0, s1] =>
        let w := wceSinglet (q0, g0) (q1, g1) af ar (⟨a0, b0, c0, d0⟩, ⟨a1, b1, c1, d1⟩)
        let n := wceNS n0 n1 af ar (s0, s1)
        joinSp (showCx w.1 ++ showCx w.2 ++ showCx n)
      | _ => "bad-op"
    | _ => "bad-op"
  | _, _ => "bad-op"

end Gep.Driver.C02

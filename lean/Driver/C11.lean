import Model.Util
import Model.FitSync
namespace Gep.Driver.C11
open Gep Gep.Fit

def kv? (s : String) : Option (String × String) :=
  match s.splitOn "=" with
  | [k, v] => some (k, v)
  | _ => none

def kvs? (ts : List String) : Option (List (String × String)) := ts.mapM kv?

def showKVs (d : List (String × String)) : String :=
  if d.isEmpty then "-" else ",".intercalate (d.map fun kv => kv.1 ++ "=" ++ kv.2)
def showB (d : List (String × Bool)) : String :=
  showKVs (d.map fun kv => (kv.1, if kv.2 then "1" else "0"))
def showL (l : List String) : String := if l.isEmpty then "-" else ",".intercalate l

/-- limit tokens: `L<k>` an interval the minimiser accepts, `X<k>` one it refuses (lower > upper) -/
instance : LimitOK String := ⟨fun l => !l.startsWith "X"⟩

abbrev S := St String String

def parseOp (ts : List String) : Option (Op String String) :=
  match ts with
  | "fix" :: args => some (.fix args)
  | "release" :: args => some (.release args)
  | "limit" :: args => (kvs? args).map .limit
  | ["free"] => some .free
  | "fit" :: args => (kvs? args).map .fit
  | _ => none

def showOut : Out → String
  | .ok => "ok"
  | .valueError => "ValueError"
  | .indexError => "IndexError"
  | .freeLists t m => "free:" ++ showL t ++ ":" ++ showL m

def showSt (s : S) : String :=
  joinSp [showB s.tfixed, showB s.mfixed, showKVs s.tlimits, showKVs s.mlimits, showL (tFree s), showL (mFree s),
          showKVs s.tvals, showKVs s.mvals]

/-- `c11.run N <names> V <k=v>* F <k=0|1>* T <k=limit>* O <op> ; <op> ; …` -/
def handle (op : String) (args : List String) : String :=
  match op with
  | "c11.run" =>
    match splitTok "O" args with
    | [hdr, opsTok] =>
      let secs := splitTok "T" hdr
      match secs with
      | [h1, tl] =>
        match splitTok "F" h1 with
        | [h0, tf] =>
          match splitTok "V" h0 with
          | ["N" :: names, vals] =>
            match kvs? vals, kvs? tf, kvs? tl with
            | some vals, some tf, some tl =>
              let tfb := tf.map fun kv => (kv.1, kv.2 == "1")
              let s0 : S := init names vals tfb tl
              let ops := (splitTok ";" opsTok).map parseOp
              if ops.any Option.isNone then "bad-op" else
              let (_, outs) := ops.foldl (fun (acc : S × List String) o =>
                match o with
                | some o => let r := step acc.1 o; (r.1, acc.2 ++ [showOut r.2 ++ " " ++ showSt r.1])
                | none => acc) (s0, [showSt s0])
              " ;; ".intercalate outs
            | _, _, _ => "bad-op"
          | _ => "bad-op"
        | _ => "bad-op"
      | _ => "bad-op"
    | _ => "bad-op"
  | "c11.covsync" =>
    -- `c11.covsync N <names> F <free names> M <n*n hex floats, row-major in the order of names>`
    match splitTok "M" args with
    | [hdr, mat] =>
      match splitTok "F" hdr with
      | ["N" :: names, free] =>
        match floats? mat with
        | some xs =>
          let n := names.length
          if xs.length != n * n then "bad-op" else
          let idx (p : String) : Nat := (names.findIdx? (· == p)).getD n
          let mcov (p q : String) : Float := xs.getD (idx p * n + idx q) (0.0 / 0.0)
          let r := covsync free mcov
          if r.isEmpty then "-" else joinSp (r.map fun e => e.1.1 ++ "," ++ e.1.2 ++ "=" ++ hexOfFloat e.2)
        | none => "bad-op"
      | _ => "bad-op"
    | _ => "bad-op"
  | _ => "bad-op"

end Gep.Driver.C11

import Model.Util
import Gen.MBF
/-!
  Driver/C04.lean — protocol operations `c04.*` (x-space GPDs, F2, moments, contour) on the Float
  instance of Scalar/MB.lean.in.  The parsing helpers are shared with Driver/C05.lean.

  A "big" line is:  op  i₁ … i_n  |  header floats  |  per-point floats …      (floats = 16 hex digits)
  per point: j(2) wg(1) then for s = 0,1,2: fshu(2) c1(6) E0.si(8) E0.ns(2) E1.si(8) E1.ns(2)   [= 87]
             followed by the moments H_j(8) [and E_j(8)] when they are passed as data.
-/
namespace Gep.Driver.C04
open Gep Gep.F Gep.F.Evol Gep.F.MB

def showErr : Err → String
  | .eta => "err:eta"
  | .processClass => "err:processClass"
  | .residualt => "err:residualt"
  | .alpAssert => "err:assert"
  | .nfAssert => "err:assert"

def hx (x : Float) : String := hexOfFloat x

def rtOf : Nat → ResT
  | 0 => .dipole
  | 1 => .exp
  | _ => .other

/-- take n floats -/
def takeN (n : Nat) (xs : List Float) : Option (List Float × List Float) :=
  if xs.length < n then none else some (xs.take n, xs.drop n)

def v3Of : List Float → Option V3
  | [a, b, c, d, e, f] => some ⟨⟨a, b⟩, ⟨c, d⟩, ⟨e, f⟩⟩
  | _ => none

def v4Of : List Float → Option V4
  | [a, b, c, d, e, f, g, h] => some ⟨⟨a, b⟩, ⟨c, d⟩, ⟨e, f⟩, ⟨g, h⟩⟩
  | _ => none

def m2Of : List Float → Option M2
  | [a, b, c, d, e, f, g, h] => some ⟨⟨a, b⟩, ⟨c, d⟩, ⟨e, f⟩, ⟨g, h⟩⟩
  | _ => none

def pwdOf (xs : List Float) : Option PWd :=
  match xs with
  | fr :: fi :: rest =>
    match v3Of (rest.take 6), m2Of ((rest.drop 6).take 8), (rest.drop 14).take 2,
          m2Of ((rest.drop 16).take 8), (rest.drop 24).take 2 with
    | some c1, some e0, [n0r, n0i], some e1, [n1r, n1i] =>
      if rest.length != 26 then none else
      some ⟨⟨fr, fi⟩, c1, ⟨e0, ⟨n0r, n0i⟩⟩, ⟨e1, ⟨n1r, n1i⟩⟩⟩
    | _, _, _, _, _ => none
  | _ => none

def ptOf (xs : List Float) : Option Pt :=
  match xs with
  | jr :: ji :: wg :: rest =>
    match pwdOf (rest.take 28), pwdOf ((rest.drop 28).take 28), pwdOf ((rest.drop 56).take 28) with
    | some a, some b, some c => if rest.length != 84 then none else some ⟨⟨jr, ji⟩, wg, a, b, c⟩
    | _, _, _ => none
  | _ => none

/-- split the per-point part: `extra` floats of moment data follow each point's 87 floats -/
partial def ptsOf (extra : Nat) (xs : List Float) (acc : List (Pt × List Float)) :
    Option (List (Pt × List Float)) :=
  if xs.isEmpty then some acc.reverse else
  match takeN 87 xs with
  | none => none
  | some (a, rest) =>
    match ptOf a, takeN extra rest with
    | some pt, some (ex, rest') => ptsOf extra rest' ((pt, ex) :: acc)
    | _, _ => none

def r3Of : List Float → Option R3
  | [a, b, c] => some ⟨a, b, c⟩
  | _ => none

def pwsOf : List Float → Option PWS
  | [a, b, c, d, e, f, g, h, i] => some ⟨⟨a, b, c⟩, ⟨d, e, f⟩, ⟨g, h, i⟩⟩
  | _ => none

def frotOf : List Float → Option Frot
  | [a, b, c, d, e, f, g, h, i, j, k, l] => some ⟨⟨a, b, c, d⟩, ⟨e, f, g, h⟩, ⟨i, j, k, l⟩⟩
  | _ => none

def seaOf : List Float → Option SeaPar
  | [a, b, c, d, e, f, g] => some ⟨a, b, c, d, e, f, g⟩
  | _ => none

/-- moments as a function of j from a table keyed by the contour point (data moments) -/
def tableFn (tab : List (Cx Float × V4)) (j : Cx Float) : V4 :=
  match tab.find? (fun e => e.1.re == j.re && e.1.im == j.im) with
  | some e => e.2
  | none => ⟨⟨0, 0⟩, ⟨0, 0⟩, ⟨0, 0⟩, ⟨0, 0⟩⟩

def zero4 : V4 := ⟨⟨0, 0⟩, ⟨0, 0⟩, ⟨0, 0⟩, ⟨0, 0⟩⟩

/-- H-type moments from parameters; the error (if any) is the same at every j -/
def hParFn (rt : ResT) (par : SeaPar) (t : Float) : Except Err (Cx Float → V4) :=
  match singletNg rt par t ⟨0.5, 0.5⟩ with
  | .error e => .error e
  | .ok _ => .ok fun j => match singletNg rt par t j with
    | .ok v => v
    | .error _ => zero4

def eParFn (rt : ResT) (kaps ns : Float) (par : SeaPar) (t : Float) : Except Err (Cx Float → V4) :=
  match pwNormE rt kaps ns par t ⟨0.5, 0.5⟩ with
  | .error e => .error e
  | .ok _ => .ok fun j => match pwNormE rt kaps ns par t j with
    | .ok v => v
    | .error _ => zero4

def showCx (z : Cx Float) : List String := [hx z.re, hx z.im]
def showV4 (v : V4) : String := joinSp (showCx v.s ++ showCx v.g ++ showCx v.u ++ showCx v.d)

/-- split at the token "|" into (ints, header floats, point floats) -/
def sections (args : List String) : Option (List Nat × List Float × List Float) :=
  match splitTok "|" args with
  | [a, b, c] =>
    match nats? a, floats? b, floats? c with
    | some i, some h, some p => some (i, h, p)
    | _, _, _ => none
  | _ => none

/-- moments selected by `mk`: 0 = PWNormGPD.H from parameters, 1 = PWNormGPD.E from parameters,
    2 = data (8 floats after each point).  Returns the function and the unread header floats. -/
def momentsOf (mk rt : Nat) (t : Float) (hdr : List Float) (pts : List (Pt × List Float)) (off : Nat) :
    Option (Except Err (Cx Float → V4) × List Float) :=
  match mk with
  | 0 =>
    match takeN 7 hdr with
    | some (a, rest) => (seaOf a).map fun par => (hParFn (rtOf rt) par t, rest)
    | none => none
  | 1 =>
    match hdr with
    | kaps :: ns :: more =>
      match takeN 7 more with
      | some (a, rest) => (seaOf a).map fun par => (eParFn (rtOf rt) kaps ns par t, rest)
      | none => none
    | _ => none
  | _ =>
    let tab := pts.filterMap fun pe => (v4Of ((pe.2.drop off).take 8)).map fun v => (pe.1.j, v)
    if tab.length != pts.length then none else some (.ok (tableFn tab), hdr)

/--
 `c04.nodes c phi r(8) w(8)`                       → j.re j.im wg for the 96 contour points
 `c04.qj poch val | j.re j.im t norm al0 alp alpf` → qj  (or err:assert)
 `c04.mom rt mk | t j.re j.im <params>`            → the four moments at j (mk = 0: 7 H-parameters; 1: kaps ns + 7)
 `c04.x p rt mk | asmuf2 phi x eta t pw(9) <moment params> | points`         → Hx / Ex  (q g n) or err:…
 `c04.f2 p nf rt mk | asmuf2 asmur2 phi xB <moment params> | points`         → DISF2
-/
def handle (op : String) (args : List String) : String :=
  match op with
  | "c04.nodes" =>
    match floats? args with
    | some (c :: phi :: rest) =>
      if rest.length != 16 then "bad-op" else
      joinSp ((mellinBarnes c phi (rest.take 8) (rest.drop 8)).foldr
        (fun e acc => hx e.1.re :: hx e.1.im :: hx e.2 :: acc) [])
    | _ => "bad-op"
  | "c04.qj" =>
    match splitTok "|" args with
    | [a, b] =>
      match nats? a, floats? b with
      | some [poch, val], some [jr, ji, t, norm, al0, alp, alpf] =>
        match qj ⟨jr, ji⟩ t poch norm al0 alp alpf val with
        | .ok z => joinSp (showCx z)
        | .error e => showErr e
      | _, _ => "bad-op"
    | _ => "bad-op"
  | "c04.mom" =>
    match splitTok "|" args with
    | [a, b] =>
      match nats? a, floats? b with
      | some [rt, mk], some (t :: jr :: ji :: rest) =>
        match momentsOf mk rt t rest [] 0 with
        | some (.ok f, []) => if mk > 1 then "bad-op" else showV4 (f ⟨jr, ji⟩)
        | some (.error e, []) => showErr e
        | _ => "bad-op"
      | _, _ => "bad-op"
    | _ => "bad-op"
  | "c04.x" =>
    match sections args with
    | some ([p, rt, mk], asf :: phi :: x :: eta :: t :: rest, pf) =>
      let _ := p
      match takeN 9 rest, ptsOf (if mk = 2 then 8 else 0) pf [] with
      | some (pwf, rest'), some pts =>
        match pwsOf pwf, momentsOf mk rt t rest' pts 0 with
        | some pw, some (.ok H, []) =>
          match xspace asf phi x eta pw H (pts.map (·.1)) with
          | .ok r => joinSp [hx r.q, hx r.g, hx r.n]
          | .error e => showErr e
        | some _, some (.error e, []) => showErr e
        | _, _ => "bad-op"
      | _, _ => "bad-op"
    | _ => "bad-op"
  | "c04.f2" =>
    match sections args with
    | some ([p, nf, rt, mk], asf :: asr :: phi :: xB :: rest, pf) =>
      match ptsOf (if mk = 2 then 8 else 0) pf [] with
      | some pts =>
        match momentsOf mk rt 0 rest pts 0 with
        | some (.ok H, []) => hx (disF2 p nf asf asr phi xB H (pts.map (·.1)))
        | some (.error e, []) => showErr e
        | _ => "bad-op"
      | none => "bad-op"
    | _ => "bad-op"
  | _ => "bad-op"

end Gep.Driver.C04

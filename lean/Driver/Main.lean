/-
  Driver/Main.lean — line protocol: one operation per stdin line → one result line.
  Imports only Model.* / Gen.*F / Driver.* (no Mathlib), so it is compiled (`lean_exe gepdriver`).
-/
import Model.Util
import Driver.C17
import Driver.C10
import Driver.C13

open Gep

def dispatch (line : String) : String :=
  match tokens line with
  | [] => "bad-op"
  | op :: args =>
    if op.startsWith "c17." then Driver.C17.handle op args
    else if op.startsWith "c10." then Driver.C10.handle op args
    else if op.startsWith "c13." then Driver.C13.handle op args
    else "bad-op"

partial def loop (h : IO.FS.Stream) (out : IO.FS.Stream) : IO Unit := do
  let line ← h.getLine
  if line.isEmpty then return ()
  out.putStrLn (dispatch line)
  loop h out

def main : IO Unit := do
  let out ← IO.getStdout
  loop (← IO.getStdin) out
  out.flush

import Model.Util
import Model.Mro
import Gen.ClassTable
/-!
  Driver/C20.lean — line protocol for the C3 / cooperative-__init__ model (ids are the class
  indices and symbol indices of Gen/ClassTable.lean; the harness holds the same tables).

    c20.order <cls…>            → mro:<cls,…> out:<outcome> attrs:<sym=K<sym>|sym=D<cls>.<sym>,…> clean:<0|1>
                                  (the class `type('T', bases, {})`, then `T()`; `mro:-` = TypeError)
    c20.checks <cls…>           → ok | fail:<reason,…>
    c20.resolve <cls…> | <sym…> → for each name the defining class along the MRO, or `-`
    c20.mro <cls>               → MRO of a class of the table
    c20.defs <cls>              → names defined in the class body
    c20.steps <cls…>            → the flattened steps (owner.kind.attr …) of `T()`
    c20.writes <cls…>           → the attribute writes that happen, in order (owner.attr …)
-/
namespace Gep.Driver.C20
open Gep Gep.Mro Gep.Mro.Gen

def showNats (l : List Nat) : String := if l.isEmpty then "-" else ",".intercalate (l.map toString)

def showVal : WVal → String
  | .kw v => "K" ++ toString v
  | .derived o s => "D" ++ toString o ++ "." ++ toString s

def showErr : Option Err → String
  | none => "ok"
  | some (.attribute a) => "attr:" ++ toString a
  | some .typeError => "type"
  | some (.unpredictable a) => "unpred:" ++ toString a
  | some (.unsupported c) => "unsup:" ++ toString c

def showAttrs (l : List (Sym × WVal)) : String :=
  if l.isEmpty then "-" else ",".intercalate (l.map fun p => toString p.1 ++ "=" ++ showVal p.2)

def showPrim : Prim → String
  | .read a => "r" ++ toString a
  | .mayRead a => "m" ++ toString a
  | .write a _ => "w" ++ toString a
  | .ensure a => "e" ++ toString a
  | .setdef k _ => "s" ++ toString k
  | .bind a _ _ => "b" ++ toString a

def showStep : Step → String
  | .prim o p => toString o ++ "." ++ showPrim p
  | .push => "("
  | .pop => ")"
  | .objInit => "object"
  | .noMethod m => "nomethod" ++ toString m
  | .unsupported c => "unsup" ++ toString c

/-- the attribute writes that really happen, in order, as `owner.attr` -/
def effectiveWrites (cls : Sym → Bool) : List Step → State → List String
  | [], _ => []
  | st :: rest, s =>
    let here : List String :=
      match st with
      | .prim o (.write a _) => [toString o ++ "." ++ toString a]
      | .prim o (.bind a _ _) => [toString o ++ "." ++ toString a]
      | .prim o (.ensure a) => if hasAttr a s.attrs || cls a then [] else [toString o ++ "." ++ toString a]
      | _ => []
    match execStep cls s st with
    | .ok s' => here ++ effectiveWrites cls rest s'
    | .error _ => []

/-- Python: `type('T', (), {})` has bases `(object,)` -/
def normBases (bs : List Cls) : List Cls := if bs.isEmpty then [0] else bs

def handle (op : String) (args : List String) : String :=
  match op with
  | "c20.order" =>
    match nats? args with
    | none => "bad-op"
    | some bs =>
      match mroAdhoc classTable (normBases bs) with
      | none => "mro:- out:nomro attrs:- clean:0"
      | some m =>
        let r := run classTable m
        "mro:" ++ showNats m ++ " out:" ++ showErr r.2 ++ " attrs:" ++ showAttrs r.1.attrs
          ++ " clean:" ++ (if (trace classTable m).all Step.clean then "1" else "0")
  | "c20.steps" =>
    match nats? args with
    | none => "bad-op"
    | some bs =>
      match mroAdhoc classTable (normBases bs) with
      | none => "-"
      | some m => joinSp ((trace classTable m).map showStep)
  | "c20.writes" =>
    match nats? args with
    | none => "bad-op"
    | some bs =>
      match mroAdhoc classTable (normBases bs) with
      | none => "nomro"
      | some m =>
        let w := effectiveWrites (onClass classTable m) (trace classTable m) ⟨[], []⟩
        if w.isEmpty then "-" else joinSp w
  | "c20.checks" =>
    match nats? args with
    | none => "bad-op"
    | some bs =>
      if checks classTable bs then "ok" else "fail:" ++ ",".intercalate (checksReport classTable bs)
  | "c20.resolve" =>
    match splitTok "|" args with
    | [a, b] =>
      match nats? a, nats? b with
      | some bs, some names =>
        match mroAdhoc classTable (normBases bs) with
        | none => "nomro"
        | some m => joinSp (names.map fun n =>
            match resolve classTable n m with
            | some c => toString c
            | none => "-")
      | _, _ => "bad-op"
    | _ => "bad-op"
  | "c20.mro" =>
    match nats? args with
    | some [c] =>
      match mroOf classTable (mroFuel classTable) c with
      | some m => showNats m
      | none => "nomro"
    | _ => "bad-op"
  | "c20.defs" =>
    match nats? args with
    | some [c] => showNats (defsOf classTable c)
    | _ => "bad-op"
  | _ => "bad-op"

end Gep.Driver.C20

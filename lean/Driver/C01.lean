import Model.Util
import Gen.BHRefF
namespace Gep.Driver.C01
open Gep Gep.F

/-- ops (numbers as hex floats): the Float instantiation of the generated first-principles reference
    c01.bhref unp a d u up t M2 F1 F2                 → BHRef.unp
    c01.bhref pol a d u up t M F1 F2 sk skp sD        → BHRef.pol (coefficient of the beam helicity) -/
def handle (op : String) (args : List String) : String :=
  match op, args with
  | "c01.bhref", "unp" :: rest =>
    match floats? rest with
    | some [a, d, u, up, t, m2, f1, f2] => hexOfFloat (BHRef.unp a d u up t m2 f1 f2)
    | _ => "bad-op"
  | "c01.bhref", "pol" :: rest =>
    match floats? rest with
    | some [a, d, u, up, t, m, f1, f2, sk, skp, sd] => hexOfFloat (BHRef.pol a d u up t m f1 f2 sk skp sd)
    | _ => "bad-op"
  | _, _ => "bad-op"

end Gep.Driver.C01

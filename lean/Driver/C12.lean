import Model.Util
import Model.Predict
import Model.Memo
namespace Gep.Driver.C12
open Gep Gep.Pred Gep.Fit

def kv? (s : String) : Option (String × String) :=
  match s.splitOn "=" with
  | [k, v] => some (k, v)
  | _ => none

def kvsComma? (s : String) : Option (List (String × String)) :=
  if s = "-" then some [] else (s.splitOn ",").mapM kv?

def showKVs (d : List (String × String)) : String :=
  if d.isEmpty then "-" else ",".intercalate (d.map fun kv => kv.1 ++ "=" ++ kv.2)

def showPt (keys : List String) (p : Point String) : String :=
  let l := keys.filterMap fun k => (p k).map fun v => k ++ "=" ++ v
  if l.isEmpty then "-" else ",".intercalate l

/-- the uninterpreted observable: its "value" is the text of the specification's arguments -/
def env (keys : List String) : Env String Nat String (Point String) :=
  { W0 := fun q => q,
    F := fun obs w ps pt => .val (obs ++ "@W" ++ toString w ++ "@" ++ showKVs ps ++ "@" ++ showPt keys pt) }

def parseCall (ts : List String) : Option (Call String String) :=
  match ts with
  | [obs, q, use, ovr] => do
    let q ← q.toNat?
    let use ← (if use = "copy" then some PtUse.copy else
      match use.splitOn ":" with
      | ["temp", k, v] => some (PtUse.tempAttr k v)
      | _ => none)
    let ovr ← (if ovr = "none" then some none else (kvsComma? ovr).map some)
    some { obs := obs, q := q, use := use, ovr := ovr }
  | _ => none

/-- `c12.run P <k=v>* T <k=v>* K <extra keys>* O <obs q use ovr> ; …` -/
def handle (op : String) (args : List String) : String :=
  match op with
  | "c12.run" =>
    match splitTok "O" args with
    | [hdr, callsTok] =>
      match splitTok "K" hdr with
      | [h1, extra] =>
        match splitTok "T" h1 with
        | ["P" :: ps, ts] =>
          match ps.mapM kv?, ts.mapM kv? with
          | some ps, some ts =>
            let keys := (ts.map (·.1) ++ extra).eraseDups
            let calls := (splitTok ";" callsTok).map parseCall
            if calls.any Option.isNone then "bad-op" else
            let e := env keys
            let s0 : St String Nat String := { params := ps, cache := [], pt := pointOfList ts }
            let (_, outs) := calls.foldl (fun (acc : St String Nat String × List String) c =>
              match c with
              | some c =>
                let r := predict e acc.1 c.obs c.q c.use c.ovr
                let key := match r.2 with | .val k => k | .exc x => "EXC:" ++ x
                (r.1, acc.2 ++ [key ++ " " ++ showKVs r.1.params ++ " " ++ showPt keys r.1.pt])
              | none => acc) (s0, [])
            " ;; ".intercalate outs
          | _, _ => "bad-op"
        | _ => "bad-op"
      | _ => "bad-op"
    | _ => "bad-op"
  | "c12.memo" =>
    -- `c12.memo <key>*`: the keys of the table left by that history of lookups on a fresh object, in
    -- insertion order (Model/Memo.lean with the identity as value function)
    let (_, tbl) := Gep.Memo.run (fun (k : String) => k) (fun k => k) [] args
    " ".intercalate (tbl.map (·.1))
  | _ => "bad-op"

end Gep.Driver.C12

import Model.Util
import Gen.DispF
namespace Gep.Driver.C14
open Gep Gep.F

def optF? (s : String) : Option (Option Float) :=
  if s = "N" then some none else (floatOfHex? s).map some

/-- 20 tokens in the order of DispersionFixedPoleCFF.__init__'s parameter dict; tal/talp may be `N` -/
def parsePar (ts : List String) : Option (KMPar × List String) := do
  if ts.length < 20 then none else
  let a := ts.take 20
  let rest := ts.drop 20
  let tal ← optF? (a.getD 15 "")
  let talp ← optF? (a.getD 16 "")
  let f (i : Nat) : Option Float := floatOfHex? (a.getD i "")
  some ({ Nsea := ← f 0, alS := ← f 1, alpS := ← f 2, mS2 := ← f 3, rS := ← f 4, bS := ← f 5,
          Nv := ← f 6, alv := ← f 7, alpv := ← f 8, mv2 := ← f 9, rv := ← f 10, bv := ← f 11,
          C := ← f 12, mC2 := ← f 13, tNv := ← f 14, tal := tal, talp := talp,
          tmv2 := ← f 17, trv := ← f 18, tbv := ← f 19 }, rest)

/-- r1 w1 r2 w2 … -/
def parseQuad : List Float → Option Quad
  | [] => some []
  | r :: w :: rest => (parseQuad rest).map ((r, w) :: ·)
  | _ => none

def showRes : DRes → String
  | .ok v => "ok " ++ hexOfFloat v
  | .valueError => "ValueError"
  | .zeroDivisionError => "ZeroDivisionError"

/-- which imaginary part: H | Ht | E -/
def imOf (w : String) (p : KMPar) (t : Float) (n : Bool) : Option (Float → Float) :=
  if w = "H" then some (kmImH p t n) else if w = "Ht" then some (kmImHt p t n)
  else if w = "E" then some kmImE else none

/-- all lines: `c14.<op> <20 parameter tokens> <t> <neutron 0|1> <xi> <op-specific…>` -/
def handle (op : String) (args : List String) : String :=
  match parsePar args with
  | none => "bad-op"
  | some (p, rest) =>
    match rest with
    | t :: n :: xi :: more =>
      match floatOfHex? t, floatOfHex? xi, floats? (more.drop 1), floats? more with
      | some t, some xi, tailF, allF =>
        let n := n == "1"
        match op, more with
        -- the ansatz at x
        | "c14.im", [w, _] =>
          match imOf w p t n, tailF with
          | some f, some [x] => hexOfFloat (f x)
          | _, _ => "bad-op"
        -- integrands at x
        | "c14.dargV", [w, _] =>
          match imOf w p t n, tailF with
          | some f, some [x] => hexOfFloat (dispargV f xi x)
          | _, _ => "bad-op"
        | "c14.dargA", [w, _] =>
          match imOf w p t n, tailF with
          | some f, some [x] => hexOfFloat (dispargA f xi x)
          | _, _ => "bad-op"
        | "c14.sub", [] => hexOfFloat (kmSubtraction p t)
        | "c14.gk12dsub", [] => hexOfFloat (gk12dSubtraction t)
        | "c14.fixpole", [] => hexOfFloat (kmReEtFixed t xi n)
        | "c14.freepole", [_, _] =>
          match allF with
          | some [rpi, mpi2] => hexOfFloat (kmReEtFree rpi mpi2 t xi n)
          | _ => "bad-op"
        -- real parts: <which> <mb> r1 w1 … ; which = H | E | Ht | hybH | hybE | hybHt
        | "c14.re", w :: _ =>
          match tailF with
          | some (mb :: qs) =>
            match parseQuad qs with
            | some q =>
              if w = "H" then showRes (kmReH q p t n xi)
              else if w = "E" then showRes (kmReE q p t xi)
              else if w = "Ht" then showRes (kmReHt q p t n xi)
              else if w = "hybH" then showRes (hybridReH mb q p t n xi)
              else if w = "hybE" then showRes (hybridReE mb q p t xi)
              else if w = "hybHt" then showRes (hybridReHt q p t n xi)
              else "bad-op"
            | none => "bad-op"
          | _ => "bad-op"
        | _, _ => "bad-op"
      | _, _, _, _ => "bad-op"
    | _ => "bad-op"

end Gep.Driver.C14

import Model.Util
import Gen.BmkDispatchF
namespace Gep.Driver.C06
open Gep Gep.F

/-- split `xs` into consts (4), CFFs (nm), point (np) -/
def parse3 (nm np : Nat) (xs : List Float) : Option (Consts × CFFs × Pt) := do
  let c ← constsOfList (xs.take 4)
  let m ← cffsOfList ((xs.drop 4).take nm)
  let p ← ptOfList ((xs.drop (4 + nm)).take np)
  if xs.length != 4 + nm + np then none else some (c, m, p)

/-- numbers of CFF / point fields of the generated structures (Gen/BmkDispatchF.lean; 18 and 22 on the pinned tree) -/
def NM : Nat := nCFFs
def NP : Nat := nPt

/-- ops (all numbers as hex floats, in the field order recorded in Gen/Bmk.info.json):
    c06.eval <set> <entry> c×4 m×18 pt×22       one translated coefficient / term
    c06.kin <fn> c×4 m×18 pt×22                  a kinematics.py function
    c06.prepare c×4 m×18 pt×22                   kinematics.prepare → the 22 point fields
    c06.xs <set> <target 0|1|2> <weighted 0|1> <in2pol> c m pt   DVCS.XS on a prepared point -/
def handle (op : String) (args : List String) : String :=
  match op, args with
  | "c06.eval", set :: entry :: rest =>
    match (floats? rest).bind (parse3 NM NP) with
    | some (c, m, p) => match bmkEval set entry c m p with
      | some v => hexOfFloat v
      | none => "no-such-entry"
    | none => "bad-op"
  | "c06.kin", f :: rest =>
    match (floats? rest).bind (parse3 NM NP) with
    | some (c, _, p) => match kinEval f c p with
      | some v => hexOfFloat v
      | none => "no-such-entry"
    | none => "bad-op"
  | "c06.prepare", rest =>
    match (floats? rest).bind (parse3 NM NP) with
    | some (c, _, p) => match prepareEval c p with
      | some q => joinSp ((listOfPt q).map hexOfFloat)
      | none => "bad-op"      -- prepare was not translated (harness/bmkcommon.py reads "bad-op" as a broken model)
    | none => "bad-op"
  | "c06.xs", set :: target :: weighted :: in2pol :: rest =>
    match target.toNat?, floatOfHex? in2pol, (floats? rest).bind (parse3 NM NP) with
    | some tg, some ip, some (c, m, p) => match xsEval set c m p tg ip (weighted == "1") with
      | some (some v) => hexOfFloat v
      | some none => "ValueError"
      | none => "no-such-entry"
    | _, _, _ => "bad-op"
  | _, _ => "bad-op"

end Gep.Driver.C06

import Model.Util
import Gen.SpecialF
/-
  Driver/C16.lean — line protocol for the Float instance of Scalar/Special.lean.in.

    c16.<fn> <zeta2> <zeta3> <zeta4> <egamma> <log2> <fuel> <npsi> (<ar> <ai> <vr> <vi>)*npsi <args…>

  The first six tokens are the constants special.py imports (hex floats; fuel is decimal); the psi
  table lists scipy.special.psi at exactly the arguments the model will ask for (the harness
  computes them with the same float operations); an argument not in the table yields NaN, which the
  comparison reports.  <args…> per function:
    dpsi  <m> z*            poch <m> z*
    S1 S2 S3 S4 delS2 MellinF2 SB3   z*
    S2_prime S3_prime S2_tilde       <prty> z*
    deldelS2 <kr> <ki> z*
  z* = pairs of hex floats; an array call is modelled by the array versions (…A) where the model
  has them and by List.map otherwise.  One result per element: `ok <re> <im>` |
  `ZeroDivisionError` | `fuel`.
-/
namespace Gep.Driver.C16
open Gep Gep.F

def nan : Float := 0.0 / 0.0

def mkPsi (tab : List (Float × Float × Float × Float)) (z : Cx Float) : Cx Float :=
  match tab.find? (fun e => e.1 == z.re && e.2.1 == z.im) with
  | some e => ⟨e.2.2.1, e.2.2.2⟩
  | none => ⟨nan, nan⟩

def quads : List Float → List (Float × Float × Float × Float)
  | a :: b :: c :: d :: rest => (a, b, c, d) :: quads rest
  | _ => []

def pairs : List Float → List (Cx Float)
  | a :: b :: rest => ⟨a, b⟩ :: pairs rest
  | _ => []

def showCx (z : Cx Float) : String := "ok " ++ hexOfFloat z.re ++ " " ++ hexOfFloat z.im

def showRes : Res (Cx Float) → String
  | .ok v => showCx v
  | .zeroDivision => "ZeroDivisionError"
  | .fuel => "fuel"

def outR (rs : List (Res (Cx Float))) : String := joinSp (rs.map showRes)
def outC (rs : List (Cx Float)) : String := joinSp (rs.map showCx)

def zlist? (ts : List String) : Option (List (Cx Float)) :=
  if ts.length % 2 != 0 then none else (floats? ts).map pairs

def run (fn : String) (E : Ext) (fuel : Nat) (args : List String) : String :=
  match fn, args with
  | "dpsi", m :: zs =>
    match m.toNat?, zlist? zs with
    | some m, some zs => outR (dpsiA fuel zs m)
    | _, _ => "bad-op"
  | "poch", m :: zs =>
    match m.toNat?, zlist? zs with
    | some m, some zs => outC (pochhammerA zs m)
    | _, _ => "bad-op"
  | "poch1", m :: zs =>      -- the scalar model, element by element
    match m.toNat?, zlist? zs with
    | some m, some zs => outC (zs.map fun z => pochhammer z m)
    | _, _ => "bad-op"
  | "S1", zs => match zlist? zs with
    | some zs => outC (S1A E zs)
    | none => "bad-op"
  | "S2", zs => match zlist? zs with
    | some zs => outR (S2A E fuel zs)
    | none => "bad-op"
  | "S3", zs => match zlist? zs with
    | some zs => outR (S3A E fuel zs)
    | none => "bad-op"
  | "S4", zs => match zlist? zs with
    | some zs => outR (S4A E fuel zs)
    | none => "bad-op"
  | "delS2", zs => match zlist? zs with
    | some zs => outR (zs.map (delS2 E fuel))
    | none => "bad-op"
  | "MellinF2", zs => match zlist? zs with
    | some zs => outC (zs.map (MellinF2 E))
    | none => "bad-op"
  | "SB3", zs => match zlist? zs with
    | some zs => outR (zs.map (SB3 E fuel))
    | none => "bad-op"
  | "S2_prime", p :: zs => match floatOfHex? p, zlist? zs with
    | some p, some zs => outR (zs.map fun z => S2_prime E fuel z p)
    | _, _ => "bad-op"
  | "S3_prime", p :: zs => match floatOfHex? p, zlist? zs with
    | some p, some zs => outR (zs.map fun z => S3_prime E fuel z p)
    | _, _ => "bad-op"
  | "S2_tilde", p :: zs => match floatOfHex? p, zlist? zs with
    | some p, some zs => outC (zs.map fun z => S2_tilde E z p)
    | _, _ => "bad-op"
  | "deldelS2", kr :: ki :: zs => match floatOfHex? kr, floatOfHex? ki, zlist? zs with
    | some kr, some ki, some zs => outR (zs.map fun z => deldelS2 E fuel z ⟨kr, ki⟩)
    | _, _, _ => "bad-op"
  | _, _ => "bad-op"

def handle (op : String) (args : List String) : String :=
  match args with
  | z2 :: z3 :: z4 :: eg :: l2 :: fuel :: npsi :: rest =>
    match floats? [z2, z3, z4, eg, l2], fuel.toNat?, npsi.toNat? with
    | some [z2, z3, z4, eg, l2], some fuel, some npsi =>
      match floats? (rest.take (4 * npsi)) with
      | some tab =>
        if tab.length != 4 * npsi then "bad-op" else
        let E : Ext := { psi := mkPsi (quads tab), zeta2 := z2, zeta3 := z3, zeta4 := z4,
                         egamma := eg, log2 := l2 }
        run ((op.drop 4).toString) E fuel (rest.drop (4 * npsi))
      | none => "bad-op"
    | _, _, _ => "bad-op"
  | _ => "bad-op"

end Gep.Driver.C16

import Model.Util
import Gen.HarmF
namespace Gep.Driver.C08
open Gep Gep.F Gep.F.Harm

def optF? (s : String) : Option (Option Float) :=
  if s = "N" then some none else (floatOfHex? s).map some

/-- r1 w1 r2 w2 … -/
def parseQuad : List Float → Option Quad
  | [] => some []
  | r :: w :: rest => (parseQuad rest).map ((r, w) :: ·)
  | _ => none

def nan : Float := 0.0 / 0.0

/-- the observable as a function, tabulated at the abscissas the model itself computes (bitwise the same
    floats, because the table keys are produced by `Harm.nodes`); anything else is NaN -/
def tableFun (tab : List (Float × Float)) (x : Float) : Float :=
  match tab.find? (fun p => p.1 == x) with
  | some p => p.2
  | none => nan

/-- `<nq> (r w)×nq v×nq [extra…]` → rule, values at the nodes, remaining floats -/
def parseRule (ts : List String) : Option (Quad × List Float × List Float) := do
  match ts with
  | n :: rest =>
    let n ← n.toNat?
    let fs ← floats? rest
    if fs.length < 3 * n then none else
    let q ← parseQuad (fs.take (2 * n))
    some (q, (fs.drop (2 * n)).take n, fs.drop (3 * n))
  | [] => none

def showRes : Res → String
  | .ok v => "ok " ++ hexOfFloat v
  | .valueError => "ValueError"

/-- table on [a,b] from the values at the nodes, plus optional extra (x, value) pairs -/
def mkFun (q : Quad) (a b : Float) (vals : List Float) (extra : List (Float × Float)) : Float → Float :=
  tableFun (extra ++ (nodes q a b).zip vals)

def twoPi : Float := 2 * kpi

/-- ops (floats as 16-hex-digit bit patterns; `N` = absent):
    c08.nodes a b nq (r w)×nq                      abscissas y_i
    c08.quad a b nq (r w)×nq v×nq                  glquad of the tabulated function
    c08.harm phi|ftn|none x nq (r w)×nq v×nq [d]   _phiharmonic; x = phi or FTn; d = fun at phi (phi branch)
    c08.xsintphi phi|N nq (r w)×nq v×nq [d]        XSintphi
    c08.xwa nq (r w)×nq v×nq                       XwA
    c08.xgamma t|N tmmax|N nq (r w)×nq v×nq [d]    XGAMMA; d = differential value at t -/
def handle (op : String) (args : List String) : String :=
  match op, args with
  | "c08.nodes", a :: b :: rest =>
    match floatOfHex? a, floatOfHex? b, parseRule rest with
    | some a, some b, some (q, _, _) => joinSp ((nodes q a b).map hexOfFloat)
    | _, _, _ => "bad-op"
  | "c08.quad", a :: b :: rest =>
    match floatOfHex? a, floatOfHex? b, parseRule rest with
    | some a, some b, some (q, vals, []) =>
      if vals.length != q.length then "bad-op" else hexOfFloat (glquad q (mkFun q a b vals []) a b)
    | _, _, _ => "bad-op"
  | "c08.harm", az :: x :: rest =>
    match optF? x, parseRule rest with
    | some x, some (q, vals, extra) =>
      if vals.length != q.length then "bad-op" else
      match az, x, extra with
      | "phi", some x, [d] => showRes (phiharmonic (glquad q) (.phi x) (mkFun q 0 twoPi vals [(x, d)]))
      | "ftn", some n, [] => showRes (phiharmonic (glquad q) (.ftn n) (mkFun q 0 twoPi vals []))
      | "none", none, [] => showRes (phiharmonic (glquad q) .neither (mkFun q 0 twoPi vals []))
      | _, _, _ => "bad-op"
    | _, _ => "bad-op"
  | "c08.xsintphi", phi :: rest =>
    match optF? phi, parseRule rest with
    | some phi, some (q, vals, extra) =>
      if vals.length != q.length then "bad-op" else
      match phi, extra with
      | some x, [d] => showRes (xsintphi (glquad q) (some x) (mkFun q 0 twoPi vals [(x, d)]))
      | none, [] => showRes (xsintphi (glquad q) none (mkFun q 0 twoPi vals []))
      | _, _ => "bad-op"
    | _, _ => "bad-op"
  | "c08.xwa", rest =>
    match parseRule rest with
    | some (q, vals, []) =>
      if vals.length != q.length then "bad-op" else hexOfFloat (xwa (glquad q) (mkFun q 0 twoPi vals []))
    | _ => "bad-op"
  | "c08.xgamma", t :: tmmax :: rest =>
    match optF? t, optF? tmmax, parseRule rest with
    | some t, some tmmax, some (q, vals, extra) =>
      if vals.length != q.length then "bad-op" else
      let tm : Float := match tmmax with
        | some x => x
        | none => 1
      match t, extra with
      | some t, [d] => hexOfFloat (xgamma (glquad q) (some t) tmmax (mkFun q (-tm) 0 vals [(t, d)]))
      | none, [] => hexOfFloat (xgamma (glquad q) none tmmax (mkFun q (-tm) 0 vals []))
      | _, _ => "bad-op"
    | _, _, _ => "bad-op"
  | _, _ => "bad-op"

end Gep.Driver.C08

import Model.Util
import Model.DataFile
import Gen.GridPtF
namespace Gep.Driver.C09
open Gep Gep.DF

def bytesOfHex (s : String) : Option ByteArray :=
  let cs := s.toList
  if cs.length % 2 != 0 then none else
  let rec go : List Char → ByteArray → Option ByteArray
    | a :: b :: r, acc => match hexDigit? a, hexDigit? b with
      | some x, some y => go r (acc.push (16 * x + y).toUInt8)
      | _, _ => none
    | _, acc => some acc
  go cs ByteArray.empty

def textOfHex (s : String) : Option String :=
  if s = "-" then some "" else (bytesOfHex s).bind String.fromUTF8?

def hexOfString (s : String) : String :=
  if s.isEmpty then "-" else
  String.join (s.toUTF8.toList.map fun b => hexOfNat b.toNat 2)

def showDec (d : Dec) : String :=
  (if d.neg then "-" else "+") ++ ":" ++ toString d.mant ++ ":" ++ toString d.exp

def showOI : Option Int → String
  | none => "N"
  | some i => toString i

def optF? (s : String) : Option (Option Float) :=
  if s = "N" then some none else (floatOfHex? s).map some
def showOF : Option Float → String
  | none => "N"
  | some x => hexOfFloat x

def handle (op : String) (args : List String) : String :=
  match op, args with
  | "c09.parse", [h] =>
    match textOfHex h with
    | none => "bad-op"
    | some txt =>
      let p := parse txt.toList
      let d := p.desc.map fun kv => hexOfString kv.1 ++ " " ++ hexOfString kv.2
      let g := p.data.map fun row => joinSp (toString row.length :: row.map showDec)
      joinSp (["D", toString p.desc.length] ++ d ++ ["G", toString p.data.length] ++ g)
  | "c09.layout", [h] =>
    match textOfHex h with
    | none => "bad-op"
    | some txt =>
      match layout (parse txt.toList).desc with
      | .error e => "ERR " ++ e
      | .ok l =>
        let ax := l.axes.map fun a => hexOfString a.name ++ " " ++ (match a.src with
          | .glob d => "G " ++ showDec d
          | .col i => "C " ++ toString i)
        joinSp (["L", hexOfString l.observable, showOI l.in1charge, toString l.ycol, showOI l.etotal,
                 showOI l.estat, showOI l.estatP, showOI l.estatM, showOI l.esyst, showOI l.esystP,
                 showOI l.esystM, (match l.enorm with | none => "N" | some d => showDec d),
                 "A", toString l.axes.length] ++ ax)
  | "c09.combine", [val, tot, st, sp, sm, sy, yp, ym, nm] =>
    match floatOfHex? val, optF? tot, optF? st, optF? sp, optF? sm, optF? sy, optF? yp, optF? ym, optF? nm with
    | some val, some tot, some st, some sp, some sm, some sy, some yp, some ym, some nm =>
      let pm (a b : Option Float) : Option (Float × Float) := match a, b with
        | some a, some b => some (a, b)
        | _, _ => none
      let r := F.combine val { total := tot, stat := st, statPM := pm sp sm, syst := sy,
                               systPM := pm yp ym, norm := nm }
      joinSp [hexOfFloat r.err, hexOfFloat r.errplus, hexOfFloat r.errminus, showOF r.errstat,
              showOF r.errsyst, showOF r.errnorm]
    | _, _, _, _, _, _, _, _, _ => "bad-op"
  | "c09.sfixed", [mp, mp2, e] =>
    match floats? [mp, mp2, e] with
    | some [mp, mp2, e] => hexOfFloat (F.sFixed mp mp2 e)
    | _ => "bad-op"
  | "c09.scollider", [mp2, e1, e2] =>
    match floats? [mp2, e1, e2] with
    | some [mp2, e1, e2] => hexOfFloat (F.sCollider mp2 e1 e2)
    | _ => "bad-op"
  | _, _ => "bad-op"

end Gep.Driver.C09

import Model.Util
import Gen.UncertF
namespace Gep.Driver.C18
open Gep Gep.F

def chunksAux (n : Nat) : Nat → List Float → List (List Float)
  | 0, _ => []
  | _, [] => []
  | fuel + 1, l => l.take n :: chunksAux n fuel (l.drop n)

def chunks (n : Nat) (l : List Float) : List (List Float) :=
  if n = 0 then [] else chunksAux n l.length l

/-- `c18.unc n cov(0|1) θ×n h×n f0 up×n down×n [C row-major n×n]`
    The observable enters as its table of values at the 2n+1 evaluation points: the model's `f` looks
    the shifted vector up (exact float comparison of the shifted entry). -/
def handle (op : String) (args : List String) : String :=
  match op, args with
  | "c18.unc", n :: cov :: rest =>
    match n.toNat?, floats? rest with
    | some n, some xs =>
      if xs.length != (if cov == "1" then 4 * n + 1 + n * n else 4 * n + 1) then "bad-op" else
      let θ := xs.take n
      let hs := (xs.drop n).take n
      let f0 := (xs.drop (2 * n)).headD 0
      let ups := (xs.drop (2 * n + 1)).take n
      let downs := (xs.drop (3 * n + 1)).take n
      let C := if cov == "1" then some (chunks n (xs.drop (4 * n + 1))) else none
      -- table lookup: which entry differs from θ, and in which direction
      let f : List Float → Float := fun v =>
        match (v.zip θ).zipIdx.find? (fun p => p.1.1 != p.1.2) with
        | none => f0
        | some ((x, t), i) => if x > t then ups.getD i 0 else downs.getD i 0
      let r := predictUnc f θ hs C
      hexOfFloat r.1 ++ " " ++ hexOfFloat r.2
    | _, _ => "bad-op"
  | _, _ => "bad-op"

end Gep.Driver.C18

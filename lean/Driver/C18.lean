import Model.Util
import Gen.UncertF
import Model.UncLoop
namespace Gep.Driver.C18
open Gep Gep.F

def chunksAux (n : Nat) : Nat → List Float → List (List Float)
  | 0, _ => []
  | _, [] => []
  | fuel + 1, l => l.take n :: chunksAux n fuel (l.drop n)

def chunks (n : Nat) (l : List Float) : List (List Float) :=
  if n = 0 then [] else chunksAux n l.length l

/-- `c18.unc n cov(0|1) θ×n h×n f0 up×n down×n [C row-major n×n]`
    The observable enters as its table of values at the 2n+1 evaluation points: the model's `f` looks
    the shifted vector up (exact float comparison of the shifted entry). -/
def handle (op : String) (args : List String) : String :=
  match op, args with
  | "c18.unc", n :: cov :: rest =>
    match n.toNat?, floats? rest with
    | some n, some xs =>
      if xs.length != (if cov == "1" then 4 * n + 1 + n * n else 4 * n + 1) then "bad-op" else
      let θ := xs.take n
      let hs := (xs.drop n).take n
      let f0 := (xs.drop (2 * n)).headD 0
      let ups := (xs.drop (2 * n + 1)).take n
      let downs := (xs.drop (3 * n + 1)).take n
      let C := if cov == "1" then some (chunks n (xs.drop (4 * n + 1))) else none
      -- table lookup: which entry differs from θ, and in which direction
      let f : List Float → Float := fun v =>
        match (v.zip θ).zipIdx.find? (fun p => p.1.1 != p.1.2) with
        | none => f0
        | some ((x, t), i) => if x > t then ups.getD i 0 else downs.getD i 0
      let r := predictUnc f θ hs C
      hexOfFloat r.1 ++ " " ++ hexOfFloat r.2
    | _, _ => "bad-op"
  | "c18.loop", q :: tgt :: rest =>
    -- `c18.loop <q|-> <target|-> N <names> V <values> P <free parameters> H <error or N per free parameter>`
    -- the observable raises when parameter q has the value `target` (one of its two shifted values), else returns;
    -- prints: the values of every dictionary the observable saw, `=` the final dictionary, ok / exc:<name>
    match splitTok "H" rest with
    | [r1, hsT] =>
      match splitTok "P" r1 with
      | [r2, pars] =>
        match splitTok "V" r2 with
        | ["N" :: names, valsT] =>
          match floats? valsT with
          | some vals =>
            let hs : List (Option Float) := hsT.map fun t => if t == "N" then none else floatOfHex? t
            let herr : String → Option Float := fun p => ((pars.zip hs).find? (·.1 == p)).bind (·.2)
            let target := floatOfHex? tgt
            let ev : List (String × Float) → Gep.Pred.Res Float := fun d =>
              match Gep.Fit.dget d q, target with
              | some x, some t => if x == t then .exc "boom" else .val 0
              | _, _ => .val 0
            let r := Gep.Unc.loop ev (fun m h => m + h / 2) (fun m h => m - h / 2) herr (names.zip vals) pars
            let showD (d : List (String × Float)) := " ".intercalate (d.map fun kv => hexOfFloat kv.2)
            " | ".intercalate (r.trace.map showD) ++ " = " ++ showD r.params ++
              (match r.out with | .val _ => " ok" | .exc e => " exc:" ++ e)
          | none => "bad-op"
        | _ => "bad-op"
      | _ => "bad-op"
    | _ => "bad-op"
  | _, _ => "bad-op"

end Gep.Driver.C18

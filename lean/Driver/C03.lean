import Model.Util
import Gen.AdimF
/-!
  Driver/C03.lean — line protocol for the Float instance of the Adim model (property C03).
  All floats are 16-hex-digit bit patterns; a complex number is two tokens (re im).

    c03.adim  nf prty n SF          → LO qq qg gq gg, NS-LO, NLO qq qg gq gg, NS+ NLO, NS- NLO   (11 complex)
    c03.c1    nf n SF               → c1_F2 (Q G NSP NSM), c1_FL, c1_F1                          (12 complex)
    c03.block nf n SF               → LO 4x4 then NLO 4x4, row-major                             (32 complex)
    c03.c1v   nf j SJ               → c1_V (Q G NSP NSM)                                         (4 complex)
    c03.shift1 rf2 pc SJ            → s_1 (1 complex) | Exception
    c03.C1    rf2 nf sch pc j SF SJ → C_1 (Q G NSP NSM) | Exception
  SF = S1 S2 S2h S3h S2hm S3hm psih psih1 MF2 (complex each) z2 z3 (real);  SJ = S1j S1j1 S1j2 S1j32.
  pc ∈ {DIS, DVCS, other};  sch ∈ {msbar, csbar, other}.
-/
namespace Gep.Driver.C03
open Gep Gep.F Gep.F.Adim

def cxs : List Float → Option (List (Cx Float))
  | [] => some []
  | a :: b :: rest => (cxs rest).map (fun t => ⟨a, b⟩ :: t)
  | _ => none

def showC (z : Cx Float) : String := hexOfFloat z.re ++ " " ++ hexOfFloat z.im
def showCs (zs : List (Cx Float)) : String := joinSp (zs.map showC)
def v4l (v : V4) : List (Cx Float) := [v.Q, v.G, v.NSP, v.NSM]
def m2l (m : M2) : List (Cx Float) := [m.qq, m.qg, m.gq, m.gg]

/-- 20 floats → SF -/
def parseSF (fs : List Float) : Option SF :=
  match fs with
  | [a0, a1, b0, b1, c0, c1, d0, d1, e0, e1, f0, f1, g0, g1, h0, h1, i0, i1, z2, z3] =>
    some { S1 := ⟨a0, a1⟩, S2 := ⟨b0, b1⟩, S2h := ⟨c0, c1⟩, S3h := ⟨d0, d1⟩, S2hm := ⟨e0, e1⟩,
           S3hm := ⟨f0, f1⟩, psih := ⟨g0, g1⟩, psih1 := ⟨h0, h1⟩, MF2 := ⟨i0, i1⟩, z2 := z2, z3 := z3 }
  | _ => none

/-- 8 floats → SJ -/
def parseSJ (fs : List Float) : Option SJ :=
  match fs with
  | [a0, a1, b0, b1, c0, c1, d0, d1] =>
    some { S1j := ⟨a0, a1⟩, S1j1 := ⟨b0, b1⟩, S1j2 := ⟨c0, c1⟩, S1j32 := ⟨d0, d1⟩ }
  | _ => none

def proc? : String → Option Proc
  | "DIS" => some .DIS | "DVCS" => some .DVCS | "other" => some .other | _ => none
def scheme? : String → Option Scheme
  | "msbar" => some .msbar | "csbar" => some .csbar | "other" => some .other | _ => none

def handle (op : String) (args : List String) : String :=
  match op with
  | "c03.adim" =>
    match floats? args with
    | some (nf :: prty :: nre :: nim :: rest) =>
      match parseSF rest with
      | some P =>
        let n : Cx Float := ⟨nre, nim⟩
        showCs (m2l (singlet_LO n nf prty P) ++ [non_singlet_LO n nf prty P] ++
                m2l (singlet_NLO n nf prty P) ++
                [non_singlet_NLO n nf 1 P, non_singlet_NLO n nf (-1) P])
      | none => "bad-op"
    | _ => "bad-op"
  | "c03.c1" =>
    match floats? args with
    | some (nf :: nre :: nim :: rest) =>
      match parseSF rest with
      | some P =>
        let n : Cx Float := ⟨nre, nim⟩
        showCs (v4l (c1_F2 n nf P) ++ v4l (c1_FL n nf P) ++ v4l (c1_F1 n nf P))
      | none => "bad-op"
    | _ => "bad-op"
  | "c03.block" =>
    match floats? args with
    | some (nf :: nre :: nim :: rest) =>
      match parseSF rest with
      | some P =>
        let b := block ⟨nre, nim⟩ nf P
        showCs (b.1.flatten ++ b.2.flatten)
      | none => "bad-op"
    | _ => "bad-op"
  | "c03.c1v" =>
    match floats? args with
    | some (nf :: jre :: jim :: rest) =>
      match parseSJ rest with
      | some J => showCs (v4l (c1_V ⟨jre, jim⟩ nf J))
      | none => "bad-op"
    | _ => "bad-op"
  | "c03.shift1" =>
    match args with
    | rf2 :: pc :: rest =>
      match floatOfHex? rf2, proc? pc, (floats? rest).bind parseSJ with
      | some rf2, some pc, some J =>
        match shift1 rf2 pc J with
        | some s => showC s
        | none => "Exception"
      | _, _, _ => "bad-op"
    | _ => "bad-op"
  | "c03.C1" =>
    match args with
    | rf2 :: nf :: sch :: pc :: jre :: jim :: rest =>
      match floatOfHex? rf2, floatOfHex? nf, scheme? sch, proc? pc, floatOfHex? jre, floatOfHex? jim,
            (floats? (rest.take 20)).bind parseSF, (floats? (rest.drop 20)).bind parseSJ with
      | some rf2, some nf, some sch, some pc, some jre, some jim, some P, some J =>
        match C1 rf2 nf sch pc ⟨jre, jim⟩ P J with
        | some v => showCs (v4l v)
        | none => "Exception"
      | _, _, _, _, _, _, _, _ => "bad-op"
    | _ => "bad-op"
  | _ => "bad-op"

end Gep.Driver.C03

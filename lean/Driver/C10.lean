import Model.Util
import Gen.ChiSqF
namespace Gep.Driver.C10
open Gep Gep.F

def meas : List Float → List Meas
  | p :: v :: e :: ep :: em :: rest => ⟨p, v, e, ep, em⟩ :: meas rest
  | _ => []

/-- `c10.chisq <asym 0|1> <5 hex floats per point>*` → chisq followed by the pulls -/
def handle (op : String) (args : List String) : String :=
  match op, args with
  | "c10.chisq", a :: rest =>
    match floats? rest with
    | some xs =>
      if xs.length % 5 != 0 then "bad-op" else
      let ms := meas xs
      let asym := a == "1"
      joinSp (hexOfFloat (chisq asym ms) :: ms.map (fun m => hexOfFloat (pullOf asym m)))
    | none => "bad-op"
  | "c10.pull", rest =>
    match floats? rest with
    | some [p, v, e, ep, em] => hexOfFloat (pull ⟨p, v, e, ep, em⟩)
    | _ => "bad-op"
  | _, _ => "bad-op"

end Gep.Driver.C10

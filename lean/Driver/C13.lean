import Model.Util
import Gen.ConvF
namespace Gep.Driver.C13
open Gep Gep.F

def optF? (s : String) : Option (Option Float) :=
  if s = "N" then some none else (floatOfHex? s).map some
def optI? (s : String) : Option (Option Int) :=
  if s = "N" then some none else s.toInt?.map some
def showOF : Option Float → String
  | none => "N"
  | some x => hexOfFloat x

/-- tokens: val nerr e1..en phi FTn varphi varFTn trento phiDeg pb [v] -/
def parseCPt (ts : List String) : Option (CPt × List String) := do
  match ts with
  | v :: n :: rest =>
    let val ← floatOfHex? v
    let n ← n.toNat?
    let errs ← floats? (rest.take n)
    match rest.drop n with
    | phi :: ftn :: varphi :: varftn :: tr :: dg :: pb :: more =>
      let phi ← optF? phi
      let ftn ← optI? ftn
      let varphi ← optF? varphi
      let varftn ← optI? varftn
      some ({ val := val, errs := errs, phi := phi, FTn := ftn, varphi := varphi, varFTn := varftn,
              trento := tr == "1", phiDeg := dg == "1", pb := pb == "1" }, more)
    | _ => none
  | _ => none

def showCPt (p : CPt) : String :=
  joinSp (["ok", hexOfFloat p.val] ++ p.errs.map hexOfFloat ++ [showOF p.phi, showOF p.varphi])

def handle (op : String) (args : List String) : String :=
  match op, args with
  | "c13.fill", [m2, xB, w, q2, t, tm] =>
    match floatOfHex? m2, optF? xB, optF? w, optF? q2, optF? t, optF? tm with
    | some m2, some xB, some w, some q2, some t, some tm =>
      match fill m2 { xB := xB, W := w, Q2 := q2, t := t, tm := tm } with
      | .ok k => joinSp ("ok" :: [k.xB, k.W, k.Q2, k.t, k.tm, k.xi].map showOF)
      | .kinematicsError => "KinematicsError"
      | .assertionError => "AssertionError"
      | .zeroDivisionError => "ZeroDivisionError"
      | .valueError => "ValueError"
    | _, _, _, _, _, _ => "bad-op"
  | "c13.toconv", ts =>
    match parseCPt ts with
    | some (p, []) => match toConv p with
      | some q => showCPt q
      | none => "ValueError"
    | _ => "bad-op"
  | "c13.fromconv", ts =>
    match parseCPt ts with
    | some (p, []) => showCPt (fromConv p)
    | _ => "bad-op"
  | "c13.orig", ts =>
    match parseCPt ts with
    | some (p, [v]) => match floatOfHex? v with
      | some v => hexOfFloat (origConv p v)
      | none => "bad-op"
    | _ => "bad-op"
  | _, _ => "bad-op"

end Gep.Driver.C13

import Model.Util
import Gen.MBF
import Driver.C04
/-!
  Driver/C05.lean — protocol operations `c05.*` (CFFs, TFFs, tan factor) on the Float instance of
  Scalar/MB.lean.in.  Line layout and parsing helpers: Driver/C04.lean.
-/
namespace Gep.Driver.C05
open Gep Gep.F Gep.F.Evol Gep.F.MB Gep.Driver.C04

/--
 `c05.tgj j.re j.im`                                                               → tan(π j/2)
 `c05.cff p nf rt mk | asmuf2 asmur2 phi xi t frot(12) pwH(9) pwE(9) <H params(7)> <kaps ns + E params(7)> | points`
        (mk = 0: moments of PWNormGPD from parameters; mk = 2: H_j(8) E_j(8) after each point)  → ReH ImH ReE ImE
 `c05.tff p nf rt mk | asmuf2 asmur2 asQ sqrtQ2 frho phi xi t frot(12) pw(9) <H params(7)> | points` → ReH ImH
-/
def handle (op : String) (args : List String) : String :=
  match op with
  | "c05.tgj" =>
    match floats? args with
    | some [jr, ji] => joinSp (showCx (tgj ⟨jr, ji⟩))
    | _ => "bad-op"
  | "c05.cff" =>
    match sections args with
    | some ([p, nf, rt, mk], asf :: asr :: phi :: xi :: t :: rest, pf) =>
      match takeN 12 rest, ptsOf (if mk = 2 then 16 else 0) pf [] with
      | some (ff, r1), some pts =>
        match takeN 9 r1 with
        | some (ph, r2) =>
          match takeN 9 r2 with
          | some (pe, r3) =>
            match frotOf ff, pwsOf ph, pwsOf pe, momentsOf mk rt t r3 pts 0 with
            | some frot, some pwH, some pwE, some (hres, r4) =>
              match momentsOf (if mk = 2 then 2 else 1) rt t r4 pts 8 with
              | some (eres, []) =>
                match hres, eres with
                | .ok H, .ok E =>
                  match cff p nf asf asr phi xi frot pwH pwE H E (pts.map (·.1)) with
                  | .ok r => joinSp [hx r.1, hx r.2.1, hx r.2.2.1, hx r.2.2.2]
                  | .error e => showErr e
                | .error e, _ => showErr e
                | _, .error e => showErr e
              | _ => "bad-op"
            | _, _, _, _ => "bad-op"
          | none => "bad-op"
        | none => "bad-op"
      | _, _ => "bad-op"
    | _ => "bad-op"
  | "c05.tff" =>
    match sections args with
    | some ([p, nf, rt, mk], asf :: asr :: asq :: sq :: frho :: phi :: xi :: t :: rest, pf) =>
      match takeN 12 rest, ptsOf (if mk = 2 then 8 else 0) pf [] with
      | some (ff, r1), some pts =>
        match takeN 9 r1 with
        | some (ph, r2) =>
          match frotOf ff, pwsOf ph, momentsOf mk rt t r2 pts 0 with
          | some frot, some pw, some (.ok H, []) =>
            match tff p nf asf asr asq sq frho phi xi frot pw H (pts.map (·.1)) with
            | .ok r => joinSp [hx r.1, hx r.2]
            | .error e => showErr e
          | some _, some _, some (.error e, []) => showErr e
          | _, _, _ => "bad-op"
        | none => "bad-op"
      | _, _ => "bad-op"
    | _ => "bad-op"
  | _ => "bad-op"

end Gep.Driver.C05

import Model.Util
import Gen.BmkDispatchF
import Gen.ObsF
import Driver.C06
namespace Gep.Driver.C07
open Gep Gep.F

/-- `c07.obs <name> <set> <target> <weighted> <in2pol> c×4 m×18 pt×22` : flip-based observable at fixed φ -/
def handle (op : String) (args : List String) : String :=
  match op, args with
  | "c07.obs", name :: set :: target :: weighted :: in2pol :: rest =>
    match target.toNat?, floatOfHex? in2pol, (floats? rest).bind (Driver.C06.parse3 Driver.C06.NM Driver.C06.NP) with
    | some tg, some ip, some (c, m, p) =>
      let xs : Obs.XSfun := fun q pol => match xsEval set c m q tg pol (weighted == "1") with
        | some r => r
        | none => none
      let r : Option Float := match name with
        | "_XUU" => Obs.XUU xs p ip
        | "_XLU" => Obs.XLU xs p ip
        | "_XUD" => Obs.XUD xs p ip
        | "_XCLU" => Obs.XCLU xs p ip
        | "_XCUU" => Obs.XCUU xs p ip
        | "_AC" => Obs.AC xs p ip
        | "_ALU" => Obs.ALU xs p ip
        | "_TSA" => Obs.TSA xs p ip
        | "_BTSA" => Obs.BTSA xs p ip
        | "_ALUI" => Obs.ALUI xs p ip
        | "_ALUDVCS" => Obs.ALUDVCS xs p ip
        | "_AUTI" => Obs.AUTI xs p ip
        | "_AUTDVCS" => Obs.AUTDVCS xs p ip
        | "_ALTI" => Obs.CBTSA xs p ip (-1)
        | "_ALTBHDVCS" => Obs.CBTSA xs p ip 1
        | _ => none
      match r with
      | some v => hexOfFloat v
      | none => "none"
    | _, _, _ => "bad-op"
  | _, _ => "bad-op"

end Gep.Driver.C07

import Model.Util
import Gen.EffF
namespace Gep.Driver.C19
open Gep Gep.F

def particle? (s : String) : Option Particle :=
  match s with
  | "absent" => some .absent
  | "p" => some .p
  | "n" => some .n
  | "other" => some .other
  | _ => none

def showEff : EffRes → String
  | .ok v => hexOfFloat v
  | .exception => "Exception"

def showRegion : Region → String
  | .dglap => "dglap"
  | .erbl => "erbl"
  | .outer => "outer"

/-- the abstract integral as a table: the code only ever asks for I(x, ·) and I(-x, ·) -/
def tableI (x ix ix0 imx imx0 : Float) : Float → Bool → Float :=
  fun y zero => if y == x then (if zero then ix0 else ix) else (if zero then imx0 else imx)

def handle (op : String) (args : List String) : String :=
  match op, args with
  | "c19.eff", [model, part, which, t] =>
    match particle? part, floatOfHex? t with
    | some q, some t =>
      match model, which with
      | "kelly", "F1" => showEff (kellyF1 q t)
      | "kelly", "F2" => showEff (kellyF2 q t)
      | "dipole", "F1" => showEff (dipoleF1 q t)
      | "dipole", "F2" => showEff (dipoleF2 q t)
      | _, _ => "bad-op"
    | _, _ => "bad-op"
  | "c19.region", [x, eta] =>
    match floatOfHex? x, floatOfHex? eta with
    | some x, some eta => showRegion (region x eta)
    | _, _ => "bad-op"
  | "c19.val", [x, eta, ix, ix0] =>
    match floats? [x, eta, ix, ix0] with
    | some [x, eta, ix, ix0] => hexOfFloat (gkVal (tableI x ix ix0 ix ix0) x eta)
    | _ => "bad-op"
  | "c19.sea", [x, eta, ix, ix0, imx, imx0] =>
    match floats? [x, eta, ix, ix0, imx, imx0] with
    | some [x, eta, ix, ix0, imx, imx0] =>
      match gkSea (tableI x ix ix0 imx imx0) x eta with
      | some v => hexOfFloat v
      | none => "AssertionError"
    | _ => "bad-op"
  | _, _ => "bad-op"

end Gep.Driver.C19

/-
  Props/C11.lean — property C11: fitter and theory stay in sync; fits move only free parameters.
  Theorems about Model/FitSync.lean, for every history of operations (induction over the op list).
-/
import Model.FitSync
import Mathlib.Data.List.Basic
import Mathlib.Tactic.Basic

namespace Gep.Fit.C11
open Gep.Fit

variable {L V β : Type}

theorem dget_dset (d : List (Name × β)) (k n : Name) (v : β) :
    dget (dset d k v) n = if n = k then some v else dget d n := by
  induction d with
  | nil =>
    by_cases h : n = k
    · simp [dset, dget, h]
    · have : (k == n) = false := by simpa using fun h' => h h'.symm
      simp [dset, dget, h, this]
  | cons kv r ih =>
    obtain ⟨k', v'⟩ := kv
    by_cases hk : k' = k
    · subst hk
      by_cases hn : n = k'
      · simp [dset, dget, hn]
      · have : (k' == n) = false := by simpa using fun h' => hn h'.symm
        simp [dset, dget, hn, this]
    · have hk' : (k' == k) = false := by simpa using hk
      by_cases hn : k' = n
      · have hnk : n ≠ k := fun h' => hk (hn ▸ h')
        simp [dset, dget, hk', hn, hnk]
      · have hn' : (k' == n) = false := by simpa using hn
        simp [dset, dget, hk', hn', ih]

theorem dget_setAll (d : List (Name × β)) (ks : List Name) (v : β) (n : Name) :
    dget (setAll d ks v) n = if n ∈ ks then some v else dget d n := by
  unfold setAll
  induction ks generalizing d with
  | nil => simp
  | cons k ks ih =>
    simp only [List.foldl_cons, ih, dget_dset, List.mem_cons]
    by_cases h1 : n ∈ ks <;> by_cases h2 : n = k <;> simp [h1, h2]

/-- two dictionaries that agree on every key still agree after the same updates -/
theorem dget_updateAll_congr (d e : List (Name × β)) (kvs : List (Name × β))
    (h : ∀ n, dget d n = dget e n) : ∀ n, dget (updateAll d kvs) n = dget (updateAll e kvs) n := by
  unfold updateAll
  induction kvs generalizing d e with
  | nil => simpa using h
  | cons kv kvs ih =>
    simp only [List.foldl_cons]
    apply ih
    intro n; simp [dget_dset, h n]

/-- **Sync**: the fixed/free status and the limits of every parameter are identical in the theory and
    in the minimiser (absent entries meaning "free" / "unlimited" on both sides) -/
def Sync (s : St L V) : Prop :=
  (∀ n, (dget s.tfixed n).getD false = (dget s.mfixed n).getD false) ∧
  (∀ n, dget s.tlimits n = dget s.mlimits n)

theorem sync_init (names : List Name) (vals : List (Name × V)) (tf : List (Name × Bool))
    (tl : List (Name × L)) : Sync (init names vals tf tl) := ⟨fun _ => rfl, fun _ => rfl⟩

/-- every operation — accepted or rejected — preserves Sync -/
theorem sync_step (s : St L V) (op : Op L V) (h : Sync s) : Sync (step s op).1 := by
  obtain ⟨hf, hl⟩ := h
  cases op with
  | fix args =>
    cases args with
    | nil => exact ⟨hf, hl⟩
    | cons a as =>
      simp only [step]
      split
      · exact ⟨fun n => by simp only [dget_setAll]; split <;> simp [hf n], hl⟩
      · split
        · exact ⟨fun n => by simp only [dget_setAll]; split <;> simp [hf n], hl⟩
        · exact ⟨hf, hl⟩
  | release args =>
    simp only [step]
    split
    · exact ⟨fun n => by simp only [dget_setAll]; split <;> simp [hf n], hl⟩
    · exact ⟨hf, hl⟩
  | limit d =>
    simp only [step]
    split
    · exact ⟨hf, dget_updateAll_congr _ _ d hl⟩
    · exact ⟨hf, hl⟩
  | free => exact ⟨hf, hl⟩
  | fit r => exact ⟨hf, hl⟩

/-- hence after ANY finite sequence of fix / release / limit / free_parameters / fit operations,
    including ones rejected for an unknown parameter name, theory and minimiser agree -/
theorem sync_run (s : St L V) (ops : List (Op L V)) (h : Sync s) : Sync (run s ops) := by
  unfold run
  induction ops generalizing s with
  | nil => exact h
  | cons o os ih => exact ih _ (sync_step s o h)

theorem sync_history (names : List Name) (vals : List (Name × V)) (tf : List (Name × Bool))
    (tl : List (Name × L)) (ops : List (Op L V)) : Sync (run (init names vals tf tl) ops) :=
  sync_run _ ops (sync_init names vals tf tl)

/-- in a synchronised state both sides report the same list of free parameters -/
theorem free_agree (s : St L V) (h : Sync s) : tFree s = mFree s := by
  unfold tFree mFree
  apply List.filter_congr
  intro p _; rw [h.1 p]

/-- a rejected operation changes nothing at all -/
theorem rejected_unchanged (s : St L V) (op : Op L V)
    (h : (step s op).2 = .valueError ∨ (step s op).2 = .indexError) : (step s op).1 = s := by
  cases op with
  | fix args =>
    cases args with
    | nil => rfl
    | cons a as =>
      simp only [step] at h ⊢
      split
      · rename_i hc; simp only [hc, if_true] at h; simp at h
      · rename_i hc
        split
        · rename_i hc2; simp only [hc, hc2, if_true, if_false] at h; simp at h
        · rfl
  | release args =>
    simp only [step] at h ⊢
    split
    · rename_i hc; simp only [hc, if_true] at h; simp at h
    · rfl
  | limit d =>
    simp only [step] at h ⊢
    split
    · rename_i hc; simp only [hc, if_true] at h; simp at h
    · rfl
  | free => simp [step] at h
  | fit r => simp [step] at h

/-- an operation naming an unknown parameter is rejected -/
theorem unknown_rejected (s : St L V) (args : List Name) (a : Name) (ha : a ∈ args)
    (hu : a ∉ s.names) (hall : args.head? ≠ some "ALL") :
    (step s (.release args)).2 = .valueError ∧ (step s (.fix args)).2 = .valueError := by
  have hnot : ¬ (args.all (s.names.contains ·) = true) := by
    simp only [List.all_eq_true, not_forall]
    exact ⟨a, ha, by simpa using hu⟩
  constructor
  · simp only [step]; rw [if_neg hnot]
  · cases args with
    | nil => simp at ha
    | cons b bs =>
      have hb : ¬ ((b == "ALL") = true) := by simpa using hall
      simp only [step]; rw [if_neg hb, if_neg hnot]

theorem unknown_limit_rejected (s : St L V) (d : List (Name × L)) (kv : Name × L) (hk : kv ∈ d)
    (hu : kv.1 ∉ s.names) : (step s (.limit d)).2 = .valueError := by
  have hnot : ¬ (d.all (fun kv => s.names.contains kv.1) = true) := by
    simp only [List.all_eq_true, not_forall]
    exact ⟨kv, hk, by simpa using hu⟩
  simp only [step]; rw [if_neg hnot]

theorem dget_none_of_not_mem (d : List (Name × β)) (n : Name) (h : n ∉ d.map (·.1)) : dget d n = none := by
  induction d with
  | nil => rfl
  | cons kv r ih =>
    obtain ⟨k', v'⟩ := kv
    simp only [List.map_cons, List.mem_cons, not_or] at h
    have : (k' == n) = false := by simpa using fun h' => h.1 h'.symm
    simp [dget, this, ih h.2]

theorem dget_updateAll (d kvs : List (Name × β)) (n : Name) (hnd : (kvs.map (·.1)).Nodup) :
    dget (updateAll d kvs) n = match dget kvs n with | some v => some v | none => dget d n := by
  unfold updateAll
  induction kvs generalizing d with
  | nil => simp [dget]
  | cons kv rest ih =>
    obtain ⟨k', v'⟩ := kv
    simp only [List.map_cons, List.nodup_cons] at hnd
    simp only [List.foldl_cons, ih _ hnd.2, dget_dset]
    by_cases hn : n = k'
    · subst hn
      simp [dget, dget_none_of_not_mem rest n hnd.1]
    · have : (k' == n) = false := by simpa using fun h' => hn h'.symm
      simp [dget, this, hn]

/-- after a fit the theory holds exactly the minimiser's value for every parameter the minimiser
    reports (parameter names are unique) -/
theorem fit_values (s : St L V) (r : List (Name × V)) (hnd : (r.map (·.1)).Nodup) (n : Name) (v : V)
    (h : dget r n = some v) :
    dget (step s (.fit r)).1.tvals n = some v ∧ dget (step s (.fit r)).1.mvals n = some v := by
  refine ⟨?_, h⟩
  simp only [step, dget_updateAll _ _ _ hnd, h]

/-- the fit does not touch the fixed / limit status -/
theorem fit_keeps_status (s : St L V) (r : List (Name × V)) :
    (step s (.fit r)).1.tfixed = s.tfixed ∧ (step s (.fit r)).1.mfixed = s.mfixed ∧
    (step s (.fit r)).1.tlimits = s.tlimits ∧ (step s (.fit r)).1.mlimits = s.mlimits := by
  simp [step]

/-- given MIGRAD's contract (a fixed parameter keeps its value in `minuit.values`), fixed parameters
    are unchanged in the theory after the fit -/
theorem fit_fixed_unchanged (s : St L V) (r : List (Name × V)) (hnd : (r.map (·.1)).Nodup) (n : Name)
    (hs : dget s.tvals n = dget s.mvals n)
    (hcontract : dget r n = dget s.mvals n) (hpresent : (dget r n).isSome) :
    dget (step s (.fit r)).1.tvals n = dget s.tvals n := by
  obtain ⟨v, hv⟩ := Option.isSome_iff_exists.mp hpresent
  rw [(fit_values s r hnd n v hv).1, hs, ← hcontract, hv]

/-- the code before the repair did NOT have the property: `release('a', 'bogus')` frees `a` in the
    theory, raises, and leaves the minimiser untouched -/
theorem old_code_refuted :
    let s0 : St Nat Nat := init ["a", "b"] [("a", 1), ("b", 2)] [("a", true), ("b", true)] []
    let s1 := (stepOld s0 (.release ["a", "bogus"])).1
    (stepOld s0 (.release ["a", "bogus"])).2 = .valueError ∧ tFree s1 = ["a"] ∧ mFree s1 = [] := by
  decide

/-- after `covsync` the theory's covariance has an entry for exactly the pairs of free parameters, and
    each entry is the minimiser's entry for that pair of NAMES -/
theorem covsync_entries {C : Type} (free : List Name) (mcov : Name → Name → C) (p1 p2 : Name) (c : C) :
    ((p1, p2), c) ∈ covsync free mcov ↔ p1 ∈ free ∧ p2 ∈ free ∧ c = mcov p1 p2 := by
  unfold covsync
  simp only [List.mem_flatMap, List.mem_map, Prod.mk.injEq]
  constructor
  · rintro ⟨a, ha, b, hb, ⟨rfl, rfl⟩, rfl⟩; exact ⟨ha, hb, rfl⟩
  · rintro ⟨h1, h2, rfl⟩; exact ⟨p1, h1, p2, h2, ⟨rfl, rfl⟩, rfl⟩

/-- indexing the matrix by position in the free list instead (a seeded change) is wrong as soon as the
    free parameters are not the first ones of the model -/
theorem covsync_positional_refuted :
    covsync ["b"] (fun p q => if p == "b" && q == "b" then 7 else 0) = [(("b", "b"), 7)] ∧
    covsyncPositional ["a", "b"] ["b"] (fun p q => if p == "b" && q == "b" then 7 else 0) = [(("b", "b"), 0)] := by
  decide

/-- non-vacuity: a history mixing accepted and rejected operations on a concrete state -/
example : let s0 : St Nat Nat := init ["a", "b", "c"] [("a", 1), ("b", 2), ("c", 3)] [("a", true), ("b", true), ("c", true)] [("a", 7)]
    let s := run s0 [.release ["a", "c"], .release ["b", "bogus"], .limit [("c", 5), ("zz", 1)], .fix ["c"], .limit [("b", 9)]]
    tFree s = ["a"] ∧ mFree s = ["a"] ∧ dget s.tlimits "b" = some 9 ∧ dget s.mlimits "zz" = none := by
  decide

end Gep.Fit.C11

/-
  Props/C11.lean — property C11: fitter and theory stay in sync; fits move only free parameters.
  Theorems about Model/FitSync.lean, for every history of operations (induction over the op list).
-/
import Model.FitSync
import Proofs.FitSync
import Mathlib.Data.List.Basic
import Mathlib.Tactic.Basic

namespace Gep.Fit.C11
open Gep.Fit

variable {L V β : Type} [LimitOK L]

/-- **Sync**: the fixed/free status and the limits of every parameter are identical in the theory and
    in the minimiser (absent entries meaning "free" / "unlimited" on both sides) -/
def Sync (s : St L V) : Prop :=
  (∀ n, (dget s.tfixed n).getD false = (dget s.mfixed n).getD false) ∧
  (∀ n, dget s.tlimits n = dget s.mlimits n)

theorem sync_init (names : List Name) (vals : List (Name × V)) (tf : List (Name × Bool))
    (tl : List (Name × L)) : Sync (init names vals tf tl) := ⟨fun _ => rfl, fun _ => rfl⟩

/-- every operation — accepted or rejected — preserves Sync -/
theorem sync_step (s : St L V) (op : Op L V) (h : Sync s) : Sync (step s op).1 := by
  obtain ⟨hf, hl⟩ := h
  cases op with
  | fix args =>
    cases args with
    | nil => exact ⟨hf, hl⟩
    | cons a as =>
      simp only [step]
      split
      · exact ⟨fun n => by simp only [dget_setAll]; split <;> simp [hf n], hl⟩
      · split
        · exact ⟨fun n => by simp only [dget_setAll]; split <;> simp [hf n], hl⟩
        · exact ⟨hf, hl⟩
  | release args =>
    simp only [step]
    split
    · exact ⟨fun n => by simp only [dget_setAll]; split <;> simp [hf n], hl⟩
    · exact ⟨hf, hl⟩
  | limit d =>
    simp only [step]
    split
    · -- names known: the minimiser validates; either both sides are updated alike, or everything is put back
      split
      · rename_i ml' hm
        have h2 : (mSetLimits s.mlimits d).2 = true := by rw [hm]
        have h1 : ml' = updateAll s.mlimits d := by
          have := mSetLimits_ok s.mlimits d h2; rw [hm] at this; exact this
        exact ⟨hf, by subst h1; exact dget_updateAll_congr _ _ d hl⟩
      · rename_i ml' hm
        refine ⟨hf, fun n => ?_⟩
        have hr := dget_restoreLimits s.mlimits ml' (d.map (·.1))
          (fun m hmn => by
            have := mSetLimits_outside s.mlimits d m hmn; rw [hm] at this; exact this) n
        simp only [List.map_map] at hr
        rw [hl n]; exact hr.symm
    · exact ⟨hf, hl⟩
  | free => exact ⟨hf, hl⟩
  | fit r => exact ⟨hf, hl⟩

/-- hence after ANY finite sequence of fix / release / limit / free_parameters / fit operations,
    including ones rejected for an unknown parameter name, theory and minimiser agree -/
theorem sync_run (s : St L V) (ops : List (Op L V)) (h : Sync s) : Sync (run s ops) := by
  unfold run
  induction ops generalizing s with
  | nil => exact h
  | cons o os ih => exact ih _ (sync_step s o h)

theorem sync_history (names : List Name) (vals : List (Name × V)) (tf : List (Name × Bool))
    (tl : List (Name × L)) (ops : List (Op L V)) : Sync (run (init names vals tf tl) ops) :=
  sync_run _ ops (sync_init names vals tf tl)

/-- in a synchronised state both sides report the same list of free parameters -/
theorem free_agree (s : St L V) (h : Sync s) : tFree s = mFree s := by
  unfold tFree mFree
  apply List.filter_congr
  intro p _; rw [h.1 p]

/-- two states that no observation of the bookkeeping distinguishes: every field equal, the minimiser's limit
    table equal as a map (iminuit stores limits per parameter, not in insertion order) -/
def SameState (s s' : St L V) : Prop :=
  s'.names = s.names ∧ s'.tvals = s.tvals ∧ s'.tfixed = s.tfixed ∧ s'.tlimits = s.tlimits ∧
  s'.mvals = s.mvals ∧ s'.mfixed = s.mfixed ∧ ∀ n, dget s'.mlimits n = dget s.mlimits n

theorem sameState_refl (s : St L V) : SameState s s := ⟨rfl, rfl, rfl, rfl, rfl, rfl, fun _ => rfl⟩

/-- a rejected operation changes nothing at all — whatever the reason of the rejection (unknown name, no
    argument, an interval the minimiser refuses): theory untouched, minimiser's limits put back -/
theorem rejected_unchanged (s : St L V) (op : Op L V)
    (h : (step s op).2 = .valueError ∨ (step s op).2 = .indexError) : SameState s (step s op).1 := by
  cases op with
  | fix args =>
    cases args with
    | nil => exact sameState_refl s
    | cons a as =>
      simp only [step] at h ⊢
      split
      · rename_i hc; simp only [hc, if_true] at h; simp at h
      · rename_i hc
        split
        · rename_i hc2; simp only [hc, hc2, if_true, if_false] at h; simp at h
        · exact sameState_refl s
  | release args =>
    simp only [step] at h ⊢
    split
    · rename_i hc; simp only [hc, if_true] at h; simp at h
    · exact sameState_refl s
  | limit d =>
    simp only [step] at h ⊢
    split
    · rename_i hc
      simp only [hc, if_true] at h
      split
      · rename_i ml' hm; simp only [hm] at h; simp at h
      · rename_i ml' hm
        refine ⟨rfl, rfl, rfl, rfl, rfl, rfl, fun n => ?_⟩
        have hr := dget_restoreLimits s.mlimits ml' (d.map (·.1))
          (fun m hmn => by
            have := mSetLimits_outside s.mlimits d m hmn; rw [hm] at this; exact this) n
        simp only [List.map_map] at hr
        exact hr
    · exact sameState_refl s
  | free => simp [step] at h
  | fit r => simp [step] at h

/-- a limit dictionary with an interval the minimiser refuses (lower > upper) is rejected, although every name
    is known -/
theorem invalid_limit_rejected (s : St L V) (d : List (Name × L)) (kv : Name × L) (hk : kv ∈ d)
    (hv : LimitOK.valid kv.2 = false) : (step s (.limit d)).2 = .valueError := by
  simp only [step]
  split
  · split
    · rename_i ml' hm
      have := mSetLimits_invalid s.mlimits d kv hk hv; rw [hm] at this; simp at this
    · rfl
  · rfl

/-- and a dictionary of known names and acceptable intervals is accepted and stored on both sides -/
theorem valid_limit_accepted (s : St L V) (d : List (Name × L))
    (hn : d.all (fun kv => s.names.contains kv.1) = true) (hv : ∀ kv ∈ d, LimitOK.valid kv.2 = true) :
    (step s (.limit d)).2 = .ok ∧ (step s (.limit d)).1.tlimits = updateAll s.tlimits d ∧
    (step s (.limit d)).1.mlimits = updateAll s.mlimits d := by
  have h2 := mSetLimits_all_valid s.mlimits d hv
  have h1 := mSetLimits_ok s.mlimits d h2
  simp only [step, hn, if_true]
  split
  · rename_i ml' hm; rw [hm] at h1; exact ⟨rfl, rfl, h1⟩
  · rename_i ml' hm; rw [hm] at h2; simp at h2

/-- an operation naming an unknown parameter is rejected -/
theorem unknown_rejected (s : St L V) (args : List Name) (a : Name) (ha : a ∈ args)
    (hu : a ∉ s.names) (hall : args.head? ≠ some "ALL") :
    (step s (.release args)).2 = .valueError ∧ (step s (.fix args)).2 = .valueError := by
  have hnot : ¬ (args.all (s.names.contains ·) = true) := by
    simp only [List.all_eq_true, not_forall]
    exact ⟨a, ha, by simpa using hu⟩
  constructor
  · simp only [step]; rw [if_neg hnot]
  · cases args with
    | nil => simp at ha
    | cons b bs =>
      have hb : ¬ ((b == "ALL") = true) := by simpa using hall
      simp only [step]; rw [if_neg hb, if_neg hnot]

theorem unknown_limit_rejected (s : St L V) (d : List (Name × L)) (kv : Name × L) (hk : kv ∈ d)
    (hu : kv.1 ∉ s.names) : (step s (.limit d)).2 = .valueError := by
  have hnot : ¬ (d.all (fun kv => s.names.contains kv.1) = true) := by
    simp only [List.all_eq_true, not_forall]
    exact ⟨kv, hk, by simpa using hu⟩
  simp only [step]; rw [if_neg hnot]

/-- after a fit the theory holds exactly the minimiser's value for every parameter the minimiser
    reports (parameter names are unique) -/
theorem fit_values (s : St L V) (r : List (Name × V)) (hnd : (r.map (·.1)).Nodup) (n : Name) (v : V)
    (h : dget r n = some v) :
    dget (step s (.fit r)).1.tvals n = some v ∧ dget (step s (.fit r)).1.mvals n = some v := by
  refine ⟨?_, h⟩
  simp only [step, dget_updateAll _ _ _ hnd, h]

/-- the fit does not touch the fixed / limit status -/
theorem fit_keeps_status (s : St L V) (r : List (Name × V)) :
    (step s (.fit r)).1.tfixed = s.tfixed ∧ (step s (.fit r)).1.mfixed = s.mfixed ∧
    (step s (.fit r)).1.tlimits = s.tlimits ∧ (step s (.fit r)).1.mlimits = s.mlimits := by
  simp [step]

/-- given MIGRAD's contract (a fixed parameter keeps its value in `minuit.values`), fixed parameters
    are unchanged in the theory after the fit -/
theorem fit_fixed_unchanged (s : St L V) (r : List (Name × V)) (hnd : (r.map (·.1)).Nodup) (n : Name)
    (hs : dget s.tvals n = dget s.mvals n)
    (hcontract : dget r n = dget s.mvals n) (hpresent : (dget r n).isSome) :
    dget (step s (.fit r)).1.tvals n = dget s.tvals n := by
  obtain ⟨v, hv⟩ := Option.isSome_iff_exists.mp hpresent
  rw [(fit_values s r hnd n v hv).1, hs, ← hcontract, hv]

/-- no operation adds, removes or reorders parameters -/
theorem step_names (s : St L V) (op : Op L V) : (step s op).1.names = s.names := by
  cases op with
  | fix args =>
    cases args with
    | nil => rfl
    | cons a as => simp only [step]; split <;> [rfl; (split <;> rfl)]
  | release args => simp only [step]; split <;> rfl
  | limit d =>
    simp only [step]
    split
    · split <;> rfl
    · rfl
  | free => rfl
  | fit r => rfl

theorem run_names (s : St L V) (ops : List (Op L V)) : (run s ops).names = s.names := by
  unfold run
  induction ops generalizing s with
  | nil => rfl
  | cons o os ih => simp only [List.foldl_cons]; rw [ih, step_names]

/-- only a fit moves parameter values: fix / release / limit / free_parameters leave the theory's and the minimiser's
    values exactly as they were, accepted or rejected -/
theorem nonfit_keeps_values (s : St L V) (op : Op L V) (h : ∀ r, op ≠ .fit r) :
    (step s op).1.tvals = s.tvals ∧ (step s op).1.mvals = s.mvals := by
  cases op with
  | fix args =>
    cases args with
    | nil => exact ⟨rfl, rfl⟩
    | cons a as => simp only [step]; split <;> [exact ⟨rfl, rfl⟩; (split <;> exact ⟨rfl, rfl⟩)]
  | release args => simp only [step]; split <;> exact ⟨rfl, rfl⟩
  | limit d =>
    simp only [step]
    split
    · split <;> exact ⟨rfl, rfl⟩
    · exact ⟨rfl, rfl⟩
  | free => exact ⟨rfl, rfl⟩
  | fit r => exact absurd rfl (h r)

/-- after `fix('ALL')` nothing is free, on either side -/
theorem fix_all_none_free (s : St L V) :
    tFree (step s (.fix ["ALL"])).1 = [] ∧ mFree (step s (.fix ["ALL"])).1 = [] := by
  simp only [step, beq_self_eq_true, if_true, tFree, mFree, List.filter_eq_nil_iff]
  constructor <;> intro p hp <;> simp [dget_setAll, hp]

/-- after an accepted `release(args)` every named parameter is free on both sides, after an accepted `fix(args)` none
    of them is -/
theorem release_frees (s : St L V) (args : List Name) (n : Name) (hn : n ∈ args)
    (hok : (step s (.release args)).2 = .ok) :
    n ∈ tFree (step s (.release args)).1 ∧ n ∈ mFree (step s (.release args)).1 := by
  simp only [step] at hok ⊢
  split at hok
  · rename_i hall
    rw [if_pos hall]
    have hmem : n ∈ s.names := by
      have := (List.all_eq_true.1 hall) n hn
      simpa using this
    simp [tFree, mFree, List.mem_filter, hmem, dget_setAll, hn]
  · cases hok

/-- for the concrete examples below limits are numbers, and 0 stands for an interval the minimiser refuses -/
instance : LimitOK Nat := ⟨fun n => n != 0⟩

/-- the code before the repair did NOT have the property: `release('a', 'bogus')` frees `a` in the
    theory, raises, and leaves the minimiser untouched -/
theorem old_code_refuted :
    let s0 : St Nat Nat := init ["a", "b"] [("a", 1), ("b", 2)] [("a", true), ("b", true)] []
    let s1 := (stepOld s0 (.release ["a", "bogus"])).1
    (stepOld s0 (.release ["a", "bogus"])).2 = .valueError ∧ tFree s1 = ["a"] ∧ mFree s1 = [] := by
  decide

/-- `limit_parameters` before fix 5821560 did NOT have the property either: `limit({'a': (2, 1)})` is rejected by the
    minimiser, but the theory already holds the invalid limit and the minimiser has lost the old one -/
theorem old_limit_refuted :
    let s0 : St Nat Nat := init ["a", "b"] [("a", 1), ("b", 2)] [] [("a", 7)]
    let r := stepOldLimit s0 (.limit [("b", 4), ("a", 0)])
    r.2 = .valueError ∧ dget r.1.tlimits "a" = some 0 ∧ dget r.1.mlimits "a" = none ∧
    dget r.1.tlimits "b" = some 4 ∧ dget r.1.mlimits "b" = some 4 ∧
    -- the repaired code on the same input: rejected, both sides as before
    (step s0 (.limit [("b", 4), ("a", 0)])).2 = .valueError ∧
    dget (step s0 (.limit [("b", 4), ("a", 0)])).1.mlimits "a" = some 7 ∧
    dget (step s0 (.limit [("b", 4), ("a", 0)])).1.mlimits "b" = none ∧
    (step s0 (.limit [("b", 4), ("a", 0)])).1.tlimits = [("a", 7)] := by
  decide

/-- after `covsync` the theory's covariance has an entry for exactly the pairs of free parameters, and
    each entry is the minimiser's entry for that pair of NAMES -/
theorem covsync_entries {C : Type} (free : List Name) (mcov : Name → Name → C) (p1 p2 : Name) (c : C) :
    ((p1, p2), c) ∈ covsync free mcov ↔ p1 ∈ free ∧ p2 ∈ free ∧ c = mcov p1 p2 := by
  unfold covsync
  simp only [List.mem_flatMap, List.mem_map, Prod.mk.injEq]
  constructor
  · rintro ⟨a, ha, b, hb, ⟨rfl, rfl⟩, rfl⟩; exact ⟨ha, hb, rfl⟩
  · rintro ⟨h1, h2, rfl⟩; exact ⟨p1, h1, p2, h2, ⟨rfl, rfl⟩, rfl⟩

/-- indexing the matrix by position in the free list instead (a seeded change) is wrong as soon as the
    free parameters are not the first ones of the model -/
theorem covsync_positional_refuted :
    covsync ["b"] (fun p q => if p == "b" && q == "b" then 7 else 0) = [(("b", "b"), 7)] ∧
    covsyncPositional ["a", "b"] ["b"] (fun p q => if p == "b" && q == "b" then 7 else 0) = [(("b", "b"), 0)] := by
  decide

/-- non-vacuity: a history mixing accepted and rejected operations on a concrete state -/
example : let s0 : St Nat Nat := init ["a", "b", "c"] [("a", 1), ("b", 2), ("c", 3)] [("a", true), ("b", true), ("c", true)] [("a", 7)]
    let s := run s0 [.release ["a", "c"], .release ["b", "bogus"], .limit [("c", 5), ("zz", 1)], .fix ["c"], .limit [("b", 9)],
                     .limit [("c", 6), ("a", 0)]]
    tFree s = ["a"] ∧ mFree s = ["a"] ∧ dget s.tlimits "b" = some 9 ∧ dget s.mlimits "zz" = none ∧
    dget s.mlimits "a" = some 7 ∧ dget s.tlimits "c" = none ∧ dget s.mlimits "c" = none := by
  decide

end Gep.Fit.C11

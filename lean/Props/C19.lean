/-
  Props/C19.lean — property C19: fixed model ingredients reproduce their defining parametrisations
  and integrals.  Statements over ℝ about Gen/EffR.lean (instantiation of Scalar/Eff.lean.in):
  KellyEFF / DipoleEFF with the code's literals, Kelly's published Sachs parametrisation with the
  coefficients as parameters, and the region dispatch of the GK `_val` / `_sea` with the analytic
  double-distribution integrals `_intval` / `_intsea` abstract.

  NOT carried by any theorem here (oracle streams of harness/props/C19.py, labelled as such):
  `_intval` / `_intsea` = the double-distribution integral of the forward profiles, and the
  continuity of their small-skewness Taylor branches at the switch points.
    -- full statement (not proved):  ∀ x ∈ (-1,1), η ∈ (0,1):  H(x,η,t,Q²) =
    --   ∫dβ dα δ(β+ηα-x) h(β,t,Q²) · Γ(2n+2)/(2^{2n+1}Γ(n+1)²) [(1-|β|)²-α²]^n/(1-|β|)^{2n+1}
-/
import Gen.EffR
import Proofs.Eff
import Mathlib.Tactic.Ring
import Mathlib.Tactic.FieldSimp
import Mathlib.Tactic.Linarith
import Mathlib.Tactic.NormNum
import Mathlib.Tactic.Positivity

namespace Gep.R.C19
open Gep.R Gep.R.Eff

/-! ### Kelly: the hard-coded functions are the Sachs combinations of Kelly's rational forms

  `M4` = 4M², τ = -t/M4.  The hypotheses tie each literal of eff.py to a coefficient of Kelly's
  table (literal_k = coefficient/(4M²)^k); the harness compares the coefficients so implied with
  the published table.  No side condition on t: the identities hold wherever both sides are
  defined and (with x/0 = 0) everywhere. -/

/-- `_pF1` = (G_Ep + τ G_Mp)/(1 + τ) -/
theorem kelly_pF1_is_sachs (t M4 a1E b1E b2E b3E mu a1M b1M b2M b3M : ℝ)
    (hτ : (0.28397655354667284 : ℝ) = 1 / M4)
    (ha1E : (0.06815437285120148 : ℝ) = -a1E / M4)
    (hb1E : (3.118062557942468 : ℝ) = b1E / M4)
    (hb2E : (1.0338391956016382 : ℝ) = b2E / M4 ^ 2)
    (hb3E : (0.5031268669574522 : ℝ) = b3E / M4 ^ 3)
    (hmu : (0.7931031653189349 : ℝ) = mu / M4)
    (ha1M : (0.03407718642560074 : ℝ) = a1M / M4)
    (hb1M : (3.115222792407001 : ℝ) = b1M / M4)
    (hb2M : (1.520921000705686 : ℝ) = b2M / M4 ^ 2)
    (hb3M : (0.14999913420898098 : ℝ) = b3M / M4 ^ 3) :
    pF1 t = sachsF1 (kellyG a1E b1E b2E b3E (-t / M4))
                    (mu * kellyG a1M b1M b2M b3M (-t / M4)) (-t / M4) := by
  unfold pF1 pDenE pDenM pDenTau sachsF1 kellyG
  rw [hτ, ha1E, hb1E, hb2E, hb3E, hmu, ha1M, hb1M, hb2M, hb3M]
  ring

/-- `_pF2` = (G_Mp - G_Ep)/(1 + τ) -/
theorem kelly_pF2_is_sachs (t M4 a1E b1E b2E b3E mu a1M b1M b2M b3M : ℝ)
    (hτ : (0.28397655354667284 : ℝ) = 1 / M4)
    (ha1E : (0.06815437285120148 : ℝ) = -a1E / M4)
    (hb1E : (3.118062557942468 : ℝ) = b1E / M4)
    (hb2E : (1.0338391956016382 : ℝ) = b2E / M4 ^ 2)
    (hb3E : (0.5031268669574522 : ℝ) = b3E / M4 ^ 3)
    (hmu : (2.792847351 : ℝ) = mu)
    (ha1M : (0.03407718642560074 : ℝ) = a1M / M4)
    (hb1M : (3.115222792407001 : ℝ) = b1M / M4)
    (hb2M : (1.520921000705686 : ℝ) = b2M / M4 ^ 2)
    (hb3M : (0.14999913420898098 : ℝ) = b3M / M4 ^ 3) :
    pF2 t = sachsF2 (kellyG a1E b1E b2E b3E (-t / M4))
                    (mu * kellyG a1M b1M b2M b3M (-t / M4)) (-t / M4) := by
  unfold pF2 pDenE pDenM pDenTau sachsF2 kellyG
  rw [hτ, ha1E, hb1E, hb2E, hb3E, hmu, ha1M, hb1M, hb2M, hb3M]
  ring

/-- `_nF1` = (G_En + τ G_Mn)/(1 + τ),  G_En = A τ/(1 + B τ) · (1 - t/Λ²)⁻² -/
theorem kelly_nF1_is_sachs (t M4 A B lam2 mu a1M b1M b2M b3M : ℝ)
    (hτ : (0.2831951622975774 : ℝ) = 1 / M4)
    (hA : (0.4842637275288574 : ℝ) = A / M4)
    (hB : (0.9345440355820054 : ℝ) = B / M4)
    (hl : (1.4084507042253522 : ℝ) = 1 / lam2)
    (hmu : (0.5417644379086957 : ℝ) = -mu / M4)
    (ha1M : (0.6598447281533554 : ℝ) = a1M / M4)
    (hb1M : (4.168632789020339 : ℝ) = b1M / M4)
    (hb2M : (1.9408278987597791 : ℝ) = b2M / M4 ^ 2)
    (hb3M : (1.9100884849907935 : ℝ) = b3M / M4 ^ 3) :
    nF1 t = sachsF1 (kellyGEn A B lam2 (-t / M4) t)
                    (mu * kellyG a1M b1M b2M b3M (-t / M4)) (-t / M4) := by
  unfold nF1 nDenE nDenM nDenTau sachsF1 kellyG kellyGEn dipoleGD
  rw [hτ, hA, hB, hl, hmu, ha1M, hb1M, hb2M, hb3M]
  have e1 : 1 - t / lam2 = 1 - 1 / lam2 * t := by ring
  have e2 : 1 + B * (-t / M4) = 1 - B / M4 * t := by ring
  rw [e1, e2]
  generalize 1 - 1 / lam2 * t = u
  generalize 1 - B / M4 * t = v
  ring

/-- `_nF2` = (G_Mn - G_En)/(1 + τ) -/
theorem kelly_nF2_is_sachs (t M4 A B lam2 mu a1M b1M b2M b3M : ℝ)
    (hτ : (0.2831951622975774 : ℝ) = 1 / M4)
    (hA : (0.4842637275288574 : ℝ) = A / M4)
    (hB : (0.9345440355820054 : ℝ) = B / M4)
    (hl : (1.4084507042253522 : ℝ) = 1 / lam2)
    (hmu : (1.9130427 : ℝ) = -mu)
    (ha1M : (0.6598447281533554 : ℝ) = a1M / M4)
    (hb1M : (4.168632789020339 : ℝ) = b1M / M4)
    (hb2M : (1.9408278987597791 : ℝ) = b2M / M4 ^ 2)
    (hb3M : (1.9100884849907935 : ℝ) = b3M / M4 ^ 3) :
    nF2 t = sachsF2 (kellyGEn A B lam2 (-t / M4) t)
                    (mu * kellyG a1M b1M b2M b3M (-t / M4)) (-t / M4) := by
  unfold nF2 nDenE nDenM nDenTau sachsF2 kellyG kellyGEn dipoleGD
  rw [hτ, hA, hB, hl, hmu, ha1M, hb1M, hb2M, hb3M]
  have e1 : 1 - t / lam2 = 1 - 1 / lam2 * t := by ring
  have e2 : 1 + B * (-t / M4) = 1 - B / M4 * t := by ring
  rw [e1, e2]
  generalize 1 - 1 / lam2 * t = u
  generalize 1 - B / M4 * t = v
  ring

/-- the magnetic moments implied by the literals of F1 (μ/4M² with 1/4M² the literal of τ) and of F2 (μ itself) agree
    to better than 4·10⁻¹⁶ (proton) and 2·10⁻¹⁶ (neutron): F1 and F2 are the Sachs combinations of ONE pair (G_E, G_M) up to
    that defect — below the resolution of a double, but not zero, so no exact joint statement exists -/
theorem kelly_mu_consistent :
    |(0.7931031653189349 : ℝ) / 0.28397655354667284 - 2.792847351| < 4e-16 ∧
    |(0.5417644379086957 : ℝ) / 0.2831951622975774 - 1.9130427| < 2e-16 := by
  constructor <;> rw [abs_lt] <;> constructor <;> norm_num

/-- non-vacuity: the hypotheses of the proton theorems are satisfiable (by the implied
    coefficients a_k = literal_k · (4M²)^k with 4M² = 1/0.28397655354667284) -/
example : ∃ M4 a1E b1E b2E b3E mu : ℝ,
    (0.28397655354667284 : ℝ) = 1 / M4 ∧ (0.06815437285120148 : ℝ) = -a1E / M4 ∧
    (3.118062557942468 : ℝ) = b1E / M4 ∧ (1.0338391956016382 : ℝ) = b2E / M4 ^ 2 ∧
    (0.5031268669574522 : ℝ) = b3E / M4 ^ 3 ∧ (0.7931031653189349 : ℝ) = mu / M4 := by
  refine ⟨1 / 0.28397655354667284, -(0.06815437285120148 * (1 / 0.28397655354667284)),
    3.118062557942468 * (1 / 0.28397655354667284),
    1.0338391956016382 * (1 / 0.28397655354667284) ^ 2,
    0.5031268669574522 * (1 / 0.28397655354667284) ^ 3,
    0.7931031653189349 * (1 / 0.28397655354667284), ?_, ?_, ?_, ?_, ?_, ?_⟩ <;> norm_num

/-- … and of the neutron theorems -/
example : ∃ M4 A B lam2 mu : ℝ,
    (0.2831951622975774 : ℝ) = 1 / M4 ∧ (0.4842637275288574 : ℝ) = A / M4 ∧
    (0.9345440355820054 : ℝ) = B / M4 ∧ (1.4084507042253522 : ℝ) = 1 / lam2 ∧
    (0.5417644379086957 : ℝ) = -mu / M4 := by
  refine ⟨1 / 0.2831951622975774, 0.4842637275288574 * (1 / 0.2831951622975774),
    0.9345440355820054 * (1 / 0.2831951622975774), 1 / 1.4084507042253522,
    -(0.5417644379086957 * (1 / 0.2831951622975774)), ?_, ?_, ?_, ?_, ?_⟩ <;> norm_num

/-! ### static limits (the code's literals) -/

/-- F1p(0) = 1, F2p(0) = μ_p - 1, F1n(0) = 0, F2n(0) = μ_n -/
theorem kelly_static_limits :
    pF1 0 = 1 ∧ pF2 0 = 2.792847351 - 1 ∧ nF1 0 = 0 ∧ nF2 0 = -1.9130427 := by
  refine ⟨?_, ?_, ?_, ?_⟩ <;>
    norm_num [pF1, pF2, nF1, nF2, pDenE, pDenM, pDenTau, nDenE, nDenM, nDenTau]

/-! ### no singularity for space-like t -/

/-- every denominator of the Kelly form factors is ≥ 1 for t ≤ 0 (all coefficients of -t are
    positive), so F1, F2 of proton and neutron have no pole for space-like t -/
theorem kelly_denominators_pos (t : ℝ) (ht : t ≤ 0) :
    1 ≤ pDenE t ∧ 1 ≤ pDenM t ∧ 1 ≤ pDenTau t ∧ 1 ≤ nDenE t ∧ 1 ≤ nDenM t ∧ 1 ≤ nDenTau t := by
  have h2 : 0 ≤ t ^ 2 := sq_nonneg t
  have h3 : t ^ 3 ≤ 0 := by
    have : t ^ 3 = t * t ^ 2 := by ring
    rw [this]; exact mul_nonpos_of_nonpos_of_nonneg ht h2
  refine ⟨?_, ?_, ?_, ?_, ?_, ?_⟩
  · unfold pDenE; linarith
  · unfold pDenM; linarith
  · unfold pDenTau; linarith
  · unfold nDenE
    have a : (1:ℝ) ≤ 1 - 1.4084507042253522 * t := by linarith
    have b : (1:ℝ) ≤ 1 - 0.9345440355820054 * t := by linarith
    have a2 : (1:ℝ) ≤ (1 - 1.4084507042253522 * t) ^ 2 := one_le_pow₀ a
    nlinarith
  · unfold nDenM; linarith
  · unfold nDenTau; linarith

/-- the dipole denominator is positive for t ≤ 0 (≥ 0.71²·3.53) -/
theorem dipole_denominator_pos (t : ℝ) (ht : t ≤ 0) : 0.71 ^ 2 * 3.53 ≤ dipDen t := by
  unfold dipDen
  have a : (0.71:ℝ) ≤ 0.71 - t := by linarith
  have b : (3.53:ℝ) ≤ 3.53 - t := by linarith
  have a2 : (0.71:ℝ) ^ 2 ≤ (0.71 - t) ^ 2 := pow_le_pow_left₀ (by norm_num) a 2
  have : (0:ℝ) ≤ (0.71 - t) ^ 2 := by positivity
  nlinarith

/-- the dipole form factors are positive and bounded by their static values throughout the space-like region: no zero,
    no pole, no growth with −t -/
theorem dipole_pos_and_bounded (t : ℝ) (ht : t ≤ 0) :
    0 < dipF1 t ∧ 0 < dipF2 t ∧ dipF2 t ≤ dipF2 0 := by
  have hd := dipole_denominator_pos t ht
  have hd0 : (0:ℝ) < 0.71 ^ 2 * 3.53 := by norm_num
  have hpos : 0 < dipDen t := lt_of_lt_of_le hd0 hd
  have h0 : dipDen 0 = 0.71 ^ 2 * 3.53 := by unfold dipDen; norm_num
  refine ⟨?_, ?_, ?_⟩
  · unfold dipF1; apply div_pos _ hpos; nlinarith
  · unfold dipF2; exact div_pos (by norm_num) hpos
  · unfold dipF2; rw [h0]
    exact div_le_div_of_nonneg_left (by norm_num) hd0 hd

/-- static values of the dipole parametrisation: F1(0) within 0.2 % of the charge 1, F2(0) within 0.3 % of the anomalous
    magnetic moment 1.792847351 -/
theorem dipole_static_values :
    |dipF1 0 - 1| < 0.002 ∧ |dipF2 0 - 1.792847351| < 0.006 := by
  unfold dipF1 dipF2 dipDen
  constructor <;> (rw [abs_lt]; constructor <;> norm_num)

/-! ### DipoleEFF versus the standard dipole G_E = G_D, G_M = μ_p G_D, G_D = (1 - t/0.71)⁻²
  (μ_p = 2.792847351, M_p = 0.938272013 = gepard.constants.Mp).  Holds for ALL t ≤ 0, in particular
  on the property's interval [-10, 0]. -/

theorem dipole_F1_within_one_percent (t : ℝ) (ht : t ≤ 0) :
    |dipF1 t - stdDipoleF1 2.792847351 (4 * 0.938272013 ^ 2) 0.71 t|
      ≤ 0.01 * stdDipoleF1 2.792847351 (4 * 0.938272013 ^ 2) 0.71 t := by
  have hM : (0:ℝ) < 4 * 0.938272013 ^ 2 := by norm_num
  have a : (0:ℝ) < 0.71 - t := by linarith
  have b : (0:ℝ) < 3.53 - t := by linarith
  have c : (0:ℝ) < 4 * 0.938272013 ^ 2 - t := by linarith
  have hden : (0:ℝ) < (0.71 - t) ^ 2 * (3.53 - t) * (4 * 0.938272013 ^ 2 - t) := by positivity
  have key : ∀ k : ℝ, dipF1 t - k * stdDipoleF1 2.792847351 (4 * 0.938272013 ^ 2) 0.71 t =
      (1.41 * (1.26 - t) * (4 * 0.938272013 ^ 2 - t)
          - k * (0.71 ^ 2 * (4 * 0.938272013 ^ 2 - 2.792847351 * t)) * (3.53 - t))
        / ((0.71 - t) ^ 2 * (3.53 - t) * (4 * 0.938272013 ^ 2 - t)) := by
    intro k
    rw [stdF1_closed _ _ _ t hM (by norm_num) ht]; unfold dipF1 dipDen
    field_simp
  rw [abs_le]
  constructor
  · have : 0 ≤ dipF1 t - 0.99 * stdDipoleF1 2.792847351 (4 * 0.938272013 ^ 2) 0.71 t := by
      rw [key 0.99]; apply div_nonneg _ hden.le
      nlinarith [sq_nonneg t]
    linarith
  · have : dipF1 t - 1.01 * stdDipoleF1 2.792847351 (4 * 0.938272013 ^ 2) 0.71 t ≤ 0 := by
      rw [key 1.01]; apply div_nonpos_of_nonpos_of_nonneg _ hden.le
      nlinarith [sq_nonneg t]
    linarith

theorem dipole_F2_within_one_percent (t : ℝ) (ht : t ≤ 0) :
    |dipF2 t - stdDipoleF2 2.792847351 (4 * 0.938272013 ^ 2) 0.71 t|
      ≤ 0.01 * stdDipoleF2 2.792847351 (4 * 0.938272013 ^ 2) 0.71 t := by
  have hM : (0:ℝ) < 4 * 0.938272013 ^ 2 := by norm_num
  have a : (0:ℝ) < 0.71 - t := by linarith
  have b : (0:ℝ) < 3.53 - t := by linarith
  have c : (0:ℝ) < 4 * 0.938272013 ^ 2 - t := by linarith
  have hden : (0:ℝ) < (0.71 - t) ^ 2 * (3.53 - t) * (4 * 0.938272013 ^ 2 - t) := by positivity
  have key : ∀ k : ℝ, dipF2 t - k * stdDipoleF2 2.792847351 (4 * 0.938272013 ^ 2) 0.71 t =
      (3.2 * (4 * 0.938272013 ^ 2 - t)
          - k * (0.71 ^ 2 * (2.792847351 - 1) * (4 * 0.938272013 ^ 2)) * (3.53 - t))
        / ((0.71 - t) ^ 2 * (3.53 - t) * (4 * 0.938272013 ^ 2 - t)) := by
    intro k
    rw [stdF2_closed _ _ _ t hM (by norm_num) ht]; unfold dipF2 dipDen
    field_simp
  rw [abs_le]
  constructor
  · have : 0 ≤ dipF2 t - 0.99 * stdDipoleF2 2.792847351 (4 * 0.938272013 ^ 2) 0.71 t := by
      rw [key 0.99]; apply div_nonneg _ hden.le
      nlinarith
    linarith
  · have : dipF2 t - 1.01 * stdDipoleF2 2.792847351 (4 * 0.938272013 ^ 2) 0.71 t ≤ 0 := by
      rw [key 1.01]; apply div_nonpos_of_nonpos_of_nonneg _ hden.le
      nlinarith
    linarith

/-- non-vacuity / sanity: at t = -1 the dipole F1 is a positive number -/
example : 0 < dipF1 (-1) ∧ 0 < stdDipoleF1 2.792847351 (4 * 0.938272013 ^ 2) 0.71 (-1) := by
  constructor
  · norm_num [dipF1, dipDen]
  · norm_num [stdDipoleF1, sachsF1, dipoleGD]

/-! ### DipoleEFF / KellyEFF particle dispatch -/

/-- Kelly: neutron iff in2particle = 'n', proton otherwise; Dipole: proton only, else raises -/
theorem eff_particle_dispatch (t : ℝ) :
    kellyF1 .n t = .ok (nF1 t) ∧ kellyF2 .n t = .ok (nF2 t) ∧
    (∀ q, q ≠ Particle.n → kellyF1 q t = .ok (pF1 t) ∧ kellyF2 q t = .ok (pF2 t)) ∧
    dipoleF1 .p t = .ok (dipF1 t) ∧ dipoleF2 .p t = .ok (dipF2 t) ∧
    (∀ q, q ≠ Particle.p → dipoleF1 q t = .exception ∧ dipoleF2 q t = .exception) := by
  refine ⟨rfl, rfl, ?_, rfl, rfl, ?_⟩ <;> intro q hq <;> cases q <;> simp_all [kellyF1, kellyF2, dipoleF1, dipoleF2]

/-! ### GK: region dispatch, for abstract DD integrals `I y zero` -/

/-- valence: DGLAP region uses the two-limit integral -/
theorem gkVal_dglap (I : ℝ → Bool → ℝ) (x eta : ℝ) (hx : eta ≤ x) :
    gkVal I x eta = I x false := by
  simp [gkVal, region_dglap x eta hx]

/-- valence: ERBL region uses the integral from β = 0 -/
theorem gkVal_erbl (I : ℝ → Bool → ℝ) (x eta : ℝ) (h1 : -eta < x) (h2 : x < eta) :
    gkVal I x eta = I x true := by
  simp [gkVal, region_erbl x eta h1 h2]

/-- valence support: zero for x ≤ -η -/
theorem gkVal_support (I : ℝ → Bool → ℝ) (x eta : ℝ) (h : 0 < eta) (hx : x ≤ -eta) :
    gkVal I x eta = 0 := by
  simp [gkVal, region_outer x eta h hx]

/-- sea = valence-type dispatch antisymmetrised in x: H_sea(x) = V(x) - V(-x), in all three
    regions (this is the DD integral of the profile continued antisymmetrically to β < 0) -/
theorem gkSea_eq_val_antisymmetrised (I : ℝ → Bool → ℝ) (x eta : ℝ) (h : 0 < eta) :
    gkSea I x eta = some (gkVal I x eta - gkVal I (-x) eta) := by
  have h0 : eta ≥ 0 := le_of_lt h
  rcases le_or_gt eta x with h1 | h1
  · have r1 := region_dglap x eta h1
    have r2 := region_outer (-x) eta h (by linarith)
    simp [gkSea, gkVal, r1, r2, h0]
  · rcases lt_or_ge (-eta) x with h2 | h2
    · have r1 := region_erbl x eta h2 h1
      have r2 := region_erbl (-x) eta (by linarith) (by linarith)
      simp [gkSea, gkVal, r1, r2, h0]
    · have r1 := region_outer x eta h h2
      have r2 := region_dglap (-x) eta (by linarith)
      simp [gkSea, gkVal, r1, r2, h0]

/-- sea antisymmetry: H_sea(-x) = -H_sea(x) for every x and every η > 0 -/
theorem gkSea_antisymmetric (I : ℝ → Bool → ℝ) (x eta : ℝ) (h : 0 < eta) :
    gkSea I (-x) eta = (gkSea I x eta).map (fun v => -v) := by
  rw [gkSea_eq_val_antisymmetrised I x eta h, gkSea_eq_val_antisymmetrised I (-x) eta h]
  simp

/-- `_sea` raises (assert) exactly for negative skewness -/
theorem gkSea_asserts (I : ℝ → Bool → ℝ) (x eta : ℝ) : gkSea I x eta = none ↔ eta < 0 := by
  unfold gkSea
  split_ifs with h
  · simp; linarith
  · simp; linarith

/-- non-vacuity: an ERBL point with a concrete integrand -/
example : gkSea (fun y z => if z then y else 2 * y) (1/4) (1/2) = some (1/2) := by
  rw [gkSea_eq_val_antisymmetrised _ _ _ (by norm_num)]
  rw [gkVal_erbl _ _ _ (by norm_num) (by norm_num), gkVal_erbl _ _ _ (by norm_num) (by norm_num)]
  norm_num

end Gep.R.C19

/-
  Props/C18.lean — property C18: prediction uncertainties are the linear propagation of the fit
  covariance.  Statements over ℝ about Gen/UncertR.lean (instantiation of Scalar/Uncert.lean.in).
-/
import Gen.UncertR
import Model.UncLoop
import Proofs.UncLoop
import Mathlib.Algebra.BigOperators.Group.List.Basic
import Mathlib.Analysis.SpecialFunctions.Sqrt
import Mathlib.Tactic.Ring
import Mathlib.Tactic.FieldSimp

namespace Gep.R.C18
open Gep.R

theorem foldl_add {α : Type} (l : List α) (g : α → ℝ) (a : ℝ) :
    l.foldl (fun acc x => acc + g x) a = a + (l.map g).sum := by
  induction l generalizing a with
  | nil => simp
  | cons x xs ih => simp only [List.foldl_cons, ih, List.map_cons, List.sum_cons]; ring

/-- the covariance contraction is the double sum Σᵢ Σⱼ dᵢ Cᵢⱼ dⱼ -/
theorem varCov_eq_sum (d : List ℝ) (C : List (List ℝ)) :
    varCov d C = ((d.zip C).map fun p => ((d.zip p.2).map fun q => p.1 * q.2 * q.1).sum).sum := by
  unfold varCov
  have h : ∀ (l : List (ℝ × List ℝ)) (a : ℝ),
      l.foldl (fun acc (p : ℝ × List ℝ) =>
        (d.zip p.2).foldl (fun acc2 (q : ℝ × ℝ) => acc2 + p.1 * q.2 * q.1) acc) a =
      a + (l.map fun p => ((d.zip p.2).map fun q => p.1 * q.2 * q.1).sum).sum := by
    intro l
    induction l with
    | nil => intro a; simp
    | cons p ps ih =>
      intro a
      simp only [List.foldl_cons, List.map_cons, List.sum_cons]
      rw [foldl_add (d.zip p.2) (fun q => p.1 * q.2 * q.1) a, ih]; ring
  simpa using h (d.zip C) 0

/-- the diagonal fallback is Σᵢ (dᵢ hᵢ)² -/
theorem varDiag_eq_sum (d hs : List ℝ) :
    varDiag d hs = ((d.zip hs).map fun p => (p.1 * p.2) ^ 2).sum := by
  unfold varDiag
  have := foldl_add (d.zip hs) (fun p => (p.1 * p.2) ^ 2) 0
  simpa using this

/-- the central value returned with the uncertainty is the plain prediction -/
theorem predictUnc_central (f : List ℝ → ℝ) (θ hs : List ℝ) (C : Option (List (List ℝ))) :
    (predictUnc f θ hs C).1 = f θ := rfl

/-- the returned uncertainty is √(dᵀ C d) with d the central differences — or the quadrature sum
    over the individual parameter errors when there is no covariance -/
theorem predictUnc_unc (f : List ℝ → ℝ) (θ hs : List ℝ) :
    (∀ C, (predictUnc f θ hs (some C)).2 = Real.sqrt (varCov (grads f θ hs) C)) ∧
    (predictUnc f θ hs none).2 = Real.sqrt (varDiag (grads f θ hs) hs) := by
  constructor <;> intros <;> rfl

/-- **the returned uncertainty is never negative** (whatever the covariance, whatever the observable) and the
    quadrature-sum variance is a sum of squares.  (Seeded change C18-10: the `orig_conventions` post-processing applied to
    the uncertainty as well returned −√(dᵀCd) for sign-flipping harmonics; the model has no such step, the harness's
    `options` stream evaluates it on the real code.) -/
theorem predictUnc_nonneg (f : List ℝ → ℝ) (θ hs : List ℝ) (C : Option (List (List ℝ))) :
    0 ≤ (predictUnc f θ hs C).2 := by
  unfold predictUnc
  exact Real.sqrt_nonneg _

theorem varDiag_nonneg (d hs : List ℝ) : 0 ≤ varDiag d hs := by
  rw [varDiag_eq_sum]
  apply List.sum_nonneg
  intro x hx
  obtain ⟨p, _, rfl⟩ := List.mem_map.1 hx
  positivity

/-- an observable that does not depend on the free parameters has a vanishing gradient … -/
theorem grads_const (c : ℝ) (θ hs : List ℝ) : ∀ x ∈ grads (fun _ => c) θ hs, x = 0 := by
  intro x hx
  unfold grads at hx
  obtain ⟨p, _, rfl⟩ := List.mem_map.1 hx
  simp [dfdp]

theorem varCov_zero (d : List ℝ) (C : List (List ℝ)) (hd : ∀ x ∈ d, x = 0) : varCov d C = 0 := by
  rw [varCov_eq_sum]
  apply List.sum_eq_zero
  intro x hx
  obtain ⟨p, hp, rfl⟩ := List.mem_map.1 hx
  have h1 : p.1 = 0 := hd _ (List.of_mem_zip hp).1
  apply List.sum_eq_zero
  intro y hy
  obtain ⟨q, _, rfl⟩ := List.mem_map.1 hy
  rw [h1]; ring

theorem varDiag_zero (d hs : List ℝ) (hd : ∀ x ∈ d, x = 0) : varDiag d hs = 0 := by
  rw [varDiag_eq_sum]
  apply List.sum_eq_zero
  intro x hx
  obtain ⟨p, hp, rfl⟩ := List.mem_map.1 hx
  rw [hd _ (List.of_mem_zip hp).1]; ring

/-- … and therefore uncertainty exactly 0, with or without a covariance (parameters the observable does not see —
    e.g. a fixed form-factor slope in a CFF-only observable — contribute nothing) -/
theorem predictUnc_const (c : ℝ) (θ hs : List ℝ) (C : Option (List (List ℝ))) :
    predictUnc (fun _ => c) θ hs C = (c, 0) := by
  unfold predictUnc
  cases C with
  | some C => simp only [varCov_zero _ C (grads_const c θ hs)]; simp [ksqrt]
  | none => simp only [varDiag_zero _ hs (grads_const c θ hs)]; simp [ksqrt]

/-- one free parameter: √(gᵀCg) with C = (σ²) is |g|·|σ|, and the no-covariance fallback gives the same number — the
    two branches of the code agree where they must -/
theorem predictUnc_one_param (f : List ℝ → ℝ) (θ h : ℝ) :
    (predictUnc f [θ] [h] (some [[h ^ 2]])).2 = |dfdp f [θ] h 0| * |h| ∧
    (predictUnc f [θ] [h] none).2 = |dfdp f [θ] h 0| * |h| := by
  have hv : varCov [dfdp f [θ] h 0] [[h ^ 2]] = (dfdp f [θ] h 0 * h) ^ 2 := by
    simp [varCov]; ring
  have hd : varDiag [dfdp f [θ] h 0] [h] = (dfdp f [θ] h 0 * h) ^ 2 := by
    simp [varDiag]
  have hg : grads f [θ] [h] = [dfdp f [θ] h 0] := by simp [grads, List.zipIdx]
  constructor
  · show ksqrt (varCov (grads f [θ] [h]) [[h ^ 2]]) = _
    rw [hg, hv]; unfold ksqrt; rw [Real.sqrt_sq_eq_abs, abs_mul]
  · show ksqrt (varDiag (grads f [θ] [h]) [h]) = _
    rw [hg, hd]; unfold ksqrt; rw [Real.sqrt_sq_eq_abs, abs_mul]

/-- the observable restricted to each coordinate line through θ is a polynomial of degree ≤ 2 in the
    shift: slope `g i` (= ∂f/∂θᵢ at θ), curvature `b i`.  Affine observables have b = 0. -/
def LocallyQuadratic (f : List ℝ → ℝ) (θ : List ℝ) (g b : Nat → ℝ) : Prop :=
  ∀ i d, f (shiftAt θ i d) = f θ + g i * d + b i * d ^ 2

/-- for such an observable the central difference with ANY non-zero step is the exact derivative -/
theorem dfdp_exact (f : List ℝ → ℝ) (θ : List ℝ) (g b : Nat → ℝ) (hq : LocallyQuadratic f θ g b)
    (h : ℝ) (hh : h ≠ 0) (i : Nat) : dfdp f θ h i = g i := by
  unfold dfdp
  rw [hq i (h / 2), hq i (-(h / 2))]
  field_simp
  ring

theorem grads_exact (f : List ℝ → ℝ) (θ hs : List ℝ) (g b : Nat → ℝ) (hq : LocallyQuadratic f θ g b)
    (hh : ∀ h ∈ hs, h ≠ 0) : grads f θ hs = (List.range hs.length).map g := by
  unfold grads
  apply List.ext_getElem
  · simp
  · intro i h1 h2
    simp only [List.getElem_map, List.getElem_zipIdx, List.getElem_range]
    have : hs[i]'(by simpa using h1) ∈ hs := List.getElem_mem _
    simpa using dfdp_exact f θ g b hq _ (hh _ this) i

/-- **Linear propagation.**  If the observable is affine or quadratic along the coordinate lines
    through the parameter point, the returned uncertainty is exactly √(gᵀ C g) with g the gradient,
    whatever the (non-zero) parameter errors used as steps. -/
theorem predictUnc_linear_propagation (f : List ℝ → ℝ) (θ hs : List ℝ) (g b : Nat → ℝ)
    (hq : LocallyQuadratic f θ g b) (hh : ∀ h ∈ hs, h ≠ 0) (C : List (List ℝ)) :
    (predictUnc f θ hs (some C)).2 = Real.sqrt (varCov ((List.range hs.length).map g) C) := by
  rw [(predictUnc_unc f θ hs).1 C, grads_exact f θ hs g b hq hh]

theorem predictUnc_diagonal (f : List ℝ → ℝ) (θ hs : List ℝ) (g b : Nat → ℝ)
    (hq : LocallyQuadratic f θ g b) (hh : ∀ h ∈ hs, h ≠ 0) :
    (predictUnc f θ hs none).2 = Real.sqrt (varDiag ((List.range hs.length).map g) hs) := by
  rw [(predictUnc_unc f θ hs).2, grads_exact f θ hs g b hq hh]

/-- for a general observable the central difference differs from the slope by the odd remainder:
    if f(θ ± δeᵢ) = f θ ± g δ + b δ² + r(±δ) then dfdp − g = (r(h/2) − r(−h/2))/h  (Taylor remainder as
    hypothesis; the bound |…| ≤ third-derivative·h²/24 is not derived here) -/
theorem dfdp_remainder_partial (f : List ℝ → ℝ) (θ : List ℝ) (i : Nat) (g b h : ℝ) (r : ℝ → ℝ) (hh : h ≠ 0)
    (hexp : ∀ d, f (shiftAt θ i d) = f θ + g * d + b * d ^ 2 + r d) :
    dfdp f θ h i - g = (r (h / 2) - r (-(h / 2))) / h := by
  unfold dfdp
  rw [hexp (h / 2), hexp (-(h / 2))]
  field_simp
  ring

/-- non-vacuity: f(θ) = 3 + 2θ₀ − θ₁ + θ₀², steps (0.5, 2), covariance [[4,1],[1,9]] at θ = (1,5) -/
example : LocallyQuadratic (fun θ => 3 + 2 * θ.getD 0 0 - θ.getD 1 0 + (θ.getD 0 0) ^ 2) [1, 5]
    (fun i => if i = 0 then 4 else if i = 1 then -1 else 0) (fun i => if i = 0 then 1 else 0) := by
  intro i d
  match i with
  | 0 => simp [shiftAt, List.zipIdx]; ring
  | 1 => simp [shiftAt, List.zipIdx]; ring
  | (n + 2) => simp [shiftAt, List.zipIdx]

end Gep.R.C18

/-! ### the parameter bookkeeping of `predict(uncertainty=True)` (Model/UncLoop.lean): every evaluation sees the
    caller's parameters with ONE entry shifted, and the dictionary is exactly restored afterwards — also when the
    observable raises -/
namespace Gep.Unc
open Gep.Fit Gep.Pred

variable {V H R : Type}

/-- **the parameters are left exactly as they were**: after the whole loop — completed or ended by an exception of
    the observable at any of its 2·n evaluations — `theory.parameters` is the dictionary it was before -/
theorem loop_params_restored (ev : List (Name × V) → Res R) (up dn : V → H → V) (herr : Name → Option H)
    (ps : List (Name × V)) (pars : List Name) : (loop ev up dn herr ps pars).params = ps := by
  induction pars with
  | nil => rfl
  | cons p rest ih =>
    have hs := stepP_params ev up dn herr ps p
    unfold loop
    rcases hst : stepP ev up dn herr ps p with ⟨ps', tr, r⟩
    rw [hst] at hs
    simp only at hs
    subst hs
    cases r with
    | exc e => rfl
    | val ud => obtain ⟨u, d⟩ := ud; simpa using ih

/-- one pass that returns has evaluated the observable exactly twice -/
theorem stepP_val_trace (ev : List (Name × V) → Res R) (up dn : V → H → V) (herr : Name → Option H)
    (ps : List (Name × V)) (p : Name) (ud : R × R) (h : (stepP ev up dn herr ps p).2.2 = .val ud) :
    (stepP ev up dn herr ps p).2.1.length = 2 := by
  unfold stepP at h ⊢
  cases hh : herr p with
  | none => simp [hh] at h
  | some hv =>
    cases hg : dget ps p with
    | none => simp [hh, hg] at h
    | some mem =>
      simp only [hh, hg] at h ⊢
      cases h1 : ev (dset ps p (up mem hv)) with
      | exc e => simp [h1] at h
      | val u =>
        simp only [h1] at h ⊢
        cases h2 : ev (dset (dset ps p (up mem hv)) p (dn mem hv)) with
        | exc e => simp [h2] at h
        | val d => simp

/-- **a completed loop evaluated the observable exactly 2·n times and returns one (up, down) pair per free
    parameter, in the order of the parameters** — no parameter skipped, none varied twice -/
theorem loop_completed_counts (ev : List (Name × V) → Res R) (up dn : V → H → V) (herr : Name → Option H)
    (ps : List (Name × V)) (pars : List Name) (l : List (Name × R × R))
    (h : (loop ev up dn herr ps pars).out = .val l) :
    (loop ev up dn herr ps pars).trace.length = 2 * pars.length ∧ l.map (·.1) = pars := by
  induction pars generalizing l with
  | nil => simp only [loop] at h ⊢; cases h; simp
  | cons p rest ih =>
    have hs := stepP_params ev up dn herr ps p
    have ht := stepP_val_trace ev up dn herr ps p
    unfold loop at h ⊢
    rcases hst : stepP ev up dn herr ps p with ⟨ps', tr, r⟩
    rw [hst] at hs ht h
    simp only at hs ht h
    subst hs
    cases r with
    | exc e => simp at h
    | val ud =>
      obtain ⟨u, d⟩ := ud
      simp only at h ⊢
      cases ho : (loop ev up dn herr ps' rest).out with
      | exc e => rw [ho] at h; simp at h
      | val l' =>
        rw [ho] at h
        simp only [Res.val.injEq] at h
        subst h
        obtain ⟨i1, i2⟩ := ih l' ho
        have := ht (u, d) rfl
        simp only [List.length_append, List.length_cons, List.map_cons, i1, i2, this]
        exact ⟨by omega, trivial⟩

/-- every dictionary the observable is evaluated at differs from the caller's in exactly the one parameter being
    varied: all other entries are read as they were -/
theorem loop_trace_one_coordinate (ev : List (Name × V) → Res R) (up dn : V → H → V) (herr : Name → Option H)
    (ps : List (Name × V)) (pars : List Name) :
    ∀ d ∈ (loop ev up dn herr ps pars).trace, ∃ p ∈ pars, ∀ n, n ≠ p → dget d n = dget ps n := by
  induction pars with
  | nil => intro d hd; simp [loop] at hd
  | cons p rest ih =>
    intro d hd
    have hs := stepP_params ev up dn herr ps p
    have ht := stepP_trace ev up dn herr ps p
    unfold loop at hd
    rcases hst : stepP ev up dn herr ps p with ⟨ps', tr, r⟩
    rw [hst] at hs ht hd
    simp only at hs ht
    subst hs
    cases r with
    | exc e =>
      simp only at hd
      exact ⟨p, List.mem_cons_self, ht d hd⟩
    | val ud =>
      obtain ⟨u, dd⟩ := ud
      simp only [List.mem_append] at hd
      rcases hd with hd | hd
      · exact ⟨p, List.mem_cons_self, ht d hd⟩
      · obtain ⟨q, hq, hqn⟩ := ih d hd
        exact ⟨q, List.mem_cons_of_mem _ hq, hqn⟩

/-- the loop without `finally` (before fix a0c2b37) did NOT have the property: an observable that raises at the
    shifted point leaves the shifted value behind -/
theorem old_loop_refuted :
    let ps : List (Name × Nat) := [("a", 10), ("b", 20)]
    let ev : List (Name × Nat) → Res Nat := fun d => if dget d "a" = some 11 then .exc "ValueError" else .val 0
    (stepPOld ev (fun m h => m + h) (fun m h => m - h) (fun _ => some 1) ps "a").1 = [("a", 11), ("b", 20)] ∧
    (stepP ev (fun m h => m + h) (fun m h => m - h) (fun _ => some 1) ps "a").1 = ps := by
  decide

/-- non-vacuity: two free parameters, the second evaluation of the second one raises -/
example :
    let ps : List (Name × Nat) := [("a", 10), ("b", 20), ("c", 30)]
    let ev : List (Name × Nat) → Res Nat := fun d => if dget d "b" = some 19 then .exc "boom" else .val ((dget d "a").getD 0)
    let r := loop ev (fun m h => m + h) (fun m h => m - h) (fun _ => some 1) ps ["a", "b"]
    r.params = ps ∧ r.trace.length = 4 ∧ r.out = .exc "boom" := by
  decide


end Gep.Unc

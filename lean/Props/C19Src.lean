/-
  Props/C19Src.lean — property C19, SECOND TIE: the hand-written model is what the current source says.
  Built by the check after Props/C19.lean.  The translator (tools/gen_eff.py) re-reads the formulas from /repo on every run;
  if it does not recognise the shape of the source (a refactoring it was not written for) the second tie is reported as
  unavailable in the evidence and the check relies on the run-time correspondence alone, as for the other properties;
  if it does and a statement below no longer holds, a formula of the source has changed its VALUE: the check then looks
  for a failing input and reports.
-/
import Props.C19
import Proofs.EffBridge

namespace Gep.R.C19
open Gep.R
/-! ### the model is what the current source says (second tie, besides the run-time correspondence)

`Gen/EffSrcR.lean` is written by `tools/gen_eff.py` from the Python AST of src/gepard/eff.py on every run. -/

/-- the four Kelly functions and the two dipole functions as written in eff.py equal the model's, for every t -/
theorem source_form_factors (t : ℝ) :
    EffSrc.pF1 t = pF1 t ∧ EffSrc.pF2 t = pF2 t ∧ EffSrc.nF1 t = nF1 t ∧ EffSrc.nF2 t = nF2 t ∧
    EffSrc.dipF1 t = dipF1 t ∧ EffSrc.dipF2 t = dipF2 t :=
  ⟨EffBridge.pF1_eq t, EffBridge.pF2_eq t, EffBridge.nF1_eq t, EffBridge.nF2_eq t, EffBridge.dipF1_eq t,
    EffBridge.dipF2_eq t⟩

/-- the particle dispatch as written in eff.py is the model's (`eff_particle_dispatch`): Kelly takes the neutron
    functions exactly for `in2particle == 'n'` and the proton ones otherwise, the dipole is defined for 'p' only -/
theorem source_particle_dispatch :
    EffSrc.kellyF1_when = "n" ∧ EffSrc.kellyF1_then = "_nF1" ∧ EffSrc.kellyF1_else = "_pF1" ∧
    EffSrc.kellyF2_when = "n" ∧ EffSrc.kellyF2_then = "_nF2" ∧ EffSrc.kellyF2_else = "_pF2" ∧
    EffSrc.dipF1_when = "p" ∧ EffSrc.dipF2_when = "p" := by decide

end Gep.R.C19

/-
  Props/C15.lean — property C15: the running coupling solves the renormalisation-group equation.
  Statements over ℝ about Gen/CouplingR.lean (instantiation of Scalar/Coupling.lean.in, the model
  of gepard.qcd.beta / _fbeta1 / as2pf); helper lemmas in Proofs/Coupling.lean.

  Normalisation.  `as2pf` takes and returns A = α_s/2π.  Internally the code works with
  a = A/2 = α_s/4π (`a = 0.5 * as0` … `a = 2 * a`), and `beta` holds the coefficients of
      d a / d ln μ² = β₀ a² + β₁ a³ ,   a = α_s/4π .
  The theorems state the equation for a (`a4pi (as2pf …)` = returned value / 2) in the variable
  L = ln(μ²/μ₀²), i.e. r2 = r20 · exp L; for the returned A it reads dA/dL = (β₀/2) A² (+ (β₁/4) A³).

  NOT carried by a theorem (oracle streams of harness/props/C15.py instead): the 1e-4 accuracy of
  the 20-step RK4 against the exact NLO solution, NLO two-step = one-step to that accuracy, and
  monotonicity of the NLO result *as a function of r2* (the theorems give: every step of the
  trajectory decreases, result below / above the reference value).
-/
import Proofs.Coupling

namespace Gep.R.C15
open Gep.R Gep.R.Coupling

/-! ### beta coefficients from the colour factors -/

/-- β₀ = −11 + 2nf/3, β₁ = −102 + 38nf/3 (CA = 3, CF = 4/3, TF = 1/2) -/
theorem beta_lo_nlo (nf : ℝ) :
    beta 0 nf = some (-11 + 2 / 3 * nf) ∧ beta 1 nf = some (-102 + 38 / 3 * nf) := by
  simp [beta, beta0_eq, beta1_eq]

/-- asymptotic freedom at LO: β₀(nf) < 0 (in particular for nf ≤ 6) -/
theorem beta0_neg (nf : ℝ) (h : nf ≤ 16) : beta0 nf < 0 := by
  rw [beta0_eq]; linarith

/-- β₁(nf) < 0 for nf ≤ 8 (in particular for nf ≤ 6) -/
theorem beta1_neg (nf : ℝ) (h : nf ≤ 8) : beta1 nf < 0 := by
  rw [beta1_eq]; linarith

/-- orders beyond NNNLO raise -/
theorem beta_unknown_order (p : Int) (nf : ℝ) (h : p < 0 ∨ 3 < p) : beta p nf = none := by
  have h0 : p ≠ 0 := by omega
  have h1 : p ≠ 1 := by omega
  have h2 : p ≠ 2 := by omega
  have h3 : p ≠ 3 := by omega
  simp [beta, h0, h1, h2, h3]

/-! ### error branches of as2pf -/

theorem as2pf_errors (p : Int) (nf r2 as0 r20 : ℝ) :
    (r20 = 0 → as2pf p nf r2 as0 r20 = .zeroDivisionError) ∧
    (r20 ≠ 0 → r2 / r20 ≤ 0 → as2pf p nf r2 as0 r20 = .valueError) ∧
    (r20 ≠ 0 → 0 < r2 / r20 → p ≠ 0 → p ≠ 1 → as2pf p nf r2 as0 r20 = .valueError) := by
  refine ⟨fun h => by simp [as2pf, h], fun h hq => by simp [as2pf, le_ge_iff_eq_zero, h, hq],
    fun h hq h0 h1 => by simp [as2pf, le_ge_iff_eq_zero, h, not_le.mpr hq, h0, h1]⟩

/-! ### LO: closed form -/

/-- the reference value is returned at the reference scale -/
theorem lo_reference_value (nf as0 r20 : ℝ) (hr : r20 ≠ 0) : as2pf 0 nf r20 as0 r20 = .ok as0 := by
  rw [as2pf_lo nf r20 as0 r20 hr (by rw [div_self hr]; exact one_pos)]
  simp [div_self hr, loDen]

/-- at r2 = r20·e^L the code returns 2·a(L), a(L) = a₀/(1 − β₀ a₀ L), a₀ = as0/2 -/
theorem lo_closed_form (nf as0 r20 L : ℝ) (hr : r20 ≠ 0) (hd : loDen nf as0 L ≠ 0) :
    as2pf 0 nf (r20 * Real.exp L) as0 r20 = .ok (2 * aLO (beta0 nf) (0.5 * as0) L) := by
  have hq : r20 * Real.exp L / r20 = Real.exp L := by field_simp
  rw [as2pf_lo nf _ as0 r20 hr (by rw [hq]; exact Real.exp_pos L), hq, Real.log_exp, if_neg hd]
  congr 1
  rw [aLO, ← loDen_eq, half_eq]
  ring

/-- running in two steps equals running in one (exactly): r20 → r1 → r2 versus r20 → r2 -/
theorem lo_two_step (nf as0 r20 r1 r2 A1 A2 : ℝ) (h0 : 0 < r20) (h1 : 0 < r1) (h2 : 0 < r2)
    (e1 : as2pf 0 nf r1 as0 r20 = .ok A1) (e2 : as2pf 0 nf r2 as0 r20 = .ok A2) :
    as2pf 0 nf r2 A1 r1 = .ok A2 := by
  rw [as2pf_lo nf r1 as0 r20 h0.ne' (div_pos h1 h0)] at e1
  rw [as2pf_lo nf r2 as0 r20 h0.ne' (div_pos h2 h0)] at e2
  rw [as2pf_lo nf r2 A1 r1 h1.ne' (div_pos h2 h1)]
  split at e1
  · cases e1
  rename_i d1
  split at e2
  · cases e2
  rename_i d2
  injection e1 with e1
  injection e2 with e2
  have hL : Real.log (r2 / r20) = Real.log (r1 / r20) + Real.log (r2 / r1) := by
    rw [← Real.log_mul (div_pos h1 h0).ne' (div_pos h2 h1).ne']
    congr 1
    field_simp
  set L1 := Real.log (r1 / r20)
  set L2 := Real.log (r2 / r1)
  rw [loDen_eq] at d1 d2 e1 e2
  rw [hL] at d2 e2
  have hA1 : A1 = 2 * aLO (beta0 nf) (0.5 * as0) L1 := by
    rw [← e1, aLO, half_eq]; ring
  have hden : loDen nf A1 L2
      = (1 - beta0 nf * (0.5 * as0) * (L1 + L2)) / (1 - beta0 nf * (0.5 * as0) * L1) := by
    rw [loDen_eq, hA1, ← aLO_den_compose _ _ _ _ d1]; ring
  have hne : loDen nf A1 L2 ≠ 0 := by rw [hden]; exact div_ne_zero d2 d1
  rw [if_neg hne, hden, ← e2, ← e1, div_div_div_cancel_right₀ d1]

/-- **running there and back again returns the reference value** (exactly, at LO): r20 → r1 → r20 -/
theorem lo_round_trip (nf as0 r20 r1 A1 : ℝ) (h0 : 0 < r20) (h1 : 0 < r1)
    (e1 : as2pf 0 nf r1 as0 r20 = .ok A1) : as2pf 0 nf r20 A1 r1 = .ok as0 :=
  lo_two_step nf as0 r20 r1 r20 A1 as0 h0 h1 h0 e1 (lo_reference_value nf as0 r20 h0.ne')

/-- the choice of the reference point is immaterial: two callers that describe the same coupling through different
    reference points (r20, as0) and (r1, A1) get the same value at every scale -/
theorem lo_reference_point_immaterial (nf as0 r20 r1 r2 A1 A2 : ℝ) (h0 : 0 < r20) (h1 : 0 < r1) (h2 : 0 < r2)
    (e1 : as2pf 0 nf r1 as0 r20 = .ok A1) (e2 : as2pf 0 nf r2 as0 r20 = .ok A2) :
    as2pf 0 nf r2 A1 r1 = as2pf 0 nf r2 as0 r20 := by
  rw [lo_two_step nf as0 r20 r1 r2 A1 A2 h0 h1 h2 e1 e2, e2]

/-- the LO result solves d a/d ln μ² = β₀ a², a = α_s/4π = (returned value)/2, wherever defined -/
theorem lo_solves_rge (nf as0 r20 L : ℝ) (hr : r20 ≠ 0) (hd : loDen nf as0 L ≠ 0) :
    HasDerivAt (fun l => a4pi (as2pf 0 nf (r20 * Real.exp l) as0 r20))
      (beta0 nf * (a4pi (as2pf 0 nf (r20 * Real.exp L) as0 r20)) ^ 2) L := by
  have hc : ContinuousAt (fun l => loDen nf as0 l) L := by unfold loDen; fun_prop
  have hev : (fun l => a4pi (as2pf 0 nf (r20 * Real.exp l) as0 r20))
      =ᶠ[nhds L] fun l => aLO (beta0 nf) (0.5 * as0) l := by
    filter_upwards [hc.eventually_ne hd] with l hl
    rw [lo_closed_form nf as0 r20 l hr hl]; simp [a4pi]
  rw [lo_closed_form nf as0 r20 L hr hd]
  have hval : a4pi (.ok (2 * aLO (beta0 nf) (0.5 * as0) L)) = aLO (beta0 nf) (0.5 * as0) L := by
    simp [a4pi]
  rw [hval]
  exact (aLO_hasDerivAt _ _ _ (by rw [← loDen_eq]; exact hd)).congr_of_eventuallyEq hev

/-- the same equation for the returned A = α_s/2π = 2a:  dA/dL = (β₀/2) A² -/
theorem lo_solves_rge_returned (nf as0 r20 L : ℝ) (hr : r20 ≠ 0) (hd : loDen nf as0 L ≠ 0) :
    HasDerivAt (fun l => 2 * a4pi (as2pf 0 nf (r20 * Real.exp l) as0 r20))
      (beta0 nf / 2 * (2 * a4pi (as2pf 0 nf (r20 * Real.exp L) as0 r20)) ^ 2) L := by
  have := (lo_solves_rge nf as0 r20 L hr hd).const_mul 2
  rw [show beta0 nf / 2 * (2 * a4pi (as2pf 0 nf (r20 * Real.exp L) as0 r20)) ^ 2
      = 2 * (beta0 nf * a4pi (as2pf 0 nf (r20 * Real.exp L) as0 r20) ^ 2) by ring]
  exact this

/-- strictly decreasing in the scale (β₀ < 0, as0 > 0) on the branch where the denominator is
    positive; the value stays positive -/
theorem lo_strictly_decreasing (nf as0 r20 r2 r2' : ℝ) (hnf : nf ≤ 16) (ha : 0 < as0)
    (hr : 0 < r20) (h2 : 0 < r2) (h22 : r2 < r2')
    (hd : 0 < loDen nf as0 (Real.log (r2 / r20))) :
    ∃ A A', as2pf 0 nf r2 as0 r20 = .ok A ∧ as2pf 0 nf r2' as0 r20 = .ok A' ∧
      0 < A' ∧ A' < A := by
  have hb := beta0_neg nf hnf
  have h2' : 0 < r2' := h2.trans h22
  have hL : Real.log (r2 / r20) < Real.log (r2' / r20) :=
    Real.log_lt_log (div_pos h2 hr) (div_lt_div_of_pos_right h22 hr)
  have hba : beta0 nf * (0.5 * as0) < 0 := mul_neg_of_neg_of_pos hb (by positivity)
  have hd' : 0 < loDen nf as0 (Real.log (r2' / r20)) := by
    rw [loDen_eq] at hd ⊢; nlinarith
  refine ⟨_, _, ?_, ?_, div_pos ha hd', div_lt_div_of_pos_left ha hd ?_⟩
  · rw [as2pf_lo nf r2 as0 r20 hr.ne' (div_pos h2 hr), if_neg hd.ne']
  · rw [as2pf_lo nf r2' as0 r20 hr.ne' (div_pos h2' hr), if_neg hd'.ne']
  · rw [loDen_eq, loDen_eq]; nlinarith

/-- above the reference scale the denominator is ≥ 1, so the previous theorem applies there
    unconditionally; below it, down to the Landau pole ln(r2/r20) > 2/(β₀ as0) -/
theorem lo_denominator_positive (nf as0 r20 r2 : ℝ) (hnf : nf ≤ 16) (ha : 0 < as0) (hr : 0 < r20)
    (h : r20 ≤ r2 ∨ 2 / (beta0 nf * as0) < Real.log (r2 / r20)) :
    0 < loDen nf as0 (Real.log (r2 / r20)) := by
  have hb := beta0_neg nf hnf
  have hba : beta0 nf * as0 < 0 := mul_neg_of_neg_of_pos hb ha
  unfold loDen
  rcases h with h | h
  · have : 0 ≤ Real.log (r2 / r20) := Real.log_nonneg (by rw [le_div_iff₀ hr]; linarith)
    nlinarith
  · rw [div_lt_iff_of_neg hba] at h
    nlinarith

example : ∃ A A', as2pf 0 3 8 0.3 4 = .ok A ∧ as2pf 0 3 16 0.3 4 = .ok A' ∧ 0 < A' ∧ A' < A :=
  lo_strictly_decreasing 3 0.3 4 8 16 (by norm_num) (by norm_num) (by norm_num) (by norm_num)
    (by norm_num) (lo_denominator_positive 3 0.3 4 8 (by norm_num) (by norm_num) (by norm_num)
      (Or.inl (by norm_num)))

/-! ### NLO: 20 Runge–Kutta steps -/

/-- the reference value is returned exactly at the reference scale (step size 0) -/
theorem nlo_reference_value (nf as0 r20 : ℝ) (hr : r20 ≠ 0) : as2pf 1 nf r20 as0 r20 = .ok as0 := by
  rw [as2pf_nlo nf r20 as0 r20 hr (by rw [div_self hr]; exact one_pos)]
  simp only [div_self hr, Real.log_one, zero_div, rk4Loop_zero]
  congr 1
  rw [half_eq]; ring

/- Full statement (NOT proved; oracle stream `oracle.accuracy`): on the box,
     |as2pf 1 nf r2 as0 r20 − 2·a(ln(r2/r20))| ≤ 1e-4 · 2·a(…),  a the exact solution of
     a' = β₀a² + β₁a³, a(0) = as0/2.
   Proved part: the loop integrates *this* equation — the RK4 increment is first-order consistent
   with the right-hand side `_fbeta1` (d/dΔL of one step at ΔL = 0 is β₀a² + β₁a³).  Missing: the
   order-4 local error bound and its accumulation over 20 steps. -/
theorem rk4_step_consistent_partial (nf a : ℝ) :
    HasDerivAt (fun h => rk4Step nf h a) (fbeta1 a nf) 0 := by
  let G : ℝ → ℝ := fun h =>
    (fbeta1 a nf + 2 * fbeta1 (a + 0.5 * (h * fbeta1 a nf)) nf
      + 2 * fbeta1 (a + 0.5 * (h * fbeta1 (a + 0.5 * (h * fbeta1 a nf)) nf)) nf
      + fbeta1 (a + h * fbeta1 (a + 0.5 * (h * fbeta1 (a + 0.5 * (h * fbeta1 a nf)) nf)) nf) nf) / 6
  have hG : DifferentiableAt ℝ G 0 := by
    simp only [G, fbeta1]; fun_prop
  have hE : (fun h => rk4Step nf h a) = fun h => a + h * G h := by
    funext h; simp only [G, rk4Step]; ring
  have hG0 : G 0 = fbeta1 a nf := by simp only [G]; ring_nf
  rw [hE]
  have := ((hasDerivAt_id (0:ℝ)).mul hG.hasDerivAt).const_add a
  simp only [id, one_mul, zero_mul, add_zero, hG0] at this
  exact this

/-- `_fbeta1` is the NLO right-hand side β₀a² + β₁a³ with the coefficients of `beta` -/
theorem fbeta1_is_rge_rhs (nf a : ℝ) :
    fbeta1 a nf = (-11 + 2 / 3 * nf) * a ^ 2 + (-102 + 38 / 3 * nf) * a ^ 3 := by
  rw [fbeta1, beta0_eq, beta1_eq]; ring

/-- one forward step (ΔL > 0) strictly decreases a, keeps it positive and keeps the step-size
    condition  ΔL · a · |β₀ + a β₁| < 1  (so the statement iterates) -/
theorem rk4_step_decreases (nf h a : ℝ) (hnf : nf ≤ 8) (hh : 0 < h) (ha : 0 < a)
    (hok : StepOK nf h a) :
    0 < rk4Step nf h a ∧ rk4Step nf h a < a ∧ StepOK nf h (rk4Step nf h a) := by
  have hb0 := beta0_neg nf (by linarith)
  have hb1 := beta1_neg nf hnf
  obtain ⟨hp, hl⟩ := rk4Step_forward nf h a hb0 hb1.le hh ha hok
  exact ⟨hp, hl, StepOK_mono nf h a _ hb0.le hb1.le hh.le hp.le hl.le hok⟩

/-- one backward step (ΔL < 0) strictly increases a; no step-size condition -/
theorem rk4_step_increases_backward (nf h a : ℝ) (hnf : nf ≤ 8) (hh : h < 0) (ha : 0 < a) :
    a < rk4Step nf h a :=
  rk4Step_backward nf h a (beta0_neg nf (by linarith)) (beta1_neg nf hnf).le hh ha

/-- the step-size condition holds on the property's box:
    0 ≤ nf ≤ 6, as0 ≤ 0.1, r20 ≤ r2 ≤ 10⁶ r20 -/
theorem stepOK_on_domain (nf as0 r20 r2 : ℝ) (hnf0 : 0 ≤ nf) (hnf : nf ≤ 6) (ha : 0 < as0)
    (ha1 : as0 ≤ 0.1) (hr : 0 < r20) (h2 : r20 ≤ r2) (h26 : r2 ≤ 1000000 * r20) :
    StepOK nf (Real.log (r2 / r20) / 20) (0.5 * as0) := by
  have hq1 : 1 ≤ r2 / r20 := by rw [le_div_iff₀ hr]; linarith
  have hq6 : r2 / r20 ≤ 1000000 := by rw [div_le_iff₀ hr]; exact h26
  have hL0 : 0 ≤ Real.log (r2 / r20) := Real.log_nonneg hq1
  have hL : Real.log (r2 / r20) ≤ 20 := log_le_twenty _ (by linarith) hq6
  unfold StepOK
  rw [beta0_eq, beta1_eq]
  set h := Real.log (r2 / r20) / 20 with hh
  have hh0 : 0 ≤ h := by rw [hh]; positivity
  have hh1 : h ≤ 1 := by rw [hh]; linarith
  set a := 0.5 * as0 with haa
  have ha0 : 0 < a := by rw [haa]; positivity
  have ha5 : a ≤ 0.05 := by rw [haa]; norm_num at ha1 ⊢; linarith
  have hB : -(-11 + 2 / 3 * nf + a * (-102 + 38 / 3 * nf)) ≤ 11 + a * 102 := by nlinarith
  have hB0 : 0 ≤ 11 + a * 102 := by positivity
  have hB2 : 11 + a * 102 ≤ 16.1 := by norm_num at ha5 ⊢; linarith
  have hC : a * (-(-11 + 2 / 3 * nf + a * (-102 + 38 / 3 * nf))) ≤ 0.05 * 16.1 := by
    calc a * (-(-11 + 2 / 3 * nf + a * (-102 + 38 / 3 * nf))) ≤ a * (11 + a * 102) :=
          mul_le_mul_of_nonneg_left hB ha0.le
      _ ≤ 0.05 * 16.1 := mul_le_mul ha5 hB2 hB0 (by norm_num)
  have hC0 : 0 ≤ a * (-(-11 + 2 / 3 * nf + a * (-102 + 38 / 3 * nf))) := by
    apply mul_nonneg ha0.le
    nlinarith
  calc h * a * (-(-11 + 2 / 3 * nf + a * (-102 + 38 / 3 * nf)))
      = h * (a * (-(-11 + 2 / 3 * nf + a * (-102 + 38 / 3 * nf)))) := by ring
    _ ≤ 1 * (0.05 * 16.1) := mul_le_mul hh1 hC hC0 (by norm_num)
    _ < 1 := by norm_num

/-- on the box, above the reference scale: every one of the 20 iterates is positive and strictly
    below the previous one -/
theorem nlo_trajectory_decreasing (nf as0 r20 r2 : ℝ) (hnf0 : 0 ≤ nf) (hnf : nf ≤ 6) (ha : 0 < as0)
    (ha1 : as0 ≤ 0.1) (hr : 0 < r20) (h2 : r20 < r2) (h26 : r2 ≤ 1000000 * r20) (n : Nat) :
    0 < rk4Loop nf (Real.log (r2 / r20) / 20) (List.range' 1 (n + 1)) (0.5 * as0) ∧
    rk4Loop nf (Real.log (r2 / r20) / 20) (List.range' 1 (n + 1)) (0.5 * as0)
      < rk4Loop nf (Real.log (r2 / r20) / 20) (List.range' 1 n) (0.5 * as0) := by
  have hb0 := beta0_neg nf (by linarith)
  have hb1 := beta1_neg nf (by linarith)
  have hok := stepOK_on_domain nf as0 r20 r2 hnf0 hnf ha ha1 hr h2.le h26
  have hh : 0 < Real.log (r2 / r20) / 20 :=
    div_pos (Real.log_pos (by rw [lt_div_iff₀ hr]; linarith)) (by norm_num)
  have ha0 : (0 : ℝ) < 0.5 * as0 := by positivity
  obtain ⟨p, q, _⟩ := rk4Loop_forward nf _ hb0 hb1.le hh (List.range' 1 n) _ ha0 hok
  have hok' := StepOK_mono nf _ _ _ hb0.le hb1.le hh.le p.le q hok
  rw [List.range'_concat, rk4Loop_append]
  obtain ⟨p', _, r'⟩ := rk4Loop_forward nf _ hb0 hb1.le hh [1 + 1 * n] _ p hok'
  exact ⟨p', r' (by simp)⟩

/-- on the box, above the reference scale, the NLO result is positive and below the reference value -/
theorem nlo_below_reference (nf as0 r20 r2 : ℝ) (hnf0 : 0 ≤ nf) (hnf : nf ≤ 6) (ha : 0 < as0)
    (ha1 : as0 ≤ 0.1) (hr : 0 < r20) (h2 : r20 < r2) (h26 : r2 ≤ 1000000 * r20) :
    ∃ A, as2pf 1 nf r2 as0 r20 = .ok A ∧ 0 < A ∧ A < as0 := by
  have hb0 := beta0_neg nf (by linarith)
  have hb1 := beta1_neg nf (by linarith)
  have hok := stepOK_on_domain nf as0 r20 r2 hnf0 hnf ha ha1 hr h2.le h26
  have hq : 0 < r2 / r20 := div_pos (hr.trans h2) hr
  have hh : 0 < Real.log (r2 / r20) / 20 :=
    div_pos (Real.log_pos (by rw [lt_div_iff₀ hr]; linarith)) (by norm_num)
  have ha0 : (0 : ℝ) < 0.5 * as0 := by positivity
  obtain ⟨p, _, r⟩ := rk4Loop_forward nf _ hb0 hb1.le hh (List.range' 1 NASTPS) _ ha0 hok
  refine ⟨_, as2pf_nlo nf r2 as0 r20 hr.ne' hq, by positivity, ?_⟩
  have := r (by simp [NASTPS])
  norm_num at this ⊢
  linarith

/-- below the reference scale the NLO result is above the reference value (any as0 > 0, nf ≤ 8) -/
theorem nlo_above_reference_backward (nf as0 r20 r2 : ℝ) (hnf : nf ≤ 8) (ha : 0 < as0)
    (hr : 0 < r20) (h2 : 0 < r2) (h22 : r2 < r20) :
    ∃ A, as2pf 1 nf r2 as0 r20 = .ok A ∧ as0 < A := by
  have hb0 := beta0_neg nf (by linarith)
  have hb1 := beta1_neg nf hnf
  have hq : 0 < r2 / r20 := div_pos h2 hr
  have hh : Real.log (r2 / r20) / 20 < 0 :=
    div_neg_of_neg_of_pos (Real.log_neg hq (by rw [div_lt_one hr]; exact h22)) (by norm_num)
  have ha0 : (0 : ℝ) < 0.5 * as0 := by positivity
  obtain ⟨_, r⟩ := rk4Loop_backward nf _ hb0 hb1.le hh (List.range' 1 NASTPS) _ ha0
  refine ⟨_, as2pf_nlo nf r2 as0 r20 hr.ne' hq, ?_⟩
  have := r (by simp [NASTPS])
  norm_num at this ⊢
  linarith

/-- non-vacuity: nf = 3, as0 = 0.1, r20 = 2.5 → r2 = 100 lies in the box -/
example : ∃ A, as2pf 1 3 100 0.1 2.5 = .ok A ∧ 0 < A ∧ A < 0.1 :=
  nlo_below_reference 3 0.1 2.5 100 (by norm_num) (by norm_num) (by norm_num) (by norm_num)
    (by norm_num) (by norm_num) (by norm_num)

example : ∃ A, as2pf 1 4 1 0.05 2.5 = .ok A ∧ 0.05 < A :=
  nlo_above_reference_backward 4 0.05 2.5 1 (by norm_num) (by norm_num) (by norm_num)
    (by norm_num) (by norm_num)

/-! ### which integrator the loop is: the classical Runge–Kutta tableau and its order conditions -/

/-- a general explicit 4-stage Runge–Kutta step for an autonomous equation a' = f(a): stage matrix `A` (strictly
    lower triangular), weights `b` -/
def rkStep (f : ℝ → ℝ) (a21 a31 a32 a41 a42 a43 b1 b2 b3 b4 : ℝ) (h a : ℝ) : ℝ :=
  let k1 := f a
  let k2 := f (a + h * (a21 * k1))
  let k3 := f (a + h * (a31 * k1 + a32 * k2))
  let k4 := f (a + h * (a41 * k1 + a42 * k2 + a43 * k3))
  a + h * (b1 * k1 + b2 * k2 + b3 * k3 + b4 * k4)

/-- the loop body of `as2pf` IS the classical Runge–Kutta method: stages at 0, ½, ½, 1 with the single sub-diagonal
    (½, ½, 1) and weights (1/6, 1/3, 1/3, 1/6), applied to a' = β₀a² + β₁a³ -/
theorem rk4Step_is_classical_tableau (nf h a : ℝ) :
    rk4Step nf h a = rkStep (fun x => fbeta1 x nf) (1/2) 0 (1/2) 0 0 1 (1/6) (1/3) (1/3) (1/6) h a := by
  simp only [rk4Step, rkStep]
  -- stage by stage, with the values of the right-hand side as atoms (expanding the cubic through four stages
  -- would be a polynomial of degree 81)
  have e2 : a + 0.5 * (h * fbeta1 a nf) = a + h * (1 / 2 * fbeta1 a nf) := by ring
  rw [e2]
  generalize fbeta1 a nf = k1
  have e3 : a + 0.5 * (h * fbeta1 (a + h * (1 / 2 * k1)) nf) =
      a + h * (0 * k1 + 1 / 2 * fbeta1 (a + h * (1 / 2 * k1)) nf) := by ring
  rw [e3]
  generalize fbeta1 (a + h * (1 / 2 * k1)) nf = k2
  have e4 : a + h * fbeta1 (a + h * (0 * k1 + 1 / 2 * k2)) nf =
      a + h * (0 * k1 + 0 * k2 + 1 * fbeta1 (a + h * (0 * k1 + 1 / 2 * k2)) nf) := by ring
  rw [e4]
  generalize fbeta1 (a + h * (0 * k1 + 1 / 2 * k2)) nf = k3
  generalize fbeta1 (a + h * (0 * k1 + 0 * k2 + 1 * k3)) nf = k4
  ring

/-- … and that tableau satisfies all eight order conditions of a fourth-order method (Butcher): with
    c_i = Σ_j a_ij,  Σb = 1, Σbc = 1/2, Σbc² = 1/3, ΣbAc = 1/6, Σbc³ = 1/4, Σbc(Ac) = 1/8, ΣbAc² = 1/12, ΣbAAc = 1/24.
    (That these conditions give a local error O(h⁵) is the classical theorem, not re-proved here; what they exclude is
    checked below: equal weights ¼ fail the third condition.) -/
theorem classical_tableau_order4 :
    let a21 : ℚ := 1/2; let a31 : ℚ := 0; let a32 : ℚ := 1/2; let a41 : ℚ := 0; let a42 : ℚ := 0; let a43 : ℚ := 1
    let b1 : ℚ := 1/6; let b2 : ℚ := 1/3; let b3 : ℚ := 1/3; let b4 : ℚ := 1/6
    let c2 := a21; let c3 := a31 + a32; let c4 := a41 + a42 + a43
    b1 + b2 + b3 + b4 = 1 ∧
    b2 * c2 + b3 * c3 + b4 * c4 = 1/2 ∧
    b2 * c2^2 + b3 * c3^2 + b4 * c4^2 = 1/3 ∧
    b3 * (a32 * c2) + b4 * (a42 * c2 + a43 * c3) = 1/6 ∧
    b2 * c2^3 + b3 * c3^3 + b4 * c4^3 = 1/4 ∧
    b3 * c3 * (a32 * c2) + b4 * c4 * (a42 * c2 + a43 * c3) = 1/8 ∧
    b3 * (a32 * c2^2) + b4 * (a42 * c2^2 + a43 * c3^2) = 1/12 ∧
    b4 * (a43 * (a32 * c2)) = 1/24 := by
  norm_num

/-- the same stages with equal weights ¼ (a wrong integrator that passes the first-order and monotonicity theorems,
    lean/Audit/C15_wrong.lean) violate the third-order condition Σ b c² = 1/3 -/
theorem equal_weights_not_order3 :
    ((1/4 : ℚ) * (1/2)^2 + (1/4) * (1/2)^2 + (1/4) * 1^2 ≠ 1/3) := by norm_num

end Gep.R.C15

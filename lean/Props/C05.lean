/-
  Props/C05.lean — property C05: CFFs obey the LO handbag relation and are independent of the
  Mellin–Barnes contour.  Statements about Gen/MBR.lean, the ℝ instantiation of Scalar/MB.lean.in
  (model of wilson.calc_wc / calc_wce / calc_j2x, mellin.MellinBarnes.*, cff.MellinBarnesCFF.cff,
  ConformalSpaceGPD.Hx / Ex).  Helper lemmas: Proofs/MB.lean, Proofs/MBHandbag.lean.

  The exact core: at LO the discrete sum that gives Im H is q_s times the discrete sum that gives
  π·Hx[0](x = η = ξ) — for EVERY list of contour points and weights, contour angle, ξ ≥ 1e-8, Shuvaev
  factors, evolution-operator entries (any scale, with gluon→quark mixing), couplings, partial-wave
  strengths and moments.  No quadrature accuracy is involved.

  NOT proved (no theorem here can carry it; covered by the oracle stream `oracle.contour` of
  harness/props/C05.py): that the 96-point sum is unchanged, to the accuracy of the quadrature, when the
  contour angle phi or crossing point c varies — that is Cauchy's theorem for the continuous integral
  plus a quadrature-error bound.
-/
import Proofs.MBHandbag

noncomputable section
namespace Gep.R.C05
open Gep Gep.R Gep.R.Evol Gep.R.MB

/-! ## 1. the LO handbag relation as an identity of sums -/

/-- the moments `einsum('f,fa,ja->jf', dvcs_charges, frot, H)` seen by the CFF sum when the model has
    only sea quarks and gluons: charge-weighted quark-singlet and gluon components of the moments `h3`
    seen by the j→x sum, and no non-singlet component -/
def singletInput (qs : ℝ) (h3 : Cx ℝ → V3) : Cx ℝ → V3 :=
  fun j => ⟨Cx.smul qs (h3 j).q, Cx.smul qs (h3 j).g, czero⟩

/-- integrand by integrand: (LO DVCS coefficient × operator, summed over the evolved flavour) · charge-
    weighted moments = q_s · (quark row of the cross-over j→x coefficient × operator) · moments -/
theorem handbag_point (nf : Nat) (asf asr phi xi qs : ℝ) (hxi : ¬ xi < 1e-8) (pw : PWS)
    (h3 : Cx ℝ → V3) (pt : Pt) :
    toC (cchPt .dvcs 0 nf asf asr phi xi pw (singletInput qs h3) pt) =
      (qs : ℂ) * toC (j2xCrossPt asf phi xi xi pw h3 pt).q := by
  obtain ⟨a0, a1, a2⟩ := toC_wceDvcsLO asf asr pt.w0
  obtain ⟨b0, b1, b2⟩ := toC_wceDvcsLO asf asr pt.w1
  obtain ⟨c0, c1, c2⟩ := toC_wceDvcsLO asf asr pt.w2
  obtain ⟨d0, d1, d2⟩ := toC_j2xCrossOf_q xi asf pt.j 0 pt.w0
  obtain ⟨e0, e1, e2⟩ := toC_j2xCrossOf_q xi asf pt.j 2 pt.w1
  obtain ⟨f0, f1, f2⟩ := toC_j2xCrossOf_q xi asf pt.j 4 pt.w2
  simp only [cchPt, wce3, calcWce_dvcs_LO, j2xCrossPt, calcJ2x_cross xi asf hxi, toC_cch, singletInput,
    toC_smul, toC_czero, a0, a1, a2, b0, b1, b2, c0, c1, c2, d0, d1, d2, e0, e1, e2, f0, f1, f2]
  ring

/-- the two discrete sums: `_mellin_barnes_integral` of the LO DVCS coefficients and
    `_j2x_mellin_barnes_integral` at η = x = ξ (quark component); Re parts carry the same tan(πj/2) -/
theorem handbag_sums (nf : Nat) (asf asr phi xi qs : ℝ) (hxi : ¬ xi < 1e-8) (pw : PWS)
    (h3 : Cx ℝ → V3) (pts : List Pt) :
    mbIntegral .dvcs 0 nf asf asr phi xi pw (singletInput qs h3) pts =
      .ok (qs * sumIm pts (fun pt => (j2xCrossPt asf phi xi xi pw h3 pt).q * tgj pt.j),
           qs * sumIm pts (fun pt => (j2xCrossPt asf phi xi xi pw h3 pt).q)) := by
  have hp := fun pt => handbag_point nf asf asr phi xi qs hxi pw h3 pt
  simp only [mbIntegral]
  congr 2
  · apply sumIm_of_toC_smul
    intro pt _
    rw [toC_mul, toC_mul, hp pt]; ring
  · apply sumIm_of_toC_smul
    intro pt _
    exact hp pt

/-- which rows of the flavour rotations are used: with the default `frot` (quark row (1,0,1,1), gluon row
    (0,1,0,0), zero NS row) and `frot_j2x = frot_pdf` (quark row (1,0,0,0), gluon row (0,1,0,0)), the CFF-side
    moments are `singletInput q_s` of the j→x-side moments as soon as uv = dv = 0 -/
theorem rotC_default_singlet (nf : Nat) (h : V4) (hu : h.u = czero) (hd : h.d = czero) :
    rotC (dvcsCharges nf) frotDefault h =
      ⟨Cx.smul (dvcsCharges nf).q (rot frotPdf h).q, Cx.smul (dvcsCharges nf).q (rot frotPdf h).g, czero⟩ := by
  have hq : (dvcsCharges nf).g = (dvcsCharges nf).q := by
    unfold dvcsCharges; split <;> rfl
  apply V3_ext <;> apply toC_injective <;>
    simp [rotC, rot, frotDefault, frotPdf, toC_R4dot, hu, hd, hq]

/-- the value `Hx(pt)` / `Ex(pt)` takes on the cross-over line x = η = ξ (ξ ≥ 1e-8) -/
def hxCross (asf phi xi : ℝ) (pw : PWS) (H : Cx ℝ → V4) (pts : List Pt) : T3 :=
  let s := sumIm3 pts (j2xCrossPt asf phi xi xi pw (fun j => rot frotPdf (H j)))
  ⟨s.q / kpi, s.g / kpi, s.n / kpi⟩

theorem xspace_cross (asf phi xi : ℝ) (hxi : ¬ xi < 1e-8) (pw : PWS) (H : Cx ℝ → V4) (pts : List Pt) :
    xspace asf phi xi xi pw H pts = .ok (hxCross asf phi xi pw H pts) := by
  have h0 : kabs (xi - xi) < 1e-8 := by simp [kabs]; norm_num
  simp only [xspace, j2xIntegral, hxi, h0, if_false, if_true, hxCross]

/-- the j→x quark sum on the cross-over line with tan(πj/2) inserted -/
def reCross (asf phi xi : ℝ) (pw : PWS) (H : Cx ℝ → V4) (pts : List Pt) : ℝ :=
  sumIm pts (fun pt => (j2xCrossPt asf phi xi xi pw (fun j => rot frotPdf (H j)) pt).q * tgj pt.j)

/-- **LO handbag relation** for a singlet-only model (PWNormGPD: uv = dv = 0), every list of contour
    points and weights, every ξ ≥ 1e-8, every scale (any operator data):
      cff(pt) = (q_s·[j→x quark sum with tan], π·q_s·Hx[0](ξ,ξ), q_s·[…E…], π·q_s·Ex[0](ξ,ξ)),
    i.e. Im H = π·q_s·Hx[0], Im E = π·q_s·Ex[0] with `Hx`, `Ex` evaluated at x = η = ξ (`xspace_cross`). -/
theorem handbag (nf : Nat) (asf asr phi xi : ℝ) (hxi : ¬ xi < 1e-8) (pwH pwE : PWS) (H E : Cx ℝ → V4)
    (hH : ∀ j, (H j).u = czero ∧ (H j).d = czero) (hE : ∀ j, (E j).u = czero ∧ (E j).d = czero)
    (pts : List Pt) :
    cff 0 nf asf asr phi xi frotDefault pwH pwE H E pts =
      .ok ((dvcsCharges nf).q * reCross asf phi xi pwH H pts,
           kpi * (dvcsCharges nf).q * (hxCross asf phi xi pwH H pts).q,
           (dvcsCharges nf).q * reCross asf phi xi pwE E pts,
           kpi * (dvcsCharges nf).q * (hxCross asf phi xi pwE E pts).q) := by
  have hpi : kpi ≠ 0 := Real.pi_ne_zero
  have eH : (fun j => rotC (dvcsCharges nf) frotDefault (H j)) =
      singletInput (dvcsCharges nf).q (fun j => rot frotPdf (H j)) := by
    funext j; exact rotC_default_singlet nf (H j) (hH j).1 (hH j).2
  have eE : (fun j => rotC (dvcsCharges nf) frotDefault (E j)) =
      singletInput (dvcsCharges nf).q (fun j => rot frotPdf (E j)) := by
    funext j; exact rotC_default_singlet nf (E j) (hE j).1 (hE j).2
  simp only [cff, eH, eE, handbag_sums nf asf asr phi xi _ hxi, hxCross, reCross, sumIm3]
  congr 3
  · field_simp
  · congr 1; field_simp

/-! ## 2. Re part = the same sum with tan(πj/2) inserted; linearity in the moments -/

/-- `_mellin_barnes_integral` returns (Σ wg·Im(cch·tgj), Σ wg·Im cch) with one and the same integrand
    cch — at every order and for each of DVCS, DIS-like and DVMP coefficients -/
theorem re_is_tan_weighted (pc : Proc) (hpc : pc = .dvcs ∨ pc = .dis ∨ pc = .dvmp) (p nf : Nat)
    (asf asr phi xi : ℝ) (pw : PWS) (h : Cx ℝ → V3) (pts : List Pt) :
    mbIntegral pc p nf asf asr phi xi pw h pts =
      .ok (sumIm pts (fun pt => cchPt pc p nf asf asr phi xi pw h pt * tgj pt.j),
           sumIm pts (cchPt pc p nf asf asr phi xi pw h)) := by
  rcases hpc with h | h | h <;> subst h <;> rfl

/-- the integrand of the CFF / TFF sum is linear in the moments, at every order -/
theorem cchPt_linear (pc : Proc) (p nf : Nat) (asf asr phi xi a : ℝ) (pw : PWS) (h1 h2 : Cx ℝ → V3) (pt : Pt) :
    cchPt pc p nf asf asr phi xi pw (fun j => V3.add (V3.smul a (h1 j)) (h2 j)) pt =
      Cx.smul a (cchPt pc p nf asf asr phi xi pw h1 pt) + cchPt pc p nf asf asr phi xi pw h2 pt := by
  unfold cchPt
  cases wce3 pc p nf asf asr pt with
  | ok w => exact cch_linear _ pw _ _ _ _ _ a
  | error e => apply toC_injective; simp

/-- … hence Re and Im of every CFF / TFF are linear in the moments -/
theorem mbIntegral_linear (pc : Proc) (hpc : pc = .dvcs ∨ pc = .dis ∨ pc = .dvmp) (p nf : Nat)
    (asf asr phi xi a : ℝ) (pw : PWS) (h1 h2 : Cx ℝ → V3) (pts : List Pt) :
    ∃ r1 r2, mbIntegral pc p nf asf asr phi xi pw h1 pts = .ok r1 ∧
      mbIntegral pc p nf asf asr phi xi pw h2 pts = .ok r2 ∧
      mbIntegral pc p nf asf asr phi xi pw (fun j => V3.add (V3.smul a (h1 j)) (h2 j)) pts =
        .ok (a * r1.1 + r2.1, a * r1.2 + r2.2) := by
  refine ⟨_, _, re_is_tan_weighted pc hpc p nf asf asr phi xi pw h1 pts,
    re_is_tan_weighted pc hpc p nf asf asr phi xi pw h2 pts, ?_⟩
  rw [re_is_tan_weighted pc hpc]
  congr 2
  · rw [← sumIm_smul, ← sumIm_add]
    apply sumIm_congr
    intro pt _
    rw [cchPt_linear]
    congr 1
    apply toC_injective; simp; ring
  · rw [← sumIm_smul, ← sumIm_add]
    apply sumIm_congr
    intro pt _
    rw [cchPt_linear]

/-- the j→x integrand (cross-over line) is linear in the moments -/
theorem j2xCrossPt_linear (asf phi x eta a : ℝ) (pw : PWS) (h1 h2 : Cx ℝ → V3) (pt : Pt) :
    j2xCrossPt asf phi x eta pw (fun j => V3.add (V3.smul a (h1 j)) (h2 j)) pt =
      V3.add (V3.smul a (j2xCrossPt asf phi x eta pw h1 pt)) (j2xCrossPt asf phi x eta pw h2 pt) := by
  unfold j2xCrossPt
  cases calcJ2x x eta asf pt.j 0 pt.w0 <;> cases calcJ2x x eta asf pt.j 2 pt.w1 <;>
    cases calcJ2x x eta asf pt.j 4 pt.w2 <;>
    first
      | (simp only [cch_linear]; rfl)
      | (apply V3_ext <;> apply toC_injective <;> simp [V3.add, V3.smul, V3.zero])

/-- the forward j→x integrand and the DIS integrand are linear in the moments -/
theorem j2xFwdPt_linear (asf phi x eta a : ℝ) (h1 h2 : Cx ℝ → V3) (pt : Pt) :
    j2xFwdPt asf phi x eta (fun j => V3.add (V3.smul a (h1 j)) (h2 j)) pt =
      V3.add (V3.smul a (j2xFwdPt asf phi x eta h1 pt)) (j2xFwdPt asf phi x eta h2 pt) := by
  unfold j2xFwdPt
  cases calcJ2x x eta asf pt.j 0 pt.w0 with
  | ok w => simp only [fwdTerm_linear]; rfl
  | error e => apply V3_ext <;> apply toC_injective <;> simp [V3.add, V3.smul, V3.zero]

theorem disPt_linear (p nf : Nat) (asf asr phi xB a : ℝ) (h1 h2 : Cx ℝ → V3) (pt : Pt) :
    disPt p nf asf asr phi xB (fun j => V3.add (V3.smul a (h1 j)) (h2 j)) pt =
      Cx.smul a (disPt p nf asf asr phi xB h1 pt) + disPt p nf asf asr phi xB h2 pt := by
  unfold disPt
  cases calcWce .dis p nf asf asr pt.j 0 pt.w0 with
  | ok w => exact fwdTerm_linear _ _ _ _ a
  | error e => apply toC_injective; simp

theorem sumIm3_linear (pts : List Pt) (a : ℝ) (f g : Pt → V3) :
    sumIm3 pts (fun pt => V3.add (V3.smul a (f pt)) (g pt)) =
      ⟨a * (sumIm3 pts f).q + (sumIm3 pts g).q, a * (sumIm3 pts f).g + (sumIm3 pts g).g,
       a * (sumIm3 pts f).n + (sumIm3 pts g).n⟩ := by
  simp only [sumIm3, V3.add, V3.smul, sumIm_add, sumIm_smul]

/-- `_j2x_mellin_barnes_integral(_E)` (hence Hx, Ex) is linear in the moments, for η = 0 and η = x alike;
    for any other η both sides are the exception -/
theorem j2xIntegral_linear (asf phi x eta a : ℝ) (pw : PWS) (h1 h2 : Cx ℝ → V3) (pts : List Pt) :
    j2xIntegral asf phi x eta pw (fun j => V3.add (V3.smul a (h1 j)) (h2 j)) pts =
      match j2xIntegral asf phi x eta pw h1 pts, j2xIntegral asf phi x eta pw h2 pts with
      | .ok r1, .ok r2 => .ok ⟨a * r1.q + r2.q, a * r1.g + r2.g, a * r1.n + r2.n⟩
      | .error e, _ => .error e
      | _, .error e => .error e := by
  unfold j2xIntegral
  by_cases h1' : eta < 1e-8
  · simp only [h1', if_true]
    rw [← sumIm3_linear]; congr 2; funext pt; exact j2xFwdPt_linear asf phi x eta a h1 h2 pt
  · by_cases h2' : kabs (eta - x) < 1e-8
    · simp only [h1', h2', if_true, if_false]
      rw [← sumIm3_linear]; congr 2; funext pt; exact j2xCrossPt_linear asf phi x eta a pw h1 h2 pt
    · simp only [h1', h2', if_false]

/-- `_dis_mellin_barnes_integral` (hence DISF2) is linear in the moments, at every order -/
theorem disSum_linear (p nf : Nat) (asf asr phi xB a : ℝ) (h1 h2 : Cx ℝ → V3) (pts : List Pt) :
    disSum p nf asf asr phi xB (fun j => V3.add (V3.smul a (h1 j)) (h2 j)) pts =
      a * disSum p nf asf asr phi xB h1 pts + disSum p nf asf asr phi xB h2 pts := by
  unfold disSum
  rw [← sumIm_smul, ← sumIm_add]
  apply sumIm_congr
  intro pt _
  rw [disPt_linear]

/-- the flavour rotations are linear, so all of the above holds for the un-rotated moments H_j, E_j -/
theorem rotations_linear (chg : R3) (f : Frot) (h1 h2 : V4) (a : ℝ) :
    rotC chg f (V4.add (V4.smul a h1) h2) = V3.add (V3.smul a (rotC chg f h1)) (rotC chg f h2) ∧
    rot f (V4.add (V4.smul a h1) h2) = V3.add (V3.smul a (rot f h1)) (rot f h2) :=
  ⟨rotC_linear chg f h1 h2 a, rot_linear f h1 h2 a⟩

/-! ## non-vacuity -/

/-- the hypotheses of `handbag` are satisfiable at a non-trivial point: ξ = 0.01, nf = 4, two contour
    points carrying an operator with gluon→quark mixing (E_QG = 1/2), non-zero sea and gluon moments; the
    relation then holds with the concrete sums -/
example : ∃ (pts : List Pt) (H : Cx ℝ → V4), pts.length = 2 ∧
    (∀ j, (H j).u = czero ∧ (H j).d = czero) ∧ (H ⟨0.35, 1⟩).s ≠ czero ∧ (H ⟨0.35, 1⟩).g ≠ czero ∧
    ¬ (0.01 : ℝ) < 1e-8 := by
  let d : PWd := ⟨⟨2, 1⟩, V3.zero, ⟨⟨cone, ⟨0.5, 0⟩, ⟨0.25, 0⟩, cone⟩, cone⟩, ⟨M2.zero, czero⟩⟩
  refine ⟨[⟨⟨0.35, 1⟩, 0.5, d, d, d⟩, ⟨⟨0.35, 2⟩, 0.25, d, d, d⟩], fun j => ⟨j, ⟨1, 2⟩, czero, czero⟩, rfl,
    fun j => ⟨rfl, rfl⟩, ?_, ?_, by norm_num⟩
  · intro h; have := congrArg Cx.im h; norm_num [czero] at this
  · intro h; have := congrArg Cx.re h; norm_num [czero] at this

end Gep.R.C05

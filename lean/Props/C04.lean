/-
  Props/C04.lean — property C04: x-space GPDs and F2 reproduce the input PDFs and DGLAP evolution.
  Statements about Gen/MBR.lean (ℝ instantiation of Scalar/MB.lean.in: gpd.qj, singlet_ng_constrained,
  wilson.calc_wce / calc_j2x, mellin._j2x_mellin_barnes_integral, _dis_mellin_barnes_integral, DISF2, Hx)
  and, through it, about the C02 evolution model (Gen/EvolR.lean).  Helper lemmas: Proofs/MB*.lean.

  What is proved is the exact skeleton:
   1. the model's moments ARE the Mellin moments of the closed-form PDFs (complex j, Re j > α − 1);
   2. at the input scale the j→x sum uses the identity operator at every order and scheme;
   3. the LO F2 sum is dis_charge · x · (forward quark-singlet sum), term by term, at every scale;
   4. the forward integrand is x^(−j−1) × (evolved moment); (1,1)·γ(j) = 0 ⇒ the evolved quark + gluon
      moments sum to the input sum; a gluon-only input gives the quark moment E_QG · g_in.
  NOT proved (no theorem here can carry it; oracle streams of harness/props/C04.py): that the 96-point
  contour sum approximates the inverse Mellin transform, i.e. that Hx equals the closed-form PDF to the
  accuracy of the quadrature.
-/
import Proofs.MBHandbag
import Proofs.MBMoments
import Props.C02

noncomputable section

/-! definitions used by the statements of group 2 (in the model's namespace, for dot notation) -/
namespace Gep.R.MB
open Gep Gep.R Gep.R.Evol

/-- operator data "identity, no NLO part" -/
def PWd.withId (d : PWd) : PWd := { d with e0 := ⟨M2.one, cone⟩, e1 := ⟨M2.zero, czero⟩ }

def Pt.withId (pt : Pt) : Pt := { pt with w0 := PWd.withId pt.w0, w1 := PWd.withId pt.w1, w2 := PWd.withId pt.w2 }

/-- operator data computed by the C02 model of evolop / evolopns at coupling ratio R -/
def Pt.withEvol (pt : Pt) (p : Nat) (b0 b1 R : ℝ) (ev : EvolIn × EvolIn × EvolIn) : Pt :=
  { pt with w0 := pt.w0.withEvol p b0 b1 R ev.1, w1 := pt.w1.withEvol p b0 b1 R ev.2.1,
            w2 := pt.w2.withEvol p b0 b1 R ev.2.2 }

/-- the domain of evolop: γ0_QQ ≠ γ0_GG (the square-root trick divides by it) and λ₊ ≠ λ₋ -/
def EvolIn.Regular (x : EvolIn) : Prop := x.g0.a ≠ x.g0.d ∧ (lambdaf x.g0).1 ≠ (lambdaf x.g0).2

end Gep.R.MB

namespace Gep.R.C04
open Gep Gep.R Gep.R.Evol Gep.R.MB

/-! ## 1. the moments of the model are the Mellin moments of the closed-form PDFs -/

/-- at t = 0 (any Regge slope `alp`; `alpf = 0`, `val = 0`) the building block is
      qj = norm · poch(2−α, b)/poch(1−α+j, b) = norm · B(1−α+j, b)/B(2−α, b)
    for every complex j with Re j > α − 1 (α < 2, b = `poch` ≥ 1; B = Euler's Beta integral) -/
theorem qj_is_beta_ratio (j : Cx ℝ) (b : ℕ) (hb : 1 ≤ b) (norm al0 alp : ℝ) (hα : al0 < 2)
    (hj : al0 - 1 < j.re) :
    ∃ z, qj j 0 b norm al0 alp 0 0 = .ok z ∧
      toC z = (norm : ℂ) * Complex.betaIntegral (1 - (al0 : ℂ) + toC j) b /
        Complex.betaIntegral (2 - (al0 : ℂ)) b := by
  have hq : qj j 0 b norm al0 alp 0 0 =
      .ok (Cx.ofReal (norm * pochR (2 - natK 0 - al0 - 0 * 0) b) / pochC ⟨1 - al0 + j.re, j.im⟩ b *
        ⟨1 + j.re - al0, j.im⟩ / ⟨1 + j.re - (al0 + alp * 0), j.im⟩) := by
    simp [qj]
  refine ⟨_, hq, ?_⟩
  have hu : 0 < (2 - (al0 : ℂ)).re := by simp; linarith
  have hv : 0 < (1 - (al0 : ℂ) + toC j).re := by simp; linarith
  have hz : toC (⟨1 - al0 + j.re, j.im⟩ : Cx ℝ) = 1 - (al0 : ℂ) + toC j := by apply Complex.ext <;> simp
  have hw : toC (⟨1 + j.re - al0, j.im⟩ : Cx ℝ) = 1 - (al0 : ℂ) + toC j := by
    apply Complex.ext <;> simp; ring
  have hw' : toC (⟨1 + j.re - (al0 + alp * 0), j.im⟩ : Cx ℝ) = 1 - (al0 : ℂ) + toC j := by
    apply Complex.ext <;> simp; ring
  have hne : (1 - (al0 : ℂ) + toC j) ≠ 0 := fun h => by rw [h] at hv; simp at hv
  have hR : ((pochR (2 - natK 0 - al0 - 0 * 0) b : ℝ) : ℂ) = ∏ i ∈ Finset.range b, ((2 - (al0 : ℂ)) + (i : ℂ)) := by
    rw [pochR_prod _ b hb]; push_cast; simp [natK]
  rw [toC_div, toC_mul, toC_div, toC_ofReal, pochC_prod _ b hb, hz, hw, hw', Complex.ofReal_mul, hR,
    mul_div_assoc, mul_div_assoc, div_self hne, mul_one, mul_div_assoc,
    prod_ratio_eq_beta_ratio _ _ hu hv b hb]

/-- the closed-form PDF  q(x) = norm · x^(−α) (1−x)^(b−1) / B(2−α, b)  (complex-valued on the real line) -/
def pdfClosed (norm al0 : ℝ) (b : ℕ) (x : ℝ) : ℂ :=
  (norm : ℂ) / Complex.betaIntegral (2 - (al0 : ℂ)) b * ((x : ℂ) ^ (-(al0 : ℂ)) * (1 - (x : ℂ)) ^ ((b : ℂ) - 1))

/-- … i.e. qj(j) = ∫₀¹ x^j q(x) dx: the conformal moments of the model at t = η = 0 are the Mellin moments
    of the closed-form PDF, for every complex j with Re j > α − 1.  (singlet: b = 9, norm = ns, α = al0s;
    gluon: b = 7, norm = ng = 0.6 − ns, α = al0g, and Hx[1] is x·q_g(x) because the forward gluon
    j→x coefficient is x.) -/
theorem qj_is_mellin_moment (j : Cx ℝ) (b : ℕ) (hb : 1 ≤ b) (norm al0 alp : ℝ) (hα : al0 < 2)
    (hj : al0 - 1 < j.re) :
    ∃ z, qj j 0 b norm al0 alp 0 0 = .ok z ∧
      toC z = ∫ x in (0 : ℝ)..1, (x : ℂ) ^ (toC j) * pdfClosed norm al0 b x := by
  obtain ⟨z, hz, hval⟩ := qj_is_beta_ratio j b hb norm al0 alp hα hj
  refine ⟨z, hz, ?_⟩
  rw [hval]
  have hcongr : ∫ x in (0 : ℝ)..1, (x : ℂ) ^ (toC j) * pdfClosed norm al0 b x =
      ∫ x in (0 : ℝ)..1, ((norm : ℂ) / Complex.betaIntegral (2 - (al0 : ℂ)) b) *
        ((x : ℂ) ^ (1 - (al0 : ℂ) + toC j - 1) * (1 - (x : ℂ)) ^ ((b : ℂ) - 1)) := by
    apply intervalIntegral.integral_congr_ae
    refine Filter.Eventually.of_forall (fun x hx => ?_)
    rw [Set.uIoc_of_le (by norm_num : (0 : ℝ) ≤ 1)] at hx
    have hx0 : (x : ℂ) ≠ 0 := by exact_mod_cast (ne_of_gt hx.1)
    have : (1 - (al0 : ℂ) + toC j - 1) = toC j + -(al0 : ℂ) := by ring
    rw [this, Complex.cpow_add _ _ hx0, pdfClosed]; ring
  rw [hcongr, intervalIntegral.integral_const_mul, Complex.betaIntegral]
  ring

/-- the sum-rule constraint of `singlet_ng_constrained`: ng = 0.6 − ns, so that the second moments
    (j = 1, t = 0) of the sea-quark and gluon input add up to 0.6, whatever the other parameters -/
theorem input_momentum (par : SeaPar) (hs : par.al0s < 2) (hg : par.al0g < 2) :
    ∃ v, singletNg .dipole par 0 ⟨1, 0⟩ = .ok v ∧ toC v.s + toC v.g = 0.6 := by
  obtain ⟨zs, hzs, hvs⟩ := qj_is_beta_ratio ⟨1, 0⟩ 9 (by norm_num) par.ns par.al0s par.alps hs (by simp; linarith)
  obtain ⟨zg, hzg, hvg⟩ := qj_is_beta_ratio ⟨1, 0⟩ 7 (by norm_num) (ngOf par.ns) par.al0g par.alpg hg (by simp; linarith)
  have h1 : toC (⟨1, 0⟩ : Cx ℝ) = 1 := by apply Complex.ext <;> simp
  have hBs : Complex.betaIntegral (2 - (par.al0s : ℂ)) (9 : ℕ) ≠ 0 := by
    have := beta_mul_prod (2 - (par.al0s : ℂ)) (by simp; linarith) 9 (by norm_num)
    intro h; rw [h, zero_mul] at this; exact Gamma_nat_ne_zero 9 (by norm_num) this.symm
  have hBg : Complex.betaIntegral (2 - (par.al0g : ℂ)) (7 : ℕ) ≠ 0 := by
    have := beta_mul_prod (2 - (par.al0g : ℂ)) (by simp; linarith) 7 (by norm_num)
    intro h; rw [h, zero_mul] at this; exact Gamma_nat_ne_zero 7 (by norm_num) this.symm
  have e2 : ∀ a : ℝ, (1 - (a : ℂ) + 1) = 2 - (a : ℂ) := fun a => by ring
  rw [h1, e2, mul_div_assoc, div_self hBs, mul_one] at hvs
  rw [h1, e2, mul_div_assoc, div_self hBg, mul_one] at hvg
  have hd : ∀ m : ℝ, betadip ⟨1, 0⟩ 0 m 0.0 2 = cone := by
    intro m; apply toC_injective; simp [betadip, cpowN]
  refine ⟨⟨zs * cone, zg * cone, czero, czero⟩, ?_, ?_⟩
  · simp only [singletNg, hd, hzs, hzg]
  · simp only [toC_mul, toC_cone, mul_one, hvs, hvg, ngOf]; push_cast; ring

/-! ## 2. at the input scale the j→x sum uses the identity operator at every order and scheme -/

/-- R = 1 (Q² = Q0²): evolop and evolopns return (1, 0) for every order p, every scheme (with or without
    the msbar non-diagonal term), every γ0, γ1, β0, β1  [C02.evolop_identity, C02.evolopns_identity] -/
theorem input_scale_operator (p : Nat) (b0 b1 : ℝ) (x : EvolIn) (hx : x.Regular) :
    opOfEvol p b0 b1 1 x = (⟨M2.one, cone⟩, ⟨M2.zero, czero⟩) := by
  simp only [opOfEvol, C02.evolop_identity p x.g0 x.g1 b0 b1 x.nd hx.1 hx.2,
    C02.evolopns_identity p x.n0 x.n1 b0 b1 x.ndns]

theorem input_scale_data (pt : Pt) (p : Nat) (b0 b1 : ℝ) (ev : EvolIn × EvolIn × EvolIn)
    (h : ev.1.Regular ∧ ev.2.1.Regular ∧ ev.2.2.Regular) :
    pt.withEvol p b0 b1 1 ev = pt.withId := by
  simp only [Pt.withEvol, Pt.withId, PWd.withEvol, PWd.withId, input_scale_operator p b0 b1 _ h.1,
    input_scale_operator p b0 b1 _ h.2.1, input_scale_operator p b0 b1 _ h.2.2]

/-- with identity data the coupling drops out of the j→x coefficient × operator -/
theorem calcJ2x_withId (x eta asf : ℝ) (j : Cx ℝ) (sh : ℝ) (d : PWd) :
    calcJ2x x eta asf j sh (PWd.withId d) = calcJ2x x eta 0 j sh (PWd.withId d) := by
  simp only [calcJ2x, j2xOf, PWd.withId, combine_one_zero]

/-- **Hx / Ex at Q² = Q0² do not depend on the order p, the scheme, the coupling or the anomalous
    dimensions**: for operator data produced by evolop at R = 1 the j→x sum is the sum with the identity
    operator (whose right-hand side mentions none of p, nd, γ, β, asmuf2) -/
theorem hx_input_scale (p : Nat) (b0 b1 asf phi x eta : ℝ) (pw : PWS) (H : Cx ℝ → V4)
    (l : List (Pt × (EvolIn × EvolIn × EvolIn)))
    (hreg : ∀ e ∈ l, e.2.1.Regular ∧ e.2.2.1.Regular ∧ e.2.2.2.Regular) :
    xspace asf phi x eta pw H (l.map fun e => e.1.withEvol p b0 b1 1 e.2) =
      xspace 0 phi x eta pw H (l.map fun e => e.1.withId) := by
  have hl : (l.map fun e => e.1.withEvol p b0 b1 1 e.2) = l.map fun e => e.1.withId :=
    List.map_congr_left fun e he => input_scale_data e.1 p b0 b1 e.2 (hreg e he)
  rw [hl]
  have hf : ∀ h : Cx ℝ → V3, ∀ pt ∈ (l.map fun e => e.1.withId),
      j2xFwdPt asf phi x eta h pt = j2xFwdPt 0 phi x eta h pt := by
    intro h pt hpt
    obtain ⟨e, _, rfl⟩ := List.mem_map.mp hpt
    simp only [j2xFwdPt, Pt.withId, calcJ2x_withId x eta asf]
  have hc : ∀ h : Cx ℝ → V3, ∀ pt ∈ (l.map fun e => e.1.withId),
      j2xCrossPt asf phi x eta pw h pt = j2xCrossPt 0 phi x eta pw h pt := by
    intro h pt hpt
    obtain ⟨e, _, rfl⟩ := List.mem_map.mp hpt
    simp only [j2xCrossPt, Pt.withId, calcJ2x_withId x eta asf]
  have key : j2xIntegral asf phi x eta pw (fun j => rot frotPdf (H j)) (l.map fun e => e.1.withId) =
      j2xIntegral 0 phi x eta pw (fun j => rot frotPdf (H j)) (l.map fun e => e.1.withId) := by
    unfold j2xIntegral sumIm3
    split
    · congr 2 <;> (apply sumIm_congr; intro pt hpt; rw [hf _ pt hpt])
    · split
      · congr 2 <;> (apply sumIm_congr; intro pt hpt; rw [hc _ pt hpt])
      · rfl
  simp only [xspace, key]

/-! ## 3. LO: the F2 sum is dis_charge · x · (forward quark-singlet sum), term by term -/

/-- the value `Hx(pt)` takes in the forward limit (η < 1e-8) -/
def hxFwd (asf phi x eta : ℝ) (H : Cx ℝ → V4) (pts : List Pt) : T3 :=
  let s := sumIm3 pts (j2xFwdPt asf phi x eta (fun j => rot frotPdf (H j)))
  ⟨s.q / kpi, s.g / kpi, s.n / kpi⟩

theorem xspace_fwd (asf phi x eta : ℝ) (he : eta < 1e-8) (pw : PWS) (H : Cx ℝ → V4) (pts : List Pt) :
    xspace asf phi x eta pw H pts = .ok (hxFwd asf phi x eta H pts) := by
  simp only [xspace, j2xIntegral, he, if_true, hxFwd]

theorem rot_frotPdf_n (h : V4) : (rot frotPdf h).n = czero := by
  apply toC_injective; simp [rot, frotPdf, toC_R4dot]

/-- integrand by integrand: LO DIS coefficient (1, 0) × operator with x^(−j) equals x times the quark row of
    the forward j→x coefficient (1) × operator with x^(−j−1), whenever the NS moment is zero (frot_pdf) -/
theorem f2_point (nf : Nat) (asf asr phi x eta : ℝ) (hx : 0 < x) (he : eta < 1e-8) (h : Cx ℝ → V3)
    (hn : ∀ j, (h j).n = czero) (pt : Pt) :
    toC (disPt 0 nf asf asr phi x h pt) = (x : ℂ) * toC (j2xFwdPt asf phi x eta h pt).q := by
  obtain ⟨a0, a1, a2⟩ := toC_wceDisLO asf asr pt.w0
  obtain ⟨b0, b1, b2, -⟩ := toC_j2xFwdOf x asf pt.w0
  simp only [disPt, calcWce_dis_LO, j2xFwdPt, calcJ2x_fwd x eta asf he, toC_fwdTerm, cfacj_dis phi x hx,
    a0, a1, a2, b0, b1, b2, hn, toC_czero]
  ring

/-- **LO F2 = dis_charge · x · Σ(x, Q²)** for every list of contour points, every scale (operator data),
    every x > 0: `DISF2(pt)` = dis_charge · x · `Hx(pt)[0]` at η = 0, as an identity of the two sums -/
theorem f2_LO_eq (nf : Nat) (asf asr phi x eta : ℝ) (hx : 0 < x) (he : eta < 1e-8) (H : Cx ℝ → V4)
    (pts : List Pt) :
    disF2 0 nf asf asr phi x H pts = disCharge nf * x * (hxFwd asf phi x eta H pts).q := by
  have hs : disSum 0 nf asf asr phi x (fun j => rot frotPdf (H j)) pts =
      x * sumIm pts (fun pt => (j2xFwdPt asf phi x eta (fun j => rot frotPdf (H j)) pt).q) := by
    unfold disSum
    apply sumIm_of_toC_smul
    intro pt _
    exact f2_point nf asf asr phi x eta hx he _ (fun j => rot_frotPdf_n (H j)) pt
  simp only [disF2, hs, hxFwd, sumIm3]
  ring

/-! ## 4. evolution of the forward distributions: momentum, gluon-only input -/

/-- the forward j→x integrand is x^(−j−1)·e^{iφ} times the EVOLVED moment Σ_a E[f, a] h_a (times x for
    the gluon, zero for the non-singlet slot) -/
theorem forward_integrand (asf phi x eta : ℝ) (he : eta < 1e-8) (h : Cx ℝ → V3) (pt : Pt) :
    toC (j2xFwdPt asf phi x eta h pt).q =
      toC (cfacj phi x 1 pt.j) * toC ((pt.w0.op asf).apply ⟨(h pt.j).q, (h pt.j).g, czero⟩).q ∧
    toC (j2xFwdPt asf phi x eta h pt).g =
      toC (cfacj phi x 1 pt.j) * ((x : ℂ) * toC ((pt.w0.op asf).apply ⟨(h pt.j).q, (h pt.j).g, czero⟩).g) ∧
    (j2xFwdPt asf phi x eta h pt).n = czero := by
  obtain ⟨b0, b1, b2, b3, b4, b5, b6, b7, b8⟩ := toC_j2xFwdOf x asf pt.w0
  refine ⟨?_, ?_, ?_⟩
  · simp only [j2xFwdPt, calcJ2x_fwd x eta asf he, toC_fwdTerm, Op3.apply, toC_add, toC_mul, b0, b1, b2]; ring
  · simp only [j2xFwdPt, calcJ2x_fwd x eta asf he, toC_fwdTerm, Op3.apply, toC_add, toC_mul, b3, b4, b5]; ring
  · apply toC_injective
    simp only [j2xFwdPt, calcJ2x_fwd x eta asf he, toC_fwdTerm, b6, b7, b8, toC_czero]; ring

/-- momentum: if the columns of the operator sum to one, the evolved quark + gluon moments sum to the
    input sum -/
theorem momentum_conserved (E : Op3) (h : V3) (hcs : M2.colsum E.si = (cone, cone)) :
    (E.apply h).q + (E.apply h).g = h.q + h.g := by
  simp only [M2.colsum, Prod.mk.injEq] at hcs
  have h1 := congrArg toC hcs.1
  have h2 := congrArg toC hcs.2
  simp only [toC_add, toC_cone] at h1 h2
  apply toC_injective
  simp only [Op3.apply, toC_add, toC_mul]
  linear_combination toC h.q * h1 + toC h.g * h2

/-- … and the columns do sum to one for the operator E0 + asmuf2·E1 built by evolop (diagonal operator, as in
    csbar or at LO) from anomalous dimensions with (1,1)·γ0 = 0 = (1,1)·γ1 — which holds at the second moment
    j = 1 (C03) — at every order, coupling ratio R and coupling asmuf2  [C02.momentum_evolop] -/
theorem momentum_operator (d : PWd) (p : Nat) (b0 b1 R asf : ℝ) (x : EvolIn) (hx : x.Regular) (hnd : x.nd = none)
    (h0 : M2.colsum x.g0 = (czero, czero)) (h1 : M2.colsum x.g1 = (czero, czero)) :
    M2.colsum ((d.withEvol p b0 b1 R x).op asf).si = (cone, cone) := by
  obtain ⟨m0, m1⟩ := C02.momentum_evolop p x.g0 x.g1 b0 b1 R hx.1 hx.2 h0 h1
  simp only [M2.colsum, Prod.mk.injEq] at m0 m1
  simp only [PWd.op, PWd.withEvol, opOfEvol, Op3.combine, hnd, M2.colsum, Prod.mk.injEq]
  obtain ⟨ea, eb, ec, ed⟩ := M2_combine_entries asf (evolop p x.g0 x.g1 b0 b1 R none).1
    (evolop p x.g0 x.g1 b0 b1 R none).2
  have c0a := congrArg toC m0.1
  have c0b := congrArg toC m0.2
  have c1a := congrArg toC m1.1
  have c1b := congrArg toC m1.2
  simp only [toC_add, toC_cone, toC_czero] at c0a c0b c1a c1b
  constructor <;> apply toC_injective <;> simp only [toC_add, toC_cone, ea, eb, ec, ed]
  · linear_combination c0a + (asf : ℂ) * c1a
  · linear_combination c0b + (asf : ℂ) * c1b

/-- total momentum is conserved by the evolved forward distributions at the level of the second moments:
    for the operator data of `momentum_operator`, evolved quark + gluon = input quark + gluon -/
theorem momentum_sum_rule (d : PWd) (p : Nat) (b0 b1 R asf : ℝ) (x : EvolIn) (hx : x.Regular) (hnd : x.nd = none)
    (h0 : M2.colsum x.g0 = (czero, czero)) (h1 : M2.colsum x.g1 = (czero, czero)) (h : V3) :
    (((d.withEvol p b0 b1 R x).op asf).apply h).q + (((d.withEvol p b0 b1 R x).op asf).apply h).g = h.q + h.g :=
  momentum_conserved _ h (momentum_operator d p b0 b1 R asf x hx hnd h0 h1)

/-- a gluon-only input: the evolved quark moment is E_QG · g_in, so quarks are radiated exactly when the
    gluon→quark entry of the operator is non-zero -/
theorem gluon_only_radiates (E : Op3) (h : V3) (hq : h.q = czero) :
    (E.apply h).q = E.si.b * h.g ∧ (h.g ≠ czero → ((E.apply h).q ≠ czero ↔ E.si.b ≠ czero)) := by
  have e : (E.apply h).q = E.si.b * h.g := by
    apply toC_injective; simp [Op3.apply, hq]
  refine ⟨e, fun hg => ?_⟩
  have hg' : toC h.g ≠ 0 := fun h0 => hg (toC_injective (by simpa using h0))
  rw [e]
  constructor
  · intro hne hb; apply hne; rw [hb]; exact czero_mul _
  · intro hb hz
    have := congrArg toC hz
    simp only [toC_mul, toC_czero, mul_eq_zero] at this
    rcases this with h1 | h1
    · exact hb (toC_injective (by simpa using h1))
    · exact hg' h1

/-! ## non-vacuity -/

/-- group 1: al0 = 1.1, Re j = 0.35 > al0 − 1 (the default contour), b = 9 -/
example : (1.1 : ℝ) < 2 ∧ (1.1 : ℝ) - 1 < (⟨0.35, 2⟩ : Cx ℝ).re := by constructor <;> norm_num

/-- groups 2 and 4: a regular EvolIn with momentum-conserving γ (C02.gEx), without the non-diagonal term -/
example : ∃ x : EvolIn, x.Regular ∧ x.nd = none ∧ M2.colsum x.g0 = (czero, czero) ∧
    M2.colsum x.g1 = (czero, czero) := by
  obtain ⟨hd, hl, hcs, -, -⟩ := C02.gEx_hyps
  exact ⟨⟨C02.gEx, C02.gEx, czero, czero, none, none⟩, ⟨hd, hl⟩, rfl, hcs, hcs⟩

/-- group 3: x = 0.01 > 0, η = 0 < 1e-8 -/
example : (0 : ℝ) < 0.01 ∧ (0 : ℝ) < 1e-8 := by constructor <;> norm_num

end Gep.R.C04

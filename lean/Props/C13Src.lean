/-
  Props/C13Src.lean — property C13, SECOND TIE: the hand-written model is what the current source says.
  Built by the check after Props/C13.lean.  The translator (tools/gen_kin.py) re-reads the formulas from /repo on every run;
  if it does not recognise the shape of the source (a refactoring it was not written for) the second tie is reported as
  unavailable in the evidence and the check relies on the run-time correspondence alone, as for the other properties;
  if it does and a statement below no longer holds, a formula of the source has changed its VALUE: the check then looks
  for a failing input and reports.
-/
import Props.C13
import Proofs.ConvBridge

namespace Gep.R.C13
open Gep.R
/-! ### the completion model is what the current source says (second tie, besides the run-time correspondence)

`Gen/ConvSrcR.lean` is written by `tools/gen_kin.py` from the Python AST of `_complete_xBWQ2` / `_complete_tmt` in
src/gepard/data.py on every run: branch by branch, which keys must be present / absent, which key is set, under which
assertion, with which formula. -/

/-- the branches of the source, as data: `_complete_xBWQ2` has three (set xB from W, Q2; W from xB, Q2; Q2 from xB, W),
    `_complete_tmt` two (tm from t under `t <= 0`; t from tm under `tm >= 0`), each followed by a raising else -/
theorem source_completion_shape :
    ConvSrc.trio_branches = 3 ∧ ConvSrc.duo_branches = 2 ∧
    (ConvSrc.trio_0_present, ConvSrc.trio_0_absent, ConvSrc.trio_0_sets, ConvSrc.trio_0_assert) = (["Q2", "W"], ["xB"], "xB", "") ∧
    (ConvSrc.trio_1_present, ConvSrc.trio_1_absent, ConvSrc.trio_1_sets, ConvSrc.trio_1_assert) = (["Q2", "xB"], ["W"], "W", "") ∧
    (ConvSrc.trio_2_present, ConvSrc.trio_2_absent, ConvSrc.trio_2_sets, ConvSrc.trio_2_assert) = (["W", "xB"], ["Q2"], "Q2", "") ∧
    (ConvSrc.duo_0_present, ConvSrc.duo_0_absent, ConvSrc.duo_0_sets, ConvSrc.duo_0_assert) = (["t"], ["tm"], "tm", "t <= 0") ∧
    (ConvSrc.duo_1_present, ConvSrc.duo_1_absent, ConvSrc.duo_1_sets, ConvSrc.duo_1_assert) = (["tm"], ["t"], "t", "tm >= 0") := by
  decide

/-- the model's `completeTrio` takes, for each presence pattern, the branch of the source with the source's formula —
    wherever the source's division is defined (a vanishing denominator is the ZeroDivisionError branch of the model,
    `fill_zero_division` in Props/C13.lean) -/
theorem source_trio (M2 : ℝ) (k : Kin) :
    (∀ w q, k.xB = none → k.W = some w → k.Q2 = some q → w ^ (2:Nat) + q - M2 ≠ 0 →
      completeTrio M2 k = some { k with xB := some (ConvSrc.trio_0 M2 q w) }) ∧
    (∀ x q, k.xB = some x → k.W = none → k.Q2 = some q → x ≠ 0 →
      completeTrio M2 k = some { k with W := some (ConvSrc.trio_1 M2 q x) }) ∧
    (∀ x w, k.xB = some x → k.W = some w → k.Q2 = none → 1 - x ≠ 0 →
      completeTrio M2 k = some { k with Q2 := some (ConvSrc.trio_2 M2 w x) }) := by
  refine ⟨fun w q h1 h2 h3 h => ?_, fun x q h1 h2 h3 h => ?_, fun x w h1 h2 h3 h => ?_⟩
  · simp only [completeTrio, h1, h2, h3, ConvBridge.trio_0_eq M2 q w h]
  · simp only [completeTrio, h1, h2, h3, ConvBridge.trio_1_eq M2 q x h]
  · simp only [completeTrio, h1, h2, h3, ConvBridge.trio_2_eq M2 w x h]

/-- the model's `fillDuo` takes the source's branches, assertions and formulas -/
theorem source_duo (M2 : ℝ) (k k2 : Kin) :
    (∀ t, k.t = some t → k.tm = none → t ≤ 0 → fillDuo k k2 = .ok { k2 with tm := some (ConvSrc.duo_0 M2 t) }) ∧
    (∀ t, k.t = some t → k.tm = none → ¬ t ≤ 0 → fillDuo k k2 = .assertionError) ∧
    (∀ tm, k.t = none → k.tm = some tm → tm ≥ 0 → fillDuo k k2 = .ok { k2 with t := some (ConvSrc.duo_1 M2 tm) }) ∧
    (∀ tm, k.t = none → k.tm = some tm → ¬ tm ≥ 0 → fillDuo k k2 = .assertionError) := by
  refine ⟨fun t h1 h2 h3 => ?_, fun t h1 h2 h3 => ?_, fun tm h1 h2 h3 => ?_, fun tm h1 h2 h3 => ?_⟩
  · simp only [fillDuo, h1, h2, h3, if_true, ConvBridge.duo_0_eq]
  · simp only [fillDuo, h1, h2, h3, if_false]
  · simp only [fillDuo, h1, h2, h3, if_true, ConvBridge.duo_1_eq]
  · simp only [fillDuo, h1, h2, h3, if_false]

end Gep.R.C13

/-
  Props/C20.lean — property C20: a theory built from blocks does not depend on the order of the
  blocks.  Property theorems only; models in Model/Mro.lean, class table in Gen/ClassTable.lean
  (extracted from the gepard sources on every run), helper lemmas in Proofs/Mro*.lean.

  Three groups:
  (1) C3: facts about `merge` / `mroOf` / `mroAdhoc` for ANY class table and ANY inputs.
  (2) name resolution and (3) cooperative `__init__`: GENERAL theorems "if the decidable static
      check `checks tbl blocks` passes, then all instantiable orderings of `blocks` agree", plus
      TABLE LEMMAS (`decide +kernel` on the generated table, no enumeration of orderings) that the
      check passes for the documented maximal theory and for the five shipped KM combinations.
      What is only checked on the table is named `…_table`.
-/
import Proofs.MroConfig
import Proofs.MroTableDoc
import Proofs.MroTableKM
import Proofs.MroTableKM2
import Gen.ClassTable

namespace Gep.Mro.C20
open Gep.Mro Gep.Mro.Gen

/-! ## (1) C3 linearisation — any inputs -/

variable {α : Type} [DecidableEq α]

/-- when C3 `merge` returns a list, every input list is an order-preserving sublist of it -/
theorem merge_keeps_every_input_order {ls : List (List α)} {r : List α} (h : merge ls = some r) :
    ∀ l ∈ ls, l.Sublist r := merge_sublist h

/-- … it contains exactly the union of the inputs -/
theorem merge_is_union {ls : List (List α)} {r : List α} (h : merge ls = some r) :
    ∀ x, x ∈ r ↔ ∃ l ∈ ls, x ∈ l := merge_mem h

/-- … and has no duplicates when the inputs have none -/
theorem merge_no_duplicates {ls : List (List α)} {r : List α} (h : merge ls = some r)
    (hnd : ∀ l ∈ ls, l.Nodup) : r.Nodup := merge_nodup h hnd

/-- `merge` is total in the intended sense: its internal fuel is never what makes it return
    `none` — any larger amount of fuel gives the same answer, so `none` always means that no
    list head is free of the other lists' tails (Python: "Cannot create a consistent MRO") -/
theorem merge_fuel_irrelevant (ls : List (List α)) (k : Nat) :
    mergeAux (totalLen ls + 1 + k) ls = merge ls :=
  mergeAux_fuel_irrelevant _ _ ls (by omega) (by omega)

/-- a linearisation starts with the class, keeps the order of the listed bases (local
    precedence) and keeps the whole MRO of every base as a subsequence (monotonicity) -/
theorem mro_keeps_bases {tbl : Table} {fuel : Nat} {c : Cls} {m : List Cls}
    (h : mroOf tbl (fuel + 1) c = some m) :
    ∃ r rest, tbl[c]? = some r ∧ m = c :: rest ∧ r.bases.Sublist rest ∧
      ∀ b ∈ r.bases, ∃ mb, mroOf tbl fuel b = some mb ∧ mb.Sublist rest := by
  obtain ⟨r, ms, rest, hr, hms, hmerge, rfl⟩ := mroOf_succ_eq h
  refine ⟨r, rest, hr, rfl, merge_sublist hmerge _ (by simp), ?_⟩
  intro b hb
  obtain ⟨mb, hmb, hfb⟩ := (allSome_map_mem hms).1 b hb
  exact ⟨mb, hfb, merge_sublist hmerge _ (List.mem_append_left _ hmb)⟩

/-- the same for a class assembled on the spot, `type('T', bases, {})` -/
theorem adhoc_keeps_bases {tbl : Table} {bs m : List Cls} (h : mroAdhoc tbl bs = some m) :
    bs.Sublist m ∧ (∀ b ∈ bs, ∃ mb, mroOf tbl (mroFuel tbl) b = some mb ∧ mb.Sublist m) ∧
    (∀ x, x ∈ m ↔ x ∈ bs ∨ ∃ b ∈ bs, ∃ mb, mroOf tbl (mroFuel tbl) b = some mb ∧ x ∈ mb) := by
  obtain ⟨ms, hms, hmerge⟩ := mroAdhoc_eq h
  obtain ⟨h1, h2⟩ := allSome_map_mem hms
  refine ⟨merge_sublist hmerge _ (by simp), ?_, ?_⟩
  · intro b hb
    obtain ⟨mb, hmb, hfb⟩ := h1 b hb
    exact ⟨mb, hfb, merge_sublist hmerge _ (List.mem_append_left _ hmb)⟩
  · intro x
    rw [merge_mem hmerge x]
    constructor
    · rintro ⟨l, hl, hx⟩
      rcases List.mem_append.1 hl with hl | hl
      · obtain ⟨b, hb, hfb⟩ := h2 l hl
        exact Or.inr ⟨b, hb, l, hfb, hx⟩
      · simp only [List.mem_singleton] at hl; subst hl; exact Or.inl hx
    · rintro (hx | ⟨b, hb, mb, hfb, hx⟩)
      · exact ⟨bs, by simp, hx⟩
      · obtain ⟨y, hy, hfy⟩ := h1 b hb
        rw [hfb] at hfy; injection hfy with hfy; subst hfy
        exact ⟨mb, List.mem_append_left _ hy, hx⟩

/-- non-vacuity: the textbook diamond, and an inconsistent hierarchy that is rejected -/
example : merge [[1, 3, 0], [2, 3, 0], [1, 2]] = some [1, 2, 3, 0] := by decide
example : merge [[1, 2], [2, 1]] = (none : Option (List Nat)) := by decide
example : (mroAdhoc classTable documentedBlocks).isSome = true := by decide +kernel
/-- listing a base before its subclass is a TypeError in Python and `none` here -/
example : mroAdhoc classTable [cCFF, cMellinBarnesCFF] = none := by decide +kernel

/-! ## (2) name resolution -/

/-- GENERAL: if the static check passes for a list of blocks, then for any two orderings of the
    blocks whose linearisations exist, every name other than `__init__` is provided by the same
    class.  (`__init__` is the one name that every block defines on purpose; group (3).) -/
theorem resolve_order_independent {tbl : Table} {blocks bs1 bs2 m1 m2 : List Cls}
    (hc : checks tbl blocks = true) (hp1 : bs1.Perm blocks) (hp2 : bs2.Perm blocks)
    (hm1 : mroAdhoc tbl bs1 = some m1) (hm2 : mroAdhoc tbl bs2 = some m2)
    {n : Sym} (hn : n ≠ initSym) : resolve tbl n m1 = resolve tbl n m2 := by
  obtain ⟨u, hu⟩ := checked_of_checks hc
  exact resolve_eq_of_checkNames (hu.legit hp1 hm1) (hu.legit hp2 hm2) hu.names hn

/-- TABLE LEMMAS (decided on the generated table; no ordering is enumerated): the static check
    passes for the documented maximal theory and for each shipped KM combination
    (`by decide +kernel` in Proofs/MroTableDoc.lean, Proofs/MroTableKM.lean, Proofs/MroTableKM2.lean) -/
theorem checks_documented_table : checks classTable documentedBlocks = true := Table.checks_documented
theorem checks_KM09_table : checks classTable blocksKM09 = true := Table.checks_KM09
theorem checks_KM10_table : checks classTable blocksKM10 = true := Table.checks_KM10
theorem checks_KM10b_table : checks classTable blocksKM10b = true := Table.checks_KM10b
theorem checks_AFKM12_table : checks classTable blocksAFKM12 = true := Table.checks_AFKM12
theorem checks_KM15_table : checks classTable blocksKM15 = true := Table.checks_KM15

/-- hence, for the documented maximal theory: all 5040 orderings resolve every method and class
    attribute to the same defining class -/
theorem documented_resolve_order_independent {bs1 bs2 m1 m2 : List Cls}
    (hp1 : bs1.Perm documentedBlocks) (hp2 : bs2.Perm documentedBlocks)
    (hm1 : mroAdhoc classTable bs1 = some m1) (hm2 : mroAdhoc classTable bs2 = some m2)
    {n : Sym} (hn : n ≠ initSym) : resolve classTable n m1 = resolve classTable n m2 :=
  resolve_order_independent checks_documented_table hp1 hp2 hm1 hm2 hn

/-! ## (3) the cooperative `__init__` chain -/

/-- GENERAL (any step list made of events, calls and returns): construction succeeds **iff**
    every attribute loaded by a step is found on the class or was provided by an earlier step;
    otherwise it stops at the first load that is not covered (AttributeError). -/
theorem init_succeeds_iff {tbl : Table} {m : List Cls}
    (hclean : (trace tbl m).all Step.clean = true) :
    (run tbl m).2 = none ↔
      ∀ pre st post, trace tbl m = pre ++ st :: post → ∀ a, st.needs a = true →
        (onClass tbl m a || pre.any (Step.provides a)) = true := by
  unfold run
  rw [exec_ok_iff _ _ hclean]
  simp [avail, hasAttr]

/-- GENERAL: which `__init__` code runs does not depend on the ordering (same steps, possibly in
    another order) -/
theorem init_steps_order_independent {tbl : Table} {blocks bs1 bs2 m1 m2 : List Cls}
    (hc : checks tbl blocks = true) (hp1 : bs1.Perm blocks) (hp2 : bs2.Perm blocks)
    (hm1 : mroAdhoc tbl bs1 = some m1) (hm2 : mroAdhoc tbl bs2 = some m2) (st : Step) :
    st ∈ trace tbl m1 ↔ st ∈ trace tbl m2 := by
  obtain ⟨u, hu⟩ := checked_of_checks hc
  exact trace_mem_iff (hu.legit hp1 hm1) (hu.legit hp2 hm2) hu.names hu.chain hu.calls st

/-- GENERAL: if the static check passes, any two orderings that both construct end with the same
    configuration: the same instance attributes exist, and every attribute bound to a kwargs
    default (`nf`, `p`, `scheme`, `Q02`, …) holds the same value — because all `setdefault`
    defaults for one key agree across the classes involved.  (`view s a = none`: no attribute;
    `some (some v)`: bound to default text `v`; `some none`: computed by class code.) -/
theorem config_order_independent {tbl : Table} {blocks bs1 bs2 m1 m2 : List Cls}
    (hc : checks tbl blocks = true) (hp1 : bs1.Perm blocks) (hp2 : bs2.Perm blocks)
    (hm1 : mroAdhoc tbl bs1 = some m1) (hm2 : mroAdhoc tbl bs2 = some m2)
    {s1 s2 : State} (hr1 : run tbl m1 = (s1, none)) (hr2 : run tbl m2 = (s2, none)) (a : Sym) :
    view s1 a = view s2 a := by
  obtain ⟨u, hu⟩ := checked_of_checks hc
  exact view_eq_of_checked hu (hu.legit hp1 hm1) (hu.legit hp2 hm2) hr1 hr2 a

/-- for the documented maximal theory -/
theorem documented_config_order_independent {bs1 bs2 m1 m2 : List Cls}
    (hp1 : bs1.Perm documentedBlocks) (hp2 : bs2.Perm documentedBlocks)
    (hm1 : mroAdhoc classTable bs1 = some m1) (hm2 : mroAdhoc classTable bs2 = some m2)
    {s1 s2 : State} (hr1 : run classTable m1 = (s1, none)) (hr2 : run classTable m2 = (s2, none))
    (a : Sym) : view s1 a = view s2 a :=
  config_order_independent checks_documented_table hp1 hp2 hm1 hm2 hr1 hr2 a

/-- for every shipped KM combination (classes of fits.py): names and configuration do not depend
    on the order of the bases -/
theorem km_order_independent {kc : String × List Cls} (hk : kc ∈ kmCombinations)
    {bs1 bs2 m1 m2 : List Cls} (hp1 : bs1.Perm kc.2) (hp2 : bs2.Perm kc.2)
    (hm1 : mroAdhoc classTable bs1 = some m1) (hm2 : mroAdhoc classTable bs2 = some m2) :
    (∀ n, n ≠ initSym → resolve classTable n m1 = resolve classTable n m2) ∧
    (∀ s1 s2, run classTable m1 = (s1, none) → run classTable m2 = (s2, none) →
      ∀ a, view s1 a = view s2 a) := by
  have hc : checks classTable kc.2 = true := by
    simp only [kmCombinations, List.mem_cons, List.not_mem_nil, or_false] at hk
    rcases hk with rfl | rfl | rfl | rfl | rfl
    · exact checks_KM09_table
    · exact checks_KM10_table
    · exact checks_KM10b_table
    · exact checks_AFKM12_table
    · exact checks_KM15_table
  exact ⟨fun n hn => resolve_order_independent hc hp1 hp2 hm1 hm2 hn,
    fun s1 s2 h1 h2 a => config_order_independent hc hp1 hp2 hm1 hm2 h1 h2 a⟩

/-- non-vacuity on the generated table: the documented order constructs and binds `nf`
    (which orderings fail, and with which missing attribute, is compared with the real code for
    all 5040 orderings on every run — it is not frozen into a theorem here, so that a repair that
    lets more orderings construct does not break this file) -/
example : (mroAdhoc classTable documentedBlocks).map (fun m => (run classTable m).2) = some none := by
  decide +kernel
example : ((mroAdhoc classTable documentedBlocks).map
    (fun m => (view (run classTable m).1 s_nf).isSome)) = some true := by decide +kernel

/-- non-vacuity of the failure branch and of the execution order, on a three-class table:
    `A` creates attribute 7 and calls super; `B` loads it and ends the chain; `C` calls super
    first and loads attribute 7 afterwards.  Code before `super().__init__()` runs in MRO order,
    code after it in reverse order. -/
def miniTable : Table := [
  { name := 0, bases := [], defs := [0], init := .object, meths := [] },
  { name := 1, bases := [0], defs := [0], init := .evs [.prim (.write 7 0)] true [], meths := [] },
  { name := 2, bases := [0], defs := [0], init := .evs [.prim (.read 7)] false [], meths := [] },
  { name := 3, bases := [0], defs := [0], init := .evs [] true [.prim (.read 7)], meths := [] }]
example : (run miniTable [1, 2, 0]).2 = none := by decide
example : (run miniTable [2, 1, 0]).2 = some (.attribute 7) := by decide
example : (run miniTable [3, 1, 2, 0]).2 = none := by decide
example : (run miniTable [3, 2, 1, 0]).2 = some (.attribute 7) := by decide
example : mroAdhoc miniTable [3, 1, 2] = some [3, 1, 2, 0] := by decide

/-- The hypothesis of the general theorems is needed: with `TestGPD` (whose `__init__` prefers
    nf = 3) next to a CFF class that prefers nf = 4, the static check fails, and two orderings that
    both construct do end with different `nf` (the real code then gives different DIS F2). -/
theorem testgpd_blocks_refuted :
    checks classTable [cTestGPD, cDispersionFixedPoleCFF, cDipoleEFF, cBMK, cDIS] = false ∧
    ((mroAdhoc classTable [cTestGPD, cDispersionFixedPoleCFF, cDipoleEFF, cBMK, cDIS]).map
        (fun m => ((run classTable m).2, view (run classTable m).1 s_nf)))
      ≠ ((mroAdhoc classTable [cDispersionFixedPoleCFF, cTestGPD, cDipoleEFF, cBMK, cDIS]).map
        (fun m => ((run classTable m).2, view (run classTable m).1 s_nf))) ∧
    ((mroAdhoc classTable [cTestGPD, cDispersionFixedPoleCFF, cDipoleEFF, cBMK, cDIS]).map
        (fun m => (run classTable m).2)) = some none ∧
    ((mroAdhoc classTable [cDispersionFixedPoleCFF, cTestGPD, cDipoleEFF, cBMK, cDIS]).map
        (fun m => (run classTable m).2)) = some none := by
  decide +kernel

end Gep.Mro.C20

/-
  Props/C09.lean — property C09: data files are read with their literal meaning.
  Theorems about Model/DataFile.lean (tokenizer, line classification, preamble) and
  Gen/GridPtR.lean (error combination over ℝ).  Helper lemmas: Proofs/DataFile.lean.
-/
import Proofs.DataFile
import Proofs.DataFileTok
import Gen.GridPtR
import Mathlib.Analysis.SpecialFunctions.Sqrt
import Mathlib.Tactic.Positivity

namespace Gep.DF.C09
open Gep.DF

/-! ### the grid: one point per row, the numbers as written -/

/-- Any legal decimal or exponent notation is one token: examples of the grammar
    `[-+]?(\d+\.?\d*|\.\d+)([eE][-+]?\d+)?` (the decidable well-formedness predicate is `IsTok`). -/
theorem tokens_legal :
    IsTok "1.109E-05".toList ∧ IsTok "9.274345648702122e-6".toList ∧ IsTok "+3".toList ∧
    IsTok ".5".toList ∧ IsTok "7.".toList ∧ IsTok "-0.25e+3".toList ∧ IsTok "8E-05".toList ∧
    ¬ IsTok "1e".toList ∧ ¬ IsTok "--1".toList ∧ ¬ IsTok "".toList ∧ ¬ IsTok "1.2.3".toList := by
  decide

/-- … and is read with its decimal value -/
theorem token_values :
    decOfToken "1.109E-05".toList = ⟨false, 1109, -8⟩ ∧
    decOfToken "-0.25e+3".toList = ⟨true, 25, 1⟩ ∧
    decOfToken "+3".toList = ⟨false, 3, 0⟩ ∧
    decOfToken ".5".toList = ⟨false, 5, -1⟩ ∧
    decOfToken "7.".toList = ⟨false, 7, 0⟩ ∧
    decOfToken "22.5".toList = ⟨false, 225, -1⟩ := by
  decide

/-- **Literal value.**  For every literal written as [sign] digits [. digits] [e|E [sign] digits]
    (or [sign] . digits …), with an exponent marker that is not a digit or a dot, the token is read as
    (−1)^neg · (all digits as one number) · 10^(written exponent − number of fraction digits) -/
theorem decOfToken_literal (l : Lit) (h : l.Digits) : decOfToken l.chars = l.value := by
  obtain ⟨neg, ip, fp, ex⟩ := l
  obtain ⟨hip, hfp, hex, hbare⟩ := h
  simp only at hip hfp hex hbare
  -- no digit is a sign or a dot
  have hds : ∀ c, isDigit c = true → c ≠ '-' ∧ c ≠ '+' ∧ c ≠ '.' := by
    intro c hc
    refine ⟨?_, ?_, ?_⟩ <;> (rintro rfl; revert hc; decide)
  -- the sign is stripped when a digit or a '.' follows
  have hsign : ∀ (c : Char) (r : List Char), c ≠ '-' → c ≠ '+' →
      stripSign (signChars neg ++ c :: r) = (neg == some true, c :: r) := by
    intro c r h1 h2
    rcases neg with _ | (_ | _)
    · simp only [signChars, List.nil_append]
      unfold stripSign
      split <;> simp_all
    · simp [signChars, stripSign]
    · simp [signChars, stripSign]
  -- exponent part
  have hexp : ∀ (e : Char) (s : Option Bool) (d : List Char), ex = some (e, s, d) →
      expOf (e :: (signChars s ++ d)) = (match s with | some true => -(natOfDigits d : Int) | _ => (natOfDigits d : Int)) := by
    intro e s d he
    obtain ⟨_, _, hd, hne⟩ := hex e s d he
    rcases s with _ | (_ | _)
    · obtain ⟨c, d', rfl⟩ := hne rfl
      have := hds c (hd c (by simp))
      simp only [signChars, List.nil_append]
      unfold expOf
      split <;> simp_all
    · simp [signChars, expOf]
    · simp [signChars, expOf]
  -- the body after the sign, computed by decBody
  have hbody : ∀ b : Bool, decBody b (ip ++ (fracChars fp ++ expChars ex)) =
      { neg := b, mant := natOfDigits (ip ++ fp.getD []),
        exp := expVal ex - ((fp.getD []).length : Int) } := by
    intro b
    rcases fp with _ | f
    · rcases ex with _ | ⟨e, s, d⟩
      · have := takeWhile_digits ip [] hip (Or.inl rfl)
        simp only [fracChars, expChars, List.append_nil] at this ⊢
        simp [decBody, this.1, this.2, expOf, expVal]
      · obtain ⟨hed, hedot, _, _⟩ := hex e s d rfl
        have := takeWhile_digits ip (e :: (signChars s ++ d)) hip (Or.inr ⟨e, _, rfl, hed⟩)
        simp only [fracChars, expChars, List.nil_append]
        unfold decBody
        simp only [this.1, this.2]
        split
        · rename_i r heq; simp at heq; exact absurd heq.1 hedot
        · simp only [Option.getD_none, List.append_nil, List.length_nil, hexp e s d rfl]
          rcases s with _ | (_ | _) <;> simp [expVal]
    · have hf := hfp f rfl
      rcases ex with _ | ⟨e, s, d⟩
      · have h1 := takeWhile_digits ip ('.' :: f) hip (Or.inr ⟨'.', f, rfl, by decide⟩)
        have h2 := takeWhile_digits f [] hf (Or.inl rfl)
        simp only [fracChars, expChars, List.append_nil] at h1 h2 ⊢
        unfold decBody
        simp [h1.1, h1.2, h2.1, h2.2, expOf, expVal]
      · obtain ⟨hed, _, _, _⟩ := hex e s d rfl
        have h1 := takeWhile_digits ip ('.' :: (f ++ e :: (signChars s ++ d))) hip (Or.inr ⟨'.', _, rfl, by decide⟩)
        have h2 := takeWhile_digits f (e :: (signChars s ++ d)) hf (Or.inr ⟨e, _, rfl, hed⟩)
        simp only [fracChars, expChars, List.cons_append] at h1 ⊢
        unfold decBody
        simp only [h1.1, h1.2, h2.1, h2.2, Option.getD_some, hexp e s d rfl]
        rcases s with _ | (_ | _) <;> simp [expVal]
  -- first character after the sign: a digit, or the '.' when there are no integer digits
  obtain ⟨c, r, hcr, hc1, hc2⟩ : ∃ c r, ip ++ (fracChars fp ++ expChars ex) = c :: r ∧ c ≠ '-' ∧ c ≠ '+' := by
    rcases ip with _ | ⟨a, ip'⟩
    · obtain ⟨f, rfl⟩ := hbare rfl
      exact ⟨'.', f ++ expChars ex, by simp [fracChars], by decide, by decide⟩
    · have := hds a (hip a (by simp))
      exact ⟨a, ip' ++ (fracChars fp ++ expChars ex), rfl, this.1, this.2.1⟩
  unfold decOfToken Lit.chars
  simp only
  rw [hcr, hsign c r hc1 hc2]
  simp only
  rw [← hcr, hbody]
  rfl

/-- non-vacuity: `-0.25e+3` as a structured literal -/
example : (⟨some true, ['0'], some ['2', '5'], some ('e', some false, ['3'])⟩ : Lit).chars = "-0.25e+3".toList ∧
    (⟨some true, ['0'], some ['2', '5'], some ('e', some false, ['3'])⟩ : Lit).Digits := by
  refine ⟨by decide, ?_⟩
  refine ⟨by decide, ?_, ?_, by simp⟩
  · intro f hf; simp at hf; subst hf; decide
  · intro e s d h; simp at h; obtain ⟨rfl, rfl, rfl⟩ := h; refine ⟨by decide, by decide, by decide, by simp⟩

/-- **Row round trip.**  A grid row written as: optional leading blanks/tabs, number tokens in any
    legal notation separated by non-empty runs of blanks/tabs, optional trailing blanks / CR,
    optionally followed by a `#` comment — is recognised as a grid line and contributes exactly one
    row holding the written numbers, in order. -/
theorem parseLine_grid_row (p : Parsed) (lead : List Char) (w s : List Char)
    (r : List (List Char × List Char)) (cmt : List Char)
    (hl : ∀ d ∈ lead, isBlank d = true) (hrow : RowOk ((w, s) :: r)) (hs : s ≠ [])
    (hc : cmt = [] ∨ ∃ x, cmt = '#' :: x) :
    parseLine p (lead ++ renderRow ((w, s) :: r) ++ cmt) =
      { p with data := p.data ++ [(w :: r.map (·.1)).map decOfToken] } := by
  have hw : IsTok w := by cases r <;> simp [RowOk] at hrow <;> exact hrow.1
  have hsr : IsSepRun s := by
    cases r with
    | nil => simp [RowOk] at hrow; exact hrow.2
    | cons q r' => simp [RowOk] at hrow; exact hrow.2.1
  have hbody : ∀ c ∈ lead ++ renderRow ((w, s) :: r), c ≠ '#' ∧ c ≠ '=' := by
    intro c hc
    rcases List.mem_append.mp hc with h | h
    · exact sep_not_hash_eq (isBlank_isSep (hl c h))
    · exact renderRow_chars _ hrow c h
  have hstrip : stripComment (lead ++ renderRow ((w, s) :: r) ++ cmt) = lead ++ renderRow ((w, s) :: r) := by
    rcases hc with rfl | ⟨x, rfl⟩
    · rw [List.append_nil]; exact stripComment_none _ (fun c hc => (hbody c hc).1)
    · exact stripComment_append _ x (fun c hc => (hbody c hc).1)
  have hnoeq : (lead ++ renderRow ((w, s) :: r)).any (· == '=') = false := by
    rw [List.any_eq_false]; intro c hc; simpa using (hbody c hc).2
  obtain ⟨c, s', rfl⟩ := List.exists_cons_of_ne_nil hs
  have hgrid : isGridLine (lead ++ renderRow ((w, c :: s') :: r)) = true := by
    have := isGridLine_row lead w c (s' ++ renderRow r) hl hw (hsr c (by simp))
    simpa [renderRow, List.append_assoc] using this
  have hfind : findall (lead ++ renderRow ((w, c :: s') :: r)) = w :: r.map (·.1) := by
    have := findall_row lead ((w, c :: s') :: r) (fun d hd => isBlank_isSep (hl d hd)) hrow
    simpa using this
  unfold parseLine
  simp only [hstrip, hnoeq, hgrid, hfind, if_true, Bool.false_eq_true, if_false]

/-- the tokenizer of the code before the repair, `[-\.\d]+`, does not have the property:
    it tears `1.109E-05` (dataset 142, row φ = 22.5°) into `1.109` and `-05` -/
def oldTokChar (c : Char) : Bool := c == '-' || c == '.' || isDigit c
def findallOld : Nat → List Char → List (List Char)
  | 0, _ => []
  | _, [] => []
  | f + 1, c :: cs =>
    if oldTokChar c then (c :: cs).takeWhile oldTokChar :: findallOld f ((c :: cs).dropWhile oldTokChar)
    else findallOld f cs

theorem old_tokenizer_refuted :
    findallOld 100 "22.5\t1.109E-05\t0.0018".toList = ["22.5".toList, "1.109".toList, "-05".toList, "0.0018".toList] ∧
    findall "22.5\t1.109E-05\t0.0018".toList = ["22.5".toList, "1.109E-05".toList, "0.0018".toList] := by
  decide

/-! ### lines, comments, preamble -/

theorem splitLinesAux_line (l acc rest : List Char) (hl : ∀ c ∈ l, c ≠ '\n' ∧ c ≠ '\r') :
    splitLinesAux (l ++ '\n' :: rest) acc = (acc.reverse ++ l) :: splitLinesAux rest [] ∧
    splitLinesAux (l ++ '\r' :: '\n' :: rest) acc = (acc.reverse ++ l) :: splitLinesAux rest [] := by
  induction l generalizing acc with
  | nil => simp [splitLinesAux]
  | cons a l ih =>
    have ha := hl a (by simp)
    have := ih (a :: acc) (fun c hc => hl c (by simp [hc]))
    constructor
    · rw [List.cons_append, splitLinesAux.eq_def]
      split <;> simp_all
    · rw [List.cons_append, splitLinesAux.eq_def]
      split <;> simp_all

/-- LF and CRLF line ends give the same lines -/
theorem splitLines_line (l rest : List Char) (hl : ∀ c ∈ l, c ≠ '\n' ∧ c ≠ '\r') :
    splitLines (l ++ '\n' :: rest) = l :: splitLines rest ∧
    splitLines (l ++ '\r' :: '\n' :: rest) = l :: splitLines rest := by
  have := splitLinesAux_line l [] rest hl
  simpa [splitLines] using this

/-- a pure comment line or an empty line contributes nothing -/
theorem parseLine_comment (p : Parsed) (x : List Char) : parseLine p ('#' :: x) = p := by
  simp [parseLine, stripComment, isGridLine, sepAfterNum]

theorem parseLine_empty (p : Parsed) : parseLine p [] = p := by
  simp [parseLine, stripComment, isGridLine, sepAfterNum]

/-- `dictSet` then lookup returns the stored value (preamble keys become attributes) -/
theorem lookup_dictSet (d : List (String × String)) (k v : String) : lookup (dictSet d k v) k = some v := by
  unfold dictSet lookup
  split
  · rename_i h
    induction d with
    | nil => simp at h
    | cons kv ds ih =>
      simp only [List.map_cons, List.find?_cons]
      by_cases hk : kv.1 = k
      · simp [hk]
      · have hk' : (kv.1 == k) = false := by simpa using hk
        simp only [hk', Bool.false_eq_true, if_false]
        simp only [List.any_cons, hk', Bool.false_or] at h
        exact ih h
  · rename_i h
    simp only [List.any_eq_true, not_exists, not_and, Bool.not_eq_true] at h
    rw [List.find?_append]
    have : d.find? (fun x => x.1 == k) = none := by
      rw [List.find?_eq_none]; intro x hx; simpa using h x hx
    simp [this]

/-- numeric conversion of preamble values: integers, decimals, text -/
theorem str2num_examples :
    str2num "142" = .int ⟨false, 142, 0⟩ ∧ str2num "+1" = .int ⟨false, 1, 0⟩ ∧
    str2num "5.75" = .flt ⟨false, 575, -2⟩ ∧ str2num "-0.36" = .flt ⟨true, 36, -2⟩ ∧
    str2num "column6" = .str "column6" ∧ str2num "fixed target" = .str "fixed target" ∧
    str2num "nb/GeV^4" = .str "nb/GeV^4" := by
  decide


/-! ### the number grammar and the automaton agree (helper lemmas in Proofs/DataFileTok.lean) -/

/-- every literal of the NUM grammar — optional sign, digits with optional fraction or a bare fraction, optional
    exponent with at least one digit — is a token of the automaton that `findall` runs: so `parseLine_grid_row`
    applies to rows written with such literals, and `decOfToken_literal` gives their exact decimal values -/
theorem legal_literal_is_token (l : Lit) (h : Legal l) : IsTok l.chars := legal_isTok l h

/-- the structural predicate `Lit.Digits` alone is NOT the grammar: it accepts `.` and `1e-` (no digits where the
    grammar demands one), which are not tokens — hence the extra clauses of `Legal` -/
theorem digits_alone_is_not_legal :
    ¬ IsTok (Lit.chars ⟨none, [], some [], none⟩) ∧ ¬ IsTok (Lit.chars ⟨none, ['1'], none, some ('e', some false, [])⟩) := by
  constructor <;> decide

/-! ### the whole file: the grid of `parse` is the in-order concatenation of the per-line contributions
    (contributed by the independent audit, notes/audit/snip/C09_b.lean) -/
def rowOf (raw : List Char) : List (List Dec) :=
  if isGridLine (stripComment raw) then [(findall (stripComment raw)).map decOfToken] else []

theorem parseLine_data (p : Parsed) (raw : List Char) : (parseLine p raw).data = p.data ++ rowOf raw := by
  unfold parseLine rowOf
  simp only
  split <;> split <;> (try split) <;> simp

theorem foldl_data (ls : List (List Char)) (p : Parsed) :
    (ls.foldl parseLine p).data = p.data ++ ls.flatMap rowOf := by
  induction ls generalizing p with
  | nil => simp
  | cons l ls ih => simp [List.foldl_cons, ih, parseLine_data, List.append_assoc]

theorem parse_data (text : List Char) : (parse text).data = (splitLines text).flatMap rowOf := by
  unfold parse; rw [foldl_data]; simp

-- a concrete whole file through the model (CRLF, comment, preamble, exponent)
example : (parse "# c\nx1name = t\n 1.0 2.0 \r\n3 4e-1 # hi\n\n".toList).data =
    [[⟨false,10,-1⟩,⟨false,20,-1⟩],[⟨false,3,0⟩,⟨false,4,-1⟩]] ∧
    (parse "# c\nx1name = t\n 1.0 2.0 \r\n3 4e-1 # hi\n\n".toList).desc = [("x1name","t")] := by decide

end Gep.DF.C09

/-! ### uncertainties (over ℝ) -/
namespace Gep.R.C09
open Gep.R

theorem kmax_eq (a b : ℝ) : kmax a b = max a b := by
  unfold kmax; split <;> [rw [max_eq_left (by assumption)]; rw [max_eq_right (by linarith)]]

/-- a total uncertainty column is taken as it is, for both sides -/
theorem combine_total (val t : ℝ) (e : ErrIn) (h : e.total = some t) :
    (combine val e).err = t ∧ (combine val e).errplus = t ∧ (combine val e).errminus = t := by
  simp [combine, h]

/-- otherwise the total uncertainty is the quadrature sum of the statistical, systematic
    (larger side if asymmetric) and normalisation parts -/
theorem combine_err_sq (val : ℝ) (stat syst : ℝ) (sp sm yp ym n : ℝ) :
    (combine val { stat := some stat, statPM := some (sp, sm), syst := some syst,
                   systPM := some (yp, ym), norm := some n }).err ^ 2 =
      stat ^ 2 + max (sp ^ 2) (sm ^ 2) + syst ^ 2 + max (yp ^ 2) (ym ^ 2) + (n * val) ^ 2 := by
  simp only [combine, variances, ksqrt, kmax_eq]
  rw [Real.sq_sqrt (by positivity)]; ring

theorem combine_err_sq_sym (val stat syst : ℝ) :
    (combine val { stat := some stat, syst := some syst }).err ^ 2 = stat ^ 2 + syst ^ 2 := by
  simp only [combine, variances, ksqrt, kmax_eq]
  rw [Real.sq_sqrt (by positivity)]; simp

/-- upper / lower uncertainties use the respective side -/
theorem combine_errplus_sq (val : ℝ) (stat syst : ℝ) (sp sm yp ym n : ℝ) :
    (combine val { stat := some stat, statPM := some (sp, sm), syst := some syst,
                   systPM := some (yp, ym), norm := some n }).errplus ^ 2 =
      stat ^ 2 + syst ^ 2 + sp ^ 2 + yp ^ 2 + (n * val) ^ 2 ∧
    (combine val { stat := some stat, statPM := some (sp, sm), syst := some syst,
                   systPM := some (yp, ym), norm := some n }).errminus ^ 2 =
      stat ^ 2 + syst ^ 2 + sm ^ 2 + ym ^ 2 + (n * val) ^ 2 := by
  simp only [combine, variances, ksqrt]
  constructor <;> (rw [Real.sq_sqrt (by positivity)]; ring)

/-- the error is never below any of its parts -/
theorem combine_err_ge (val stat syst : ℝ) (_hs : 0 ≤ stat) :
    stat ≤ (combine val { stat := some stat, syst := some syst }).err := by
  simp only [combine, variances, ksqrt, kmax_eq]
  apply Real.le_sqrt_of_sq_le
  simp; positivity

/-- the variance bookkeeping behind the three uncertainties: each side's variance is at most the total one (the total takes
    the larger side of every asymmetric part), for every pattern of present / absent columns -/
theorem variances_sides_le (val : ℝ) (e : ErrIn) :
    (variances val e).varsym + (variances val e).varplus ≤ (variances val e).varstat + (variances val e).varsyst ∧
    (variances val e).varsym + (variances val e).varminus ≤ (variances val e).varstat + (variances val e).varsyst := by
  obtain ⟨tot, st, spm, sy, ypm, n⟩ := e
  rcases st with _ | st <;> rcases spm with _ | ⟨sp, sm⟩ <;> rcases sy with _ | sy <;>
    rcases ypm with _ | ⟨yp, ym⟩ <;>
    simp only [variances, kmax_eq, max_self] <;>
    constructor <;>
    first
    | linarith
    | linarith [le_max_left (sp ^ 2) (sm ^ 2), le_max_right (sp ^ 2) (sm ^ 2)]
    | linarith [le_max_left (yp ^ 2) (ym ^ 2), le_max_right (yp ^ 2) (ym ^ 2)]
    | linarith [le_max_left (sp ^ 2) (sm ^ 2), le_max_right (sp ^ 2) (sm ^ 2),
                le_max_left (yp ^ 2) (ym ^ 2), le_max_right (yp ^ 2) (ym ^ 2)]

/-- hence the upper and the lower uncertainty never exceed the total one — whatever columns the file has -/
theorem combine_sides_le_err (val : ℝ) (e : ErrIn) :
    (combine val e).errplus ≤ (combine val e).err ∧ (combine val e).errminus ≤ (combine val e).err := by
  obtain ⟨h1, h2⟩ := variances_sides_le val e
  rcases ht : e.total with _ | t
  · simp only [combine, ht, ksqrt]
    constructor <;> apply Real.sqrt_le_sqrt <;> linarith
  · simp [combine, ht]

/-- all three uncertainties are non-negative when no total column is given -/
theorem combine_nonneg (val : ℝ) (e : ErrIn) (h : e.total = none) :
    0 ≤ (combine val e).err ∧ 0 ≤ (combine val e).errplus ∧ 0 ≤ (combine val e).errminus := by
  simp only [combine, h, ksqrt]
  exact ⟨Real.sqrt_nonneg _, Real.sqrt_nonneg _, Real.sqrt_nonneg _⟩

/-- the combined uncertainty for EVERY pattern of present / absent error columns (32 patterns) when no total error is
    given: the quadrature sum of the statistical and systematic parts (larger side of asymmetric ones) and the
    normalisation error (contributed by the independent audit, notes/audit/snip/C09_d.lean) -/
theorem combine_err_sq_general (val : ℝ) (e : ErrIn) (h : e.total = none) :
    (combine val e).err ^ 2 =
      (e.stat.elim 0 (· ^ 2)) + (e.statPM.elim 0 (fun pm => max (pm.1 ^ 2) (pm.2 ^ 2))) +
      (e.syst.elim 0 (· ^ 2)) + (e.systPM.elim 0 (fun pm => max (pm.1 ^ 2) (pm.2 ^ 2))) +
      (e.norm.elim 0 (fun n => (n * val) ^ 2)) := by
  obtain ⟨tot, st, spm, sy, ypm, n⟩ := e
  simp only at h; subst h
  rcases st with _ | st <;> rcases spm with _ | ⟨sp, sm⟩ <;> rcases sy with _ | sy <;>
    rcases ypm with _ | ⟨yp, ym⟩ <;> rcases n with _ | n <;>
    simp only [combine, variances, ksqrt, kmax_eq, Option.elim] <;>
    (rw [Real.sq_sqrt (by positivity)]) <;> simp <;> ring


end Gep.R.C09

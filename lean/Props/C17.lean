/-
  Props/C17.lean — property C17: selection, slicing, concatenation and copying have list
  semantics.  Property theorems only; all about Model/DataSetOps.lean.
-/
import Model.DataSetOps
import Mathlib.Data.List.Basic
import Mathlib.Tactic.Linarith

namespace Gep.DS.C17
open Gep.DS

variable {α β : Type}

theorem andLoop_eq_all (p : α) (crit : List (α → Bool)) :
    andLoop p crit = crit.all (fun c => c p) := by
  induction crit with
  | nil => rfl
  | cons c cs ih => simp only [andLoop, List.all_cons, ih]; cases c p <;> simp

theorem orLoop_eq (p : α) (sel : List α) (crit : List (α → Bool)) :
    orLoop p sel crit = if crit.any (fun c => c p) then sel ++ [p] else sel := by
  induction crit with
  | nil => simp [orLoop]
  | cons c cs ih =>
    simp only [orLoop, List.any_cons, ih]
    by_cases hc : c p = true <;> simp [hc]

theorem foldl_filter (f : α → Bool) (pts acc : List α) :
    pts.foldl (fun sel p => if f p then sel ++ [p] else sel) acc = acc ++ pts.filter f := by
  induction pts generalizing acc with
  | nil => simp
  | cons p ps ih =>
    simp only [List.foldl_cons, ih, List.filter_cons]
    cases f p <;> simp

/-- AND selection returns exactly the points satisfying all criteria, in the original order,
    each as often as it occurs in the source (once for a source without repetitions). -/
theorem select_AND (crit : List (α → Bool)) (pts : List α) :
    selectPts .AND crit pts = pts.filter (fun p => crit.all (fun c => c p)) := by
  unfold selectPts
  have := foldl_filter (fun p => crit.all (fun c => c p)) pts []
  simpa [andLoop_eq_all] using this

/-- OR selection returns exactly the points satisfying at least one criterion, each once
    (however many criteria it satisfies), in the original order. -/
theorem select_OR (crit : List (α → Bool)) (pts : List α) :
    selectPts .OR crit pts = pts.filter (fun p => crit.any (fun c => c p)) := by
  unfold selectPts
  have := foldl_filter (fun p => crit.any (fun c => c p)) pts []
  simpa [orLoop_eq] using this

/-- hence: a selection is a sublist of the source (order kept, nothing duplicated or invented) -/
theorem select_sublist (l : Logic) (crit : List (α → Bool)) (pts : List α) :
    (selectPts l crit pts).Sublist pts := by
  cases l with
  | AND => rw [select_AND]; exact List.filter_sublist
  | OR => rw [select_OR]; exact List.filter_sublist
  | other =>
    unfold selectPts
    have : ∀ acc : List α, pts.foldl (fun sel _ => sel) acc = acc := by
      intro acc; induction pts generalizing acc <;> simp_all
    simp [this]

/-- selection commutes with concatenation of the sources -/
theorem select_append_pts (l : Logic) (crit : List (α → Bool)) (a b : List α) :
    selectPts l crit (a ++ b) = selectPts l crit a ++ selectPts l crit b := by
  cases l with
  | AND => simp [select_AND]
  | OR => simp [select_OR]
  | other =>
    have : ∀ (pts acc : List α), pts.foldl (fun sel _ => sel) acc = acc := by
      intro pts acc; induction pts generalizing acc <;> simp_all
    simp [selectPts, this]

/-- selecting with `c₁ ++ c₂` (AND) is selecting with `c₁` and then with `c₂` -/
theorem select_AND_append_crit (c₁ c₂ : List (α → Bool)) (pts : List α) :
    selectPts .AND (c₁ ++ c₂) pts = selectPts .AND c₂ (selectPts .AND c₁ pts) := by
  simp only [select_AND, List.filter_filter, List.all_append]
  congr 1; funext p; exact Bool.and_comm _ _

/-- selecting with `c₁ ++ c₂` (OR) returns a point iff one of the two separate selections does -/
theorem select_OR_append_crit (c₁ c₂ : List (α → Bool)) (pts : List α) (p : α) :
    p ∈ selectPts .OR (c₁ ++ c₂) pts ↔ p ∈ selectPts .OR c₁ pts ∨ p ∈ selectPts .OR c₂ pts := by
  simp only [select_OR, List.mem_filter, List.any_append, Bool.or_eq_true]
  tauto

/-- the order in which the criteria are listed does not matter -/
theorem select_perm_crit (l : Logic) {c₁ c₂ : List (α → Bool)} (h : c₁.Perm c₂) (pts : List α) :
    selectPts l c₁ pts = selectPts l c₂ pts := by
  cases l with
  | AND =>
    rw [select_AND, select_AND]; congr 1; funext p
    rw [Bool.eq_iff_iff]; simp only [List.all_eq_true]
    exact ⟨fun hh c hc => hh c (h.mem_iff.2 hc), fun hh c hc => hh c (h.mem_iff.1 hc)⟩
  | OR =>
    rw [select_OR, select_OR]; congr 1; funext p
    rw [Bool.eq_iff_iff]; simp only [List.any_eq_true]
    exact ⟨fun ⟨c, hc, hp⟩ => ⟨c, h.mem_iff.1 hc, hp⟩, fun ⟨c, hc, hp⟩ => ⟨c, h.mem_iff.2 hc, hp⟩⟩
  | other => rfl

/-- selecting twice with the same criteria is selecting once -/
theorem select_idem (l : Logic) (crit : List (α → Bool)) (pts : List α) :
    selectPts l crit (selectPts l crit pts) = selectPts l crit pts := by
  cases l with
  | AND => simp [select_AND, List.filter_filter]
  | OR => simp [select_OR, List.filter_filter]
  | other =>
    have : ∀ (pts acc : List α), pts.foldl (fun sel _ => sel) acc = acc := by
      intro pts acc; induction pts generalizing acc <;> simp_all
    simp [selectPts, this]

/-- no criteria: AND keeps every point, OR keeps none (Python: `all([])` / `any([])`) -/
theorem select_no_crit (pts : List α) : selectPts .AND [] pts = pts ∧ selectPts .OR [] pts = [] := by
  simp [select_AND, select_OR]

/-- with at least one criterion, whatever AND returns OR returns too -/
theorem select_AND_sub_OR (crit : List (α → Bool)) (hc : crit ≠ []) (pts : List α) :
    (selectPts .AND crit pts).Sublist (selectPts .OR crit pts) := by
  rw [select_AND, select_OR]
  apply List.monotone_filter_right
  intro p hp
  obtain ⟨c, cs, rfl⟩ := List.exists_cons_of_ne_nil hc
  simp only [List.all_cons, Bool.and_eq_true] at hp
  simp [hp.1]

/-- the empty selection is a legal result -/
theorem select_unsat (crit : List (α → Bool)) (pts : List α)
    (h : ∀ p ∈ pts, crit.all (fun c => c p) = false) : selectPts .AND crit pts = [] := by
  rw [select_AND]; simp only [List.filter_eq_nil_iff]; intro p hp; simp [h p hp]

/-- selection keeps the descriptive attributes and is a function of its arguments only
    (the source is a value: it cannot change) -/
theorem select_attrs (l : Logic) (crit : List (α → Bool)) (d : DSet α β) :
    (select l crit d).attrs = d.attrs := rfl

/-- the code before the repair (no `break` in the OR loop) does NOT have the property:
    a point satisfying two criteria is returned twice -/
theorem select_OR_old_refuted :
    selectPtsOld [fun n : Nat => n > 0, fun n => n < 5] [3] = [3, 3] ∧
    [3].filter (fun p => [fun n : Nat => decide (n > 0), fun n => decide (n < 5)].any (fun c => c p)) = [3] := by
  decide

/-! ### slices -/

theorem adjPos_bounds (n : Nat) (x : Int) : 0 ≤ adjPos n x ∧ adjPos n x ≤ n := by
  unfold adjPos; split <;> [split; split] <;> omega

theorem adjNeg_bounds (n : Nat) (x : Int) : -1 ≤ adjNeg n x ∧ adjNeg n x ≤ (n : Int) - 1 := by
  unfold adjNeg; split <;> [split; split] <;> omega

theorem mem_rangeList_pos {lo hi step x : Int} (hs : 0 < step) (hx : x ∈ rangeList lo hi step) :
    lo ≤ x ∧ x < hi ∧ ∃ k : Nat, x = lo + k * step := by
  unfold rangeList at hx
  simp only [List.mem_map, List.mem_range] at hx
  obtain ⟨k, hk, rfl⟩ := hx
  unfold rangeLen at hk
  simp only [hs, if_true] at hk
  split at hk
  · rename_i hlt
    have h1 : ((hi - lo - 1) / step + 1).toNat = ((hi - lo - 1) / step + 1) := by
      apply Int.toNat_of_nonneg
      have : 0 ≤ (hi - lo - 1) / step := Int.ediv_nonneg (by omega) (by omega)
      omega
    have hk' : (k : Int) < (hi - lo - 1) / step + 1 := by omega
    have hk'' : (k : Int) ≤ (hi - lo - 1) / step := by omega
    have : (k : Int) * step ≤ (hi - lo - 1) / step * step :=
      Int.mul_le_mul_of_nonneg_right hk'' (by omega)
    have h2 : (hi - lo - 1) / step * step ≤ hi - lo - 1 := Int.ediv_mul_le _ (by omega)
    refine ⟨?_, ?_, k, rfl⟩
    · have : 0 ≤ (k : Int) * step := Int.mul_nonneg (by omega) (by omega)
      omega
    · omega
  · omega

theorem mem_rangeList_neg {lo hi step x : Int} (hs : step < 0) (hx : x ∈ rangeList lo hi step) :
    hi < x ∧ x ≤ lo ∧ ∃ k : Nat, x = lo + k * step := by
  unfold rangeList at hx
  simp only [List.mem_map, List.mem_range] at hx
  obtain ⟨k, hk, rfl⟩ := hx
  unfold rangeLen at hk
  have hns : ¬ (step > 0) := by omega
  simp only [hns, hs, if_true, if_false] at hk
  split at hk
  · rename_i hlt
    have hpos : 0 < -step := by omega
    have h1 : ((lo - hi - 1) / (-step) + 1).toNat = ((lo - hi - 1) / (-step) + 1) := by
      apply Int.toNat_of_nonneg
      have : 0 ≤ (lo - hi - 1) / (-step) := Int.ediv_nonneg (by omega) (by omega)
      omega
    have hk'' : (k : Int) ≤ (lo - hi - 1) / (-step) := by omega
    have : (k : Int) * (-step) ≤ (lo - hi - 1) / (-step) * (-step) :=
      Int.mul_le_mul_of_nonneg_right hk'' (by omega)
    have h2 : (lo - hi - 1) / (-step) * (-step) ≤ lo - hi - 1 := Int.ediv_mul_le _ (by omega)
    have h3 : (k : Int) * (-step) = -((k : Int) * step) := by rw [Int.mul_neg]
    refine ⟨?_, ?_, k, rfl⟩
    · omega
    · have : 0 ≤ (k : Int) * (-step) := Int.mul_nonneg (by omega) (by omega)
      omega
  · omega

/-- completeness for positive step: every lo + k·step below hi is selected -/
theorem rangeList_complete_pos {lo hi step : Int} (hs : 0 < step) (k : Nat)
    (hk : lo + k * step < hi) : lo + k * step ∈ rangeList lo hi step := by
  unfold rangeList
  simp only [List.mem_map, List.mem_range]
  refine ⟨k, ?_, rfl⟩
  unfold rangeLen
  simp only [hs, if_true]
  have hnn : 0 ≤ (k : Int) * step := Int.mul_nonneg (by omega) (by omega)
  have hlt : lo < hi := by omega
  simp only [hlt, if_true]
  have hle : (k : Int) * step ≤ hi - lo - 1 := by omega
  have : (k : Int) ≤ (hi - lo - 1) / step := by
    rw [Int.le_ediv_iff_mul_le hs]; exact hle
  omega

/-- completeness for negative step: every lo + k·step above hi is selected -/
theorem rangeList_complete_neg {lo hi step : Int} (hs : step < 0) (k : Nat)
    (hk : hi < lo + k * step) : lo + k * step ∈ rangeList lo hi step := by
  unfold rangeList
  simp only [List.mem_map, List.mem_range]
  refine ⟨k, ?_, rfl⟩
  unfold rangeLen
  have hns : ¬ (step > 0) := by omega
  simp only [hns, hs, if_true, if_false]
  have hpos : 0 < -step := by omega
  have hnn : 0 ≤ (k : Int) * (-step) := Int.mul_nonneg (by omega) (by omega)
  have h3 : (k : Int) * (-step) = -((k : Int) * step) := by rw [Int.mul_neg]
  have hlt : hi < lo := by omega
  simp only [hlt, if_true]
  have hle : (k : Int) * (-step) ≤ lo - hi - 1 := by omega
  have : (k : Int) ≤ (lo - hi - 1) / (-step) := by
    rw [Int.le_ediv_iff_mul_le hpos]; exact hle
  omega

/-- the indices of a slice are EXACTLY the arithmetic progression inside the half-open interval
    (either direction): membership characterisation, soundness + completeness together -/
theorem mem_rangeList_iff {lo hi step x : Int} (hs : step ≠ 0) :
    x ∈ rangeList lo hi step ↔
      ∃ k : Nat, x = lo + k * step ∧ (if 0 < step then x < hi else hi < x) := by
  constructor
  · intro hx
    by_cases hp : 0 < step
    · obtain ⟨_, h2, k, hk⟩ := mem_rangeList_pos hp hx
      exact ⟨k, hk, by simp only [hp, if_true]; exact h2⟩
    · have hn : step < 0 := by omega
      obtain ⟨h1, _, k, hk⟩ := mem_rangeList_neg hn hx
      exact ⟨k, hk, by simp only [hp, if_false]; exact h1⟩
  · rintro ⟨k, rfl, h⟩
    by_cases hp : 0 < step
    · simp only [hp, if_true] at h
      exact rangeList_complete_pos hp k h
    · have hn : step < 0 := by omega
      simp only [hp, if_false] at h
      exact rangeList_complete_neg hn k h

/-- no index is selected twice -/
theorem rangeList_nodup {lo hi step : Int} (hs : step ≠ 0) : (rangeList lo hi step).Nodup := by
  unfold rangeList
  refine (List.pairwise_map).2 ?_
  refine List.Pairwise.imp ?_ (List.nodup_range (n := rangeLen lo hi step))
  intro a b hab h
  apply hab
  have : (a : Int) * step = (b : Int) * step := by omega
  have := Int.eq_of_mul_eq_mul_right hs this
  omega

theorem sliceLo_bounds (n : Nat) (st : Int) (s : Option Int) :
    (0 < st → 0 ≤ sliceLo n st s) ∧ (¬ 0 < st → sliceLo n st s ≤ (n : Int) - 1) := by
  cases s with
  | none => unfold sliceLo; constructor <;> intro h <;> simp [h]
  | some x =>
    unfold sliceLo
    have := adjPos_bounds n x; have := adjNeg_bounds n x
    constructor <;> intro h <;> simp only [gt_iff_lt, h, if_true, if_false] <;> omega

theorem sliceHi_bounds (n : Nat) (st : Int) (s : Option Int) :
    (0 < st → sliceHi n st s ≤ n) ∧ (¬ 0 < st → -1 ≤ sliceHi n st s) := by
  cases s with
  | none => unfold sliceHi; constructor <;> intro h <;> simp [h]
  | some x =>
    unfold sliceHi
    have := adjPos_bounds n x; have := adjNeg_bounds n x
    constructor <;> intro h <;> simp only [gt_iff_lt, h, if_true, if_false] <;> omega

/-- every index produced by a slice is a valid index of the source -/
theorem sliceIdx_valid (n : Nat) (start stop step : Option Int) (idx : List Int)
    (h : sliceIdx n start stop step = some idx) : ∀ i ∈ idx, 0 ≤ i ∧ i < n := by
  unfold sliceIdx at h
  simp only at h
  split at h
  · cases h
  · rename_i hz
    injection h with h; subst h
    intro i hi
    by_cases hpos : 0 < step.getD 1
    · have := mem_rangeList_pos hpos hi
      have := (sliceLo_bounds n (step.getD 1) start).1 hpos
      have := (sliceHi_bounds n (step.getD 1) stop).1 hpos
      omega
    · have hneg : step.getD 1 < 0 := by omega
      have := mem_rangeList_neg hneg hi
      have := (sliceLo_bounds n (step.getD 1) start).2 hpos
      have := (sliceHi_bounds n (step.getD 1) stop).2 hpos
      omega

/-- unit-step range is the interval -/
theorem rangeList_one (lo hi : Int) :
    rangeList lo hi 1 = (List.range (hi - lo).toNat).map (fun (k : Nat) => lo + (k : Int)) := by
  unfold rangeList rangeLen
  simp only [Int.one_pos, if_true, Int.mul_one, Int.ediv_one]
  split
  · have : (hi - lo - 1 + 1).toNat = (hi - lo).toNat := by congr 1; omega
    rw [this]
  · have : (hi - lo).toNat = 0 := by omega
    simp [this]

/-- a plain slice `d[a:b]` (step omitted) is `take/drop` on the list of points -/
theorem getSlice_plain [Inhabited α] (d : DSet α β) (a b : Nat) (hab : a ≤ b) (hb : b ≤ d.pts.length) :
    (getSlice d (some a) (some b) none).map (·.pts) = some ((d.pts.drop a).take (b - a)) := by
  unfold getSlice sliceIdx sliceLo sliceHi
  have ha' : adjPos (d.pts.length) (a : Int) = a := by unfold adjPos; split <;> [omega; split] <;> omega
  have hb' : adjPos (d.pts.length) (b : Int) = b := by unfold adjPos; split <;> [omega; split] <;> omega
  simp only [Option.getD_none, Int.one_ne_zero, if_false, Int.one_pos, if_true, ha', hb',
    Option.map_some, rangeList_one]
  congr 1
  have hlen : ((b : Int) - a).toNat = b - a := by omega
  rw [hlen]
  apply List.ext_getElem
  · simp; omega
  · intro i h1 h2
    simp only [List.length_map, List.length_range] at h1
    simp only [List.map_map, List.getElem_map, List.getElem_range, Function.comp,
      List.getElem_take, List.getElem_drop]
    have : ((a : Int) + (i : Int)).toNat = a + i := by omega
    rw [this, getElem!_pos d.pts (a + i) (by omega)]

/-- slicing keeps the attributes; a zero step is rejected -/
theorem getSlice_attrs [Inhabited α] (d d' : DSet α β) (s e st : Option Int)
    (h : getSlice d s e st = some d') : d'.attrs = d.attrs := by
  unfold getSlice at h
  cases hidx : sliceIdx d.pts.length s e st with
  | none => simp [hidx] at h
  | some idx => simp [hidx] at h; subst h; rfl

theorem getSlice_zero_step [Inhabited α] (d : DSet α β) (s e : Option Int) :
    getSlice d s e (some 0) = none := by
  simp [getSlice, sliceIdx]

/-! ### concatenation -/

theorem add_pts [BEq β] (a b : DSet α β) : (add a b).pts = a.pts ++ b.pts := rfl

/-- operands that agree on every attribute (the one case with a unique source) keep them all -/
theorem add_attrs_same [BEq β] [LawfulBEq β] (a b : DSet α β) (h : a.attrs = b.attrs) :
    (add a b).attrs = a.attrs := by
  unfold add commonAttrs
  simp only
  rw [List.filter_eq_self]
  intro kv hkv
  rw [List.any_eq_true]
  exact ⟨kv, h ▸ hkv, by simp⟩

/-- nothing is invented: every attribute of a sum is an attribute of both operands -/
theorem add_attrs_sub [BEq β] [LawfulBEq β] (a b : DSet α β) :
    ∀ kv ∈ (add a b).attrs, kv ∈ a.attrs ∧ kv ∈ b.attrs := by
  intro kv hkv
  unfold add commonAttrs at hkv
  simp only [List.mem_filter, List.any_eq_true, Bool.and_eq_true, beq_iff_eq] at hkv
  obtain ⟨ha, kv', hb, h1, h2⟩ := hkv
  refine ⟨ha, ?_⟩
  have : kv' = kv := Prod.ext h1 h2
  exact this ▸ hb

/-! ### copies do not alias: objects are references into a heap (Model/DataSetOps.lean, `Heap`); `copy` allocates -/

theorem Heap.get_setattr_ne (h : Heap β) (r r' : Nat) (k : String) (v : β) (hne : r' ≠ r) :
    (h.setattr r k v).get r' = h.get r' := by
  unfold Heap.setattr Heap.get
  simp only [List.getD_eq_getElem?_getD, List.getElem?_modify]
  split
  · rename_i heq; exact absurd heq.symm hne
  · simp

theorem Heap.length_setattr (h : Heap β) (r : Nat) (k : String) (v : β) : (h.setattr r k v).length = h.length := by
  simp [Heap.setattr]

theorem Heap.get_setMany_ne (h : Heap β) (r r' : Nat) (assign : List (String × β)) (hne : r' ≠ r) :
    (h.setMany r assign).get r' = h.get r' := by
  unfold Heap.setMany
  induction assign generalizing h with
  | nil => rfl
  | cons kv rest ih => simp only [List.foldl_cons]; rw [ih, Heap.get_setattr_ne _ _ _ _ _ hne]

/-- **assigning attributes on a copied point never changes the original** — nor any other object of the heap -/
theorem copy_no_alias_heap (h : Heap β) (r : Nat) (hr : r < h.length) (assign : List (String × β)) :
    let (h1, c) := h.copy r
    ∀ r', r' < h.length → ((h1.setMany c assign).get r' = h.get r') := by
  intro r' hr'
  rw [Heap.get_setMany_ne _ _ _ _ (by omega)]
  unfold Heap.get
  simp [List.getD_eq_getElem?_getD, List.getElem?_append_left hr']

/-- … and the copy starts out with the same items -/
theorem copy_same_items (h : Heap β) (r : Nat) :
    (h.copy r).1.get (h.copy r).2 = h.get r := by
  simp [Heap.copy, Heap.get, List.getD_eq_getElem?_getD]

/-- an ALIAS instead of a copy (what a seeded change "return self" does) is different: the assignment shows in
    the original -/
theorem alias_refuted :
    let h : Heap Nat := [[("xB", 1), ("val", 5)]]
    let (h1, c) := h.alias 0
    (h1.setMany c [("val", 9)]).get 0 = [("xB", 1), ("val", 9)] ∧
    (let (h2, c2) := h.copy 0; (h2.setMany c2 [("val", 9)]).get 0 = [("xB", 1), ("val", 5)] ∧
                               (h2.setMany c2 [("val", 9)]).get c2 = [("xB", 1), ("val", 9)]) := by
  decide

theorem set_get (p : Point β) (k : String) (v : β) : (p.set k v).get? k = some v := by
  unfold Point.set Point.get?
  split
  · rename_i h
    induction p with
    | nil => simp at h
    | cons kv ps ih =>
      simp only [List.map_cons, List.find?_cons]
      by_cases hk : kv.1 = k
      · simp [hk]
      · have hk' : (kv.1 == k) = false := by simpa using hk
        simp only [hk', Bool.false_eq_true, if_false]
        simp only [List.any_cons, hk', Bool.false_or] at h
        exact ih h
  · rename_i h
    simp only [List.any_eq_true, not_exists, not_and, Bool.not_eq_true] at h
    rw [List.find?_append]
    have : p.find? (fun x => x.1 == k) = none := by
      rw [List.find?_eq_none]; intro x hx; simpa using h x hx
    simp [this]

/-- non-vacuity: a concrete dataset, overlapping criteria, a negative-step slice -/
example : selectPts .OR [fun n : Nat => n > 1, fun n => n < 4] [1, 2, 3, 5] = [1, 2, 3, 5] := by decide
example : sliceIdx 5 (some (-2)) none (some (-2)) = some [3, 1] := by decide
example : sliceIdx 5 none none (some 2) = some [0, 2, 4] := by decide
example : sliceIdx 5 (some 7) (some 9) none = some [] := by decide

end Gep.DS.C17

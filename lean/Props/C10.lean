/-
  Props/C10.lean — property C10: chi-square is the sum of squared pulls; non-negative,
  additive over concatenation, invariant under reordering; the pull is the signed contribution.
  All statements over ℝ, about Gen/ChiSqR.lean (instantiation of Scalar/ChiSq.lean.in).
-/
import Gen.ChiSqR
import Mathlib.Algebra.Order.BigOperators.Ring.List
import Mathlib.Tactic.Ring
import Mathlib.Tactic.Positivity
import Mathlib.Tactic.FieldSimp

namespace Gep.R.C10
open Gep.R

theorem foldl_sq (l : List ℝ) (a : ℝ) :
    l.foldl (fun acc p => acc + p * p) a = a + (l.map (fun p => p ^ 2)).sum := by
  induction l generalizing a with
  | nil => simp
  | cons x xs ih => simp only [List.foldl_cons, ih, List.map_cons, List.sum_cons]; ring

/-- χ² is the sum over points of the squared pull -/
theorem chisq_eq_sum (asym : Bool) (ms : List Meas) :
    chisq asym ms = (ms.map (fun m => (pullOf asym m) ^ 2)).sum := by
  unfold chisq
  rw [foldl_sq]; simp [List.map_map, Function.comp_def]

/-- with symmetric errors the pull is (prediction − value)/uncertainty -/
theorem pullOf_sym (m : Meas) : pullOf false m = (m.pred - m.val) / m.err := by
  simp [pullOf]

/-- with asymmetric errors: the upper uncertainty for a positive residual, else the lower one -/
theorem pullOf_asym_pos (m : Meas) (h : m.val < m.pred) :
    pullOf true m = (m.pred - m.val) / m.errplus := by
  have : m.pred - m.val > 0 := by linarith
  simp [pullOf, this]

theorem pullOf_asym_nonpos (m : Meas) (h : m.pred ≤ m.val) :
    pullOf true m = (m.pred - m.val) / m.errminus := by
  have : ¬ (m.pred - m.val > 0) := by linarith
  simp [pullOf, this]

theorem chisq_nonneg (asym : Bool) (ms : List Meas) : 0 ≤ chisq asym ms := by
  rw [chisq_eq_sum]
  apply List.sum_nonneg
  intro x hx
  simp only [List.mem_map] at hx
  obtain ⟨m, _, rfl⟩ := hx
  positivity

/-- additive over concatenated datasets -/
theorem chisq_append (asym : Bool) (a b : List Meas) :
    chisq asym (a ++ b) = chisq asym a + chisq asym b := by
  simp [chisq_eq_sum]

/-- invariant under any reordering of the points -/
theorem chisq_perm (asym : Bool) {a b : List Meas} (h : a.Perm b) :
    chisq asym a = chisq asym b := by
  rw [chisq_eq_sum, chisq_eq_sum]
  exact (h.map _).sum_eq

/-- invariant under re-slicing: any split into consecutive pieces adds up -/
theorem chisq_flatten (asym : Bool) (parts : List (List Meas)) :
    chisq asym parts.flatten = (parts.map (chisq asym)).sum := by
  induction parts with
  | nil => simp [chisq]
  | cons p ps ih => simp [chisq_append, ih]

/-- the pull of one point is its signed contribution: its square is the point's χ² … -/
theorem pull_sq (m : Meas) : chisq false [m] = (pull m) ^ 2 := by
  simp [chisq_eq_sum, pullOf_sym, pull]

/-- … and its sign is the sign of the residual (for a positive uncertainty) -/
theorem pull_pos_iff (m : Meas) (he : 0 < m.err) : 0 < pull m ↔ m.val < m.pred := by
  unfold pull
  rw [div_pos_iff_of_pos_right he]; constructor <;> intro h <;> linarith

/-- dropping a point with a non-zero pull strictly lowers χ² (no point is silently ignored) -/
theorem chisq_cons_gt (asym : Bool) (m : Meas) (ms : List Meas) (h : pullOf asym m ≠ 0) :
    chisq asym ms < chisq asym (m :: ms) := by
  rw [chisq_eq_sum, chisq_eq_sum]
  simp only [List.map_cons, List.sum_cons]
  have : 0 < pullOf asym m ^ 2 := by positivity
  linarith

/-- sub-multisets: any predicate splits the points into two groups whose χ² add up to the total -/
theorem chisq_filter_add (asym : Bool) (p : Meas → Bool) (ms : List Meas) :
    chisq asym (ms.filter p) + chisq asym (ms.filter (fun m => !p m)) = chisq asym ms := by
  induction ms with
  | nil => simp [chisq]
  | cons m ms ih =>
    have hc : ∀ l : List Meas, chisq asym (m :: l) = pullOf asym m ^ 2 + chisq asym l := by
      intro l; simp [chisq_eq_sum]
    cases hp : p m <;> simp only [List.filter_cons, hp, Bool.not_true, Bool.not_false,
      if_true, if_false, Bool.false_eq_true] <;> rw [hc, hc] <;> linarith

/-- a sub-selection (points dropped, order kept) never has a larger χ² than the whole selection -/
theorem chisq_sublist_le (asym : Bool) {a b : List Meas} (h : a.Sublist b) :
    chisq asym a ≤ chisq asym b := by
  induction h with
  | slnil => exact le_refl _
  | cons m _ ih =>
    have hc : ∀ l : List Meas, chisq asym (m :: l) = pullOf asym m ^ 2 + chisq asym l := by
      intro l; simp [chisq_eq_sum]
    rw [hc]; have : 0 ≤ pullOf asym m ^ 2 := by positivity
    linarith
  | cons_cons m _ ih =>
    have hc : ∀ l : List Meas, chisq asym (m :: l) = pullOf asym m ^ 2 + chisq asym l := by
      intro l; simp [chisq_eq_sum]
    rw [hc, hc]; linarith

/-- … also for sub-multisets taken in any order -/
theorem chisq_subperm_le (asym : Bool) {a b : List Meas} (h : a.Subperm b) :
    chisq asym a ≤ chisq asym b := by
  obtain ⟨l, hp, hs⟩ := h
  rw [← chisq_perm asym hp]; exact chisq_sublist_le asym hs

/-- χ² vanishes exactly when every pull does: no cancellation between points -/
theorem chisq_eq_zero_iff (asym : Bool) (ms : List Meas) :
    chisq asym ms = 0 ↔ ∀ m ∈ ms, pullOf asym m = 0 := by
  induction ms with
  | nil => simp [chisq]
  | cons m ms ih =>
    have hc : chisq asym (m :: ms) = pullOf asym m ^ 2 + chisq asym ms := by simp [chisq_eq_sum]
    have h1 : 0 ≤ pullOf asym m ^ 2 := by positivity
    have h2 := chisq_nonneg asym ms
    rw [hc, List.forall_mem_cons, ← ih]
    constructor
    · intro h
      have ha : pullOf asym m ^ 2 = 0 := by linarith
      exact ⟨by simpa using ha, by linarith⟩
    · rintro ⟨ha, hb⟩; rw [ha, hb]; ring

/-- when upper and lower uncertainties both equal the total one, `asym` changes nothing -/
theorem pullOf_asym_eq_sym (m : Meas) (hp : m.errplus = m.err) (hm : m.errminus = m.err) :
    pullOf true m = pullOf false m := by
  simp only [pullOf, hp, hm, if_true, Bool.false_eq_true, if_false]; split <;> rfl

theorem chisq_asym_eq_sym (ms : List Meas)
    (h : ∀ m ∈ ms, m.errplus = m.err ∧ m.errminus = m.err) : chisq true ms = chisq false ms := by
  rw [chisq_eq_sum, chisq_eq_sum]
  congr 1
  apply List.map_congr_left
  intro m hm; rw [pullOf_asym_eq_sym m (h m hm).1 (h m hm).2]

/-- the symmetric branch is `pull`: Theory.chisq_single(asym=False) and Theory.pull use one formula -/
theorem pullOf_false_eq_pull (m : Meas) : pullOf false m = pull m := by
  simp [pullOf, pull]

/-- exchanging prediction and measurement flips the sign of the pull and leaves the symmetric χ² alone -/
theorem pull_swap (m : Meas) : pull { m with pred := m.val, val := m.pred } = - pull m := by
  simp only [pull]; ring

/-- scaling every quantity of a point by a common factor (a change of units) leaves its pull unchanged -/
theorem pull_scale (m : Meas) (c : ℝ) (hc : c ≠ 0) :
    pull { m with pred := c * m.pred, val := c * m.val, err := c * m.err } = pull m := by
  simp only [pull]
  rw [← mul_sub, mul_div_mul_left _ _ hc]

/-- non-vacuity: a concrete pair of measurements, both error branches hit -/
example : chisq true [⟨3, 1, 1, 2, 4⟩, ⟨1, 3, 1, 2, 4⟩] = 1 + 1 / 4 := by
  rw [chisq_eq_sum]
  have h1 : pullOf true ⟨3, 1, 1, 2, 4⟩ = 1 := by
    rw [pullOf_asym_pos _ (by norm_num)]; norm_num
  have h2 : pullOf true ⟨1, 3, 1, 2, 4⟩ = -1/2 := by
    rw [pullOf_asym_nonpos _ (by norm_num)]; norm_num
  simp only [List.map_cons, List.map_nil, List.sum_cons, List.sum_nil, h1, h2]; norm_num

end Gep.R.C10

/-
  Props/C16.lean — property C16: the special functions of gepard/special.py equal their
  mathematical definitions.  Statements over ℝ / ℂ about Gen/SpecialR.lean (the ℝ instance of
  Scalar/Special.lean.in); `toC : Cx ℝ → ℂ` (Proofs/Special.lean) reads the model's two-field
  complex numbers as elements of ℂ and commutes with every operation of the model.

  What is proved is exact algebra of the ALGORITHM (recurrence shift, products, compositions).
  The accuracy of the truncated asymptotic series (`asym`), of scipy's psi / zeta and of the
  8-term MellinF2 fit is outside these theorems (oracle streams of harness/props/C16.py).
  `fuel` bounds the model's recursion for `while z.real < 10`; every theorem holds for every
  fuel ≥ 10 − Re z, and the value does not depend on it (`dpsiOne_mono`).
-/
import Proofs.Special
import Mathlib.Analysis.SpecialFunctions.Gamma.Beta
import Mathlib.Analysis.SpecialFunctions.Gamma.Digamma

set_option linter.unusedSimpArgs false

namespace Gep.R.C16
open Gep Gep.R

/-! ### (1) the recurrence of the algorithm -/

/-- In the shifting regime (the code's guards `z.imag < 10`, `z.real < 10`; z not a pole)
    dpsi_m(z) − dpsi_m(z+1) is exactly the shift term (−1/z)^(m+1)·m!: both evaluations run the
    same loop from z+1 on and end at the same shifted point. -/
theorem dpsi_shift_exact (f m : ℕ) (z : Cx ℝ) (hi : z.im < 10) (hr : z.re < 10)
    (hf : 10 ≤ z.re + f) (hp : NoPole z) :
    ∃ v w, dpsiOne f (z + cone) m = .ok v ∧ dpsiOne f z m = .ok w ∧
      toC w - toC v = (-1 / toC z) ^ (m + 1) * (m.factorial : ℂ) := by
  obtain ⟨v, hv, hw⟩ := dpsiOne_rec f m z hi hr hf hp
  exact ⟨v, _, hv, hw, by rw [toC_add, subterm_toC]; ring⟩

/-- Outside the shifting regime (`z.imag ≥ 10` or `z.real ≥ 10`) the value is the truncated
    asymptotic series at z itself, for every fuel. -/
theorem dpsi_series_only (f m : ℕ) (z : Cx ℝ) (h : 10 ≤ z.im ∨ 10 ≤ z.re) :
    dpsiOne f z m = .ok (czero + asym m z) := dpsiOne_series f m z h

/-- N passes of the loop: dpsi_m(z) = Σ_{j<N} (−1/(z+j))^(m+1) m! + dpsi_m(z+N). -/
theorem dpsi_unfold (f m N : ℕ) (z : Cx ℝ) (hi : z.im < 10) (hN : ∀ j < N, z.re + j < 10)
    (hf : 10 ≤ z.re + f) (hp : NoPole z) :
    ∃ v w, dpsiOne f (⟨z.re + N, z.im⟩) m = .ok v ∧ dpsiOne f z m = .ok w ∧
      toC w = ∑ j ∈ Finset.range N, (-1 / (toC z + j)) ^ (m + 1) * (m.factorial : ℂ) + toC v := by
  induction N generalizing z with
  | zero =>
    obtain ⟨v, hv⟩ := dpsiOne_ok f m z hf hp
    have : (⟨z.re + (0 : ℕ), z.im⟩ : Cx ℝ) = z := by apply Cx.ext' <;> simp
    exact ⟨v, v, by rw [this]; exact hv, hv, by simp⟩
  | succ N ih =>
    have hr : z.re < 10 := by simpa using hN 0 (Nat.succ_pos N)
    obtain ⟨v1, hv1, hw1⟩ := dpsiOne_rec f m z hi hr hf hp
    have hi' : (z + cone).im < 10 := by simpa [cone] using hi
    have hN' : ∀ j < N, (z + cone).re + j < 10 := by
      intro j hj
      have := hN (j + 1) (Nat.succ_lt_succ hj)
      simp [cone]; push_cast at this; linarith
    have hf' : 10 ≤ (z + cone).re + f := by simp [cone]; linarith
    obtain ⟨v, w', hv, hw', hs⟩ := ih (z + cone) hi' hN' hf' hp.succ
    rw [hv1] at hw'
    cases hw'
    have hz : (⟨(z + cone).re + N, (z + cone).im⟩ : Cx ℝ) = ⟨z.re + (N + 1 : ℕ), z.im⟩ := by
      apply Cx.ext' <;> simp [cone]; ring
    rw [hz] at hv
    refine ⟨v, _, hv, hw1, ?_⟩
    rw [toC_add, subterm_toC, hs, Finset.sum_range_succ']
    simp only [toC_add, toC_cone]
    push_cast
    ring_nf

/- `PsiRec E` (Proofs/Special.lean): ∀ w not a pole, ψ(w+1) = ψ(w) + 1/w for the external psi —
   the only thing the S1 theorems assume about it. -/

/-- S1(z) − S1(z−1) = 1/z, given ψ(w+1) = ψ(w) + 1/w for the external psi -/
theorem S1_recurrence (E : Ext) (hψ : PsiRec E) (z : Cx ℝ) (hz : ∀ k : ℕ, toC z ≠ -(k : ℂ)) :
    toC (S1 E z) - toC (S1 E (z - cone)) = 1 / toC z := by
  unfold S1
  rw [Cx.sub_add_cone, toC_add, toC_add, hψ z hz]
  ring

/-- S2(z) − S2(z−1) = z^−2 exactly, for `Im z < 10`, `Re z < 10` (the guards seen by dpsi at z) -/
theorem S2_recurrence (E : Ext) (f : ℕ) (z : Cx ℝ) (hi : z.im < 10) (hr : z.re < 10)
    (hf : 10 ≤ z.re + f) (hp : NoPole z) :
    ∃ a b, S2 E f z = .ok a ∧ S2 E f (z - cone) = .ok b ∧ toC a - toC b = 1 / toC z ^ 2 := by
  obtain ⟨v, hv, hw⟩ := dpsiOne_rec f 1 z hi hr hf hp
  refine ⟨_, _, by rw [S2, hv]; rfl, by rw [S2, Cx.sub_add_cone, hw]; rfl, ?_⟩
  simp only [toC_sub, toC_add, subterm_toC]
  rw [div_pow]; norm_num

/-- S3(z) − S3(z−1) = z^−3 exactly, same regime -/
theorem S3_recurrence (E : Ext) (f : ℕ) (z : Cx ℝ) (hi : z.im < 10) (hr : z.re < 10)
    (hf : 10 ≤ z.re + f) (hp : NoPole z) :
    ∃ a b, S3 E f z = .ok a ∧ S3 E f (z - cone) = .ok b ∧ toC a - toC b = 1 / toC z ^ 3 := by
  obtain ⟨v, hv, hw⟩ := dpsiOne_rec f 2 z hi hr hf hp
  refine ⟨_, _, by rw [S3, hv]; rfl, by rw [S3, Cx.sub_add_cone, hw]; rfl, ?_⟩
  simp only [toC_add, toC_divR, subterm_toC]
  rw [div_pow]; norm_num [Nat.factorial]; ring

/-- S4(z) − S4(z−1) = z^−4 exactly, same regime -/
theorem S4_recurrence (E : Ext) (f : ℕ) (z : Cx ℝ) (hi : z.im < 10) (hr : z.re < 10)
    (hf : 10 ≤ z.re + f) (hp : NoPole z) :
    ∃ a b, S4 E f z = .ok a ∧ S4 E f (z - cone) = .ok b ∧ toC a - toC b = 1 / toC z ^ 4 := by
  obtain ⟨v, hv, hw⟩ := dpsiOne_rec f 3 z hi hr hf hp
  refine ⟨_, _, by rw [S4, hv]; rfl, by rw [S4, Cx.sub_add_cone, hw]; rfl, ?_⟩
  simp only [toC_sub, toC_add, toC_divR, subterm_toC]
  rw [div_pow]; norm_num [Nat.factorial]; ring

/-- the regime is inhabited, on and off the real axis -/
example : ∃ (z : Cx ℝ) (f : ℕ), z.im < 10 ∧ z.re < 10 ∧ 10 ≤ z.re + f ∧ NoPole z :=
  ⟨⟨1.7, 3.7⟩, 9, by norm_num, by norm_num, by norm_num, fun k hk => by norm_num at hk⟩

/-! ### (2) pochhammer -/

/-- `pochhammer(z, m)` = ∏_{k<m} (z+k) for m ≥ 1 (for m = 0 the code returns z, not 1) -/
theorem pochhammer_prod (z : Cx ℝ) (m : ℕ) (hm : 1 ≤ m) :
    toC (pochhammer z m) = ∏ k ∈ Finset.range m, (toC z + (k : ℂ)) := by
  obtain ⟨n, rfl⟩ : ∃ n, m = n + 1 := ⟨m - 1, by omega⟩
  have h := pochLoop_prod z n 1 z
  simp only [Nat.cast_one] at h
  rw [pochhammer, Nat.add_sub_cancel, h, Finset.prod_range_succ']
  simp only [Nat.cast_zero, add_zero]
  rw [mul_comm]
  congr 1
  apply Finset.prod_congr rfl
  intro i _
  push_cast; ring

theorem pochhammer_zero (z : Cx ℝ) : pochhammer z 0 = z := rfl

/-- `pochhammer(z, m)` = Γ(z+m)/Γ(z) for m ≥ 1 and z not a pole of Γ -/
theorem pochhammer_gamma (z : Cx ℝ) (m : ℕ) (hm : 1 ≤ m) (hz : ∀ k : ℕ, toC z ≠ -(k : ℂ)) :
    toC (pochhammer z m) = Complex.Gamma (toC z + m) / Complex.Gamma (toC z) := by
  rw [pochhammer_prod z m hm, Gamma_add_nat _ hz, mul_div_cancel_left₀ _ (Complex.Gamma_ne_zero hz)]

example : ∃ z : Cx ℝ, ∀ k : ℕ, toC z ≠ -(k : ℂ) :=
  ⟨⟨1.7, 3.7⟩, fun k h => by
    have := congrArg Complex.im h
    simp at this
    norm_num at this⟩

/-! ### (3) non-negative integers -/

theorem S1_nat (E : Ext) (hψ : PsiRec E) (n : ℕ) :
    toC (S1 E (cxNat n)) = toC (S1 E (cxNat 0)) + ∑ i ∈ Finset.range n, 1 / ((i + 1 : ℕ) : ℂ) := by
  induction n with
  | zero => simp
  | succ n ih =>
    have hz : ∀ k : ℕ, toC (cxNat (n + 1)) ≠ -(k : ℂ) := by
      intro k h
      have := congrArg Complex.re h
      simp at this
      have h1 : (0:ℝ) ≤ (n:ℝ) := Nat.cast_nonneg n
      have h2 : (0:ℝ) ≤ (k:ℝ) := Nat.cast_nonneg k
      linarith
    have h := S1_recurrence E hψ (cxNat (n + 1)) hz
    rw [cxNat_succ_sub, ih] at h
    rw [Finset.sum_range_succ, ← add_assoc]
    rw [toC_cxNat] at h
    rw [← h]; ring

/-- S1(n) = Σ_{i≤n} 1/i when S1(0) = 0, i.e. when the fed constants satisfy ψ(1) = −γ -/
theorem S1_nat_sum (E : Ext) (hψ : PsiRec E) (h0 : toC (E.psi (cxNat 1)) = -(E.egamma : ℂ)) (n : ℕ) :
    toC (S1 E (cxNat n)) = ∑ i ∈ Finset.range n, 1 / ((i + 1 : ℕ) : ℂ) := by
  rw [S1_nat E hψ n]
  have : toC (S1 E (cxNat 0)) = 0 := by
    rw [S1, cxNat_succ, toC_add, h0]; simp
  rw [this, zero_add]

/- FULL STATEMENT (not provable for the algorithm as coded):
     ∀ n ≤ 200, k ∈ {2,3,4}:  S_k(n) = Σ_{i≤n} i^−k   given S_k(0) = 0.
   For n ≥ 10 the argument n+1 of dpsi and the argument n of the previous step are both evaluated
   by the truncated series without shift (`dpsi_series_only`), so S_k(n) − S_k(n−1) = n^−k holds
   there only to the accuracy of the series (oracle.integers / oracle.recurrence streams).  Proved:
   the exact statement for n ≤ 9, where every step is in the shifting regime. -/

/-- S2(n) = S2(0) + Σ_{i≤n} i^−2 for 0 ≤ n ≤ 9 -/
theorem S2_nat_partial (E : Ext) (f : ℕ) (hf : 10 ≤ f) (n : ℕ) (hn : n ≤ 9) :
    ∃ a a0, S2 E f (cxNat n) = .ok a ∧ S2 E f (cxNat 0) = .ok a0 ∧
      toC a = toC a0 + ∑ i ∈ Finset.range n, 1 / ((i + 1 : ℕ) : ℂ) ^ 2 := by
  have hf' : (10:ℝ) ≤ f := by exact_mod_cast hf
  refine nat_sum_of_rec (S2 E f) 2 9 ?_ ?_ n hn
  · obtain ⟨v, hv⟩ := dpsiOne_ok f 1 (cxNat 0 + cone) (by simp [cone]; linarith)
      (by rw [cxNat_succ]; exact cxNat_noPole 1 le_rfl)
    exact ⟨_, by rw [S2, hv]; rfl⟩
  · intro j hj
    have hj' : ((j:ℝ) + 1) < 10 := by
      have : (j:ℝ) + 1 ≤ 9 := by exact_mod_cast hj
      linarith
    exact S2_recurrence E f (cxNat (j + 1)) (by simp) (by simpa using hj')
      (by simp; have := Nat.cast_nonneg (α := ℝ) j; linarith) (cxNat_noPole _ (by omega))

theorem S3_nat_partial (E : Ext) (f : ℕ) (hf : 10 ≤ f) (n : ℕ) (hn : n ≤ 9) :
    ∃ a a0, S3 E f (cxNat n) = .ok a ∧ S3 E f (cxNat 0) = .ok a0 ∧
      toC a = toC a0 + ∑ i ∈ Finset.range n, 1 / ((i + 1 : ℕ) : ℂ) ^ 3 := by
  have hf' : (10:ℝ) ≤ f := by exact_mod_cast hf
  refine nat_sum_of_rec (S3 E f) 3 9 ?_ ?_ n hn
  · obtain ⟨v, hv⟩ := dpsiOne_ok f 2 (cxNat 0 + cone) (by simp [cone]; linarith)
      (by rw [cxNat_succ]; exact cxNat_noPole 1 le_rfl)
    exact ⟨_, by rw [S3, hv]; rfl⟩
  · intro j hj
    have hj' : ((j:ℝ) + 1) < 10 := by
      have : (j:ℝ) + 1 ≤ 9 := by exact_mod_cast hj
      linarith
    exact S3_recurrence E f (cxNat (j + 1)) (by simp) (by simpa using hj')
      (by simp; have := Nat.cast_nonneg (α := ℝ) j; linarith) (cxNat_noPole _ (by omega))

theorem S4_nat_partial (E : Ext) (f : ℕ) (hf : 10 ≤ f) (n : ℕ) (hn : n ≤ 9) :
    ∃ a a0, S4 E f (cxNat n) = .ok a ∧ S4 E f (cxNat 0) = .ok a0 ∧
      toC a = toC a0 + ∑ i ∈ Finset.range n, 1 / ((i + 1 : ℕ) : ℂ) ^ 4 := by
  have hf' : (10:ℝ) ≤ f := by exact_mod_cast hf
  refine nat_sum_of_rec (S4 E f) 4 9 ?_ ?_ n hn
  · obtain ⟨v, hv⟩ := dpsiOne_ok f 3 (cxNat 0 + cone) (by simp [cone]; linarith)
      (by rw [cxNat_succ]; exact cxNat_noPole 1 le_rfl)
    exact ⟨_, by rw [S4, hv]; rfl⟩
  · intro j hj
    have hj' : ((j:ℝ) + 1) < 10 := by
      have : (j:ℝ) + 1 ≤ 9 := by exact_mod_cast hj
      linarith
    exact S4_recurrence E f (cxNat (j + 1)) (by simp) (by simpa using hj')
      (by simp; have := Nat.cast_nonneg (α := ℝ) j; linarith) (cxNat_noPole _ (by omega))

/-- What S2(0) = 0 asks of the fed ζ(2): it must equal Σ_{j=1}^{9} j^−2 plus the truncated series
    of ψ' at 10 (true of the real ζ(2) only to the accuracy of that series: S2(0) = −2.4e-14 on the running code). -/
theorem S2_zero_value (E : Ext) (f : ℕ) (hf : 10 ≤ f) :
    ∃ a0, S2 E f (cxNat 0) = .ok a0 ∧
      toC a0 = (E.zeta2 : ℂ) - (∑ j ∈ Finset.range 9, 1 / ((j + 1 : ℕ) : ℂ) ^ 2
                               + toC (asym 1 (cxNat 10))) := by
  have hf' : (10:ℝ) ≤ f := by exact_mod_cast hf
  obtain ⟨v, w, hv, hw, hs⟩ := dpsi_unfold f 1 9 (cxNat 1) (by simp)
    (by intro j hj; have : (j:ℝ) < 9 := by exact_mod_cast hj
        simp; linarith)
    (by simp; linarith) (cxNat_noPole 1 le_rfl)
  have h10 : (⟨(cxNat 1).re + (9:ℕ), (cxNat 1).im⟩ : Cx ℝ) = cxNat 10 := by
    apply Cx.ext' <;> simp; norm_num
  rw [h10, dpsi_series_only f 1 (cxNat 10) (Or.inr (by simp))] at hv
  cases hv
  refine ⟨_, by rw [S2, cxNat_succ, hw]; rfl, ?_⟩
  rw [toC_sub, toC_ofReal, hs]
  congr 1
  rw [toC_add, toC_czero, zero_add]
  congr 1
  apply Finset.sum_congr rfl
  intro j _
  rw [toC_cxNat, div_pow]
  push_cast
  norm_num
  ring

/- (A corollary "with S_k(0) = 0 the sums are the finite rational sums" was removed after the audit: its hypothesis is
   false for the true ζ(k) — S_k(0) is ζ(k) minus a rational minus the truncated series — and also on the running code
   (S2(0) = −2.4e-14, S3(0) = −1.6e-14, S4(0) = −7e-15).  The unconditional statements are `S2/S3/S4_nat_partial` above:
   S_k(n) = S_k(0) + Σ_{i≤n} i^−k with the code's own S_k(0), which `S2_zero_value` identifies.) -/

/-- for n ≥ 9 no shift happens: S2(n) is ζ(2) minus the truncated series at n+1 (so the finite-sum
    form rests there on the accuracy of the series, not on algebra) -/
theorem S2_nat_large (E : Ext) (f n : ℕ) (hn : 9 ≤ n) :
    S2 E f (cxNat n) = .ok (Cx.ofReal E.zeta2 - (czero + asym 1 (cxNat (n + 1)))) := by
  have h9 : (9:ℝ) ≤ n := by exact_mod_cast hn
  rw [S2, cxNat_succ, dpsi_series_only f 1 (cxNat (n + 1)) (Or.inr (by simp; linarith))]
  rfl

/-- hypotheses of this group are satisfiable: Mathlib's digamma with Euler's constant gives
    ψ's recurrence and S1(0) = 0 -/
example : ∃ E : Ext, PsiRec E ∧ toC (E.psi (cxNat 1)) = -(E.egamma : ℂ) := by
  refine ⟨{ psi := fun w => ⟨(Complex.digamma (toC w)).re, (Complex.digamma (toC w)).im⟩,
            zeta2 := 0, zeta3 := 0, zeta4 := 0, egamma := Real.eulerMascheroniConstant,
            log2 := 0 }, ?_, ?_⟩
  · intro w hw
    have e : ∀ c : ℂ, toC ⟨c.re, c.im⟩ = c := fun c => rfl
    simp only [e, toC_add, toC_cone]
    rw [Complex.digamma_apply_add_one _ hw]; ring
  · have e : ∀ c : ℂ, toC ⟨c.re, c.im⟩ = c := fun c => rfl
    simp only [e, toC_cxNat, Nat.cast_one, Complex.digamma_one]

/-! ### (4) element-wise action on arrays -/

/-- numpy's element-wise `z+1`, vectorised `dpsi`, and outer arithmetic on an array are the scalar
    functions mapped over the elements -/
theorem arrays_are_maps (E : Ext) (f m : ℕ) (zs : List (Cx ℝ)) :
    dpsiA f zs m = zs.map (fun z => dpsiOne f z m) ∧
    S1A E zs = zs.map (S1 E) ∧ S2A E f zs = zs.map (S2 E f) ∧
    S3A E f zs = zs.map (S3 E f) ∧ S4A E f zs = zs.map (S4 E f) ∧
    pochhammerA zs m = zs.map (fun z => pochhammer z m) := by
  refine ⟨rfl, ?_, ?_, ?_, ?_, ?_⟩
  · simp [S1A, S1, List.map_map, Function.comp_def]
  · simp [S2A, S2, dpsiA, List.map_map, Function.comp_def]
  · simp [S3A, S3, dpsiA, List.map_map, Function.comp_def]
  · simp [S4A, S4, dpsiA, List.map_map, Function.comp_def]
  · have h := pochLoopA_map zs (m - 1) 1 (fun z => z)
    simp only [List.map_id'] at h
    rw [pochhammerA, h]; rfl

/-- in particular: same length, and the i-th result depends on the i-th element only -/
theorem arrays_elementwise (E : Ext) (f : ℕ) (zs : List (Cx ℝ)) (i : ℕ) :
    (S2A E f zs).length = zs.length ∧ (S2A E f zs)[i]? = (zs[i]?).map (S2 E f) := by
  rw [(arrays_are_maps E f 0 zs).2.2.1]
  simp

example (E : Ext) (f : ℕ) : S2A E f [⟨1, 2⟩, ⟨3, 4⟩] = [S2 E f ⟨1, 2⟩, S2 E f ⟨3, 4⟩] := by
  simp [S2A, S2, dpsiA]

/-! ### (5) the derived sums are the stated combinations -/

/-- the hypotheses `S_k … = .ok _` below hold at every non-pole once the fuel suffices -/
example (E : Ext) : ∃ a b, S2 E 10 ⟨1.7, 3.7⟩ = .ok a ∧ S2 E 10 (⟨1.7, 3.7⟩ - chalf) = .ok b := by
  obtain ⟨v, hv⟩ := dpsiOne_ok 10 1 ((⟨1.7, 3.7⟩ : Cx ℝ) + cone) (by simp [cone]; norm_num)
    (fun k hk => by simp [cone] at hk; norm_num at hk)
  obtain ⟨w, hw⟩ := dpsiOne_ok 10 1 ((⟨1.7, 3.7⟩ : Cx ℝ) - chalf + cone) (by simp [cone, chalf]; norm_num)
    (fun k hk => by simp [cone, chalf] at hk; norm_num at hk)
  exact ⟨_, _, by rw [S2, hv]; rfl, by rw [S2, hw]; rfl⟩

/-- `S2_prime(z, prty)` = (1+prty)·S2(z)/2 + (1−prty)·S2(z−½)/2 in ℂ; in particular S2(z) for
    prty = +1 and S2(z−½) for prty = −1 -/
theorem S2_prime_spec (E : Ext) (f : ℕ) (z a b : Cx ℝ) (p : ℝ) (ha : S2 E f z = .ok a)
    (hb : S2 E f (z - chalf) = .ok b) :
    ∃ r, S2_prime E f z p = .ok r ∧
      toC r = (1 + (p : ℂ)) * toC a / 2 + (1 - (p : ℂ)) * toC b / 2 ∧
      (p = 1 → toC r = toC a) ∧ (p = -1 → toC r = toC b) := by
  refine ⟨_, by rw [S2_prime, ha, hb]; rfl, ?_, ?_, ?_⟩
  · simp
  · rintro rfl; simp; ring
  · rintro rfl; simp; ring

theorem S3_prime_spec (E : Ext) (f : ℕ) (z a b : Cx ℝ) (p : ℝ) (ha : S3 E f z = .ok a)
    (hb : S3 E f (z - chalf) = .ok b) :
    ∃ r, S3_prime E f z p = .ok r ∧
      toC r = (1 + (p : ℂ)) * toC a / 2 + (1 - (p : ℂ)) * toC b / 2 ∧
      (p = 1 → toC r = toC a) ∧ (p = -1 → toC r = toC b) := by
  refine ⟨_, by rw [S3_prime, ha, hb]; rfl, ?_, ?_, ?_⟩
  · simp
  · rintro rfl; simp; ring
  · rintro rfl; simp; ring

/-- `delS2(z)` = S2(z) − S2(z−½) -/
theorem delS2_spec (E : Ext) (f : ℕ) (z a b : Cx ℝ) (ha : S2 E f z = .ok a)
    (hb : S2 E f (z - chalf) = .ok b) :
    ∃ r, delS2 E f z = .ok r ∧ toC r = toC a - toC b ∧ toC (z - chalf) = toC z - 1 / 2 :=
  ⟨_, by rw [delS2, ha, hb]; rfl, by simp, by simp⟩

/-- `deldelS2(j, k)` = (delS2(j) − delS2(k)) / (4 (j−k) (2j+2k+1)) -/
theorem deldelS2_spec (E : Ext) (f : ℕ) (j k a b : Cx ℝ) (ha : delS2 E f j = .ok a)
    (hb : delS2 E f k = .ok b) :
    ∃ r, deldelS2 E f j k = .ok r ∧
      toC r = (toC a - toC b) / (4 * (toC j - toC k) * (2 * toC j + 2 * toC k + 1)) := by
  refine ⟨_, by rw [deldelS2, ha, hb]; rfl, ?_⟩
  simp

/-- `S2_tilde(n, prty)` = −(5/8)ζ(3) + prty·(S1(n)/n² − (ζ(2)/2)(ψ((n+1)/2) − ψ(n/2)) + MellinF2(n)) -/
theorem S2_tilde_spec (E : Ext) (n : Cx ℝ) (p : ℝ) :
    toC (S2_tilde E n p) = -(5 / 8) * (E.zeta3 : ℂ) + (p : ℂ) *
      (toC (S1 E n) / toC n ^ 2
        - (E.zeta2 : ℂ) / 2 * (toC (E.psi (Cx.divR (n + cone) 2)) - toC (E.psi (Cx.divR n 2)))
        + toC (MellinF2 E n)) ∧
    toC (Cx.divR (n + cone) 2) = (toC n + 1) / 2 ∧ toC (Cx.divR n 2) = toC n / 2 := by
  refine ⟨?_, by simp, by simp⟩
  simp only [S2_tilde, toC_add, toC_smul, toC_sub, toC_div, toC_mul, toC_ofReal]
  push_cast
  ring

/-- `SB3(j)` = ½ S1(j) (S2(j/2) − S2((j−1)/2)) + ⅛ (S3(j/2) − S3((j−1)/2))
               − 2 (0.8224670334241131 (S1(j/2) − S1((j−1)/2)) − MellinF2(1+j)) -/
theorem SB3_spec (E : Ext) (f : ℕ) (j s2a s2b s3a s3b : Cx ℝ)
    (h2a : S2 E f (Cx.ofReal (-0.5) + Cx.smul 0.5 j) = .ok s2a)
    (h2b : S2 E f (Cx.smul 0.5 j) = .ok s2b)
    (h3a : S3 E f (Cx.ofReal (-0.5) + Cx.smul 0.5 j) = .ok s3a)
    (h3b : S3 E f (Cx.smul 0.5 j) = .ok s3b) :
    ∃ r, SB3 E f j = .ok r ∧
      toC r = 1 / 2 * toC (S1 E j) * (toC s2b - toC s2a) + 1 / 8 * (toC s3b - toC s3a)
        - 2 * (0.8224670334241131 * (toC (S1 E (Cx.smul 0.5 j))
                 - toC (S1 E (Cx.smul 0.5 (Cx.ofReal (-1) + j)))) - toC (MellinF2 E (Cx.ofReal 1 + j))) ∧
      toC (Cx.ofReal (-0.5) + Cx.smul 0.5 j) = (toC j - 1) / 2 ∧
      toC (Cx.smul 0.5 j) = toC j / 2 ∧
      toC (Cx.smul 0.5 (Cx.ofReal (-1) + j)) = (toC j - 1) / 2 := by
  refine ⟨_, by simp only [SB3, h2a, h2b, h3a, h3b]; rfl, ?_, ?_, ?_, ?_⟩
  · simp; norm_num; ring
  · simp; norm_num; ring
  · simp; norm_num; ring
  · simp; norm_num; ring

/-- `MellinF2(n)` = ζ(2)·log 2 − Σ_{i<8} a_i·((n−1)(ζ(2)/p − T_i/p²) + T_i/p), p = n+i,
    T_i = ψ(n) + Σ_{l≤i} 1/(n+l) + γ — the loop `for k in range(1, 9)` with its running `psitmp` -/
theorem MellinF2_spec (E : Ext) (n : Cx ℝ) :
    toC (MellinF2 E n) = ((E.zeta2 * E.log2 : ℝ) : ℂ) - ∑ i ∈ Finset.range 8,
      mellinTerm E (toC n) (toC (E.psi n) + ∑ l ∈ Finset.range (i + 1), 1 / (toC n + (l : ℂ)))
        (toC n + (i : ℂ)) (abk.getD i 0) := by
  have h := mellin_fold E n abk ⟨1, E.psi n, czero⟩ 0 (by simp)
  have hl : abk.length = 8 := rfl
  simp only [hl, toC_czero, zero_add] at h
  rw [MellinF2, toC_sub, toC_ofReal, h]

/-- with ψ's recurrence the running `psitmp + γ` is S1(n+i): every summand of MellinF2 is
    a_i·((n−1)·M[Li2](p) + M[−log(1−x)](p)), p = n+i, with the exact Mellin moments
    M[Li2](p) = ζ(2)/p − S1(p)/p², M[−log(1−x)](p) = S1(p)/p; the only approximation left is
    log(1+x) ≈ Σ a_i x^(i+1) (accuracy: oracle.mellin_quad) -/
theorem MellinF2_moments (E : Ext) (hψ : PsiRec E) (n : Cx ℝ) (hn : ∀ k : ℕ, toC n ≠ -(k : ℂ)) :
    toC (MellinF2 E n) = ((E.zeta2 * E.log2 : ℝ) : ℂ) - ∑ i ∈ Finset.range 8,
      ((abk.getD i 0 : ℝ) : ℂ) *
        ((toC n - 1) * ((E.zeta2 : ℂ) / (toC n + i)
            - toC (S1 E ⟨n.re + i, n.im⟩) / ((toC n + i) * (toC n + i)))
          + toC (S1 E ⟨n.re + i, n.im⟩) / (toC n + i)) := by
  rw [MellinF2_spec]
  congr 1
  apply Finset.sum_congr rfl
  intro i _
  have e : (⟨n.re + i, n.im⟩ : Cx ℝ) + cone = ⟨n.re + (i + 1 : ℕ), n.im⟩ := by
    apply Cx.ext' <;> simp [cone]; ring
  have hs : toC (S1 E ⟨n.re + i, n.im⟩) =
      toC (E.psi n) + ∑ l ∈ Finset.range (i + 1), 1 / (toC n + (l : ℂ)) + (E.egamma : ℂ) := by
    rw [S1, e, toC_add, toC_ofReal, psi_add_nat E hψ n hn (i + 1)]; ring
  rw [hs, mellinTerm]

/-! ### the asymptotic series with the code's literal coefficients -/

/-- m = 1: 1/z + 1/(2z²) + B2/z³ + B4/z⁵ + B6/z⁷ + B8/z⁹ + B10/z¹¹ (Stirling series of ψ′) -/
theorem asym_one (z : Cx ℝ) :
    toC (asym 1 z) = (1 / toC z) + (1 / toC z) ^ 2 / 2 + (1 / toC z) ^ 3 / 6 - (1 / toC z) ^ 5 / 30
      + (1 / toC z) ^ 7 / 42 - (1 / toC z) ^ 9 / 30 + 5 * (1 / toC z) ^ 11 / 66 := by
  simp [asym, coefs, coefInit, signK]
  ring

/-- m = 2: −(1/z² + 1/z³ + 1/(2z⁴) − 1/(6z⁶) + 1/(6z⁸) − 3/(10z¹⁰) + 5/(6z¹²)) (ψ″) -/
theorem asym_two (z : Cx ℝ) :
    toC (asym 2 z) = -((1 / toC z) ^ 2 + (1 / toC z) ^ 3 + (1 / toC z) ^ 4 / 2 - (1 / toC z) ^ 6 / 6
      + (1 / toC z) ^ 8 / 6 - 3 * (1 / toC z) ^ 10 / 10 + 5 * (1 / toC z) ^ 12 / 6) := by
  simp [asym, coefs, coefInit, coefLoop, signK]
  ring

/-- m = 3: 2/z³ + 3/z⁴ + 2/z⁵ − 1/z⁷ + 4/(3z⁹) − 3/z¹¹ + 10/z¹³ (ψ‴) -/
theorem asym_three (z : Cx ℝ) :
    toC (asym 3 z) = 2 * (1 / toC z) ^ 3 + 3 * (1 / toC z) ^ 4 + 2 * (1 / toC z) ^ 5 - (1 / toC z) ^ 7
      + 4 * (1 / toC z) ^ 9 / 3 - 3 * (1 / toC z) ^ 11 + 10 * (1 / toC z) ^ 13 := by
  simp [asym, coefs, coefInit, coefLoop, signK]
  ring

/-! ### (6) complex conjugation -/

/- FULL STATEMENT (false for the algorithm as coded): ∀ z in the domain, dpsi(z̄) = conj dpsi(z).
   For Re z < 10 and |Im z| ≥ 10 the code shifts one of z, z̄ (the one with Im ≤ −10) and not the
   other (`if z.imag < 10`), so the two values differ by the truncation error of the series
   (≤ 1e-12 on the scale of S_k: oracle.conjugation).  Proved: exact commutation wherever both
   take the same branch. -/
theorem dpsi_conj_partial (f m : ℕ) (z : Cx ℝ) (h : (-10 < z.im ∧ z.im < 10) ∨ 10 ≤ z.re) :
    dpsiOne f (Cx.conj z) m = (dpsiOne f z m).map Cx.conj := dpsiOne_conj f m z h

/- `PsiConj E` (Proofs/Special.lean): ψ(w̄) = conj ψ(w) for the external psi. -/
theorem S1_conj (E : Ext) (hψ : PsiConj E) (z : Cx ℝ) : S1 E (Cx.conj z) = Cx.conj (S1 E z) := by
  have e : Cx.conj z + cone = Cx.conj (z + cone) := by rw [Cx.conj_add, Cx.conj_cone]
  rw [S1, S1, e, hψ]
  apply Cx.ext' <;> simp

theorem Sk_conj_partial (E : Ext) (f : ℕ) (z : Cx ℝ) (h : (-10 < z.im ∧ z.im < 10) ∨ 9 ≤ z.re) :
    S2 E f (Cx.conj z) = (S2 E f z).map Cx.conj ∧ S3 E f (Cx.conj z) = (S3 E f z).map Cx.conj ∧
    S4 E f (Cx.conj z) = (S4 E f z).map Cx.conj := by
  have e : Cx.conj z + cone = Cx.conj (z + cone) := by rw [Cx.conj_add, Cx.conj_cone]
  have h' : (-10 < (z + cone).im ∧ (z + cone).im < 10) ∨ 10 ≤ (z + cone).re := by
    rcases h with h | h
    · left; simpa [cone] using h
    · right; simp [cone]; linarith
  refine ⟨?_, ?_, ?_⟩
  · rw [S2, S2, e, dpsi_conj_partial f 1 _ h', Res.map_map, Res.map_map]
    congr 1; funext d; apply Cx.ext' <;> simp
  · rw [S3, S3, e, dpsi_conj_partial f 2 _ h', Res.map_map, Res.map_map]
    congr 1; funext d; apply Cx.ext' <;> simp; ring
  · rw [S4, S4, e, dpsi_conj_partial f 3 _ h', Res.map_map, Res.map_map]
    congr 1; funext d; apply Cx.ext' <;> simp; ring

theorem pochhammer_conj (z : Cx ℝ) (m : ℕ) : pochhammer (Cx.conj z) m = Cx.conj (pochhammer z m) := by
  rcases Nat.eq_zero_or_pos m with rfl | hm
  · rfl
  · rw [← toC_inj, toC_conj, pochhammer_prod _ m hm, pochhammer_prod _ m hm, map_prod]
    apply Finset.prod_congr rfl
    intro k _
    simp

example : ∃ z : Cx ℝ, ((-10 < z.im ∧ z.im < 10) ∨ 10 ≤ z.re) ∧ z.im ≠ 0 :=
  ⟨⟨1.7, 3.7⟩, Or.inl (by norm_num), by norm_num⟩


end Gep.R.C16

/-
  Props/C14Src.lean — property C14, SECOND TIE: the closed-form pieces of the hand-written model are what the current
  source says.  Built by the check after Props/C14.lean.  The translator (tools/gen_disp.py) re-reads
  DispersionCFF.subtraction, DispersionFixedPoleCFF.subtraction, PionPole.DMfixpole and PionPole.DMfreepole from /repo on
  every run; if it does not recognise the shape of the source the second tie is reported as unavailable in the evidence
  and the check relies on the run-time correspondence alone; if it does and a statement below no longer holds, a formula
  of the source has changed its VALUE: the check then looks for a failing input and reports.
  (The imaginary parts, the integrands and the quadrature are tied by the run-time correspondence only.)
-/
import Props.C14
import Proofs.DispBridge

namespace Gep.R.C14
open Gep.R Gep.Disp

/-- the subtraction constants and the pion-pole terms as written in cff.py are the model's, for every argument -/
theorem source_closed_forms (p : KMPar) (rpi mpi2 t xi : ℝ) (n : Bool) :
    DispSrc.defaultSubtraction = (0 : ℝ) ∧
    DispSrc.kmSubtraction p.C p.mC2 t = kmSubtraction p t ∧
    DispSrc.dmFixPole t xi n = dmFixPole t xi n ∧
    DispSrc.dmFreePole rpi mpi2 t xi n = dmFreePole rpi mpi2 t xi n :=
  ⟨DispBridge.defaultSubtraction_eq, DispBridge.kmSubtraction_eq p t, DispBridge.dmFixPole_eq t xi n,
    DispBridge.dmFreePole_eq rpi mpi2 t xi n⟩

/-- which parameters and which attributes of the point each piece reads, as found in the source -/
theorem source_closed_form_arguments :
    DispSrc.defaultSubtraction_args = [] ∧ DispSrc.kmSubtraction_args = ["par_C", "par_mC2", "t"] ∧
    DispSrc.dmFixPole_args = ["t", "xi"] ∧ DispSrc.dmFreePole_args = ["par_rpi", "par_mpi2", "t", "xi"] := by decide

/-- hence (with `km_wiring`): for the KM models ReE is exactly the SOURCE's subtraction constant, and ReH is the
    quadrature of the principal-value integral minus the source's subtraction constant -/
theorem source_km_subtraction (q : Quad) (p : KMPar) (t xi : ℝ) (n : Bool) (h0 : 0 < xi) (h1 : xi < 1) :
    kmReE q p t xi = .ok (DispSrc.kmSubtraction p.C p.mC2 t) ∧
    kmReH q p t n xi = .ok ((pvquad q (dispargV (kmImH p t n) xi) 0 1 +
        Real.log (xi ^ 2 / (1 - xi ^ 2)) * kmImH p t n xi) / Real.pi - DispSrc.kmSubtraction p.C p.mC2 t) := by
  have hs : DispSrc.kmSubtraction p.C p.mC2 t = p.C / (1 - t / p.mC2) ^ 2 := by
    rw [DispBridge.kmSubtraction_eq]; simp only [kmSubtraction]
  rw [hs]
  exact ⟨(km_wiring q p t xi n h0 h1).2.1, (km_wiring q p t xi n h0 h1).1⟩

end Gep.R.C14

/-
  Props/C10Src.lean — property C10, SECOND TIE: the hand-written model is what the current source says.
  Built by the check after Props/C10.lean.  The translator (tools/gen_chisq.py) re-reads Theory.chisq_single and Theory.pull
  from /repo on every run; if it does not recognise the shape of the source the second tie is reported as unavailable in the
  evidence and the check relies on the run-time correspondence alone; if it does and a statement below no longer holds, what
  the source computes has changed: the check then looks for a failing input and reports.
-/
import Props.C10
import Proofs.ChiSqBridge

namespace Gep.R.C10
open Gep.R

/-- what one pass of the loop of `chisq_single` appends (residual over `err`, or over `errplus` / `errminus` by the sign
    of the residual when `asym`), the summand `p*p`, the left fold from 0, and `Theory.pull`, as read from theory.py,
    are the model's -/
theorem source_chisq (asym : Bool) (ms : List Meas) (m : Meas) :
    ChiSqSrc.chisq asym ms = chisq asym ms ∧ ChiSqSrc.pullOf asym m = pullOf asym m ∧ ChiSqSrc.pull m = pull m :=
  ⟨ChiSqBridge.chisq_eq asym ms, ChiSqBridge.pullOf_eq asym m, ChiSqBridge.pull_eq m⟩

/-- hence the source's χ² is the sum of the squares of the source's pulls -/
theorem source_chisq_is_sum_of_squared_pulls (asym : Bool) (ms : List Meas) :
    ChiSqSrc.chisq asym ms = (ms.map (fun m => (ChiSqSrc.pullOf asym m) ^ 2)).sum := by
  have h : ChiSqSrc.pullOf asym = pullOf asym := funext (ChiSqBridge.pullOf_eq asym)
  rw [ChiSqBridge.chisq_eq, chisq_eq_sum, h]

end Gep.R.C10

/-
  Props/C03.lean — property C03: anomalous dimensions and NLO coefficients are moments of the
  textbook kernels.  Statements over ℝ/ℂ about Gen/AdimR.lean, the instantiation at ℝ of
  Scalar/Adim.lean.in, which tools/gen_adim.py translates from /repo/src/gepard/adim.py,
  c1dvcs.py (and S2_prime, S3_prime, S2_tilde of special.py) on every run.

  Conventions of the code (checked numerically on the real code by harness/props/C03.py):
  the argument of every adim.* function is the MELLIN moment n (= j+1); the matrix is
  ((QQ, QG), (GQ, GG)), so momentum conservation reads  qq+gq = 0  and  qg+gg = 0  at n = 2;
  γ = −2 × (moment of P) in the expansion parameter α_s/(2π).

  The primitive special functions are parameters of the model (`SF`: their values at n).  What a
  theorem needs from them is a hypothesis; nothing is assumed silently.
  Complex numbers of the model are `Cx ℝ` (two fields); `r x` is the real number x as a complex one.

  Groups:  1 LO sum rules · 2 affinity in nf (and the scale dependence of C₁) · 3 Schwarz reflection ·
           4 NLO sum rules, dependence on MellinF2 · 5 LO kernels (and c_FL) are −2× (1×) Mellin moments,
           as interval integrals, for every integer n (`_partial`: the property says every complex n).
  NOT proved here (oracle streams of the harness only): complex non-integer n for group 5, the
  two-loop x-space kernels, the F2 coefficient functions' moments, the Gegenbauer moment of the
  DVCS quark kernel, the cusp limit, and the value of MellinF2(n) itself.
-/
import Proofs.Adim
import Proofs.AdimMoments

set_option linter.unusedSimpArgs false
set_option linter.unnecessarySeqFocus false

namespace Gep.R.C03
open Gep Gep.R Gep.R.Adim

/-! ### 1. LO sum rules (exact, for every nf, given only the value of S₁) -/

/-- momentum conservation, quark column: γ⁰_qq(2) + γ⁰_gq(2) = 0 whenever S₁(2) = 3/2 -/
theorem LO_momentum_quark_column (nf prty : ℝ) (P : SF) (h : P.S1 = r (3 / 2)) :
    (singlet_LO (r 2) nf prty P).qq + (singlet_LO (r 2) nf prty P).gq = r 0 := by
  apply toC_inj
  simp only [singlet_LO, toC_add, toC_sub, toC_mul, toC_div, toC_neg, toC_r, h, CF, CA, NC, TF]
  push_cast
  norm_num

/-- momentum conservation, gluon column: γ⁰_qg(2) + γ⁰_gg(2) = 0 for every nf -/
theorem LO_momentum_gluon_column (nf prty : ℝ) (P : SF) (h : P.S1 = r (3 / 2)) :
    (singlet_LO (r 2) nf prty P).qg + (singlet_LO (r 2) nf prty P).gg = r 0 := by
  apply toC_inj
  simp only [singlet_LO, toC_add, toC_sub, toC_mul, toC_div, toC_neg, toC_r, h, CF, CA, NC, TF]
  push_cast
  ring

/-- quark-number conservation: γ⁰_NS(1) = 0 whenever S₁(1) = 1 -/
theorem LO_quark_number (nf prty : ℝ) (P : SF) (h : P.S1 = r 1) :
    non_singlet_LO (r 1) nf prty P = r 0 := by
  apply toC_inj
  simp only [non_singlet_LO, toC_add, toC_sub, toC_mul, toC_div, toC_neg, toC_r, h, CF, NC]
  push_cast
  norm_num

/-- non-vacuity: the hypothesis is just a value of one field -/
example : ∃ P : SF, P.S1 = r (3 / 2) :=
  ⟨⟨r (3 / 2), r 0, r 0, r 0, r 0, r 0, r 0, r 0, r 0, 0, 0⟩, rfl⟩

/-! ### 2. exact affinity in nf:  f(nf) = f(0) + nf·(f(1) − f(0)),  for all complex n -/

/-- affine dependence on a real variable -/
def AffineC (f : ℝ → Cx ℝ) : Prop := ∀ x, f x = f 0 + r x * (f 1 - f 0)
def AffineM (f : ℝ → M2) : Prop :=
  AffineC (fun x => (f x).qq) ∧ AffineC (fun x => (f x).qg) ∧
  AffineC (fun x => (f x).gq) ∧ AffineC (fun x => (f x).gg)
def AffineV (f : ℝ → V4) : Prop :=
  AffineC (fun x => (f x).Q) ∧ AffineC (fun x => (f x).G) ∧
  AffineC (fun x => (f x).NSP) ∧ AffineC (fun x => (f x).NSM)

theorem affine_non_singlet_LO (n : Cx ℝ) (prty : ℝ) (P : SF) :
    AffineC (fun nf => non_singlet_LO n nf prty P) := by
  intro nf; apply toC_inj
  simp only [non_singlet_LO, toC_add, toC_sub, toC_mul, toC_div, toC_neg, toC_r]
  push_cast; ring

theorem affine_singlet_LO (n : Cx ℝ) (prty : ℝ) (P : SF) :
    AffineM (fun nf => singlet_LO n nf prty P) := by
  refine ⟨?_, ?_, ?_, ?_⟩ <;> intro nf <;> apply toC_inj <;>
    simp only [singlet_LO, toC_add, toC_sub, toC_mul, toC_div, toC_neg, toC_r] <;>
    push_cast <;> ring

theorem affine_non_singlet_NLO (n : Cx ℝ) (prty : ℝ) (P : SF) :
    AffineC (fun nf => non_singlet_NLO n nf prty P) := by
  intro nf; apply toC_inj
  simp only [non_singlet_NLO, toC_add, toC_sub, toC_mul, toC_div, toC_neg, toC_r, toC_cpow, toC_poch2]
  push_cast; ring

theorem affine_singlet_NLO (n : Cx ℝ) (prty : ℝ) (P : SF) :
    AffineM (fun nf => singlet_NLO n nf prty P) := by
  refine ⟨?_, ?_, ?_, ?_⟩ <;> intro nf <;> apply toC_inj <;>
    simp only [singlet_NLO, non_singlet_NLO, toC_add, toC_sub, toC_mul, toC_div, toC_neg, toC_r,
      toC_cpow, toC_poch2] <;>
    push_cast <;> ring

theorem affine_c1_F2 (n : Cx ℝ) (P : SF) : AffineV (fun nf => c1_F2 n nf P) := by
  refine ⟨?_, ?_, ?_, ?_⟩ <;> intro nf <;> apply toC_inj <;>
    simp only [c1_F2, toC_add, toC_sub, toC_mul, toC_div, toC_neg, toC_r, toC_cpow] <;>
    push_cast <;> ring

theorem affine_c1_FL (n : Cx ℝ) (P : SF) : AffineV (fun nf => c1_FL n nf P) := by
  refine ⟨?_, ?_, ?_, ?_⟩ <;> intro nf <;> apply toC_inj <;>
    simp only [c1_FL, toC_add, toC_sub, toC_mul, toC_div, toC_neg, toC_r, toC_cpow] <;>
    push_cast <;> ring

theorem affine_c1_F1 (n : Cx ℝ) (P : SF) : AffineV (fun nf => c1_F1 n nf P) := by
  refine ⟨?_, ?_, ?_, ?_⟩ <;> intro nf <;> apply toC_inj <;>
    simp only [c1_F1, V4.sub, c1_F2, c1_FL, toC_add, toC_sub, toC_mul, toC_div, toC_neg, toC_r,
      toC_cpow] <;>
    push_cast <;> ring

theorem affine_c1_V (j : Cx ℝ) (J : SJ) : AffineV (fun nf => c1_V j nf J) := by
  refine ⟨?_, ?_, ?_, ?_⟩ <;> intro nf <;> apply toC_inj <;>
    simp only [c1_V, toC_add, toC_sub, toC_mul, toC_div, toC_neg, toC_r, toC_cpow] <;>
    push_cast <;> ring

/-- "big C₁" (c1dvcs.C1): whether it raises does not depend on nf, and when it returns, every
    component is affine in nf — for every scheme / process string and every rf2 -/
theorem affine_C1 (rf2 : ℝ) (sch : Scheme) (pc : Proc) (j : Cx ℝ) (P : SF) (J : SJ) (nf : ℝ) :
    match C1 rf2 nf sch pc j P J, C1 rf2 0 sch pc j P J, C1 rf2 1 sch pc j P J with
    | some v, some v0, some v1 =>
        v.Q = v0.Q + r nf * (v1.Q - v0.Q) ∧ v.G = v0.G + r nf * (v1.G - v0.G) ∧
        v.NSP = v0.NSP + r nf * (v1.NSP - v0.NSP) ∧ v.NSM = v0.NSM + r nf * (v1.NSM - v0.NSM)
    | none, none, none => True
    | _, _, _ => False := by
  cases sch <;> cases pc <;> simp only [C1, shift1, Bool.or_true, Bool.or_false, Bool.true_or,
    Bool.false_or, if_true, if_false, Option.map_some, Option.map_none, Bool.false_eq_true] <;>
  (try trivial) <;>
  (refine ⟨?_, ?_, ?_, ?_⟩ <;> apply toC_inj <;>
    simp only [V4.add, V4.sub, c1_F1, c1_F2, c1_FL, c1_V, singlet_LO, non_singlet_LO, toC_add, toC_sub,
      toC_mul, toC_div, toC_neg, toC_r, toC_cpow] <;>
    push_cast <;> ring)

/-- factorisation/renormalisation-scale dependence of "big C₁" (every scheme and process that returns):
    C₁(rf2) = C₁(1) − (ln rf2 / 2) · (γ⁰_qq, γ⁰_qg, γ⁰_NS, γ⁰_NS)(j+1): the c0 = (1,0,1,1) contraction of
    the LO block, as NLO scale independence requires; and whether C₁ raises does not depend on rf2 -/
theorem C1_scale_dependence (rf2 nf : ℝ) (sch : Scheme) (pc : Proc) (j : Cx ℝ) (P : SF) (J : SJ) :
    match C1 rf2 nf sch pc j P J, C1 1 nf sch pc j P J with
    | some v, some v1 =>
        v.Q = v1.Q - r (klog rf2 / 2) * (singlet_LO (j + r 1) nf 1 P).qq ∧
        v.G = v1.G - r (klog rf2 / 2) * (singlet_LO (j + r 1) nf 1 P).qg ∧
        v.NSP = v1.NSP - r (klog rf2 / 2) * non_singlet_LO (j + r 1) nf 1 P ∧
        v.NSM = v1.NSM - r (klog rf2 / 2) * non_singlet_LO (j + r 1) nf 1 P
    | none, none => True
    | _, _ => False := by
  cases sch <;> cases pc <;> simp only [C1, shift1, Bool.or_true, Bool.or_false, Bool.true_or,
    Bool.false_or, if_true, if_false, Option.map_some, Option.map_none, Bool.false_eq_true] <;>
  (try trivial) <;>
  (refine ⟨?_, ?_, ?_, ?_⟩ <;> apply toC_inj <;>
    simp only [V4.add, klog, Real.log_one, toC_add, toC_sub, toC_mul, toC_div, toC_neg, toC_r] <;>
    push_cast <;> ring)

/-- at rf2 = 1 the DIS coefficient is c_F2(j+1) and the MSbar DVCS one is c_V(j) -/
theorem C1_at_unit_scale (nf : ℝ) (sch : Scheme) (j : Cx ℝ) (P : SF) (J : SJ) :
    (∃ v, C1 1 nf sch .DIS j P J = some v ∧ v.Q = (c1_F2 (j + r 1) nf P).Q ∧ v.G = (c1_F2 (j + r 1) nf P).G) ∧
    (∃ v, C1 1 nf .msbar .DVCS j P J = some v ∧ v.Q = (c1_V j nf J).Q ∧ v.G = (c1_V j nf J).G) := by
  constructor
  · cases sch <;>
      simp only [C1, shift1, Bool.or_true, Bool.or_false, Bool.true_or, Bool.false_or, if_true, if_false,
        Option.map_some, Bool.false_eq_true] <;>
      refine ⟨_, rfl, ?_, ?_⟩ <;> apply toC_inj <;>
      simp only [V4.add, klog, Real.log_one, toC_add, toC_sub, toC_mul, toC_div, toC_neg, toC_r] <;>
      push_cast <;> ring
  · simp only [C1, shift1, Bool.or_true, Bool.or_false, Bool.true_or, Bool.false_or, if_true, if_false,
      Option.map_some, Bool.false_eq_true]
    refine ⟨_, rfl, ?_, ?_⟩ <;> apply toC_inj <;>
      simp only [V4.add, klog, Real.log_one, toC_add, toC_sub, toC_mul, toC_div, toC_neg, toC_r] <;>
      push_cast <;> ring

/-- non-vacuity of the dispatch: C₁ returns for DVCS/msbar and raises for an unknown scheme -/
example (rf2 nf : ℝ) (j : Cx ℝ) (P : SF) (J : SJ) :
    (C1 rf2 nf .msbar .DVCS j P J).isSome = true ∧ C1 rf2 nf .other .DVCS j P J = none := by
  simp [C1, shift1]

/-! ### 3. Schwarz reflection: conjugated inputs give conjugated outputs

  `P.conj` is the parameter record with every special-function value conjugated, i.e. the values
  the special functions take at n̄ provided they obey Schwarz reflection themselves (ψ, S_k,
  MellinF2 do; that is property C16's business and is compared numerically by the harness). -/

theorem schwarz_non_singlet_LO (n : Cx ℝ) (nf prty : ℝ) (P : SF) :
    Cx.conj (non_singlet_LO n nf prty P) = non_singlet_LO (Cx.conj n) nf prty P.conj := by
  simp only [non_singlet_LO, SF.conj, conj_add, conj_sub, conj_mul, conj_div, conj_neg, conj_r]

theorem schwarz_singlet_LO (n : Cx ℝ) (nf prty : ℝ) (P : SF) :
    (singlet_LO n nf prty P).conj = singlet_LO (Cx.conj n) nf prty P.conj := by
  simp only [singlet_LO, M2.conj, SF.conj, conj_add, conj_sub, conj_mul, conj_div, conj_neg, conj_r]

theorem schwarz_non_singlet_NLO (n : Cx ℝ) (nf prty : ℝ) (P : SF) :
    Cx.conj (non_singlet_NLO n nf prty P) = non_singlet_NLO (Cx.conj n) nf prty P.conj := by
  simp only [non_singlet_NLO, conj_add, conj_sub, conj_mul, conj_div, conj_neg, conj_r, conj_cpow,
    conj_poch2, conj_S2_prime_half, conj_S3_prime_half, conj_S2_tilde]
  simp only [SF.conj]

theorem schwarz_singlet_NLO (n : Cx ℝ) (nf prty : ℝ) (P : SF) :
    (singlet_NLO n nf prty P).conj = singlet_NLO (Cx.conj n) nf prty P.conj := by
  simp only [singlet_NLO, M2.conj, conj_add, conj_sub, conj_mul, conj_div, conj_neg, conj_r,
    conj_cpow, schwarz_non_singlet_NLO]
  simp only [SF.conj]

theorem schwarz_c1_F2 (n : Cx ℝ) (nf : ℝ) (P : SF) :
    (c1_F2 n nf P).conj = c1_F2 (Cx.conj n) nf P.conj := by
  simp only [c1_F2, V4.conj, SF.conj, conj_add, conj_sub, conj_mul, conj_div, conj_neg, conj_r, conj_cpow]

theorem schwarz_c1_FL (n : Cx ℝ) (nf : ℝ) (P : SF) :
    (c1_FL n nf P).conj = c1_FL (Cx.conj n) nf P.conj := by
  simp only [c1_FL, V4.conj, SF.conj, conj_add, conj_sub, conj_mul, conj_div, conj_neg, conj_r, conj_cpow]

theorem schwarz_c1_F1 (n : Cx ℝ) (nf : ℝ) (P : SF) :
    (c1_F1 n nf P).conj = c1_F1 (Cx.conj n) nf P.conj := by
  simp only [c1_F1, ← schwarz_c1_F2, ← schwarz_c1_FL, V4.sub, V4.conj, conj_sub]

theorem schwarz_c1_V (j : Cx ℝ) (nf : ℝ) (J : SJ) :
    (c1_V j nf J).conj = c1_V (Cx.conj j) nf J.conj := by
  simp only [c1_V, V4.conj, SJ.conj, conj_add, conj_sub, conj_mul, conj_div, conj_neg, conj_r, conj_cpow]

/-- … and for "big C₁" in every scheme / process (rf2 is real) -/
theorem schwarz_C1 (rf2 nf : ℝ) (sch : Scheme) (pc : Proc) (j : Cx ℝ) (P : SF) (J : SJ) :
    (C1 rf2 nf sch pc j P J).map V4.conj = C1 rf2 nf sch pc (Cx.conj j) P.conj J.conj := by
  have hn : Cx.conj j + r 1 = Cx.conj (j + r 1) := by rw [conj_add, conj_r]
  cases sch <;> cases pc <;>
    simp only [C1, shift1, Bool.or_true, Bool.or_false, Bool.true_or, Bool.false_or, if_true, if_false,
      Option.map_some, Option.map_none, Bool.false_eq_true, hn, ← schwarz_singlet_LO,
      ← schwarz_non_singlet_LO, ← schwarz_c1_F2, ← schwarz_c1_F1, ← schwarz_c1_V] <;>
    simp only [V4.add, V4.conj, M2.conj, SJ.conj, conj_add, conj_sub, conj_mul, conj_div, conj_neg, conj_r]

/-- non-vacuity / sanity: conjugation is an involution on the parameter record -/
example (P : SF) : P.conj.conj = P := by
  cases P; simp [SF.conj, conj_conj]

/-! ### 4. NLO sum rules, given the exact VALUES of the special functions at n = 2 and n = 1

  Hypotheses are the textbook values  S₁(2)=3/2, S₂(2)=5/4, S₂(1)=S₃(1)=1, S_k(0)=0,
  ψ(3/2)=ψ(1)+2−2 ln 2, ψ(1/2)=ψ(1)−2 ln 2  (g stands for ψ(1) = −γ_E, L2 for ln 2; ζ(2), ζ(3), L2, g
  are FREE real variables: the identities are polynomial identities in them).
  MellinF2 (the 8-term fit to ∫₀¹ x^{n−1} Li₂(x)/(1+x) dx) enters with its value F2.  Its exact
  values are   n=2: ζ₂ − 1 − ζ₂ ln2 + (5/8) ζ₃,    n=1: ζ₂ ln2 − (5/8) ζ₃   (not proved here;
  the harness compares them with mpmath quadrature).  Result: each sum rule equals an explicit
  multiple of (F2 − exact value): it holds exactly for the exact function, and for the code it is
  violated by exactly the fit error times 16·C_F·C_G = −32/9 resp. 8·C_A² = 72. -/

/-- the special-function record at n = 2 -/
def AtTwo (P : SF) (z2 z3 L2 g F2 : ℝ) : Prop :=
  P.S1 = r (3 / 2) ∧ P.S2 = r (5 / 4) ∧ P.S2h = r 1 ∧ P.S3h = r 1 ∧
  P.psih = r g ∧ P.psih1 = r (g + 2 - 2 * L2) ∧ P.MF2 = r F2 ∧ P.z2 = z2 ∧ P.z3 = z3

/-- the special-function record at n = 1 (for signature −: S₂, S₃ at n/2−1/2 = 0 vanish) -/
def AtOne (P : SF) (z2 z3 L2 g F2 : ℝ) : Prop :=
  P.S1 = r 1 ∧ P.S2 = r 1 ∧ P.S2hm = r 0 ∧ P.S3hm = r 0 ∧
  P.psih = r (g - 2 * L2) ∧ P.psih1 = r g ∧ P.MF2 = r F2 ∧ P.z2 = z2 ∧ P.z3 = z3

/-- momentum conservation at NLO, quark column:
    γ¹_qq(2) + γ¹_gq(2) = 16 C_F C_G · (MellinF2(2) − exact), for every nf -/
theorem NLO_momentum_quark_column (nf prty z2 z3 L2 g F2 : ℝ) (P : SF) (h : AtTwo P z2 z3 L2 g F2) :
    (singlet_NLO (r 2) nf prty P).qq + (singlet_NLO (r 2) nf prty P).gq =
      r (16 * CF * CG * (F2 - (z2 - 1 - z2 * L2 + 5 / 8 * z3))) := by
  obtain ⟨h1, h2, h3, h4, h5, h6, h7, h8, h9⟩ := h
  apply toC_inj
  simp only [singlet_NLO, non_singlet_NLO, S2_prime_half, S3_prime_half, S2_tilde, toC_add, toC_sub,
    toC_mul, toC_div, toC_neg, toC_r, toC_cpow, toC_poch2, h1, h2, h3, h4, h5, h6, h7, h8, h9,
    CF, CA, CG, NC, TF]
  push_cast
  ring

/-- momentum conservation at NLO, gluon column:
    γ¹_qg(2) + γ¹_gg(2) = 8 C_A² · (MellinF2(2) − exact), for every nf -/
theorem NLO_momentum_gluon_column (nf prty z2 z3 L2 g F2 : ℝ) (P : SF) (h : AtTwo P z2 z3 L2 g F2) :
    (singlet_NLO (r 2) nf prty P).qg + (singlet_NLO (r 2) nf prty P).gg =
      r (8 * CA * CA * (F2 - (z2 - 1 - z2 * L2 + 5 / 8 * z3))) := by
  obtain ⟨h1, h2, h3, h4, h5, h6, h7, h8, h9⟩ := h
  apply toC_inj
  simp only [singlet_NLO, non_singlet_NLO, S2_prime_half, S3_prime_half, S2_tilde, toC_add, toC_sub,
    toC_mul, toC_div, toC_neg, toC_r, toC_cpow, toC_poch2, h1, h2, h3, h4, h5, h6, h7, h8, h9,
    CF, CA, CG, NC, TF]
  push_cast
  ring

/-- quark-number conservation of the C-odd non-singlet at NLO:
    γ¹_NS⁻(1) = −16 C_F C_G · (MellinF2(1) − exact), for every nf -/
theorem NLO_quark_number_minus (nf z2 z3 L2 g F2 : ℝ) (P : SF) (h : AtOne P z2 z3 L2 g F2) :
    non_singlet_NLO (r 1) nf (-1) P = r (-16 * CF * CG * (F2 - (z2 * L2 - 5 / 8 * z3))) := by
  obtain ⟨h1, h2, h3, h4, h5, h6, h7, h8, h9⟩ := h
  apply toC_inj
  simp only [non_singlet_NLO, S2_prime_half, S3_prime_half, S2_tilde, toC_add, toC_sub,
    toC_mul, toC_div, toC_neg, toC_r, toC_cpow, toC_poch2, h1, h2, h3, h4, h5, h6, h7, h8, h9,
    CF, CA, CG, NC, TF]
  push_cast
  ring

/-- corollaries for the exact function: the three sum rules hold exactly -/
theorem NLO_sum_rules_exact (nf prty z2 z3 L2 g : ℝ) (P Q : SF)
    (hP : AtTwo P z2 z3 L2 g (z2 - 1 - z2 * L2 + 5 / 8 * z3))
    (hQ : AtOne Q z2 z3 L2 g (z2 * L2 - 5 / 8 * z3)) :
    (singlet_NLO (r 2) nf prty P).qq + (singlet_NLO (r 2) nf prty P).gq = r 0 ∧
    (singlet_NLO (r 2) nf prty P).qg + (singlet_NLO (r 2) nf prty P).gg = r 0 ∧
    non_singlet_NLO (r 1) nf (-1) Q = r 0 := by
  refine ⟨?_, ?_, ?_⟩
  · rw [NLO_momentum_quark_column nf prty z2 z3 L2 g _ P hP]; congr 1; ring
  · rw [NLO_momentum_gluon_column nf prty z2 z3 L2 g _ P hP]; congr 1; ring
  · rw [NLO_quark_number_minus nf z2 z3 L2 g _ Q hQ]; congr 1; ring

/-- non-vacuity: records satisfying AtTwo / AtOne exist for any values -/
example (z2 z3 L2 g F2 : ℝ) : (∃ P, AtTwo P z2 z3 L2 g F2) ∧ (∃ P, AtOne P z2 z3 L2 g F2) :=
  ⟨⟨⟨r (3 / 2), r (5 / 4), r 1, r 1, r 0, r 0, r g, r (g + 2 - 2 * L2), r F2, z2, z3⟩,
      rfl, rfl, rfl, rfl, rfl, rfl, rfl, rfl, rfl⟩,
   ⟨⟨r 1, r 1, r 0, r 0, r 0, r 0, r (g - 2 * L2), r g, r F2, z2, z3⟩,
      rfl, rfl, rfl, rfl, rfl, rfl, rfl, rfl, rfl⟩⟩

/-- how the NLO entries depend on the one fitted ingredient, MellinF2(n): affinely, with slopes
    16·C_F·C_G·prty (non-singlet, and γ¹_qq through NS⁺), 8·C_A² (γ¹_gg), 0 (γ¹_qg, γ¹_gq) — for every
    complex n.  (The harness uses this to separate the fit error of MellinF2 from everything else
    when it compares the code with the moments of the two-loop x-space kernels.) -/
theorem NLO_MellinF2_slope (n : Cx ℝ) (nf prty : ℝ) (P : SF) (d : Cx ℝ) :
    let P' : SF := { P with MF2 := P.MF2 + d }
    non_singlet_NLO n nf prty P' = non_singlet_NLO n nf prty P + r (16 * CF * CG * prty) * d ∧
    (singlet_NLO n nf prty P').qq = (singlet_NLO n nf prty P).qq + r (16 * CF * CG) * d ∧
    (singlet_NLO n nf prty P').qg = (singlet_NLO n nf prty P).qg ∧
    (singlet_NLO n nf prty P').gq = (singlet_NLO n nf prty P).gq ∧
    (singlet_NLO n nf prty P').gg = (singlet_NLO n nf prty P).gg + r (8 * CA * CA) * d := by
  refine ⟨?_, ?_, ?_, ?_, ?_⟩ <;> apply toC_inj <;>
    simp only [singlet_NLO, non_singlet_NLO, S2_prime_half, S3_prime_half, S2_tilde, toC_add, toC_sub,
      toC_mul, toC_div, toC_neg, toC_r, toC_cpow, toC_poch2] <;>
    push_cast <;> ring

/-! ### 5. LO anomalous dimensions (and c_FL) are −2× (resp. 1×) Mellin moments of the x-space kernels,
        for every INTEGER moment

  The x-space kernels are the textbook ones in the α_s/(2π) normalisation:
    P_qq = C_F [(1+x²)/(1−x)]₊ + (3/2) C_F δ(1−x),         P_qg = 2 nf T_F (x² + (1−x)²),
    P_gq = C_F (1 + (1−x)²)/x,
    P_gg = 2 C_A ( [x/(1−x)]₊ + (1−x)/x + x(1−x) ) + ((11 C_A − 4 nf T_F)/6) δ(1−x),
    c_L,q = 2 C_F x,                                          c_L,g = 4 nf x (1−x).
  The moments are genuine interval integrals ∫₀¹; a plus-distribution [f]₊ against the test
  function t(x) = x^{n−1}·(regular factor) is  ∫₀¹ f(x) (t(x) − t(1)) dx, a δ(1−x) contributes t(1).
  The only input about S₁ is its DEFINITION at integers, S₁(n) = H n = Σ_{k≤n} 1/k.
  Moments are written with n = m+1 (n ≥ 1) or n = m+2 (n ≥ 2: gq and gg have their pole at n = 1).
  FULL STATEMENT (property C03):  for every complex n with Re n > 1 (S₁(n) = γ_E + ψ(n+1)):
      γ⁰_ab(n) = −2 ∫₀¹ x^{n−1} P_ab(x) dx,   c_FL,a(n) = ∫₀¹ x^{n−1} c_L,a(x) dx.
  PROVED (`_partial`): the same for every integer n ≥ 1 (qq, qg, c_FL) resp. n ≥ 2 (gq, gg).
  MISSING: non-integer / complex n — needs ψ(n+1)+γ_E = ∫₀¹ (1−x^n)/(1−x) dx for complex n (analytic
  continuation; by Carlson's theorem the integer values fix it, not formalised).  The harness
  covers complex n numerically (oracle stream `moments_LO`, `moments_c1`). -/

open intervalIntegral in
/-- γ⁰_qq(n) = γ⁰_NS(n) = −2 ∫₀¹ x^{n−1} P_qq(x) dx,  n = m+1 ≥ 1 -/
theorem LO_qq_is_moment_partial (m : ℕ) (nf prty : ℝ) (P : SF) (h : P.S1 = r (H (m + 1))) :
    (singlet_LO (r ((m : ℝ) + 1)) nf prty P).qq =
      r (-2 * (CF * ((∫ x in (0:ℝ)..1, (x ^ m * (1 + x ^ 2) - 2) / (1 - x)) + 3 / 2))) ∧
    non_singlet_LO (r ((m : ℝ) + 1)) nf prty P = (singlet_LO (r ((m : ℝ) + 1)) nf prty P).qq := by
  have hint : (∫ x in (0:ℝ)..1, (x ^ m * (1 + x ^ 2) - 2) / (1 - x)) = -H m - H (m + 2) := by
    rw [← plus_moment2 m (m + 2)]
    congr 1; funext x; ring
  have h2 : H (m + 2) = H (m + 1) + 1 / ((m : ℝ) + 2) := by
    have := H_succ (m + 1); push_cast at this; rw [this]; ring
  have h0 : H m = H (m + 1) - 1 / ((m : ℝ) + 1) := by rw [H_succ m]; ring
  have hm1 : ((m : ℂ) + 1) ≠ 0 := by exact_mod_cast Nat.succ_ne_zero m
  have hm2 : ((m : ℂ) + 1 + 1) ≠ 0 := by
    have : ((m + 2 : ℕ) : ℂ) ≠ 0 := by exact_mod_cast Nat.succ_ne_zero (m + 1)
    intro hh; apply this; push_cast; rw [← hh]; ring
  refine ⟨?_, ?_⟩
  swap
  · apply toC_inj; rw [non_singlet_LO_C, singlet_LO_qq_C]
  apply toC_inj
  rw [hint, h2, h0, singlet_LO_qq_C]      -- from here on: the hand-written form qq0C (Proofs/Adim.lean)
  simp only [qq0C, toC_r, h]
  push_cast
  have hm2' : (1 + ((m : ℂ) + 1)) ≠ 0 := by rw [add_comm]; exact hm2
  have hm3 : ((m : ℂ) + 2) ≠ 0 := by intro hh; apply hm2; rw [← hh]; ring
  field_simp
  ring

/-- γ⁰_qg(n) = −2 ∫₀¹ x^{n−1} P_qg(x) dx,  n = m+1 ≥ 1 -/
theorem LO_qg_is_moment_partial (m : ℕ) (nf prty : ℝ) (P : SF) :
    (singlet_LO (r ((m : ℝ) + 1)) nf prty P).qg =
      r (-2 * ∫ x in (0:ℝ)..1, x ^ m * (2 * nf * TF * (x ^ 2 + (1 - x) ^ 2))) := by
  have hint : (∫ x in (0:ℝ)..1, x ^ m * (2 * nf * TF * (x ^ 2 + (1 - x) ^ 2))) =
      2 * nf * TF / ((m : ℝ) + 1) + -(4 * nf * TF) / ((m : ℝ) + 2) + 4 * nf * TF / ((m : ℝ) + 3)
        + 0 / ((m : ℝ) + 4) := by
    rw [← poly_moment]
    congr 1; funext x; ring
  have hm1 : ((m : ℂ) + 1) ≠ 0 := by exact_mod_cast Nat.succ_ne_zero m
  have hm2 : ((m : ℂ) + 2) ≠ 0 := by exact_mod_cast Nat.succ_ne_zero (m + 1)
  have hm3 : ((m : ℂ) + 3) ≠ 0 := by exact_mod_cast Nat.succ_ne_zero (m + 2)
  have e2 : (1 + ((m : ℂ) + 1)) = (m : ℂ) + 2 := by ring
  have e3 : (2 + ((m : ℂ) + 1)) = (m : ℂ) + 3 := by ring
  apply toC_inj
  rw [hint, singlet_LO_qg_C]
  simp only [qg0C, toC_r]
  push_cast
  rw [e2, e3]
  field_simp
  ring

/-- γ⁰_gq(n) = −2 ∫₀¹ x^{n−1} P_gq(x) dx,  n = m+2 ≥ 2 -/
theorem LO_gq_is_moment_partial (m : ℕ) (nf prty : ℝ) (P : SF) :
    (singlet_LO (r ((m : ℝ) + 2)) nf prty P).gq =
      r (-2 * ∫ x in (0:ℝ)..1, x ^ (m + 1) * (CF * (1 + (1 - x) ^ 2) / x)) := by
  have hint : (∫ x in (0:ℝ)..1, x ^ (m + 1) * (CF * (1 + (1 - x) ^ 2) / x)) =
      2 * CF / ((m : ℝ) + 1) + -(2 * CF) / ((m : ℝ) + 2) + CF / ((m : ℝ) + 3) + 0 / ((m : ℝ) + 4) := by
    rw [← poly_moment]
    apply integral_congr_ne 0
    intro x hx
    field_simp
    ring
  have hm1 : ((m : ℂ) + 1) ≠ 0 := by exact_mod_cast Nat.succ_ne_zero m
  have hm2 : ((m : ℂ) + 2) ≠ 0 := by exact_mod_cast Nat.succ_ne_zero (m + 1)
  have hm3 : ((m : ℂ) + 3) ≠ 0 := by exact_mod_cast Nat.succ_ne_zero (m + 2)
  have e1 : (-1 + ((m : ℂ) + 2)) = (m : ℂ) + 1 := by ring
  have e3 : (1 + ((m : ℂ) + 2)) = (m : ℂ) + 3 := by ring
  apply toC_inj
  rw [hint, singlet_LO_gq_C]
  simp only [gq0C, toC_r]
  push_cast
  rw [e1, e3]
  field_simp
  ring

/-- γ⁰_gg(n) = −2 ∫₀¹ x^{n−1} P_gg(x) dx,  n = m+2 ≥ 2 -/
theorem LO_gg_is_moment_partial (m : ℕ) (nf prty : ℝ) (P : SF) (h : P.S1 = r (H (m + 2))) :
    (singlet_LO (r ((m : ℝ) + 2)) nf prty P).gg =
      r (-2 * (2 * CA * ((∫ x in (0:ℝ)..1, (x ^ (m + 1) * x - 1) / (1 - x)) +
                         ∫ x in (0:ℝ)..1, x ^ (m + 1) * ((1 - x) / x + x * (1 - x)))
               + (11 * CA - 4 * nf * TF) / 6)) := by
  have hplus : (∫ x in (0:ℝ)..1, (x ^ (m + 1) * x - 1) / (1 - x)) = -H (m + 2) := by
    rw [← plus_moment (m + 2)]
    congr 1
  have hreg : (∫ x in (0:ℝ)..1, x ^ (m + 1) * ((1 - x) / x + x * (1 - x))) =
      1 / ((m : ℝ) + 1) + -1 / ((m : ℝ) + 2) + 1 / ((m : ℝ) + 3) + -1 / ((m : ℝ) + 4) := by
    rw [← poly_moment]
    apply integral_congr_ne 0
    intro x hx
    field_simp
    ring
  have hm1 : ((m : ℂ) + 1) ≠ 0 := by exact_mod_cast Nat.succ_ne_zero m
  have hm2 : ((m : ℂ) + 2) ≠ 0 := by exact_mod_cast Nat.succ_ne_zero (m + 1)
  have hm3 : ((m : ℂ) + 3) ≠ 0 := by exact_mod_cast Nat.succ_ne_zero (m + 2)
  have hm4 : ((m : ℂ) + 4) ≠ 0 := by exact_mod_cast Nat.succ_ne_zero (m + 3)
  have e1 : (-1 + ((m : ℂ) + 2)) = (m : ℂ) + 1 := by ring
  have e3 : (1 + ((m : ℂ) + 2)) = (m : ℂ) + 3 := by ring
  have e4 : (2 + ((m : ℂ) + 2)) = (m : ℂ) + 4 := by ring
  apply toC_inj
  rw [hplus, hreg, singlet_LO_gg_C]
  simp only [gg0C, toC_r, h]
  push_cast
  rw [e1, e3, e4]
  field_simp
  ring

/-- c_FL(n) = ∫₀¹ x^{n−1} c_L(x) dx for quarks (all three quark entries) and gluons, n = m+1 ≥ 1 -/
theorem c1_FL_is_moment_partial (m : ℕ) (nf : ℝ) (P : SF) :
    (c1_FL (r ((m : ℝ) + 1)) nf P).Q = r (∫ x in (0:ℝ)..1, x ^ m * (2 * CF * x)) ∧
    (c1_FL (r ((m : ℝ) + 1)) nf P).NSP = (c1_FL (r ((m : ℝ) + 1)) nf P).Q ∧
    (c1_FL (r ((m : ℝ) + 1)) nf P).NSM = (c1_FL (r ((m : ℝ) + 1)) nf P).Q ∧
    (c1_FL (r ((m : ℝ) + 1)) nf P).G = r (∫ x in (0:ℝ)..1, x ^ m * (4 * nf * x * (1 - x))) := by
  have hq : (∫ x in (0:ℝ)..1, x ^ m * (2 * CF * x)) =
      0 / ((m : ℝ) + 1) + 2 * CF / ((m : ℝ) + 2) + 0 / ((m : ℝ) + 3) + 0 / ((m : ℝ) + 4) := by
    rw [← poly_moment]; congr 1; funext x; ring
  have hg : (∫ x in (0:ℝ)..1, x ^ m * (4 * nf * x * (1 - x))) =
      0 / ((m : ℝ) + 1) + 4 * nf / ((m : ℝ) + 2) + -(4 * nf) / ((m : ℝ) + 3) + 0 / ((m : ℝ) + 4) := by
    rw [← poly_moment]; congr 1; funext x; ring
  have hm2 : ((m : ℂ) + 2) ≠ 0 := by exact_mod_cast Nat.succ_ne_zero (m + 1)
  have hm3 : ((m : ℂ) + 3) ≠ 0 := by exact_mod_cast Nat.succ_ne_zero (m + 2)
  have e2 : (1 + ((m : ℂ) + 1)) = (m : ℂ) + 2 := by ring
  have e3 : (2 + ((m : ℂ) + 1)) = (m : ℂ) + 3 := by ring
  obtain ⟨cQ, cP, cM, cG⟩ := c1_FL_C (r ((m : ℝ) + 1)) nf P      -- the hand-written forms cFLqC, cFLgC
  refine ⟨?_, toC_inj (cP.trans cQ.symm), toC_inj (cM.trans cQ.symm), ?_⟩
  · apply toC_inj
    rw [hq, cQ]
    simp only [cFLqC, toC_r]
    push_cast
    rw [e2]
    field_simp
    ring
  · apply toC_inj
    rw [hg, cG]
    simp only [cFLgC, toC_r]
    push_cast
    rw [e2, e3]
    field_simp
    ring

/-- non-vacuity: the harmonic numbers are what they should be, H 2 = 3/2 (so group 5 at n = 2
    and group 1 speak about the same record) -/
example : H 2 = 3 / 2 ∧ H 1 = 1 := by
  constructor <;> norm_num [H, Finset.sum_range_succ]

end Gep.R.C03

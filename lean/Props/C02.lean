/-
  Props/C02.lean — property C02: QCD evolution conserves momentum, composes and solves the RG
  equation.  Statements about Gen/EvolR.lean, the ℝ instantiation of Scalar/Evol.lean.in (model of
  gepard.evolution for one Mellin–Barnes point; γ0, γ1, β0, β1 and R = a(μ)/a(μ0) are arbitrary).
  Equalities are equalities of the model's own complex numbers / 2×2 matrices (`Cx ℝ`, `M2`);
  derivatives are stated after the identification `toC : Cx ℝ ≅ ℂ`, `toM : M2 ≅ Matrix (Fin 2) (Fin 2) ℂ`
  (Proofs/Evol.lean).  Helper lemmas: Proofs/Evol*.lean.

  Conventions derived from the code: as2pf returns A = α_s/2π; a = A/2 = α_s/4π obeys
  da/dL = β0 a² + β1 a³, L = ln μ², i.e. dA/dL = β0 A²/2 + β1 A³/4; calc_wce combines E = E0 + A·E1.
  In these conventions the RG equation reads dE/dL = −(a γ0 + 2a² γ1) E = −(A/2 γ0 + A²/2 γ1) E.
-/
import Proofs.EvolNS

namespace Gep.R.C02
open Gep Gep.R Gep.R.Evol

/-! ## 1. eigenvalues and projectors (lambdaf, projectors), for every complex γ0 with
       γ0_QQ ≠ γ0_GG (the square-root trick divides by it) and λ₊ ≠ λ₋ -/

/-- np.sqrt as modelled squares to its argument: s² is the code's discriminant expression -/
theorem csqrt_sq (z : Cx ℝ) : csqrt z * csqrt z = z := csqrt_mul_self z

/-- the two numbers returned by lambdaf are the roots of the characteristic polynomial -/
theorem lambdaf_trace_det (g : M2) (hd : g.a ≠ g.d) :
    (lambdaf g).1 + (lambdaf g).2 = g.a + g.d ∧
    (lambdaf g).1 * (lambdaf g).2 = g.a * g.d - g.b * g.c := by
  obtain ⟨u, hu, h1, h2⟩ := lambdaf_spec g hd
  constructor <;> apply toC_injective <;> simp only [toC_add, toC_mul, toC_sub, h1, h2]
  · ring
  · linear_combination (-1 / 4 : ℂ) * hu

theorem projectors_complete (g : M2) (hd : g.a ≠ g.d) (hl : (lambdaf g).1 ≠ (lambdaf g).2) :
    M2.add (projectors g).1 (projectors g).2 = M2.one := by
  apply toM_injective; simpa using (spectral_model g hd hl).complete

theorem projectors_idempotent (g : M2) (hd : g.a ≠ g.d) (hl : (lambdaf g).1 ≠ (lambdaf g).2) :
    M2.mul (projectors g).1 (projectors g).1 = (projectors g).1 ∧
    M2.mul (projectors g).2 (projectors g).2 = (projectors g).2 := by
  constructor <;> apply toM_injective
  · simpa using (spectral_model g hd hl).idem0
  · simpa using (spectral_model g hd hl).idem1

theorem projectors_orthogonal (g : M2) (hd : g.a ≠ g.d) (hl : (lambdaf g).1 ≠ (lambdaf g).2) :
    M2.mul (projectors g).1 (projectors g).2 = M2.zero ∧
    M2.mul (projectors g).2 (projectors g).1 = M2.zero := by
  constructor <;> apply toM_injective
  · simpa using (spectral_model g hd hl).orth01
  · simpa using (spectral_model g hd hl).orth10

theorem projectors_spectral (g : M2) (hd : g.a ≠ g.d) (hl : (lambdaf g).1 ≠ (lambdaf g).2) :
    M2.add (M2.smulC (lambdaf g).1 (projectors g).1) (M2.smulC (lambdaf g).2 (projectors g).2) = g := by
  apply toM_injective; simpa using (spectral_model g hd hl).spec

/-! ## 2. identity at the input scale: R = 1 ⇒ E0 = 1, E1 = 0 -/

theorem evolop_identity (p : Nat) (g0 g1 : M2) (b0 b1 : ℝ) (nd : Option NdItems)
    (hd : g0.a ≠ g0.d) (hl : (lambdaf g0).1 ≠ (lambdaf g0).2) :
    evolop p g0 g1 b0 b1 1 nd = (M2.one, M2.zero) := by
  have h0 : evolopLO g0 b0 1 = M2.one := by
    apply toM_injective
    rw [toM_evolopLO, rfact_one, rfact_one]
    simpa using (spectral_model g0 hd hl).complete
  have hnd : ∀ items, ndMat b0 1 items = M2.zero := by
    intro items; simp [ndMat, ndSum_one, M2.zero]
  unfold evolop
  by_cases hp : p = 1
  · cases nd with
    | none => simp [hp, h0, evolopNLOdiag_one]
    | some items =>
      simp only [hp, if_true, h0, evolopNLOdiag_one, hnd]
      congr 1
      apply toM_injective; simp
  · simp [hp, h0]

theorem evolopns_identity (p : Nat) (g0 g1 : Cx ℝ) (b0 b1 : ℝ)
    (nd : Option (List (Cx ℝ × Cx ℝ × Cx ℝ))) :
    evolopns p g0 g1 b0 b1 1 nd = (cone, czero) := by
  have h1 : Cx.smul 0 (r1ns g0 g1 b0 b1) * cone = czero := by
    apply toC_injective; simp
  unfold evolopns
  by_cases hp : p = 1
  · cases nd with
    | none => simp [hp, rfact_one, h1]
    | some items => simp [hp, rfact_one, h1, ndSumNS_one, cx_add_czero]
  · simp [hp, rfact_one]

/-- every summand of the msbar non-diagonal term carries a factor that vanishes at R = 1 -/
theorem nondiagonal_vanishes (b0 : ℝ) (lamn lamk X : Cx ℝ) :
    cb1Term b0 1 lamn lamk X = czero ∧ cb1TermNS b0 1 lamn lamk X = czero :=
  ⟨cb1Term_one b0 lamn lamk X, cb1TermNS_one b0 lamn lamk X⟩

/-! ## 3. LO composition -/

theorem evolopLO_compose (g : M2) (b0 : ℝ) {R1 R2 : ℝ} (h1 : 0 < R1) (h2 : 0 < R2)
    (hd : g.a ≠ g.d) (hl : (lambdaf g).1 ≠ (lambdaf g).2) :
    evolopLO g b0 (R1 * R2) = M2.mul (evolopLO g b0 R2) (evolopLO g b0 R1) := by
  apply toM_injective
  rw [toM_mul, toM_evolopLO, toM_evolopLO, toM_evolopLO, spectral_mul (spectral_model g hd hl),
    rfact_mul b0 _ h1 h2, rfact_mul b0 _ h1 h2, toC_mul, toC_mul, mul_comm (toC (rfact b0 (lambdaf g).1 R1)),
    mul_comm (toC (rfact b0 (lambdaf g).2 R1))]

theorem evolopns_compose (p : Nat) (g0 g1 : Cx ℝ) (b0 b1 : ℝ) {R1 R2 : ℝ} (h1 : 0 < R1) (h2 : 0 < R2)
    (nd : Option (List (Cx ℝ × Cx ℝ × Cx ℝ))) :
    (evolopns p g0 g1 b0 b1 (R1 * R2) nd).1 =
      (evolopns p g0 g1 b0 b1 R2 nd).1 * (evolopns p g0 g1 b0 b1 R1 nd).1 := by
  simp only [evolopns_fst, rfact_mul b0 _ h1 h2]
  apply toC_injective; simp [mul_comm]

/-! ## 4. momentum and quark-number conservation -/

/-- (1,1)·γ0 = 0 ⇒ (1,1)·E0 = (1,1), for every R -/
theorem momentum_LO (g : M2) (b0 R : ℝ) (hd : g.a ≠ g.d) (hl : (lambdaf g).1 ≠ (lambdaf g).2)
    (hcs : M2.colsum g = (czero, czero)) :
    M2.colsum (evolopLO g b0 R) = (cone, cone) := by
  have hJ := (colsum_zero_iff g).mp hcs
  obtain ⟨hP0, hP1, h01⟩ := J_projectors g hd hJ
  have hl' : toC (lambdaf g).1 - toC (lambdaf g).2 ≠ 0 :=
    sub_ne_zero.mpr (fun h => hl (toC_injective h))
  apply colsum_one_of
  rw [toM_evolopLO, mul_add, Matrix.mul_smul, Matrix.mul_smul, hP0, hP1]
  rcases mul_eq_zero.mp h01 with h | h
  · have hz : (lambdaf g).1 = czero := toC_injective (by simpa using h)
    rw [hz, rfact_zero]
    have : -(1 / (toC czero - toC (lambdaf g).2)) * toC (lambdaf g).2 = 1 := by
      rw [h] at hl'; simp only [toC_czero] at *; field_simp; ring
    rw [this]; simp
  · have hz : (lambdaf g).2 = czero := toC_injective (by simpa using h)
    rw [hz, rfact_zero]
    have : (1 / (toC (lambdaf g).1 - toC czero)) * toC (lambdaf g).1 = 1 := by
      rw [h] at hl'; simp only [toC_czero] at *; field_simp; ring
    rw [this]; simp


/-- if moreover (1,1)·γ1 = 0, the NLO part has vanishing column sums (diagonal operator; the msbar
    non-diagonal term stored at j feeds the higher moments and is not part of this statement).
    `_hl`: where λ₊ = λ₋ the code divides by zero; the statement is restricted to λ₊ ≠ λ₋. -/
theorem momentum_NLO (g0 g1 : M2) (b0 b1 R : ℝ) (hd : g0.a ≠ g0.d)
    (_hl : (lambdaf g0).1 ≠ (lambdaf g0).2)
    (hcs0 : M2.colsum g0 = (czero, czero)) (hcs1 : M2.colsum g1 = (czero, czero)) :
    M2.colsum (evolopNLOdiag g0 g1 b0 b1 R) = (czero, czero) :=
  (colsum_zero_iff _).mpr
    (J_evolopNLOdiag g0 g1 b0 b1 R hd ((colsum_zero_iff g0).mp hcs0) ((colsum_zero_iff g1).mp hcs1))

/-- the same for what `evolop` returns, at either order p -/
theorem momentum_evolop (p : Nat) (g0 g1 : M2) (b0 b1 R : ℝ) (hd : g0.a ≠ g0.d)
    (hl : (lambdaf g0).1 ≠ (lambdaf g0).2)
    (hcs0 : M2.colsum g0 = (czero, czero)) (hcs1 : M2.colsum g1 = (czero, czero)) :
    M2.colsum (evolop p g0 g1 b0 b1 R none).1 = (cone, cone) ∧
    M2.colsum (evolop p g0 g1 b0 b1 R none).2 = (czero, czero) := by
  unfold evolop
  by_cases hp : p = 1
  · simp only [hp, if_true]
    exact ⟨momentum_LO g0 b0 R hd hl hcs0, momentum_NLO g0 g1 b0 b1 R hd hl hcs0 hcs1⟩
  · simp only [hp, if_false]
    refine ⟨momentum_LO g0 b0 R hd hl hcs0, ?_⟩
    simp only [M2.colsum, M2.zero, Prod.mk.injEq]
    exact ⟨cx_add_czero czero, cx_add_czero czero⟩

/-- non-singlet: γ0_NS = 0 (first moment) ⇒ E0_NS = 1 for every R -/
theorem ns_first_moment (p : Nat) (g1 : Cx ℝ) (b0 b1 R : ℝ)
    (nd : Option (List (Cx ℝ × Cx ℝ × Cx ℝ))) :
    (evolopns p czero g1 b0 b1 R nd).1 = cone := by
  rw [evolopns_fst, rfact_zero]

/-! ## 5. renormalisation-group equation -/

/-- the model of qcd.as2pf at p = 0 is the closed LO form and solves dA/dL = β0 A²/2 -/
theorem as2pfLO_solves (b0 as0 L : ℝ) (h : 1 - b0 / 2 * as0 * L ≠ 0) :
    as2pfLO b0 as0 0 = as0 ∧
    HasDerivAt (as2pfLO b0 as0) (b0 / 2 * (as2pfLO b0 as0 L) ^ 2) L := by
  refine ⟨by rw [as2pfLO_eq]; simp, hasDerivAt_as2pfLO b0 as0 L h⟩

/-- LO: along the LO coupling, R(L) = A(L)/A(L0), every entry of E0 obeys dE0/dL = −(A/2)·γ0·E0,
    i.e. −a γ0 E0 with a = α_s/4π -/
theorem rg_LO (g : M2) (b0 as0 L0 L : ℝ) (hd : g.a ≠ g.d) (hl : (lambdaf g).1 ≠ (lambdaf g).2)
    (hb : b0 ≠ 0) (has : 0 < as0) (hL : 0 < 1 - b0 / 2 * as0 * L) (hL0 : 0 < 1 - b0 / 2 * as0 * L0)
    (i j : Fin 2) :
    HasDerivAt (fun L => toM (evolopLO g b0 (as2pfLO b0 as0 L / as2pfLO b0 as0 L0)) i j)
      (((-((as2pfLO b0 as0 L / 2 : ℝ) : ℂ)) •
        (toM g * toM (evolopLO g b0 (as2pfLO b0 as0 L / as2pfLO b0 as0 L0)))) i j) L := by
  have hA := hasDerivAt_as2pfLO b0 as0 L (ne_of_gt hL)
  have hAL : as2pfLO b0 as0 L ≠ 0 := by
    rw [as2pfLO_eq]; exact div_ne_zero (ne_of_gt has) (ne_of_gt hL)
  have hA0 : as2pfLO b0 as0 L0 ≠ 0 := by
    rw [as2pfLO_eq]; exact div_ne_zero (ne_of_gt has) (ne_of_gt hL0)
  have hρ := hA.div_const (as2pfLO b0 as0 L0)
  have h := hasDerivAt_evolopLO g b0 hd hl hρ (div_ne_zero hAL hA0) i j
  refine h.congr_deriv ?_
  have : (-((b0 / 2 * as2pfLO b0 as0 L ^ 2 / as2pfLO b0 as0 L0 /
      (as2pfLO b0 as0 L / as2pfLO b0 as0 L0) : ℝ) : ℂ) / (b0 : ℂ)) =
      -((as2pfLO b0 as0 L / 2 : ℝ) : ℂ) := by
    have hbC : (b0 : ℂ) ≠ 0 := by exact_mod_cast hb
    have e : b0 / 2 * as2pfLO b0 as0 L ^ 2 / as2pfLO b0 as0 L0 /
        (as2pfLO b0 as0 L / as2pfLO b0 as0 L0) = b0 * (as2pfLO b0 as0 L / 2) := by
      field_simp
    rw [e]; push_cast; field_simp
  rw [this]

/-- the same for the non-singlet LO operator -/
theorem rg_LO_ns (g0 g1 : Cx ℝ) (b0 b1 as0 L0 L : ℝ)
    (hb : b0 ≠ 0) (has : 0 < as0) (hL : 0 < 1 - b0 / 2 * as0 * L) (hL0 : 0 < 1 - b0 / 2 * as0 * L0) :
    HasDerivAt (fun L => toC (evolopns 0 g0 g1 b0 b1 (as2pfLO b0 as0 L / as2pfLO b0 as0 L0) none).1)
      (-((as2pfLO b0 as0 L / 2 : ℝ) : ℂ) * (toC g0 *
        toC (evolopns 0 g0 g1 b0 b1 (as2pfLO b0 as0 L / as2pfLO b0 as0 L0) none).1)) L := by
  have hA := hasDerivAt_as2pfLO b0 as0 L (ne_of_gt hL)
  have hAL : as2pfLO b0 as0 L ≠ 0 := by
    rw [as2pfLO_eq]; exact div_ne_zero (ne_of_gt has) (ne_of_gt hL)
  have hA0 : as2pfLO b0 as0 L0 ≠ 0 := by
    rw [as2pfLO_eq]; exact div_ne_zero (ne_of_gt has) (ne_of_gt hL0)
  have hρ := hA.div_const (as2pfLO b0 as0 L0)
  simp only [evolopns_fst]
  refine (hasDerivAt_rfact g0 b0 hρ (div_ne_zero hAL hA0)).congr_deriv ?_
  have hbC : (b0 : ℂ) ≠ 0 := by exact_mod_cast hb
  have e : b0 / 2 * as2pfLO b0 as0 L ^ 2 / as2pfLO b0 as0 L0 /
      (as2pfLO b0 as0 L / as2pfLO b0 as0 L0) = b0 * (as2pfLO b0 as0 L / 2) := by
    field_simp
  rw [e]; push_cast; field_simp

/-- the O(A³) remainder of the NLO equation is an explicit function of R alone -/
theorem rgRemainder_def (g0 g1 : M2) (b0 b1 R : ℝ) :
    rgRemainder g0 g1 b0 b1 R =
      (1 / 2 : ℂ) • (toM g1 * toM (evolopNLOdiag g0 g1 b0 b1 R)) -
        ((b1 : ℂ) / 4) • (toM (r1mat g0 g1 b0 b1) * toM (evolopLO g0 b0 R) +
          (1 / (b0 : ℂ)) • (toM g0 * toM (evolopNLOdiag g0 g1 b0 b1 R))) := rfl

/-- NLO, exact: for ANY coupling A(L) with dA/dL = β0 A²/2 + β1 A³/4 at L (the package's two-loop β
    function), E(L) = E0(R) + A·E1(R), R = A(L)/A0 (calc_wce's combination of evolop's output), obeys
      dE/dL = −(A/2·γ0 + A²/2·γ1)·E + A³·rgRemainder(R)        [= −(aγ0 + 2a²γ1)E + O(a³)]
    entry by entry.  The remainder is the explicit matrix above; that it stays bounded as A → 0 at
    fixed R is evident from its form but is not stated as a theorem (no asymptotic statement). -/
theorem rg_NLO (g0 g1 : M2) (b0 b1 A0 : ℝ) (A : ℝ → ℝ) (L : ℝ)
    (hd : g0.a ≠ g0.d) (hl : (lambdaf g0).1 ≠ (lambdaf g0).2) (hb : b0 ≠ 0)
    (hD1 : Cx.ofReal b0 + ((lambdaf g0).1 - (lambdaf g0).2) ≠ czero)
    (hD2 : Cx.ofReal b0 + -((lambdaf g0).1 - (lambdaf g0).2) ≠ czero)
    (hA : HasDerivAt A (b0 / 2 * A L ^ 2 + b1 / 4 * A L ^ 3) L) (hA0 : 0 < A0) (hAL : 0 < A L)
    (i j : Fin 2) :
    HasDerivAt (fun L => toM (combine (A L) (evolop 1 g0 g1 b0 b1 (A L / A0) none)) i j)
      ((-(((A L / 2 : ℝ) : ℂ) • toM g0 + ((A L ^ 2 / 2 : ℝ) : ℂ) • toM g1) *
          toM (combine (A L) (evolop 1 g0 g1 b0 b1 (A L / A0) none))
        + ((A L ^ 3 : ℝ) : ℂ) • rgRemainder g0 g1 b0 b1 (A L / A0)) i j) L := by
  have hD1' : (b0 : ℂ) + toC ((lambdaf g0).1 - (lambdaf g0).2) ≠ 0 := by
    intro e; apply hD1; apply toC_injective; simpa using e
  have hD2' : (b0 : ℂ) + toC (-((lambdaf g0).1 - (lambdaf g0).2)) ≠ 0 := by
    intro e; apply hD2; apply toC_injective; simpa using e
  have h := hasDerivAt_total g0 g1 b0 b1 A0 hd hl hb hD1' hD2' hA (ne_of_gt hA0) (ne_of_gt hAL) i j
  refine h.congr_deriv ?_
  rw [rg_nlo_algebra g0 g1 b0 b1 (A L / A0) (A L) hb (ne_of_gt hAL)]

/-- the same for the non-singlet operator, remainder `rgRemainderNS` -/
theorem rg_NLO_ns (g0 g1 : Cx ℝ) (b0 b1 A0 : ℝ) (A : ℝ → ℝ) (L : ℝ) (hb : b0 ≠ 0)
    (hA : HasDerivAt A (b0 / 2 * A L ^ 2 + b1 / 4 * A L ^ 3) L) (hA0 : 0 < A0) (hAL : 0 < A L) :
    HasDerivAt (fun L => toC (evolopns 1 g0 g1 b0 b1 (A L / A0) none).1 +
        (A L : ℂ) * toC (evolopns 1 g0 g1 b0 b1 (A L / A0) none).2)
      (-(((A L / 2 : ℝ) : ℂ) * toC g0 + ((A L ^ 2 / 2 : ℝ) : ℂ) * toC g1) *
          (toC (evolopns 1 g0 g1 b0 b1 (A L / A0) none).1 +
            (A L : ℂ) * toC (evolopns 1 g0 g1 b0 b1 (A L / A0) none).2)
        + ((A L ^ 3 : ℝ) : ℂ) * rgRemainderNS g0 g1 b0 b1 (A L / A0)) L := by
  have h := hasDerivAt_ns_total g0 g1 b0 b1 A0 hb hA (ne_of_gt hA0) (ne_of_gt hAL)
  refine h.congr_deriv ?_
  rw [rg_nlo_algebra_ns g0 g1 b0 b1 (A L / A0) (A L) hb (ne_of_gt hAL)]

theorem rgRemainderNS_def (g0 g1 : Cx ℝ) (b0 b1 R : ℝ) :
    rgRemainderNS g0 g1 b0 b1 R =
      (1 / 2 : ℂ) * (toC g1 * toC (evolopns 1 g0 g1 b0 b1 R none).2) -
        ((b1 : ℂ) / 4) * (toC (r1ns g0 g1 b0 b1) * toC (evolopns 1 g0 g1 b0 b1 R none).1 +
          (1 / (b0 : ℂ)) * (toC g0 * toC (evolopns 1 g0 g1 b0 b1 R none).2)) := rfl

/-! ## non-degeneracy in terms of γ0, and non-vacuity -/

/-- λ₊ ≠ λ₋ whenever the discriminant (a−d)² + 4bc of γ0 does not vanish -/
theorem lambdaf_ne (g : M2) (hd : g.a ≠ g.d)
    (hdisc : (g.a - g.d) * (g.a - g.d) + Cx.smul 4 (g.b * g.c) ≠ czero) :
    (lambdaf g).1 ≠ (lambdaf g).2 := lambdaf_ne_of_disc g hd hdisc

/-- erfunc's off-diagonal denominators β0 ± (λ₊−λ₋) do not vanish whenever β0² ≠ (a−d)² + 4bc -/
theorem erfunc_denominators_ne (g : M2) (hd : g.a ≠ g.d) (b0 : ℝ)
    (h : Cx.ofReal (b0 * b0) ≠ (g.a - g.d) * (g.a - g.d) + Cx.smul 4 (g.b * g.c)) :
    Cx.ofReal b0 + ((lambdaf g).1 - (lambdaf g).2) ≠ czero ∧
    Cx.ofReal b0 + -((lambdaf g).1 - (lambdaf g).2) ≠ czero := erfunc_den_ne g hd b0 h

/-- a momentum-conserving γ0 = [[−1, 2], [1, −2]] (column sums 0, discriminant 9) -/
def gEx : M2 := ⟨⟨-1, 0⟩, ⟨2, 0⟩, ⟨1, 0⟩, ⟨-2, 0⟩⟩

theorem gEx_hyps : gEx.a ≠ gEx.d ∧ (lambdaf gEx).1 ≠ (lambdaf gEx).2 ∧
    M2.colsum gEx = (czero, czero) ∧
    Cx.ofReal (-9) + ((lambdaf gEx).1 - (lambdaf gEx).2) ≠ czero ∧
    Cx.ofReal (-9) + -((lambdaf gEx).1 - (lambdaf gEx).2) ≠ czero := by
  have hd : gEx.a ≠ gEx.d := by
    intro h; have := congrArg Cx.re h; norm_num [gEx] at this
  have hdisc : (gEx.a - gEx.d) * (gEx.a - gEx.d) + Cx.smul 4 (gEx.b * gEx.c) ≠ czero := by
    intro h; have := congrArg Cx.re h; norm_num [gEx, czero] at this
  have hb : Cx.ofReal ((-9 : ℝ) * (-9)) ≠ (gEx.a - gEx.d) * (gEx.a - gEx.d) + Cx.smul 4 (gEx.b * gEx.c) := by
    intro h; have := congrArg Cx.re h; norm_num [gEx] at this
  refine ⟨hd, lambdaf_ne gEx hd hdisc, ?_, erfunc_denominators_ne gEx hd (-9) hb⟩
  simp only [M2.colsum, gEx, Prod.mk.injEq]
  constructor <;> apply Cx_ext <;> norm_num [czero]

/-- groups 1–4 are not vacuous: their hypotheses hold at gEx (with γ1 := gEx, R1 = 2, R2 = 3) -/
example : M2.add (projectors gEx).1 (projectors gEx).2 = M2.one ∧
    evolop 1 gEx gEx (-9) (-64) 1 none = (M2.one, M2.zero) ∧
    evolopLO gEx (-9) (2 * 3) = M2.mul (evolopLO gEx (-9) 3) (evolopLO gEx (-9) 2) ∧
    M2.colsum (evolop 1 gEx gEx (-9) (-64) 2 none).1 = (cone, cone) ∧
    M2.colsum (evolop 1 gEx gEx (-9) (-64) 2 none).2 = (czero, czero) := by
  obtain ⟨hd, hl, hcs, -, -⟩ := gEx_hyps
  exact ⟨projectors_complete gEx hd hl, evolop_identity 1 gEx gEx (-9) (-64) none hd hl,
    evolopLO_compose gEx (-9) (by norm_num) (by norm_num) hd hl,
    (momentum_evolop 1 gEx gEx (-9) (-64) 2 hd hl hcs hcs).1,
    (momentum_evolop 1 gEx gEx (-9) (-64) 2 hd hl hcs hcs).2⟩

/-- group 5 is not vacuous: LO along the LO coupling (β0 = −9, A(r20) = 0.05, L0 = 0, L = 1), and NLO
    for the coupling A(x) = 0.05 + A'·(x − 1), which has the required derivative at L = 1 -/
example (i j : Fin 2) :
    HasDerivAt (fun L => toM (evolopLO gEx (-9) (as2pfLO (-9) 0.05 L / as2pfLO (-9) 0.05 0)) i j)
      (((-((as2pfLO (-9) 0.05 1 / 2 : ℝ) : ℂ)) •
        (toM gEx * toM (evolopLO gEx (-9) (as2pfLO (-9) 0.05 1 / as2pfLO (-9) 0.05 0)))) i j) 1 := by
  obtain ⟨hd, hl, -, -, -⟩ := gEx_hyps
  exact rg_LO gEx (-9) 0.05 0 1 hd hl (by norm_num) (by norm_num) (by norm_num) (by norm_num) i j

example : ∃ A : ℝ → ℝ, HasDerivAt A ((-9 : ℝ) / 2 * A 1 ^ 2 + (-64) / 4 * A 1 ^ 3) 1 ∧ 0 < A 1 := by
  refine ⟨fun x => 0.05 + ((-9 : ℝ) / 2 * 0.05 ^ 2 + (-64) / 4 * 0.05 ^ 3) * (x - 1), ?_, by norm_num⟩
  have h := (((hasDerivAt_id (1 : ℝ)).sub_const 1).const_mul
    ((-9 : ℝ) / 2 * 0.05 ^ 2 + (-64) / 4 * 0.05 ^ 3)).const_add 0.05
  refine h.congr_deriv ?_
  norm_num

end Gep.R.C02

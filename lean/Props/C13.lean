/-
  Props/C13.lean — property C13: kinematic completion is consistent and convention changes are
  lossless.  Statements over ℝ about Gen/ConvR.lean (instantiation of Scalar/Conv.lean.in).
-/
import Gen.ConvR
import Mathlib.Tactic.Ring
import Mathlib.Tactic.FieldSimp
import Mathlib.Tactic.Linarith
import Mathlib.Analysis.SpecialFunctions.Sqrt

namespace Gep.R.C13
open Gep.R

/-! ### completion of {xB, W, Q2}, xi, {t, tm} -/

/-- the defining relation between the three variables -/
def Consistent (M2 x w q : ℝ) : Prop := x = q / (w ^ 2 + q - M2)

theorem isZero_iff (d : ℝ) : isZero d = true ↔ d = 0 := by
  unfold isZero
  constructor
  · intro h
    by_cases h1 : d < 0
    · simp [h1] at h
    · by_cases h2 : d > 0
      · simp [h1, h2] at h
      · linarith [not_lt.1 h1, not_lt.1 h2]
  · rintro rfl; simp

theorem isZero_false {d : ℝ} (h : d ≠ 0) : isZero d = false := by
  cases hz : isZero d with
  | false => rfl
  | true => exact absurd ((isZero_iff d).1 hz) h

/-- from (W, Q2): the supplied xB satisfies the relation — wherever Python's divisions are defined
    (W² + Q² ≠ M², and the resulting xB ≠ 2 for xi); otherwise see `fill_zero_division` -/
theorem fill_from_W_Q2 (M2 w q : ℝ) (t : ℝ) (ht : t ≤ 0) (hd : w ^ 2 + q - M2 ≠ 0)
    (hx2 : 2 - q / (w ^ 2 + q - M2) ≠ 0) :
    fill M2 { W := some w, Q2 := some q, t := some t } =
      .ok { xB := some (q / (w ^ 2 + q - M2)), W := some w, Q2 := some q, t := some t,
            tm := some (-t), xi := some ((q / (w ^ 2 + q - M2)) / (2 - q / (w ^ 2 + q - M2))) } := by
  simp [fill, fillDuo, countTrio, completeTrio, trioRaises, isZero_false hd, isZero_false hx2, ht]

/-- from (xB, Q2): W is supplied and the relation holds, for xB ≠ 0, 2 and 0 ≤ W² -/
theorem fill_from_xB_Q2 (M2 x q : ℝ) (hx : x ≠ 0) (hq : q ≠ 0) (hw : 0 ≤ q / x - q + M2) (hx2 : 2 - x ≠ 0) :
    ∃ w, fill M2 { xB := some x, Q2 := some q } =
        .ok { xB := some x, W := some w, Q2 := some q, xi := some (x / (2 - x)) } ∧
      Consistent M2 x w q := by
  refine ⟨Real.sqrt (q / x - q + M2), by
    simp [fill, fillDuo, countTrio, completeTrio, trioRaises, isZero_false hx, isZero_false hx2, not_lt.2 hw, ksqrt], ?_⟩
  unfold Consistent
  rw [Real.sq_sqrt hw]
  field_simp
  ring_nf
  field_simp

/-- from (xB, W): Q2 is supplied and the relation holds, for xB ≠ 1, 2 and W² ≠ M² -/
theorem fill_from_xB_W (M2 x w : ℝ) (hx : x ≠ 1) (hw : w ^ 2 - M2 ≠ 0) (hx2 : 2 - x ≠ 0) :
    ∃ q, fill M2 { xB := some x, W := some w } =
        .ok { xB := some x, W := some w, Q2 := some q, xi := some (x / (2 - x)) } ∧
      Consistent M2 x w q := by
  have h1 : (1 - x) ≠ 0 := fun h => hx (by linarith)
  refine ⟨x * (w ^ 2 - M2) / (1 - x), by
    simp [fill, fillDuo, countTrio, completeTrio, trioRaises, isZero_false h1, isZero_false hx2], ?_⟩
  unfold Consistent
  have h2 : w ^ 2 + x * (w ^ 2 - M2) / (1 - x) - M2 = (w ^ 2 - M2) / (1 - x) := by
    field_simp; ring
  rw [h2]
  field_simp

/-- the error branches, as Python takes them: a vanishing denominator raises ZeroDivisionError (W² + Q² = M² for
    (W, Q2); xB = 0 for (xB, Q2); xB = 1 for (xB, W); xB = 2 for xi), whatever t or tm say -/
theorem fill_zero_division (M2 w q x : ℝ) (t tm : Option ℝ) :
    (w ^ 2 + q - M2 = 0 → fill M2 { W := some w, Q2 := some q, t := t, tm := tm } = .zeroDivisionError) ∧
    (fill M2 { xB := some 0, Q2 := some q, t := t, tm := tm } = .zeroDivisionError) ∧
    (fill M2 { xB := some 1, W := some w, t := t, tm := tm } = .zeroDivisionError) ∧
    (fill M2 { xB := some 2, t := t, tm := tm } = .zeroDivisionError) := by
  refine ⟨fun h => ?_, ?_, ?_, ?_⟩
  · simp [fill, countTrio, trioRaises, (isZero_iff _).2 h]
  · simp [fill, countTrio, trioRaises, (isZero_iff (0:ℝ)).2 rfl]
  · have h0 : isZero (0 : ℝ) = true := (isZero_iff 0).2 rfl
    simp [fill, countTrio, trioRaises, h0]
  · have h0 : isZero (0 : ℝ) = true := (isZero_iff 0).2 rfl
    simp [fill, countTrio, h0]

/-- … and a negative W² = Q²/xB − Q² + M² raises ValueError (math.sqrt) -/
theorem fill_math_domain (M2 x q : ℝ) (t tm : Option ℝ) (hx : x ≠ 0) (hneg : q / x - q + M2 < 0) :
    fill M2 { xB := some x, Q2 := some q, t := t, tm := tm } = .valueError := by
  simp [fill, countTrio, trioRaises, isZero_false hx, hneg]

/-- completion from any pair of a consistent physical triple reproduces the same triple -/
theorem completion_agrees (M2 x w q : ℝ) (hc : Consistent M2 x w q) (hx0 : 0 < x) (hx1 : x < 1)
    (hq : 0 < q) (hw : 0 < w) (hd : 0 < w ^ 2 + q - M2) :
    completeTrio M2 { W := some w, Q2 := some q } = some { xB := some x, W := some w, Q2 := some q } ∧
    completeTrio M2 { xB := some x, Q2 := some q } = some { xB := some x, W := some w, Q2 := some q } ∧
    completeTrio M2 { xB := some x, W := some w } = some { xB := some x, W := some w, Q2 := some q } := by
  unfold Consistent at hc
  have hxne : x ≠ 0 := ne_of_gt hx0
  have hdne : w ^ 2 + q - M2 ≠ 0 := ne_of_gt hd
  have hqx : q / x = w ^ 2 + q - M2 := by
    rw [hc]; field_simp
  refine ⟨by simp [completeTrio, hc], ?_, ?_⟩
  · have : q / x - q + M2 = w ^ 2 := by rw [hqx]; ring
    simp only [completeTrio, ksqrt, this]
    rw [Real.sqrt_sq (le_of_lt hw)]
  · have h1 : (1 - x) ≠ 0 := by intro h; linarith
    have : x * (w ^ 2 - M2) / (1 - x) = q := by
      have hq' : q = x * (w ^ 2 + q - M2) := by rw [hc]; field_simp
      field_simp
      linarith [hq']
    simp only [completeTrio, this]

/-- xi and tm follow from what is present -/
theorem fill_xi_tm (M2 : ℝ) (k k' : Kin) (h : fill M2 k = .ok k') :
    (∀ x, k'.xB = some x → k'.xi = some (x / (2 - x))) ∧
    (∀ t, k.t = some t → k'.tm = some (-t) ∧ k'.t = some t) ∧
    (∀ tm, k.tm = some tm → k.t = none → k'.t = some (-tm) ∧ k'.tm = some tm) := by
  unfold fill at h
  split at h
  · cases h
  · rcases hxb : k.xB with _ | x <;> rcases hw : k.W with _ | w <;> rcases hq : k.Q2 with _ | q <;>
    rcases ht : k.t with _ | t <;> rcases htm : k.tm with _ | tm <;>
    simp only [hxb, hw, hq, ht, htm, countTrio, completeTrio, trioRaises, fillDuo, Option.isSome_none,
      Option.isSome_some, Option.getD_some, Option.getD_none] at h <;>
    (repeat' split at h) <;> (try cases h) <;> simp_all

/-- over-determined input is rejected -/
theorem fill_overdetermined_trio (M2 x w q : ℝ) (k : Kin) (h : k.xB = some x) (h2 : k.W = some w)
    (h3 : k.Q2 = some q) : fill M2 k = .kinematicsError := by
  simp [fill, countTrio, h, h2, h3]

/-- … also when both t and tm are given: never accepted (KinematicsError, unless an earlier statement already
    raised one of the exceptions above) -/
theorem fill_overdetermined_duo (M2 t tm : ℝ) (k : Kin) (h : k.t = some t) (h2 : k.tm = some tm) :
    ∀ k', fill M2 k ≠ .ok k' := by
  intro k' hk
  unfold fill at hk
  split at hk
  · cases hk
  · simp only [fillDuo, h, h2] at hk
    (repeat' split at hk) <;> (try cases hk)

/-- under-determined input (at most one of the trio) is left untouched: only xi is added -/
theorem fill_underdetermined (M2 : ℝ) (k k' : Kin) (hc : countTrio k ≤ 1) (h : fill M2 k = .ok k') :
    k'.xB = k.xB ∧ k'.W = k.W ∧ k'.Q2 = k.Q2 := by
  unfold fill at h
  have h3 : countTrio k ≠ 3 := by omega
  have h2 : countTrio k ≠ 2 := by omega
  simp only [h3, h2, if_false] at h
  rcases hxb : k.xB with _ | x <;> rcases ht : k.t with _ | t <;> rcases htm : k.tm with _ | tm <;>
  simp only [hxb, ht, htm, fillDuo] at h <;> (repeat' split at h) <;> (try cases h) <;> simp_all

/-! ### conventions -/

theorem map_div_mul (l : List ℝ) : (l.map (· / 1000)).map (· * 1000) = l := by
  induction l with
  | nil => rfl
  | cons a as ih => simp only [List.map_cons, ih]; congr 1; field_simp

theorem map_scale (l : List ℝ) :
    List.map ((fun x => x * 1000) ∘ fun x => x * (1 / 1000)) l = l := by
  induction l with
  | nil => rfl
  | cons a as ih => simp only [List.map_cons, ih, Function.comp]; congr 1; ring

/-- to internal conventions and back restores angles, value and all uncertainties —
    for every frame, unit and harmonic index -/
theorem from_to_conventions (p q : CPt) (h : toConv p = some q) : fromConv q = p := by
  have hpi : Real.pi ≠ 0 := Real.pi_ne_zero
  obtain ⟨val, errs, phi, FTn, varphi, varFTn, trento, phiDeg, pb⟩ := p
  cases trento <;> cases phiDeg <;> cases pb <;> rcases phi with _ | f <;>
    rcases FTn with _ | n <;> rcases varphi with _ | v <;> rcases varFTn with _ | m <;>
    (try cases hn : flipsFTn n) <;> (try cases hm : flipsVar m) <;>
    simp [toConv, *] at h <;>
    subst h <;>
    simp [fromConv, map_div_mul, map_scale, kpi, *] <;>
    (try field_simp) <;> (try ring) <;>
    (first | done | exact map_scale _ | exact ⟨map_scale _, trivial⟩ | (constructor <;> first | exact map_scale _ | trivial | ring))

/-- converting a prediction to the original conventions is the map `from_conventions` applies to
    the value — for EVERY point, also one that carries an angle together with a harmonic index (a transversely
    polarised point loaded from a file has `varphi` from its column and `varFTn = -1` by default) -/
theorem orig_conventions_is_from (q : CPt) (v : ℝ) :
    origConv q v = (fromConv { q with val := v }).val := by
  obtain ⟨val, errs, phi, FTn, varphi, varFTn, trento, phiDeg, pb⟩ := q
  cases trento <;> cases phiDeg <;> cases pb <;> rcases phi with _ | f <;>
    rcases FTn with _ | n <;> rcases varphi with _ | w <;> rcases varFTn with _ | m <;>
    (try cases hn : flipsFTn n) <;> (try cases hm : flipsVar m) <;>
    simp_all [origConv, fromConv]

/-- … and therefore undoes what `to_conventions` did to the measured value -/
theorem orig_conventions_inverse (p q : CPt) (h : toConv p = some q) :
    origConv q q.val = p.val := by
  rw [orig_conventions_is_from q q.val]
  have : ({ q with val := q.val } : CPt) = q := rfl
  rw [this, from_to_conventions p q h]

/-- `orig_conventions` is a fixed non-zero multiple of its argument (±1 or ±1000, decided by the point alone): linear, so
    residuals, pulls and uncertainties convert with the same factor as the value -/
theorem orig_conventions_linear (q : CPt) (v : ℝ) : origConv q v = origConv q 1 * v := by
  obtain ⟨val, errs, phi, FTn, varphi, varFTn, trento, phiDeg, pb⟩ := q
  cases trento <;> cases pb <;> rcases phi with _ | f <;>
    rcases FTn with _ | n <;> rcases varphi with _ | w <;> rcases varFTn with _ | m <;>
    (try cases hn : flipsFTn n) <;> (try cases hm : flipsVar m) <;>
    simp_all [origConv] <;> (try ring)

theorem orig_conventions_add (q : CPt) (a b : ℝ) : origConv q (a + b) = origConv q a + origConv q b := by
  rw [orig_conventions_linear q (a + b), orig_conventions_linear q a, orig_conventions_linear q b]; ring

/-- the factor has modulus 1 (nb) or 1000 (pb): a convention change never loses or rescales a prediction otherwise -/
theorem orig_conventions_abs (q : CPt) (v : ℝ) :
    |origConv q v| = (if q.pb then 1000 else 1) * |v| := by
  obtain ⟨val, errs, phi, FTn, varphi, varFTn, trento, phiDeg, pb⟩ := q
  cases trento <;> cases pb <;> rcases phi with _ | f <;>
    rcases FTn with _ | n <;> rcases varphi with _ | w <;> rcases varFTn with _ | m <;>
    (try cases hn : flipsFTn n) <;> (try cases hm : flipsVar m) <;>
    simp_all [origConv, abs_mul] <;> (try ring)

/-- `to_conventions` rejects exactly one kind of point: Trento frame, no `varphi`, and a `varFTn` other than ±1 -/
theorem toConv_isSome_iff (p : CPt) :
    (toConv p).isSome = true ↔
      ¬ (p.trento = true ∧ p.varphi = none ∧ ∃ n, p.varFTn = some n ∧ flipsVar n = false) := by
  obtain ⟨val, errs, phi, FTn, varphi, varFTn, trento, phiDeg, pb⟩ := p
  cases trento <;> cases phiDeg <;> rcases phi with _ | f <;>
    rcases FTn with _ | n <;> rcases varphi with _ | w <;> rcases varFTn with _ | m <;>
    (try cases hn : flipsFTn n) <;> (try cases hm : flipsVar m) <;>
    simp_all [toConv]

/-- what `to_conventions` never touches: the frame / unit flags it will need for the way back, the harmonic indices,
    which angles are present, and the number of uncertainties -/
theorem toConv_keeps (p q : CPt) (h : toConv p = some q) :
    q.trento = p.trento ∧ q.phiDeg = p.phiDeg ∧ q.pb = p.pb ∧ q.FTn = p.FTn ∧ q.varFTn = p.varFTn ∧
    q.phi.isSome = p.phi.isSome ∧ q.varphi.isSome = p.varphi.isSome ∧ q.errs.length = p.errs.length := by
  obtain ⟨val, errs, phi, FTn, varphi, varFTn, trento, phiDeg, pb⟩ := p
  cases trento <;> cases phiDeg <;> cases pb <;> rcases phi with _ | f <;>
    rcases FTn with _ | n <;> rcases varphi with _ | v <;> rcases varFTn with _ | m <;>
    (try cases hn : flipsFTn n) <;> (try cases hm : flipsVar m) <;>
    simp [toConv, *] at h <;>
    subst h <;> simp

/-- the code before the repair did NOT have the property: for a Trento-frame point with `varphi` and the default
    `varFTn = -1` the measured value is left alone by `to_conventions` / `from_conventions`, but the prediction
    was negated -/
theorem orig_conventions_old_refuted :
    let q : CPt := { val := 1, errs := [], phi := none, FTn := none, varphi := some 0, varFTn := some (-1),
                     trento := true, phiDeg := false, pb := false }
    origConvOld q 1 = -1 ∧ (fromConv q).val = 1 ∧ origConv q 1 = 1 := by
  simp [origConvOld, origConv, fromConv, flipsVar]

/-- the harmonic sign table used in both directions: odd cosine harmonics and the second sine
    harmonic change sign between the Trento and BMK frames -/
theorem flipsFTn_table : (List.range 7).map (fun i => flipsFTn ((i : Int) - 3)) =
    [false, true, false, false, true, false, true] := by decide

/-- non-vacuity: a Trento point in degrees and picobarn with the second sine harmonic of varphi -/
example : ∃ q, toConv ({ val := 2, errs := [1, 3], FTn := some (-2), varFTn := some 1, trento := true, pb := true } : CPt) = some q ∧ q.val = 2 / 1000 := by
  refine ⟨_, rfl, ?_⟩
  simp [flipsFTn, flipsVar]

end Gep.R.C13

/-
  Props/C14.lean — property C14: the dispersive real parts are the principal-value dispersion
  integrals of the imaginary parts, minus/plus the subtraction constant.
  Statements over ℝ about Gen/DispR.lean (instantiation of Scalar/Disp.lean.in); helper lemmas in
  Proofs/Disp.lean.

  What the theorems carry, for every imaginary part F = `imfun`, every node/weight list `q`, every
  0 < ξ < 1:
    (1) the integrand of the code is the exact change of variables u = x^{1/(1-γ)}, γ = 0.9, of the
        subtracted integrand  2u/(ξ²-u²)·(F u - F ξ)  (resp. 2ξ/(ξ²-u²)·…), and its integral over
        [0,1] equals the integral of the subtracted integrand (no hypothesis on F);
    (2) the analytic terms log(ξ²/(1-ξ²)) and log((1+ξ)/(1-ξ)) are the principal values of the two
        kernels, and the principal value of kernel·F (defined as the limit of the symmetric
        truncation `truncInt`) exists and equals  ∫₀¹ subtracted + F ξ · log-term  whenever the
        subtracted integrand is integrable;
    (3) ReH = PV/π − C, ReE = PV/π + C, ReHt = ReEt = PV/π up to the single explicit term
        (quadrature sum − ∫₀¹ integrand)/π;  Hybrid = MB part + dispersive part of the KM ansatz.
  NOT carried by any theorem (partial; covered by the oracle stream of harness/props/C14.py): the size
  of that quadrature error for the 18-point Gauss–Legendre rule.
-/
import Gen.DispR
import Proofs.Disp
import Mathlib.Tactic.NormNum
import Mathlib.Tactic.Positivity

namespace Gep.R.C14
open Gep.R Gep.Disp Set MeasureTheory Filter Topology

/-! ### (1) the change of variables -/

/-- u = x^{1/(1-γ)}  ⇒  du/dx = x^{γ/(1-γ)}/(1-γ), for every γ and every x > 0 -/
theorem varchange_hasDerivAt (γ x : ℝ) (hx : 0 < x) :
    HasDerivAt (fun y : ℝ => y ^ (1 / (1 - γ))) (x ^ (γ / (1 - γ)) / (1 - γ)) x := by
  have h := Real.hasDerivAt_rpow_const (x := x) (p := 1 / (1 - γ)) (Or.inl hx.ne')
  by_cases hγ : 1 - γ = 0
  · simp [hγ] at h ⊢
    exact h
  · have e : 1 / (1 - γ) - 1 = γ / (1 - γ) := by field_simp; ring
    rw [e] at h
    convert h using 1
    field_simp

/-- the factor `u**ga/(1.-ga)` of the code is du/dx for the code's u(x) -/
theorem dispU_hasDerivAt (x : ℝ) (hx : 0 < x) :
    HasDerivAt dispU (kpow (dispU x) ga / (1 - ga)) x := by
  have h := varchange_hasDerivAt ga x hx
  have e : kpow (dispU x) ga = x ^ (ga / (1 - ga)) := by
    simp only [kpow, dispU, Real.rpow_eq_pow]
    rw [← Real.rpow_mul hx.le]
    congr 1
    ring
  rw [e]
  exact h

/-- `dispargV` is (subtracted integrand at u(x)) · du/dx, exactly -/
theorem dispargV_change_of_variables (imfun : ℝ → ℝ) (xi x : ℝ) (hx : 0 < x) :
    dispargV imfun xi x =
      (2 * dispU x / (xi ^ 2 - dispU x ^ 2) * (imfun (dispU x) - imfun xi)) * deriv dispU x := by
  rw [(dispU_hasDerivAt x hx).deriv]
  simp only [dispargV]
  ring

/-- `dispargA` is (subtracted integrand at u(x)) · du/dx, exactly -/
theorem dispargA_change_of_variables (imfun : ℝ → ℝ) (xi x : ℝ) (hx : 0 < x) :
    dispargA imfun xi x =
      (2 * xi / (xi ^ 2 - dispU x ^ 2) * (imfun (dispU x) - imfun xi)) * deriv dispU x := by
  rw [(dispU_hasDerivAt x hx).deriv]
  simp only [dispargA]
  ring

/-- u maps [0,1] onto [0,1] monotonically: u(0) = 0, u(1) = 1, strictly increasing on x ≥ 0 -/
theorem dispU_endpoints : dispU 0 = 0 ∧ dispU 1 = 1 ∧ StrictMonoOn dispU (Ici 0) := by
  have hp : (0:ℝ) < 1 / (1 - ga) := by norm_num [ga]
  refine ⟨?_, ?_, ?_⟩
  · simp only [dispU, kpow, Real.rpow_eq_pow]; exact Real.zero_rpow hp.ne'
  · simp only [dispU, kpow, Real.rpow_eq_pow]; exact Real.one_rpow _
  · exact Real.strictMonoOn_rpow_Ici_of_exponent_pos hp

/-- the integral over x ∈ [0,1] of the code's integrand IS the integral over u ∈ [0,1] of the
    subtracted integrand 2u/(ξ²-u²)(F u - F ξ) — for every F and ξ -/
theorem integral_dispargV (imfun : ℝ → ℝ) (xi : ℝ) :
    ∫ x in (0:ℝ)..1, dispargV imfun xi x =
      ∫ u in (0:ℝ)..1, kerV xi u * (imfun u - imfun xi) := by
  have hp : (0:ℝ) < 1 / (1 - ga) := by norm_num [ga]
  rw [← integral_comp_rpow (1 / (1 - ga)) hp (fun u => kerV xi u * (imfun u - imfun xi))]
  refine intervalIntegral.integral_congr ?_
  intro x hx
  rw [uIcc_of_le zero_le_one] at hx
  exact dispargV_eq_comp imfun xi x hx.1

theorem integral_dispargA (imfun : ℝ → ℝ) (xi : ℝ) :
    ∫ x in (0:ℝ)..1, dispargA imfun xi x =
      ∫ u in (0:ℝ)..1, kerA xi u * (imfun u - imfun xi) := by
  have hp : (0:ℝ) < 1 / (1 - ga) := by norm_num [ga]
  rw [← integral_comp_rpow (1 / (1 - ga)) hp (fun u => kerA xi u * (imfun u - imfun xi))]
  refine intervalIntegral.integral_congr ?_
  intro x hx
  rw [uIcc_of_le zero_le_one] at hx
  exact dispargA_eq_comp imfun xi x hx.1

/-- non-vacuity: at x = 1/2, ξ = 0.3 the hypotheses hold and the Jacobian is not trivial -/
example : (0:ℝ) < 1 / 2 ∧ deriv dispU (1 / 2) ≠ 0 := by
  refine ⟨by norm_num, ?_⟩
  rw [(dispU_hasDerivAt (1 / 2) (by norm_num)).deriv]
  have h1 : (0:ℝ) < dispU (1 / 2) := by
    simp only [dispU, kpow, Real.rpow_eq_pow]; positivity
  have h2 : (0:ℝ) < kpow (dispU (1 / 2)) ga := by
    simp only [kpow, Real.rpow_eq_pow]; exact Real.rpow_pos_of_pos h1 _
  have h3 : (1:ℝ) - ga ≠ 0 := by norm_num [ga]
  exact div_ne_zero h2.ne' h3

/-! ### (2) antiderivatives of the kernels, symmetric truncations, principal values -/

/-- d/dx [−log|ξ²−x²|] = 2x/(ξ²−x²) away from x = ±ξ -/
theorem antiderivative_V (ξ x : ℝ) (h : ξ ^ 2 - x ^ 2 ≠ 0) :
    HasDerivAt (fun y : ℝ => -Real.log |ξ ^ 2 - y ^ 2|) (2 * x / (ξ ^ 2 - x ^ 2)) x :=
  hasDerivAt_neg_log_V ξ x h

/-- d/dx [log|(ξ+x)/(ξ−x)|] = 2ξ/(ξ²−x²) away from x = ±ξ -/
theorem antiderivative_A (ξ x : ℝ) (h1 : ξ + x ≠ 0) (h2 : ξ - x ≠ 0) :
    HasDerivAt (fun y : ℝ => Real.log |(ξ + y) / (ξ - y)|) (2 * ξ / (ξ ^ 2 - x ^ 2)) x :=
  hasDerivAt_log_A ξ x h1 h2

/-- closed forms of the two truncated integrals of 2x/(ξ²−x²) (fundamental theorem of calculus) -/
theorem truncated_V (ξ ε : ℝ) (hε : 0 < ε) (hξ : ε < ξ) (h1 : ξ + ε < 1) :
    (∫ x in (0:ℝ)..(ξ - ε), 2 * x / (ξ ^ 2 - x ^ 2)) =
        Real.log (ξ ^ 2) - Real.log (ε * (2 * ξ - ε)) ∧
    (∫ x in (ξ + ε)..(1:ℝ), 2 * x / (ξ ^ 2 - x ^ 2)) =
        Real.log (ε * (2 * ξ + ε)) - Real.log (1 - ξ ^ 2) :=
  ⟨truncV_lower ξ ε hε hξ, truncV_upper ξ ε hε hξ h1⟩

/-- closed forms of the two truncated integrals of 2ξ/(ξ²−x²) -/
theorem truncated_A (ξ ε : ℝ) (hε : 0 < ε) (hξ : ε < ξ) (h1 : ξ + ε < 1) :
    (∫ x in (0:ℝ)..(ξ - ε), 2 * ξ / (ξ ^ 2 - x ^ 2)) = Real.log ((2 * ξ - ε) / ε) ∧
    (∫ x in (ξ + ε)..(1:ℝ), 2 * ξ / (ξ ^ 2 - x ^ 2)) =
        Real.log ((1 + ξ) / (1 - ξ)) - Real.log ((2 * ξ + ε) / ε) :=
  ⟨truncA_lower ξ ε hε hξ, truncA_upper ξ ε hε hξ h1⟩

/-- the symmetric truncation of ∫₀¹ 2x/(ξ²−x²) at finite ε: the code's log term plus a remainder -/
theorem truncated_sum_V (ξ ε : ℝ) (hε : 0 < ε) (hξ : ε < ξ) (h1 : ξ + ε < 1) :
    truncInt (fun x => 2 * x / (ξ ^ 2 - x ^ 2)) ξ ε =
      Real.log (ξ ^ 2 / (1 - ξ ^ 2)) + Real.log ((2 * ξ + ε) / (2 * ξ - ε)) :=
  truncInt_kerV ξ ε hε hξ h1

theorem truncated_sum_A (ξ ε : ℝ) (hε : 0 < ε) (hξ : ε < ξ) (h1 : ξ + ε < 1) :
    truncInt (fun x => 2 * ξ / (ξ ^ 2 - x ^ 2)) ξ ε =
      Real.log ((1 + ξ) / (1 - ξ)) - Real.log ((2 * ξ + ε) / (2 * ξ - ε)) :=
  truncInt_kerA ξ ε hε hξ h1

/-- PV ∫₀¹ 2x/(ξ²−x²) dx = log(ξ²/(1−ξ²)): the log term of `_ReV` -/
theorem pv_kernel_V (ξ : ℝ) (h0 : 0 < ξ) (h1 : ξ < 1) :
    Tendsto (truncInt (fun x => 2 * x / (ξ ^ 2 - x ^ 2)) ξ) (𝓝[>] 0)
      (𝓝 (Real.log (ξ ^ 2 / (1 - ξ ^ 2)))) :=
  truncInt_kerV_tendsto ξ h0 h1

/-- PV ∫₀¹ 2ξ/(ξ²−x²) dx = log((1+ξ)/(1−ξ)): the log term of `_ReA` -/
theorem pv_kernel_A (ξ : ℝ) (h0 : 0 < ξ) (h1 : ξ < 1) :
    Tendsto (truncInt (fun x => 2 * ξ / (ξ ^ 2 - x ^ 2)) ξ) (𝓝[>] 0)
      (𝓝 (Real.log ((1 + ξ) / (1 - ξ)))) :=
  truncInt_kerA_tendsto ξ h0 h1

/-- finite-ε subtraction identity (vector kernel): truncation of kernel·F = truncation of the
    subtracted integrand + F ξ · (log term + remainder) -/
theorem subtraction_finite_eps_V (F : ℝ → ℝ) (ξ ε : ℝ) (hε : 0 < ε) (hξ : ε < ξ) (h1 : ξ + ε < 1)
    (hg : IntervalIntegrable (fun x => kerV ξ x * (F x - F ξ)) volume 0 1) :
    truncInt (fun x => kerV ξ x * F x) ξ ε =
      truncInt (fun x => kerV ξ x * (F x - F ξ)) ξ ε +
        F ξ * (Real.log (ξ ^ 2 / (1 - ξ ^ 2)) + Real.log ((2 * ξ + ε) / (2 * ξ - ε))) := by
  rw [← truncInt_kerV ξ ε hε hξ h1]
  refine truncInt_subtract (kerV ξ) F ξ ε (F ξ) (kerV_integrable ξ ε hε hξ h1).1
    (kerV_integrable ξ ε hε hξ h1).2 (hg.mono_set ?_) (hg.mono_set ?_)
  · rw [uIcc_of_le (by linarith), uIcc_of_le zero_le_one]
    exact Icc_subset_Icc le_rfl (by linarith)
  · rw [uIcc_of_le (by linarith), uIcc_of_le zero_le_one]
    exact Icc_subset_Icc (by linarith) le_rfl

theorem subtraction_finite_eps_A (F : ℝ → ℝ) (ξ ε : ℝ) (hε : 0 < ε) (hξ : ε < ξ) (h1 : ξ + ε < 1)
    (hg : IntervalIntegrable (fun x => kerA ξ x * (F x - F ξ)) volume 0 1) :
    truncInt (fun x => kerA ξ x * F x) ξ ε =
      truncInt (fun x => kerA ξ x * (F x - F ξ)) ξ ε +
        F ξ * (Real.log ((1 + ξ) / (1 - ξ)) - Real.log ((2 * ξ + ε) / (2 * ξ - ε))) := by
  rw [← truncInt_kerA ξ ε hε hξ h1]
  refine truncInt_subtract (kerA ξ) F ξ ε (F ξ) (kerA_integrable ξ ε hε hξ h1).1
    (kerA_integrable ξ ε hε hξ h1).2 (hg.mono_set ?_) (hg.mono_set ?_)
  · rw [uIcc_of_le (by linarith), uIcc_of_le zero_le_one]
    exact Icc_subset_Icc le_rfl (by linarith)
  · rw [uIcc_of_le (by linarith), uIcc_of_le zero_le_one]
    exact Icc_subset_Icc (by linarith) le_rfl

/-- the principal value (limit of the symmetric truncation) of ∫₀¹ 2x/(ξ²−x²) F(x) dx exists and
    equals ∫₀¹ (subtracted integrand) + F ξ · log(ξ²/(1−ξ²)), whenever the subtracted integrand is
    integrable on [0,1] -/
theorem pv_V (F : ℝ → ℝ) (ξ : ℝ) (h0 : 0 < ξ) (h1 : ξ < 1)
    (hg : IntervalIntegrable (fun x => kerV ξ x * (F x - F ξ)) volume 0 1) :
    Tendsto (truncInt (fun x => kerV ξ x * F x) ξ) (𝓝[>] 0)
      (𝓝 ((∫ x in (0:ℝ)..1, kerV ξ x * (F x - F ξ)) + F ξ * Real.log (ξ ^ 2 / (1 - ξ ^ 2)))) :=
  pv_tendsto_of (kerV ξ) F ξ _ h0 h1 (kerV_integrable ξ) (truncInt_kerV_tendsto ξ h0 h1) hg

theorem pv_A (F : ℝ → ℝ) (ξ : ℝ) (h0 : 0 < ξ) (h1 : ξ < 1)
    (hg : IntervalIntegrable (fun x => kerA ξ x * (F x - F ξ)) volume 0 1) :
    Tendsto (truncInt (fun x => kerA ξ x * F x) ξ) (𝓝[>] 0)
      (𝓝 ((∫ x in (0:ℝ)..1, kerA ξ x * (F x - F ξ)) + F ξ * Real.log ((1 + ξ) / (1 - ξ)))) :=
  pv_tendsto_of (kerA ξ) F ξ _ h0 h1 (kerA_integrable ξ) (truncInt_kerA_tendsto ξ h0 h1) hg

/-- non-vacuity: a constant imaginary part c at ξ = 1/2 satisfies the integrability hypothesis;
    its principal value is c·log(1/3) -/
example (c : ℝ) : Tendsto (truncInt (fun x => kerV (1 / 2) x * (fun _ => c) x) (1 / 2)) (𝓝[>] 0)
    (𝓝 (c * Real.log ((1 / 2) ^ 2 / (1 - (1 / 2) ^ 2)))) := by
  have h := pv_V (fun _ => c) (1 / 2) (by norm_num) (by norm_num) (by simp)
  simpa using h

/-- non-vacuity with a non-constant imaginary part, F(x) = x²: the hypothesis holds and the theorem
    gives the textbook value  PV ∫₀¹ 2x·x²/(ξ²−x²) dx = −1 + ξ² log(ξ²/(1−ξ²)) -/
example (ξ : ℝ) (h0 : 0 < ξ) (h1 : ξ < 1) :
    Tendsto (truncInt (fun x => kerV ξ x * x ^ 2) ξ) (𝓝[>] 0)
      (𝓝 (-1 + ξ ^ 2 * Real.log (ξ ^ 2 / (1 - ξ ^ 2)))) := by
  have h := pv_V (fun y => y ^ 2) ξ h0 h1 (sq_subtracted_integrable ξ h0)
  rw [sq_subtracted_integral ξ h0] at h
  exact h

/-! ### (3) signs and wiring (definition level) -/

/-- the 18-point rule of the code on [0,1]: ½ Σ wᵢ f((rᵢ+1)/2) -/
theorem pvquad_eq_sum (q : Quad) (f : ℝ → ℝ) :
    pvquad q f 0 1 = 1 / 2 * (q.map (fun rw => rw.2 * f ((rw.1 + 1) / 2))).sum := by
  have gen : ∀ (l : Quad) (a : ℝ),
      l.foldl (fun acc rw => acc + rw.2 * f ((1 - 0) * (rw.1 + 1) / 2 + 0)) a =
        a + (l.map (fun rw => rw.2 * f ((rw.1 + 1) / 2))).sum := by
    intro l
    induction l with
    | nil => intro a; simp
    | cons x xs ih =>
      intro a
      simp only [List.foldl_cons, List.map_cons, List.sum_cons, ih]
      have : (1 - 0) * (x.1 + 1) / 2 + 0 = (x.1 + 1) / 2 := by ring
      rw [this]; ring
  simp only [pvquad, gen, zero_add]
  norm_num

/-- ReH = (quadrature + log term·ImH(ξ))/π − C(t) -/
theorem reH_eq (q : Quad) (imH : ℝ → ℝ) (sub xi : ℝ) (h0 : 0 < xi) (h1 : xi < 1) :
    reH q imH sub xi = .ok ((pvquad q (dispargV imH xi) 0 1 +
      Real.log (xi ^ 2 / (1 - xi ^ 2)) * imH xi) / Real.pi - sub) := by
  simp only [reH, reV, pyLogDiv_V xi h0 h1, kpi]
  congr 1; ring

/-- ReE = (quadrature + log term·ImE(ξ))/π + C(t) -/
theorem reE_eq (q : Quad) (imE : ℝ → ℝ) (sub xi : ℝ) (h0 : 0 < xi) (h1 : xi < 1) :
    reE q imE sub xi = .ok ((pvquad q (dispargV imE xi) 0 1 +
      Real.log (xi ^ 2 / (1 - xi ^ 2)) * imE xi) / Real.pi + sub) := by
  simp only [reE, reV, pyLogDiv_V xi h0 h1, kpi]
  congr 1; ring

/-- ReHt, ReEt: no subtraction -/
theorem reHt_eq (q : Quad) (imHt : ℝ → ℝ) (xi : ℝ) (h0 : 0 < xi) (h1 : xi < 1) :
    reHt q imHt xi = .ok ((pvquad q (dispargA imHt xi) 0 1 +
      Real.log ((1 + xi) / (1 - xi)) * imHt xi) / Real.pi) := by
  simp only [reHt, reA, pyLogDiv_A xi h0 h1, kpi]

theorem reEt_eq (q : Quad) (imEt : ℝ → ℝ) (xi : ℝ) (h0 : 0 < xi) (h1 : xi < 1) :
    reEt q imEt xi = .ok ((pvquad q (dispargA imEt xi) 0 1 +
      Real.log ((1 + xi) / (1 - xi)) * imEt xi) / Real.pi) := by
  simp only [reEt, reA, pyLogDiv_A xi h0 h1, kpi]

/-- the quadrature rule is a linear functional of the integrand, for any nodes, weights and interval -/
theorem pvquad_linear (q : Quad) (f g : ℝ → ℝ) (c d a b : ℝ) :
    pvquad q (fun x => c * f x + d * g x) a b = c * pvquad q f a b + d * pvquad q g a b := by
  have gen : ∀ (h : ℝ → ℝ) (l : Quad) (acc : ℝ),
      l.foldl (fun acc rw => acc + rw.2 * h ((b - a) * (rw.1 + 1) / 2 + a)) acc =
        acc + (l.map (fun rw => rw.2 * h ((b - a) * (rw.1 + 1) / 2 + a))).sum := by
    intro h l
    induction l with
    | nil => intro acc; simp
    | cons x xs ih => intro acc; simp only [List.foldl_cons, List.map_cons, List.sum_cons, ih]; ring
  unfold pvquad
  rw [gen f, gen g, gen (fun x => c * f x + d * g x)]
  simp only [zero_add]
  have hs : ∀ l : Quad,
      (l.map (fun rw => rw.2 * (c * f ((b - a) * (rw.1 + 1) / 2 + a) + d * g ((b - a) * (rw.1 + 1) / 2 + a)))).sum =
      c * (l.map (fun rw => rw.2 * f ((b - a) * (rw.1 + 1) / 2 + a))).sum +
      d * (l.map (fun rw => rw.2 * g ((b - a) * (rw.1 + 1) / 2 + a))).sum := by
    intro l
    induction l with
    | nil => simp
    | cons x xs ih => simp only [List.map_cons, List.sum_cons, ih]; ring
  rw [hs]; ring

/-- the subtracted integrands are linear in the imaginary part -/
theorem disparg_linear (F G : ℝ → ℝ) (c d xi x : ℝ) :
    dispargV (fun y => c * F y + d * G y) xi x = c * dispargV F xi x + d * dispargV G xi x ∧
    dispargA (fun y => c * F y + d * G y) xi x = c * dispargA F xi x + d * dispargA G xi x := by
  simp only [dispargV, dispargA]
  constructor <;> ring

/-- **the dispersive real part is linear in the imaginary part** (fixed ξ; subtraction set aside): the real part of
    c·F + d·G is c·Re F + d·Re G, for the vector and for the axial kernel — so valence and sea contributions, or the
    flavour decomposition of an imaginary part, may be dispersed separately -/
theorem reV_reA_linear (q : Quad) (F G : ℝ → ℝ) (c d xi : ℝ) (h0 : 0 < xi) (h1 : xi < 1) :
    ∃ vF vG aF aG, reH q F 0 xi = .ok vF ∧ reH q G 0 xi = .ok vG ∧
      reH q (fun y => c * F y + d * G y) 0 xi = .ok (c * vF + d * vG) ∧
      reHt q F xi = .ok aF ∧ reHt q G xi = .ok aG ∧
      reHt q (fun y => c * F y + d * G y) xi = .ok (c * aF + d * aG) := by
  refine ⟨_, _, _, _, reH_eq q F 0 xi h0 h1, reH_eq q G 0 xi h0 h1, ?_, reHt_eq q F xi h0 h1,
    reHt_eq q G xi h0 h1, ?_⟩
  · rw [reH_eq q _ 0 xi h0 h1]
    have : dispargV (fun y => c * F y + d * G y) xi = fun x => c * dispargV F xi x + d * dispargV G xi x := by
      funext x; exact (disparg_linear F G c d xi x).1
    rw [this, pvquad_linear]; congr 1; ring
  · rw [reHt_eq q _ xi h0 h1]
    have : dispargA (fun y => c * F y + d * G y) xi = fun x => c * dispargA F xi x + d * dispargA G xi x := by
      funext x; exact (disparg_linear F G c d xi x).2
    rw [this, pvquad_linear]; congr 1; ring

/-- **the subtraction constant drops out of H + E**: Re H carries −C(t), Re E carries +C(t) -/
theorem subtraction_cancels_in_H_plus_E (q : Quad) (F G : ℝ → ℝ) (C xi : ℝ) (h0 : 0 < xi) (h1 : xi < 1) :
    ∃ vH vE vH0 vE0, reH q F C xi = .ok vH ∧ reE q G C xi = .ok vE ∧
      reH q F 0 xi = .ok vH0 ∧ reE q G 0 xi = .ok vE0 ∧ vH + vE = vH0 + vE0 ∧ vH0 - vH = C ∧ vE - vE0 = C := by
  refine ⟨_, _, _, _, reH_eq q F C xi h0 h1, reE_eq q G C xi h0 h1, reH_eq q F 0 xi h0 h1,
    reE_eq q G 0 xi h0 h1, ?_, ?_, ?_⟩ <;> ring

/-- the property for H, with the only non-exact ingredient isolated: for integrable subtracted
    integrand the principal value PV exists and
      ReH = PV/π − C + (quadrature sum − ∫₀¹ integrand)/π -/
theorem reH_is_pv_minus_subtraction (q : Quad) (F : ℝ → ℝ) (C xi : ℝ) (h0 : 0 < xi) (h1 : xi < 1)
    (hg : IntervalIntegrable (fun x => kerV xi x * (F x - F xi)) volume 0 1) :
    ∃ PV, Tendsto (truncInt (fun x => 2 * x / (xi ^ 2 - x ^ 2) * F x) xi) (𝓝[>] 0) (𝓝 PV) ∧
      reH q F C xi = .ok (PV / Real.pi - C +
        (pvquad q (dispargV F xi) 0 1 - ∫ x in (0:ℝ)..1, dispargV F xi x) / Real.pi) := by
  refine ⟨_, pv_V F xi h0 h1 hg, ?_⟩
  rw [reH_eq q F C xi h0 h1, integral_dispargV]
  congr 1; ring

/-- … for E:  ReE = PV/π + C + (quadrature error)/π -/
theorem reE_is_pv_plus_subtraction (q : Quad) (F : ℝ → ℝ) (C xi : ℝ) (h0 : 0 < xi) (h1 : xi < 1)
    (hg : IntervalIntegrable (fun x => kerV xi x * (F x - F xi)) volume 0 1) :
    ∃ PV, Tendsto (truncInt (fun x => 2 * x / (xi ^ 2 - x ^ 2) * F x) xi) (𝓝[>] 0) (𝓝 PV) ∧
      reE q F C xi = .ok (PV / Real.pi + C +
        (pvquad q (dispargV F xi) 0 1 - ∫ x in (0:ℝ)..1, dispargV F xi x) / Real.pi) := by
  refine ⟨_, pv_V F xi h0 h1 hg, ?_⟩
  rw [reE_eq q F C xi h0 h1, integral_dispargV]
  congr 1; ring

/-- … for Ht (and Et where it is dispersive): ReHt = PV/π + (quadrature error)/π, kernel 2ξ/(ξ²−x²) -/
theorem reHt_is_pv (q : Quad) (F : ℝ → ℝ) (xi : ℝ) (h0 : 0 < xi) (h1 : xi < 1)
    (hg : IntervalIntegrable (fun x => kerA xi x * (F x - F xi)) volume 0 1) :
    ∃ PV, Tendsto (truncInt (fun x => 2 * xi / (xi ^ 2 - x ^ 2) * F x) xi) (𝓝[>] 0) (𝓝 PV) ∧
      reHt q F xi = .ok (PV / Real.pi +
        (pvquad q (dispargA F xi) 0 1 - ∫ x in (0:ℝ)..1, dispargA F xi x) / Real.pi) ∧
      reEt q F xi = reHt q F xi := by
  refine ⟨_, pv_A F xi h0 h1 hg, ?_, rfl⟩
  rw [reHt_eq q F xi h0 h1, integral_dispargA]
  congr 1; ring

/-- outside 0 < ξ < 1 the code raises: ZeroDivisionError at ξ = 1, ValueError for ξ > 1 -/
theorem reV_reA_errors (q : Quad) (F : ℝ → ℝ) (C s xi : ℝ) :
    (xi = 1 → reV q F C xi s = .zeroDivisionError ∧ reA q F xi = .zeroDivisionError) ∧
    (1 < xi → reV q F C xi s = .valueError ∧ reA q F xi = .valueError) := by
  constructor
  · rintro rfl
    simp [reV, reA, pyLogDiv]
  · intro h
    have a : 1 - xi ^ 2 < 0 := by nlinarith
    have b : 1 - xi < 0 := by linarith
    have c : ¬ 0 < xi ^ 2 / (1 - xi ^ 2) := by
      rw [not_lt]; exact div_nonpos_of_nonneg_of_nonpos (by positivity) a.le
    have d : ¬ 0 < (1 + xi) / (1 - xi) := by
      rw [not_lt]; exact div_nonpos_of_nonneg_of_nonpos (by linarith) b.le
    simp [reV, reA, pyLogDiv, a, b, c, d]

/-- the KM models: ReH and ReE use the same subtraction constant C/(1−t/mC²)² with opposite signs,
    ImE = 0 so that ReE = +C(t) exactly; Ht without subtraction -/
theorem km_wiring (q : Quad) (p : KMPar) (t xi : ℝ) (n : Bool) (h0 : 0 < xi) (h1 : xi < 1) :
    kmReH q p t n xi = .ok ((pvquad q (dispargV (kmImH p t n) xi) 0 1 +
        Real.log (xi ^ 2 / (1 - xi ^ 2)) * kmImH p t n xi) / Real.pi - p.C / (1 - t / p.mC2) ^ 2) ∧
    kmReE q p t xi = .ok (p.C / (1 - t / p.mC2) ^ 2) ∧
    kmReHt q p t n xi = .ok ((pvquad q (dispargA (kmImHt p t n) xi) 0 1 +
        Real.log ((1 + xi) / (1 - xi)) * kmImHt p t n xi) / Real.pi) := by
  refine ⟨?_, ?_, ?_⟩
  · simp only [kmReH, reH_eq q _ _ xi h0 h1, kmSubtraction]
  · simp only [kmReE, reE_eq q _ _ xi h0 h1, kmSubtraction]
    have z : pvquad q (dispargV kmImE xi) 0 1 = 0 := by
      rw [pvquad_eq_sum]
      have : ∀ l : Quad, (l.map (fun rw => rw.2 * dispargV kmImE xi ((rw.1 + 1) / 2))).sum = 0 := by
        intro l
        induction l with
        | nil => simp
        | cons x xs _ => simp [dispargV, kmImE]
      rw [this]; ring
    rw [z]
    simp [kmImE]
  · simp only [kmReHt, reHt_eq q _ xi h0 h1]

/-- Hybrid = Mellin–Barnes part + dispersive part, the dispersive part being the plain
    DispersionFixedPoleCFF real part of the KM imaginary part (the MB part does not enter imfun) -/
theorem hybrid_is_sum (mbH mbE : ℝ) (q : Quad) (p : KMPar) (t xi : ℝ) (n : Bool)
    (h0 : 0 < xi) (h1 : xi < 1) :
    (∃ d, kmReH q p t n xi = .ok d ∧ hybridReH mbH q p t n xi = .ok (mbH + d)) ∧
    (∃ d, kmReE q p t xi = .ok d ∧ hybridReE mbE q p t xi = .ok (mbE + d)) ∧
    hybridReHt q p t n xi = kmReHt q p t n xi := by
  refine ⟨⟨_, (km_wiring q p t xi n h0 h1).1, ?_⟩, ⟨_, (km_wiring q p t xi n h0 h1).2.1, ?_⟩, rfl⟩
  · have h := (km_wiring q p t xi n h0 h1).1
    simp only [kmReH] at h
    simp only [hybridReH, h, addMB]
  · have h := (km_wiring q p t xi n h0 h1).2.1
    simp only [kmReE] at h
    simp only [hybridReE, h, addMB]

/-- non-vacuity of the wiring theorems: a two-node rule, ξ = 1/2 -/
example : ∃ v, reH [(0, 1), (1 / 2, 1)] (fun x => x) 3 (1 / 2) = .ok v :=
  ⟨_, reH_eq _ _ _ _ (by norm_num) (by norm_num)⟩

end Gep.R.C14

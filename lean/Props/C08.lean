/-
  Props/C08.lean — property C08: harmonic and integrated observables equal integrals of the
  differential ones.

  FULL STATEMENT (not provable here, kept for reference):
    for a point carrying a harmonic index n (|n| ≤ 3) instead of φ, every observable O equals, to
    per-cent-of-scale accuracy, the Fourier coefficient  (1/π)∫₀^{2π} O(φ) cos nφ dφ  (n > 0),
    (1/π)∫₀^{2π} O(φ) sin |n|φ dφ  (n < 0),  (1/2π)∫₀^{2π} O(φ) dφ  (n = 0);  ∫₀^{2π} w_BH dφ = 2π;
    XGAMMA without t equals ∫_{-t_cut}^{0} dσ/dt dt;  for vanishing axial CFFs the φ-integrated pure-DVCS
    cross section equals  Γ_T · dσ(γ* p → γ p)/dt.
  The ACCURACY of the 10- and 5-point Gauss–Legendre rules on the actual (non-polynomial) integrands is a
  numerical-analysis statement outside these theorems: it is carried by the oracle stream of
  harness/props/C08.py.  Proved here, over ℝ, for all inputs:
    (1) ∫₀^{2π} weight_BH dφ = 2π on the generated model of kinematics.py;
    (2) the model of `_phiharmonic` with the EXACT integral as integrator returns the Fourier
        coefficients of any trigonometric polynomial (any degree N ≥ |n|; explicit form for N = 3) with the
        code's normalisation and sine sign;
    (3) definition-level: XSintphi = 2π × (n = 0 harmonic of XUU) = the quadrature sum itself;
        XGAMMA without t = the quadrature of the differential one over [−tmmax, 0] (5-point sum spelled out);
        a rule with Σ weights = 2 is exact on φ-independent integrands;
    (4) flux identity on the generated model of dvcs.py / bmk.py: exact for hotfixedBMK, BM10, BM10tw2; for
        BMK and BM10ex with the explicit closed-form ratios.
-/
import Proofs.Harm
import Proofs.HarmBH
import Proofs.HarmFlux

namespace Gep.R.C08
open Real intervalIntegral Gep.R Gep.R.Harm Gep.R.HarmTrig Gep.R.HarmBH Gep.R.HarmFlux

set_option maxRecDepth 4000

/-! ### (1) the BH-propagator weight integrates to 2π -/

/-- For every point that `prepare` maps inside the physical region (K² ≥ 0, y ≠ 0, 1+ε² ≠ 0, non-vanishing
    ∫P1P2): the weight `weight_BH` of kinematics.py, evaluated as `DVCS.XS(pt, vars={'phi': φ}, weighted=True)`
    does — on `prepare` of the point with azimuth φ, i.e. with P1P2 recomputed at φ — integrates to 2π. -/
theorem weight_BH_integrates_to_two_pi (c : Consts) (pt : Pt)
    (hK : 0 ≤ (prepare c pt).K2) (h0 : (prepare c pt).intP1P2 ≠ 0)
    (hy : (prepare c pt).y ≠ 0) (he : 1 + (prepare c pt).eps2 ≠ 0) :
    ∫ φ in (0:ℝ)..2 * π, weight_BH c (prepare c { pt with phi := φ }) = 2 * π := by
  simp_rw [prepare_atPhi]
  exact integral_weight_BH c (prepare c pt) rfl hK rfl h0 hy he

/-- the identity behind it: the closed form `anintP1P2` IS the integral of the propagator product -/
theorem anintP1P2_is_the_integral (c : Consts) (pt : Pt)
    (hK2 : pt.K2 = K2 c pt.Q2 pt.xB pt.t pt.y pt.eps2) (hK : 0 ≤ pt.K2)
    (hy : pt.y ≠ 0) (he : 1 + pt.eps2 ≠ 0) :
    ∫ φ in (0:ℝ)..2 * π, P1P2 c { pt with phi := φ } = anintP1P2 c pt :=
  integral_P1P2 c pt hK2 hK hy he

/-- non-vacuity: a concrete point (massless target so that ε² = 0: Q² = 1, xB = 1/2, t = −1/2, W = 1, s = 4,
    hence y = 1/2, K² = 3/32) satisfies the hypotheses -/
example : ∃ (c : Consts) (pt : Pt), 0 ≤ (prepare c pt).K2 ∧ (prepare c pt).intP1P2 ≠ 0 ∧
    (prepare c pt).y ≠ 0 ∧ 1 + (prepare c pt).eps2 ≠ 0 := by
  refine ⟨⟨0, 0, 1, 1⟩, { Pt.zero with Q2 := 1, xB := 1/2, t := -1/2, W := 1, s := 4 }, ?_⟩
  have hy : (prepare ⟨0, 0, 1, 1⟩ { Pt.zero with Q2 := 1, xB := 1/2, t := -1/2, W := 1, s := 4 }).y = 1/2 := by
    simp only [prepare]; norm_num
  have he : (prepare ⟨0, 0, 1, 1⟩ { Pt.zero with Q2 := 1, xB := 1/2, t := -1/2, W := 1, s := 4 }).eps2 = 0 := by
    simp only [prepare]; norm_num
  have hK : (prepare ⟨0, 0, 1, 1⟩ { Pt.zero with Q2 := 1, xB := 1/2, t := -1/2, W := 1, s := 4 }).K2 = 3/32 := by
    simp only [prepare, K2, tmin, ksqrt]; norm_num
  have hI : (prepare ⟨0, 0, 1, 1⟩ { Pt.zero with Q2 := 1, xB := 1/2, t := -1/2, W := 1, s := 4 }).intP1P2
      = -2 * π * (47/64) / (1/2) ^ 2 := by
    have : (prepare ⟨0, 0, 1, 1⟩ { Pt.zero with Q2 := 1, xB := 1/2, t := -1/2, W := 1, s := 4 }).intP1P2 =
        anintP1P2 ⟨0, 0, 1, 1⟩ (prepare ⟨0, 0, 1, 1⟩ { Pt.zero with Q2 := 1, xB := 1/2, t := -1/2, W := 1, s := 4 }) := rfl
    rw [this]
    simp only [anintP1P2, hy, he, hK, kpi]
    simp only [prepare]
    norm_num
  refine ⟨by rw [hK]; norm_num, ?_, by rw [hy]; norm_num, by rw [he]; norm_num⟩
  rw [hI]
  have := Real.pi_pos
  have h : -2 * π * (47/64) / (1/2) ^ 2 = -(47/8) * π := by ring
  rw [h]; linarith

/-! ### (2) the harmonic projector with the exact integral
  `_partial`: the property's clause is about the code's 10-point rule on the real observables; what is
  proved is the same model text with the exact integral as integrator (normalisation, sine sign, branch
  order).  Missing: a bound on |glquad − ∫| for the actual integrands (no Gauss–Legendre error theory
  in Mathlib; the integrands have the BH propagators in denominators) — oracle stream. -/

/-- `_phiharmonic` (model `Harm.phiharmonic`, the integrator being the exact integral instead of
    Hquadrature) applied to  a 0 + Σ_{k=1}^{N} (a k cos kφ + b k sin kφ):
    FTn = n > 0 returns a n  (normalisation 1/π, weight cos(FTn·φ)) -/
theorem phiharmonic_fourier_cos_partial (a b : ℕ → ℝ) (N n : ℕ) (hn : 1 ≤ n) (hN : n ≤ N) :
    phiharmonic exactInt (.ftn (n : ℝ)) (trigPoly a b N) = .ok (a n) :=
  harm_exact_cos a b N n hn hN

/-- FTn = −n < 0 returns b n  (normalisation 1/π, weight sin(−FTn·φ) = + sin nφ) -/
theorem phiharmonic_fourier_sin_partial (a b : ℕ → ℝ) (N n : ℕ) (hn : 1 ≤ n) (hN : n ≤ N) :
    phiharmonic exactInt (.ftn (-(n : ℝ))) (trigPoly a b N) = .ok (b n) :=
  harm_exact_sin a b N n hn hN

/-- FTn = 0 returns the mean a 0  (normalisation 1/2π) -/
theorem phiharmonic_fourier_mean_partial (a b : ℕ → ℝ) (N : ℕ) :
    phiharmonic exactInt (.ftn 0) (trigPoly a b N) = .ok (a 0) :=
  harm_exact_zero a b N

/-- the explicit form for the orders the formulas generate:
    f(φ) = a₀ + a₁cos φ + b₁ sin φ + a₂ cos 2φ + b₂ sin 2φ + a₃ cos 3φ + b₃ sin 3φ -/
theorem phiharmonic_fourier_trig3_partial (a0 a1 b1 a2 b2 a3 b3 : ℝ) :
    phiharmonic exactInt (.ftn 0) (trig3 a0 a1 b1 a2 b2 a3 b3) = .ok a0 ∧
    phiharmonic exactInt (.ftn 1) (trig3 a0 a1 b1 a2 b2 a3 b3) = .ok a1 ∧
    phiharmonic exactInt (.ftn 2) (trig3 a0 a1 b1 a2 b2 a3 b3) = .ok a2 ∧
    phiharmonic exactInt (.ftn 3) (trig3 a0 a1 b1 a2 b2 a3 b3) = .ok a3 ∧
    phiharmonic exactInt (.ftn (-1)) (trig3 a0 a1 b1 a2 b2 a3 b3) = .ok b1 ∧
    phiharmonic exactInt (.ftn (-2)) (trig3 a0 a1 b1 a2 b2 a3 b3) = .ok b2 ∧
    phiharmonic exactInt (.ftn (-3)) (trig3 a0 a1 b1 a2 b2 a3 b3) = .ok b3 := by
  rw [trig3_eq]
  refine ⟨?_, ?_, ?_, ?_, ?_, ?_, ?_⟩
  · simpa [seq3] using harm_exact_zero (seq3 a0 a1 a2 a3) (seq3 0 b1 b2 b3) 3
  · simpa [seq3] using harm_exact_cos (seq3 a0 a1 a2 a3) (seq3 0 b1 b2 b3) 3 1 (by norm_num) (by norm_num)
  · simpa [seq3] using harm_exact_cos (seq3 a0 a1 a2 a3) (seq3 0 b1 b2 b3) 3 2 (by norm_num) (by norm_num)
  · simpa [seq3] using harm_exact_cos (seq3 a0 a1 a2 a3) (seq3 0 b1 b2 b3) 3 3 (by norm_num) (by norm_num)
  · simpa [seq3] using harm_exact_sin (seq3 a0 a1 a2 a3) (seq3 0 b1 b2 b3) 3 1 (by norm_num) (by norm_num)
  · simpa [seq3] using harm_exact_sin (seq3 a0 a1 a2 a3) (seq3 0 b1 b2 b3) 3 2 (by norm_num) (by norm_num)
  · simpa [seq3] using harm_exact_sin (seq3 a0 a1 a2 a3) (seq3 0 b1 b2 b3) 3 3 (by norm_num) (by norm_num)

/-- a point with neither φ nor FTn is rejected, whatever the integrator -/
theorem phiharmonic_neither (Q : (ℝ → ℝ) → ℝ → ℝ → ℝ) (f : ℝ → ℝ) :
    phiharmonic Q .neither f = .valueError := rfl

/-- non-vacuity / sign convention at a glance: f = sin φ has FTn = −1 harmonic +1 and FTn = +1 harmonic 0 -/
example : phiharmonic exactInt (.ftn (-1)) (trig3 0 0 1 0 0 0 0) = .ok 1 ∧
    phiharmonic exactInt (.ftn 1) (trig3 0 0 1 0 0 0 0) = .ok 0 :=
  ⟨(phiharmonic_fourier_trig3_partial 0 0 1 0 0 0 0).2.2.2.2.1, (phiharmonic_fourier_trig3_partial 0 0 1 0 0 0 0).2.1⟩

/-! ### (3) definition-level relations between the integrated observables -/

/-- XSintphi of a point without φ is 2π × the FTn = 0 harmonic of XUU, i.e. the Hquadrature sum itself -/
theorem xsintphi_is_two_pi_times_mean (Q : (ℝ → ℝ) → ℝ → ℝ → ℝ) (xuu : ℝ → ℝ) :
    (∃ v, phiharmonic Q (.ftn 0) xuu = .ok v ∧ xsintphi Q none xuu = .ok (2 * π * v)) ∧
    xsintphi Q none xuu = .ok (Q xuu 0 (2 * π)) := by
  have h1 : ¬ ((0:ℝ) < 0) := lt_irrefl _
  have h2 : (0:ℝ) ≤ 0 ∧ (0:ℝ) ≤ 0 := ⟨le_refl _, le_refl _⟩
  have hpi : π ≠ 0 := Real.pi_ne_zero
  constructor
  · refine ⟨Q xuu 0 (2 * π) / 2 / π, ?_, ?_⟩ <;>
      simp only [xsintphi, phiharmonic, if_neg h1, gt_iff_lt, if_pos h2, kpi]
  · simp only [xsintphi, phiharmonic, if_neg h1, gt_iff_lt, if_pos h2, kpi]
    congr 1
    field_simp

/-- XGAMMA of a point without t is the t-quadrature of the differential cross section over
    t ∈ [−tmmax, 0] (tmmax = 1 when absent); with the 5-point rule it is the 5-term sum written out;
    with the exact integral as integrator it is ∫_{−tmmax}^{0} dσ/dt dt;  with t it is dσ/dt itself -/
theorem xgamma_total_partial (x1 w1 x2 w2 x3 w3 x4 w4 x5 w5 T : ℝ) (tmmax : Option ℝ) (dsdt : ℝ → ℝ)
    (hT : T = tmmax.getD 1) :
    xgamma (glquad [(x1, w1), (x2, w2), (x3, w3), (x4, w4), (x5, w5)]) none tmmax dsdt =
      (0 - -T) / 2 * (0 + w1 * dsdt ((0 - -T) * (x1 + 1) / 2 + -T) + w2 * dsdt ((0 - -T) * (x2 + 1) / 2 + -T)
        + w3 * dsdt ((0 - -T) * (x3 + 1) / 2 + -T) + w4 * dsdt ((0 - -T) * (x4 + 1) / 2 + -T)
        + w5 * dsdt ((0 - -T) * (x5 + 1) / 2 + -T)) ∧
    xgamma exactInt none tmmax dsdt = ∫ t in (-T)..0, dsdt t ∧
    ∀ t Q, xgamma Q (some t) tmmax dsdt = dsdt t := by
  subst hT
  cases tmmax <;> exact ⟨rfl, rfl, fun _ _ => rfl⟩

/-- a quadrature rule whose weights sum to 2 reproduces a φ-independent cross section exactly:
    the FTn = 0 harmonic is the value, XSintphi is 2π times it -/
theorem phi_independent_exact (q : Quad) (C : ℝ) (hw : (q.map Prod.snd).sum = 2) :
    phiharmonic (glquad q) (.ftn 0) (fun _ => C) = .ok C ∧
    xsintphi (glquad q) none (fun _ => C) = .ok (2 * π * C) :=
  ⟨harm_const q C hw, xsintphi_const q C hw⟩

/-- the same without any hypothesis on the weights (as floats the weights of the 10-point rule sum to 2 − 8·10⁻¹⁷, not
    to 2, so the statement above is about the exact rule): a φ-independent cross section comes back multiplied by
    Σw/2  (statement from the independent audit) -/
theorem phi_independent_general (q : Quad) (C : ℝ) :
    phiharmonic (glquad q) (.ftn 0) (fun _ => C) = .ok (C * (q.map Prod.snd).sum / 2) := by
  have h1 : ¬ ((0:ℝ) < 0) := lt_irrefl _
  have h2 : (0:ℝ) ≤ 0 ∧ (0:ℝ) ≤ 0 := ⟨le_refl _, le_refl _⟩
  have hpi : π ≠ 0 := Real.pi_ne_zero
  simp only [phiharmonic, if_neg h1, gt_iff_lt, if_pos h2, glquad, Harm.foldl_const, kpi]
  congr 1
  field_simp
  ring

/-- non-vacuity: the 2-point Gauss–Legendre rule has weights 1, 1 -/
example : (([((-1:ℝ) / 3, (1:ℝ)), (1 / 3, 1)] : Quad).map Prod.snd).sum = 2 := by norm_num

/-! ### (4) flux identity -/

/-- hotfixedBMK, BM10, BM10tw2 — EXACT.  With `c_lit` := the literal 65.14079453579676 of `_XGAMMA_DVCS_t_Ex`
    equal to π α² GeV2nb (it is, to 2 ulp: π·0.0072973525205055605²·389379 = 65.14079453579674), ε² as
    `prepare` computes it, and only H, E non-zero:
        2π · PreFacSigma · TDVCS2unp  =  HandFlux · _XGAMMA_DVCS_t_Ex. -/
theorem flux_identity_exact (c : Consts) (m : CFFs) (pt : Pt)
    (hlit : (65.14079453579676 : ℝ) = π * c.alpha ^ 2 * c.GeV2nb)
    (heps : pt.eps2 = 4 * pt.xB ^ 2 * c.Mp2 / pt.Q2)
    (hy : pt.y ≠ 0) (he : 0 < 1 + pt.eps2)
    (hD : 1 - pt.y + pt.y ^ 2 / 2 + pt.eps2 * pt.y ^ 2 / 4 ≠ 0)
    (hx : pt.xB ≠ 0) (hx1 : 1 - pt.xB ≠ 0) (hx2 : 2 - pt.xB ≠ 0) (hQ : pt.Q2 ≠ 0) :
    2 * π * DVCS.PreFacSigma c (vecOnly m) pt * FS_hotfixedBMK_TDVCS2unp c (vecOnly m) pt =
      HandFlux c pt * DVCS._XGAMMA_DVCS_t_Ex c (vecOnly m) pt ∧
    2 * π * DVCS.PreFacSigma c (vecOnly m) pt * FS_BM10_TDVCS2unp c (vecOnly m) pt =
      HandFlux c pt * DVCS._XGAMMA_DVCS_t_Ex c (vecOnly m) pt ∧
    2 * π * DVCS.PreFacSigma c (vecOnly m) pt * FS_BM10tw2_TDVCS2unp c (vecOnly m) pt =
      HandFlux c pt * DVCS._XGAMMA_DVCS_t_Ex c (vecOnly m) pt := by
  have h := flux_hotfixed c m pt hlit heps hy he hD hx hx1 hx2 hQ
  obtain ⟨h1, h2⟩ := TDVCS2unp_BM10_vecOnly c m pt
  exact ⟨h, by rw [h1]; exact h, by rw [h2]; exact h⟩

/-- the flux identity WITHOUT the hypothesis on the literal: the constant 65.14079453579676 written into
    `_XGAMMA_DVCS_t_Ex` cannot equal π α² GeV2nb exactly for the code's rational constants (π is irrational:
    lean/Audit/C08_hlit.lean), so `flux_identity_exact` above is a statement about an idealised constant.  What holds
    for every α ≠ 0 and GeV2nb is the identity with both constants carried along:
        literal · (2π · PreFacSigma · TDVCS2unp)  =  (π α² GeV2nb) · (HandFlux · _XGAMMA_DVCS_t_Ex),
    i.e. the two sides of the property differ by the factor literal/(π α² GeV2nb) = 1 + 3·10⁻¹⁶ (measured by the harness).
    (statement and proof from the independent audit) -/
theorem flux_identity_with_literal (c : Consts) (m : CFFs) (pt : Pt)
    (ha : c.alpha ≠ 0)
    (heps : pt.eps2 = 4 * pt.xB ^ 2 * c.Mp2 / pt.Q2)
    (hy : pt.y ≠ 0) (he : 0 < 1 + pt.eps2)
    (hD : 1 - pt.y + pt.y ^ 2 / 2 + pt.eps2 * pt.y ^ 2 / 4 ≠ 0)
    (hx : pt.xB ≠ 0) (hx1 : 1 - pt.xB ≠ 0) (hx2 : 2 - pt.xB ≠ 0) (hQ : pt.Q2 ≠ 0) :
    (65.14079453579676 : ℝ) * (2 * π * DVCS.PreFacSigma c (vecOnly m) pt * FS_hotfixedBMK_TDVCS2unp c (vecOnly m) pt) =
      (π * c.alpha ^ 2 * c.GeV2nb) * (HandFlux c pt * DVCS._XGAMMA_DVCS_t_Ex c (vecOnly m) pt) := by
  have hpi : π ≠ 0 := Real.pi_ne_zero
  let c' : Consts := { c with GeV2nb := 65.14079453579676 / (π * c.alpha ^ 2) }
  have hlit : (65.14079453579676 : ℝ) = π * c'.alpha ^ 2 * c'.GeV2nb := by
    show (65.14079453579676 : ℝ) = π * c.alpha ^ 2 * (65.14079453579676 / (π * c.alpha ^ 2))
    field_simp
  have h := flux_hotfixed c' m pt hlit heps hy he hD hx hx1 hx2 hQ
  have e1 : FS_hotfixedBMK_TDVCS2unp c' (vecOnly m) pt = FS_hotfixedBMK_TDVCS2unp c (vecOnly m) pt := rfl
  have e2 : HandFlux c' pt = HandFlux c pt := rfl
  have e3 : DVCS._XGAMMA_DVCS_t_Ex c' (vecOnly m) pt = DVCS._XGAMMA_DVCS_t_Ex c (vecOnly m) pt := rfl
  rw [e1, e2, e3] at h
  rw [← h, PreFacSigma_eq, PreFacSigma_eq]
  show _ = π * c.alpha ^ 2 * c.GeV2nb * (2 * π * (c.alpha ^ 3 * pt.xB * pt.y ^ 2 / (8 * π * pt.Q2 ^ 2 * ksqrt (1 + pt.eps2)) * (65.14079453579676 / (π * c.alpha ^ 2))) * _)
  field_simp


/-- … and so does XSintphi as the code computes it (any rule with Σ weights = 2) for pure DVCS: the
    integrand PreFacSigma·TDVCS2unp does not depend on φ -/
theorem xsintphi_pure_dvcs_hotfixed (q : Quad) (hw : (q.map Prod.snd).sum = 2) (c : Consts) (m : CFFs) (pt : Pt)
    (hlit : (65.14079453579676 : ℝ) = π * c.alpha ^ 2 * c.GeV2nb)
    (heps : pt.eps2 = 4 * pt.xB ^ 2 * c.Mp2 / pt.Q2)
    (hy : pt.y ≠ 0) (he : 0 < 1 + pt.eps2)
    (hD : 1 - pt.y + pt.y ^ 2 / 2 + pt.eps2 * pt.y ^ 2 / 4 ≠ 0)
    (hx : pt.xB ≠ 0) (hx1 : 1 - pt.xB ≠ 0) (hx2 : 2 - pt.xB ≠ 0) (hQ : pt.Q2 ≠ 0) :
    xsintphi (glquad q) none
        (fun φ => DVCS.PreFacSigma c (vecOnly m) (atPhi c pt φ) * FS_hotfixedBMK_TDVCS2unp c (vecOnly m) (atPhi c pt φ)) =
      .ok (HandFlux c pt * DVCS._XGAMMA_DVCS_t_Ex c (vecOnly m) pt) := by
  have hc : (fun φ => DVCS.PreFacSigma c (vecOnly m) (atPhi c pt φ) *
        FS_hotfixedBMK_TDVCS2unp c (vecOnly m) (atPhi c pt φ)) =
      fun _ => DVCS.PreFacSigma c (vecOnly m) pt * FS_hotfixedBMK_TDVCS2unp c (vecOnly m) pt := rfl
  rw [hc, xsintphi_const q _ hw, ← (flux_identity_exact c m pt hlit heps hy he hD hx hx1 hx2 hQ).1]
  congr 1
  ring

/-- BMK — the y-dependent factor lacks the ε² terms:  = HandFlux · σ · (1+ε²)(2−2y+y²)/(2−2y+y²+ε²y²/2) -/
theorem flux_identity_BMK (c : Consts) (m : CFFs) (pt : Pt)
    (hlit : (65.14079453579676 : ℝ) = π * c.alpha ^ 2 * c.GeV2nb)
    (heps : pt.eps2 = 4 * pt.xB ^ 2 * c.Mp2 / pt.Q2)
    (hy : pt.y ≠ 0) (he : 0 < 1 + pt.eps2)
    (hD : 1 - pt.y + pt.y ^ 2 / 2 + pt.eps2 * pt.y ^ 2 / 4 ≠ 0)
    (hx : pt.xB ≠ 0) (hx1 : 1 - pt.xB ≠ 0) (hx2 : 2 - pt.xB ≠ 0) (hQ : pt.Q2 ≠ 0) :
    2 * π * DVCS.PreFacSigma c (vecOnly m) pt * FS_BMK_TDVCS2unp c (vecOnly m) pt =
      HandFlux c pt * DVCS._XGAMMA_DVCS_t_Ex c (vecOnly m) pt * ratioBMK pt.y pt.eps2 ∧
    ratioBMK pt.y pt.eps2 = (1 + pt.eps2) * (2 - 2 * pt.y + pt.y ^ 2) / (2 - 2 * pt.y + pt.y ^ 2 + pt.eps2 * pt.y ^ 2 / 2) ∧
    ratioBMK pt.y 0 = 1 := by
  refine ⟨?_, rfl, ?_⟩
  · rw [TDVCS2unp_BMK_vs_hotfixed c (vecOnly m) pt (ne_of_gt he) hD,
      ← (flux_identity_exact c m pt hlit heps hy he hD hx hx1 hx2 hQ).1]
    ring
  · have h0 : 2 - 2 * pt.y + pt.y ^ 2 ≠ 0 := by nlinarith [sq_nonneg (pt.y - 1)]
    simp only [ratioBMK, add_zero, zero_mul, zero_div, one_mul]
    exact div_self h0

/-- BM10ex — t/Q² terms in 𝒞^DVCS: = HandFlux · σ_ρ, the photoproduction formula with its |H|² structure
    rescaled by ρ_H = (1+τxB)(2−xB)²/(2−xB+τxB)² and its xB²(|E|²+2Re E H*) structure by
    ρ_E = (1+τ)²(2−xB)²/(2−xB+τxB)², τ = t/Q² (both → 1 as τ → 0; σ_ρ at ρ = 1 is `_XGAMMA_DVCS_t_Ex`);
    for E = 0 the whole identity holds up to the single factor ρ_H. -/
theorem flux_identity_BM10ex (c : Consts) (m : CFFs) (pt : Pt)
    (hlit : (65.14079453579676 : ℝ) = π * c.alpha ^ 2 * c.GeV2nb)
    (heps : pt.eps2 = 4 * pt.xB ^ 2 * c.Mp2 / pt.Q2)
    (hy : pt.y ≠ 0) (he : 0 < 1 + pt.eps2)
    (hD : 1 - pt.y + pt.y ^ 2 / 2 + pt.eps2 * pt.y ^ 2 / 4 ≠ 0)
    (hx : pt.xB ≠ 0) (hx1 : 1 - pt.xB ≠ 0) (hx2 : 2 - pt.xB ≠ 0) (hQ : pt.Q2 ≠ 0)
    (hB : 2 - pt.xB + pt.t / pt.Q2 * pt.xB ≠ 0) (hA : 1 + pt.t / pt.Q2 * pt.xB ≠ 0) (hM : c.Mp2 ≠ 0) :
    2 * π * DVCS.PreFacSigma c (vecOnly m) pt * FS_BM10ex_TDVCS2unp c (vecOnly m) pt =
      HandFlux c pt * sigmaRho (rhoH pt.xB pt.Q2 pt.t) (rhoE pt.xB pt.Q2 pt.t) c m pt ∧
    sigmaRho 1 1 c m pt = DVCS._XGAMMA_DVCS_t_Ex c m pt ∧
    rhoH pt.xB pt.Q2 pt.t = (1 + pt.t / pt.Q2 * pt.xB) * (2 - pt.xB) ^ 2 / (2 - pt.xB + pt.t / pt.Q2 * pt.xB) ^ 2 ∧
    rhoE pt.xB pt.Q2 pt.t = (1 + pt.t / pt.Q2) ^ 2 * (2 - pt.xB) ^ 2 / (2 - pt.xB + pt.t / pt.Q2 * pt.xB) ^ 2 ∧
    (m.ReE = 0 → m.ImE = 0 →
      2 * π * DVCS.PreFacSigma c (vecOnly m) pt * FS_BM10ex_TDVCS2unp c (vecOnly m) pt =
        HandFlux c pt * DVCS._XGAMMA_DVCS_t_Ex c m pt * rhoH pt.xB pt.Q2 pt.t) := by
  have hA' : pt.Q2 + pt.t * pt.xB ≠ 0 := by
    have : pt.Q2 + pt.t * pt.xB = pt.Q2 * (1 + pt.t / pt.Q2 * pt.xB) := by field_simp
    rw [this]; exact mul_ne_zero hQ hA
  have hB' : pt.Q2 * (2 - pt.xB) + pt.t * pt.xB ≠ 0 := by
    have : pt.Q2 * (2 - pt.xB) + pt.t * pt.xB = pt.Q2 * (2 - pt.xB + pt.t / pt.Q2 * pt.xB) := by field_simp
    rw [this]; exact mul_ne_zero hQ hB
  have main := flux_BM10ex c m pt hlit heps hy he hD hx hx1 hx2 hQ hA' hB' hM
  refine ⟨main, sigmaRho_one c m pt, rhoH_tau _ _ _ hQ hB, rhoE_tau _ _ _ hQ hB, ?_⟩
  intro hE1 hE2
  rw [main]
  bridge_simp [sigmaRho, DVCS._XGAMMA_DVCS_t_Ex, hE1, hE2]

/-- non-vacuity of the hypotheses of (4): α = 1, GeV2nb = c_lit/π, M² = 1, Q² = 4, xB = 1/2 (so ε² = 1/4), y = 1/2, t = −1 -/
example : ∃ (c : Consts) (pt : Pt), (65.14079453579676 : ℝ) = π * c.alpha ^ 2 * c.GeV2nb ∧
    pt.eps2 = 4 * pt.xB ^ 2 * c.Mp2 / pt.Q2 ∧ pt.y ≠ 0 ∧ 0 < 1 + pt.eps2 ∧
    1 - pt.y + pt.y ^ 2 / 2 + pt.eps2 * pt.y ^ 2 / 4 ≠ 0 ∧ pt.xB ≠ 0 ∧ 1 - pt.xB ≠ 0 ∧ 2 - pt.xB ≠ 0 ∧ pt.Q2 ≠ 0 ∧
    2 - pt.xB + pt.t / pt.Q2 * pt.xB ≠ 0 ∧ 1 + pt.t / pt.Q2 * pt.xB ≠ 0 ∧ c.Mp2 ≠ 0 := by
  refine ⟨⟨1, 1, 1, 65.14079453579676 / π⟩,
    { Pt.zero with Q2 := 4, xB := 1/2, t := -1, y := 1/2, eps2 := 1/4 }, ?_⟩
  have hpi : π ≠ 0 := Real.pi_ne_zero
  refine ⟨?_, ?_, ?_, ?_, ?_, ?_, ?_, ?_, ?_, ?_, ?_, ?_⟩
  · field_simp
  all_goals norm_num

end Gep.R.C08

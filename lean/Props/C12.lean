/-
  Props/C12.lean — property C12: predictions are pure — no hidden state, no mutation of points,
  datasets or parameters, also when the evaluation raises.  Theorems about Model/Predict.lean.
-/
import Model.Predict
import Model.Memo
import Props.C11

namespace Gep.Pred.C12
open Gep.Pred Gep.Fit Gep.Fit.C11

variable {V W R A : Type}

/-- every cached table is the one the configuration implies (the cache is a sub-graph of W0) -/
def CacheOK (env : Env V W R (Point A)) (cache : List (Nat × W)) : Prop :=
  ∀ q w, cacheGet cache q = some w → w = env.W0 q

theorem cacheGet_append (c : List (Nat × W)) (q k : Nat) (w : W) :
    cacheGet (c ++ [(k, w)]) q = match cacheGet c q with
      | some x => some x
      | none => if k == q then some w else none := by
  induction c with
  | nil => simp [cacheGet]
  | cons kv r ih =>
    obtain ⟨k', w'⟩ := kv
    simp only [List.cons_append, cacheGet]
    split <;> simp_all

theorem cacheOK_nil (env : Env V W R (Point A)) : CacheOK env [] := by
  intro q w h; simp [cacheGet] at h

/-- a lookup equals a recomputation, and filling the cache keeps it valid -/
theorem coeffs_spec (env : Env V W R (Point A)) (cache : List (Nat × W)) (q : Nat) (h : CacheOK env cache) :
    (coeffs env cache q).1 = env.W0 q ∧ CacheOK env (coeffs env cache q).2 := by
  unfold coeffs
  cases hc : cacheGet cache q with
  | some w => exact ⟨h q w hc, h⟩
  | none =>
    refine ⟨rfl, ?_⟩
    intro q' w' h'
    rw [cacheGet_append] at h'
    cases hq : cacheGet cache q' with
    | some x => rw [hq] at h'; simp at h'; subst h'; exact h q' x hq
    | none =>
      rw [hq] at h'
      by_cases hk : (q == q') = true
      · simp [hk] at h'; subst h'; simp at hk; rw [hk]
      · simp [hk] at h'

/-- the point the observable is evaluated on -/
def workPoint (pt : Point A) : PtUse A → Point A
  | .copy => pt
  | .tempAttr k v => pset (pdel pt k) k v

/-- the parameters in force during the evaluation -/
def effParams (params : List (Name × V)) : Option (List (Name × V)) → List (Name × V)
  | none => params
  | some o => updateAll params o

/-- **No hidden state.**  In every state whose cache is valid, the value returned by `predict` is the
    cache-free specification: a function of the configuration (`env`), the independent parameters (with
    the temporary override applied), the kinematics of the point and the observable — whatever was
    evaluated before.  The same holds when the evaluation raises. -/
theorem predict_value (env : Env V W R (Point A)) (s : St V W A) (obs : String) (q : Nat) (use : PtUse A)
    (ovr : Option (List (Name × V))) (hc : CacheOK env s.cache) :
    (predict env s obs q use ovr).2 = env.F obs (env.W0 q) (effParams s.params ovr) (workPoint s.pt use) := by
  have hw := (coeffs_spec env s.cache q hc).1
  cases ovr <;> cases use <;> simp only [predict, evalObs, effParams, workPoint] <;> rw [hw]

theorem predict_cacheOK (env : Env V W R (Point A)) (s : St V W A) (obs : String) (q : Nat) (use : PtUse A)
    (ovr : Option (List (Name × V))) (hc : CacheOK env s.cache) :
    CacheOK env (predict env s obs q use ovr).1.cache := by
  have hw := (coeffs_spec env s.cache q hc).2
  cases ovr <;> cases use <;> simpa only [predict, evalObs] using hw

/-- **No mutation of the parameters** — exactly the saved dictionary comes back, also after an
    exception and also when the override introduced new keys -/
theorem predict_params (env : Env V W R (Point A)) (s : St V W A) (obs : String) (q : Nat) (use : PtUse A)
    (ovr : Option (List (Name × V))) : (predict env s obs q use ovr).1.params = s.params := by
  cases ovr <;> cases use <;> simp [predict, evalObs]

/-- **No mutation of the point**: after the call the caller's point is the dictionary it was, for
    observables working on a copy and for those setting a temporary attribute, with or without
    exception -/
theorem predict_point (env : Env V W R (Point A)) (s : St V W A) (obs : String) (q : Nat) (use : PtUse A)
    (ovr : Option (List (Name × V))) : (predict env s obs q use ovr).1.pt = s.pt := by
  have key : ∀ (k : Name) (v : A),
      (match s.pt k with
        | some old => pset (pdel (pset (pdel s.pt k) k v) k) k old
        | none => pdel (pset (pdel s.pt k) k v) k) = s.pt := by
    intro k v
    funext n
    cases hm : s.pt k with
    | some old => by_cases hn : n = k <;> simp [pset, pdel, hn, hm]
    | none => by_cases hn : n = k <;> simp [pset, pdel, hn, hm]
  cases ovr <;> cases use <;> simp only [predict, evalObs] <;> first | rfl | exact key _ _

/-- the code before the repair did NOT have the property: a failing call with an override leaves the
    override (and the new key) in the theory -/
theorem old_code_refuted :
    let env : Env Nat Nat Nat (Point Nat) :=
      { W0 := fun q => q, F := fun obs _ _ _ => if obs == "XS" then .val 1 else .exc "AttributeError" }
    let s : St Nat Nat Nat := { params := [("a", 1)], cache := [], pt := pointOfList [("xB", 3)] }
    (predictOld env s "nope" 4 .copy (some [("a", 9), ("new", 7)])).1.params = [("a", 9), ("new", 7)] ∧
    (predictOld env s "XS" 4 .copy (some [("a", 9), ("new", 7)])).1.params = [("a", 1), ("new", 7)] ∧
    (predict env s "nope" 4 .copy (some [("a", 9), ("new", 7)])).1.params = [("a", 1)] := by
  decide

/-- **History independence.**  For any sequence of calls (failing ones included) on one shared theory
    and point, every result equals the specification evaluated from the initial parameters and point
    alone, and parameters and point are afterwards what they were. -/
theorem runCalls_pure (env : Env V W R (Point A)) (s : St V W A) (calls : List (Call V A))
    (hc : CacheOK env s.cache) :
    (runCalls env s calls).2 = calls.map (fun c =>
        env.F c.obs (env.W0 c.q) (effParams s.params c.ovr) (workPoint s.pt c.use)) ∧
    (runCalls env s calls).1.params = s.params ∧ (runCalls env s calls).1.pt = s.pt ∧
    CacheOK env (runCalls env s calls).1.cache := by
  induction calls generalizing s with
  | nil => exact ⟨rfl, rfl, rfl, hc⟩
  | cons c cs ih =>
    have hp := predict_params env s c.obs c.q c.use c.ovr
    have hpt := predict_point env s c.obs c.q c.use c.ovr
    have hv := predict_value env s c.obs c.q c.use c.ovr hc
    obtain ⟨h1, h2, h3, h4⟩ := ih (predict env s c.obs c.q c.use c.ovr).1 (predict_cacheOK env s c.obs c.q c.use c.ovr hc)
    simp only [runCalls, List.map_cons]
    rw [hp, hpt] at h1
    rw [hp] at h2
    rw [hpt] at h3
    exact ⟨by rw [hv, h1], h2, h3, h4⟩

end Gep.Pred.C12

/-! ### memo tables in general (Model/Memo.lean): transparent for every history iff the key determines the value.
    `run_pure` is the reason the package's Q²-keyed tables are harmless for a theory whose configuration is fixed;
    `incomplete_key_refuted` is why the harnesses evaluate chains of calls in which ONE argument changes at a time:
    any incomplete key is exposed by a two-call history. -/
namespace Gep.Memo
variable {A K B : Type} [DecidableEq K]

theorem lookup_mem {tbl : List (K × B)} {k : K} {b : B} (h : lookup tbl k = some b) : (k, b) ∈ tbl := by
  induction tbl with
  | nil => simp [lookup] at h
  | cons e r ih =>
    obtain ⟨k', b'⟩ := e
    simp only [lookup] at h
    split at h
    · rename_i hk; cases h; subst hk; exact List.mem_cons_self
    · exact List.mem_cons_of_mem _ (ih h)

/-- one call through a correct table returns `f a` and leaves a correct table — provided the key determines
    the value -/
theorem call_spec (key : A → K) (f : A → B) (hkey : ∀ a b, key a = key b → f a = f b)
    (tbl : List (K × B)) (a : A) (h : TableOK key f tbl) :
    (call key f tbl a).1 = f a ∧ TableOK key f (call key f tbl a).2 := by
  unfold call
  cases hl : lookup tbl (key a) with
  | some b => exact ⟨(h _ _ (lookup_mem hl) a rfl).symm, h⟩
  | none =>
    refine ⟨rfl, ?_⟩
    intro k b hm a' ha'
    rcases List.mem_append.1 hm with hm | hm
    · exact h k b hm a' ha'
    · simp only [List.mem_singleton, Prod.mk.injEq] at hm
      obtain ⟨rfl, rfl⟩ := hm
      exact hkey a' a ha'

/-- **memo transparency for every history**: if the key determines the value, any sequence of calls on one object
    returns exactly what the function returns, whatever was asked before -/
theorem run_pure (key : A → K) (f : A → B) (hkey : ∀ a b, key a = key b → f a = f b)
    (tbl : List (K × B)) (h : TableOK key f tbl) (hist : List A) :
    (run key f tbl hist).1 = hist.map f ∧ TableOK key f (run key f tbl hist).2 := by
  induction hist generalizing tbl with
  | nil => exact ⟨rfl, h⟩
  | cons a rest ih =>
    obtain ⟨h1, h2⟩ := call_spec key f hkey tbl a h
    obtain ⟨i1, i2⟩ := ih (call key f tbl a).2 h2
    simp only [run, List.map_cons]
    exact ⟨by rw [h1, i1], i2⟩

/-- **an incomplete key is exposed by a history of length two**: two arguments that agree on the key and differ in
    the value, asked one after the other on a fresh object, return the first value twice -/
theorem incomplete_key_refuted (key : A → K) (f : A → B) (a b : A) (hk : key a = key b) (hf : f a ≠ f b) :
    (run key f [] [a, b]).1 = [f a, f a] ∧ (run key f [] [a, b]).1 ≠ [a, b].map f := by
  have h1 : (run key f [] [a, b]).1 = [f a, f a] := by
    simp [run, call, lookup, hk]
  refine ⟨h1, ?_⟩
  rw [h1]
  simp only [List.map_cons, List.map_nil, ne_eq, List.cons.injEq, and_true, true_and]
  exact hf

/-- hence: the memo is transparent for every history **iff** the key determines the value -/
theorem transparent_iff (key : A → K) (f : A → B) :
    (∀ hist : List A, (run key f [] hist).1 = hist.map f) ↔ (∀ a b, key a = key b → f a = f b) := by
  constructor
  · intro h a b hk
    exact Classical.byContradiction fun hf => (incomplete_key_refuted key f a b hk hf).2 (h [a, b])
  · intro hkey hist
    exact (run_pure key f hkey [] (by intro k b hm; cases hm) hist).1

/-- a history may be cut anywhere: running `h₁ ++ h₂` is running `h₁` and then `h₂` on the table left behind — call
    boundaries (one `predict` per point, one `chisq` over many) carry no state but the table -/
theorem run_append (key : A → K) (f : A → B) (tbl : List (K × B)) (h₁ h₂ : List A) :
    run key f tbl (h₁ ++ h₂) =
      ((run key f tbl h₁).1 ++ (run key f (run key f tbl h₁).2 h₂).1, (run key f (run key f tbl h₁).2 h₂).2) := by
  induction h₁ generalizing tbl with
  | nil => simp [run]
  | cons a rest ih => simp only [List.cons_append, run, ih]

theorem lookup_none_iff {tbl : List (K × B)} {k : K} : lookup tbl k = none ↔ k ∉ tbl.map Prod.fst := by
  induction tbl with
  | nil => simp [lookup]
  | cons e r ih =>
    obtain ⟨k', b'⟩ := e
    simp only [lookup, List.map_cons, List.mem_cons, not_or]
    by_cases hk : k' = k
    · simp [hk]
    · simp only [hk, if_false, ih]
      exact ⟨fun h => ⟨fun h' => hk h'.symm, h⟩, fun h => h.2⟩

/-- entries are only ever appended: nothing stored is overwritten, evicted or reordered by later calls -/
theorem run_table_prefix (key : A → K) (f : A → B) (tbl : List (K × B)) (hist : List A) :
    tbl <+: (run key f tbl hist).2 := by
  induction hist generalizing tbl with
  | nil => exact List.prefix_refl _
  | cons a rest ih =>
    simp only [run]
    refine List.IsPrefix.trans ?_ (ih _)
    unfold call
    cases lookup tbl (key a) with
    | some b => exact List.prefix_refl _
    | none => exact List.prefix_append _ _

/-- one entry per key, whatever the history: the table never holds two values for one key -/
theorem run_keys_nodup (key : A → K) (f : A → B) (tbl : List (K × B)) (hist : List A)
    (h : (tbl.map Prod.fst).Nodup) : ((run key f tbl hist).2.map Prod.fst).Nodup := by
  induction hist generalizing tbl with
  | nil => exact h
  | cons a rest ih =>
    simp only [run]
    apply ih
    unfold call
    cases hl : lookup tbl (key a) with
    | some b => exact h
    | none =>
      simp only [List.map_append, List.map_cons, List.map_nil]
      rw [List.nodup_append]
      refine ⟨h, List.nodup_cons.2 ⟨List.not_mem_nil, List.nodup_nil⟩, ?_⟩
      intro x hx y hy
      simp only [List.mem_singleton] at hy
      subst hy
      intro hxy; subst hxy
      exact (lookup_none_iff.1 hl) hx

theorem lookup_append_miss {tbl : List (K × B)} {k : K} (b : B) (h : lookup tbl k = none) :
    lookup (tbl ++ [(k, b)]) k = some b := by
  induction tbl with
  | nil => simp [lookup]
  | cons e r ih =>
    obtain ⟨k', b'⟩ := e
    simp only [lookup] at h
    simp only [List.cons_append, lookup]
    split
    · rename_i hk; simp [hk] at h
    · rename_i hk; simp only [hk, if_false] at h; exact ih h

/-- a repeated argument does not touch the table and returns what the first evaluation returned -/
theorem call_hit_keeps_table (key : A → K) (f : A → B) (tbl : List (K × B)) (a : A) :
    call key f (call key f tbl a).2 a = ((call key f tbl a).1, (call key f tbl a).2) := by
  unfold call
  cases hl : lookup tbl (key a) with
  | some b => simp [hl]
  | none => simp [lookup_append_miss (f a) hl]

/-- non-vacuity: a table keyed by Q² alone for a function of (Q², skewness) — the second call is wrong -/
example : (run (fun p : Nat × Nat => p.1) (fun p => p.1 + p.2) [] [(4, 0), (4, 1)]).1 = [4, 4] := by decide

/-- CPython's `hash` on small integers (and on floats with integer value): the identity, except that -1 is reserved
    as the C error code and is mapped to -2 -/
def pyHash (n : Int) : Int := if n = -1 then -2 else n

/-- **a table keyed by `hash(x)` instead of `x` is not transparent**: whatever the function, if it tells -1 from -2
    the history "ask at -1, then at -2" returns the first value twice.  (Seeded changes C12-9, C19-9: a memo in front of
    the coefficient tables / the form factors keyed by `hash(t)`.) -/
theorem hash_key_refuted (f : Int → B) (hf : f (-1) ≠ f (-2)) :
    (run pyHash f [] [-1, -2]).1 = [f (-1), f (-1)] ∧ (run pyHash f [] [-1, -2]).1 ≠ [-1, -2].map f :=
  incomplete_key_refuted pyHash f (-1) (-2) (by decide) hf

/-- and keyed by the argument itself it is transparent for every history, whatever the function -/
theorem value_key_transparent (f : A → B) [DecidableEq A] (hist : List A) :
    (run (fun a => a) f [] hist).1 = hist.map f :=
  (run_pure (fun a => a) f (fun _ _ h => by rw [h]) [] (by intro k b hm; cases hm) hist).1

/-- **a table keyed by the identity (`id(obj)`) of an argument that may be freed**: two different arguments that
    receive the same identity one after the other (a temporary dropped, the next one allocated at the same address) and
    on which the function differs — the second call returns the first one's result.  (Seeded changes C17-9, C03-9:
    memos keyed by `id()` of temporaries / of an array refilled in place.) -/
theorem identity_key_refuted {Obj : Type} (addr : Obj → Nat) (f : Obj → B) (x y : Obj)
    (hreuse : addr x = addr y) (hf : f x ≠ f y) :
    (run addr f [] [x, y]).1 ≠ [x, y].map f :=
  (incomplete_key_refuted addr f x y hreuse hf).2

example : (run pyHash (fun t : Int => t * t) [] [-1, -2]).1 = [1, 1] := by decide

end Gep.Memo

/-! ### the cache of Model/Predict.lean is an instance of the general memo table -/
namespace Gep.Pred.C12
open Gep.Pred Gep.Memo

variable {V W R A : Type}

theorem cacheGet_eq_lookup (c : List (Nat × W)) (q : Nat) : cacheGet c q = Memo.lookup c q := by
  induction c with
  | nil => rfl
  | cons kv r ih =>
    obtain ⟨k, w⟩ := kv
    by_cases h : k = q
    · subst h; simp [cacheGet, Memo.lookup]
    · have : (k == q) = false := by simpa using h
      simp [cacheGet, Memo.lookup, this, h, ih]

/-- the per-theory table of evolved coefficients of Model/Predict.lean IS a memo table in the sense of Model/Memo.lean,
    keyed by Q² itself in front of `W0` -/
theorem coeffs_is_memo_call (env : Env V W R (Point A)) (cache : List (Nat × W)) (q : Nat) :
    coeffs env cache q = Memo.call (fun q => q) env.W0 cache q := by
  unfold coeffs Memo.call
  rw [cacheGet_eq_lookup]
  cases Memo.lookup cache q <;> rfl

/-- hence (instance of `run_pure`, whose hypothesis "the key determines the value" is trivially true for the identity
    key): any history of look-ups on one theory object returns the tables the configuration implies -/
theorem coeff_history_pure (env : Env V W R (Point A)) (qs : List Nat) :
    (Memo.run (fun q => q) env.W0 [] qs).1 = qs.map env.W0 :=
  (Memo.run_pure (fun q => q) env.W0 (fun _ _ h => by rw [h]) [] (by intro k b hm; cases hm) qs).1


end Gep.Pred.C12

/-
  Props/C15Src.lean — property C15, SECOND TIE: the hand-written model is what the current source says.
  Built by the check after Props/C15.lean.  The translator (tools/gen_qcd.py) re-reads the formulas from /repo on every run;
  if it does not recognise the shape of the source (a refactoring it was not written for) the second tie is reported as
  unavailable in the evidence and the check relies on the run-time correspondence alone, as for the other properties;
  if it does and a statement below no longer holds, a formula of the source has changed its VALUE: the check then looks
  for a failing input and reports.
-/
import Props.C15
import Proofs.QcdBridge

namespace Gep.R.C15
open Gep.R Gep.R.Coupling
/-! ### the model is what the current source says (second tie, besides the run-time correspondence)

`Gen/QcdSrcR.lean` is written by `tools/gen_qcd.py` from the Python AST of src/gepard/qcd.py and constants.py on every
run; the statements below say that each formula found there equals the model's, so everything proved above about
`beta`, `fbeta1`, `rk4Step`, `as2pf` is proved about the formulas of the current source. -/

/-- the four orders of `beta` as written in qcd.py, with the colour factors as written in constants.py -/
theorem source_beta (nf : ℝ) :
    QcdSrc.beta_0 nf = beta0 nf ∧ QcdSrc.beta_1 nf = beta1 nf ∧ QcdSrc.beta_2 nf = beta2 nf ∧
    QcdSrc.beta_3 nf = beta3 nf :=
  ⟨QcdBridge.beta_0_eq nf, QcdBridge.beta_1_eq nf, QcdBridge.beta_2_eq nf, QcdBridge.beta_3_eq nf⟩

/-- the orders for which qcd.beta has a branch are exactly those for which the model returns a value -/
theorem source_beta_orders (p : Int) (nf : ℝ) : p ∈ QcdSrc.betaOrders ↔ beta p nf ≠ none := by
  simp only [QcdSrc.betaOrders, List.mem_cons, List.not_mem_nil, or_false, beta]
  constructor
  · rintro (h | h | h | h) <;> subst h <;> simp
  · intro h
    by_cases h0 : p = 0; · exact Or.inl h0
    by_cases h1 : p = 1; · exact Or.inr (Or.inl h1)
    by_cases h2 : p = 2; · exact Or.inr (Or.inr (Or.inl h2))
    by_cases h3 : p = 3; · exact Or.inr (Or.inr (Or.inr h3))
    simp [h0, h1, h2, h3] at h

/-- `_fbeta1` and the body of the Runge–Kutta loop as written in qcd.py -/
theorem source_rhs_and_step (nf dlr a : ℝ) :
    QcdSrc.fbeta1 a nf = fbeta1 a nf ∧ QcdSrc.rkStep nf dlr a = rk4Step nf dlr a :=
  ⟨QcdBridge.fbeta1_eq a nf, QcdBridge.rkStep_eq nf dlr a⟩

/-- the loop of qcd.py runs over `range(1, NASTPS+1)`: `NASTPS` = 20 passes -/
theorem source_loop_range :
    QcdSrc.loopLo = 1 ∧ QcdSrc.loopHi - QcdSrc.loopLo = NASTPS ∧ QcdSrc.NASTPS = NASTPS := by decide

/-- **LO**: wherever the model returns a value, it is the value of the source's straight-line code
    (`a = 0.5*as0; lrrat = log(r2/r20); a = 0.5*as0/(1 - 0.5*beta(0,nf)*as0*lrrat); a = 2*a`) -/
theorem source_as2pf_lo (nf r2 as0 r20 : ℝ) (hr : r20 ≠ 0) (hq : 0 < r2 / r20)
    (hd : loDen nf as0 (Real.log (r2 / r20)) ≠ 0) :
    as2pf 0 nf r2 as0 r20 = .ok (QcdSrc.as2pf_lo nf r2 as0 r20) := by
  rw [as2pf_lo nf r2 as0 r20 hr hq, if_neg hd]
  congr 1
  simp only [QcdSrc.as2pf_lo, QcdBridge.finalA_eq, QcdBridge.loA_eq, klog]
  field_simp
  ring

/-- **NLO**: the model's value is the source's loop: `NASTPS` passes of the source's loop body with the source's
    step `dlr = log(r2/r20)/NASTPS`, started at `0.5*as0`, doubled at the end -/
theorem source_as2pf_nlo (nf r2 as0 r20 : ℝ) (hr : r20 ≠ 0) (hq : 0 < r2 / r20) :
    as2pf 1 nf r2 as0 r20 = .ok (QcdSrc.as2pf_nlo nf r2 as0 r20) := by
  have hrange : List.range' QcdSrc.loopLo (QcdSrc.loopHi - QcdSrc.loopLo) = List.range' 1 NASTPS := by decide
  rw [as2pf_nlo nf r2 as0 r20 hr hq]
  simp only [QcdSrc.as2pf_nlo, hrange, QcdBridge.finalA_eq, QcdBridge.loop_eq, QcdSrc.pre_dlr, QcdSrc.pre_a, klog]

/-- non-vacuity: at nf = 4, as0 = 0.05, r2 = 2 r20 the LO hypotheses hold -/
example : (1 : ℝ) ≠ 0 ∧ 0 < (2 : ℝ) / 1 := by norm_num

end Gep.R.C15

/-
  Props/C07.lean — property C07: cross sections have the required azimuthal, T-odd and charge
  structure.  Theorems over ℝ about Gen/BmkR.lean — the model REGENERATED from
  /repo/src/gepard/{kinematics,bmk,dvcs}.py by tools/py2lean.py on every run — using the symmetry
  lemmas of Gen/BmkSymR.lean (also regenerated).  For every formula set, all kinematics, all
  CFF / form-factor values.
-/
import Gen.BmkSymR
import Gen.ObsR
import Proofs.Trig
import Proofs.Bridge

namespace Gep.R.C07
open Gep.R

set_option maxRecDepth 4000

/-- part of a point function that is independent of / proportional to the beam helicity -/
noncomputable def evenPol (f : Pt → ℝ) (pt : Pt) : ℝ := (f pt + f (flipPol pt)) / 2
noncomputable def oddPol (f : Pt → ℝ) (pt : Pt) : ℝ := (f pt - f (flipPol pt)) / 2

/-- the BH propagator product, recomputed at the mirrored angle, is unchanged (it depends on cos φ) -/
theorem P1P2_mirror (c : Consts) (pt : Pt) : P1P2 c (mirror pt) = P1P2 c pt := by
  bridge_simp [P1P2, bmk_sym, kcos_mirror]

/-- unpolarised-target part of the cross section (up to the common prefactor) per formula set -/
noncomputable def unpBMK (c : Consts) (m : CFFs) (pt : Pt) : ℝ :=
  FS_BMK_TBH2unp c m pt + FS_BMK_TINTunp c m pt + FS_BMK_TDVCS2unp c m pt
noncomputable def unpHot (c : Consts) (m : CFFs) (pt : Pt) : ℝ :=
  FS_hotfixedBMK_TBH2unp c m pt + FS_hotfixedBMK_TINTunp c m pt + FS_hotfixedBMK_TDVCS2unp c m pt
noncomputable def unpEx (c : Consts) (m : CFFs) (pt : Pt) : ℝ :=
  FS_BM10ex_TBH2unp c m pt + FS_BM10ex_TINTunp c m pt + FS_BM10ex_TDVCS2unp c m pt
noncomputable def unpBM10 (c : Consts) (m : CFFs) (pt : Pt) : ℝ :=
  FS_BM10_TBH2unp c m pt + FS_BM10_TINTunp c m pt + FS_BM10_TDVCS2unp c m pt
noncomputable def unpTw2 (c : Consts) (m : CFFs) (pt : Pt) : ℝ :=
  FS_BM10tw2_TBH2unp c m pt + FS_BM10tw2_TINTunp c m pt + FS_BM10tw2_TDVCS2unp c m pt
/-- longitudinally-polarised-target part (coefficient of the target polarisation), BM10 family -/
noncomputable def lpEx (c : Consts) (m : CFFs) (pt : Pt) : ℝ :=
  FS_BM10ex_TBH2LP c m pt + FS_BM10ex_TINTLP c m pt + FS_BM10ex_TDVCS2LP c m pt
noncomputable def lpBM10 (c : Consts) (m : CFFs) (pt : Pt) : ℝ :=
  FS_BM10_TBH2LP c m pt + FS_BM10_TINTLP c m pt + FS_BM10_TDVCS2LP c m pt
noncomputable def lpTw2 (c : Consts) (m : CFFs) (pt : Pt) : ℝ :=
  FS_BM10tw2_TBH2LP c m pt + FS_BM10tw2_TINTLP c m pt + FS_BM10tw2_TDVCS2LP c m pt

/-- `simp` set that unfolds the T-terms one level and applies every generated symmetry lemma (`one_mul`: a harmonic
    written as cos(n·φ) with n = 1) -/
macro "bmk_unfold" : tactic => `(tactic|
  simp only [evenPol, oddPol, unpBMK, unpHot, unpEx, unpBM10, unpTw2, lpEx, lpBM10, lpTw2,
    FS_BMK_TBH2unp, FS_BMK_TINTunp, FS_BMK_TDVCS2unp, FS_hotfixedBMK_TBH2unp, FS_hotfixedBMK_TINTunp,
    FS_hotfixedBMK_TDVCS2unp, FS_BM10ex_TBH2unp, FS_BM10ex_TINTunp, FS_BM10ex_TDVCS2unp, FS_BM10_TBH2unp,
    FS_BM10_TINTunp, FS_BM10_TDVCS2unp, FS_BM10tw2_TBH2unp, FS_BM10tw2_TINTunp, FS_BM10tw2_TDVCS2unp,
    FS_BM10ex_TBH2LP, FS_BM10ex_TINTLP, FS_BM10ex_TDVCS2LP, FS_BM10_TBH2LP, FS_BM10_TINTLP, FS_BM10_TDVCS2LP,
    FS_BM10tw2_TBH2LP, FS_BM10tw2_TINTLP, FS_BM10tw2_TDVCS2LP,
    BMK.TBH2unp, BMK.TINTunp, BMK.TDVCS2unp, hotfixedBMK.TINTunp, hotfixedBMK.TDVCS2unp,
    BM10ex.TINTunp, BM10ex.TDVCS2unp, BM10.TINTunp, BM10.TDVCS2unp, BM10tw2.TINTunp,
    BM10ex.TBH2LP, BM10ex.TINTLP, BM10ex.TDVCS2LP, BM10.TINTLP, BM10.TDVCS2LP, BM10tw2.TINTLP,
    bmk_sym, one_mul, mul_one, kcos_mirror, ksin_mirror, kcos_mirror2, ksin_mirror2, kcos_mirror3, ksin_mirror3,
    kcos_mirror2', ksin_mirror2', kcos_mirror3', ksin_mirror3'])

/-- unfold, apply the symmetry lemmas, and close what is left by field arithmetic (`bridge`, Proofs/Bridge.lean) -/
macro "bmk_close" : tactic => `(tactic| (bmk_unfold <;> bridge))

/-! ### φ → 2π − φ -/

/-- the helicity-independent part is even and the beam single-spin part is odd — all five sets -/
theorem unp_mirror_BMK (c : Consts) (m : CFFs) (pt : Pt) :
    evenPol (unpBMK c m) (mirror pt) = evenPol (unpBMK c m) pt ∧
    oddPol (unpBMK c m) (mirror pt) = -oddPol (unpBMK c m) pt := by
  constructor <;> bmk_close

theorem unp_mirror_hotfixedBMK (c : Consts) (m : CFFs) (pt : Pt) :
    evenPol (unpHot c m) (mirror pt) = evenPol (unpHot c m) pt ∧
    oddPol (unpHot c m) (mirror pt) = -oddPol (unpHot c m) pt := by
  constructor <;> bmk_close

theorem unp_mirror_BM10ex (c : Consts) (m : CFFs) (pt : Pt) :
    evenPol (unpEx c m) (mirror pt) = evenPol (unpEx c m) pt ∧
    oddPol (unpEx c m) (mirror pt) = -oddPol (unpEx c m) pt := by
  constructor <;> bmk_close

theorem unp_mirror_BM10 (c : Consts) (m : CFFs) (pt : Pt) :
    evenPol (unpBM10 c m) (mirror pt) = evenPol (unpBM10 c m) pt ∧
    oddPol (unpBM10 c m) (mirror pt) = -oddPol (unpBM10 c m) pt := by
  constructor <;> bmk_close

theorem unp_mirror_BM10tw2 (c : Consts) (m : CFFs) (pt : Pt) :
    evenPol (unpTw2 c m) (mirror pt) = evenPol (unpTw2 c m) pt ∧
    oddPol (unpTw2 c m) (mirror pt) = -oddPol (unpTw2 c m) pt := by
  constructor <;> bmk_close

/-- longitudinal target: the target single-spin part (helicity-independent) is odd, the double-spin
    part (∝ helicity) is even — BM10 family -/
theorem lp_mirror_BM10ex (c : Consts) (m : CFFs) (pt : Pt) :
    evenPol (lpEx c m) (mirror pt) = -evenPol (lpEx c m) pt ∧
    oddPol (lpEx c m) (mirror pt) = oddPol (lpEx c m) pt := by
  constructor <;> bmk_close

theorem lp_mirror_BM10 (c : Consts) (m : CFFs) (pt : Pt) :
    evenPol (lpBM10 c m) (mirror pt) = -evenPol (lpBM10 c m) pt ∧
    oddPol (lpBM10 c m) (mirror pt) = oddPol (lpBM10 c m) pt := by
  constructor <;> bmk_close

theorem lp_mirror_BM10tw2 (c : Consts) (m : CFFs) (pt : Pt) :
    evenPol (lpTw2 c m) (mirror pt) = -evenPol (lpTw2 c m) pt ∧
    oddPol (lpTw2 c m) (mirror pt) = oddPol (lpTw2 c m) pt := by
  constructor <;> bmk_close

/-! ### real CFFs: no single-spin differences -/

/-- with all CFFs real (imaginary parts zero, effective ones included) the beam-helicity dependent
    part of the unpolarised-target cross section vanishes identically: XLU = 0 — all five sets -/
theorem real_cffs_no_beam_ssa (c : Consts) (m : CFFs) (pt : Pt) :
    oddPol (unpBMK c (realCFFs m)) pt = 0 ∧ oddPol (unpHot c (realCFFs m)) pt = 0 ∧
    oddPol (unpEx c (realCFFs m)) pt = 0 ∧ oddPol (unpBM10 c (realCFFs m)) pt = 0 ∧
    oddPol (unpTw2 c (realCFFs m)) pt = 0 := by
  refine ⟨?_, ?_, ?_, ?_, ?_⟩ <;> bmk_close

/-- … and so does the target single-spin part (helicity-independent part of the longitudinal-target
    term): XUL = 0 for an unpolarised beam — BM10 family -/
theorem real_cffs_no_target_ssa (c : Consts) (m : CFFs) (pt : Pt) :
    evenPol (lpEx c (realCFFs m)) pt = 0 ∧ evenPol (lpBM10 c (realCFFs m)) pt = 0 ∧
    evenPol (lpTw2 c (realCFFs m)) pt = 0 := by
  refine ⟨?_, ?_, ?_⟩ <;> bmk_close

/-! ### lepton charge -/

macro "xs_unfold" : tactic => `(tactic|
  simp only [XSaux_BMK, XSaux_hotfixedBMK, XSaux_BM10ex, XSaux_BM10, XSaux_BM10tw2,
    FS_BMK_TBH2unp, FS_BMK_TINTunp, FS_BMK_TDVCS2unp, FS_hotfixedBMK_TBH2unp, FS_hotfixedBMK_TINTunp,
    FS_hotfixedBMK_TDVCS2unp, FS_BM10ex_TBH2unp, FS_BM10ex_TINTunp, FS_BM10ex_TDVCS2unp, FS_BM10_TBH2unp,
    FS_BM10_TINTunp, FS_BM10_TDVCS2unp, FS_BM10tw2_TBH2unp, FS_BM10tw2_TINTunp, FS_BM10tw2_TDVCS2unp,
    FS_BM10ex_TBH2LP, FS_BM10ex_TINTLP, FS_BM10ex_TDVCS2LP, FS_BM10_TBH2LP, FS_BM10_TINTLP, FS_BM10_TDVCS2LP,
    FS_BM10tw2_TBH2LP, FS_BM10tw2_TINTLP, FS_BM10tw2_TDVCS2LP,
    FS_BMK_TBH2TP, FS_BMK_TINTTP, FS_BMK_TDVCS2TP, FS_hotfixedBMK_TBH2TP, FS_hotfixedBMK_TINTTP,
    FS_hotfixedBMK_TDVCS2TP, FS_BM10ex_TBH2TP, FS_BM10ex_TINTTP, FS_BM10ex_TDVCS2TP, FS_BM10_TBH2TP,
    FS_BM10_TINTTP, FS_BM10_TDVCS2TP, FS_BM10tw2_TBH2TP, FS_BM10tw2_TINTTP, FS_BM10tw2_TDVCS2TP, bmk_sym])

/-- the lepton-charge dependence of the cross section (unpolarised, longitudinal and transverse
    target alike) vanishes identically when all CFFs vanish … -/
theorem no_charge_dependence_without_cffs (c : Consts) (m : CFFs) (pt : Pt) (tg : Nat) (pol : ℝ) :
    XSaux_BMK c (zeroCFFs m) (flipChg pt) tg pol = XSaux_BMK c (zeroCFFs m) pt tg pol ∧
    XSaux_hotfixedBMK c (zeroCFFs m) (flipChg pt) tg pol = XSaux_hotfixedBMK c (zeroCFFs m) pt tg pol ∧
    XSaux_BM10ex c (zeroCFFs m) (flipChg pt) tg pol = XSaux_BM10ex c (zeroCFFs m) pt tg pol ∧
    XSaux_BM10 c (zeroCFFs m) (flipChg pt) tg pol = XSaux_BM10 c (zeroCFFs m) pt tg pol ∧
    XSaux_BM10tw2 c (zeroCFFs m) (flipChg pt) tg pol = XSaux_BM10tw2 c (zeroCFFs m) pt tg pol := by
  refine ⟨?_, ?_, ?_, ?_, ?_⟩ <;> xs_unfold

/-- … and when all elastic form factors vanish -/
theorem no_charge_dependence_without_effs (c : Consts) (m : CFFs) (pt : Pt) (tg : Nat) (pol : ℝ) :
    XSaux_BMK c (zeroEFF m) (flipChg pt) tg pol = XSaux_BMK c (zeroEFF m) pt tg pol ∧
    XSaux_hotfixedBMK c (zeroEFF m) (flipChg pt) tg pol = XSaux_hotfixedBMK c (zeroEFF m) pt tg pol ∧
    XSaux_BM10ex c (zeroEFF m) (flipChg pt) tg pol = XSaux_BM10ex c (zeroEFF m) pt tg pol ∧
    XSaux_BM10 c (zeroEFF m) (flipChg pt) tg pol = XSaux_BM10 c (zeroEFF m) pt tg pol ∧
    XSaux_BM10tw2 c (zeroEFF m) (flipChg pt) tg pol = XSaux_BM10tw2 c (zeroEFF m) pt tg pol := by
  refine ⟨?_, ?_, ?_, ?_, ?_⟩ <;> xs_unfold

/-! ### pure Bethe–Heitler: beam-spin, charge and target single-spin asymmetries are zero -/

/-- pure BH (all CFFs zero), unpolarised target: no helicity dependence (A_LU = 0); the charge
    asymmetry is zero by `no_charge_dependence_without_cffs` -/
theorem pure_BH_no_beam_asymmetry (c : Consts) (m : CFFs) (pt : Pt) :
    oddPol (unpBMK c (zeroCFFs m)) pt = 0 ∧ oddPol (unpHot c (zeroCFFs m)) pt = 0 ∧
    oddPol (unpEx c (zeroCFFs m)) pt = 0 ∧ oddPol (unpBM10 c (zeroCFFs m)) pt = 0 ∧
    oddPol (unpTw2 c (zeroCFFs m)) pt = 0 := by
  refine ⟨?_, ?_, ?_, ?_, ?_⟩ <;> bmk_close

/-- pure BH, longitudinal target: the target-spin term has no helicity-independent part, so the
    target single-spin asymmetry (unpolarised beam) is zero -/
theorem pure_BH_no_target_asymmetry (c : Consts) (m : CFFs) (pt : Pt) :
    evenPol (lpEx c (zeroCFFs m)) pt = 0 ∧ evenPol (lpBM10 c (zeroCFFs m)) pt = 0 ∧
    evenPol (lpTw2 c (zeroCFFs m)) pt = 0 := by
  refine ⟨?_, ?_, ?_⟩ <;> bmk_close

/-- non-vacuity: the transformations act on concrete data as intended -/
example (pt : Pt) (h : pt.phi = 1) : (mirror pt).phi = 2 * Real.pi - 1 ∧ (flipPol (flipChg pt)).in1charge = -pt.in1charge := by
  simp [h]

/-! ### the same statements at the level of the observables (Scalar/Obs.lean.in: model of the
flip-based constructions `_AC`, `_ALU`, `_TSA` of dvcs.py on top of the generated `XS_<Set>`) -/

theorem applyFlip_chg (pt : Pt) : Obs.applyFlip pt { chg := true } = flipChg pt := rfl
theorem applyFlip_pol (pt : Pt) : Obs.applyFlip pt { pol := true } = flipPol pt := rfl
theorem applyFlip_none (pt : Pt) : Obs.applyFlip pt {} = pt := rfl

/-- the full cross section of a set is charge independent for vanishing CFFs -/
theorem XS_flipChg_zeroCFFs (c : Consts) (m : CFFs) (pt : Pt) (tg : Nat) (pol : ℝ) (w : Bool) :
    XS_BMK c (zeroCFFs m) (flipChg pt) tg pol w = XS_BMK c (zeroCFFs m) pt tg pol w ∧
    XS_hotfixedBMK c (zeroCFFs m) (flipChg pt) tg pol w = XS_hotfixedBMK c (zeroCFFs m) pt tg pol w ∧
    XS_BM10ex c (zeroCFFs m) (flipChg pt) tg pol w = XS_BM10ex c (zeroCFFs m) pt tg pol w ∧
    XS_BM10 c (zeroCFFs m) (flipChg pt) tg pol w = XS_BM10 c (zeroCFFs m) pt tg pol w ∧
    XS_BM10tw2 c (zeroCFFs m) (flipChg pt) tg pol w = XS_BM10tw2 c (zeroCFFs m) pt tg pol w := by
  obtain ⟨h1, h2, h3, h4, h5⟩ := no_charge_dependence_without_cffs c m pt tg pol
  refine ⟨?_, ?_, ?_, ?_, ?_⟩ <;>
    simp only [XS_BMK, XS_hotfixedBMK, XS_BM10ex, XS_BM10, XS_BM10tw2, h1, h2, h3, h4, h5, bmk_sym]

/-- generic facts about the flip-based observables: a cross section that does not change under the
    flip has a vanishing asymmetry (whenever the asymmetry is defined at all) -/
theorem Obs_AC_zero (xs : Obs.XSfun) (pt : Pt) (p2 v : ℝ) (h : xs (flipChg pt) p2 = xs pt p2) :
    Obs.AC xs pt p2 = some v → v = 0 := by
  intro hv
  simp only [Obs.AC, Obs.xsF, applyFlip_chg, applyFlip_none, h, Bool.false_eq_true, if_false] at hv
  cases hx : xs pt p2 <;> simp [hx] at hv
  rw [← hv]

theorem Obs_ALU_zero (xs : Obs.XSfun) (pt : Pt) (p2 v : ℝ) (h : xs (flipPol pt) p2 = xs pt p2) :
    Obs.ALU xs pt p2 = some v → v = 0 := by
  intro hv
  simp only [Obs.ALU, Obs.XLU, Obs.XUU, Obs.xsF, applyFlip_pol, applyFlip_none, h, Bool.false_eq_true, if_false] at hv
  cases hx : xs pt p2 <;> simp [hx] at hv
  rw [← hv]

theorem Obs_TSA_zero (xs : Obs.XSfun) (pt : Pt) (p2 v : ℝ) (h : xs pt (-p2) = xs pt p2) :
    Obs.TSA xs pt p2 = some v → v = 0 := by
  intro hv
  have hf : Obs.applyFlip pt { tpol := true } = pt := rfl
  simp only [Obs.TSA, Obs.xsF, applyFlip_none, hf, h, Bool.false_eq_true, if_false, if_true] at hv
  cases hx : xs pt p2 <;> simp [hx] at hv
  rw [← hv]

/-- **pure Bethe–Heitler: the beam-charge asymmetry `_AC` is zero** whenever it is defined — every
    formula set, every target state, weighted or not -/
theorem pure_BH_AC_zero (c : Consts) (m : CFFs) (pt : Pt) (tg : Nat) (pol : ℝ) (w : Bool) (v : ℝ) :
    (Obs.AC (fun p q => XS_BMK c (zeroCFFs m) p tg q w) pt pol = some v → v = 0) ∧
    (Obs.AC (fun p q => XS_hotfixedBMK c (zeroCFFs m) p tg q w) pt pol = some v → v = 0) ∧
    (Obs.AC (fun p q => XS_BM10ex c (zeroCFFs m) p tg q w) pt pol = some v → v = 0) ∧
    (Obs.AC (fun p q => XS_BM10 c (zeroCFFs m) p tg q w) pt pol = some v → v = 0) ∧
    (Obs.AC (fun p q => XS_BM10tw2 c (zeroCFFs m) p tg q w) pt pol = some v → v = 0) := by
  obtain ⟨h1, h2, h3, h4, h5⟩ := XS_flipChg_zeroCFFs c m pt tg pol w
  exact ⟨Obs_AC_zero _ pt pol v h1, Obs_AC_zero _ pt pol v h2, Obs_AC_zero _ pt pol v h3,
    Obs_AC_zero _ pt pol v h4, Obs_AC_zero _ pt pol v h5⟩

/-- pure BH on an unpolarised target does not depend on the beam helicity -/
theorem XS_flipPol_zeroCFFs_unp (c : Consts) (m : CFFs) (pt : Pt) (pol : ℝ) (w : Bool) :
    XS_BMK c (zeroCFFs m) (flipPol pt) 0 pol w = XS_BMK c (zeroCFFs m) pt 0 pol w ∧
    XS_hotfixedBMK c (zeroCFFs m) (flipPol pt) 0 pol w = XS_hotfixedBMK c (zeroCFFs m) pt 0 pol w ∧
    XS_BM10ex c (zeroCFFs m) (flipPol pt) 0 pol w = XS_BM10ex c (zeroCFFs m) pt 0 pol w ∧
    XS_BM10 c (zeroCFFs m) (flipPol pt) 0 pol w = XS_BM10 c (zeroCFFs m) pt 0 pol w ∧
    XS_BM10tw2 c (zeroCFFs m) (flipPol pt) 0 pol w = XS_BM10tw2 c (zeroCFFs m) pt 0 pol w := by
  refine ⟨?_, ?_, ?_, ?_, ?_⟩ <;>
    (simp only [XS_BMK, XS_hotfixedBMK, XS_BM10ex, XS_BM10, XS_BM10tw2]; xs_unfold)

/-- **pure Bethe–Heitler: the beam-spin asymmetry `_ALU` (unpolarised target) is zero** whenever defined -/
theorem pure_BH_ALU_zero (c : Consts) (m : CFFs) (pt : Pt) (pol : ℝ) (w : Bool) (v : ℝ) :
    (Obs.ALU (fun p q => XS_BMK c (zeroCFFs m) p 0 q w) pt pol = some v → v = 0) ∧
    (Obs.ALU (fun p q => XS_hotfixedBMK c (zeroCFFs m) p 0 q w) pt pol = some v → v = 0) ∧
    (Obs.ALU (fun p q => XS_BM10ex c (zeroCFFs m) p 0 q w) pt pol = some v → v = 0) ∧
    (Obs.ALU (fun p q => XS_BM10 c (zeroCFFs m) p 0 q w) pt pol = some v → v = 0) ∧
    (Obs.ALU (fun p q => XS_BM10tw2 c (zeroCFFs m) p 0 q w) pt pol = some v → v = 0) := by
  obtain ⟨h1, h2, h3, h4, h5⟩ := XS_flipPol_zeroCFFs_unp c m pt pol w
  exact ⟨Obs_ALU_zero _ pt pol v h1, Obs_ALU_zero _ pt pol v h2, Obs_ALU_zero _ pt pol v h3,
    Obs_ALU_zero _ pt pol v h4, Obs_ALU_zero _ pt pol v h5⟩

/-- pure BH, unpolarised beam (helicity 0), longitudinal target: the cross section does not depend on
    the sign of the target polarisation, so the target single-spin asymmetry `_TSA` is zero — BM10 family -/
theorem pure_BH_TSA_zero (c : Consts) (m : CFFs) (pt : Pt) (h0 : pt.in1polarization = 0) (pol : ℝ) (w : Bool) (v : ℝ) :
    (Obs.TSA (fun p q => XS_BM10ex c (zeroCFFs m) p 1 q w) pt pol = some v → v = 0) ∧
    (Obs.TSA (fun p q => XS_BM10 c (zeroCFFs m) p 1 q w) pt pol = some v → v = 0) ∧
    (Obs.TSA (fun p q => XS_BM10tw2 c (zeroCFFs m) p 1 q w) pt pol = some v → v = 0) := by
  have hflip : flipPol pt = pt := by
    cases pt; simp only [flipPol] at *; simp_all
  -- the LP Bethe–Heitler coefficients are odd in the helicity, hence zero at helicity 0
  have hz : ∀ f : Pt → ℝ, (f (flipPol pt) = -f pt) → f pt = 0 := by
    intro f hf; rw [hflip] at hf; linarith
  have c0 := hz (fun p => BM10ex.cBH0LP c (zeroCFFs m) p) (BM10ex_cBH0LP_flipPol c (zeroCFFs m) pt)
  have c1 := hz (fun p => BM10ex.cBH1LP c (zeroCFFs m) p) (BM10ex_cBH1LP_flipPol c (zeroCFFs m) pt)
  have key : ∀ q : ℝ, XS_BM10ex c (zeroCFFs m) pt 1 q w = XS_BM10ex c (zeroCFFs m) pt 1 pol w ∧
      XS_BM10 c (zeroCFFs m) pt 1 q w = XS_BM10 c (zeroCFFs m) pt 1 pol w ∧
      XS_BM10tw2 c (zeroCFFs m) pt 1 q w = XS_BM10tw2 c (zeroCFFs m) pt 1 pol w := by
    intro q
    refine ⟨?_, ?_, ?_⟩ <;>
      (simp only [XS_BM10ex, XS_BM10, XS_BM10tw2]; xs_unfold
       bridge_simp [BM10ex.TBH2LP, c0, c1, zero_mul, add_zero, mul_zero])
  exact ⟨Obs_TSA_zero _ pt pol v (key (-pol)).1, Obs_TSA_zero _ pt pol v (key (-pol)).2.1,
    Obs_TSA_zero _ pt pol v (key (-pol)).2.2⟩

end Gep.R.C07

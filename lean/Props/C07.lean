/-
  Props/C07.lean — property C07: cross sections have the required azimuthal, T-odd and charge
  structure.  Theorems over ℝ about Gen/BmkR.lean — the model REGENERATED from
  /repo/src/gepard/{kinematics,bmk,dvcs}.py by tools/py2lean.py on every run — using the symmetry
  lemmas of Gen/BmkSymR.lean (also regenerated).  For every formula set, all kinematics, all
  CFF / form-factor values.
-/
import Gen.BmkSymR
import Proofs.Trig

namespace Gep.R.C07
open Gep.R

set_option maxRecDepth 4000

/-- part of a point function that is independent of / proportional to the beam helicity -/
noncomputable def evenPol (f : Pt → ℝ) (pt : Pt) : ℝ := (f pt + f (flipPol pt)) / 2
noncomputable def oddPol (f : Pt → ℝ) (pt : Pt) : ℝ := (f pt - f (flipPol pt)) / 2

/-- the BH propagator product, recomputed at the mirrored angle, is unchanged (it depends on cos φ) -/
theorem P1P2_mirror (c : Consts) (pt : Pt) : P1P2 c (mirror pt) = P1P2 c pt := by
  simp only [P1P2, bmk_sym, kcos_mirror]

/-- unpolarised-target part of the cross section (up to the common prefactor) per formula set -/
noncomputable def unpBMK (c : Consts) (m : CFFs) (pt : Pt) : ℝ :=
  FS_BMK_TBH2unp c m pt + FS_BMK_TINTunp c m pt + FS_BMK_TDVCS2unp c m pt
noncomputable def unpHot (c : Consts) (m : CFFs) (pt : Pt) : ℝ :=
  FS_hotfixedBMK_TBH2unp c m pt + FS_hotfixedBMK_TINTunp c m pt + FS_hotfixedBMK_TDVCS2unp c m pt
noncomputable def unpEx (c : Consts) (m : CFFs) (pt : Pt) : ℝ :=
  FS_BM10ex_TBH2unp c m pt + FS_BM10ex_TINTunp c m pt + FS_BM10ex_TDVCS2unp c m pt
noncomputable def unpBM10 (c : Consts) (m : CFFs) (pt : Pt) : ℝ :=
  FS_BM10_TBH2unp c m pt + FS_BM10_TINTunp c m pt + FS_BM10_TDVCS2unp c m pt
noncomputable def unpTw2 (c : Consts) (m : CFFs) (pt : Pt) : ℝ :=
  FS_BM10tw2_TBH2unp c m pt + FS_BM10tw2_TINTunp c m pt + FS_BM10tw2_TDVCS2unp c m pt
/-- longitudinally-polarised-target part (coefficient of the target polarisation), BM10 family -/
noncomputable def lpEx (c : Consts) (m : CFFs) (pt : Pt) : ℝ :=
  FS_BM10ex_TBH2LP c m pt + FS_BM10ex_TINTLP c m pt + FS_BM10ex_TDVCS2LP c m pt
noncomputable def lpBM10 (c : Consts) (m : CFFs) (pt : Pt) : ℝ :=
  FS_BM10_TBH2LP c m pt + FS_BM10_TINTLP c m pt + FS_BM10_TDVCS2LP c m pt
noncomputable def lpTw2 (c : Consts) (m : CFFs) (pt : Pt) : ℝ :=
  FS_BM10tw2_TBH2LP c m pt + FS_BM10tw2_TINTLP c m pt + FS_BM10tw2_TDVCS2LP c m pt

/-- `simp` set that unfolds the T-terms one level and applies every generated symmetry lemma -/
macro "bmk_unfold" : tactic => `(tactic|
  simp only [evenPol, oddPol, unpBMK, unpHot, unpEx, unpBM10, unpTw2, lpEx, lpBM10, lpTw2,
    FS_BMK_TBH2unp, FS_BMK_TINTunp, FS_BMK_TDVCS2unp, FS_hotfixedBMK_TBH2unp, FS_hotfixedBMK_TINTunp,
    FS_hotfixedBMK_TDVCS2unp, FS_BM10ex_TBH2unp, FS_BM10ex_TINTunp, FS_BM10ex_TDVCS2unp, FS_BM10_TBH2unp,
    FS_BM10_TINTunp, FS_BM10_TDVCS2unp, FS_BM10tw2_TBH2unp, FS_BM10tw2_TINTunp, FS_BM10tw2_TDVCS2unp,
    FS_BM10ex_TBH2LP, FS_BM10ex_TINTLP, FS_BM10ex_TDVCS2LP, FS_BM10_TBH2LP, FS_BM10_TINTLP, FS_BM10_TDVCS2LP,
    FS_BM10tw2_TBH2LP, FS_BM10tw2_TINTLP, FS_BM10tw2_TDVCS2LP,
    BMK.TBH2unp, BMK.TINTunp, BMK.TDVCS2unp, hotfixedBMK.TINTunp, hotfixedBMK.TDVCS2unp,
    BM10ex.TINTunp, BM10ex.TDVCS2unp, BM10.TINTunp, BM10.TDVCS2unp, BM10tw2.TINTunp,
    BM10ex.TBH2LP, BM10ex.TINTLP, BM10ex.TDVCS2LP, BM10.TINTLP, BM10.TDVCS2LP, BM10tw2.TINTLP,
    bmk_sym, kcos_mirror, ksin_mirror, kcos_mirror2, ksin_mirror2, kcos_mirror3, ksin_mirror3])

/-! ### φ → 2π − φ -/

/-- the helicity-independent part is even and the beam single-spin part is odd — all five sets -/
theorem unp_mirror_BMK (c : Consts) (m : CFFs) (pt : Pt) :
    evenPol (unpBMK c m) (mirror pt) = evenPol (unpBMK c m) pt ∧
    oddPol (unpBMK c m) (mirror pt) = -oddPol (unpBMK c m) pt := by
  constructor <;> (bmk_unfold; ring)

theorem unp_mirror_hotfixedBMK (c : Consts) (m : CFFs) (pt : Pt) :
    evenPol (unpHot c m) (mirror pt) = evenPol (unpHot c m) pt ∧
    oddPol (unpHot c m) (mirror pt) = -oddPol (unpHot c m) pt := by
  constructor <;> (bmk_unfold; ring)

theorem unp_mirror_BM10ex (c : Consts) (m : CFFs) (pt : Pt) :
    evenPol (unpEx c m) (mirror pt) = evenPol (unpEx c m) pt ∧
    oddPol (unpEx c m) (mirror pt) = -oddPol (unpEx c m) pt := by
  constructor <;> (bmk_unfold; ring)

theorem unp_mirror_BM10 (c : Consts) (m : CFFs) (pt : Pt) :
    evenPol (unpBM10 c m) (mirror pt) = evenPol (unpBM10 c m) pt ∧
    oddPol (unpBM10 c m) (mirror pt) = -oddPol (unpBM10 c m) pt := by
  constructor <;> (bmk_unfold; ring)

theorem unp_mirror_BM10tw2 (c : Consts) (m : CFFs) (pt : Pt) :
    evenPol (unpTw2 c m) (mirror pt) = evenPol (unpTw2 c m) pt ∧
    oddPol (unpTw2 c m) (mirror pt) = -oddPol (unpTw2 c m) pt := by
  constructor <;> (bmk_unfold; ring)

/-- longitudinal target: the target single-spin part (helicity-independent) is odd, the double-spin
    part (∝ helicity) is even — BM10 family -/
theorem lp_mirror_BM10ex (c : Consts) (m : CFFs) (pt : Pt) :
    evenPol (lpEx c m) (mirror pt) = -evenPol (lpEx c m) pt ∧
    oddPol (lpEx c m) (mirror pt) = oddPol (lpEx c m) pt := by
  constructor <;> (bmk_unfold; ring)

theorem lp_mirror_BM10 (c : Consts) (m : CFFs) (pt : Pt) :
    evenPol (lpBM10 c m) (mirror pt) = -evenPol (lpBM10 c m) pt ∧
    oddPol (lpBM10 c m) (mirror pt) = oddPol (lpBM10 c m) pt := by
  constructor <;> (bmk_unfold; ring)

theorem lp_mirror_BM10tw2 (c : Consts) (m : CFFs) (pt : Pt) :
    evenPol (lpTw2 c m) (mirror pt) = -evenPol (lpTw2 c m) pt ∧
    oddPol (lpTw2 c m) (mirror pt) = oddPol (lpTw2 c m) pt := by
  constructor <;> (bmk_unfold; ring)

end Gep.R.C07

/-
  Props/C06.lean — property C06: alternative DVCS formula sets agree in the Bjorken limit and respect
  parity.  Theorems over ℝ about Gen/BmkR.lean (regenerated from bmk.py on every run) using the
  generated vanishing lemmas of Gen/BmkSymR.lean.

  Full statement (all ten pairs of sets, squared-DVCS and interference, unpolarised and — within the
  BM10 family — longitudinal target: relative differences vanish like 1/Q² at fixed xB, t, y, φ) is NOT
  proved in full.  Proved: the parity (bilinearity) clause for BM10 and BM10tw2, its failure for BM10ex
  (a concrete witness), the exact relations between the squared-DVCS terms of BMK, hotfixedBMK, BM10 and
  BM10tw2, and the explicit 1/Q² bound they imply.  The interference tables (~200 entries) and BM10ex's
  t/Q² terms are covered by the coefficient-by-coefficient correspondence and the N-version oracle.
-/
import Gen.BmkSymR
import Proofs.Bridge
import Mathlib.Tactic.FieldSimp
import Mathlib.Tactic.Linarith
import Mathlib.Tactic.Positivity

namespace Gep.R.C06
open Gep.R

set_option maxRecDepth 4000

/-! ### parity: the target-spin dependent squared-DVCS term is bilinear vector × axial -/

/-- BM10 and BM10tw2: TDVCS2LP vanishes when all vector CFFs (H, E and their effective versions) vanish
    and when all axial-vector CFFs (H̃, Ẽ …) vanish — all kinematics, helicities, other CFF values -/
theorem TDVCS2LP_bilinear_BM10 (c : Consts) (m : CFFs) (pt : Pt) :
    FS_BM10_TDVCS2LP c (zeroVec m) pt = 0 ∧ FS_BM10_TDVCS2LP c (zeroAx m) pt = 0 ∧
    FS_BM10tw2_TDVCS2LP c (zeroVec m) pt = 0 ∧ FS_BM10tw2_TDVCS2LP c (zeroAx m) pt = 0 := by
  simp only [FS_BM10_TDVCS2LP, FS_BM10tw2_TDVCS2LP, BM10_TDVCS2LP_zeroVec, BM10_TDVCS2LP_zeroAx, and_self]

/-- BM10ex does NOT have the property: its 𝒞^DVCS_LP coefficient is the unpolarised expression
    (4(1−xB)·H·H* + …), which survives when every axial CFF is zero.  Witness: xB = 1/2, Q² = 4,
    t = −1, M² = 1, H = 1, everything else 0. -/
theorem TDVCS2LP_not_bilinear_BM10ex :
    ∃ (c : Consts) (m : CFFs) (pt : Pt),
      BM10ex.CCALDVCSLP_im0_leff0_reff0 c (zeroAx m) pt ≠ 0 := by
  refine ⟨⟨1, 1, 1, 1⟩, { CFFs.zero with ReH := 1 },
    { Pt.zero with Q2 := 4, xB := 1/2, t := -1, y := 1/2, eps2 := 1/4 }, ?_⟩
  simp only [BM10ex.CCALDVCSLP_im0_leff0_reff0, bmk_sym, Pt.zero, CFFs.zero, Gep.Cx.mk_re, Gep.Cx.mk_im, Gep.Cx.add_re, Gep.Cx.add_im,
    Gep.Cx.sub_re, Gep.Cx.sub_im, Gep.Cx.neg_re, Gep.Cx.neg_im, Gep.Cx.mul_re, Gep.Cx.mul_im, Gep.Cx.smul_re,
    Gep.Cx.smul_im, Gep.Cx.divR_re, Gep.Cx.divR_im, Gep.Cx.ofReal_re, Gep.Cx.ofReal_im]
  norm_num

/-- the same for the TERM itself (the coefficient-level statement above would be compatible with a vanishing term:
    at helicity 0 the term is 0 whatever the coefficient): with beam helicity 1 and every axial CFF zero,
    TDVCS2LP of BM10ex is not zero  (statement and proof from the independent audit, notes/audit) -/
theorem TDVCS2LP_not_bilinear_BM10ex_term :
    ∃ (c : Consts) (m : CFFs) (pt : Pt), FS_BM10ex_TDVCS2LP c (zeroAx m) pt ≠ 0 := by
  refine ⟨⟨1, 1, 1, 1⟩, { CFFs.zero with ReH := 1 },
    { Pt.zero with Q2 := 4, xB := 1/2, t := -1, y := 1/2, eps2 := 1/4, in1polarization := 1 }, ?_⟩
  have hC : BM10ex.CCALDVCSLP_im0_leff0_reff0 ⟨1, 1, 1, 1⟩ (zeroAx { CFFs.zero with ReH := 1 })
      { Pt.zero with Q2 := 4, xB := 1/2, t := -1, y := 1/2, eps2 := 1/4, in1polarization := 1 } ≠ 0 := by
    simp only [BM10ex.CCALDVCSLP_im0_leff0_reff0, bmk_sym, Pt.zero, CFFs.zero, Gep.Cx.mk_re, Gep.Cx.mk_im, Gep.Cx.add_re,
      Gep.Cx.add_im, Gep.Cx.sub_re, Gep.Cx.sub_im, Gep.Cx.neg_re, Gep.Cx.neg_im, Gep.Cx.mul_re, Gep.Cx.mul_im,
      Gep.Cx.smul_re, Gep.Cx.smul_im, Gep.Cx.divR_re, Gep.Cx.divR_im, Gep.Cx.ofReal_re, Gep.Cx.ofReal_im]
    norm_num
  have hs : ksqrt (1 + 1/4) ≠ 0 := by
    unfold ksqrt; exact (Real.sqrt_pos.mpr (by norm_num)).ne'
  simp only [FS_BM10ex_TDVCS2LP, BM10ex.TDVCS2LP, BM10ex.cDVCS0LP, BM10ex.cDVCS1LP, BM10ex.sDVCS1LP, BMK.PreFacDVCS]
  generalize BM10ex.CCALDVCSLP_im0_leff0_reff0 _ _ _ = C at hC
  generalize BM10ex.CCALDVCSLP_im0_leff1_reff0 _ _ _ = C1
  generalize BM10ex.CCALDVCSLP_im1_leff1_reff0 _ _ _ = C2
  simp only [Pt.zero, mul_zero, zero_mul, zero_div, neg_zero, add_zero]
  have : (2 * (1:ℝ) * (1/2) * (2 - 1/2) / ksqrt (1 + 1/4)) ≠ 0 := by
    apply div_ne_zero (by norm_num) hs
  apply mul_ne_zero (by norm_num) (mul_ne_zero this hC)

/-! ### BM10tw2 is BM10 with the second and third interference harmonics switched off — exactly -/

theorem TINTunp_BM10_vs_tw2 (c : Consts) (m : CFFs) (pt : Pt) :
    FS_BM10_TINTunp c m pt - FS_BM10tw2_TINTunp c m pt =
      (-pt.in1charge) * BMK.PreFacINT c m pt *
        (BM10.cINT2unp c m pt * kcos (2 * pt.phi) + BM10.cINT3unp c m pt * kcos (3 * pt.phi)
          + BM10.sINT2unp c m pt * ksin (2 * pt.phi) + BM10.sINT3unp c m pt * ksin (3 * pt.phi)) := by
  simp only [FS_BM10_TINTunp, FS_BM10tw2_TINTunp, BM10.TINTunp, BM10tw2.TINTunp, BM10tw2.cINT2unp, BM10tw2.cINT3unp,
    BM10tw2.sINT2unp, BM10tw2.sINT3unp]
  ring

theorem TINTLP_BM10_vs_tw2 (c : Consts) (m : CFFs) (pt : Pt) :
    FS_BM10_TINTLP c m pt - FS_BM10tw2_TINTLP c m pt =
      (-pt.in1charge) * BMK.PreFacINT c m pt *
        (BM10.cINT2LP c m pt * kcos (2 * pt.phi) + BM10.cINT3LP c m pt * kcos (3 * pt.phi)
          + BM10.sINT2LP c m pt * ksin (2 * pt.phi) + BM10.sINT3LP c m pt * ksin (3 * pt.phi)) := by
  simp only [FS_BM10_TINTLP, FS_BM10tw2_TINTLP, BM10.TINTLP, BM10tw2.TINTLP, BM10tw2.cINT2LP, BM10tw2.cINT3LP,
    BM10tw2.sINT2LP, BM10tw2.sINT3LP]
  ring

/-- … and the two sets share the squared-DVCS and Bethe–Heitler terms -/
theorem DVCS2_BH_BM10_eq_tw2 (c : Consts) (m : CFFs) (pt : Pt) :
    FS_BM10tw2_TDVCS2unp c m pt = FS_BM10_TDVCS2unp c m pt ∧ FS_BM10tw2_TDVCS2LP c m pt = FS_BM10_TDVCS2LP c m pt ∧
    FS_BM10tw2_TBH2unp c m pt = FS_BM10_TBH2unp c m pt := ⟨rfl, rfl, rfl⟩

/-! ### squared-DVCS term, unpolarised target: exact relations between the sets -/

/-- the twist-two 𝒞^DVCS_unp of BM10 is BMK's (66) -/
theorem CCALDVCSunp_BM10_eq_BMK (c : Consts) (m : CFFs) (pt : Pt) :
    BM10.CCALDVCSunp_im0_leff0_reff0 c m pt = BMK.CCALDVCSunp c m pt := by
  bridge_simp [BM10.CCALDVCSunp_im0_leff0_reff0, BMK.CCALDVCSunp, Gep.Cx.mk_re, Gep.Cx.mk_im, Gep.Cx.add_re,
    Gep.Cx.add_im, Gep.Cx.sub_re, Gep.Cx.sub_im, Gep.Cx.neg_re, Gep.Cx.neg_im, Gep.Cx.mul_re, Gep.Cx.mul_im,
    Gep.Cx.smul_re, Gep.Cx.smul_im, Gep.Cx.divR_re, Gep.Cx.divR_im, Gep.Cx.ofReal_re, Gep.Cx.ofReal_im]

/-- for the eight CFFs the property quantifies over (no effective twist-three CFFs), the squared-DVCS
    terms of BM10 and BM10tw2 are exactly the one of hotfixedBMK, for every Q² -/
theorem TDVCS2unp_BM10_eq_hotfixed (c : Consts) (m : CFFs) (pt : Pt) :
    FS_BM10_TDVCS2unp c (noEff m) pt = FS_hotfixedBMK_TDVCS2unp c (noEff m) pt ∧
    FS_BM10tw2_TDVCS2unp c (noEff m) pt = FS_hotfixedBMK_TDVCS2unp c (noEff m) pt := by
  have key : BM10.TDVCS2unp c (noEff m) pt = hotfixedBMK.TDVCS2unp c (noEff m) pt := by
    bridge_simp [BM10.TDVCS2unp, hotfixedBMK.TDVCS2unp, BM10.cDVCS0unp, hotfixedBMK.cDVCS0unp,
      BM10_cDVCS1unp_noEff, BM10_sDVCS1unp_noEff, BM10_CCALDVCSunp_im0_leff1_reff1_noEff,
      CCALDVCSunp_BM10_eq_BMK, mul_zero, zero_mul, add_zero]
  exact ⟨key, key⟩

/-- hotfixedBMK versus BMK: the squared-DVCS terms differ by the factor
    (2−2y+y²+ε²y²/2) / ((1+ε²)(2−2y+y²)) = 1 − ε²·(2−2y+y²/2) / ((1+ε²)(2−2y+y²)) -/
theorem TDVCS2unp_hotfixed_vs_BMK (c : Consts) (m : CFFs) (pt : Pt) (he : 1 + pt.eps2 ≠ 0)
    (hy : 2 - 2 * pt.y + pt.y ^ 2 ≠ 0) :
    FS_hotfixedBMK_TDVCS2unp c m pt =
      FS_BMK_TDVCS2unp c m pt *
        (1 - pt.eps2 * ((2 - 2 * pt.y + pt.y ^ 2 / 2) / ((1 + pt.eps2) * (2 - 2 * pt.y + pt.y ^ 2)))) := by
  -- bridging steps (generated definition = hand-written form, up to field arithmetic: Proofs/Bridge.lean)
  have hTh : hotfixedBMK.TDVCS2unp c m pt =
      BMK.PreFacDVCS c m pt * (hotfixedBMK.CDVCSunpPP c m pt * BMK.CCALDVCSunp c m pt) := by
    bridge_simp [hotfixedBMK.TDVCS2unp, hotfixedBMK.cDVCS0unp]
  have hTb : BMK.TDVCS2unp c m pt = BMK.PreFacDVCS c m pt * (BMK.CDVCSunpPP c m pt * BMK.CCALDVCSunp c m pt) := by
    bridge_simp [BMK.TDVCS2unp, BMK.cDVCS0unp]
  have hPh : hotfixedBMK.CDVCSunpPP c m pt =
      2 * ((2 - 2 * pt.y + pt.y ^ 2 + pt.eps2 * pt.y ^ 2 / 2) / (1 + pt.eps2)) := by
    bridge_simp [hotfixedBMK.CDVCSunpPP]
  have hPb : BMK.CDVCSunpPP c m pt = 2 * (2 - 2 * pt.y + pt.y ^ 2) := by
    bridge_simp [BMK.CDVCSunpPP]
  simp only [FS_hotfixedBMK_TDVCS2unp, FS_BMK_TDVCS2unp, hTh, hTb, hPh, hPb]
  have hA : 2 - 2 * pt.y + pt.y ^ 2 / 2 = (2 - 2 * pt.y + pt.y ^ 2) - pt.y ^ 2 / 2 := by ring
  rw [hA]
  generalize BMK.PreFacDVCS c m pt = P
  generalize BMK.CCALDVCSunp c m pt = C
  generalize 2 - 2 * pt.y + pt.y ^ 2 = A at hy ⊢
  generalize pt.eps2 = e at he ⊢
  generalize pt.y = y
  field_simp
  ring

/-- hence the relative difference vanishes like 1/Q²: with ε² = 4xB²M²/Q² (as `prepare` sets it) and
    0 ≤ y ≤ 1,  |T_hot − T_BMK| ≤ (4 xB² M²/Q²) · 2 · |T_BMK|  -/
theorem TDVCS2unp_hotfixed_BMK_bound (c : Consts) (m : CFFs) (pt : Pt) (hQ : 0 < pt.Q2)
    (heps : pt.eps2 = 4 * pt.xB ^ 2 * c.Mp2 / pt.Q2) (hM : 0 ≤ c.Mp2) (_hy0 : 0 ≤ pt.y) (hy1 : pt.y ≤ 1) :
    |FS_hotfixedBMK_TDVCS2unp c m pt - FS_BMK_TDVCS2unp c m pt| ≤
      (4 * pt.xB ^ 2 * c.Mp2 / pt.Q2) * 2 * |FS_BMK_TDVCS2unp c m pt| := by
  have he0 : 0 ≤ pt.eps2 := by rw [heps]; positivity
  have he : 1 + pt.eps2 ≠ 0 := by positivity
  have hyq : 0 < 2 - 2 * pt.y + pt.y ^ 2 := by nlinarith [sq_nonneg (pt.y - 1)]
  rw [TDVCS2unp_hotfixed_vs_BMK c m pt he (ne_of_gt hyq)]
  set T := FS_BMK_TDVCS2unp c m pt
  set g := (2 - 2 * pt.y + pt.y ^ 2 / 2) / ((1 + pt.eps2) * (2 - 2 * pt.y + pt.y ^ 2))
  have hg0 : 0 ≤ g := by
    apply div_nonneg
    · nlinarith [sq_nonneg pt.y]
    · positivity
  have hg2 : g ≤ 2 := by
    rw [div_le_iff₀ (by positivity)]
    nlinarith [sq_nonneg pt.y, mul_nonneg he0 (le_of_lt hyq)]
  have : T * (1 - pt.eps2 * g) - T = -(pt.eps2 * g) * T := by ring
  rw [this, abs_mul, abs_neg, abs_of_nonneg (mul_nonneg he0 hg0), ← heps]
  have : pt.eps2 * g ≤ pt.eps2 * 2 := mul_le_mul_of_nonneg_left hg2 he0
  exact mul_le_mul_of_nonneg_right this (abs_nonneg T)

end Gep.R.C06

/-
  Model/UncLoop.lean — the parameter bookkeeping of `Theory.predict(pt, uncertainty=True)` (theory.py):
  for every free parameter the value is shifted up and down by half its error, the observable is evaluated, and a
  `finally` clause puts the value back.  The observable is a parameter (`ev`: value or exception, as a function
  of the parameter dictionary it sees); so are the errors (`herr p = none`: `parameters_errors[p]` raises KeyError).
                                                                                      (properties C18, C12)
-/
import Model.FitSync
import Model.Predict
namespace Gep.Unc
open Gep.Fit (Name dget dset)
open Gep.Pred (Res)

/-- the dictionaries the observable is evaluated at, in order -/
abbrev Trace (V : Type) := List (List (Name × V))

structure LoopRes (V R : Type) where
  params : List (Name × V)          -- theory.parameters after the loop (or after the exception left it)
  trace : Trace V                   -- every dictionary `fun(pt)` saw
  out : Res (List (Name × R × R))   -- (up, down) per parameter, or the exception that ended the loop

/-- one pass of the loop body for parameter `p` -/
def stepP {V H R : Type} (ev : List (Name × V) → Res R) (up dn : V → H → V) (herr : Name → Option H)
    (ps : List (Name × V)) (p : Name) : List (Name × V) × Trace V × Res (R × R) :=
  match herr p with
  | none => (ps, [], .exc "KeyError")                  -- h = self.parameters_errors[p]
  | some h =>
    match dget ps p with
    | none => (ps, [], .exc "KeyError")                -- mem = self.parameters[p]
    | some mem =>
      let ps1 := dset ps p (up mem h)
      match ev ps1 with
      | .exc e => (dset ps1 p mem, [ps1], .exc e)                       -- finally: parameters[p] = mem
      | .val u =>
        let ps2 := dset ps1 p (dn mem h)
        match ev ps2 with
        | .exc e => (dset ps2 p mem, [ps1, ps2], .exc e)                -- finally
        | .val d => (dset ps2 p mem, [ps1, ps2], .val (u, d))           -- finally

/-- `for p in pars: …` — an exception ends the loop (and the call) -/
def loop {V H R : Type} (ev : List (Name × V) → Res R) (up dn : V → H → V) (herr : Name → Option H) :
    List (Name × V) → List Name → LoopRes V R
  | ps, [] => { params := ps, trace := [], out := .val [] }
  | ps, p :: rest =>
    match stepP ev up dn herr ps p with
    | (ps', tr, .exc e) => { params := ps', trace := tr, out := .exc e }
    | (ps', tr, .val (u, d)) =>
      let r := loop ev up dn herr ps' rest
      { params := r.params, trace := tr ++ r.trace,
        out := match r.out with
          | .val l => .val ((p, u, d) :: l)
          | .exc e => .exc e }

/-- the loop WITHOUT the `finally` clause (the code before fix a0c2b37): the value is put back only when both
    evaluations returned -/
def stepPOld {V H R : Type} (ev : List (Name × V) → Res R) (up dn : V → H → V) (herr : Name → Option H)
    (ps : List (Name × V)) (p : Name) : List (Name × V) × Res (R × R) :=
  match herr p, dget ps p with
  | some h, some mem =>
    let ps1 := dset ps p (up mem h)
    match ev ps1 with
    | .exc e => (ps1, .exc e)
    | .val u =>
      let ps2 := dset ps1 p (dn mem h)
      match ev ps2 with
      | .exc e => (ps2, .exc e)
      | .val d => (dset ps2 p mem, .val (u, d))
  | _, _ => (ps, .exc "KeyError")

end Gep.Unc

/-
  Model/DataSetOps.lean — executable model of gepard.data: select, DataSet.__getitem__ (slices),
  DataSet.__add__, attribute transfer, DataPoint.copy.   (property C17)

  A dataset is a list of points plus an attribute dictionary (association list in insertion
  order).  `select`'s criteria are abstract decidable predicates on points: the real code
  obtains them with `eval('pt.' + criterion)`; the correspondence harness evaluates the same
  comparisons independently and ships the truth table.
-/
namespace Gep.DS

structure DSet (α : Type) (β : Type) where
  pts : List α
  attrs : List (String × β)

/-! ### select -/

/-- `logic == 'AND'`: the inner loop sets ok=False and breaks at the first failing criterion -/
def andLoop {α : Type} (p : α) : List (α → Bool) → Bool
  | [] => true
  | c :: cs => if c p then andLoop p cs else false

/-- `logic == 'OR'`: append at the first satisfied criterion and leave the inner loop -/
def orLoop {α : Type} (p : α) (sel : List α) : List (α → Bool) → List α
  | [] => sel
  | c :: cs => if c p then sel ++ [p] else orLoop p sel cs

/-- the OR loop of the code before the repair (no `break`): one append per satisfied criterion -/
def orLoopOld {α : Type} (p : α) (sel : List α) : List (α → Bool) → List α
  | [] => sel
  | c :: cs => if c p then orLoopOld p (sel ++ [p]) cs else orLoopOld p sel cs

inductive Logic | AND | OR | other
deriving DecidableEq, Repr

def selectPts {α : Type} (logic : Logic) (crit : List (α → Bool)) (pts : List α) : List α :=
  pts.foldl (fun sel p =>
    match logic with
    | .OR => orLoop p sel crit
    | .AND => if andLoop p crit then sel ++ [p] else sel
    | .other => sel) []

def selectPtsOld {α : Type} (crit : List (α → Bool)) (pts : List α) : List α :=
  pts.foldl (fun sel p => orLoopOld p sel crit) []

def select {α β : Type} (logic : Logic) (crit : List (α → Bool)) (d : DSet α β) : DSet α β :=
  { pts := selectPts logic crit d.pts, attrs := d.attrs }

/-! ### slices: CPython's PySlice_Unpack / PySlice_AdjustIndices / range length -/

def adjPos (n x : Int) : Int :=
  if x < 0 then (if x + n < 0 then 0 else x + n) else if x ≥ n then n else x

def adjNeg (n x : Int) : Int :=
  if x < 0 then (if x + n < 0 then -1 else x + n) else if x ≥ n then n - 1 else x

def rangeLen (lo hi step : Int) : Nat :=
  if step > 0 then (if lo < hi then ((hi - lo - 1) / step + 1).toNat else 0)
  else if step < 0 then (if hi < lo then ((lo - hi - 1) / (-step) + 1).toNat else 0)
  else 0

def rangeList (lo hi step : Int) : List Int :=
  (List.range (rangeLen lo hi step)).map (fun (k : Nat) => lo + (k : Int) * step)

/-- normalised start of `seq[start:stop:step]` (PySlice_Unpack + PySlice_AdjustIndices) -/
def sliceLo (n : Nat) (st : Int) : Option Int → Int
  | none => if st > 0 then 0 else (n : Int) - 1
  | some s => if st > 0 then adjPos n s else adjNeg n s

/-- normalised stop -/
def sliceHi (n : Nat) (st : Int) : Option Int → Int
  | none => if st > 0 then (n : Int) else -1
  | some s => if st > 0 then adjPos n s else adjNeg n s

/-- indices selected by `seq[start:stop:step]` on a sequence of length n; `none` = ValueError -/
def sliceIdx (n : Nat) (start stop step : Option Int) : Option (List Int) :=
  let st := step.getD 1
  if st = 0 then none
  else some (rangeList (sliceLo n st start) (sliceHi n st stop) st)

def getSlice {α β : Type} [Inhabited α] (d : DSet α β) (start stop step : Option Int) :
    Option (DSet α β) :=
  (sliceIdx d.pts.length start stop step).map fun idx =>
    { pts := idx.map (fun i => d.pts[i.toNat]!), attrs := d.attrs }

/-! ### concatenation: points are appended; the attributes on which both operands agree are kept -/

def commonAttrs {β : Type} [BEq β] (a b : List (String × β)) : List (String × β) :=
  a.filter (fun kv => b.any (fun kv' => kv'.1 == kv.1 && kv'.2 == kv.2))

def add {α β : Type} [BEq β] (a b : DSet α β) : DSet α β :=
  { pts := a.pts ++ b.pts, attrs := commonAttrs a.attrs b.attrs }

/-! ### DataPoint.copy: a point is a dictionary; the copy is a new dictionary with the same items -/

abbrev Point (β : Type) := List (String × β)

def Point.set {β : Type} (p : Point β) (k : String) (v : β) : Point β :=
  if p.any (·.1 == k) then p.map (fun kv => if kv.1 == k then (k, v) else kv) else p ++ [(k, v)]

def Point.get? {β : Type} (p : Point β) (k : String) : Option β := (p.find? (·.1 == k)).map (·.2)

/-- state = (original, copy); `copy` then assignments on the copy -/
def copyThenSet {β : Type} (orig : Point β) (assign : List (String × β)) : Point β × Point β :=
  (orig, assign.foldl (fun c kv => c.set kv.1 kv.2) orig)

/-! ### the same with an explicit store: objects are references into a heap; `copy` allocates a NEW object with the
    same items, `alias` (what `c = pt` would be) does not.  Assignments go through the reference. -/

abbrev Heap (β : Type) := List (Point β)          -- reference = position

def Heap.get {β : Type} (h : Heap β) (r : Nat) : Point β := h.getD r []

/-- `c = pt.copy()`: a new object; returns the heap and the new reference -/
def Heap.copy {β : Type} (h : Heap β) (r : Nat) : Heap β × Nat := (h ++ [h.get r], h.length)

/-- `c = pt` (no copy): the same reference -/
def Heap.alias {β : Type} (h : Heap β) (r : Nat) : Heap β × Nat := (h, r)

/-- `setattr(obj, k, v)` through a reference -/
def Heap.setattr {β : Type} (h : Heap β) (r : Nat) (k : String) (v : β) : Heap β :=
  h.modify r (fun p => p.set k v)

def Heap.setMany {β : Type} (h : Heap β) (r : Nat) (assign : List (String × β)) : Heap β :=
  assign.foldl (fun h kv => h.setattr r kv.1 kv.2) h

end Gep.DS

/-
  Model/FitSync.lean — executable model of the parameter-status bookkeeping shared by
  gepard.model.ParameterModel (theory side) and gepard.fitter.MinuitFitter (minimiser side):
  fix_parameters / release_parameters / limit_parameters / free_parameters / fit.   (property C11)

  Dictionaries are association lists in insertion order.  `L` is the type of a limit pair, `V` of a
  parameter value; both are opaque here (only equality matters).  iminuit is a parameter: its
  `fixed` / `limits` stores are per-name maps, `migrad` is an oracle returning the new values.
-/
namespace Gep.Fit

abbrev Name := String

/-- dictionary lookup (keys of a Python dict are unique; so are they in every reachable list) -/
def dget {β : Type} : List (Name × β) → Name → Option β
  | [], _ => none
  | (k', v') :: r, k => if k' == k then some v' else dget r k

/-- `d[k] = v`: overwrite in place, or append a new key at the end -/
def dset {β : Type} : List (Name × β) → Name → β → List (Name × β)
  | [], k, v => [(k, v)]
  | (k', v') :: r, k, v => if k' == k then (k, v) :: r else (k', v') :: dset r k v

/-- `del d[k]` (every occurrence; keys are unique in every reachable list) -/
def ddel {β : Type} : List (Name × β) → Name → List (Name × β)
  | [], _ => []
  | (k', v') :: r, k => if k' == k then ddel r k else (k', v') :: ddel r k

/-- what the minimiser accepts as a limit: iminuit raises `ValueError` for an interval with lower > upper -/
class LimitOK (L : Type) where
  valid : L → Bool

/-- iminuit `LimitView.__setitem__`: the old limit of the parameter is REMOVED first, then the new interval is
    validated and stored; an invalid one raises with the limit gone -/
def mSetLimit {L : Type} [LimitOK L] (ml : List (Name × L)) (k : Name) (v : L) : List (Name × L) × Bool :=
  if LimitOK.valid v then (dset ml k v, true) else (ddel ml k, false)

/-- `for k, v in dct.items(): self.minuit.limits[k] = v` — stops at the first rejected interval -/
def mSetLimits {L : Type} [LimitOK L] : List (Name × L) → List (Name × L) → List (Name × L) × Bool
  | ml, [] => (ml, true)
  | ml, (k, v) :: r =>
    if LimitOK.valid v then mSetLimits (dset ml k v) r else (ddel ml k, false)

/-- `for k, v in old.items(): self.minuit.limits[k] = v` with `old = {k: minuit.limits[k] for k in dct}`
    (an unlimited parameter reads as (-inf, inf): setting that removes the limit) -/
def restoreLimits {L : Type} (ml : List (Name × L)) (old : List (Name × Option L)) : List (Name × L) :=
  old.foldl (fun m kv => match kv.2 with
    | some v => dset m kv.1 v
    | none => ddel m kv.1) ml

structure St (L V : Type) where
  names : List Name                 -- theory.parameters.keys()
  tvals : List (Name × V)           -- theory.parameters
  tfixed : List (Name × Bool)       -- theory.parameters_fixed
  tlimits : List (Name × L)         -- theory.parameters_limits
  mvals : List (Name × V)           -- minuit.values
  mfixed : List (Name × Bool)       -- minuit.fixed   (absent = False)
  mlimits : List (Name × L)         -- minuit.limits  (absent = unlimited)

inductive Op (L V : Type) where
  | fix (args : List Name)
  | release (args : List Name)
  | limit (d : List (Name × L))
  | free
  | fit (result : List (Name × V))   -- what migrad leaves in minuit.values

inductive Out where
  | ok
  | valueError
  | indexError
  | freeLists (t m : List Name)
deriving DecidableEq, Repr

/-- `MinuitFitter.__init__`: the minimiser starts from the theory's status -/
def init {L V : Type} (names : List Name) (vals : List (Name × V)) (tfixed : List (Name × Bool))
    (tlimits : List (Name × L)) : St L V :=
  { names := names, tvals := vals, tfixed := tfixed, tlimits := tlimits,
    mvals := vals, mfixed := tfixed, mlimits := tlimits }

def setAll {β : Type} (d : List (Name × β)) (ks : List Name) (v : β) : List (Name × β) :=
  ks.foldl (fun d k => dset d k v) d

def updateAll {β : Type} (d : List (Name × β)) (kvs : List (Name × β)) : List (Name × β) :=
  kvs.foldl (fun d kv => dset d kv.1 kv.2) d

/-- `ParameterModel.free_parameters` -/
def tFree {L V : Type} (s : St L V) : List Name :=
  s.names.filter fun p => !((dget s.tfixed p).getD false)

/-- the minimiser's free parameters -/
def mFree {L V : Type} (s : St L V) : List Name :=
  s.names.filter fun p => !((dget s.mfixed p).getD false)

def step {L V : Type} [LimitOK L] (s : St L V) : Op L V → St L V × Out
  | .fix [] => (s, .indexError)                        -- args[0]
  | .fix (a :: as) =>
    if a == "ALL" then
      ({ s with tfixed := setAll s.tfixed s.names true, mfixed := setAll s.mfixed s.names true }, .ok)
    else if (a :: as).all (s.names.contains ·) then
      ({ s with tfixed := setAll s.tfixed (a :: as) true, mfixed := setAll s.mfixed (a :: as) true }, .ok)
    else (s, .valueError)
  | .release args =>
    if args.all (s.names.contains ·) then
      ({ s with tfixed := setAll s.tfixed args false, mfixed := setAll s.mfixed args false }, .ok)
    else (s, .valueError)
  | .limit d =>
    -- names are checked first; then the minimiser is given the limits (it validates them), its previous limits
    -- are put back if one is rejected, and only then the theory is updated  (fitter.py after fix 5821560)
    if d.all (fun kv => s.names.contains kv.1) then
      let old := d.map fun kv => (kv.1, dget s.mlimits kv.1)
      match mSetLimits s.mlimits d with
      | (ml', true) => ({ s with tlimits := updateAll s.tlimits d, mlimits := ml' }, .ok)
      | (ml', false) => ({ s with mlimits := restoreLimits ml' old }, .valueError)
    else (s, .valueError)
  | .free => (s, .freeLists (tFree s) (mFree s))
  | .fit result => ({ s with mvals := result, tvals := updateAll s.tvals result }, .ok)

def run {L V : Type} [LimitOK L] (s : St L V) (ops : List (Op L V)) : St L V := ops.foldl (fun s o => (step s o).1) s

/-- the code before the repair: names are checked one by one while mutating, minuit only afterwards -/
def setUntilUnknown (names : List Name) (d : List (Name × Bool)) (v : Bool) : List Name → List (Name × Bool) × Bool
  | [] => (d, true)
  | a :: as => if names.contains a then setUntilUnknown names (dset d a v) v as else (d, false)

def stepOld {L V : Type} [LimitOK L] (s : St L V) : Op L V → St L V × Out
  | .release args =>
    let (tf, ok) := setUntilUnknown s.names s.tfixed false args
    if ok then ({ s with tfixed := tf, mfixed := setAll s.mfixed args false }, .ok)
    else ({ s with tfixed := tf }, .valueError)
  | o => step s o

/-- `limit_parameters` before fix 5821560: the theory is updated first, the minimiser afterwards and without
    putting anything back when it rejects an interval -/
def stepOldLimit {L V : Type} [LimitOK L] (s : St L V) : Op L V → St L V × Out
  | .limit d =>
    if d.all (fun kv => s.names.contains kv.1) then
      match mSetLimits s.mlimits d with
      | (ml', true) => ({ s with tlimits := updateAll s.tlimits d, mlimits := ml' }, .ok)
      | (ml', false) => ({ s with tlimits := updateAll s.tlimits d, mlimits := ml' }, .valueError)
    else (s, .valueError)
  | o => step s o

/-! ### covsync: errors for every parameter, covariance for exactly the free ones, looked up BY NAME -/

/-- `{(p1, p2): minuit.covariance[p1, p2] for p1 in free for p2 in free}` — the minimiser's matrix is a
    function of two parameter names (it covers all parameters, zero rows for fixed ones) -/
def covsync {C : Type} (free : List Name) (mcov : Name → Name → C) : List ((Name × Name) × C) :=
  free.flatMap fun p1 => free.map fun p2 => ((p1, p2), mcov p1 p2)

/-- the positional variant (index into the matrix by position in the free list instead of by name) -/
def covsyncPositional {C : Type} (names free : List Name) (mcov : Name → Name → C) : List ((Name × Name) × C) :=
  free.zipIdx.flatMap fun (p1, i) => free.zipIdx.map fun (p2, j) =>
    ((p1, p2), mcov (names.getD i "") (names.getD j ""))

end Gep.Fit

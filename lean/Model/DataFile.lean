/-
  Model/DataFile.lean — executable model of gepard.data.DataSet.parse (property C09):
  line splitting, comment removal, preamble `key = value` lines, grid-line detection and number
  extraction.  Numbers are exact decimals (sign, mantissa, power of ten); Python's `float()` on the
  token is the correctly rounded value of that decimal (trusted, compared bit-for-bit by the harness).

  The number pattern is the one of the repaired code:
      NUM  = [-+]?(?:\d+\.?\d*|\.\d+)(?:[eE][-+]?\d+)?
      grid line  ⇔  re.match(r'([ \t]*NUM[ \t\r]+)+', line)     tokens = re.findall(NUM, line)
  For this pattern Python's backtracking matcher returns the longest prefix accepted by the
  deterministic automaton below (every choice in the pattern is decided by the next character).
-/
namespace Gep.DF

inductive St | s0 | s1 | s2 | s3 | s4 | s6 | s7 | s8 | dead
deriving DecidableEq, Repr

def isDigit (c : Char) : Bool := '0' ≤ c && c ≤ '9'
def isSign (c : Char) : Bool := c == '-' || c == '+'
def isE (c : Char) : Bool := c == 'e' || c == 'E'
/-- the separators the grid-line pattern accepts after a number: blank, tab, carriage return -/
def isSep (c : Char) : Bool := c == ' ' || c == '\t' || c == '\r'
/-- leading blanks of the grid-line pattern -/
def isBlank (c : Char) : Bool := c == ' ' || c == '\t'

def step : St → Char → St
  | .s0, c => if isSign c then .s1 else if isDigit c then .s2 else if c == '.' then .s4 else .dead
  | .s1, c => if isDigit c then .s2 else if c == '.' then .s4 else .dead
  | .s2, c => if isDigit c then .s2 else if c == '.' then .s3 else if isE c then .s6 else .dead
  | .s3, c => if isDigit c then .s3 else if isE c then .s6 else .dead
  | .s4, c => if isDigit c then .s3 else .dead
  | .s6, c => if isSign c then .s7 else if isDigit c then .s8 else .dead
  | .s7, c => if isDigit c then .s8 else .dead
  | .s8, c => if isDigit c then .s8 else .dead
  | .dead, _ => .dead

def accepting : St → Bool
  | .s2 | .s3 | .s8 => true
  | _ => false

/-- length of the longest NUM-prefix of `cs` when the automaton is in `st` after `n` characters -/
def longest (st : St) (cs : List Char) (n : Nat) (best : Option Nat) : Option Nat :=
  match cs with
  | [] => best
  | c :: cs =>
    let st' := step st c
    if st' = .dead then best
    else longest st' cs (n + 1) (if accepting st' then some (n + 1) else best)

def longestNum (cs : List Char) : Option Nat := longest .s0 cs 0 none

/-- `re.findall(NUM, line)`: leftmost longest, non-overlapping -/
def findallAux : Nat → List Char → List (List Char)
  | 0, _ => []
  | _, [] => []
  | fuel + 1, c :: cs =>
    match longestNum (c :: cs) with
    | some k => (c :: cs).take k :: findallAux fuel ((c :: cs).drop k)
    | none => findallAux fuel cs

def findall (cs : List Char) : List (List Char) := findallAux (cs.length + 1) cs

/-- does some NUM-prefix end right before a separator?  (automaton in `st`) -/
def sepAfterNum (st : St) : List Char → Bool
  | [] => false
  | c :: cs =>
    let st' := step st c
    if st' = .dead then false
    else (accepting st' && (match cs with | d :: _ => isSep d | [] => false)) || sepAfterNum st' cs

/-- `re.match(r'([ \t]*NUM[ \t\r]+)+', line)` as a boolean: one iteration suffices -/
def isGridLine (cs : List Char) : Bool := sepAfterNum .s0 (cs.dropWhile isBlank)

/-! ### exact value of a token -/

structure Dec where
  neg : Bool
  mant : Nat
  exp : Int        -- value = (-1)^neg · mant · 10^exp
deriving Repr, DecidableEq

def digitVal (c : Char) : Nat := c.toNat - '0'.toNat

def natOfDigits (ds : List Char) : Nat := ds.foldl (fun a c => 10 * a + digitVal c) 0

/-- leading sign of a token -/
def stripSign : List Char → Bool × List Char
  | '-' :: r => (true, r)
  | '+' :: r => (false, r)
  | r => (false, r)

/-- exponent part `[eE][-+]?digits` (empty = no exponent) -/
def expOf : List Char → Int
  | _ :: '-' :: r => - (natOfDigits r : Int)
  | _ :: '+' :: r => (natOfDigits r : Int)
  | _ :: r => (natOfDigits r : Int)
  | [] => 0

/-- the unsigned part: integer digits, optional '.' and fraction digits, exponent -/
def decBody (neg : Bool) (cs : List Char) : Dec :=
  let ip := cs.takeWhile isDigit
  let r1 := cs.dropWhile isDigit
  let (fp, r2) := match r1 with
    | '.' :: r => (r.takeWhile isDigit, r.dropWhile isDigit)
    | r => ([], r)
  { neg := neg, mant := natOfDigits (ip ++ fp), exp := expOf r2 - fp.length }

/-- split a NUM token into sign, integer digits, fraction digits, exponent (sign, digits) -/
def decOfToken (cs : List Char) : Dec := decBody (stripSign cs).1 (stripSign cs).2

/-! ### lines -/

/-- `str.splitlines()` restricted to \n, \r\n and \r line ends -/
def splitLinesAux : List Char → List Char → List (List Char)
  | [], cur => if cur.isEmpty then [] else [cur.reverse]
  | '\r' :: '\n' :: r, cur => cur.reverse :: splitLinesAux r []
  | '\n' :: r, cur => cur.reverse :: splitLinesAux r []
  | '\r' :: r, cur => cur.reverse :: splitLinesAux r []
  | c :: r, cur => splitLinesAux r (c :: cur)

def splitLines (cs : List Char) : List (List Char) := splitLinesAux cs []

/-- `line.split('#')[0]` -/
def stripComment (cs : List Char) : List Char := cs.takeWhile (· != '#')

def isWs (c : Char) : Bool :=
  c == ' ' || c == '\t' || c == '\n' || c == '\r' || c == '\x0b' || c == '\x0c'

def strip (cs : List Char) : List Char :=
  ((cs.dropWhile isWs).reverse.dropWhile isWs).reverse

/-- `line.split('=')` -/
def splitEqAux : List Char → List Char → List (List Char)
  | [], cur => [cur.reverse]
  | '=' :: r, cur => cur.reverse :: splitEqAux r []
  | c :: r, cur => splitEqAux r (c :: cur)

def splitEq (cs : List Char) : List (List Char) := splitEqAux cs []

/-- dict update: overwrite in place or append -/
def dictSet (d : List (String × String)) (k v : String) : List (String × String) :=
  if d.any (·.1 == k) then d.map (fun kv => if kv.1 == k then (k, v) else kv) else d ++ [(k, v)]

structure Parsed where
  desc : List (String × String)
  data : List (List Dec)
deriving Repr

/-- one line of `DataSet.parse` -/
def parseLine (p : Parsed) (raw : List Char) : Parsed :=
  let line := stripComment raw
  let p1 := if line.any (· == '=') then
      match (splitEq line).map strip with
      | k :: v :: _ => { p with desc := dictSet p.desc (String.ofList k) (String.ofList v) }
      | _ => p
    else p
  if isGridLine line then { p1 with data := p1.data ++ [(findall line).map decOfToken] } else p1

def parse (text : List Char) : Parsed :=
  (splitLines text).foldl parseLine { desc := [], data := [] }

end Gep.DF

/-! ### DataSet.__init__ / DataPoint.update_from_grid: which number goes where -/
namespace Gep.DF

/-- is the whole string one NUM token? -/
def isNum (cs : List Char) : Bool := !cs.isEmpty && longestNum cs == some cs.length

def isIntLit (cs : List Char) : Bool :=
  let ds := match cs with
    | '-' :: r => r
    | '+' :: r => r
    | r => r
  !ds.isEmpty && ds.all isDigit

inductive Val where
  | flt (d : Dec)        -- `float(s)` of a string containing '.'
  | int (d : Dec)        -- `int(s)`
  | str (s : String)     -- conversion raised ValueError: kept as text
deriving Repr, DecidableEq

/-- `_str2num` inside the try/except of `DataSet.__init__`, on the domain: plain ASCII literals
    (no '_' digit separators, no inf/nan spellings — the harness keeps generated preambles inside it) -/
def str2num (s : String) : Val :=
  let cs := s.toList
  if cs.any (· == '.') then (if isNum cs then .flt (decOfToken cs) else .str s)
  else (if isIntLit cs then .int (decOfToken cs) else .str s)

def lookup (d : List (String × String)) (k : String) : Option String :=
  (d.find? (·.1 == k)).map (·.2)

/-- a reference `columnK` → Python list index K-1 (may be negative: Python then counts from the end) -/
def columnRef (s : String) : Option Int :=
  match s.splitOn "column" with
  | _ :: k :: _ => if isIntLit k.toList then
      some ((if k.toList.head? == some '-' then -1 else 1) * (natOfDigits (k.toList.filter isDigit) : Int) - 1)
    else none
  | _ => none

inductive Src where
  | glob (v : Dec)     -- value given once in the preamble
  | col (i : Int)      -- Python index into the grid row
deriving Repr, DecidableEq

structure Axis where
  name : String
  src : Src
deriving Repr, DecidableEq

structure Layout where
  observable : String
  axes : List Axis
  ycol : Int
  etotal : Option Int := none
  estat : Option Int := none
  estatP : Option Int := none
  estatM : Option Int := none
  esyst : Option Int := none
  esystP : Option Int := none
  esystM : Option Int := none
  enorm : Option Dec := none
  in1charge : Option Int := none
deriving Repr

def isXName (k : String) : Bool :=
  match k.toList with
  | ['x', d, 'n', 'a', 'm', 'e'] => isDigit d
  | _ => false

def colOf (desc : List (String × String)) (k : String) : Except String (Option Int) :=
  match lookup desc k with
  | none => .ok none
  | some v => match str2num v with
    | .str s => match columnRef s with
      | some i => .ok (some i)
      | none => .error (if (s.splitOn "column").length < 2 then "row:IndexError" else "row:ValueError")
    | _ => .error "row:AttributeError"      -- a number has no .split

/-- everything `update_from_grid` needs to know, or the exception class the code raises
    (`row:` = raised inside `update_from_grid`, i.e. only when the grid has at least one row) -/
def layout (desc : List (String × String)) : Except String Layout := do
  let obs ← match lookup desc "y1name" with
    | some o => pure o
    | none => throw "KeyError"
  let xnames := (desc.map (·.1)).filter isXName
  -- units = {preamble[key]: preamble[key[:2]+'unit']}; units[observable] = preamble['y1unit']
  for k in xnames do
    if (lookup desc ((k.take 2).toString ++ "unit")).isNone then throw "KeyError"
  if (lookup desc "y1unit").isNone then throw "KeyError"
  let chg ← match lookup desc "in1particle" with
    | none => throw "AttributeError"
    | some p => pure (if p == "e+" || p == "ep" then some (1 : Int)
                      else if p == "e" || p == "e-" || p == "em" then some (-1) else none)
  let axes ← xnames.mapM fun k => do
    let idx := ((k.drop 1).toString.splitOn "name").headD ""
    let nm := (lookup desc k).getD ""
    match lookup desc ("x" ++ idx ++ "value") with
    | none => throw "row:AttributeError"
    | some v => match str2num v with
      | .flt d => pure { name := nm, src := .glob d : Axis }
      | .int d => pure { name := nm, src := .glob d }
      | .str s => match columnRef s with
        | some i => pure { name := nm, src := .col i }
        | none => throw "row:IndexError"
  let ycol ← match ← colOf desc "y1value" with
    | some i => pure i
    | none => throw "row:AttributeError"
  -- `if 'y1error' in self:` total error given, nothing else is looked at; otherwise the parts, and the
  -- asymmetric "minus" columns are only read when the corresponding "plus" key is present
  let etotal ← colOf desc "y1error"
  let need (k : String) : Except String (Option Int) := do
    match ← colOf desc k with
    | some i => pure (some i)
    | none => throw "row:AttributeError"
  let estat ← if etotal.isSome then pure none else colOf desc "y1errorstatistic"
  let estatP ← if etotal.isSome then pure none else colOf desc "y1errorstatisticplus"
  let estatM ← if etotal.isSome || estatP.isNone then pure none else need "y1errorstatisticminus"
  let esyst ← if etotal.isSome then pure none else colOf desc "y1errorsystematic"
  let esystP ← if etotal.isSome then pure none else colOf desc "y1errorsystematicplus"
  let esystM ← if etotal.isSome || esystP.isNone then pure none else need "y1errorsystematicminus"
  let enorm := match (lookup desc "y1errornormalization").map str2num with
    | some (.flt d) => some d
    | some (.int d) => some d
    | _ => none
  pure { observable := obs, axes := axes, ycol := ycol, etotal := etotal, estat := estat,
         estatP := estatP, estatM := estatM, esyst := esyst, esystP := esystP, esystM := esystM,
         enorm := enorm, in1charge := chg }

/-- Python list indexing `row[i]` (negative indices count from the end; none = IndexError) -/
def pyIndex {α : Type} (row : List α) (i : Int) : Option α :=
  let n : Int := row.length
  if 0 ≤ i ∧ i < n then row[i.toNat]? else if -n ≤ i ∧ i < 0 then row[(i + n).toNat]? else none

end Gep.DF

/-
  Model/Mro.lean — executable model of what Python does when a theory class is assembled from
  building blocks:  C3 linearisation (`type(name, bases, {})`), attribute lookup along the MRO,
  and the cooperative `__init__` chain (`T()`), over a class table extracted from the gepard
  sources by tools/gen_classtable.py (lean/Gen/ClassTable.lean).  Core Lean only.

  Conventions: classes and all strings (names, attribute names, kwargs keys, default texts) are
  natural numbers (indices into the generated table / symbol array); symbol 0 is `__init__`.
  `none` from `merge` / `mroOf` / `mroAdhoc` means Python raises TypeError ("Cannot create a
  consistent method resolution order").
-/
namespace Gep.Mro

abbrev Cls := Nat
abbrev Sym := Nat

/-- the symbol of the name `__init__` -/
def initSym : Sym := 0

/-! ## the class table -/

/-- primitive events of an `__init__` body (or of a method it calls) -/
inductive Prim where
  | read (a : Sym)          -- `self.a` loaded: AttributeError unless created before / class level
  | mayRead (a : Sym)       -- loaded on some paths only (inside a loop or a branch)
  | write (a src : Sym)     -- `self.a = <src>`
  | ensure (a : Sym)        -- created only if missing (hasattr / try-except AttributeError)
  | setdef (k d : Sym)      -- `kwargs.setdefault(k, d)`
  | bind (a k d : Sym)      -- `self.a = kwargs.setdefault(k, d)`
  deriving DecidableEq, Repr

inductive Ev where
  | prim (p : Prim)
  | callMeth (m key : Sym)  -- `self.m(<args>)`, args summarised by `key`
  | callInit (c : Cls)      -- `C.__init__(self, **kwargs)`
  deriving DecidableEq, Repr

inductive InitSpec where
  | absent                                   -- the class body has no `__init__`
  | object                                   -- `object.__init__`: accepts no keyword arguments
  | unknown                                  -- has an `__init__` the extractor does not model
  | evs (pre : List Ev) (sup : Bool) (post : List Ev)
      -- events before `super().__init__(**kwargs)`, whether it is called, events after it
  deriving DecidableEq, Repr

structure ClassRec where
  name : Sym
  bases : List Cls
  defs : List Sym                            -- names defined in the class body
  init : InitSpec
  meths : List (Sym × Sym × List Prim)       -- (method, call-site key, summary) for methods called from an __init__
  deriving Repr

abbrev Table := List ClassRec

/-! ## C3 merge and linearisation (generic in the element type) -/

section C3
variable {α : Type} [DecidableEq α]

/-- `c` occurs in the tail of one of the lists -/
def inTails (c : α) (ls : List (List α)) : Bool := ls.any (fun l => decide (c ∈ l.tail))

/-- first list head (in list order) that is in no tail -/
def pickHead (ls : List (List α)) : Option α :=
  (ls.filterMap List.head?).find? (fun h => !inTails h ls)

/-- remove `c` from every list it heads -/
def dropHead (c : α) (ls : List (List α)) : List (List α) :=
  ls.map (fun l => if l.head? = some c then l.tail else l)

/-- C3 merge with explicit fuel (one unit per emitted element) -/
def mergeAux : Nat → List (List α) → Option (List α)
  | 0, _ => none
  | fuel + 1, ls0 =>
    let ls := ls0.filter (fun l => !l.isEmpty)
    if ls.isEmpty then some []
    else match pickHead ls with
      | none => none
      | some h => (mergeAux fuel (dropHead h ls)).map (h :: ·)

def totalLen (ls : List (List α)) : Nat := (ls.map List.length).sum

/-- C3 merge; `none` = no consistent order (Python: TypeError) -/
def merge (ls : List (List α)) : Option (List α) := mergeAux (totalLen ls + 1) ls

end C3

def allSome {β : Type} : List (Option β) → Option (List β)
  | [] => some []
  | none :: _ => none
  | some x :: xs => (allSome xs).map (x :: ·)

/-- `C.__mro__` of a class of the table (fuel bounds the inheritance depth) -/
def mroOf (tbl : Table) : Nat → Cls → Option (List Cls)
  | 0, _ => none
  | fuel + 1, c =>
    match tbl[c]? with
    | none => none
    | some r =>
      match allSome (r.bases.map (mroOf tbl fuel)) with
      | none => none
      | some ms => (merge (ms ++ [r.bases])).map (c :: ·)

def mroFuel (tbl : Table) : Nat := tbl.length + 1

/-- MRO (without the new class itself) of `type('T', bs, {})` for a non-empty list of bases -/
def mroAdhoc (tbl : Table) (bs : List Cls) : Option (List Cls) :=
  match allSome (bs.map (mroOf tbl (mroFuel tbl))) with
  | none => none
  | some ms => merge (ms ++ [bs])

/-! ## attribute lookup on the class -/

def defsOf (tbl : Table) (c : Cls) : List Sym :=
  match tbl[c]? with
  | some r => r.defs
  | none => []

def defines (tbl : Table) (n : Sym) (c : Cls) : Bool := decide (n ∈ defsOf tbl c)

/-- the class whose body provides name `n` for an instance whose class has MRO `m` -/
def resolve (tbl : Table) (n : Sym) (m : List Cls) : Option Cls := m.find? (defines tbl n)

/-! ## the cooperative `__init__` chain -/

def initOf (tbl : Table) (c : Cls) : InitSpec :=
  match tbl[c]? with
  | some r => r.init
  | none => .absent

def summary (tbl : Table) (c : Cls) (m key : Sym) : Option (List Prim) :=
  match tbl[c]? with
  | some r => (r.meths.find? (fun t => t.1 == m && t.2.1 == key)).map (fun t => t.2.2)
  | none => none

/-- one step of the flattened execution -/
inductive Step where
  | prim (owner : Cls) (p : Prim)   -- `owner` = class whose code executes the event
  | push                            -- a call `f(**kwargs)`: the callee gets a copy of the dict
  | pop                             -- return: the callee's changes to its copy are dropped
  | objInit                         -- `object.__init__(self, **kwargs)`
  | noMethod (m : Sym)              -- `self.m(…)` with `m` not found (AttributeError)
  | unsupported (c : Cls)           -- the model has no rule (opaque `__init__`, nested explicit call, …)
  deriving DecidableEq, Repr

def expandMeth (tbl : Table) (m : List Cls) (meth key : Sym) : List Step :=
  match resolve tbl meth m with
  | none => [.noMethod meth]
  | some d =>
    match summary tbl d meth key with
    | none => [.unsupported d]
    | some ps => ps.map (.prim d)

/-- events allowed inside an explicitly called `C.__init__` -/
def expand0 (tbl : Table) (m : List Cls) (owner : Cls) : Ev → List Step
  | .prim p => [.prim owner p]
  | .callMeth meth key => expandMeth tbl m meth key
  | .callInit d => [.unsupported d]

def expand1 (tbl : Table) (m : List Cls) (owner : Cls) : Ev → List Step
  | .callInit d =>
    match initOf tbl d with
    | .evs pre false post => .push :: (pre ++ post).flatMap (expand0 tbl m d) ++ [.pop]
    | _ => [.unsupported d]
  | .prim p => [.prim owner p]
  | .callMeth meth key => expandMeth tbl m meth key

/-- steps executed by `super().__init__(**kwargs)` issued from the class just before `rest` in
    the MRO `m`: the next class with an `__init__` runs its pre-part, then (if it calls super) the
    rest of the chain, then its post-part.  So pre-parts run in MRO order, post-parts in reverse. -/
def chainTrace (tbl : Table) (m : List Cls) : List Cls → List Step
  | [] => []
  | c :: rest =>
    match initOf tbl c with
    | .absent => chainTrace tbl m rest
    | .object => [.objInit]
    | .unknown => [.unsupported c]
    | .evs pre sup post =>
      .push :: pre.flatMap (expand1 tbl m c)
        ++ (if sup then chainTrace tbl m rest else [])
        ++ post.flatMap (expand1 tbl m c) ++ [.pop]

/-- the flattened execution of `T()` for a class `T` with MRO `m` (T itself has an empty body) -/
def trace (tbl : Table) (m : List Cls) : List Step := chainTrace tbl m m

/-- value of an instance attribute -/
inductive WVal where
  | kw (v : Sym)                       -- taken from kwargs: the winning default text
  | derived (owner : Cls) (src : Sym)  -- computed by `owner`'s code from expression `src`
  deriving DecidableEq, Repr

structure State where
  attrs : List (Sym × WVal)            -- the instance `__dict__`, in creation order
  kw : List (List (Sym × Sym))         -- stack of kwargs dictionaries (insertion order)
  deriving Repr

inductive Err where
  | attribute (a : Sym)       -- AttributeError: 'T' object has no attribute a
  | typeError                 -- object.__init__() takes exactly one argument
  | unpredictable (a : Sym)   -- a conditional read of a missing attribute: the model cannot tell
  | unsupported (c : Cls)
  deriving DecidableEq, Repr

def hasAttr (a : Sym) (l : List (Sym × WVal)) : Bool := l.any (fun p => p.1 == a)

def getAttr (a : Sym) : List (Sym × WVal) → Option WVal
  | [] => none
  | (b, w) :: rest => if b = a then some w else getAttr a rest

def setAttr (a : Sym) (v : WVal) : List (Sym × WVal) → List (Sym × WVal)
  | [] => [(a, v)]
  | (b, w) :: rest => if b = a then (b, v) :: rest else (b, w) :: setAttr a v rest

def kwGet (k : Sym) : List (Sym × Sym) → Option Sym
  | [] => none
  | (j, v) :: rest => if j = k then some v else kwGet k rest

/-- `dict.setdefault` -/
def kwSetdefault (k d : Sym) (f : List (Sym × Sym)) : List (Sym × Sym) :=
  match kwGet k f with
  | some _ => f
  | none => f ++ [(k, d)]

def topFrame (s : State) : List (Sym × Sym) := s.kw.headD []
def setTop (f : List (Sym × Sym)) (s : State) : State := { s with kw := f :: s.kw.tail }

/-- `cls a` = the name `a` is found on the class (some class of the MRO defines it) -/
def execStep (cls : Sym → Bool) (s : State) : Step → Except Err State
  | .prim _ (.read a) => if hasAttr a s.attrs || cls a then .ok s else .error (.attribute a)
  | .prim _ (.mayRead a) => if hasAttr a s.attrs || cls a then .ok s else .error (.unpredictable a)
  | .prim o (.write a src) => .ok { s with attrs := setAttr a (.derived o src) s.attrs }
  | .prim o (.ensure a) =>
    if hasAttr a s.attrs || cls a then .ok s
    else .ok { s with attrs := setAttr a (.derived o initSym) s.attrs }
  | .prim _ (.setdef k d) => .ok (setTop (kwSetdefault k d (topFrame s)) s)
  | .prim _ (.bind a k d) =>
    let f := kwSetdefault k d (topFrame s)
    .ok { attrs := setAttr a (.kw ((kwGet k f).getD d)) s.attrs, kw := f :: s.kw.tail }
  | .push => .ok { s with kw := topFrame s :: s.kw }
  | .pop => .ok { s with kw := s.kw.tail }
  | .objInit => if (topFrame s).isEmpty then .ok s else .error .typeError
  | .noMethod m => .error (.attribute m)
  | .unsupported c => .error (.unsupported c)

/-- run the steps; returns the state reached and the error that stopped it, if any -/
def exec (cls : Sym → Bool) : List Step → State → State × Option Err
  | [], s => (s, none)
  | st :: rest, s =>
    match execStep cls s st with
    | .ok s' => exec cls rest s'
    | .error e => (s, some e)

def onClass (tbl : Table) (m : List Cls) (a : Sym) : Bool := (resolve tbl a m).isSome

/-- `T()` for a class with MRO `m` -/
def run (tbl : Table) (m : List Cls) : State × Option Err :=
  exec (onClass tbl m) (trace tbl m) ⟨[], []⟩

/-- what the property calls the configuration: for an attribute, `none` if the instance does not
    have it, `some (some v)` if it holds the kwargs value `v`, `some none` if it is derived -/
def kwView : WVal → Option Sym
  | .kw v => some v
  | .derived _ _ => none

def view (s : State) (a : Sym) : Option (Option Sym) := (getAttr a s.attrs).map kwView

/-- steps that the simple success criterion covers: events, calls and returns only -/
def Step.clean : Step → Bool
  | .prim _ _ => true
  | .push => true
  | .pop => true
  | _ => false

/-- the step makes sure attribute `a` exists afterwards -/
def Step.provides (a : Sym) : Step → Bool
  | .prim _ (.write b _) => b == a
  | .prim _ (.bind b _ _) => b == a
  | .prim _ (.ensure b) => b == a
  | _ => false

/-- the step needs attribute `a` -/
def Step.needs (a : Sym) : Step → Bool
  | .prim _ (.read b) => b == a
  | .prim _ (.mayRead b) => b == a
  | _ => false

/-! ## the static order-independence check -/

def dedup : List Nat → List Nat
  | [] => []
  | x :: xs => if x ∈ xs then dedup xs else x :: dedup xs

def memNat (x : Nat) : List Nat → Bool
  | [] => false
  | y :: ys => Nat.beq x y || memNat x ys

/-- some occurrence of `x` in the list is followed (later) by an occurrence of `y` -/
def pairSub (x y : Nat) : List Nat → Bool
  | [] => false
  | z :: zs => (Nat.beq z x && memNat y zs) || pairSub x y zs

/-- `x` strictly before `y` in the MRO of one of the blocks -/
def before (mros : List (List Cls)) (x y : Cls) : Bool := mros.any (pairSub x y)

/-- the two classes define no common name, except possibly `__init__` -/
def sharedOK (tbl : Table) (c c' : Cls) : Bool :=
  (defsOf tbl c).all (fun n => Nat.beq n initSym || !memNat n (defsOf tbl c'))

/-- two different classes that define a common name (other than `__init__`) are ordered in the
    MRO of one of the blocks — hence in the same way in every linearisation -/
def checkNames (tbl : Table) (mros : List (List Cls)) (U : List Cls) : Bool :=
  U.all (fun c => U.all (fun c' =>
    Nat.beq c c' || before mros c c' || before mros c' c || sharedOK tbl c c'))

def hasInit (tbl : Table) (c : Cls) : Bool :=
  match initOf tbl c with
  | .absent => false
  | _ => true

def callsSuper (tbl : Table) (c : Cls) : Bool :=
  match initOf tbl c with
  | .evs _ true _ => true
  | _ => false

/-- there is a class `t` whose `__init__` ends the chain; every other class with an `__init__`
    either calls super and precedes `t`, or follows `t` (and is never reached) -/
def checkChain (tbl : Table) (mros : List (List Cls)) (U : List Cls) : Bool :=
  U.any (fun t => hasInit tbl t && !callsSuper tbl t &&
    U.all (fun c => c == t || !hasInit tbl c || (callsSuper tbl c && before mros c t) || before mros t c))

def ev0Prims (tbl : Table) (U : List Cls) : Ev → List Prim
  | .prim p => [p]
  | .callMeth m key => U.flatMap (fun d => (summary tbl d m key).getD [])
  | .callInit _ => []

def evPrims (tbl : Table) (U : List Cls) : Ev → List Prim
  | .callInit d =>
    match initOf tbl d with
    | .evs pre _ post => (pre ++ post).flatMap (ev0Prims tbl U)
    | _ => []
  | .prim p => [p]
  | .callMeth m key => U.flatMap (fun d => (summary tbl d m key).getD [])

def initEvs (tbl : Table) (c : Cls) : List Ev :=
  match initOf tbl c with
  | .evs pre _ post => pre ++ post
  | _ => []

/-- every primitive event that a run over the classes `U` can execute -/
def allPrims (tbl : Table) (U : List Cls) : List Prim :=
  U.flatMap (fun c => (initEvs tbl c).flatMap (evPrims tbl U))

def kwPairs : List Prim → List (Sym × Sym)
  | [] => []
  | .setdef k d :: ps => (k, d) :: kwPairs ps
  | .bind _ k d :: ps => (k, d) :: kwPairs ps
  | _ :: ps => kwPairs ps

def bindPairs : List Prim → List (Sym × Sym)
  | [] => []
  | .bind a k _ :: ps => (a, k) :: bindPairs ps
  | _ :: ps => bindPairs ps

def derivedAttrs : List Prim → List Sym
  | [] => []
  | .write a _ :: ps => a :: derivedAttrs ps
  | .ensure a :: ps => a :: derivedAttrs ps
  | _ :: ps => derivedAttrs ps

/-- the association list is a function: equal keys have equal values -/
def functional (l : List (Sym × Sym)) : Bool :=
  l.all (fun p => l.all (fun q => p.1 != q.1 || p.2 == q.2))

def assoc (k : Sym) : List (Sym × Sym) → Option Sym
  | [] => none
  | (j, v) :: rest => if j = k then some v else assoc k rest

/-- no `self.__init__(…)` calls (the one name whose resolution does depend on the order) -/
def checkCalls (tbl : Table) (U : List Cls) : Bool :=
  U.all (fun c => (initEvs tbl c).all (fun e =>
    match e with
    | .callMeth m _ => m != initSym
    | .callInit d => (initEvs tbl d).all (fun e' => match e' with | .callMeth m _ => m != initSym | _ => true)
    | _ => true))

structure Universe where
  mros : List (List Cls)
  U : List Cls

def mkUniverse (tbl : Table) (blocks : List Cls) : Option Universe :=
  match allSome (blocks.map (mroOf tbl (mroFuel tbl))) with
  | none => none
  | some mros => some ⟨mros, dedup mros.flatten⟩

/-- The static check.  `Props/C20.lean` proves: if it returns `true` for a list of blocks, then
    all orderings of these blocks that can be instantiated resolve every name to the same class
    and end up with the same configuration. -/
def checks (tbl : Table) (blocks : List Cls) : Bool :=
  match mkUniverse tbl blocks with
  | none => false
  | some u =>
    decide blocks.Nodup && u.mros.all (fun mb => decide mb.Nodup)
      && checkNames tbl u.mros u.U && checkChain tbl u.mros u.U && checkCalls tbl u.U
      && functional (kwPairs (allPrims tbl u.U))
      && functional (bindPairs (allPrims tbl u.U))
      && (bindPairs (allPrims tbl u.U)).all (fun b => !(derivedAttrs (allPrims tbl u.U)).contains b.1)

/-- which of the component checks fail (for reporting) -/
def checksReport (tbl : Table) (blocks : List Cls) : List String :=
  match mkUniverse tbl blocks with
  | none => ["no-mro"]
  | some u =>
    (if decide blocks.Nodup then [] else ["duplicate-blocks"])
    ++ (if u.mros.all (fun mb => decide mb.Nodup) then [] else ["mro-dup"])
    ++ (if checkNames tbl u.mros u.U then [] else ["name-clash"])
    ++ (if checkChain tbl u.mros u.U then [] else ["init-chain"])
    ++ (if checkCalls tbl u.U then [] else ["init-call"])
    ++ (if functional (kwPairs (allPrims tbl u.U)) then [] else ["defaults-disagree"])
    ++ (if functional (bindPairs (allPrims tbl u.U)) then [] else ["bind-keys-disagree"])
    ++ (if (bindPairs (allPrims tbl u.U)).all (fun b => !(derivedAttrs (allPrims tbl u.U)).contains b.1)
        then [] else ["mixed-writers"])

end Gep.Mro

/-
  Model/Cx.lean — a two-field complex number over an arbitrary scalar, so that the same
  template text can be instantiated at Float (executable) and at ℝ (theorems).
  Only field operations; transcendental functions are supplied by the instantiation.
-/
namespace Gep

structure Cx (K : Type) where
  re : K
  im : K
deriving Repr

namespace Cx
variable {K : Type}

def ofReal [OfNat K 0] (x : K) : Cx K := ⟨x, 0⟩
def I [OfNat K 0] [OfNat K 1] : Cx K := ⟨0, 1⟩
def conj [Neg K] (z : Cx K) : Cx K := ⟨z.re, -z.im⟩

instance [Add K] : Add (Cx K) := ⟨fun a b => ⟨a.re + b.re, a.im + b.im⟩⟩
instance [Sub K] : Sub (Cx K) := ⟨fun a b => ⟨a.re - b.re, a.im - b.im⟩⟩
instance [Neg K] : Neg (Cx K) := ⟨fun a => ⟨-a.re, -a.im⟩⟩
instance [Add K] [Sub K] [Mul K] : Mul (Cx K) :=
  ⟨fun a b => ⟨a.re * b.re - a.im * b.im, a.re * b.im + a.im * b.re⟩⟩
/-- textbook division (a b̄)/|b|²; numpy uses Smith's scaled algorithm, which agrees to
    rounding for arguments far from overflow (the only ones the models see). -/
instance [Add K] [Sub K] [Mul K] [Div K] : Div (Cx K) :=
  ⟨fun a b =>
    let d := b.re * b.re + b.im * b.im
    ⟨(a.re * b.re + a.im * b.im) / d, (a.im * b.re - a.re * b.im) / d⟩⟩

def smul [Mul K] (x : K) (z : Cx K) : Cx K := ⟨x * z.re, x * z.im⟩
def divR [Div K] (z : Cx K) (x : K) : Cx K := ⟨z.re / x, z.im / x⟩
def normSq [Add K] [Mul K] (z : Cx K) : K := z.re * z.re + z.im * z.im

@[simp] theorem add_re [Add K] (a b : Cx K) : (a + b).re = a.re + b.re := rfl
@[simp] theorem add_im [Add K] (a b : Cx K) : (a + b).im = a.im + b.im := rfl
@[simp] theorem sub_re [Sub K] (a b : Cx K) : (a - b).re = a.re - b.re := rfl
@[simp] theorem sub_im [Sub K] (a b : Cx K) : (a - b).im = a.im - b.im := rfl
@[simp] theorem neg_re [Neg K] (a : Cx K) : (-a).re = -a.re := rfl
@[simp] theorem neg_im [Neg K] (a : Cx K) : (-a).im = -a.im := rfl
@[simp] theorem mul_re [Add K] [Sub K] [Mul K] (a b : Cx K) :
    (a * b).re = a.re * b.re - a.im * b.im := rfl
@[simp] theorem mul_im [Add K] [Sub K] [Mul K] (a b : Cx K) :
    (a * b).im = a.re * b.im + a.im * b.re := rfl
@[simp] theorem div_re [Add K] [Sub K] [Mul K] [Div K] (a b : Cx K) :
    (a / b).re = (a.re * b.re + a.im * b.im) / (b.re * b.re + b.im * b.im) := rfl
@[simp] theorem div_im [Add K] [Sub K] [Mul K] [Div K] (a b : Cx K) :
    (a / b).im = (a.im * b.re - a.re * b.im) / (b.re * b.re + b.im * b.im) := rfl
@[simp] theorem ofReal_re [OfNat K 0] (x : K) : (ofReal x).re = x := rfl
@[simp] theorem ofReal_im [OfNat K 0] (x : K) : (ofReal x).im = 0 := rfl
@[simp] theorem smul_re [Mul K] (x : K) (z : Cx K) : (smul x z).re = x * z.re := rfl
@[simp] theorem smul_im [Mul K] (x : K) (z : Cx K) : (smul x z).im = x * z.im := rfl
@[simp] theorem divR_re [Div K] (x : K) (z : Cx K) : (divR z x).re = z.re / x := rfl
@[simp] theorem divR_im [Div K] (x : K) (z : Cx K) : (divR z x).im = z.im / x := rfl
@[simp] theorem conj_re [Neg K] (z : Cx K) : (conj z).re = z.re := rfl
@[simp] theorem conj_im [Neg K] (z : Cx K) : (conj z).im = -z.im := rfl
@[simp] theorem mk_re (a b : K) : (Cx.mk a b).re = a := rfl
@[simp] theorem mk_im (a b : K) : (Cx.mk a b).im = b := rfl

end Cx
end Gep

/-
  Model/Predict.lean — executable model of the state touched by Theory.predict and the evaluation
  of an observable: the parameter dictionary (temporarily overridden, restored in `finally`), the
  per-theory cache of evolved coefficients keyed by Q², and the DataPoint (evaluated on a copy;
  XSintphi / _XGAMMA_int set and remove a temporary attribute).          (property C12)

  The numbers are uninterpreted: `W0 q` is the evolved-coefficient table the configuration implies
  at scale q, `F obs w params pt` the value (or exception) of observable `obs`.
-/
import Model.FitSync
namespace Gep.Pred
open Gep.Fit (Name dget dset updateAll)

inductive Res (R : Type) where
  | val (r : R)
  | exc (e : String)
deriving DecidableEq, Repr

structure Env (V W R P : Type) where
  W0 : Nat → W
  F : String → W → List (Name × V) → P → Res R

/-- a DataPoint as far as evaluation is concerned: its attribute dictionary, read by attribute name
    (Python compares dictionaries without regard to insertion order; so does this representation) -/
abbrev Point (A : Type) := Name → Option A

def pset {A : Type} (p : Point A) (k : Name) (v : A) : Point A := fun n => if n = k then some v else p n
def pdel {A : Type} (p : Point A) (k : Name) : Point A := fun n => if n = k then none else p n
def pointOfList {A : Type} (l : List (Name × A)) : Point A := fun n => dget l n

structure St (V W A : Type) where
  params : List (Name × V)
  cache : List (Nat × W)
  pt : Point A                 -- the caller's point

def cacheGet {W : Type} : List (Nat × W) → Nat → Option W
  | [], _ => none
  | (k, w) :: r, q => if k == q then some w else cacheGet r q

/-- `try: wce = self.wce[Q2] except KeyError: wce = calc_wce(...); self.wce[Q2] = wce` -/
def coeffs {V W R P : Type} (env : Env V W R P) (cache : List (Nat × W)) (q : Nat) : W × List (Nat × W) :=
  match cacheGet cache q with
  | some w => (w, cache)
  | none => (env.W0 q, cache ++ [(q, env.W0 q)])

/-- how an observable treats the caller's point -/
inductive PtUse (A : Type) where
  | copy                                  -- XS: works on `pt.copy()`
  | tempAttr (k : Name) (v : A)           -- XSintphi (FTn = 0), _XGAMMA_int (t = t_i): set, evaluate, restore

/-- evaluate `fun(pt)` — repaired code: the temporary attribute is removed / the old value put back
    in a `finally` clause -/
def evalObs {V W R A : Type} (env : Env V W R (Point A)) (s : St V W A) (obs : String) (q : Nat)
    (use : PtUse A) : St V W A × Res R :=
  let (w, cache') := coeffs env s.cache q
  match use with
  | .copy => ({ s with cache := cache' }, env.F obs w s.params s.pt)
  | .tempAttr k v =>
    let mem := s.pt k
    let work := pset (pdel s.pt k) k v
    let r := env.F obs w s.params work
    let back := match mem with
      | some old => pset (pdel work k) k old
      | none => pdel work k
    ({ s with cache := cache', pt := back }, r)

/-- `Theory.predict(pt, observable=obs, parameters=ovr)` — repaired code -/
def predict {V W R A : Type} (env : Env V W R (Point A)) (s : St V W A) (obs : String) (q : Nat)
    (use : PtUse A) (ovr : Option (List (Name × V))) : St V W A × Res R :=
  match ovr with
  | none => evalObs env s obs q use
  | some o =>
    let saved := s.params
    let r := evalObs env { s with params := updateAll s.params o } obs q use
    ({ r.1 with params := saved }, r.2)          -- finally: clear(); update(old)

/-- the code before the repair: restore by `update(old)` and only when no exception was raised -/
def predictOld {V W R A : Type} (env : Env V W R (Point A)) (s : St V W A) (obs : String) (q : Nat)
    (use : PtUse A) (ovr : Option (List (Name × V))) : St V W A × Res R :=
  match ovr with
  | none => evalObs env s obs q use
  | some o =>
    let saved := s.params
    let r := evalObs env { s with params := updateAll s.params o } obs q use
    match r.2 with
    | .val _ => ({ r.1 with params := updateAll r.1.params saved }, r.2)
    | .exc _ => r

structure Call (V A : Type) where
  obs : String
  q : Nat
  use : PtUse A
  ovr : Option (List (Name × V))

def runCalls {V W R A : Type} (env : Env V W R (Point A)) (s : St V W A) :
    List (Call V A) → St V W A × List (Res R)
  | [] => (s, [])
  | c :: cs =>
    let r := predict env s c.obs c.q c.use c.ovr
    let rest := runCalls env r.1 cs
    (rest.1, r.2 :: rest.2)

end Gep.Pred

/-
  Model/Util.lean — line-protocol helpers shared by all executable models.
  Core Lean only.  Floats cross the Python/Lean boundary as 16 hex digits of their
  IEEE-754 binary64 bit pattern, so no decimal rounding is involved on either side.
-/
namespace Gep

def hexDigit? (c : Char) : Option Nat :=
  if '0' ≤ c ∧ c ≤ '9' then some (c.toNat - '0'.toNat)
  else if 'a' ≤ c ∧ c ≤ 'f' then some (c.toNat - 'a'.toNat + 10)
  else if 'A' ≤ c ∧ c ≤ 'F' then some (c.toNat - 'A'.toNat + 10)
  else none

def hexNat? (s : String) : Option Nat :=
  if s.isEmpty then none else
  s.toList.foldl (fun acc c => match acc, hexDigit? c with
    | some a, some d => some (16 * a + d)
    | _, _ => none) (some 0)

def floatOfHex? (s : String) : Option Float :=
  if s.length != 16 then none else (hexNat? s).map (fun n => Float.ofBits n.toUInt64)

def hexOfNat (n : Nat) (width : Nat) : String :=
  let ds := (Nat.toDigits 16 n)
  String.ofList (List.replicate (width - ds.length) '0' ++ ds)

def hexOfFloat (x : Float) : String := hexOfNat x.toBits.toNat 16

/-- tokens of a protocol line (single blanks separate tokens; empty tokens dropped) -/
def tokens (line : String) : List String :=
  (line.trimAscii.toString.splitOn " ").filter (· ≠ "")

def floats? (ts : List String) : Option (List Float) := ts.mapM floatOfHex?
def ints? (ts : List String) : Option (List Int) := ts.mapM String.toInt?
def nats? (ts : List String) : Option (List Nat) := ts.mapM String.toNat?

def joinSp (xs : List String) : String := " ".intercalate xs

/-- split a token list at every occurrence of `sep` -/
def splitTok (sep : String) (ts : List String) : List (List String) :=
  let r := ts.foldr (fun t (acc : List String × List (List String)) =>
    if t == sep then ([], acc.1 :: acc.2) else (t :: acc.1, acc.2)) ([], [])
  r.1 :: r.2

end Gep

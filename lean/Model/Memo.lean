/-
  Model/Memo.lean — a memo table in front of a function, as the package uses them (`self.wce[Q2]`,
  `self.wce_dvmp[Q2]`, `self.wce_dis[Q2]`: try the table, on a miss compute and store) and as a "caching
  shortcut" added later would: `key a` is what the table is indexed by, `f a` what is computed.   (property C12)
-/
namespace Gep.Memo

def lookup {K B : Type} [DecidableEq K] : List (K × B) → K → Option B
  | [], _ => none
  | (k, b) :: r, q => if k = q then some b else lookup r q

/-- `try: v = table[key(a)] except KeyError: v = f(a); table[key(a)] = v` -/
def call {A K B : Type} [DecidableEq K] (key : A → K) (f : A → B) (tbl : List (K × B)) (a : A) :
    B × List (K × B) :=
  match lookup tbl (key a) with
  | some b => (b, tbl)
  | none => (f a, tbl ++ [(key a, f a)])

/-- a history of calls on one object: the results, and the table left behind -/
def run {A K B : Type} [DecidableEq K] (key : A → K) (f : A → B) :
    List (K × B) → List A → List B × List (K × B)
  | tbl, [] => ([], tbl)
  | tbl, a :: rest =>
    let (b, tbl') := call key f tbl a
    let (bs, tbl'') := run key f tbl' rest
    (b :: bs, tbl'')

/-- every stored entry is what `f` gives for every argument with that key -/
def TableOK {A K B : Type} (key : A → K) (f : A → B) (tbl : List (K × B)) : Prop :=
  ∀ k b, (k, b) ∈ tbl → ∀ a, key a = k → f a = b

end Gep.Memo

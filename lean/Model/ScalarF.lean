/-
  Model/ScalarF.lean — the Float instantiation of the scalar interface that every
  scalar-template / generated model file is written against.  The ℝ instantiation with
  the same names is Proofs/ScalarR.lean.  A template body may use only:
    K, +, -, *, /, unary -, numerals and decimal literals, x ^ (n : Nat),
    ksqrt kcos ksin kexp klog kpow kpi kabs, Cx K and its operations (Model/Cx.lean).
-/
import Model.Cx
namespace Gep.F

abbrev K := Float

def powNat (x : Float) : Nat → Float
  | 0 => 1
  | n+1 => powNat x n * x

instance : HPow Float Nat Float := ⟨powNat⟩

def ksqrt (x : K) : K := Float.sqrt x
def kcos (x : K) : K := Float.cos x
def ksin (x : K) : K := Float.sin x
def kexp (x : K) : K := Float.exp x
def klog (x : K) : K := Float.log x
def kpow (x y : K) : K := Float.pow x y
def kabs (x : K) : K := Float.abs x
def kpi : K := 3.141592653589793
def katan2 (y x : K) : K := Float.atan2 y x

end Gep.F

import Props.C05
/-
  Audit/C05_checks.lean — written by the independent reviewer of the theorems (notes/audit): non-vacuity examples,
  satisfiability witnesses, refutations of over-strong readings and strengthened variants.  Checked on every run of
  the property's check together with Props/C05.lean.
-/
open Gep Gep.R Gep.R.Evol Gep.R.MB Gep.R.C05

#print axioms Gep.R.C05.handbag
#print axioms Gep.R.C05.handbag_sums
#print axioms Gep.R.C05.mbIntegral_linear
#print axioms Gep.R.C05.j2xIntegral_linear

noncomputable def dEx : PWd := ⟨⟨2, 1⟩, V3.zero, ⟨⟨cone, ⟨0.5, 0⟩, ⟨0.25, 0⟩, cone⟩, cone⟩, ⟨M2.zero, czero⟩⟩
noncomputable def ptsEx : List Pt := [⟨⟨0.35, 1⟩, 0.5, dEx, dEx, dEx⟩, ⟨⟨0.35, 2⟩, 0.25, dEx, dEx, dEx⟩]
noncomputable def HEx : Cx ℝ → V4 := fun j => ⟨j, ⟨1, 2⟩, czero, czero⟩

/-- the file's non-vacuity example only exhibits data; here `handbag` is actually APPLIED to it -/
example (pw : PWS) :
    cff 0 4 0.03 0.03 1.57 0.01 frotDefault pw pw HEx HEx ptsEx =
      .ok ((dvcsCharges 4).q * reCross 0.03 1.57 0.01 pw HEx ptsEx,
           kpi * (dvcsCharges 4).q * (hxCross 0.03 1.57 0.01 pw HEx ptsEx).q,
           (dvcsCharges 4).q * reCross 0.03 1.57 0.01 pw HEx ptsEx,
           kpi * (dvcsCharges 4).q * (hxCross 0.03 1.57 0.01 pw HEx ptsEx).q) :=
  handbag 4 0.03 0.03 1.57 0.01 (by norm_num) pw pw HEx HEx (fun j => ⟨rfl, rfl⟩) (fun j => ⟨rfl, rfl⟩) ptsEx

/-- and hxCross is what `xspace` (Hx) returns on the cross-over line -/
example (pw : PWS) : xspace 0.03 1.57 0.01 0.01 pw HEx ptsEx = .ok (hxCross 0.03 1.57 0.01 pw HEx ptsEx) :=
  xspace_cross 0.03 1.57 0.01 (by norm_num) pw HEx ptsEx

/-- re_is_tan_weighted is the definition of mbIntegral read back (closed by `rfl` per constructor) -/
example (p nf : Nat) (asf asr phi xi : ℝ) (pw : PWS) (h : Cx ℝ → V3) (pts : List Pt) :
    mbIntegral .dvcs p nf asf asr phi xi pw h pts =
      .ok (sumIm pts (fun pt => cchPt .dvcs p nf asf asr phi xi pw h pt * tgj pt.j),
           sumIm pts (cchPt .dvcs p nf asf asr phi xi pw h)) := rfl

import Props.C19
import Mathlib.Tactic.NormNum
import Mathlib.Tactic.Linarith
/-
  Audit/C19_a.lean — written by the independent reviewer of the theorems (notes/audit): non-vacuity examples,
  satisfiability witnesses, refutations of over-strong readings and strengthened variants.  Checked on every run of
  the property's check together with Props/C19.lean.
-/
open Gep.R Gep.R.Eff Gep.R.C19

#print axioms kelly_pF1_is_sachs
#print axioms kelly_nF1_is_sachs
#print axioms kelly_static_limits
#print axioms kelly_denominators_pos
#print axioms dipole_F1_within_one_percent
#print axioms dipole_F2_within_one_percent
#print axioms gkSea_eq_val_antisymmetrised
#print axioms gkSea_antisymmetric

-- (1) mu of the F1 theorems and mu of the F2 theorems are different reals: the two theorems
-- cannot be instantiated with one common parameter set (neutron)
example : ¬ ∃ M4 mu : ℝ, (0.2831951622975774 : ℝ) = 1 / M4 ∧
    (0.5417644379086957 : ℝ) = -mu / M4 ∧ (1.9130427 : ℝ) = -mu := by
  rintro ⟨M4, mu, h1, h2, h3⟩
  have hM : M4 ≠ 0 := by
    intro h; rw [h] at h1; norm_num at h1
  have : mu = -1.9130427 := by linarith
  subst this
  have h4 : (0.5417644379086957 : ℝ) = 1.9130427 * (1 / M4) := by rw [h2]; ring
  rw [← h1] at h4
  norm_num at h4

-- same for the proton
example : ¬ ∃ M4 mu : ℝ, (0.28397655354667284 : ℝ) = 1 / M4 ∧
    (0.7931031653189349 : ℝ) = mu / M4 ∧ (2.792847351 : ℝ) = mu := by
  rintro ⟨M4, mu, h1, h2, h3⟩
  subst h3
  have h4 : (0.7931031653189349 : ℝ) = 2.792847351 * (1 / M4) := by rw [h2]; ring
  rw [← h1] at h4
  norm_num at h4

-- (2) the antisymmetry theorem holds for ANY I, e.g. a deliberately wrong DD integral (constant 7)
example (x eta : ℝ) (h : 0 < eta) :
    gkSea (fun _ _ => 7) (-x) eta = (gkSea (fun _ _ => 7) x eta).map (fun v => -v) :=
  gkSea_antisymmetric _ x eta h

-- (3) eta = 0 is excluded from the sea theorems although `_sea` accepts it; does antisymmetry hold at eta = 0?
example (I : ℝ → Bool → ℝ) : gkSea I (-0) 0 = some (I 0 false) ∧ gkSea I 0 0 = some (I 0 false) := by
  simp [gkSea, region]

-- (4) the Kelly identities hold at poles as well (x/0 = 0), e.g. t = 1/0.28397655354667284 (time-like pole of 1+tau)
example : pF1 (1/0.28397655354667284) = 0 := by
  unfold pF1 pDenTau; norm_num

import Props.C09
/-
  Audit/C09_e.lean — written by the independent reviewer of the theorems (notes/audit): non-vacuity examples,
  satisfiability witnesses, refutations of over-strong readings and strengthened variants.  Checked on every run of
  the property's check together with Props/C09.lean.
-/
open Gep.DF
def tests : List String := ["1e5 x", "1.2.3 4", "+ 1 2", "-", "1 abc", " \t5\r", "1,2 3", "5", "1e+ 2", ".5. 3", "1e5", "1.e5 2", "--1 2", "1-2 3", "+.5e-3\t7.", ". 1", "1e 5", "3 = 4 ", "1E+05x 2", "\r1 2", "1\r2 "]
#eval tests.map (fun s => (isGridLine (stripComment s.toList), (findall (stripComment s.toList)).map String.ofList))

import Props.C01
/-
  Audit/C01_nv2.lean — written by the independent reviewer of the theorems (notes/audit): non-vacuity examples,
  satisfiability witnesses, refutations of over-strong readings and strengthened variants.  Checked on every run of
  the property's check together with Props/C01.lean.
-/
open Gep.R Gep.R.BH Gep.R.C01

noncomputable def c0 : Consts := ⟨1, 1, 1/137, 1⟩
noncomputable def p0 : Pt :=
  { Q2 := 16/9, xB := 1/2, t := -16/9, y := 0, eps2 := 0, phi := Real.arccos (3/5), K2 := 0, P1P2 := 0, intP1P2 := 0,
    W := 5/3, s := 6, eps := 0, J := 0, K_ := 0, tK2 := 0, tK := 0, r := 0, chi0 := 0, chi := 0,
    in1charge := -1, in1polarization := 1, varphi := 1 }

theorem hy0 : (prepare c0 p0).y = 32/45 := by
  simp only [prepare, c0, p0]; norm_num
theorem hc0 : kcos p0.phi = 3/5 := by
  simp only [kcos, p0]; exact Real.cos_arccos (by norm_num) (by norm_num)
theorem hs0 : ksin p0.phi = 4/5 := by
  simp only [ksin, p0]; rw [Real.sin_arccos]
  rw [show (1 - (3/5:ℝ)^2) = (4/5)^2 by norm_num]; exact Real.sqrt_sq (by norm_num)
theorem he0 : (prepare c0 p0).eps2 = 9/16 := by
  rw [prepare_eps2_eq c0 p0 (M := 1) rfl (by simp [p0])]; simp only [p0]; norm_num
theorem phys0 : Phys 1 (1/2) (16/9) (-16/9) (32/45) (5/4) (7/25) (8/15) (3/5) (4/5) := by
  constructor <;> norm_num [frameOf]

theorem hK0 : (prepare c0 p0).K2 = 49/900 := by
  have h := frame_K2 c0 phys0
  simp only [] at h
  have h1 : (prepare c0 p0).K2 = K2 c0 p0.Q2 p0.xB p0.t (prepare c0 p0).y (prepare c0 p0).eps2 := rfl
  rw [h1, hy0, he0]
  have h2 : K2 c0 p0.Q2 p0.xB p0.t (32/45) (9/16) = K2 c0 (16/9) (1/2) (-16/9) (32/45) (4 * (1/2) ^ 2 * 1 ^ 2 / (16/9)) := by
    simp only [p0]; norm_num
  rw [h2, ← h]
  norm_num [frameOf]

-- prepare_y hypotheses
example := prepare_y c0 p0 (by simp [c0]) (by simp [p0]) (by simp [c0, p0]; norm_num) (by simp [c0, p0]; norm_num)

-- weight_BH_normalised / anintP1P2_is_integral hypotheses
theorem hI0 : (prepare c0 p0).intP1P2 ≠ 0 := by
  have h1 : (prepare c0 p0).intP1P2 = anintP1P2 c0 { (prepare c0 p0) with intP1P2 := p0.intP1P2, P1P2 := p0.P1P2 } := rfl
  rw [h1]
  simp only [anintP1P2]
  rw [hK0, hy0, he0]
  simp only [prepare, p0, kpi]
  have := Real.pi_pos
  norm_num

example := weight_BH_normalised c0 p0 (by rw [hK0]; norm_num) (by rw [hy0]; norm_num) (by rw [he0]; norm_num) hI0
example := anintP1P2_is_integral c0 (prepare c0 p0) rfl (by rw [hK0]; norm_num) (by rw [hy0]; norm_num) (by rw [he0]; norm_num)

import Props.C09
/-
  Audit/C09_a.lean — written by the independent reviewer of the theorems (notes/audit): non-vacuity examples,
  satisfiability witnesses, refutations of over-strong readings and strengthened variants.  Checked on every run of
  the property's check together with Props/C09.lean.
-/
open Gep.DF Gep.DF.C09

-- (1) non-vacuity of parseLine_grid_row on a concrete row
def row1 : List (List Char × List Char) :=
  [("22.5".toList, "\t".toList), ("1.109E-05".toList, " \t".toList), ("-.0018".toList, " \r".toList)]

example : RowOk row1 := by
  simp only [row1, RowOk]
  refine ⟨by decide, by unfold IsSepRun; decide, by decide, by decide, by unfold IsSepRun; decide, by decide, by decide, by unfold IsSepRun; decide⟩

example : (parseLine ⟨[], []⟩ (" ".toList ++ renderRow row1 ++ "# c = 1".toList)).data
    = [[⟨false,225,-1⟩, ⟨false,1109,-8⟩, ⟨true,18,-4⟩]] ∧
    (parseLine ⟨[], []⟩ (" ".toList ++ renderRow row1 ++ "# c = 1".toList)).desc = [] := by
  decide

-- (2) Lit.Digits is laxer than the NUM grammar: it accepts strings that are not tokens
def bad1 : Lit := ⟨none, ['1'], none, some ('x', none, ['5'])⟩    -- "1x5"
def bad2 : Lit := ⟨none, [], some [], none⟩                        -- "."
def bad3 : Lit := ⟨none, ['1'], none, some ('e', some true, [])⟩   -- "1e-"

example : bad1.Digits ∧ ¬ IsTok bad1.chars := by
  refine ⟨⟨by decide, by intro f hf; simp [bad1] at hf, ?_, by simp [bad1]⟩, by decide⟩
  intro e s d h; simp [bad1] at h; obtain ⟨rfl, rfl, rfl⟩ := h
  exact ⟨by decide, by decide, by decide, by simp⟩
example : bad2.Digits ∧ ¬ IsTok bad2.chars := by
  refine ⟨⟨by simp [bad2], by intro f hf; simp [bad2] at hf; subst hf; simp, ?_, by simp [bad2]⟩, by decide⟩
  intro e s d h; simp [bad2] at h
example : bad3.Digits ∧ ¬ IsTok bad3.chars := by
  refine ⟨⟨by decide, by intro f hf; simp [bad3] at hf, ?_, by simp [bad3]⟩, by decide⟩
  intro e s d h; simp [bad3] at h; obtain ⟨rfl, rfl, rfl⟩ := h
  exact ⟨by decide, by decide, by simp, by simp⟩

-- the value theorem then "reads" these non-literals too
example : decOfToken "1x5".toList = ⟨false, 1, 5⟩ := by decide

#print axioms parseLine_grid_row
#print axioms decOfToken_literal
#print axioms tokens_legal
#print axioms old_tokenizer_refuted
#print axioms Gep.R.C09.combine_err_sq
#print axioms splitLines_line

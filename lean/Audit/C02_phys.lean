import Props.C02
/-
  Audit/C02_phys.lean — written by the independent reviewer of the theorems (notes/audit): non-vacuity examples,
  satisfiability witnesses, refutations of over-strong readings and strengthened variants.  Checked on every run of
  the property's check together with Props/C02.lean.
-/
open Gep Gep.R Gep.R.Evol Gep.R.C02

/-- the package's γ0 at n = 2, nf = 3 (values printed by gepard.adim.singlet_LO(2, 3)) -/
noncomputable def gPhys : M2 := ⟨⟨32/9, 0⟩, ⟨-2, 0⟩, ⟨-32/9, 0⟩, ⟨2, 0⟩⟩

example (R : ℝ) : M2.colsum (evolopLO gPhys (-9) R) = (cone, cone) := by
  have hd : gPhys.a ≠ gPhys.d := by
    intro h; have := congrArg Cx.re h; norm_num [gPhys] at this
  have hdisc : (gPhys.a - gPhys.d) * (gPhys.a - gPhys.d) + Cx.smul 4 (gPhys.b * gPhys.c) ≠ czero := by
    intro h; have := congrArg Cx.re h; norm_num [gPhys, czero] at this
  have hcs : M2.colsum gPhys = (czero, czero) := by
    simp only [M2.colsum, gPhys, Prod.mk.injEq]
    constructor <;> apply Cx_ext <;> norm_num [czero]
  exact momentum_LO gPhys (-9) R hd (lambdaf_ne gPhys hd hdisc) hcs

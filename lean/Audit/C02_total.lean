import Props.C02
/-
  Audit/C02_total.lean — written by the independent reviewer of the theorems (notes/audit): non-vacuity examples,
  satisfiability witnesses, refutations of over-strong readings and strengthened variants.  Checked on every run of
  the property's check together with Props/C02.lean.
-/
open Gep Gep.R Gep.R.Evol Gep.R.C02

/-- (a) the hypothesis γ0_QQ ≠ γ0_GG is NECESSARY in the model: for γ0 = 0 the totalised division makes both
    projectors vanish, so "evolution to the input scale" is the ZERO matrix, not the identity -/
theorem evolopLO_zero (b0 R : ℝ) : evolopLO M2.zero b0 R = M2.zero := by
  apply M2_ext <;> apply Cx_ext <;>
    simp [evolopLO, projectors, lambdaf, M2.zero, M2.add, M2.smulC, czero, cone]

example (b0 : ℝ) : evolopLO M2.zero b0 1 ≠ M2.one := by
  rw [evolopLO_zero]
  intro h
  have := congrArg (fun m => (M2.a m).re) h
  simp [M2.zero, M2.one, czero, cone] at this

/-- (b) totalised 0/0 inside erfunc: at β0 + (λ₊ − λ₋) = 0 the model's erfunc entry is 0 for EVERY R
    (numpy: nan; the true limit is β0·ln R … ≠ 0).  evolop_identity / momentum_NLO have no hypothesis excluding it. -/
example (R : ℝ) : erEntry 3 ⟨-3, 0⟩ R = czero := by
  apply Cx_ext <;> simp [erEntry, czero, Cx.ofReal]

/-- (c) R ≤ 0 is inside the "for every R" of momentum_LO only because Real.log is totalised: R = 0 evolves
    like R = 1 -/
example (b0 : ℝ) (lam : Cx ℝ) : rfact b0 lam 0 = cone := by
  apply toC_injective; simp [toC_rfact]

/-- (d) β0 = 0 is inside evolopns_identity only through x/0 = 0 -/
example (g0 g1 : Cx ℝ) (b1 : ℝ) : r1ns g0 g1 0 b1 = czero := by
  apply Cx_ext <;> simp [r1ns, czero]

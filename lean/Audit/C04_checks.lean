import Props.C04
/-
  Audit/C04_checks.lean — written by the independent reviewer of the theorems (notes/audit): non-vacuity examples,
  satisfiability witnesses, refutations of over-strong readings and strengthened variants.  Checked on every run of
  the property's check together with Props/C04.lean.
-/
open Gep Gep.R Gep.R.Evol Gep.R.MB Gep.R.C04

#print axioms Gep.R.C04.qj_is_mellin_moment
#print axioms Gep.R.C04.hx_input_scale
#print axioms Gep.R.C04.f2_LO_eq
#print axioms Gep.R.C04.momentum_sum_rule
#print axioms Gep.R.C04.input_momentum

/-- non-vacuity, group 1: actual instantiation (the file only checks the two inequalities) -/
example : ∃ z, qj ⟨0.35, 2⟩ 0 9 0.2 1.1 0.25 0 0 = .ok z ∧
      toC z = ∫ x in (0 : ℝ)..1, (x : ℂ) ^ (toC ⟨0.35, 2⟩) * pdfClosed 0.2 1.1 9 x :=
  qj_is_mellin_moment ⟨0.35, 2⟩ 9 (by norm_num) 0.2 1.1 0.25 (by norm_num) (by norm_num)

/-- non-vacuity, input_momentum -/
example : ∃ v, singletNg .dipole ⟨0.2, 1.1, 0.25, 1.1, 1.2, 0.25, 1.2⟩ 0 ⟨1, 0⟩ = .ok v ∧ toC v.s + toC v.g = 0.6 :=
  input_momentum _ (by norm_num) (by norm_num)

noncomputable def evEx : EvolIn := ⟨C02.gEx, C02.gEx, czero, czero, none, none⟩
theorem evEx_reg : evEx.Regular := by
  obtain ⟨hd, hl, -, -, -⟩ := C02.gEx_hyps
  exact ⟨hd, hl⟩

noncomputable def dEx : PWd := ⟨⟨2, 1⟩, V3.zero, ⟨M2.one, cone⟩, ⟨M2.zero, czero⟩⟩
noncomputable def ptEx : Pt := ⟨⟨0.35, 1⟩, 0.5, dEx, dEx, dEx⟩

/-- non-vacuity, group 2: hx_input_scale with a NON-EMPTY list -/
example (pw : PWS) (H : Cx ℝ → V4) :
    xspace 0.03 1.57 0.01 0 pw H ([(ptEx, (evEx, evEx, evEx))].map fun e => e.1.withEvol 1 (-9) (-64) 1 e.2) =
      xspace 0 1.57 0.01 0 pw H ([(ptEx, (evEx, evEx, evEx))].map fun e => e.1.withId) :=
  hx_input_scale 1 (-9) (-64) 0.03 1.57 0.01 0 pw H _ (by
    intro e he
    simp only [List.mem_singleton] at he
    subst he
    exact ⟨evEx_reg, evEx_reg, evEx_reg⟩)

/-- non-vacuity, group 4 -/
example (h : V3) :
    (((dEx.withEvol 1 (-9) (-64) 0.7 evEx).op 0.03).apply h).q + (((dEx.withEvol 1 (-9) (-64) 0.7 evEx).op 0.03).apply h).g
      = h.q + h.g := by
  obtain ⟨-, -, hcs, -, -⟩ := C02.gEx_hyps
  exact momentum_sum_rule dEx 1 (-9) (-64) 0.7 0.03 evEx evEx_reg rfl hcs hcs h

/-- "any γ0" (DESIGN 8.5 C04 item 2) is false in the model: for γ0 = 0 the operator at R = 1 is NOT the identity,
    so `Regular` is a real hypothesis -/
example (p : Nat) (b0 b1 : ℝ) :
    opOfEvol p b0 b1 1 ⟨M2.zero, M2.zero, czero, czero, none, none⟩ ≠ (⟨M2.one, cone⟩, ⟨M2.zero, czero⟩) := by
  intro h
  have h1 : (opOfEvol p b0 b1 1 ⟨M2.zero, M2.zero, czero, czero, none, none⟩).1.si = M2.one := by rw [h]
  have h2 : (opOfEvol p b0 b1 1 ⟨M2.zero, M2.zero, czero, czero, none, none⟩).1.si = evolopLO M2.zero b0 1 := by
    simp only [opOfEvol, evolop]; split <;> rfl
  rw [h2] at h1
  have : evolopLO M2.zero b0 1 = M2.zero := by
    apply M2_ext <;> apply Cx_ext <;>
      simp [evolopLO, projectors, lambdaf, M2.zero, M2.add, M2.smulC, czero, cone]
  rw [this] at h1
  have := congrArg (fun m => (M2.a m).re) h1
  simp [M2.zero, M2.one, czero, cone] at this

/-- gluon_only_radiates does not involve the evolution model at all: it is matrix–vector multiplication for an
    ARBITRARY Op3 (here: a made-up operator that has nothing to do with evolop) -/
example (h : V3) (hq : h.q = czero) :
    ((⟨⟨⟨17, 0⟩, ⟨0, 0⟩, ⟨5, 5⟩, ⟨-3, 0⟩⟩, cone⟩ : Op3).apply h).q = (⟨0, 0⟩ : Cx ℝ) * h.g :=
  (gluon_only_radiates _ h hq).1

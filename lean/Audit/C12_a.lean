import Props.C12
/-
  Audit/C12_a.lean — written by the independent reviewer of the theorems (notes/audit): non-vacuity examples,
  satisfiability witnesses, refutations of over-strong readings and strengthened variants.  Checked on every run of
  the property's check together with Props/C12.lean.
-/
open Gep.Pred Gep.Pred.C12 Gep.Fit

-- predict_params is definitional (the model writes `params := saved`; no clear()/update(old) mechanism is modelled)
example {V W R A : Type} (env : Env V W R (Point A)) (s : St V W A) (obs : String) (q : Nat) (use : PtUse A)
    (ovr : Option (List (Name × V))) : (predict env s obs q use ovr).1.params = s.params := by
  cases ovr <;> cases use <;> rfl

-- copy-branch of predict_point is definitional too
example {V W R A : Type} (env : Env V W R (Point A)) (s : St V W A) (obs : String) (q : Nat)
    (ovr : Option (List (Name × V))) : (predict env s obs q .copy ovr).1.pt = s.pt := by
  cases ovr <;> rfl

-- "also when the evaluation raises": an exception is just a value of F; predict has no branch on it
example {V W R A : Type} (env : Env V W R (Point A)) (s : St V W A) (obs : String) (q : Nat) (use : PtUse A)
    (ovr : Option (List (Name × V))) (F' : String → W → List (Name × V) → Point A → Res R) :
    (predict { env with F := F' } s obs q use ovr).1 = (predict env s obs q use ovr).1 := by
  cases ovr <;> cases use <;> rfl

def envN : Env Nat Nat Nat (Point Nat) :=
  { W0 := fun q => q, F := fun obs w ps _ => if obs == "XS" then .val (w + (dget ps "a").getD 0) else .exc "AttributeError" }

-- the CacheOK hypothesis is needed and can fail: a stale entry changes the value
example : (predict envN { params := [("a", 1)], cache := [(4, 99)], pt := pointOfList [("xB", 3)] } "XS" 4 .copy none).2 = .val 100 := by
  decide
example : ¬ CacheOK envN [(4, 99)] := by
  intro h; have := h 4 99 (by decide); simp [envN] at this

-- initial state (empty cache) establishes it; run a history incl. failing call, override with new key, tempAttr
example : let s : St Nat Nat Nat := { params := [("a", 1)], cache := [], pt := pointOfList [("xB", 3), ("FTn", 2)] }
    let r := runCalls envN s [⟨"XS", 4, .copy, none⟩, ⟨"nope", 4, .copy, some [("a", 9), ("new", 7)]⟩,
                               ⟨"XS", 5, .tempAttr "FTn" 0, some [("a", 2)]⟩, ⟨"XS", 4, .tempAttr "t" 1, none⟩]
    r.2 = [.val 5, .exc "AttributeError", .val 7, .val 5] ∧ r.1.params = [("a", 1)] ∧ r.1.cache = [(4, 4), (5, 5)] := by
  decide

example (s : St Nat Nat Nat) (hs : s.cache = []) (calls : List (Call Nat Nat)) :
    (runCalls envN s calls).1.params = s.params :=
  (runCalls_pure envN s calls (by rw [hs]; exact cacheOK_nil envN)).2.1

-- no reachable stale cache: the only write stores W0 q (config is not part of the key/state)
-- => CacheOK is preserved for EVERY env, i.e. the invariant excludes no reachable state.

-- Memo: hypotheses satisfiable
open Gep.Memo in
example : (Gep.Memo.run (fun p : Nat × Nat => p) (fun p => p.1 + p.2) [] [(4, 0), (4, 1), (4, 0)]).1 = [4, 5, 4] :=
  (run_pure _ _ (by intro a b h; rw [h]) [] (by intro k b hm; cases hm) _).1

#print axioms Gep.Pred.C12.runCalls_pure
#print axioms Gep.Pred.C12.predict_value
#print axioms Gep.Pred.C12.predict_point
#print axioms Gep.Memo.transparent_iff
#print axioms Gep.Memo.run_pure
#print axioms Gep.Pred.C12.old_code_refuted

import Props.C18
import Mathlib.Tactic.NormNum
import Mathlib.Tactic.Linarith
/-
  Audit/C18_a.lean — written by the independent reviewer of the theorems (notes/audit): non-vacuity examples,
  satisfiability witnesses, refutations of over-strong readings and strengthened variants.  Checked on every run of
  the property's check together with Props/C18.lean.
-/
open Gep.R Gep.R.C18

noncomputable def fEx : List ℝ → ℝ := fun θ => 3 + 2 * θ.getD 0 0 - θ.getD 1 0 + (θ.getD 0 0) ^ 2
def gEx : Nat → ℝ := fun i => if i = 0 then 4 else if i = 1 then -1 else 0
def bEx : Nat → ℝ := fun i => if i = 0 then 1 else 0

theorem lqEx : LocallyQuadratic fEx [1, 5] gEx bEx := by
  intro i d
  match i with
  | 0 => simp [fEx, gEx, bEx, shiftAt, List.zipIdx]; ring
  | 1 => simp [fEx, gEx, bEx, shiftAt, List.zipIdx]; ring
  | (n + 2) => simp [fEx, gEx, bEx, shiftAt, List.zipIdx]

-- (1) end-to-end non-vacuity of predictUnc_linear_propagation: gᵀCg = 64 - 4 - 4 + 9 = 65
example : (predictUnc fEx [1, 5] [1/2, 2] (some [[4, 1], [1, 9]])).2 = Real.sqrt 65 := by
  rw [predictUnc_linear_propagation fEx [1, 5] [1/2, 2] gEx bEx lqEx (by intro h hh; simp at hh; rcases hh with rfl | rfl <;> norm_num)]
  congr 1
  rw [varCov_eq_sum]
  simp [gEx, List.range, List.range.loop]
  norm_num

-- (2) sqrt of a negative variance is silently 0 in the model (numpy: nan + RuntimeWarning)
example : (predictUnc fEx [1, 5] [1/2, 2] (some [[-1, 0], [0, -1]])).2 = 0 := by
  rw [predictUnc_linear_propagation fEx [1, 5] [1/2, 2] gEx bEx lqEx (by intro h hh; simp at hh; rcases hh with rfl | rfl <;> norm_num)]
  apply Real.sqrt_eq_zero_of_nonpos
  rw [varCov_eq_sum]
  simp [gEx, List.range, List.range.loop]
  norm_num

-- (3) zero step: gradient silently 0 (Python: ZeroDivisionError)
example (f : List ℝ → ℝ) (θ : List ℝ) (i : Nat) : dfdp f θ 0 i = 0 := by simp [dfdp]

-- (4) zip truncation: a covariance with too few rows/columns is silently accepted (Python: KeyError)
example (f : List ℝ → ℝ) (θ hs : List ℝ) : (predictUnc f θ hs (some [])).2 = 0 := by
  simp [predictUnc, varCov, ksqrt]

-- (5) the hypothesis of dfdp_remainder_partial is satisfiable for EVERY f, g, b (r absorbs everything):
--     the theorem is an algebraic identity, it carries no smallness information
example (f : List ℝ → ℝ) (θ : List ℝ) (i : Nat) (g b : ℝ) :
    ∃ r : ℝ → ℝ, ∀ d, f (shiftAt θ i d) = f θ + g * d + b * d ^ 2 + r d :=
  ⟨fun d => f (shiftAt θ i d) - (f θ + g * d + b * d ^ 2), fun d => by ring⟩

-- (6) central/unc theorems are rfl
example (f : List ℝ → ℝ) (θ hs : List ℝ) (C : Option (List (List ℝ))) : (predictUnc f θ hs C).1 = f θ := rfl

-- (7) LocallyQuadratic forces g i = 0 for out-of-range i (harmless, but shows g is only meaningful for i < θ.length)
example (f : List ℝ → ℝ) (g b : Nat → ℝ) (hq : LocallyQuadratic f [1, 5] g b) : g 7 = 0 := by
  have h1 := hq 7 1
  have h2 := hq 7 (-1)
  simp [shiftAt, List.zipIdx] at h1 h2
  linarith

-- (8) bilinear (mixed) observables are covered: f = θ0*θ1
example : LocallyQuadratic (fun θ => θ.getD 0 0 * θ.getD 1 0) [1, 5]
    (fun i => if i = 0 then 5 else if i = 1 then 1 else 0) (fun _ => 0) := by
  intro i d
  match i with
  | 0 => simp [shiftAt, List.zipIdx]; ring
  | 1 => simp [shiftAt, List.zipIdx]
  | (n + 2) => simp [shiftAt, List.zipIdx]

#print axioms predictUnc_linear_propagation
#print axioms predictUnc_diagonal
#print axioms varCov_eq_sum
#print axioms dfdp_remainder_partial

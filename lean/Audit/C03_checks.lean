import Props.C03
/-
  Audit/C03_checks.lean — written by the independent reviewer of the theorems (notes/audit): non-vacuity examples,
  satisfiability witnesses, refutations of over-strong readings and strengthened variants.  Checked on every run of
  the property's check together with Props/C03.lean.
-/
set_option linter.unusedSimpArgs false
open Gep Gep.R Gep.R.Adim Gep.R.C03

-- (1) totalised division: at the pole n = 1 the model's γ⁰_gq is 0 (Python: ZeroDivisionError / inf)
example (nf prty : ℝ) (P : SF) : (singlet_LO (r 1) nf prty P).gq = r 0 := by
  apply toC_inj
  simp only [singlet_LO, toC_add, toC_sub, toC_mul, toC_div, toC_neg, toC_r]
  push_cast
  norm_num

-- (2) the S1 hypothesis of the LO sum rule is needed (theorem is not true for arbitrary P)
example : ∃ P : SF, (singlet_LO (r 2) 3 1 P).qq + (singlet_LO (r 2) 3 1 P).gq ≠ r 0 := by
  refine ⟨⟨r 0, r 0, r 0, r 0, r 0, r 0, r 0, r 0, r 0, 0, 0⟩, ?_⟩
  intro h
  have h2 := congrArg toC h
  simp only [singlet_LO, toC_add, toC_sub, toC_mul, toC_div, toC_neg, toC_r, CF, CA, NC, TF] at h2
  have h3 := congrArg Complex.re h2
  norm_num at h3

-- (3) AffineC is a genuine predicate: x ↦ x² is not affine
example : ¬ AffineC (fun x => r (x * x)) := by
  intro h
  have h2 := congrArg Cx.re (h 2)
  simp [r] at h2

-- (4) non-vacuity for LO_quark_number and the H-hypotheses of group 5
example : ∃ P : SF, P.S1 = r 1 := ⟨⟨r 1, r 0, r 0, r 0, r 0, r 0, r 0, r 0, r 0, 0, 0⟩, rfl⟩
example (m : ℕ) : ∃ P : SF, P.S1 = r (H (m + 1)) ∧ P.S1 = r (H (m + 1)) :=
  ⟨⟨r (H (m+1)), r 0, r 0, r 0, r 0, r 0, r 0, r 0, r 0, 0, 0⟩, rfl, rfl⟩

-- (5) NLO sum rule is contentful: with all transcendental parameters set to 0 the rational part of
--     γ¹_qq(2)+γ¹_gq(2) must be exactly 16·CF·CG = -32/9
example (nf prty : ℝ) (P : SF) (h : AtTwo P 0 0 0 0 0) :
    (singlet_NLO (r 2) nf prty P).qq + (singlet_NLO (r 2) nf prty P).gq = r (-32/9) := by
  rw [NLO_momentum_quark_column nf prty 0 0 0 0 0 P h]
  congr 1; simp only [CF, CG, CA, NC]; norm_num

-- (6) NLO_sum_rules_exact hypotheses jointly satisfiable
example (z2 z3 L2 g : ℝ) : ∃ P Q : SF, AtTwo P z2 z3 L2 g (z2 - 1 - z2 * L2 + 5 / 8 * z3) ∧
    AtOne Q z2 z3 L2 g (z2 * L2 - 5 / 8 * z3) :=
  ⟨⟨r (3 / 2), r (5 / 4), r 1, r 1, r 0, r 0, r g, r (g + 2 - 2 * L2), r _, z2, z3⟩,
   ⟨r 1, r 1, r 0, r 0, r 0, r 0, r (g - 2 * L2), r g, r _, z2, z3⟩,
   ⟨rfl, rfl, rfl, rfl, rfl, rfl, rfl, rfl, rfl⟩, ⟨rfl, rfl, rfl, rfl, rfl, rfl, rfl, rfl, rfl⟩⟩

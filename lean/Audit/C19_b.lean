import Props.C19
/-
  Audit/C19_b.lean — written by the independent reviewer of the theorems (notes/audit): non-vacuity examples,
  satisfiability witnesses, refutations of over-strong readings and strengthened variants.  Checked on every run of
  the property's check together with Props/C19.lean.
-/
open Gep.R Gep.R.Eff Gep.R.C19

/-- the SHAPE of `_pF1` with ten arbitrary literals c0..c9 -/
noncomputable def pF1shape (c0 c1 c2 c3 c4 c5 c6 c7 c8 c9 t : ℝ) : ℝ :=
  ((1 + c1*t)/(1 - c2*t + c3*t^2 - c4*t^3) - (c5*(1 - c6*t)*t)/(1 - c7*t + c8*t^2 - c9*t^3))/(1 - c0*t)

/-- kelly_pF1_is_sachs holds verbatim for ANY ten literals: the theorem carries no numerical
    information about Kelly's table (every literal has its own free parameter). -/
theorem shape_is_sachs (c0 c1 c2 c3 c4 c5 c6 c7 c8 c9 t M4 a1E b1E b2E b3E mu a1M b1M b2M b3M : ℝ)
    (hτ : c0 = 1 / M4) (ha1E : c1 = -a1E / M4) (hb1E : c2 = b1E / M4) (hb2E : c3 = b2E / M4 ^ 2)
    (hb3E : c4 = b3E / M4 ^ 3) (hmu : c5 = mu / M4) (ha1M : c6 = a1M / M4) (hb1M : c7 = b1M / M4)
    (hb2M : c8 = b2M / M4 ^ 2) (hb3M : c9 = b3M / M4 ^ 3) :
    pF1shape c0 c1 c2 c3 c4 c5 c6 c7 c8 c9 t = sachsF1 (kellyG a1E b1E b2E b3E (-t / M4))
                    (mu * kellyG a1M b1M b2M b3M (-t / M4)) (-t / M4) := by
  unfold pF1shape sachsF1 kellyG
  rw [hτ, ha1E, hb1E, hb2E, hb3E, hmu, ha1M, hb1M, hb2M, hb3M]
  ring

/-- and the hypotheses are solvable for any literals with c0 ≠ 0 -/
example (c0 c1 c2 c3 c4 c5 : ℝ) (h0 : c0 ≠ 0) : ∃ M4 a1E b1E b2E b3E mu : ℝ,
    c0 = 1 / M4 ∧ c1 = -a1E / M4 ∧ c2 = b1E / M4 ∧ c3 = b2E / M4 ^ 2 ∧ c4 = b3E / M4 ^ 3 ∧ c5 = mu / M4 := by
  refine ⟨1 / c0, -(c1 * (1 / c0)), c2 * (1 / c0), c3 * (1 / c0) ^ 2, c4 * (1 / c0) ^ 3, c5 * (1 / c0),
    ?_, ?_, ?_, ?_, ?_, ?_⟩ <;> field_simp

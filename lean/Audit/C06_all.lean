import Props.C06
/-
  Audit/C06_all.lean — written by the independent reviewer of the theorems (notes/audit): non-vacuity examples,
  satisfiability witnesses, refutations of over-strong readings and strengthened variants.  Checked on every run of
  the property's check together with Props/C06.lean.
-/
open Gep.R Gep.R.C06
set_option maxRecDepth 4000

#print axioms Gep.R.C06.TDVCS2LP_bilinear_BM10
#print axioms Gep.R.C06.TDVCS2LP_not_bilinear_BM10ex
#print axioms Gep.R.C06.TDVCS2unp_BM10_eq_hotfixed
#print axioms Gep.R.C06.TDVCS2unp_hotfixed_BMK_bound
#print axioms Gep.R.C06.CCALDVCSunp_BM10_eq_BMK

-- (A) at the witness of TDVCS2LP_not_bilinear_BM10ex the TERM TDVCS2LP itself is ZERO (in1polarization = 0, K_ = 0):
-- the theorem only shows the coefficient CCALDVCSLP is non-zero, not that TDVCS2LP fails to vanish
example : FS_BM10ex_TDVCS2LP ⟨1, 1, 1, 1⟩ (zeroAx ⟨0, 0, 1, 0, 0, 0, 0, 0, 0, 0, 0, 0, 0, 0, 0, 0, 0, 0⟩)
    ⟨4, 1/2, -1, 1/2, 1/4, 0, 0, 0, 0, 0, 0, 0, 0, 0, 0, 0, 0, 0, 0, 0, 0, 0⟩ = 0 := by
  simp only [FS_BM10ex_TDVCS2LP, BM10ex.TDVCS2LP, BM10ex.cDVCS0LP, BM10ex.cDVCS1LP, BM10ex.sDVCS1LP]
  norm_num

-- (B) the stronger statement (suggested replacement): the TERM does not vanish (helicity 1)
theorem TDVCS2LP_not_bilinear_BM10ex_term :
    ∃ (c : Consts) (m : CFFs) (pt : Pt), FS_BM10ex_TDVCS2LP c (zeroAx m) pt ≠ 0 := by
  refine ⟨⟨1, 1, 1, 1⟩, ⟨0, 0, 1, 0, 0, 0, 0, 0, 0, 0, 0, 0, 0, 0, 0, 0, 0, 0⟩,
    ⟨4, 1/2, -1, 1/2, 1/4, 0, 0, 0, 0, 0, 0, 0, 0, 0, 0, 0, 0, 0, 0, 0, 1, 0⟩, ?_⟩
  have hC : BM10ex.CCALDVCSLP_im0_leff0_reff0 ⟨1, 1, 1, 1⟩ (zeroAx ⟨0, 0, 1, 0, 0, 0, 0, 0, 0, 0, 0, 0, 0, 0, 0, 0, 0, 0⟩)
      ⟨4, 1/2, -1, 1/2, 1/4, 0, 0, 0, 0, 0, 0, 0, 0, 0, 0, 0, 0, 0, 0, 0, 1, 0⟩ ≠ 0 := by
    simp only [BM10ex.CCALDVCSLP_im0_leff0_reff0, bmk_sym, Gep.Cx.mk_re, Gep.Cx.mk_im, Gep.Cx.add_re, Gep.Cx.add_im,
      Gep.Cx.sub_re, Gep.Cx.sub_im, Gep.Cx.neg_re, Gep.Cx.neg_im, Gep.Cx.mul_re, Gep.Cx.mul_im, Gep.Cx.smul_re,
      Gep.Cx.smul_im, Gep.Cx.divR_re, Gep.Cx.divR_im, Gep.Cx.ofReal_re, Gep.Cx.ofReal_im]
    norm_num
  have hs : ksqrt (1 + 1/4) ≠ 0 := by
    unfold ksqrt; exact (Real.sqrt_pos.mpr (by norm_num)).ne'
  simp only [FS_BM10ex_TDVCS2LP, BM10ex.TDVCS2LP, BM10ex.cDVCS0LP, BM10ex.cDVCS1LP, BM10ex.sDVCS1LP, BMK.PreFacDVCS]
  generalize BM10ex.CCALDVCSLP_im0_leff0_reff0 _ _ _ = C at hC
  generalize BM10ex.CCALDVCSLP_im0_leff1_reff0 _ _ _ = C1
  generalize BM10ex.CCALDVCSLP_im1_leff1_reff0 _ _ _ = C2
  simp only [mul_zero, zero_mul, zero_div, neg_zero, add_zero]
  have : (2 * (1:ℝ) * (1/2) * (2 - 1/2) / ksqrt (1 + 1/4)) ≠ 0 := by
    apply div_ne_zero (by norm_num) hs
  apply mul_ne_zero (by norm_num) (mul_ne_zero this hC)

-- (C) redundant hypotheses / loose constant in the 1/Q² bound: valid for ALL real y and with constant 1
theorem bound_all_y (c : Consts) (m : CFFs) (pt : Pt) (hQ : 0 < pt.Q2)
    (heps : pt.eps2 = 4 * pt.xB ^ 2 * c.Mp2 / pt.Q2) (hM : 0 ≤ c.Mp2) :
    |FS_hotfixedBMK_TDVCS2unp c m pt - FS_BMK_TDVCS2unp c m pt| ≤
      (4 * pt.xB ^ 2 * c.Mp2 / pt.Q2) * |FS_BMK_TDVCS2unp c m pt| := by
  have he0 : 0 ≤ pt.eps2 := by rw [heps]; positivity
  have he : 1 + pt.eps2 ≠ 0 := by positivity
  have hyq : 0 < 2 - 2 * pt.y + pt.y ^ 2 := by nlinarith [sq_nonneg (pt.y - 1)]
  rw [TDVCS2unp_hotfixed_vs_BMK c m pt he (ne_of_gt hyq)]
  set T := FS_BMK_TDVCS2unp c m pt
  set g := (2 - 2 * pt.y + pt.y ^ 2 / 2) / ((1 + pt.eps2) * (2 - 2 * pt.y + pt.y ^ 2))
  have hg0 : 0 ≤ g := by
    apply div_nonneg
    · nlinarith [sq_nonneg (pt.y - 2)]
    · positivity
  have hg1 : g ≤ 1 := by
    rw [div_le_iff₀ (by positivity)]
    nlinarith [sq_nonneg pt.y, mul_nonneg he0 (le_of_lt hyq)]
  have : T * (1 - pt.eps2 * g) - T = -(pt.eps2 * g) * T := by ring
  rw [this, abs_mul, abs_neg, abs_of_nonneg (mul_nonneg he0 hg0), ← heps]
  have : pt.eps2 * g ≤ pt.eps2 * 1 := mul_le_mul_of_nonneg_left hg1 he0
  calc pt.eps2 * g * |T| ≤ pt.eps2 * 1 * |T| := mul_le_mul_of_nonneg_right this (abs_nonneg T)
    _ = pt.eps2 * |T| := by ring

-- (D) non-vacuity of the file's bound (hypotheses are satisfiable on a prepared-like point)
example : ∃ (c : Consts) (pt : Pt), 0 < pt.Q2 ∧ pt.eps2 = 4 * pt.xB ^ 2 * c.Mp2 / pt.Q2 ∧ 0 ≤ c.Mp2 ∧ 0 ≤ pt.y ∧ pt.y ≤ 1 :=
  ⟨⟨1, 1, 1, 1⟩, ⟨4, 1/2, -1, 1/2, 1/4, 0, 0, 0, 0, 0, 0, 0, 0, 0, 0, 0, 0, 0, 0, 0, 1, 0⟩, by norm_num⟩

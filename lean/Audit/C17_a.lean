import Props.C17
/-
  Audit/C17_a.lean — written by the independent reviewer of the theorems (notes/audit): non-vacuity examples,
  satisfiability witnesses, refutations of over-strong readings and strengthened variants.  Checked on every run of
  the property's check together with Props/C17.lean.
-/
open Gep.DS Gep.DS.C17

-- (1) copy_no_alias is true for ANY "copy-then-assign" function, including ones that would model aliasing
--     wrongly: the statement is `(x, _).1 = x`.
theorem copy_no_alias_any {β : Type} (g : Point β → List (String × β) → Point β)
    (orig : Point β) (assign : List (String × β)) : ((orig, g orig assign)).1 = orig := rfl
-- and literally the same proof term works for the model
example {β : Type} (orig : Point β) (assign : List (String × β)) :
    (copyThenSet orig assign).1 = orig := copy_no_alias_any (fun o a => a.foldl (fun c kv => c.set kv.1 kv.2) o) orig assign

-- (2) what is missing for slices: the `[·]!` default never leaks (composition of sliceIdx_valid with getSlice)
theorem getSlice_mem {α β : Type} [Inhabited α] (d d' : DSet α β) (s e st : Option Int)
    (h : getSlice d s e st = some d') : ∀ p ∈ d'.pts, p ∈ d.pts := by
  unfold getSlice at h
  cases hidx : sliceIdx d.pts.length s e st with
  | none => simp [hidx] at h
  | some idx =>
    simp [hidx] at h; subst h
    intro p hp
    simp only [List.mem_map] at hp
    obtain ⟨i, hi, rfl⟩ := hp
    have := sliceIdx_valid _ s e st idx hidx i hi
    have hlt : i.toNat < d.pts.length := by omega
    rw [List.getElem?_eq_getElem hlt]
    simp

-- (3) add: completeness of the kept attributes (not in Props/C17)
theorem add_attrs_complete {α β : Type} [BEq β] [LawfulBEq β] (a b : DSet α β) (kv : String × β)
    (ha : kv ∈ a.attrs) (hb : kv ∈ b.attrs) : kv ∈ (add a b).attrs := by
  unfold add commonAttrs
  simp only [List.mem_filter, List.any_eq_true, Bool.and_eq_true, beq_iff_eq]
  exact ⟨ha, kv, hb, rfl, rfl⟩

-- (4) table for an independent comparison with CPython slice.indices / range
def opts : List (Option Int) := none :: (List.range 13).map (fun k => some ((k : Int) - 6))
def steps : List (Option Int) := [none, some (-3), some (-2), some (-1), some 1, some 2, some 3]
def showO : Option Int → String | none => "N" | some i => toString i
#eval do
  for n in List.range 5 do
    for a in opts do
      for b in opts do
        for s in steps do
          IO.println s!"{n} {showO a} {showO b} {showO s} {(sliceIdx n a b s).getD []}"

#print axioms select_OR
#print axioms mem_rangeList_iff
#print axioms sliceIdx_valid
#print axioms getSlice_plain
#print axioms select_OR_old_refuted

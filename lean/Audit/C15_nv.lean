import Props.C15
/-
  Audit/C15_nv.lean — written by the independent reviewer of the theorems (notes/audit): non-vacuity examples,
  satisfiability witnesses, refutations of over-strong readings and strengthened variants.  Checked on every run of
  the property's check together with Props/C15.lean.
-/
open Gep.R Gep.R.Coupling Gep.R.C15

-- non-vacuity of lo_two_step: 4 -> 8 -> 16 with nf = 3, as0 = 0.3 (no example in the file)
example : ∃ A1 A2, as2pf 0 3 8 0.3 4 = .ok A1 ∧ as2pf 0 3 16 0.3 4 = .ok A2 ∧ as2pf 0 3 16 A1 8 = .ok A2 := by
  obtain ⟨A, A', e1, e2, _, _⟩ := lo_strictly_decreasing 3 0.3 4 8 16 (by norm_num) (by norm_num) (by norm_num) (by norm_num)
    (by norm_num) (lo_denominator_positive 3 0.3 4 8 (by norm_num) (by norm_num) (by norm_num)
      (Or.inl (by norm_num)))
  exact ⟨A, A', e1, e2, lo_two_step 3 0.3 4 8 16 A A' (by norm_num) (by norm_num) (by norm_num) e1 e2⟩

-- non-vacuity of lo_solves_rge / lo_closed_form hypotheses (hd) at L = 0 and at L = 1
example : loDen 3 0.3 0 ≠ 0 := by simp [loDen]
example : loDen 3 0.3 1 ≠ 0 := by
  rw [loDen_eq, beta0_eq]; norm_num
example : HasDerivAt (fun l => a4pi (as2pf 0 3 (4 * Real.exp l) 0.3 4))
      (beta0 3 * (a4pi (as2pf 0 3 (4 * Real.exp 1) 0.3 4)) ^ 2) 1 :=
  lo_solves_rge 3 0.3 4 1 (by norm_num) (by rw [loDen_eq, beta0_eq]; norm_num)

-- non-vacuity of rk4_step_decreases (StepOK hypothesis)
example : 0 < rk4Step 3 (1/10) (1/20) ∧ rk4Step 3 (1/10) (1/20) < 1/20 ∧ StepOK 3 (1/10) (rk4Step 3 (1/10) (1/20)) :=
  rk4_step_decreases 3 (1/10) (1/20) (by norm_num) (by norm_num) (by norm_num)
    (by unfold StepOK; rw [beta0_eq, beta1_eq]; norm_num)

-- StepOK is NOT automatic: fails for a large coupling (so the hypothesis has content)
example : ¬ StepOK 3 1 1 := by
  unfold StepOK; rw [beta0_eq, beta1_eq]; norm_num

#print axioms Gep.R.C15.lo_solves_rge
#print axioms Gep.R.C15.lo_two_step
#print axioms Gep.R.C15.nlo_below_reference
#print axioms Gep.R.C15.stepOK_on_domain
#print axioms Gep.R.C15.nlo_trajectory_decreasing

import Props.C14
import Mathlib.Topology.MetricSpace.Lipschitz
/-
  Audit/C14_lip.lean — written by the independent reviewer of the theorems (notes/audit): non-vacuity examples,
  satisfiability witnesses, refutations of over-strong readings and strengthened variants.  Checked on every run of
  the property's check together with Props/C14.lean.
-/
open Gep.R Gep.Disp Set MeasureTheory Filter Topology

-- sufficient condition (suggested addition): every Lipschitz F satisfies the hypothesis `hg` of pv_V
theorem lipschitz_subtracted_integrable (F : ℝ → ℝ) (K : NNReal) (hF : LipschitzWith K F) (ξ : ℝ) (h0 : 0 < ξ) :
    IntervalIntegrable (fun x => kerV ξ x * (F x - F ξ)) volume 0 1 := by
  rw [intervalIntegrable_iff, uIoc_of_le zero_le_one]
  refine Measure.integrableOn_of_bounded (M := 2 * (K:ℝ)) (by simp) ?_ ?_
  · have hm : Measurable (fun x => kerV ξ x * (F x - F ξ)) := by
      unfold kerV
      have := hF.continuous.measurable
      fun_prop
    exact hm.aestronglyMeasurable
  · refine (ae_restrict_iff' measurableSet_Ioc).2 (Eventually.of_forall ?_)
    intro x hx
    have hK : (0:ℝ) ≤ K := K.coe_nonneg
    have hlip : |F x - F ξ| ≤ K * |x - ξ| := by
      have := hF.dist_le_mul x ξ
      simpa [Real.dist_eq] using this
    rw [Real.norm_eq_abs, abs_mul]
    by_cases hxe : x = ξ
    · subst hxe; simp
    · have hd : ξ ^ 2 - x ^ 2 = (ξ + x) * (ξ - x) := by ring
      have hp : 0 < ξ + x := by linarith [hx.1]
      have hne : ξ - x ≠ 0 := sub_ne_zero.2 (Ne.symm hxe)
      have hk : |kerV ξ x| = 2 * x / ((ξ + x) * |ξ - x|) := by
        unfold kerV
        rw [hd, abs_div, abs_mul, abs_mul, abs_of_pos hp, abs_of_pos hx.1, abs_of_pos (by norm_num : (0:ℝ) < 2)]
      rw [hk]
      have hab : |x - ξ| = |ξ - x| := abs_sub_comm x ξ
      rw [hab] at hlip
      have habs : 0 < |ξ - x| := abs_pos.2 hne
      calc 2 * x / ((ξ + x) * |ξ - x|) * |F x - F ξ|
          ≤ 2 * x / ((ξ + x) * |ξ - x|) * (K * |ξ - x|) := by
            apply mul_le_mul_of_nonneg_left hlip
            exact div_nonneg (by linarith [hx.1]) (mul_pos hp habs).le
        _ = 2 * x / (ξ + x) * K := by field_simp
        _ ≤ 2 * 1 * K := by
            apply mul_le_mul_of_nonneg_right _ hK
            rw [div_le_iff₀ hp]; nlinarith [hx.1]
        _ = 2 * K := by ring

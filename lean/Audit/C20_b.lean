import Props.C20
/-
  Audit/C20_b.lean — written by the independent reviewer of the theorems (notes/audit): non-vacuity examples,
  satisfiability witnesses, refutations of over-strong readings and strengthened variants.  Checked on every run of
  the property's check together with Props/C20.lean.
-/
open Gep.Mro Gep.Mro.C20

/- toy table: object(0); T(1) ends the chain (like Theory); A(2) does `self.x = <expr 11>`; B(3) does
   `self.x = <expr 12>`; both call super.  x is symbol 7.  names disjoint. -/
def toy : Table := [
  { name := 0, bases := [], defs := [0], init := .object, meths := [] },
  { name := 1, bases := [0], defs := [0], init := .evs [] false [], meths := [] },
  { name := 2, bases := [1], defs := [0], init := .evs [.prim (.write 7 11)] true [], meths := [] },
  { name := 3, bases := [1], defs := [0], init := .evs [.prim (.write 7 12)] true [], meths := [] }]

-- the static check passes
example : checks toy [2, 3] = true := by decide
-- both orderings construct
example : (mroAdhoc toy [2, 3]).map (fun m => (run toy m).2) = some none := by decide
example : (mroAdhoc toy [3, 2]).map (fun m => (run toy m).2) = some none := by decide
-- ... and end with DIFFERENT instance state (last writer wins: x = expr 12 by B vs x = expr 11 by A)
example : (mroAdhoc toy [2, 3]).map (fun m => (run toy m).1.attrs) = some [(7, .derived 3 12)] := by decide
example : (mroAdhoc toy [3, 2]).map (fun m => (run toy m).1.attrs) = some [(7, .derived 2 11)] := by decide
-- while `view` (the conclusion of config_order_independent) cannot see it
example : (mroAdhoc toy [2, 3]).map (fun m => view (run toy m).1 7) = some (some none) := by decide
example : (mroAdhoc toy [3, 2]).map (fun m => view (run toy m).1 7) = some (some none) := by decide

/- second toy: a derived value computed from a kwargs-independent read whose provider differs:
   A: self.y = f(self.x) reads x; x provided by both B (expr 12) and C (expr 13)  -/
def toy2 : Table := [
  { name := 0, bases := [], defs := [0], init := .object, meths := [] },
  { name := 1, bases := [0], defs := [0], init := .evs [] false [], meths := [] },
  { name := 2, bases := [1], defs := [0], init := .evs [] true [.prim (.read 7), .prim (.write 8 20)], meths := [] },
  { name := 3, bases := [1], defs := [0], init := .evs [.prim (.write 7 12)] true [], meths := [] },
  { name := 4, bases := [1], defs := [0], init := .evs [.prim (.write 7 13)] true [], meths := [] }]
example : checks toy2 [2, 3, 4] = true := by decide
example : (mroAdhoc toy2 [2, 3, 4]).map (fun m => (run toy2 m).1.attrs) = some [(7, .derived 4 13), (8, .derived 2 20)] := by decide
example : (mroAdhoc toy2 [2, 4, 3]).map (fun m => (run toy2 m).1.attrs) = some [(7, .derived 3 12), (8, .derived 2 20)] := by decide

/- on the real table: the documented theory has an attribute with two derived writers with different
   source text (tgj: MellinBarnes via ConformalSpaceGPD, and MellinBarnesCFF) -/
open Gep.Mro.Gen
#eval (mroAdhoc classTable documentedBlocks).map (fun m => ((run classTable m).1.attrs.filter (fun p => p.1 == s_tgj)))
#eval (allPrims classTable ((mkUniverse classTable documentedBlocks).map (·.U) |>.getD [])).filter (fun p => match p with | .write a _ => a == s_tgj | _ => false)
#eval symNames[249]!
#eval symNames[457]!

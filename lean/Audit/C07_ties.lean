import Props.C07
/-
  Audit/C07_ties.lean — written by the independent reviewer of the theorems (notes/audit): non-vacuity examples,
  satisfiability witnesses, refutations of over-strong readings and strengthened variants.  Checked on every run of
  the property's check together with Props/C07.lean.
-/
open Gep.R Gep.R.C07

#print axioms Gep.R.C07.unp_mirror_BM10ex
#print axioms Gep.R.C07.lp_mirror_BM10
#print axioms Gep.R.C07.real_cffs_no_beam_ssa
#print axioms Gep.R.C07.no_charge_dependence_without_effs
#print axioms Gep.R.C07.pure_BH_TSA_zero
#print axioms Gep.R.C07.pure_BH_AC_zero

-- (1) the hand-restated decomposition IS the bracket of XSaux (rfl) -- these ties are missing from the file
example (c : Consts) (m : CFFs) (pt : Pt) (pol : ℝ) : XSaux_BMK c m pt 0 pol = some (unpBMK c m pt) := rfl
example (c : Consts) (m : CFFs) (pt : Pt) (pol : ℝ) : XSaux_hotfixedBMK c m pt 0 pol = some (unpHot c m pt) := rfl
example (c : Consts) (m : CFFs) (pt : Pt) (pol : ℝ) : XSaux_BM10ex c m pt 0 pol = some (unpEx c m pt) := rfl
example (c : Consts) (m : CFFs) (pt : Pt) (pol : ℝ) : XSaux_BM10 c m pt 0 pol = some (unpBM10 c m pt) := rfl
example (c : Consts) (m : CFFs) (pt : Pt) (pol : ℝ) : XSaux_BM10tw2 c m pt 0 pol = some (unpTw2 c m pt) := rfl
example (c : Consts) (m : CFFs) (pt : Pt) (pol : ℝ) : XSaux_BM10ex c m pt 1 pol = some (unpEx c m pt + pol * lpEx c m pt) := rfl
example (c : Consts) (m : CFFs) (pt : Pt) (pol : ℝ) : XSaux_BM10 c m pt 1 pol = some (unpBM10 c m pt + pol * lpBM10 c m pt) := rfl
example (c : Consts) (m : CFFs) (pt : Pt) (pol : ℝ) : XSaux_BM10tw2 c m pt 1 pol = some (unpTw2 c m pt + pol * lpTw2 c m pt) := rfl

-- (2) mirror commutes with prepare: the theorems are stated for `mirror pt` with STALE stored P1P2/K2/...; the real
-- code re-prepares the point at the mirrored angle.  Missing lemma:
theorem prepare_mirror (c : Consts) (pt : Pt) : prepare c (mirror pt) = mirror (prepare c pt) := by
  simp only [prepare, mirror, P1P2, anintP1P2, kcos_mirror]

-- (3) weight and prefactor are mirror / flip invariant on a prepared point, so the statement lifts to XS
example (c : Consts) (m : CFFs) (pt : Pt) : DVCS.PreFacSigma c m (mirror pt) = DVCS.PreFacSigma c m pt := rfl
example (c : Consts) (pt : Pt) : weight_BH c (mirror pt) = weight_BH c pt := rfl

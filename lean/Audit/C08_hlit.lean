import Props.C08
import Mathlib.Analysis.Real.Pi.Irrational
/-
  Audit/C08_hlit.lean — written by the independent reviewer of the theorems (notes/audit): non-vacuity examples,
  satisfiability witnesses, refutations of over-strong readings and strengthened variants.  Checked on every run of
  the property's check together with Props/C08.lean.
-/
open Real Gep.R

-- the hypothesis `hlit` of all flux theorems is FALSE for the constants of gepard.constants
-- (alpha = 1/137.036, GeV2nb = 389379, both rational): pi would be rational.
theorem hlit_false_for_code_constants (c : Consts)
    (ha : c.alpha = 1 / 137.036) (hg : c.GeV2nb = 389379) :
    ¬ ((65.14079453579676 : ℝ) = π * c.alpha ^ 2 * c.GeV2nb) := by
  intro h
  rw [ha, hg] at h
  have hpi : π = (65.14079453579676 : ℝ) / ((1 / 137.036) ^ 2 * 389379) := by
    rw [h]; field_simp
  have hirr := irrational_pi
  apply hirr
  refine ⟨(65.14079453579676 : ℚ) / ((1 / 137.036) ^ 2 * 389379), ?_⟩
  rw [hpi]; push_cast; rfl

-- more generally: false for ANY rational alpha, GeV2nb (i.e. any floats)
theorem hlit_false_for_rationals (c : Consts) (qa qg : ℚ)
    (ha : c.alpha = qa) (hg : c.GeV2nb = qg) :
    ¬ ((65.14079453579676 : ℝ) = π * c.alpha ^ 2 * c.GeV2nb) := by
  intro h
  rw [ha, hg] at h
  have hne : ((qa:ℝ) ^ 2 * qg) ≠ 0 := by
    intro h0
    rw [mul_assoc, h0, mul_zero] at h
    norm_num at h
  have hpi : π = (65.14079453579676 : ℝ) / ((qa:ℝ) ^ 2 * qg) := by
    rw [h, mul_assoc, mul_div_assoc, div_self hne, mul_one]
  apply irrational_pi
  refine ⟨(65.14079453579676 : ℚ) / (qa ^ 2 * qg), ?_⟩
  rw [hpi]; push_cast; rfl

#print axioms Gep.R.C08.flux_identity_exact
#print axioms Gep.R.C08.weight_BH_integrates_to_two_pi
#print axioms Gep.R.C08.phiharmonic_fourier_cos_partial
#print axioms Gep.R.C08.flux_identity_BM10ex
#print axioms Gep.R.C08.xgamma_total_partial

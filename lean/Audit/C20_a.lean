import Props.C20
/-
  Audit/C20_a.lean — written by the independent reviewer of the theorems (notes/audit): non-vacuity examples,
  satisfiability witnesses, refutations of over-strong readings and strengthened variants.  Checked on every run of
  the property's check together with Props/C20.lean.
-/
open Gep.Mro Gep.Mro.Gen Gep.Mro.C20

#print axioms merge_keeps_every_input_order
#print axioms merge_fuel_irrelevant
#print axioms resolve_order_independent
#print axioms config_order_independent
#print axioms init_succeeds_iff
#print axioms init_steps_order_independent
#print axioms checks_documented_table
#print axioms documented_config_order_independent
#print axioms km_order_independent
#print axioms testgpd_blocks_refuted

-- (1) hclean of init_succeeds_iff is satisfiable on the documented theory (no example in the file)
example : (mroAdhoc classTable documentedBlocks).map (fun m => (trace classTable m).all Step.clean) = some true := by
  decide +kernel

-- (2) a SECOND ordering of the documented blocks that constructs (hypotheses hm2, hr2 of
-- documented_config_order_independent with bs2 ≠ bs1)
def alt : List Cls := [41, 27, 10, 8, 24, 23, 21]
example : alt.Perm documentedBlocks := by decide
example : (mroAdhoc classTable alt).map (fun m => (run classTable m).2) = some none := by decide +kernel
example : mroAdhoc classTable alt ≠ mroAdhoc classTable documentedBlocks := by decide +kernel

-- (3) an ordering that fails: DIS first
def bad : List Cls := [21, 41, 10, 27, 8, 24, 23]
example : (mroAdhoc classTable bad).map (fun m => (run classTable m).2) = some (some (.attribute s_nf)) := by decide +kernel

-- (4) KM combos: hclean
example : (mroAdhoc classTable blocksKM15).map (fun m => (trace classTable m).all Step.clean) = some true := by
  decide +kernel
example : (mroAdhoc classTable blocksKM09).map (fun m => ((trace classTable m).all Step.clean, (run classTable m).2)) = some (true, none) := by
  decide +kernel

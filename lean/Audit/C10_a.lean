import Props.C10
import Mathlib.Tactic.Linarith
import Mathlib.Tactic.NormNum
/-
  Audit/C10_a.lean — written by the independent reviewer of the theorems (notes/audit): non-vacuity examples,
  satisfiability witnesses, refutations of over-strong readings and strengthened variants.  Checked on every run of
  the property's check together with Props/C10.lean.
-/
open Gep.R Gep.R.C10

-- (1) zero uncertainty: point silently contributes 0 (x/0 = 0 in ℝ); Python raises ZeroDivisionError / gives inf
example (ms : List Meas) : chisq false ((⟨5, 1, 0, 0, 0⟩ : Meas) :: ms) = chisq false ms := by
  rw [chisq_eq_sum, chisq_eq_sum]; simp [pullOf]

example : pull (⟨5, 1, 0, 0, 0⟩ : Meas) = 0 := by simp [pull]

-- (2) pull_sq is only the symmetric case; with asym=true pull^2 is NOT the point's contribution
example : chisq true [(⟨3, 1, 1, 2, 4⟩ : Meas)] ≠ (pull ⟨3, 1, 1, 2, 4⟩) ^ 2 := by
  rw [chisq_eq_sum]
  have h1 : pullOf true ⟨3, 1, 1, 2, 4⟩ = 1 := by
    rw [pullOf_asym_pos _ (by norm_num)]; norm_num
  simp only [List.map_cons, List.map_nil, List.sum_cons, List.sum_nil, h1, pull]; norm_num

-- (3) non-vacuity of hypotheses
example : 0 < pull (⟨3, 1, 1, 2, 4⟩ : Meas) := (pull_pos_iff _ (by norm_num)).2 (by norm_num)
example : chisq false [] < chisq false [(⟨3, 1, 1, 2, 4⟩ : Meas)] :=
  chisq_cons_gt false _ [] (by rw [pullOf_sym]; norm_num)

-- (4) the structural theorems hold for ANY per-point function g (say nothing on error selection)
noncomputable def chisqG (g : Meas → ℝ) (ms : List Meas) : ℝ := (ms.map g).foldl (fun acc p => acc + p * p) 0
theorem chisqG_eq_sum (g : Meas → ℝ) (ms : List Meas) : chisqG g ms = (ms.map (fun m => g m ^ 2)).sum := by
  unfold chisqG; rw [foldl_sq]; simp [List.map_map, Function.comp_def]
theorem chisqG_perm (g : Meas → ℝ) {a b : List Meas} (h : a.Perm b) : chisqG g a = chisqG g b := by
  rw [chisqG_eq_sum, chisqG_eq_sum]; exact (h.map _).sum_eq
theorem chisqG_append (g : Meas → ℝ) (a b : List Meas) : chisqG g (a ++ b) = chisqG g a + chisqG g b := by
  simp [chisqG_eq_sum]
-- deliberately wrong error selection (errminus for positive residual) still satisfies all of them
noncomputable def wrongPull (m : Meas) : ℝ := if m.pred - m.val > 0 then (m.pred - m.val) / m.errminus else (m.pred - m.val) / m.errplus
example {a b : List Meas} (h : a.Perm b) : chisqG wrongPull a = chisqG wrongPull b := chisqG_perm _ h

-- pullOf_* are definitional
example (m : Meas) : pullOf false m = (m.pred - m.val) / m.err := rfl

#print axioms chisq_eq_sum
#print axioms chisq_perm
#print axioms chisq_flatten
#print axioms pull_sq
#print axioms chisq_cons_gt

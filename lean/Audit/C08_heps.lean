import Props.C08
/-
  Audit/C08_heps.lean — written by the independent reviewer of the theorems (notes/audit): non-vacuity examples,
  satisfiability witnesses, refutations of over-strong readings and strengthened variants.  Checked on every run of
  the property's check together with Props/C08.lean.
-/
open Real Gep.R

-- heps of the flux theorems holds for a point produced by `prepare` iff Mp2 = Mp^2 (and Q2 > 0):
example (c : Consts) (pt : Pt) (hM : c.Mp2 = c.Mp ^ 2) (hQ : 0 < pt.Q2) :
    (prepare c pt).eps2 = 4 * (prepare c pt).xB ^ 2 * c.Mp2 / (prepare c pt).Q2 := by
  have hs : ksqrt pt.Q2 ^ 2 = pt.Q2 := Real.sq_sqrt hQ.le
  have hs0 : ksqrt pt.Q2 ≠ 0 := by unfold ksqrt; exact (Real.sqrt_pos.mpr hQ).ne'
  simp only [prepare, hM]
  rw [div_pow, hs]
  ring

-- suggested replacement for phi_independent_exact: no hypothesis on the weights
example (q : Harm.Quad) (C : ℝ) :
    Harm.phiharmonic (Harm.glquad q) (.ftn 0) (fun _ => C) = .ok (C * (q.map Prod.snd).sum / 2) := by
  have h1 : ¬ ((0:ℝ) < 0) := lt_irrefl _
  have h2 : (0:ℝ) ≤ 0 ∧ (0:ℝ) ≤ 0 := ⟨le_refl _, le_refl _⟩
  have hpi : π ≠ 0 := Real.pi_ne_zero
  simp only [Harm.phiharmonic, if_neg h1, gt_iff_lt, if_pos h2, Harm.glquad, Harm.foldl_const, kpi]
  congr 1
  field_simp
  ring

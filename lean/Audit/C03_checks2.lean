import Props.C03
/-
  Audit/C03_checks2.lean — written by the independent reviewer of the theorems (notes/audit): non-vacuity examples,
  satisfiability witnesses, refutations of over-strong readings and strengthened variants.  Checked on every run of
  the property's check together with Props/C03.lean.
-/
set_option linter.unusedSimpArgs false
open Gep Gep.R Gep.R.Adim Gep.R.C03

/-- a deliberately WRONG γ⁰_NS (coefficients -7, 5 instead of -3, 4; wrong colour factor, spurious nf) -/
noncomputable def wrong_LO (n : Cx ℝ) (nf : ℝ) (P : SF) : Cx ℝ :=
  (r (CA + 17 * nf)) * (((r (-7)) - ((r 2) / (n * ((r 1) + n)))) + ((r 5) * P.S1))

-- the Schwarz and affinity theorems go through verbatim for the wrong formula:
example (n : Cx ℝ) (nf : ℝ) (P : SF) :
    Cx.conj (wrong_LO n nf P) = wrong_LO (Cx.conj n) nf P.conj := by
  simp only [wrong_LO, SF.conj, conj_add, conj_sub, conj_mul, conj_div, conj_neg, conj_r]
example (n : Cx ℝ) (P : SF) : AffineC (fun nf => wrong_LO n nf P) := by
  intro nf; apply toC_inj
  simp only [wrong_LO, toC_add, toC_sub, toC_mul, toC_div, toC_neg, toC_r]
  push_cast; ring

-- affinity / Schwarz also "hold" at the poles n = 0, 1 of the singlet entries (x/0 = 0 in the model)
example (P : SF) : AffineM (fun nf => singlet_LO (r 1) nf 1 P) := affine_singlet_LO (r 1) 1 P

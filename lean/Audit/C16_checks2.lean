import Props.C16
/-
  Audit/C16_checks2.lean — written by the independent reviewer of the theorems (notes/audit): non-vacuity examples,
  satisfiability witnesses, refutations of over-strong readings and strengthened variants.  Checked on every run of
  the property's check together with Props/C16.lean.
-/
open Gep Gep.R Gep.R.C16

-- totalised division: deldelS2(j, j) (Python: ZeroDivisionError / nan) is `.ok 0` in the model,
-- and deldelS2_spec "holds" there
example (E : Ext) (f : ℕ) (j a : Cx ℝ) (ha : delS2 E f j = .ok a) :
    ∃ r, deldelS2 E f j j = .ok r ∧ toC r = 0 := by
  obtain ⟨r, h1, h2⟩ := deldelS2_spec E f j j a a ha ha
  exact ⟨r, h1, by rw [h2]; simp⟩

-- S2_tilde at n = 0 and MellinF2 at n = 0: no error outcome in the model (plain Cx value)
#check (S2_tilde : Ext → Cx ℝ → ℝ → Cx ℝ)
#check (MellinF2 : Ext → Cx ℝ → Cx ℝ)

-- arrays_are_maps, first component, is `rfl`
example (f m : ℕ) (zs : List (Cx ℝ)) : dpsiA f zs m = zs.map (fun z => dpsiOne f z m) := rfl
-- pochhammer_zero is rfl
example (z : Cx ℝ) : pochhammer z 0 = z := rfl
-- dpsi_series_only / dpsi_conj_partial are aliases of the Proofs lemmas
example : @dpsi_series_only = @dpsiOne_series := rfl
example : @dpsi_conj_partial = @dpsiOne_conj := rfl

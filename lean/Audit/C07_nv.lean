import Props.C07
/-
  Audit/C07_nv.lean — written by the independent reviewer of the theorems (notes/audit): non-vacuity examples,
  satisfiability witnesses, refutations of over-strong readings and strengthened variants.  Checked on every run of
  the property's check together with Props/C07.lean.
-/
open Gep.R Gep.R.C07
-- antecedents `= some v` of the pure_BH_*_zero theorems are satisfiable (the Option is `some` for implemented targets)
example (c : Consts) (m : CFFs) (pt : Pt) (pol : ℝ) (w : Bool) :
    ∃ v, Obs.AC (fun p q => XS_BM10 c (zeroCFFs m) p 1 q w) pt pol = some v := ⟨_, rfl⟩
example (c : Consts) (m : CFFs) (pt : Pt) (pol : ℝ) (w : Bool) :
    ∃ v, Obs.ALU (fun p q => XS_BMK c (zeroCFFs m) p 0 q w) pt pol = some v := ⟨_, rfl⟩
example (c : Consts) (m : CFFs) (pt : Pt) (pol : ℝ) (w : Bool) :
    ∃ v, Obs.TSA (fun p q => XS_BM10ex c (zeroCFFs m) p 1 q w) pt pol = some v := ⟨_, rfl⟩
-- ... and vacuous (none) for BMK / hotfixedBMK on the longitudinal target:
example (c : Consts) (m : CFFs) (pt : Pt) (pol : ℝ) (w : Bool) :
    Obs.AC (fun p q => XS_BMK c (zeroCFFs m) p 1 q w) pt pol = none := rfl
-- TSA for the transverse target (tg = 2) is NOT covered by pure_BH_TSA_zero; it is provable the same way? (not attempted)

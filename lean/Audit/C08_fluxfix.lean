import Props.C08
/-
  Audit/C08_fluxfix.lean — written by the independent reviewer of the theorems (notes/audit): non-vacuity examples,
  satisfiability witnesses, refutations of over-strong readings and strengthened variants.  Checked on every run of
  the property's check together with Props/C08.lean.
-/
open Real Gep.R Gep.R.HarmFlux

-- Suggested non-vacuous replacement: no hypothesis on the literal; the mismatch appears as an explicit factor.
theorem flux_hotfixed_unconditional (c : Consts) (m : CFFs) (pt : Pt)
    (ha : c.alpha ≠ 0)
    (heps : pt.eps2 = 4 * pt.xB ^ 2 * c.Mp2 / pt.Q2)
    (hy : pt.y ≠ 0) (he : 0 < 1 + pt.eps2)
    (hD : 1 - pt.y + pt.y ^ 2 / 2 + pt.eps2 * pt.y ^ 2 / 4 ≠ 0)
    (hx : pt.xB ≠ 0) (hx1 : 1 - pt.xB ≠ 0) (hx2 : 2 - pt.xB ≠ 0) (hQ : pt.Q2 ≠ 0) :
    (65.14079453579676 : ℝ) * (2 * π * DVCS.PreFacSigma c (vecOnly m) pt * FS_hotfixedBMK_TDVCS2unp c (vecOnly m) pt) =
      (π * c.alpha ^ 2 * c.GeV2nb) * (HandFlux c pt * DVCS._XGAMMA_DVCS_t_Ex c (vecOnly m) pt) := by
  have hpi : π ≠ 0 := Real.pi_ne_zero
  let c' : Consts := { c with GeV2nb := 65.14079453579676 / (π * c.alpha ^ 2) }
  have hlit : (65.14079453579676 : ℝ) = π * c'.alpha ^ 2 * c'.GeV2nb := by
    show (65.14079453579676 : ℝ) = π * c.alpha ^ 2 * (65.14079453579676 / (π * c.alpha ^ 2))
    field_simp
  have h := flux_hotfixed c' m pt hlit heps hy he hD hx hx1 hx2 hQ
  have e1 : FS_hotfixedBMK_TDVCS2unp c' (vecOnly m) pt = FS_hotfixedBMK_TDVCS2unp c (vecOnly m) pt := rfl
  have e2 : HandFlux c' pt = HandFlux c pt := rfl
  have e3 : DVCS._XGAMMA_DVCS_t_Ex c' (vecOnly m) pt = DVCS._XGAMMA_DVCS_t_Ex c (vecOnly m) pt := rfl
  rw [e1, e2, e3] at h
  rw [← h, PreFacSigma_eq, PreFacSigma_eq]
  show _ = π * c.alpha ^ 2 * c.GeV2nb * (2 * π * (c.alpha ^ 3 * pt.xB * pt.y ^ 2 / (8 * π * pt.Q2 ^ 2 * ksqrt (1 + pt.eps2)) * (65.14079453579676 / (π * c.alpha ^ 2))) * _)
  field_simp

import Props.C15
/-
  Audit/C15_wrong.lean — written by the independent reviewer of the theorems (notes/audit): non-vacuity examples,
  satisfiability witnesses, refutations of over-strong readings and strengthened variants.  Checked on every run of
  the property's check together with Props/C15.lean.
-/
open Gep.R Gep.R.Coupling

-- a deliberately WRONG integrator (weights 1/4,1/4,1/4,1/4 and full-step stage arguments: not RK4, order 1)
noncomputable def badStep (nf dlr a : ℝ) : ℝ :=
  let xk0 := dlr * fbeta1 a nf
  let xk1 := dlr * fbeta1 (a + xk0) nf
  let xk2 := dlr * fbeta1 (a + xk1) nf
  let xk3 := dlr * fbeta1 (a + xk2) nf
  a + (xk0 + xk1 + xk2 + xk3) / 4

-- the only "solves the RGE" statement at NLO (rk4_step_consistent_partial) holds verbatim for it
theorem badStep_consistent (nf a : ℝ) :
    HasDerivAt (fun h => badStep nf h a) (fbeta1 a nf) 0 := by
  let G : ℝ → ℝ := fun h =>
    (fbeta1 a nf + fbeta1 (a + (h * fbeta1 a nf)) nf
      + fbeta1 (a + (h * fbeta1 (a + (h * fbeta1 a nf)) nf)) nf
      + fbeta1 (a + h * fbeta1 (a + (h * fbeta1 (a + (h * fbeta1 a nf)) nf)) nf) nf) / 4
  have hG : DifferentiableAt ℝ G 0 := by
    simp only [G, fbeta1]; fun_prop
  have hE : (fun h => badStep nf h a) = fun h => a + h * G h := by
    funext h; simp only [G, badStep]; ring
  have hG0 : G 0 = fbeta1 a nf := by simp only [G]; ring_nf
  rw [hE]
  have := ((hasDerivAt_id (0:ℝ)).mul hG.hasDerivAt).const_add a
  simp only [id, one_mul, zero_mul, add_zero, hG0] at this
  exact this

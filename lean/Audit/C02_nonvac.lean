import Props.C02
/-
  Audit/C02_nonvac.lean — written by the independent reviewer of the theorems (notes/audit): non-vacuity examples,
  satisfiability witnesses, refutations of over-strong readings and strengthened variants.  Checked on every run of
  the property's check together with Props/C02.lean.
-/
open Gep Gep.R Gep.R.Evol Gep.R.C02

/-- the affine coupling used in the file's own example -/
noncomputable def Aex : ℝ → ℝ := fun x => 0.05 + ((-9 : ℝ) / 2 * 0.05 ^ 2 + (-64) / 4 * 0.05 ^ 3) * (x - 1)

theorem Aex_one : Aex 1 = 0.05 := by simp [Aex]

theorem Aex_deriv : HasDerivAt Aex ((-9 : ℝ) / 2 * Aex 1 ^ 2 + (-64) / 4 * Aex 1 ^ 3) 1 := by
  have h := (((hasDerivAt_id (1 : ℝ)).sub_const 1).const_mul
    ((-9 : ℝ) / 2 * 0.05 ^ 2 + (-64) / 4 * 0.05 ^ 3)).const_add 0.05
  rw [Aex_one]
  refine h.congr_deriv ?_
  norm_num

/-- FULL instantiation of rg_NLO (all nine hypotheses at once) : gEx, γ1 := gEx, β0=-9, β1=-64, A0 = 0.04 -/
example (i j : Fin 2) :
    HasDerivAt (fun L => toM (combine (Aex L) (evolop 1 gEx gEx (-9) (-64) (Aex L / 0.04) none)) i j)
      ((-(((Aex 1 / 2 : ℝ) : ℂ) • toM gEx + ((Aex 1 ^ 2 / 2 : ℝ) : ℂ) • toM gEx) *
          toM (combine (Aex 1) (evolop 1 gEx gEx (-9) (-64) (Aex 1 / 0.04) none))
        + ((Aex 1 ^ 3 : ℝ) : ℂ) • rgRemainder gEx gEx (-9) (-64) (Aex 1 / 0.04)) i j) 1 := by
  obtain ⟨hd, hl, -, hD1, hD2⟩ := gEx_hyps
  exact rg_NLO gEx gEx (-9) (-64) 0.04 Aex 1 hd hl (by norm_num) hD1 hD2 Aex_deriv (by norm_num)
    (by rw [Aex_one]; norm_num) i j

/-- FULL instantiation of rg_NLO_ns -/
example :
    HasDerivAt (fun L => toC (evolopns 1 ⟨1, 2⟩ ⟨3, -1⟩ (-9) (-64) (Aex L / 0.04) none).1 +
        (Aex L : ℂ) * toC (evolopns 1 ⟨1, 2⟩ ⟨3, -1⟩ (-9) (-64) (Aex L / 0.04) none).2)
      (-(((Aex 1 / 2 : ℝ) : ℂ) * toC ⟨1, 2⟩ + ((Aex 1 ^ 2 / 2 : ℝ) : ℂ) * toC ⟨3, -1⟩) *
          (toC (evolopns 1 ⟨1, 2⟩ ⟨3, -1⟩ (-9) (-64) (Aex 1 / 0.04) none).1 +
            (Aex 1 : ℂ) * toC (evolopns 1 ⟨1, 2⟩ ⟨3, -1⟩ (-9) (-64) (Aex 1 / 0.04) none).2)
        + ((Aex 1 ^ 3 : ℝ) : ℂ) * rgRemainderNS ⟨1, 2⟩ ⟨3, -1⟩ (-9) (-64) (Aex 1 / 0.04)) 1 :=
  rg_NLO_ns ⟨1, 2⟩ ⟨3, -1⟩ (-9) (-64) 0.04 Aex 1 (by norm_num) Aex_deriv (by norm_num)
    (by rw [Aex_one]; norm_num)

/-- sanity of the remainder: with γ1 = 0 and β1 = 0 it vanishes identically (nothing is hidden in it) -/
example (g0 : M2) (b0 R : ℝ) : rgRemainder g0 M2.zero b0 0 R = 0 := by
  simp [rgRemainder]

/-- rg_LO_ns instantiation -/
example : HasDerivAt (fun L => toC (evolopns 0 ⟨1, 2⟩ ⟨3, -1⟩ (-9) (-64) (as2pfLO (-9) 0.05 L / as2pfLO (-9) 0.05 0) none).1)
      (-((as2pfLO (-9) 0.05 1 / 2 : ℝ) : ℂ) * (toC ⟨1, 2⟩ *
        toC (evolopns 0 ⟨1, 2⟩ ⟨3, -1⟩ (-9) (-64) (as2pfLO (-9) 0.05 1 / as2pfLO (-9) 0.05 0) none).1)) 1 :=
  rg_LO_ns ⟨1, 2⟩ ⟨3, -1⟩ (-9) (-64) 0.05 0 1 (by norm_num) (by norm_num) (by norm_num) (by norm_num)

import Props.C14
/-
  Audit/C14_nv.lean — written by the independent reviewer of the theorems (notes/audit): non-vacuity examples,
  satisfiability witnesses, refutations of over-strong readings and strengthened variants.  Checked on every run of
  the property's check together with Props/C14.lean.
-/
open Gep.R Gep.Disp Set MeasureTheory Filter Topology

-- non-vacuity of the hypothesis of pv_A / reHt_is_pv with a NON-constant F (F x = x); none in the file
theorem id_subtracted_A_ae (ξ : ℝ) (h0 : 0 < ξ) :
    ∀ᵐ x ∂(volume : Measure ℝ), x ∈ uIoc (0:ℝ) 1 →
      -(2 * ξ) / (ξ + x) = kerA ξ x * ((fun y => y) x - (fun y => y) ξ) := by
  have hne : ∀ᵐ x ∂(volume : Measure ℝ), x ≠ ξ := by
    have : ({ξ} : Set ℝ)ᶜ ∈ ae (volume : Measure ℝ) := compl_mem_ae_iff.2 (measure_singleton ξ)
    exact this
  filter_upwards [hne] with x hx hx1
  rw [uIoc_of_le zero_le_one] at hx1
  have h3 : ξ + x ≠ 0 := by linarith [hx1.1]
  have h4 : ξ - x ≠ 0 := sub_ne_zero.2 (Ne.symm hx)
  have h2 : ξ ^ 2 - x ^ 2 ≠ 0 := by
    have : ξ ^ 2 - x ^ 2 = (ξ + x) * (ξ - x) := by ring
    rw [this]; exact mul_ne_zero h3 h4
  simp only [kerA]
  field_simp
  ring

theorem id_subtracted_A_integrable (ξ : ℝ) (h0 : 0 < ξ) :
    IntervalIntegrable (fun x => kerA ξ x * ((fun y => y) x - (fun y => y) ξ)) volume 0 1 := by
  have hc : IntervalIntegrable (fun x : ℝ => -(2 * ξ) / (ξ + x)) volume 0 1 := by
    apply ContinuousOn.intervalIntegrable
    apply ContinuousOn.div (by fun_prop) (by fun_prop)
    intro x hx
    rw [uIcc_of_le zero_le_one] at hx
    linarith [hx.1]
  exact hc.congr_ae ((ae_restrict_iff' measurableSet_uIoc).2 (id_subtracted_A_ae ξ h0))

example (q : Quad) (ξ : ℝ) (h0 : 0 < ξ) (h1 : ξ < 1) :
    ∃ PV, Tendsto (truncInt (fun x => 2 * ξ / (ξ ^ 2 - x ^ 2) * (fun y => y) x) ξ) (𝓝[>] 0) (𝓝 PV) ∧
      reHt q (fun y => y) ξ = .ok (PV / Real.pi +
        (pvquad q (dispargA (fun y => y) ξ) 0 1 - ∫ x in (0:ℝ)..1, dispargA (fun y => y) ξ x) / Real.pi) ∧
      reEt q (fun y => y) ξ = reHt q (fun y => y) ξ :=
  Gep.R.C14.reHt_is_pv q (fun y => y) ξ h0 h1 (id_subtracted_A_integrable ξ h0)

#print axioms Gep.R.C14.reH_is_pv_minus_subtraction
#print axioms Gep.R.C14.pv_V
#print axioms Gep.R.C14.integral_dispargV
#print axioms Gep.R.C14.reHt_is_pv
#print axioms Gep.R.C14.hybrid_is_sum

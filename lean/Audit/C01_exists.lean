import Props.C01
/-
  Audit/C01_exists.lean — written by the independent reviewer of the theorems (notes/audit): non-vacuity examples,
  satisfiability witnesses, refutations of over-strong readings and strengthened variants.  Checked on every run of
  the property's check together with Props/C01.lean.
-/
open Gep.R Gep.R.BH Gep.R.C01

theorem cl_nonneg (y e r : ℝ) (he0 : 0 < e) (hr2 : r ^ 2 = 1 + e) (hW : 0 ≤ 1 - y - e * y ^ 2 / 4) :
    0 ≤ 1 - (-(1 + y * e / 2) / r) ^ 2 := by
  have : 1 - (-(1 + y * e / 2) / r) ^ 2 = e * (1 - y - e * y ^ 2 / 4) / (1 + e) := by
    rw [div_pow, hr2]; field_simp; ring
  rw [this]; positivity

/-- suggested strengthening: for EVERY point of the physical region (y ≤ y_max, t_max ≤ t ≤ t_min) the
    square-root witnesses exist, i.e. `Phys` is not an extra restriction -/
theorem phys_exists (c : Consts) (M xB Q2 t y cphi sphi : ℝ) (hM : 0 < M) (hx : 0 < xB) (hx1 : xB < 1) (hQ : 0 < Q2)
    (hy : 0 < y) (ht : t < 0)
    (hW : 0 ≤ 1 - y - (4 * xB ^ 2 * M ^ 2 / Q2) * y ^ 2 / 4)
    (hreg : tmax c Q2 xB (4 * xB ^ 2 * M ^ 2 / Q2) ≤ t ∧ t ≤ tmin c Q2 xB (4 * xB ^ 2 * M ^ 2 / Q2))
    (hcs : cphi ^ 2 + sphi ^ 2 = 1) :
    ∃ r sl pT, Phys M xB Q2 t y r sl pT cphi sphi := by
  have he0 : 0 < 4 * xB ^ 2 * M ^ 2 / Q2 := by positivity
  have hr2 : Real.sqrt (1 + 4 * xB ^ 2 * M ^ 2 / Q2) ^ 2 = 1 + 4 * xB ^ 2 * M ^ 2 / Q2 := Real.sq_sqrt (by positivity)
  have hr : 0 < Real.sqrt (1 + 4 * xB ^ 2 * M ^ 2 / Q2) := Real.sqrt_pos.mpr (by positivity)
  have hpT2 : 0 ≤ pT2 Q2 xB t (M ^ 2) (4 * xB ^ 2 * M ^ 2 / Q2) :=
    (physical_region c M xB Q2 t hM.ne' hx hx1 hQ).1.mpr hreg
  have hcl := cl_nonneg y (4 * xB ^ 2 * M ^ 2 / Q2) _ he0 hr2 hW
  refine ⟨Real.sqrt (1 + 4 * xB ^ 2 * M ^ 2 / Q2),
    Real.sqrt (1 - (-(1 + y * (4 * xB ^ 2 * M ^ 2 / Q2) / 2) / Real.sqrt (1 + 4 * xB ^ 2 * M ^ 2 / Q2)) ^ 2),
    Real.sqrt (pT2 Q2 xB t (M ^ 2) (4 * xB ^ 2 * M ^ 2 / Q2)), ?_⟩
  have hrec := recoil_transverse_momentum M xB Q2 t y (Real.sqrt (1 + 4 * xB ^ 2 * M ^ 2 / Q2))
    (Real.sqrt (1 - (-(1 + y * (4 * xB ^ 2 * M ^ 2 / Q2) / 2) / Real.sqrt (1 + 4 * xB ^ 2 * M ^ 2 / Q2)) ^ 2))
    (Real.sqrt (pT2 Q2 xB t (M ^ 2) (4 * xB ^ 2 * M ^ 2 / Q2))) cphi sphi hM.ne' hx.ne' hQ.ne' hr.ne' hr2
  refine ⟨hM, hx, hx1, hQ, hy, ht, hr, hr2, Real.sqrt_nonneg _, ?_, Real.sqrt_nonneg _, ?_, hcs⟩
  · rw [Real.sq_sqrt hcl]; simp only [frameOf]
  · rw [Real.sq_sqrt hpT2]; exact hrec.symm

#print axioms phys_exists

import Props.C01
/-
  Audit/C01_physpt.lean — written by the independent reviewer of the theorems (notes/audit): non-vacuity examples,
  satisfiability witnesses, refutations of over-strong readings and strengthened variants.  Checked on every run of
  the property's check together with Props/C01.lean.
-/
open Gep.R Gep.R.BH Gep.R.C01

noncomputable def c0 : Consts := ⟨1, 1, 1/137, 1⟩
noncomputable def p0 : Pt :=
  { Q2 := 16/9, xB := 1/2, t := -16/9, y := 0, eps2 := 0, phi := Real.arccos (3/5), K2 := 0, P1P2 := 0, intP1P2 := 0,
    W := 5/3, s := 6, eps := 0, J := 0, K_ := 0, tK2 := 0, tK := 0, r := 0, chi0 := 0, chi := 0,
    in1charge := -1, in1polarization := 1, varphi := 1 }

theorem hy0 : (prepare c0 p0).y = 32/45 := by
  simp only [prepare, c0, p0]; norm_num
theorem hc0 : kcos p0.phi = 3/5 := by
  simp only [kcos, p0]; exact Real.cos_arccos (by norm_num) (by norm_num)
theorem hs0 : ksin p0.phi = 4/5 := by
  simp only [ksin, p0]; rw [Real.sin_arccos]
  rw [show (1 - (3/5:ℝ)^2) = (4/5)^2 by norm_num]; exact Real.sqrt_sq (by norm_num)
theorem he0 : (prepare c0 p0).eps2 = 9/16 := by
  rw [prepare_eps2_eq c0 p0 (M := 1) rfl (by simp [p0])]; simp only [p0]; norm_num

/-- PhysPt is satisfiable (M=1, r=5/4, sl=7/25, pT=8/15) -/
theorem physpt0 : PhysPt c0 p0 1 (5/4) (7/25) (8/15) := by
  refine ⟨rfl, by simp [c0], ?_, ?_, ?_, ?_⟩
  · rw [hy0, hc0, hs0]; simp only [p0]
    constructor <;> norm_num [frameOf]
  · rw [hy0, he0]; norm_num
  · rw [hy0, hc0, hs0]; simp only [p0]
    norm_num [frameOf, Frame.P1, Frame.k, Frame.q, Frame.q2, Frame.Δ, Frame.p1, Frame.p2, V4.sq, V4.dot, V4.sub]
  · rw [hy0, hc0, hs0]; simp only [p0]
    norm_num [frameOf, Frame.P2, Frame.k, Frame.Δ, Frame.p1, Frame.p2, V4.sq, V4.dot, V4.sub]

-- so XS_pure_BH can be instantiated
example (m : CFFs) (pol : ℝ) := XS_pure_BH c0 m p0 physpt0 pol

-- propagators_four_vector / K2_four_vector / frame_on_shell instantiated at the prepared point
example := propagators_four_vector c0 (prepare c0 p0) (M := 1) (r := 5/4) (sl := 7/25) (pT := 8/15) physpt0.phys
  (by rw [he0]; simp only [prepare, p0]; norm_num)
example := K2_four_vector c0 physpt0.phys
example := frame_on_shell physpt0.phys

/-
  Proofs/MBMoments.lean — the building block gpd.qj of Gen/MBR.lean in closed form: the two Pochhammer
  loops are finite products, finite products of (u + i) are Γ(u + b)/Γ(u), and with Euler's Beta
  integral  B(u, b)·∏_{i<b}(u + i) = Γ(b)  for Re u > 0.   (property C04, theorem group 1)
-/
import Proofs.MB
import Mathlib.Analysis.SpecialFunctions.Gamma.Beta
import Mathlib.Algebra.BigOperators.Intervals
import Mathlib.Tactic.FieldSimp
import Mathlib.Tactic.Push

namespace Gep.R.MB
open Gep Gep.R Gep.R.Evol

/-! ### the Pochhammer loops are products -/

theorem pochLoopC_prod (z : Cx ℝ) (n j : ℕ) (p : Cx ℝ) :
    toC (pochLoopC z n (j : ℝ) p) = toC p * ∏ i ∈ Finset.range n, (toC z + ((j + i : ℕ) : ℂ)) := by
  induction n generalizing j p with
  | zero => simp [pochLoopC]
  | succ n ih =>
    have hz : toC (⟨z.re + (j : ℝ), z.im⟩ : Cx ℝ) = toC z + (j : ℂ) := by apply Complex.ext <;> simp
    have hj : ((j : ℝ) + 1) = ((j + 1 : ℕ) : ℝ) := by push_cast; ring
    rw [pochLoopC, hj, ih (j + 1), toC_mul, hz, Finset.prod_range_succ', mul_assoc]
    congr 1
    rw [mul_comm]
    congr 1
    apply Finset.prod_congr rfl
    intro i _; push_cast; ring

theorem pochLoopR_prod (z : ℝ) (n j : ℕ) (p : ℝ) :
    pochLoopR z n (j : ℝ) p = p * ∏ i ∈ Finset.range n, (z + ((j + i : ℕ) : ℝ)) := by
  induction n generalizing j p with
  | zero => simp [pochLoopR]
  | succ n ih =>
    have hj : ((j : ℝ) + 1) = ((j + 1 : ℕ) : ℝ) := by push_cast; ring
    rw [pochLoopR, hj, ih (j + 1), Finset.prod_range_succ', mul_assoc]
    congr 1
    rw [mul_comm]
    congr 1
    apply Finset.prod_congr rfl
    intro i _; push_cast; ring

/-- `pochhammer(z, m)` = ∏_{i<m} (z + i) for m ≥ 1 -/
theorem pochC_prod (z : Cx ℝ) (m : ℕ) (hm : 1 ≤ m) :
    toC (pochC z m) = ∏ i ∈ Finset.range m, (toC z + (i : ℂ)) := by
  obtain ⟨n, rfl⟩ : ∃ n, m = n + 1 := ⟨m - 1, by omega⟩
  have h := pochLoopC_prod z n 1 z
  simp only [Nat.cast_one] at h
  rw [pochC, Nat.add_sub_cancel, h, Finset.prod_range_succ']
  simp only [Nat.cast_zero, add_zero]
  rw [mul_comm]
  congr 1
  apply Finset.prod_congr rfl
  intro i _; push_cast; ring

theorem pochR_prod (z : ℝ) (m : ℕ) (hm : 1 ≤ m) :
    pochR z m = ∏ i ∈ Finset.range m, (z + (i : ℝ)) := by
  obtain ⟨n, rfl⟩ : ∃ n, m = n + 1 := ⟨m - 1, by omega⟩
  have h := pochLoopR_prod z n 1 z
  simp only [Nat.cast_one] at h
  rw [pochR, Nat.add_sub_cancel, h, Finset.prod_range_succ']
  simp only [Nat.cast_zero, add_zero]
  rw [mul_comm]
  congr 1
  apply Finset.prod_congr rfl
  intro i _; push_cast; ring

/-! ### products, Γ and B -/

theorem Gamma_add_nat' (s : ℂ) (hs : ∀ k : ℕ, s ≠ -(k : ℂ)) (n : ℕ) :
    Complex.Gamma (s + n) = Complex.Gamma s * ∏ i ∈ Finset.range n, (s + (i : ℂ)) := by
  induction n with
  | zero => simp
  | succ n ih =>
    have hne : s + (n : ℂ) ≠ 0 := fun h => hs n (eq_neg_of_add_eq_zero_left h)
    rw [Nat.cast_succ, ← add_assoc, Complex.Gamma_add_one _ hne, ih, Finset.prod_range_succ]
    ring

theorem not_neg_nat_of_re_pos {s : ℂ} (h : 0 < s.re) (k : ℕ) : s ≠ -(k : ℂ) := by
  intro e
  have := congrArg Complex.re e
  simp at this
  have hk : (0 : ℝ) ≤ k := Nat.cast_nonneg k
  linarith

/-- B(u, b) · ∏_{i<b} (u + i) = Γ(b)  for Re u > 0 and a natural b ≥ 1 -/
theorem beta_mul_prod (u : ℂ) (hu : 0 < u.re) (b : ℕ) (hb : 1 ≤ b) :
    Complex.betaIntegral u b * ∏ i ∈ Finset.range b, (u + (i : ℂ)) = Complex.Gamma b := by
  have hbre : 0 < ((b : ℂ)).re := by simp; omega
  have h1 := Complex.Gamma_mul_Gamma_eq_betaIntegral hu hbre
  have h2 := Gamma_add_nat' u (not_neg_nat_of_re_pos hu) b
  have hG : Complex.Gamma u ≠ 0 := Complex.Gamma_ne_zero (not_neg_nat_of_re_pos hu)
  rw [h2] at h1
  have : Complex.Gamma u * (Complex.betaIntegral u b * ∏ i ∈ Finset.range b, (u + (i : ℂ))) =
      Complex.Gamma u * Complex.Gamma b := by rw [h1]; ring
  exact mul_left_cancel₀ hG this

theorem Gamma_nat_ne_zero (b : ℕ) (hb : 1 ≤ b) : Complex.Gamma (b : ℂ) ≠ 0 := by
  apply Complex.Gamma_ne_zero
  intro k e
  have := congrArg Complex.re e
  simp at this
  have h1 : (1 : ℝ) ≤ b := by exact_mod_cast hb
  have hk : (0 : ℝ) ≤ k := Nat.cast_nonneg k
  linarith

/-- ratio of two Pochhammer products = inverse ratio of the Beta integrals -/
theorem prod_ratio_eq_beta_ratio (u v : ℂ) (hu : 0 < u.re) (hv : 0 < v.re) (b : ℕ) (hb : 1 ≤ b) :
    (∏ i ∈ Finset.range b, (u + (i : ℂ))) / (∏ i ∈ Finset.range b, (v + (i : ℂ))) =
      Complex.betaIntegral v b / Complex.betaIntegral u b := by
  have hU := beta_mul_prod u hu b hb
  have hV := beta_mul_prod v hv b hb
  have hG := Gamma_nat_ne_zero b hb
  have hBu : Complex.betaIntegral u b ≠ 0 := fun h => hG (by rw [← hU, h, zero_mul])
  have hPv : (∏ i ∈ Finset.range b, (v + (i : ℂ))) ≠ 0 := fun h => hG (by rw [← hV, h, mul_zero])
  rw [div_eq_div_iff hPv hBu]
  rw [mul_comm, hU, mul_comm, ← hV]; ring

end Gep.R.MB

/-
  Proofs/EvolOps.lean — helper lemmas for property C02 (part 3): the LO factor, erfunc and the
  operators of the model under `toC`/`toM`; vanishing of every R-dependent prefactor at R = 1;
  products of spectral combinations; column sums.
-/
import Proofs.EvolAlg

namespace Gep.R.Evol
open Gep Gep.R

/-! ### the LO factor and erfunc under `toC` -/

theorem toC_rfact (b0 : ℝ) (lam : Cx ℝ) (R : ℝ) :
    toC (rfact b0 lam R) = Complex.exp ((Real.log R : ℂ) * (-toC lam / (b0 : ℂ))) := by
  simp [rfact, toC_rpowc]

theorem rfact_one (b0 : ℝ) (lam : Cx ℝ) : rfact b0 lam 1 = cone := by
  apply toC_injective; simp [toC_rfact]

theorem rfact_zero (b0 R : ℝ) : rfact b0 czero R = cone := by
  apply toC_injective; simp [toC_rfact]

theorem rfact_mul (b0 : ℝ) (lam : Cx ℝ) {R1 R2 : ℝ} (h1 : 0 < R1) (h2 : 0 < R2) :
    rfact b0 lam (R1 * R2) = rfact b0 lam R1 * rfact b0 lam R2 := by
  apply toC_injective
  simp only [toC_rfact, toC_mul, Real.log_mul (ne_of_gt h1) (ne_of_gt h2), ← Complex.exp_add]
  push_cast; ring_nf

theorem erEntry_one (b0 : ℝ) (dl : Cx ℝ) : erEntry b0 dl 1 = czero := by
  apply toC_injective; simp [erEntry, toC_rpowc]

theorem toM_evolopLO (g : M2) (b0 R : ℝ) :
    toM (evolopLO g b0 R) = toC (rfact b0 (lambdaf g).1 R) • toM (projectors g).1 +
      toC (rfact b0 (lambdaf g).2 R) • toM (projectors g).2 := by
  simp [evolopLO]

theorem toM_evolopNLOdiag (g0 g1 : M2) (b0 b1 R : ℝ) :
    toM (evolopNLOdiag g0 g1 b0 b1 R) =
      (toC (rfact b0 (lambdaf g0).1 R) • (-toC (erfunc b0 (lambdaf g0) R).pp) • toM (r1proj g0 g1 b0 b1).pp +
       toC (rfact b0 (lambdaf g0).2 R) • (-toC (erfunc b0 (lambdaf g0) R).pm) • toM (r1proj g0 g1 b0 b1).pm) +
      (toC (rfact b0 (lambdaf g0).1 R) • (-toC (erfunc b0 (lambdaf g0) R).mp) • toM (r1proj g0 g1 b0 b1).mp +
       toC (rfact b0 (lambdaf g0).2 R) • (-toC (erfunc b0 (lambdaf g0) R).mm) • toM (r1proj g0 g1 b0 b1).mm) := by
  simp [evolopNLOdiag]

theorem evolopNLOdiag_one (g0 g1 : M2) (b0 b1 : ℝ) : evolopNLOdiag g0 g1 b0 b1 1 = M2.zero := by
  apply toM_injective
  simp [toM_evolopNLOdiag, erfunc, erEntry_one]

theorem cx_add_czero (z : Cx ℝ) : z + czero = z := by
  apply Cx_ext <;> simp [czero]

theorem cb1Term_one (b0 : ℝ) (lamn lamk X : Cx ℝ) : cb1Term b0 1 lamn lamk X = czero := by
  apply toC_injective; simp [cb1Term, erEntry_one]

theorem cb1TermNS_one (b0 : ℝ) (gamn gamk X : Cx ℝ) : cb1TermNS b0 1 gamn gamk X = czero := by
  apply toC_injective; simp [cb1TermNS, toC_rpowc]

theorem ndSum_one (b0 : ℝ) (items : List (Cx ℝ × Cx ℝ × Cx ℝ)) : ndSum b0 1 items = czero := by
  unfold ndSum
  generalize czero = acc
  induction items generalizing acc with
  | nil => rfl
  | cons it rest ih => simp only [List.foldl_cons]; rw [cb1Term_one, cx_add_czero]; exact ih acc

theorem ndSumNS_one (b0 : ℝ) (items : List (Cx ℝ × Cx ℝ × Cx ℝ)) : ndSumNS b0 1 items = czero := by
  unfold ndSumNS
  generalize czero = acc
  induction items generalizing acc with
  | nil => rfl
  | cons it rest ih => simp only [List.foldl_cons]; rw [cb1TermNS_one, cx_add_czero]; exact ih acc


/-! ### algebra with spectral data -/

theorem spectral_mul {G P0 P1 : Mat} {l0 l1 : ℂ} (S : Spectral G P0 P1 l0 l1) (x0 x1 y0 y1 : ℂ) :
    (x0 • P0 + x1 • P1) * (y0 • P0 + y1 • P1) = (x0 * y0) • P0 + (x1 * y1) • P1 := by
  simp only [add_mul, mul_add, smul_mul_assoc, mul_smul_comm, S.idem0, S.idem1, S.orth01, S.orth10,
    smul_zero, add_zero, zero_add, smul_smul]
  rw [mul_comm y0, mul_comm y1]

theorem spectral_G_mul {G P0 P1 : Mat} {l0 l1 : ℂ} (S : Spectral G P0 P1 l0 l1) (y0 y1 : ℂ) :
    G * (y0 • P0 + y1 • P1) = (l0 * y0) • P0 + (l1 * y1) • P1 := by
  rw [← S.spec]; exact spectral_mul S _ _ _ _

theorem spectral_G_P0 {G P0 P1 : Mat} {l0 l1 : ℂ} (S : Spectral G P0 P1 l0 l1) : G * P0 = l0 • P0 := by
  have := spectral_G_mul S 1 0; simpa using this

theorem spectral_G_P1 {G P0 P1 : Mat} {l0 l1 : ℂ} (S : Spectral G P0 P1 l0 l1) : G * P1 = l1 • P1 := by
  have := spectral_G_mul S 0 1; simpa using this

/-! ### column sums: J·x has the two column sums of x in its first row -/

def J : Mat := !![1, 1; 0, 0]

theorem J_mul_toM (x : M2) : J * toM x = !![toC x.a + toC x.c, toC x.b + toC x.d; 0, 0] := by
  apply mat_ext <;> simp [J, toM, Matrix.mul_apply, Fin.sum_univ_two]

theorem colsum_zero_iff (x : M2) : M2.colsum x = (czero, czero) ↔ J * toM x = 0 := by
  rw [J_mul_toM]
  constructor
  · intro h
    simp only [M2.colsum, Prod.mk.injEq] at h
    have h1 := congrArg toC h.1
    have h2 := congrArg toC h.2
    simp at h1 h2
    apply mat_ext <;> simp [h1, h2]
  · intro h
    have h1 := congrFun (congrFun h 0) 0
    have h2 := congrFun (congrFun h 0) 1
    simp at h1 h2
    simp only [M2.colsum, Prod.mk.injEq]
    exact ⟨toC_injective (by simpa using h1), toC_injective (by simpa using h2)⟩

theorem colsum_one_of (x : M2) (h : J * toM x = J) : M2.colsum x = (cone, cone) := by
  rw [J_mul_toM] at h
  have h1 := congrFun (congrFun h 0) 0
  have h2 := congrFun (congrFun h 0) 1
  simp [J] at h1 h2
  simp only [M2.colsum, Prod.mk.injEq]
  exact ⟨toC_injective (by simpa using h1), toC_injective (by simpa using h2)⟩

theorem smul_J_eq_zero {z : ℂ} (h : z • J = 0) : z = 0 := by
  have := congrFun (congrFun h 0) 0
  simpa [J] using this

/-- with (1,1)·γ0 = 0: J·P_a = κ_a·J, and the product of the eigenvalues vanishes -/
theorem J_projectors (g : M2) (hd : g.a ≠ g.d)
    (hJ : J * toM g = 0) :
    J * toM (projectors g).1 =
        (-(1 / (toC (lambdaf g).1 - toC (lambdaf g).2)) * toC (lambdaf g).2) • J ∧
    J * toM (projectors g).2 =
        ((1 / (toC (lambdaf g).1 - toC (lambdaf g).2)) * toC (lambdaf g).1) • J ∧
    toC (lambdaf g).1 * toC (lambdaf g).2 = 0 := by
  refine ⟨?_, ?_, ?_⟩
  · rw [toM_projectors_1, Matrix.mul_smul, mul_sub, hJ, Matrix.mul_smul, mul_one]; module
  · rw [toM_projectors_2, Matrix.mul_smul, mul_sub, hJ, Matrix.mul_smul, mul_one]; module
  · have h1 : J * (toM g - toC (lambdaf g).1 • (1 : Mat)) = (-toC (lambdaf g).1) • J := by
      rw [mul_sub, hJ, Matrix.mul_smul, mul_one]; module
    have key : J * ((toM g - toC (lambdaf g).1 • (1 : Mat)) * (toM g - toC (lambdaf g).2 • (1 : Mat))) =
        (toC (lambdaf g).1 * toC (lambdaf g).2) • J := by
      rw [← mul_assoc, h1, Matrix.smul_mul, mul_sub, hJ, Matrix.mul_smul, mul_one]; module
    rw [model_CH g hd, mul_zero] at key
    exact smul_J_eq_zero key.symm

end Gep.R.Evol

/-
  Proofs/Harm.lean — helper lemmas for property C08 about Gen/HarmR.lean (the ℝ instantiation of
  Scalar/Harm.lean.in): the model of `_phiharmonic` with the EXACT integral in place of the
  quadrature routine, applied to a trigonometric polynomial.
-/
import Gen.HarmR
import Proofs.HarmTrig

namespace Gep.R.Harm
open Real intervalIntegral Gep.R.HarmTrig

/-- the exact integral, as a value of the model's integrator parameter `Q f a b` -/
noncomputable def exactInt (f : ℝ → ℝ) (a b : ℝ) : ℝ := ∫ x in a..b, f x

theorem harm_exact_cos (a b : ℕ → ℝ) (N n : ℕ) (hn : 1 ≤ n) (hN : n ≤ N) :
    phiharmonic exactInt (.ftn (n : ℝ)) (trigPoly a b N) = .ok (a n) := by
  have hpos : (0:ℝ) < (n:ℝ) := by exact_mod_cast hn
  have h1 : ¬ ((n:ℝ) < 0) := not_lt.mpr hpos.le
  simp only [phiharmonic, if_neg h1, if_pos hpos, exactInt, kcos, kpi]
  rw [int_trigPoly_cos a b N n hn hN]
  congr 1
  field_simp

theorem harm_exact_sin (a b : ℕ → ℝ) (N n : ℕ) (hn : 1 ≤ n) (hN : n ≤ N) :
    phiharmonic exactInt (.ftn (-(n : ℝ))) (trigPoly a b N) = .ok (b n) := by
  have hpos : (0:ℝ) < (n:ℝ) := by exact_mod_cast hn
  have h1 : (-(n:ℝ) < 0) := by linarith
  simp only [phiharmonic, if_pos h1, exactInt, ksin, kpi, neg_neg]
  rw [int_trigPoly_sin a b N n hn hN]
  congr 1
  field_simp

theorem harm_exact_zero (a b : ℕ → ℝ) (N : ℕ) :
    phiharmonic exactInt (.ftn 0) (trigPoly a b N) = .ok (a 0) := by
  have h1 : ¬ ((0:ℝ) < 0) := lt_irrefl _
  have h2 : (0:ℝ) ≤ 0 ∧ (0:ℝ) ≤ 0 := ⟨le_refl _, le_refl _⟩
  simp only [phiharmonic, if_neg h1, gt_iff_lt, if_pos h2, exactInt, kpi]
  rw [int_trigPoly a b N]
  congr 1
  field_simp

/-- the explicit trigonometric polynomial of degree 3 (the orders the BMK/BM10 formulas generate) -/
noncomputable def trig3 (a0 a1 b1 a2 b2 a3 b3 : ℝ) (φ : ℝ) : ℝ :=
  a0 + a1 * cos φ + b1 * sin φ + a2 * cos (2 * φ) + b2 * sin (2 * φ) + a3 * cos (3 * φ) + b3 * sin (3 * φ)

/-- coefficient sequences for `trig3` -/
def seq3 (c0 c1 c2 c3 : ℝ) : ℕ → ℝ
  | 0 => c0
  | 1 => c1
  | 2 => c2
  | 3 => c3
  | _ => 0

theorem trig3_eq (a0 a1 b1 a2 b2 a3 b3 : ℝ) :
    trig3 a0 a1 b1 a2 b2 a3 b3 = trigPoly (seq3 a0 a1 a2 a3) (seq3 0 b1 b2 b3) 3 := by
  funext φ
  simp only [trig3, trigPoly, Finset.sum_range_succ, Finset.sum_range_zero, seq3]
  push_cast
  ring_nf


/-! ### the quadrature rule itself -/

theorem foldl_const (q : Quad) (C acc : ℝ) :
    q.foldl (fun acc rw => acc + rw.2 * C) acc = acc + C * (q.map Prod.snd).sum := by
  induction q generalizing acc with
  | nil => simp
  | cons h t ih =>
    simp only [List.foldl_cons, List.map_cons, List.sum_cons, ih]
    ring

/-- a rule whose weights sum to 2 (every Gauss–Legendre rule) integrates constants exactly -/
theorem glquad_const (q : Quad) (C a b : ℝ) (hw : (q.map Prod.snd).sum = 2) :
    glquad q (fun _ => C) a b = (b - a) * C := by
  simp only [glquad, foldl_const, hw]
  ring

/-- with such a rule the n = 0 harmonic of a φ-independent function is the function's value … -/
theorem harm_const (q : Quad) (C : ℝ) (hw : (q.map Prod.snd).sum = 2) :
    phiharmonic (glquad q) (.ftn 0) (fun _ => C) = .ok C := by
  have h1 : ¬ ((0:ℝ) < 0) := lt_irrefl _
  have h2 : (0:ℝ) ≤ 0 ∧ (0:ℝ) ≤ 0 := ⟨le_refl _, le_refl _⟩
  simp only [phiharmonic, if_neg h1, gt_iff_lt, if_pos h2, glquad_const q C _ _ hw, kpi]
  congr 1
  field_simp
  ring

/-- … and XSintphi returns 2π times it -/
theorem xsintphi_const (q : Quad) (C : ℝ) (hw : (q.map Prod.snd).sum = 2) :
    xsintphi (glquad q) none (fun _ => C) = .ok (2 * π * C) := by
  simp only [xsintphi, harm_const q C hw, kpi]

end Gep.R.Harm

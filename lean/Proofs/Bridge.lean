/-
  Proofs/Bridge.lean — the tactic `bridge` for BRIDGING lemmas: lemmas of the form
      <generated definition of Gen/BmkR.lean> … = <hand-written mathematical form>
  that connect the model REGENERATED from the Python source on every run to the fixed expressions the property
  theorems are stated and proved with.

  A bridging lemma must survive behaviour-preserving clean-ups of the Python (`x**2` ↔ `x*x`, `a/b/c` ↔ `a/(b*c)`,
  hoisted sub-expressions, re-associated sums and products, `1*x`, an extracted helper — helpers are inlined by the
  translator), so it must not rely on the two sides being SYNTACTICALLY equal after unfolding.  Recipe:

      theorem foo_eq … : foo c pt = <hand-written form> := by
        bridge_simp [foo, <hand-written defs>]          -- short for  simp only [foo, …] <;> bridge

  `simp only` unfolds the generated definition one level (and β/ζ-reduces the `let`s and inlined helpers); when that
  already closes the goal `bridge` runs on nothing.  Otherwise `bridge` closes it by, in this order,
    1. `rfl` up to reducible unfolding,
    2. `ring1`   — commutative-(semi)field normalisation: re-association, `x*x = x^2`, `a/b/c = a/(b*c)`, numerals;
                   the arguments of `ksqrt`, `kcos`, … are atoms and have to agree syntactically,
    3. `ring_nf` — the same normalisation applied to every sub-term, i.e. also INSIDE the arguments of atoms such as
                   `ksqrt (1 + 4 * (xB * xB) * M2 / Q2)` versus `ksqrt (1 + 4 * xB ^ 2 * M2 / Q2)`; it must close the goal,
    4. `field_simp` (WITHOUT any side condition, so it cancels nothing: it only brings both sides to the form
                   numerator / denominator with the factors of each collected, also inside atoms) followed by
                   `ring1` / `ring_nf` — needed when a DENOMINATOR is a power of a sum written differently on the two
                   sides: `ring` proves `a / (x * x) = a / x ^ 2` for an atom `x`, but not `a / ((2 - x) * (2 - x)) =
                   a / (2 - x) ^ 2` (it expands the product and keeps the power).
  Everything further (clearing denominators with side conditions, square-root identities, …) belongs to the proof
  proper, which should then work on the hand-written form only.

  `bridge` never uses anything but `rfl`, `ring1`, `ring_nf` and hypothesis-free `field_simp`: it proves identities of
  commutative fields and nothing else, so a change of the Python that alters the VALUE of a formula still breaks the
  bridging lemma.
-/
import Mathlib.Tactic.Ring
import Mathlib.Tactic.FieldSimp
import Mathlib.Tactic.NormNum.OfScientific

namespace Gep

/-- close `generated form = hand-written form` after the definitions have been unfolded; see the file header -/
macro "bridge" : tactic =>
  `(tactic| first
    | with_reducible rfl
    | ring1
    | (ring_nf; done)
    | (field_simp <;> first | ring1 | (ring_nf; done))
    | fail "bridge: the two sides are not equal as expressions of a commutative field (after normalising inside atoms)")

/-- `bridge_simp [defs, lemmas]` = `simp only [defs, lemmas] <;> bridge` -/
syntax (name := bridgeSimp) "bridge_simp" " [" (Lean.Parser.Tactic.simpStar <|> Lean.Parser.Tactic.simpErase <|> Lean.Parser.Tactic.simpLemma),* "]" : tactic
macro_rules
  | `(tactic| bridge_simp [$args,*]) => `(tactic| (simp only [$args,*] <;> bridge))

end Gep

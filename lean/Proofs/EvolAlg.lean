/-
  Proofs/EvolAlg.lean — helper lemmas for property C02 (part 2): the model's eigenvalues are the
  two roots of the characteristic polynomial (square-root trick), Cayley–Hamilton, and from it the
  projector algebra, packaged as `Spectral`.
-/
import Proofs.Evol
import Mathlib.Tactic.NoncommRing

namespace Gep.R.Evol
open Gep Gep.R

/-- what the proofs downstream use about the eigenvalues and the projectors -/
structure Spectral (G P0 P1 : Mat) (l0 l1 : ℂ) : Prop where
  complete : P0 + P1 = 1
  idem0 : P0 * P0 = P0
  idem1 : P1 * P1 = P1
  orth01 : P0 * P1 = 0
  orth10 : P1 * P0 = 0
  spec : l0 • P0 + l1 • P1 = G

theorem idem_of_complete_orth {P Q : Mat} (hc : P + Q = 1) (ho : P * Q = 0) : P * P = P := by
  have h : P = 1 - Q := eq_sub_of_add_eq hc
  calc P * P = P * (1 - Q) := by rw [← h]
    _ = P - P * Q := by rw [mul_sub, mul_one]
    _ = P := by rw [ho, sub_zero]

theorem spectral_of_CH (G : Mat) (l0 l1 δ : ℂ) (hδ : δ * (l0 - l1) = 1)
    (hCH : (G - l0 • (1 : Mat)) * (G - l1 • (1 : Mat)) = 0) :
    Spectral G (δ • (G - l1 • (1 : Mat))) ((-δ) • (G - l0 • (1 : Mat))) l0 l1 := by
  have hcomm : (G - l1 • (1 : Mat)) * (G - l0 • (1 : Mat)) = (G - l0 • (1 : Mat)) * (G - l1 • (1 : Mat)) := by
    simp only [sub_mul, mul_sub, smul_mul_assoc, mul_smul_comm, one_mul, mul_one, smul_sub, smul_smul]
    module
  have hcompl : δ • (G - l1 • (1 : Mat)) + (-δ) • (G - l0 • (1 : Mat)) = 1 := by
    have : δ • (G - l1 • (1 : Mat)) + (-δ) • (G - l0 • (1 : Mat)) = (δ * (l0 - l1)) • (1 : Mat) := by
      module
    rw [this, hδ, one_smul]
  have h01 : δ • (G - l1 • (1 : Mat)) * ((-δ) • (G - l0 • (1 : Mat))) = 0 := by
    rw [smul_mul_assoc, mul_smul_comm, hcomm, hCH]; simp
  have h10 : (-δ) • (G - l0 • (1 : Mat)) * (δ • (G - l1 • (1 : Mat))) = 0 := by
    rw [smul_mul_assoc, mul_smul_comm, hCH]; simp
  refine ⟨hcompl, ?_, ?_, h01, h10, ?_⟩
  · exact idem_of_complete_orth hcompl h01
  · exact idem_of_complete_orth ((add_comm _ _).trans hcompl) h10
  · have : l0 • δ • (G - l1 • (1 : Mat)) + l1 • (-δ) • (G - l0 • (1 : Mat)) = (δ * (l0 - l1)) • G := by
      module
    rw [this, hδ, one_smul]


@[simp] theorem ofReal_four : ((4.0 : ℝ) : ℂ) = 4 := by push_cast; norm_num
@[simp] theorem ofReal_half : ((0.5 : ℝ) : ℂ) = 1 / 2 := by push_cast; norm_num

/-- the square-root trick gives the two roots of the characteristic polynomial -/
theorem lambdaf_spec (g : M2) (hd : g.a ≠ g.d) :
    ∃ u : ℂ, u * u = (toC g.a - toC g.d) * (toC g.a - toC g.d) + 4 * toC g.b * toC g.c ∧
      toC (lambdaf g).1 = (toC g.a + toC g.d - u) / 2 ∧
      toC (lambdaf g).2 = (toC g.a + toC g.d + u) / 2 := by
  have hd' : toC g.a - toC g.d ≠ 0 := sub_ne_zero.mpr (fun h => hd (toC_injective h))
  set X : Cx ℝ := cone + Cx.smul 4.0 g.b * g.c / ((g.a - g.d) * (g.a - g.d)) with hX
  have hs : toC (csqrt X) * toC (csqrt X) =
      1 + 4 * toC g.b * toC g.c / ((toC g.a - toC g.d) * (toC g.a - toC g.d)) := by
    rw [← toC_mul, csqrt_mul_self, hX]; simp; norm_num
  refine ⟨(toC g.a - toC g.d) * toC (csqrt X), ?_, ?_, ?_⟩
  · have : (toC g.a - toC g.d) * toC (csqrt X) * ((toC g.a - toC g.d) * toC (csqrt X)) =
        (toC g.a - toC g.d) * (toC g.a - toC g.d) * (toC (csqrt X) * toC (csqrt X)) := by ring
    rw [this, hs]; field_simp
  · simp [lambdaf, ← hX]; ring
  · simp [lambdaf, ← hX]; ring

theorem toM_projectors_1 (g : M2) :
    toM (projectors g).1 = (1 / (toC (lambdaf g).1 - toC (lambdaf g).2)) •
      (toM g - toC (lambdaf g).2 • (1 : Mat)) := by
  apply mat_ext <;> simp [projectors, toM, M2.smulC]

theorem toM_projectors_2 (g : M2) :
    toM (projectors g).2 = (-(1 / (toC (lambdaf g).1 - toC (lambdaf g).2))) •
      (toM g - toC (lambdaf g).1 • (1 : Mat)) := by
  apply mat_ext <;> simp [projectors, toM, M2.smulC]

/-- Cayley–Hamilton for the model's eigenvalues -/
theorem model_CH (g : M2) (hd : g.a ≠ g.d) :
    (toM g - toC (lambdaf g).1 • (1 : Mat)) * (toM g - toC (lambdaf g).2 • (1 : Mat)) = 0 := by
  obtain ⟨u, hu, h1, h2⟩ := lambdaf_spec g hd
  rw [h1, h2]
  apply mat_ext <;> simp [toM, Matrix.mul_apply, Fin.sum_univ_two]
  · linear_combination (-1 / 4 : ℂ) * hu
  · ring
  · ring
  · linear_combination (-1 / 4 : ℂ) * hu

theorem spectral_model (g : M2) (hd : g.a ≠ g.d) (hl : (lambdaf g).1 ≠ (lambdaf g).2) :
    Spectral (toM g) (toM (projectors g).1) (toM (projectors g).2)
      (toC (lambdaf g).1) (toC (lambdaf g).2) := by
  have hl' : toC (lambdaf g).1 - toC (lambdaf g).2 ≠ 0 :=
    sub_ne_zero.mpr (fun h => hl (toC_injective h))
  rw [toM_projectors_1, toM_projectors_2]
  exact spectral_of_CH _ _ _ _ (by field_simp) (model_CH g hd)

end Gep.R.Evol

/-
  Proofs/EvolNS.lean — helper lemmas for property C02 (part 5): non-degeneracy conditions in terms
  of the entries of γ0; the non-singlet operator, its exact derivative and the NLO RG identity.
-/
import Proofs.EvolRG

namespace Gep.R.Evol
open Gep Gep.R

/-! ### non-degeneracy in terms of the entries of γ0 -/

/-- λ₊ ≠ λ₋ as soon as the discriminant (a−d)² + 4bc does not vanish -/
theorem lambdaf_ne_of_disc (g : M2) (hd : g.a ≠ g.d)
    (hdisc : (g.a - g.d) * (g.a - g.d) + Cx.smul 4 (g.b * g.c) ≠ czero) :
    (lambdaf g).1 ≠ (lambdaf g).2 := by
  intro h
  apply hdisc
  obtain ⟨u, hu, h1, h2⟩ := lambdaf_spec g hd
  have h' := congrArg toC h
  rw [h1, h2] at h'
  have hu0 : u = 0 := by linear_combination (-1 : ℂ) * h'
  apply toC_injective
  simp only [toC_add, toC_mul, toC_sub, toC_smul, toC_czero]
  rw [hu0] at hu
  push_cast
  linear_combination (-1 : ℂ) * hu

/-- the two off-diagonal denominators of erfunc do not vanish when β0² ≠ (a−d)² + 4bc -/
theorem erfunc_den_ne (g : M2) (hd : g.a ≠ g.d) (b0 : ℝ)
    (h : Cx.ofReal (b0 * b0) ≠ (g.a - g.d) * (g.a - g.d) + Cx.smul 4 (g.b * g.c)) :
    Cx.ofReal b0 + ((lambdaf g).1 - (lambdaf g).2) ≠ czero ∧
    Cx.ofReal b0 + -((lambdaf g).1 - (lambdaf g).2) ≠ czero := by
  obtain ⟨u, hu, h1, h2⟩ := lambdaf_spec g hd
  have hne : (b0 : ℂ) * (b0 : ℂ) ≠ u * u := by
    intro e
    apply h
    apply toC_injective
    simp only [toC_add, toC_mul, toC_sub, toC_smul, toC_ofReal]
    push_cast
    rw [e, hu]; ring
  constructor
  · intro e
    have e' := congrArg toC e
    simp only [toC_add, toC_sub, toC_ofReal, toC_czero, h1, h2] at e'
    apply hne
    linear_combination ((b0 : ℂ) + u) * e'
  · intro e
    have e' := congrArg toC e
    simp only [toC_add, toC_sub, toC_neg, toC_ofReal, toC_czero, h1, h2] at e'
    apply hne
    linear_combination ((b0 : ℂ) - u) * e'

/-! ### non-singlet operator -/

theorem toC_r1ns (g0 g1 : Cx ℝ) (b0 b1 : ℝ) :
    toC (r1ns g0 g1 b0 b1) = ((1 / b0 : ℝ) : ℂ) * (toC g1 - ((0.5 * (1 / b0) * b1 : ℝ) : ℂ) * toC g0) := by
  simp [r1ns]

theorem evolopns_fst (p : Nat) (g0 g1 : Cx ℝ) (b0 b1 R : ℝ) (nd : Option (List (Cx ℝ × Cx ℝ × Cx ℝ))) :
    (evolopns p g0 g1 b0 b1 R nd).1 = rfact b0 g0 R := by
  unfold evolopns
  by_cases hp : p = 1
  · cases nd <;> simp [hp]
  · simp [hp]

theorem evolopns_snd (g0 g1 : Cx ℝ) (b0 b1 R : ℝ) :
    toC (evolopns 1 g0 g1 b0 b1 R none).2 =
      -(1 - 1 / (R : ℂ)) * toC (r1ns g0 g1 b0 b1) * toC (rfact b0 g0 R) := by
  simp [evolopns]

/-- exact derivative of the non-singlet E = E0 + A·E1 along R = A(L)/A0 -/
theorem hasDerivAt_ns_total (g0 g1 : Cx ℝ) (b0 b1 A0 : ℝ) (hb : b0 ≠ 0)
    {A : ℝ → ℝ} {A' L : ℝ} (hA : HasDerivAt A A' L) (hA0 : A0 ≠ 0) (hAL : A L ≠ 0) :
    HasDerivAt (fun L => toC (evolopns 1 g0 g1 b0 b1 (A L / A0) none).1 +
        (A L : ℂ) * toC (evolopns 1 g0 g1 b0 b1 (A L / A0) none).2)
      (-(((A' / A L : ℝ) : ℂ) / (b0 : ℂ)) * (toC g0 * (toC (evolopns 1 g0 g1 b0 b1 (A L / A0) none).1 +
          (A L : ℂ) * toC (evolopns 1 g0 g1 b0 b1 (A L / A0) none).2))
        - ((A' : ℝ) : ℂ) * (toC (r1ns g0 g1 b0 b1) * toC (evolopns 1 g0 g1 b0 b1 (A L / A0) none).1)) L := by
  have hρ : HasDerivAt (fun L => A L / A0) (A' / A0) L := hA.div_const A0
  have hne : A L / A0 ≠ 0 := div_ne_zero hAL hA0
  have hu : (A' / A0) / (A L / A0) = A' / A L := by field_simp
  have hf := hasDerivAt_rfact g0 b0 hρ hne
  rw [hu] at hf
  have hAC : HasDerivAt (fun L => ((A L : ℝ) : ℂ)) ((A' : ℝ) : ℂ) L := hA.ofReal_comp
  have hρC : HasDerivAt (fun L => ((A L / A0 : ℝ) : ℂ)) ((A' / A0 : ℝ) : ℂ) L := hρ.ofReal_comp
  have hneC : ((A L / A0 : ℝ) : ℂ) ≠ 0 := by exact_mod_cast hne
  have hinv := (hasDerivAt_const L (1 : ℂ)).div hρC hneC
  simp only [evolopns_fst, evolopns_snd]
  have hc : HasDerivAt (fun L => -(1 - 1 / ((A L / A0 : ℝ) : ℂ)))
      (-(((A' / A0 : ℝ) : ℂ) / ((A L / A0 : ℝ) : ℂ) ^ 2)) L := by
    refine ((hinv.const_sub 1).neg).congr_deriv ?_
    field_simp
    ring
  have h2 := ((hc.mul_const (toC (r1ns g0 g1 b0 b1))).mul hf)
  refine (hf.add (hAC.mul h2)).congr_deriv ?_
  have hALC : ((A L : ℝ) : ℂ) ≠ 0 := by exact_mod_cast hAL
  have hA0C : ((A0 : ℝ) : ℂ) ≠ 0 := by exact_mod_cast hA0
  have hbC : (b0 : ℂ) ≠ 0 := by exact_mod_cast hb
  simp only [Pi.mul_apply]
  generalize toC (rfact b0 g0 (A L / A0)) = f
  push_cast
  field_simp
  ring


theorem toC_g1_of_r1ns (g0 g1 : Cx ℝ) (b0 b1 : ℝ) (hb : b0 ≠ 0) :
    toC g1 = (b0 : ℂ) * toC (r1ns g0 g1 b0 b1) + ((b1 : ℂ) / (2 * (b0 : ℂ))) * toC g0 := by
  have hbC : (b0 : ℂ) ≠ 0 := by exact_mod_cast hb
  rw [toC_r1ns]
  push_cast
  rw [show (0.5 : ℂ) = 1 / 2 by norm_num]
  field_simp
  ring

/-- the O(a³) remainder of the non-singlet NLO renormalisation-group equation -/
noncomputable def rgRemainderNS (g0 g1 : Cx ℝ) (b0 b1 R : ℝ) : ℂ :=
  (1 / 2 : ℂ) * (toC g1 * toC (evolopns 1 g0 g1 b0 b1 R none).2) -
    ((b1 : ℂ) / 4) * (toC (r1ns g0 g1 b0 b1) * toC (evolopns 1 g0 g1 b0 b1 R none).1 +
      (1 / (b0 : ℂ)) * (toC g0 * toC (evolopns 1 g0 g1 b0 b1 R none).2))

theorem rg_nlo_algebra_ns (g0 g1 : Cx ℝ) (b0 b1 R A : ℝ) (hb : b0 ≠ 0) (hA : A ≠ 0) :
    -((((b0 / 2 * A ^ 2 + b1 / 4 * A ^ 3) / A : ℝ) : ℂ) / (b0 : ℂ)) *
        (toC g0 * (toC (evolopns 1 g0 g1 b0 b1 R none).1 + (A : ℂ) * toC (evolopns 1 g0 g1 b0 b1 R none).2))
      - ((b0 / 2 * A ^ 2 + b1 / 4 * A ^ 3 : ℝ) : ℂ) *
        (toC (r1ns g0 g1 b0 b1) * toC (evolopns 1 g0 g1 b0 b1 R none).1) =
    -(((A / 2 : ℝ) : ℂ) * toC g0 + ((A ^ 2 / 2 : ℝ) : ℂ) * toC g1) *
        (toC (evolopns 1 g0 g1 b0 b1 R none).1 + (A : ℂ) * toC (evolopns 1 g0 g1 b0 b1 R none).2)
      + ((A ^ 3 : ℝ) : ℂ) * rgRemainderNS g0 g1 b0 b1 R := by
  have hbC : (b0 : ℂ) ≠ 0 := by exact_mod_cast hb
  have hAC : (A : ℂ) ≠ 0 := by exact_mod_cast hA
  unfold rgRemainderNS
  rw [toC_g1_of_r1ns g0 g1 b0 b1 hb]
  generalize toC (r1ns g0 g1 b0 b1) = r1
  generalize toC (evolopns 1 g0 g1 b0 b1 R none).1 = E0
  generalize toC (evolopns 1 g0 g1 b0 b1 R none).2 = E1
  push_cast
  field_simp
  ring

end Gep.R.Evol

/-
  Proofs/AdimMoments.lean — Mellin moments ∫₀¹ x^{n-1} P(x) dx for integer n, as interval integrals
  (property C03, group 5): monomials, polynomials, and the plus-distribution
      ∫₀¹ (x^k − 1)/(1 − x) dx = − Σ_{i<k} 1/(i+1) = −H k.
-/
import Mathlib.Analysis.SpecialFunctions.Integrals.Basic
import Mathlib.Algebra.Field.GeomSum
import Mathlib.Tactic.Ring
import Mathlib.Tactic.FieldSimp
import Mathlib.Tactic.Linarith

namespace Gep.R.Adim
open intervalIntegral MeasureTheory Finset

/-- harmonic number H n = Σ_{k=1}^{n} 1/k = S₁(n) at integer n -/
noncomputable def H (n : ℕ) : ℝ := ∑ k ∈ range n, 1 / ((k : ℝ) + 1)

theorem H_succ (n : ℕ) : H (n + 1) = H n + 1 / ((n : ℝ) + 1) := by
  simp [H, sum_range_succ]

/-- two integrands that agree off one point have the same integral -/
theorem integral_congr_ne (c : ℝ) {f g : ℝ → ℝ} (h : ∀ x, x ≠ c → f x = g x) :
    ∫ x in (0:ℝ)..1, f x = ∫ x in (0:ℝ)..1, g x := by
  apply intervalIntegral.integral_congr_ae
  have h1 : ∀ᵐ x ∂(volume : Measure ℝ), x ≠ c := by
    simp [ae_iff]
  filter_upwards [h1] with x hx _ using h x hx

theorem moment_mono (k : ℕ) : ∫ x in (0:ℝ)..1, x ^ k = 1 / ((k : ℝ) + 1) := by
  rw [integral_pow]; simp

/-- moment of a four-term polynomial a x^k + b x^{k+1} + c x^{k+2} + d x^{k+3} -/
theorem poly_moment (a b c d : ℝ) (k : ℕ) :
    ∫ x in (0:ℝ)..1, (a * x ^ k + b * x ^ (k + 1) + c * x ^ (k + 2) + d * x ^ (k + 3)) =
      a / ((k : ℝ) + 1) + b / ((k : ℝ) + 2) + c / ((k : ℝ) + 3) + d / ((k : ℝ) + 4) := by
  have hi : ∀ (c : ℝ) (j : ℕ), IntervalIntegrable (fun x : ℝ => c * x ^ j) volume 0 1 :=
    fun c j => (continuous_const.mul (continuous_pow j)).intervalIntegrable _ _
  rw [integral_add (((hi _ _).add (hi _ _)).add (hi _ _)) (hi _ _),
    integral_add ((hi _ _).add (hi _ _)) (hi _ _), integral_add (hi _ _) (hi _ _)]
  simp only [intervalIntegral.integral_const_mul, moment_mono]
  push_cast
  ring

theorem moment_geom (k : ℕ) : ∫ x in (0:ℝ)..1, ∑ i ∈ range k, x ^ i = H k := by
  rw [intervalIntegral.integral_finsetSum]
  · simp only [moment_mono, H]
  · intro i _
    exact (continuous_pow i).intervalIntegrable _ _

theorem plus_kernel (k : ℕ) (x : ℝ) (hx : x ≠ 1) :
    (x ^ k - 1) / (1 - x) = -∑ i ∈ range k, x ^ i := by
  have h1 : x - 1 ≠ 0 := sub_ne_zero.mpr hx
  have h2 : (1 - x) ≠ 0 := by intro h; apply h1; linarith
  rw [geom_sum_eq hx]
  field_simp
  ring

/-- moment of the plus-distribution [x^k/(1−x)]₊ against 1: ∫₀¹ (x^k − 1)/(1−x) = −H k -/
theorem plus_moment (k : ℕ) : ∫ x in (0:ℝ)..1, (x ^ k - 1) / (1 - x) = -H k := by
  rw [integral_congr_ne 1 (plus_kernel k), intervalIntegral.integral_neg, moment_geom]

/-- ∫₀¹ (x^a + x^b − 2)/(1−x) = −H a − H b  (the plus-distribution against x^{n-1}(1+x²)) -/
theorem plus_moment2 (a b : ℕ) :
    ∫ x in (0:ℝ)..1, (x ^ a + x ^ b - 2) / (1 - x) = -H a - H b := by
  have h : ∀ x : ℝ, x ≠ 1 → (x ^ a + x ^ b - 2) / (1 - x) =
      -(∑ i ∈ range a, x ^ i) + -(∑ i ∈ range b, x ^ i) := by
    intro x hx
    rw [← plus_kernel a x hx, ← plus_kernel b x hx]
    ring
  have hi : ∀ k : ℕ, IntervalIntegrable (fun x : ℝ => -(∑ i ∈ range k, x ^ i)) volume 0 1 :=
    fun k => ((continuous_finsetSum _ (fun i _ => continuous_pow i)).neg).intervalIntegrable _ _
  rw [integral_congr_ne 1 h, integral_add (hi a) (hi b), intervalIntegral.integral_neg,
    intervalIntegral.integral_neg, moment_geom, moment_geom]
  ring

end Gep.R.Adim

/-
  Proofs/Evol.lean — helper lemmas for property C02 (part 1): the identification of the model's
  two-field complex numbers over ℝ with Mathlib's ℂ (`toC`, a field isomorphism that also carries
  the model's exp to Complex.exp), of the model's 2×2 matrices with `Matrix (Fin 2) (Fin 2) ℂ`
  (`toM`), and the square-root lemma `csqrt z * csqrt z = z`.
-/
import Gen.EvolR
import Mathlib.Analysis.SpecialFunctions.Complex.Log
import Mathlib.Analysis.SpecialFunctions.ExpDeriv
import Mathlib.LinearAlgebra.Matrix.Notation
import Mathlib.Tactic.Ring
import Mathlib.Tactic.FieldSimp
import Mathlib.Tactic.Linarith
import Mathlib.Tactic.LinearCombination
import Mathlib.Tactic.Module

namespace Gep.R.Evol
open Gep Gep.R

/-- the canonical identification of the two-field complex numbers over ℝ with Mathlib's ℂ -/
def toC (z : Cx ℝ) : ℂ := ⟨z.re, z.im⟩

theorem toC_injective : Function.Injective toC := by
  intro x y h
  cases x; cases y
  simp only [toC, Complex.mk.injEq] at h
  simp [h.1, h.2]

@[simp] theorem toC_re (z : Cx ℝ) : (toC z).re = z.re := rfl
@[simp] theorem toC_im (z : Cx ℝ) : (toC z).im = z.im := rfl
@[simp] theorem toC_add (x y : Cx ℝ) : toC (x + y) = toC x + toC y := by
  apply Complex.ext <;> simp
@[simp] theorem toC_sub (x y : Cx ℝ) : toC (x - y) = toC x - toC y := by
  apply Complex.ext <;> simp
@[simp] theorem toC_neg (x : Cx ℝ) : toC (-x) = -toC x := by
  apply Complex.ext <;> simp
@[simp] theorem toC_mul (x y : Cx ℝ) : toC (x * y) = toC x * toC y := by
  apply Complex.ext <;> simp
@[simp] theorem toC_div (x y : Cx ℝ) : toC (x / y) = toC x / toC y := by
  apply Complex.ext <;> simp [Complex.div_re, Complex.div_im, Complex.normSq_apply] <;> ring
@[simp] theorem toC_smul (r : ℝ) (x : Cx ℝ) : toC (Cx.smul r x) = (r : ℂ) * toC x := by
  apply Complex.ext <;> simp
@[simp] theorem toC_divR (r : ℝ) (x : Cx ℝ) : toC (Cx.divR x r) = toC x / (r : ℂ) := by
  rcases eq_or_ne r 0 with h | h
  · subst h; apply Complex.ext <;> simp
  · apply Complex.ext <;> simp [Complex.div_re, Complex.div_im, Complex.normSq_apply] <;> field_simp
@[simp] theorem toC_ofReal (r : ℝ) : toC (Cx.ofReal r) = (r : ℂ) := by
  apply Complex.ext <;> simp
@[simp] theorem toC_cone : toC cone = 1 := by
  apply Complex.ext <;> simp [cone]
@[simp] theorem toC_czero : toC czero = 0 := by
  apply Complex.ext <;> simp [czero]
@[simp] theorem toC_cexp (z : Cx ℝ) : toC (cexp z) = Complex.exp (toC z) := by
  apply Complex.ext <;> simp [cexp, kexp, kcos, ksin, Complex.exp_re, Complex.exp_im]
theorem toC_rpowc (x : ℝ) (z : Cx ℝ) :
    toC (rpowc x z) = Complex.exp ((Real.log x : ℂ) * toC z) := by
  simp [rpowc, klog]


theorem Cx_ext {x y : Cx ℝ} (h1 : x.re = y.re) (h2 : x.im = y.im) : x = y := by
  cases x; cases y; simp_all

/-- the model's square root squares to its argument, for every complex number -/
theorem csqrt_mul_self (z : Cx ℝ) : csqrt z * csqrt z = z := by
  obtain ⟨x, y⟩ := z
  have hr0 : 0 ≤ Real.sqrt (x * x + y * y) := Real.sqrt_nonneg _
  have hr2 : Real.sqrt (x * x + y * y) * Real.sqrt (x * x + y * y) = x * x + y * y :=
    Real.mul_self_sqrt (add_nonneg (mul_self_nonneg x) (mul_self_nonneg y))
  by_cases h1 : Real.sqrt (x * x + y * y) ≤ 0
  · have hc : csqrt ⟨x, y⟩ = ⟨0, 0⟩ := by simp [csqrt, ksqrt, h1]
    rw [hc]
    have hr : Real.sqrt (x * x + y * y) = 0 := le_antisymm h1 hr0
    have hxy : x * x + y * y = 0 := by rw [← hr2, hr]; ring
    have hx : x = 0 := by nlinarith [mul_self_nonneg x, mul_self_nonneg y]
    have hy : y = 0 := by nlinarith [mul_self_nonneg x, mul_self_nonneg y]
    subst hx hy
    apply Cx_ext <;> simp
  · have hrpos : 0 < Real.sqrt (x * x + y * y) := lt_of_not_ge h1
    by_cases h2 : 0 ≤ x
    · have hc : csqrt ⟨x, y⟩ = ⟨Real.sqrt ((Real.sqrt (x * x + y * y) + x) / 2),
          y / (2 * Real.sqrt ((Real.sqrt (x * x + y * y) + x) / 2))⟩ := by
        simp [csqrt, ksqrt, h1, h2]
      rw [hc]
      generalize Real.sqrt (x * x + y * y) = r at hr0 hr2 hrpos
      have ht2 : Real.sqrt ((r + x) / 2) * Real.sqrt ((r + x) / 2) = (r + x) / 2 :=
        Real.mul_self_sqrt (by linarith)
      have htpos : 0 < Real.sqrt ((r + x) / 2) := Real.sqrt_pos.mpr (by linarith)
      generalize Real.sqrt ((r + x) / 2) = t at ht2 htpos
      have ht : t ≠ 0 := ne_of_gt htpos
      apply Cx_ext
      · simp only [Cx.mul_re]
        field_simp
        nlinarith [ht2, hr2]
      · simp only [Cx.mul_im]
        field_simp
        ring
    · have hx : x < 0 := lt_of_not_ge h2
      by_cases h3 : 0 ≤ y
      · have hc : csqrt ⟨x, y⟩ = ⟨|y| / (2 * Real.sqrt ((Real.sqrt (x * x + y * y) - x) / 2)),
            Real.sqrt ((Real.sqrt (x * x + y * y) - x) / 2)⟩ := by
          simp [csqrt, ksqrt, kabs, h1, h2, h3]
        rw [hc]
        generalize Real.sqrt (x * x + y * y) = r at hr0 hr2 hrpos
        have ht2 : Real.sqrt ((r - x) / 2) * Real.sqrt ((r - x) / 2) = (r - x) / 2 :=
          Real.mul_self_sqrt (by linarith)
        have htpos : 0 < Real.sqrt ((r - x) / 2) := Real.sqrt_pos.mpr (by linarith)
        generalize Real.sqrt ((r - x) / 2) = t at ht2 htpos
        have ht : t ≠ 0 := ne_of_gt htpos
        have hy : |y| = y := abs_of_nonneg h3
        apply Cx_ext
        · simp only [Cx.mul_re, hy]
          field_simp
          nlinarith [ht2, hr2]
        · simp only [Cx.mul_im, hy]
          field_simp
          ring
      · have hc : csqrt ⟨x, y⟩ = ⟨|y| / (2 * Real.sqrt ((Real.sqrt (x * x + y * y) - x) / 2)),
            -Real.sqrt ((Real.sqrt (x * x + y * y) - x) / 2)⟩ := by
          simp [csqrt, ksqrt, kabs, h1, h2, h3]
        rw [hc]
        generalize Real.sqrt (x * x + y * y) = r at hr0 hr2 hrpos
        have ht2 : Real.sqrt ((r - x) / 2) * Real.sqrt ((r - x) / 2) = (r - x) / 2 :=
          Real.mul_self_sqrt (by linarith)
        have htpos : 0 < Real.sqrt ((r - x) / 2) := Real.sqrt_pos.mpr (by linarith)
        generalize Real.sqrt ((r - x) / 2) = t at ht2 htpos
        have ht : t ≠ 0 := ne_of_gt htpos
        have hy : |y| = -y := abs_of_neg (lt_of_not_ge h3)
        apply Cx_ext
        · simp only [Cx.mul_re, hy]
          field_simp
          nlinarith [ht2, hr2]
        · simp only [Cx.mul_im, hy]
          field_simp
          ring

/-! ### 2×2 matrices -/

abbrev Mat := Matrix (Fin 2) (Fin 2) ℂ

def toM (x : M2) : Mat := !![toC x.a, toC x.b; toC x.c, toC x.d]

theorem M2_ext {x y : M2} (ha : x.a = y.a) (hb : x.b = y.b) (hc : x.c = y.c) (hd : x.d = y.d) :
    x = y := by
  cases x; cases y; simp_all

theorem toM_injective : Function.Injective toM := by
  intro x y h
  have h00 := congrFun (congrFun h 0) 0
  have h01 := congrFun (congrFun h 0) 1
  have h10 := congrFun (congrFun h 1) 0
  have h11 := congrFun (congrFun h 1) 1
  simp [toM] at h00 h01 h10 h11
  exact M2_ext (toC_injective h00) (toC_injective h01) (toC_injective h10) (toC_injective h11)

theorem mat_ext {A B : Mat} (h00 : A 0 0 = B 0 0) (h01 : A 0 1 = B 0 1) (h10 : A 1 0 = B 1 0)
    (h11 : A 1 1 = B 1 1) : A = B := by
  ext i j; fin_cases i <;> fin_cases j <;> assumption

@[simp] theorem toM_one : toM M2.one = 1 := by
  apply mat_ext <;> simp [toM, M2.one]
@[simp] theorem toM_zero : toM M2.zero = 0 := by
  apply mat_ext <;> simp [toM, M2.zero]
@[simp] theorem toM_add (x y : M2) : toM (M2.add x y) = toM x + toM y := by
  apply mat_ext <;> simp [toM, M2.add]
@[simp] theorem toM_sub (x y : M2) : toM (M2.sub x y) = toM x - toM y := by
  apply mat_ext <;> simp [toM, M2.sub]
@[simp] theorem toM_neg (x : M2) : toM (M2.neg x) = -toM x := by
  apply mat_ext <;> simp [toM, M2.neg]
@[simp] theorem toM_mul (x y : M2) : toM (M2.mul x y) = toM x * toM y := by
  apply mat_ext <;> simp [toM, M2.mul, Matrix.mul_apply, Fin.sum_univ_two]
@[simp] theorem toM_smulC (z : Cx ℝ) (x : M2) : toM (M2.smulC z x) = toC z • toM x := by
  apply mat_ext <;> simp [toM, M2.smulC]
@[simp] theorem toM_smulR (r : ℝ) (x : M2) : toM (M2.smulR r x) = (r : ℂ) • toM x := by
  apply mat_ext <;> simp [toM, M2.smulR]

end Gep.R.Evol

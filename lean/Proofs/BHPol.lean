/-
  Proofs/BHPol.lean — helper lemmas for C01, polarised target: the generated BM10ex.TBH2LP (BKM Eqs. 38–39) equals the
  trace-reduced reference `BHRef.pol` (Gen/BHRefR.lean) for the longitudinal spin four-vector S_L = (0,0,0,1)
  (z-axis opposite to the virtual photon), proved per form-factor structure, (F1+F2)² and (F1+F2)F2, with the
  propagator powers cleared, then assembled.
-/
import Proofs.BHUnp

set_option linter.unusedSimpArgs false
set_option linter.unusedVariables false

namespace Gep.R.BH
open Gep.R

noncomputable section

/-- BKM Eqs. (38), (39) summed with the harmonic (`kap` = K cos φ), without the common factor
    λ·√(1+ε²)/(1 − t/4M²), as a linear function of the products FMFM = FM², FMFE = FM·FE -/
def codeLP (xB Q2 t y e M2 kap FMFM FMFE : ℝ) : ℝ :=
  8 * xB * (2 - y) * y *
      (0.5 * ((xB / 2) * (1 - t / Q2) - t / (4 * M2)) *
          (2 - xB - 2 * (1 - xB) ^ 2 * t / Q2 + e * (1 - t / Q2) - xB * (1 - 2 * xB) * t ^ 2 / Q2 ^ 2) * FMFM +
        (1 - (1 - xB) * t / Q2) * ((xB ^ 2 * M2 / t) * (1 + t / Q2) ^ 2 + (1 - xB) * (1 + xB * t / Q2)) * FMFE) +
  -8 * xB * y * kap *
      ((t / (2 * M2) - xB * (1 - t / Q2)) * (1 - xB + xB * t / Q2) * FMFM +
        (1 + xB - (3 - 2 * xB) * (1 + xB * t / Q2) - 4 * xB ^ 2 * M2 / t * (1 + t ^ 2 / Q2 ^ 2)) * FMFE)

set_option maxRecDepth 20000 in
theorem lp_core_X (xB Q2 t y e P1 : ℝ) (hx : xB ≠ 0) (hQ : Q2 ≠ 0) (ht : t ≠ 0) (hy : y ≠ 0) (he : e ≠ 0) :
    let M2 := e * Q2 / (4 * xB ^ 2)
    let P2 := 1 + t / Q2 - P1
    let kap := -(y * (1 + e) * P1 + Jr Q2 xB t y e) / 2
    let a := Q2 / 2
    let d := Q2 * (P1 - 1) / 2
    let u := Q2 / (xB * y) + d
    let up := u - Q2 / xB - (t - Q2) / 2
    let σk := Q2 / (2 * xB * y) * (1 + y * e / 2)
    let σk' := σk - Q2 / (2 * xB) * (1 + e)
    let σD := -(((t - Q2) / 2 + Q2 * t / (4 * M2 * xB)) * (2 * M2 * xB / Q2))
    (BHRef.polX_AA a d u up t M2 σk σk' σD * P1 ^ 2 + BHRef.polX_BB a d u up t M2 σk σk' σD * P2 ^ 2 +
          BHRef.polX_AB a d u up t M2 σk σk' σD * (P1 * P2)) * (xB ^ 2 * y ^ 2 * (1 + e)) * (1 - t / (4 * M2)) =
      (codeLP xB Q2 t y e M2 kap 1 0 + codeLP xB Q2 t y e M2 kap 0 1) * (t * Q2 ^ 2 * (P1 * P2)) := by
  intro M2 P2 kap a d u up σk σk' σD
  simp only [BHRef.polX_AA, BHRef.polX_BB, BHRef.polX_AB, BHRef.polX_AA_k, BHRef.polX_AA_kp, BHRef.polX_AA_D,
    BHRef.polX_BB_k, BHRef.polX_BB_kp, BHRef.polX_BB_D, BHRef.polX_AB_k, BHRef.polX_AB_kp, BHRef.polX_AB_D,
    codeLP, Jr, M2, P2, kap, a, d, u, up, σk, σk', σD]
  field_simp
  ring
set_option maxRecDepth 20000 in
theorem lp_core_Y (xB Q2 t y e P1 : ℝ) (hx : xB ≠ 0) (hQ : Q2 ≠ 0) (ht : t ≠ 0) (hy : y ≠ 0) (he : e ≠ 0) :
    let M2 := e * Q2 / (4 * xB ^ 2)
    let P2 := 1 + t / Q2 - P1
    let kap := -(y * (1 + e) * P1 + Jr Q2 xB t y e) / 2
    let a := Q2 / 2
    let d := Q2 * (P1 - 1) / 2
    let u := Q2 / (xB * y) + d
    let up := u - Q2 / xB - (t - Q2) / 2
    let σk := Q2 / (2 * xB * y) * (1 + y * e / 2)
    let σk' := σk - Q2 / (2 * xB) * (1 + e)
    let σD := -(((t - Q2) / 2 + Q2 * t / (4 * M2 * xB)) * (2 * M2 * xB / Q2))
    (BHRef.polY_AA a d u up t M2 σk σk' σD * P1 ^ 2 + BHRef.polY_BB a d u up t M2 σk σk' σD * P2 ^ 2 +
          BHRef.polY_AB a d u up t M2 σk σk' σD * (P1 * P2)) / M2 * (xB ^ 2 * y ^ 2 * (1 + e)) =
      -(codeLP xB Q2 t y e M2 kap 0 1) * (t * Q2 ^ 2 * (P1 * P2)) := by
  intro M2 P2 kap a d u up σk σk' σD
  simp only [BHRef.polY_AA, BHRef.polY_BB, BHRef.polY_AB, BHRef.polY_AA_k, BHRef.polY_AA_kp, BHRef.polY_AA_D,
    BHRef.polY_BB_k, BHRef.polY_BB_kp, BHRef.polY_BB_D, BHRef.polY_AB_k, BHRef.polY_AB_kp, BHRef.polY_AB_D,
    codeLP, Jr, M2, P2, kap, a, d, u, up, σk, σk', σD]
  field_simp
  ring

theorem codeLP_linear (xB Q2 t y e M2 kap A B : ℝ) :
    codeLP xB Q2 t y e M2 kap A B = A * codeLP xB Q2 t y e M2 kap 1 0 + B * codeLP xB Q2 t y e M2 kap 0 1 := by
  unfold codeLP; ring

/-- the reference is linear in the spin products: a common factor 1/(M r) comes out -/
theorem pol_scale (a d u up t M r F1 F2 σk σk' σD : ℝ) (hM : M ≠ 0) (hr : r ≠ 0) (ht : t ≠ 0) :
    BHRef.pol a d u up t M F1 F2 (σk / (M * r)) (σk' / (M * r)) (σD / (M * r)) =
      ((F1 + F2) ^ 2 * BHRef.polX a d u up t (M ^ 2) σk σk' σD +
        (F1 + F2) * F2 * BHRef.polY a d u up t (M ^ 2) σk σk' σD / M ^ 2) / t ^ 2 / r := by
  simp only [BHRef.pol, BHRef.polX, BHRef.polY, BHRef.polX_AA, BHRef.polX_BB, BHRef.polX_AB, BHRef.polY_AA,
    BHRef.polY_BB, BHRef.polY_AB]
  field_simp

theorem lp_real0 (xB Q2 t y e P1 F1 F2 : ℝ) (hx : xB ≠ 0) (hQ : Q2 ≠ 0) (ht : t ≠ 0) (hy : y ≠ 0) (he : e ≠ 0)
    (he1 : 1 + e ≠ 0) (hP1 : P1 ≠ 0) (hP2 : 1 + t / Q2 - P1 ≠ 0) (hκ : 1 - t / (4 * (e * Q2 / (4 * xB ^ 2))) ≠ 0) :
    let M2 := e * Q2 / (4 * xB ^ 2)
    let P2 := 1 + t / Q2 - P1
    let kap := -(y * (1 + e) * P1 + Jr Q2 xB t y e) / 2
    let a := Q2 / 2
    let d := Q2 * (P1 - 1) / 2
    let u := Q2 / (xB * y) + d
    let up := u - Q2 / xB - (t - Q2) / 2
    let σk := Q2 / (2 * xB * y) * (1 + y * e / 2)
    let σk' := σk - Q2 / (2 * xB) * (1 + e)
    let σD := -(((t - Q2) / 2 + Q2 * t / (4 * M2 * xB)) * (2 * M2 * xB / Q2))
    ((F1 + F2) ^ 2 * BHRef.polX a d u up t M2 σk σk' σD + (F1 + F2) * F2 * BHRef.polY a d u up t M2 σk σk' σD / M2) / t ^ 2 =
      (1 + e) * (codeLP xB Q2 t y e M2 kap ((F1 + F2) ^ 2) ((F1 + F2) * (F1 + t * F2 / (4 * M2))) / (1 - t / (4 * M2)) /
        (xB ^ 2 * y ^ 2 * (1 + e) ^ 2 * t * (P1 * P2))) := by
  intro M2 P2 kap a d u up σk σk' σD
  have hX := lp_core_X xB Q2 t y e P1 hx hQ ht hy he
  have hY := lp_core_Y xB Q2 t y e P1 hx hQ ht hy he
  simp only [] at hX hY
  rw [codeLP_linear]
  have hia : t - 2 * d = Q2 * P2 := by simp only [d, P2]; field_simp; ring
  have hib : 2 * a + 2 * d = Q2 * P1 := by simp only [d, a]; ring
  simp only [BHRef.polX, BHRef.polY, BHRef.ia, BHRef.ib, hia, hib]
  have hFE : F1 + t * F2 / (4 * M2) = (F1 + F2) - F2 * (1 - t / (4 * M2)) := by ring
  rw [hFE]
  change _ = _ at hX
  generalize BHRef.polX_AA a d u up t M2 σk σk' σD = xAA at hX ⊢
  generalize BHRef.polX_BB a d u up t M2 σk σk' σD = xBB at hX ⊢
  generalize BHRef.polX_AB a d u up t M2 σk σk' σD = xAB at hX ⊢
  generalize BHRef.polY_AA a d u up t M2 σk σk' σD = yAA at hY ⊢
  generalize BHRef.polY_BB a d u up t M2 σk σk' σD = yBB at hY ⊢
  generalize BHRef.polY_AB a d u up t M2 σk σk' σD = yAB at hY ⊢
  generalize codeLP xB Q2 t y e M2 kap 1 0 = cMM at hX ⊢
  generalize codeLP xB Q2 t y e M2 kap 0 1 = cME at hX hY ⊢
  generalize hG : F1 + F2 = G
  have hP2' : P2 ≠ 0 := hP2
  have hP2def : 1 + t / Q2 - P1 = P2 := rfl
  simp only [hP2def] at hX hY
  clear_value P2
  simp only [M2] at hX hY ⊢
  generalize 1 - t / (4 * (e * Q2 / (4 * xB ^ 2))) = κ at hX hκ ⊢
  field_simp
  field_simp at hX hY
  linear_combination (G ^ 2 * Q2 * e) * hX + (G * F2 * κ) * hY

/-! ### the generated code in the `codeLP` form -/

theorem TBH2LP_code (c : Consts) (m : CFFs) (pt : Pt) :
    BM10ex.TBH2LP c m pt =
      pt.in1polarization * (ksqrt (1 + pt.eps2) *
        (codeLP pt.xB pt.Q2 pt.t pt.y pt.eps2 c.Mp2 (pt.K_ * kcos pt.phi) ((m.F1 + m.F2) ^ 2)
            ((m.F1 + m.F2) * (m.F1 + pt.t * m.F2 / (4 * c.Mp2))) / (1 - pt.t / (4 * c.Mp2)) /
          (pt.xB ^ 2 * pt.y ^ 2 * (1 + pt.eps2) ^ 2 * pt.t * pt.P1P2))) := by
  bridge_simp [BM10ex.TBH2LP, BMK.PreFacBH, BM10ex.cBH0LP, BM10ex.cBH1LP, codeLP, one_mul]

/-- longitudinal target spin: along +z, i.e. opposite to the virtual-photon momentum (BMK convention) -/
def SL : V4 := ⟨0, 0, 0, 1⟩

theorem frame_LP_dots {M xB Q2 t y r sl pT cphi sphi : ℝ} (h : Phys M xB Q2 t y r sl pT cphi sphi) :
    let f := frameOf M xB Q2 t y r sl pT cphi sphi
    let e := 4 * xB ^ 2 * M ^ 2 / Q2
    let σk := Q2 / (2 * xB * y) * (1 + y * e / 2)
    SL.dot f.k = σk / (M * r) ∧ SL.dot f.k' = (σk - Q2 / (2 * xB) * (1 + e)) / (M * r) ∧
      SL.dot f.Δ = -(((t - Q2) / 2 + Q2 * t / (4 * M ^ 2 * xB)) * (2 * M ^ 2 * xB / Q2)) / (M * r) ∧
      SL.dot f.p1 = 0 ∧ SL.sq = -1 := by
  intro f e σk
  have hM := h.hM.ne'; have hx := h.hx.ne'; have hQ := h.hQ.ne'; have hy := h.hy.ne'; have hr := h.hr.ne'
  have hr2 : r ^ 2 * Q2 = Q2 + 4 * xB ^ 2 * M ^ 2 := by rw [h.hr2]; field_simp
  simp only [f, e, σk, frameOf, SL, Frame.k, Frame.k', Frame.q, Frame.Δ, Frame.p1, Frame.p2, V4.dot, V4.sq, V4.sub,
    zero_mul, mul_zero, sub_zero, zero_sub, one_mul, mul_one]
  refine ⟨?_, ?_, ?_, ?_, ?_⟩
  · field_simp
  · field_simp
    linear_combination (-2 * y) * hr2
  · field_simp
    ring
  · norm_num
  · norm_num

/-- longitudinally polarised target: generated code = helicity × trace-reduced reference on the frame's vectors -/
theorem TBH2LP_eq_ref (c : Consts) (m : CFFs) (pt : Pt) {M r sl pT : ℝ}
    (h : Phys M pt.xB pt.Q2 pt.t pt.y r sl pT (kcos pt.phi) (ksin pt.phi))
    (hM2 : c.Mp2 = M ^ 2) (he : pt.eps2 = 4 * pt.xB ^ 2 * M ^ 2 / pt.Q2)
    (hK2 : pt.K2 = K2 c pt.Q2 pt.xB pt.t pt.y pt.eps2) (hK : pt.K_ = ksqrt pt.K2) (hP : pt.P1P2 = P1P2 c pt)
    (hP1 : (frameOf M pt.xB pt.Q2 pt.t pt.y r sl pT (kcos pt.phi) (ksin pt.phi)).P1 pt.Q2 ≠ 0)
    (hP2 : (frameOf M pt.xB pt.Q2 pt.t pt.y r sl pT (kcos pt.phi) (ksin pt.phi)).P2 pt.Q2 ≠ 0) :
    let f := frameOf M pt.xB pt.Q2 pt.t pt.y r sl pT (kcos pt.phi) (ksin pt.phi)
    BM10ex.TBH2LP c m pt = pt.in1polarization *
      BHRef.pol (f.k.dot f.k') (f.k.dot f.Δ) (f.k.dot f.P) (f.k'.dot f.P) pt.t M m.F1 m.F2
        (SL.dot f.k) (SL.dot f.k') (SL.dot f.Δ) := by
  intro f
  obtain ⟨hd1, hd2, hd3, hd4⟩ := frame_dots h
  obtain ⟨hs1, hs2, hs3, -, -⟩ := frame_LP_dots h
  have hM := h.hM; have hx := h.hx; have hQ := h.hQ; have hy := h.hy; have ht := h.ht; have hr := h.hr
  have he0 : 0 < pt.eps2 := by rw [he]; positivity
  have hr2 : r ^ 2 = 1 + pt.eps2 := by rw [he]; exact h.hr2
  have hrs : ksqrt (1 + pt.eps2) = r := by rw [← hr2]; exact ksqrt_of_sq hr.le
  -- propagators
  have hP1c := frame_P1code c pt h he
  have hPP := frame_P1P2 c pt h he
  simp only [] at hPP
  have hsum : f.P2 pt.Q2 = 1 + pt.t / pt.Q2 - f.P1 pt.Q2 := by
    obtain ⟨hk, hk', hq, -, -, hΔ, hq2, -, -⟩ := frame_invariants M pt.xB pt.Q2 pt.t pt.y r sl pT (kcos pt.phi)
      (ksin pt.phi) hM.ne' hx.ne' hQ.ne' hy.ne' h.hr.ne' h.hr2 h.hsl h.hpT h.hcs
    linear_combination P1_add_P2 f pt.Q2 pt.t hQ.ne' hk hk' hq hΔ hq2
  have hkap : pt.K_ * kcos pt.phi = -(pt.y * (1 + pt.eps2) * f.P1 pt.Q2 + Jr pt.Q2 pt.xB pt.t pt.y pt.eps2) / 2 := by
    rw [hP1c, P1code, ← hK2, ← hK]
    have : Jr pt.Q2 pt.xB pt.t pt.y pt.eps2 = J c pt.Q2 pt.xB pt.t pt.y pt.eps2 := (J_eq c _ _ _ _ _).symm
    rw [this]
    have hye : pt.y * (1 + pt.eps2) ≠ 0 := by positivity
    field_simp
    ring
  have hM2' : pt.eps2 * pt.Q2 / (4 * pt.xB ^ 2) = M ^ 2 := by rw [he]; field_simp
  have hκ : 1 - pt.t / (4 * (pt.eps2 * pt.Q2 / (4 * pt.xB ^ 2))) ≠ 0 := by
    rw [hM2']
    have : 0 < -pt.t / (4 * M ^ 2) := by have := neg_pos.mpr ht; positivity
    intro h0; rw [neg_div] at this; linarith
  have hreal := lp_real0 pt.xB pt.Q2 pt.t pt.y pt.eps2 (f.P1 pt.Q2) m.F1 m.F2 hx.ne' hQ.ne' ht.ne hy.ne' he0.ne'
    (by positivity) hP1 (by rw [← hsum]; exact hP2) hκ
  simp only [] at hreal
  rw [hM2'] at hreal
  rw [TBH2LP_code, hd1, hd2, hd3, hd2, hd4, hd3, hd2, hs1, hs2, hs3, ← he,
    pol_scale _ _ _ _ _ M r _ _ _ _ _ hM.ne' hr.ne' ht.ne, hreal, hP, hPP, hsum, hkap, hM2, hrs]
  have key : ∀ C : ℝ, pt.in1polarization * (r * C) = pt.in1polarization * ((1 + pt.eps2) * C / r) := by
    intro C; rw [← hr2]; field_simp
  exact key _

end

end Gep.R.BH

/-
  Proofs/DataFile.lean — lemmas about the tokenizer of Model/DataFile.lean (for Props/C09.lean).
-/
import Model.DataFile
import Mathlib.Data.List.Basic
import Mathlib.Tactic.Linarith

namespace Gep.DF

/-- run the automaton -/
def run (st : St) (w : List Char) : St := w.foldl step st

/-- a well-formed number token: the whole string is accepted by the NUM automaton -/
def IsTok (w : List Char) : Prop := accepting (run .s0 w) = true

instance (w : List Char) : Decidable (IsTok w) := by unfold IsTok; infer_instance

@[simp] theorem run_nil (st : St) : run st [] = st := rfl
@[simp] theorem run_cons (st : St) (c : Char) (w : List Char) : run st (c :: w) = run (step st c) w := rfl

theorem run_dead (w : List Char) : run .dead w = .dead := by
  induction w with
  | nil => rfl
  | cons c w ih => simpa [step] using ih

theorem not_accepting_dead : accepting .dead = false := rfl

/-- a separator or a comment sign kills the automaton in every state -/
def Stops (c : Char) : Prop := ∀ st, step st c = .dead

theorem stops_of_not_numchar (c : Char) (h1 : isDigit c = false) (h2 : isSign c = false)
    (h3 : isE c = false) (h4 : (c == '.') = false) : Stops c := by
  intro st; cases st <;> simp [step, h1, h2, h3, h4]

theorem stops_space : Stops ' ' := stops_of_not_numchar _ (by decide) (by decide) (by decide) (by decide)
theorem stops_tab : Stops '\t' := stops_of_not_numchar _ (by decide) (by decide) (by decide) (by decide)
theorem stops_cr : Stops '\r' := stops_of_not_numchar _ (by decide) (by decide) (by decide) (by decide)
theorem stops_hash : Stops '#' := stops_of_not_numchar _ (by decide) (by decide) (by decide) (by decide)

theorem stops_of_isSep {c : Char} (h : isSep c = true) : Stops c := by
  unfold isSep at h
  simp only [Bool.or_eq_true, beq_iff_eq] at h
  rcases h with (rfl | rfl) | rfl
  · exact stops_space
  · exact stops_tab
  · exact stops_cr

/-- main tokenizer lemma: an accepted string followed by a stopping character (or by the end
    of the line) is the longest NUM-prefix -/
theorem longest_tok (st : St) (w : List Char) (n : Nat) (best : Option Nat) (hw : w ≠ [])
    (hacc : accepting (run st w) = true) (tail : List Char)
    (htail : tail = [] ∨ ∃ c r, tail = c :: r ∧ Stops c) :
    longest st (w ++ tail) n best = some (n + w.length) := by
  induction w generalizing st n best with
  | nil => exact absurd rfl hw
  | cons a w ih =>
    simp only [List.cons_append, longest]
    have halive : step st a ≠ .dead := by
      intro h; rw [run_cons, h, run_dead] at hacc; simp [accepting] at hacc
    simp only [halive, if_false]
    by_cases hwn : w = []
    · subst hwn
      simp only [run_cons, run_nil] at hacc
      simp only [hacc, if_true, List.nil_append, List.length_cons, List.length_nil]
      rcases htail with rfl | ⟨c, r, rfl, hc⟩
      · simp [longest]
      · simp [longest, hc (step st a)]
    · rw [ih (step st a) (n + 1) _ hwn (by simpa using hacc)]
      simp only [List.length_cons]; congr 1; omega

theorem longestNum_tok (w tail : List Char) (hw : IsTok w)
    (htail : tail = [] ∨ ∃ c r, tail = c :: r ∧ Stops c) : longestNum (w ++ tail) = some w.length := by
  have hne : w ≠ [] := by rintro rfl; simp [IsTok, accepting] at hw
  unfold longestNum
  rw [longest_tok .s0 w 0 none hne hw tail htail]; simp

theorem longestNum_stop (c : Char) (r : List Char) (hc : Stops c) : longestNum (c :: r) = none := by
  simp [longestNum, longest, hc .s0]

/-! ### findall on a rendered row -/

/-- a separator run: blanks, tabs (and carriage returns) -/
def IsSepRun (s : List Char) : Prop := ∀ c ∈ s, isSep c = true

theorem findallAux_seps (fuel : Nat) (s rest : List Char) (hs : IsSepRun s) (hf : s.length ≤ fuel) :
    findallAux fuel (s ++ rest) = findallAux (fuel - s.length) rest := by
  induction s generalizing fuel with
  | nil => simp
  | cons c s ih =>
    cases fuel with
    | zero => simp at hf
    | succ f =>
      have hc : Stops c := stops_of_isSep (hs c (by simp))
      simp only [List.cons_append, findallAux, longestNum_stop c _ hc]
      rw [ih f (fun d hd => hs d (by simp [hd])) (by simpa using hf)]
      simp

theorem findallAux_tok (fuel : Nat) (w tail : List Char) (hw : IsTok w)
    (htail : tail = [] ∨ ∃ c r, tail = c :: r ∧ Stops c) :
    findallAux (fuel + 1) (w ++ tail) = w :: findallAux fuel tail := by
  have hne : w ≠ [] := by rintro rfl; simp [IsTok, accepting] at hw
  obtain ⟨a, w', rfl⟩ := List.exists_cons_of_ne_nil hne
  simp only [List.cons_append, findallAux]
  have := longestNum_tok (a :: w') tail hw htail
  simp only [List.cons_append] at this
  rw [this]
  simp

/-- a rendered grid row: leading separators, then tokens each followed by a separator run
    (non-empty except possibly after the last token) -/
def renderRow : List (List Char × List Char) → List Char
  | [] => []
  | (w, s) :: r => w ++ s ++ renderRow r

def RowOk : List (List Char × List Char) → Prop
  | [] => True
  | [(w, s)] => IsTok w ∧ IsSepRun s
  | (w, s) :: r => IsTok w ∧ IsSepRun s ∧ s ≠ [] ∧ RowOk r

theorem renderRow_tail_ok (row : List (List Char × List Char)) (h : RowOk row) (rest : List Char)
    (hrest : rest = [] ∨ ∃ c r, rest = c :: r ∧ Stops c) :
    renderRow row ++ rest = [] ∨ ∃ c r, renderRow row ++ rest = c :: r ∧ (Stops c ∨ row ≠ []) := by
  cases row with
  | nil =>
    rcases hrest with rfl | ⟨c, r, rfl, hc⟩
    · left; rfl
    · right; exact ⟨c, r, rfl, Or.inl hc⟩
  | cons p r =>
    right
    obtain ⟨w, s⟩ := p
    have hw : IsTok w := by cases r <;> simp [RowOk] at h <;> exact h.1
    have hne : w ≠ [] := by rintro rfl; simp [IsTok, accepting] at hw
    obtain ⟨a, w', rfl⟩ := List.exists_cons_of_ne_nil hne
    exact ⟨a, w' ++ s ++ renderRow r ++ rest, by simp [renderRow], Or.inr (by simp)⟩

theorem findallAux_row (row : List (List Char × List Char)) (h : RowOk row) (rest : List Char)
    (hrest : rest = [] ∨ ∃ c r, rest = c :: r ∧ Stops c)
    (fuel : Nat) (hf : (renderRow row ++ rest).length < fuel) :
    ∃ fuel', rest.length < fuel' ∧
      findallAux fuel (renderRow row ++ rest) = row.map (·.1) ++ findallAux fuel' rest := by
  induction row generalizing fuel with
  | nil => exact ⟨fuel, by simpa [renderRow] using hf, by simp [renderRow]⟩
  | cons p r ih =>
    obtain ⟨w, s⟩ := p
    have hw : IsTok w := by cases r <;> simp [RowOk] at h <;> exact h.1
    have hne : w ≠ [] := by rintro rfl; simp [IsTok, accepting] at hw
    have hwl : 0 < w.length := List.length_pos_of_ne_nil hne
    have hs : IsSepRun s := by
      cases r with
      | nil => simp [RowOk] at h; exact h.2
      | cons q r' => simp [RowOk] at h; exact h.2.1
    have hr : RowOk r := by
      cases r with
      | nil => trivial
      | cons q r' => simp [RowOk] at h; exact h.2.2.2
    obtain ⟨f, rfl⟩ : ∃ f, fuel = f + 1 := ⟨fuel - 1, by omega⟩
    simp only [renderRow, List.append_assoc, List.map_cons]
    have htail : (s ++ (renderRow r ++ rest)) = [] ∨
        ∃ c r', (s ++ (renderRow r ++ rest)) = c :: r' ∧ Stops c := by
      cases s with
      | nil =>
        cases r with
        | nil => simpa [renderRow] using hrest
        | cons q r' => simp [RowOk] at h
      | cons c s' => right; exact ⟨c, _, rfl, stops_of_isSep (hs c (by simp))⟩
    rw [findallAux_tok f w _ hw htail]
    simp only [List.length_append, renderRow] at hf
    rw [findallAux_seps f s _ hs (by omega)]
    obtain ⟨f', hf', heq⟩ := ih hr (f - s.length) (by simp only [List.length_append]; omega)
    exact ⟨f', hf', by rw [heq]; simp⟩

theorem findallAux_nil (fuel : Nat) : findallAux fuel [] = [] := by cases fuel <;> rfl

/-- `re.findall(NUM, line)` on a rendered row (optionally followed by a comment or any text that
    starts with a stopping character) returns exactly the tokens, in order -/
theorem findall_row (lead : List Char) (row : List (List Char × List Char)) (hl : IsSepRun lead)
    (h : RowOk row) : findall (lead ++ renderRow row) = row.map (·.1) := by
  unfold findall
  rw [findallAux_seps _ lead _ hl (by simp; omega)]
  obtain ⟨f', _, heq⟩ := findallAux_row row h [] (Or.inl rfl)
    ((lead ++ renderRow row).length + 1 - lead.length) (by simp; omega)
  simp only [List.append_nil] at heq
  rw [heq, findallAux_nil]; simp

/-! ### grid-line detection, comments -/

theorem run_append (st : St) (u v : List Char) : run st (u ++ v) = run (run st u) v := by
  simp [run, List.foldl_append]

theorem tok_no_stop {w : List Char} (hw : IsTok w) : ∀ c ∈ w, ¬ Stops c := by
  intro c hc hstop
  obtain ⟨u, v, rfl⟩ := List.append_of_mem hc
  unfold IsTok at hw
  rw [run_append, run_cons, hstop, run_dead] at hw
  simp [accepting] at hw

theorem stops_eq : Stops '=' := stops_of_not_numchar _ (by decide) (by decide) (by decide) (by decide)

theorem sepAfterNum_tok (st : St) (w : List Char) (hne : w ≠ []) (hacc : accepting (run st w) = true)
    (c : Char) (hc : isSep c = true) (rest : List Char) :
    sepAfterNum st (w ++ c :: rest) = true := by
  induction w generalizing st with
  | nil => exact absurd rfl hne
  | cons a w ih =>
    have halive : step st a ≠ .dead := by
      intro h; rw [run_cons, h, run_dead] at hacc; simp [accepting] at hacc
    simp only [List.cons_append, sepAfterNum, halive, if_false]
    by_cases hwn : w = []
    · subst hwn
      simp only [run_cons, run_nil] at hacc
      simp [hacc, hc]
    · rw [ih (step st a) hwn (by simpa using hacc)]; simp

theorem isBlank_isSep {c : Char} (h : isBlank c = true) : isSep c = true := by
  unfold isBlank at h; unfold isSep
  simp only [Bool.or_eq_true, beq_iff_eq] at h ⊢
  rcases h with rfl | rfl <;> simp

theorem tok_head_not_blank {a : Char} {w : List Char} (hw : IsTok (a :: w)) : isBlank a = false := by
  by_contra h
  have h' : isBlank a = true := by simpa using h
  exact tok_no_stop hw a (by simp) (stops_of_isSep (isBlank_isSep h'))

/-- a line that starts (after blanks) with a number followed by a separator is a grid line -/
theorem isGridLine_row (lead w : List Char) (c : Char) (rest : List Char)
    (hl : ∀ d ∈ lead, isBlank d = true) (hw : IsTok w) (hc : isSep c = true) :
    isGridLine (lead ++ w ++ c :: rest) = true := by
  have hne : w ≠ [] := by rintro rfl; simp [IsTok, accepting] at hw
  obtain ⟨a, w', rfl⟩ := List.exists_cons_of_ne_nil hne
  unfold isGridLine
  have hdrop : (lead ++ (a :: w') ++ c :: rest).dropWhile isBlank = (a :: w') ++ c :: rest := by
    rw [List.append_assoc, List.dropWhile_append_of_pos hl]
    simp [tok_head_not_blank hw]
  rw [hdrop]
  exact sepAfterNum_tok .s0 (a :: w') (by simp) hw c hc rest

theorem stripComment_append (body x : List Char) (hb : ∀ c ∈ body, c ≠ '#') :
    stripComment (body ++ '#' :: x) = body := by
  unfold stripComment
  rw [List.takeWhile_append_of_pos (by intro c hc; simpa using hb c hc)]
  simp

theorem stripComment_none (body : List Char) (hb : ∀ c ∈ body, c ≠ '#') : stripComment body = body := by
  unfold stripComment
  induction body with
  | nil => rfl
  | cons a r ih =>
    have : (a != '#') = true := by simpa using hb a (by simp)
    simp only [List.takeWhile_cons, this, if_true, ih (fun c hc => hb c (by simp [hc]))]

theorem sep_not_hash_eq {c : Char} (h : isSep c = true) : c ≠ '#' ∧ c ≠ '=' := by
  unfold isSep at h
  simp only [Bool.or_eq_true, beq_iff_eq] at h
  rcases h with (rfl | rfl) | rfl <;> decide

theorem renderRow_chars (row : List (List Char × List Char)) (h : RowOk row) :
    ∀ c ∈ renderRow row, c ≠ '#' ∧ c ≠ '=' := by
  induction row with
  | nil => simp [renderRow]
  | cons p r ih =>
    obtain ⟨w, s⟩ := p
    have hw : IsTok w := by cases r <;> simp [RowOk] at h <;> exact h.1
    have hs : IsSepRun s := by
      cases r with
      | nil => simp [RowOk] at h; exact h.2
      | cons q r' => simp [RowOk] at h; exact h.2.1
    have hr : RowOk r := by
      cases r with
      | nil => trivial
      | cons q r' => simp [RowOk] at h; exact h.2.2.2
    intro c hc
    simp only [renderRow, List.mem_append] at hc
    rcases hc with (hc | hc) | hc
    · constructor
      · rintro rfl; exact tok_no_stop hw _ hc stops_hash
      · rintro rfl; exact tok_no_stop hw _ hc stops_eq
    · exact sep_not_hash_eq (hs c hc)
    · exact ih hr c hc

end Gep.DF

/-! ### value of a literal -/
namespace Gep.DF

theorem takeWhile_digits (ds r : List Char) (hd : ∀ c ∈ ds, isDigit c = true)
    (hr : r = [] ∨ ∃ c r', r = c :: r' ∧ isDigit c = false) :
    (ds ++ r).takeWhile isDigit = ds ∧ (ds ++ r).dropWhile isDigit = r := by
  induction ds with
  | nil =>
    rcases hr with rfl | ⟨c, r', rfl, hc⟩
    · simp
    · simp [List.takeWhile_cons, List.dropWhile_cons, hc]
  | cons a ds ih =>
    have ha : isDigit a = true := hd a (by simp)
    have := ih (fun c hc => hd c (by simp [hc]))
    simp [List.takeWhile_cons, List.dropWhile_cons, ha, this.1, this.2]

/-- a decimal literal in structured form: sign, integer digits, optional fraction, optional exponent -/
structure Lit where
  neg : Option Bool            -- some true = '-', some false = '+', none = no sign
  ip : List Char               -- integer digits
  fp : Option (List Char)      -- digits after the '.', if there is one
  ex : Option (Char × Option Bool × List Char)   -- exponent marker (e/E), sign, digits

def signChars : Option Bool → List Char
  | some true => ['-']
  | some false => ['+']
  | none => []

def fracChars : Option (List Char) → List Char
  | some f => '.' :: f
  | none => []

def expChars : Option (Char × Option Bool × List Char) → List Char
  | some (e, s, d) => e :: (signChars s ++ d)
  | none => []

def Lit.chars (l : Lit) : List Char :=
  signChars l.neg ++ (l.ip ++ (fracChars l.fp ++ expChars l.ex))

def Lit.Digits (l : Lit) : Prop :=
  (∀ c ∈ l.ip, isDigit c = true) ∧ (∀ f, l.fp = some f → ∀ c ∈ f, isDigit c = true) ∧
  (∀ e s d, l.ex = some (e, s, d) → isDigit e = false ∧ e ≠ '.' ∧ (∀ c ∈ d, isDigit c = true) ∧
    (s = none → ∃ c d', d = c :: d')) ∧
  (l.ip = [] → ∃ f, l.fp = some f)    -- after the sign comes a digit or the '.'

/-- the written exponent -/
def expVal : Option (Char × Option Bool × List Char) → Int
  | some (_, some true, d) => -(natOfDigits d : Int)
  | some (_, _, d) => (natOfDigits d : Int)
  | none => 0

/-- the decimal value the literal denotes: mantissa = all digits read as one number,
    exponent = written exponent − number of fraction digits -/
def Lit.value (l : Lit) : Dec :=
  { neg := l.neg == some true,
    mant := natOfDigits (l.ip ++ (l.fp.getD [])),
    exp := expVal l.ex - ((l.fp.getD []).length : Int) }

end Gep.DF

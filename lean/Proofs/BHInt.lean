/-
  Proofs/BHInt.lean — helper lemmas for C01: the analytic azimuthal integral of the Bethe–Heitler propagator
  product (`anintP1P2`) is the interval integral of the generated `P1P2`, hence ∫ weight_BH dφ = 2π.
-/
import Proofs.BHKin
import Mathlib.Analysis.SpecialFunctions.Integrals.Basic

namespace Gep.R.BH
open Gep.R Real intervalIntegral

/-- ∫₀^{2π} (a₀ + a₁ cos φ + a₂ cos² φ) dφ = 2π a₀ + π a₂ -/
theorem integral_quadratic_cos (a0 a1 a2 : ℝ) :
    ∫ φ in (0:ℝ)..(2 * π), (a0 + a1 * cos φ + a2 * cos φ ^ 2) = 2 * π * a0 + π * a2 := by
  have h1 : IntervalIntegrable (fun φ : ℝ => a0 + a1 * cos φ) MeasureTheory.volume 0 (2 * π) :=
    Continuous.intervalIntegrable (by fun_prop) _ _
  have h2 : IntervalIntegrable (fun φ : ℝ => a2 * cos φ ^ 2) MeasureTheory.volume 0 (2 * π) :=
    Continuous.intervalIntegrable (by fun_prop) _ _
  have h3 : IntervalIntegrable (fun _ : ℝ => a0) MeasureTheory.volume 0 (2 * π) :=
    Continuous.intervalIntegrable (by fun_prop) _ _
  have h4 : IntervalIntegrable (fun φ : ℝ => a1 * cos φ) MeasureTheory.volume 0 (2 * π) :=
    Continuous.intervalIntegrable (by fun_prop) _ _
  rw [integral_add h1 h2, integral_add h3 h4, integral_const, integral_const_mul, integral_const_mul,
    integral_cos, integral_cos_sq]
  simp [sin_two_pi, cos_two_pi]
  ring

/-- the generated `P1P2`, recomputed at azimuth φ, is a quadratic polynomial in cos φ -/
theorem P1P2_quadratic (c : Consts) (pt : Pt) (φ : ℝ) :
    P1P2 c { pt with phi := φ } =
      (let A := -(J c pt.Q2 pt.xB pt.t pt.y pt.eps2) / (pt.y * (1 + pt.eps2))
       let B := -(2 * ksqrt (K2 c pt.Q2 pt.xB pt.t pt.y pt.eps2)) / (pt.y * (1 + pt.eps2))
       let C := 1 + pt.t / pt.Q2
       A * (C - A) + B * (C - 2 * A) * cos φ + -(B ^ 2) * cos φ ^ 2) := by
  bridge_simp [P1P2, kcos]

/-- `anintP1P2` is the azimuthal integral of `P1P2` (the point's `K2` field being the value `prepare` stores) -/
theorem anintP1P2_eq_integral (c : Consts) (pt : Pt) (hK : pt.K2 = K2 c pt.Q2 pt.xB pt.t pt.y pt.eps2)
    (hK0 : 0 ≤ pt.K2) (hy : pt.y ≠ 0) (he : 1 + pt.eps2 ≠ 0) :
    ∫ φ in (0:ℝ)..(2 * π), P1P2 c { pt with phi := φ } = anintP1P2 c pt := by
  rw [show (fun φ : ℝ => P1P2 c { pt with phi := φ }) = _ from funext (P1P2_quadratic c pt)]
  simp only []
  rw [integral_quadratic_cos]
  have hs : ksqrt (K2 c pt.Q2 pt.xB pt.t pt.y pt.eps2) ^ 2 = pt.K2 := by rw [← hK]; exact ksqrt_sq hK0
  have hB : (-(2 * ksqrt (K2 c pt.Q2 pt.xB pt.t pt.y pt.eps2)) / (pt.y * (1 + pt.eps2))) ^ 2 =
      4 * pt.K2 / (pt.y * (1 + pt.eps2)) ^ 2 := by
    rw [div_pow, neg_sq, mul_pow, hs]; norm_num
  rw [hB]
  simp only [anintP1P2, J_eq, Jr, kpi]
  generalize pt.K2 = k2
  generalize pt.eps2 = e at he ⊢
  generalize pt.y = y at hy ⊢
  field_simp
  ring

/-- ∫₀^{2π} weight_BH dφ = 2π, the point being prepared (`kinematics.prepare`) at each φ -/
theorem weight_BH_integral (c : Consts) (pt : Pt) (hK0 : 0 ≤ (prepare c pt).K2) (hy : (prepare c pt).y ≠ 0)
    (he : 1 + (prepare c pt).eps2 ≠ 0) (hI : (prepare c pt).intP1P2 ≠ 0) :
    ∫ φ in (0:ℝ)..(2 * π), weight_BH c (prepare c { pt with phi := φ }) = 2 * π := by
  have hw : ∀ φ : ℝ, weight_BH c (prepare c { pt with phi := φ }) =
      (2 * π / (prepare c pt).intP1P2) * P1P2 c { (prepare c pt) with phi := φ } := by
    intro φ
    have h1 : (prepare c { pt with phi := φ }).intP1P2 = (prepare c pt).intP1P2 := rfl
    have h2 : (prepare c { pt with phi := φ }).P1P2 = P1P2 c { (prepare c pt) with phi := φ } := rfl
    bridge_simp [weight_BH, h1, h2, kpi]
  rw [show (fun φ : ℝ => weight_BH c (prepare c { pt with phi := φ })) = _ from funext hw, integral_const_mul,
    anintP1P2_eq_integral c (prepare c pt) rfl hK0 hy he]
  have h3 : anintP1P2 c (prepare c pt) = (prepare c pt).intP1P2 := rfl
  rw [h3]
  field_simp

end Gep.R.BH

/-
  Proofs/MroChain.lean — helper lemmas for property C20: which `__init__` methods run, and what
  the flattened trace consists of, for every arrangement `m` that is `Legit`.
-/
import Proofs.Mro
import Proofs.MroInit
import Mathlib.Tactic.Tauto

namespace Gep.Mro
open List

/-- steps contributed by the `__init__` of class `c` itself -/
def stepsOf (tbl : Table) (m : List Cls) (c : Cls) : List Step :=
  match initOf tbl c with
  | .absent => []
  | .object => [.objInit]
  | .unknown => [.unsupported c]
  | .evs pre _ post =>
    .push :: pre.flatMap (expand1 tbl m c) ++ post.flatMap (expand1 tbl m c) ++ [.pop]

/-- the classes whose `__init__` is entered, in order -/
def exe (tbl : Table) : List Cls → List Cls
  | [] => []
  | c :: rest =>
    match initOf tbl c with
    | .absent => exe tbl rest
    | .object => [c]
    | .unknown => [c]
    | .evs _ sup _ => c :: (if sup then exe tbl rest else [])

theorem mem_chainTrace {tbl : Table} {m : List Cls} {st : Step} : ∀ {rest : List Cls},
    st ∈ chainTrace tbl m rest ↔ ∃ c ∈ exe tbl rest, st ∈ stepsOf tbl m c := by
  intro rest
  induction rest with
  | nil => simp [chainTrace, exe]
  | cons c rest ih =>
    cases h : initOf tbl c with
    | absent =>
      simp only [chainTrace, exe, h]
      exact ih
    | object =>
      simp only [chainTrace, exe, h, List.mem_singleton, exists_eq_left, stepsOf]
    | unknown =>
      simp only [chainTrace, exe, h, List.mem_singleton, exists_eq_left, stepsOf]
    | evs pre sup post =>
      simp only [chainTrace, exe, h]
      cases sup with
      | false =>
        simp only [Bool.false_eq_true, if_false, List.append_nil, List.mem_singleton,
          exists_eq_left, stepsOf, h]
      | true =>
        have hs : stepsOf tbl m c = .push :: pre.flatMap (expand1 tbl m c)
            ++ post.flatMap (expand1 tbl m c) ++ [.pop] := by simp [stepsOf, h]
        simp only [if_true, List.mem_cons, exists_eq_or_imp, ← ih, hs, List.mem_append]
        tauto

theorem exe_subset {tbl : Table} {c : Cls} : ∀ {l : List Cls}, c ∈ exe tbl l → c ∈ l := by
  intro l
  induction l with
  | nil => simp [exe]
  | cons x rest ih =>
    intro h
    simp only [exe] at h
    split at h
    · exact List.mem_cons_of_mem _ (ih h)
    · simp only [List.mem_singleton] at h; subst h; exact List.mem_cons_self
    · simp only [List.mem_singleton] at h; subst h; exact List.mem_cons_self
    · rcases List.mem_cons.1 h with rfl | h
      · exact List.mem_cons_self
      · split at h
        · exact List.mem_cons_of_mem _ (ih h)
        · cases h

theorem exe_split {tbl : Table} {t : Cls} {B : List Cls} (ht : hasInit tbl t = true)
    (hts : callsSuper tbl t = false) : ∀ {A : List Cls},
    (∀ c ∈ A, hasInit tbl c = true → callsSuper tbl c = true) →
    exe tbl (A ++ t :: B) = A.filter (hasInit tbl) ++ [t] := by
  intro A
  induction A with
  | nil =>
    intro _
    simp only [List.nil_append, exe, List.filter_nil]
    unfold hasInit at ht
    unfold callsSuper at hts
    cases h : initOf tbl t with
    | absent => rw [h] at ht; simp at ht
    | object => rfl
    | unknown => rfl
    | evs pre sup post =>
      rw [h] at hts
      cases sup with
      | true => simp at hts
      | false => simp
  | cons c A' ih =>
    intro hA
    have ih' := ih (fun x hx => hA x (List.mem_cons_of_mem _ hx))
    have hc := hA c List.mem_cons_self
    simp only [List.cons_append, exe]
    unfold hasInit callsSuper at hc
    cases h : initOf tbl c with
    | absent =>
      have : hasInit tbl c = false := by simp [hasInit, h]
      simp only [List.filter_cons, this, ih']
      simp
    | object => rw [h] at hc; simp at hc
    | unknown => rw [h] at hc; simp at hc
    | evs pre sup post =>
      rw [h] at hc
      have : hasInit tbl c = true := by simp [hasInit, h]
      cases sup with
      | false => simp at hc
      | true => simp only [if_true, ih', List.filter_cons, this, List.cons_append]

/-- the chain condition of `checks`, unfolded -/
theorem checkChain_spec {tbl : Table} {u : Universe} (h : checkChain tbl u.mros u.U = true) :
    ∃ t ∈ u.U, hasInit tbl t = true ∧ callsSuper tbl t = false ∧
      ∀ c ∈ u.U, c = t ∨ hasInit tbl c = false ∨
        (callsSuper tbl c = true ∧ before u.mros c t = true) ∨ before u.mros t c = true := by
  unfold checkChain at h
  simp only [List.any_eq_true, Bool.and_eq_true, List.all_eq_true, Bool.or_eq_true,
    beq_iff_eq, Bool.not_eq_true'] at h
  obtain ⟨t, ht, ⟨⟨h1, h2⟩, h3⟩⟩ := h
  refine ⟨t, ht, h1, h2, ?_⟩
  intro c hc
  rcases h3 c hc with ((h | h) | h) | h
  · exact Or.inl h
  · exact Or.inr (Or.inl h)
  · exact Or.inr (Or.inr (Or.inl h))
  · exact Or.inr (Or.inr (Or.inr h))

/-- which `__init__` methods run does not depend on the arrangement -/
theorem exe_mem_iff {tbl : Table} {u : Universe} {m : List Cls} (hl : Legit u m) {t : Cls}
    (htU : t ∈ u.U) (ht : hasInit tbl t = true) (hts : callsSuper tbl t = false)
    (hall : ∀ c ∈ u.U, c = t ∨ hasInit tbl c = false ∨
        (callsSuper tbl c = true ∧ before u.mros c t = true) ∨ before u.mros t c = true)
    (c : Cls) :
    c ∈ exe tbl m ↔ c ∈ u.U ∧ hasInit tbl c = true ∧
      (c = t ∨ (callsSuper tbl c = true ∧ before u.mros c t = true)) := by
  obtain ⟨A, B, hAB⟩ := List.append_of_mem ((hl.mem t).2 htU)
  have hnd : (A ++ t :: B).Nodup := hAB ▸ hl.nodup
  have hdisj := List.nodup_append.1 hnd
  have hAt : ∀ x ∈ A, x ≠ t := fun x hx hxt => hdisj.2.2 x hx t List.mem_cons_self hxt
  have hAB' : ∀ x ∈ A, x ∉ B := fun x hx hxb =>
    hdisj.2.2 x hx x (List.mem_cons_of_mem _ hxb) rfl
  have hA : ∀ x ∈ A, hasInit tbl x = true →
      callsSuper tbl x = true ∧ before u.mros x t = true := by
    intro x hx hinit
    have hxm : x ∈ m := by rw [hAB]; exact List.mem_append_left _ hx
    rcases hall x ((hl.mem x).1 hxm) with h | h | h | h
    · exact absurd h (hAt x hx)
    · rw [hinit] at h; cases h
    · exact h
    · have hs := before_sublist hl h
      rw [hAB] at hs
      exact absurd (pair_sublist_right hnd hs) (hAB' x hx)
  rw [hAB, exe_split ht hts (fun x hx hi => (hA x hx hi).1)]
  simp only [List.mem_append, List.mem_filter, List.mem_singleton]
  constructor
  · rintro (⟨hcA, hci⟩ | rfl)
    · have hcm : c ∈ m := by rw [hAB]; exact List.mem_append_left _ hcA
      exact ⟨(hl.mem c).1 hcm, hci, Or.inr (hA c hcA hci)⟩
    · exact ⟨htU, ht, Or.inl rfl⟩
  · rintro ⟨hcU, hci, (rfl | ⟨hcs, hb⟩)⟩
    · exact Or.inr rfl
    · by_cases hct : c = t
      · exact Or.inr hct
      · have hs := before_sublist hl hb
        rw [hAB] at hs
        exact Or.inl ⟨pair_sublist_left hnd hs hct, hci⟩

/-! ### the steps of a class do not depend on the arrangement -/

theorem flatMap_congr' {α β : Type} {f g : α → List β} : ∀ {l : List α},
    (∀ x ∈ l, f x = g x) → l.flatMap f = l.flatMap g := by
  intro l
  induction l with
  | nil => intro _; rfl
  | cons a t ih =>
    intro h
    simp only [List.flatMap_cons]
    rw [h a List.mem_cons_self, ih (fun x hx => h x (List.mem_cons_of_mem _ hx))]

theorem expandMeth_eq {tbl : Table} {u : Universe} {m1 m2 : List Cls} (h1 : Legit u m1)
    (h2 : Legit u m2) (hn : checkNames tbl u.mros u.U = true) {meth key : Sym}
    (hne : meth ≠ initSym) : expandMeth tbl m1 meth key = expandMeth tbl m2 meth key := by
  unfold expandMeth
  rw [resolve_eq_of_checkNames h1 h2 hn hne]

theorem initEvs_eq {tbl : Table} {c : Cls} {pre post : List Ev} {sup : Bool}
    (h : initOf tbl c = .evs pre sup post) : initEvs tbl c = pre ++ post := by
  simp [initEvs, h]

theorem checkCalls_spec {tbl : Table} {U : List Cls} (h : checkCalls tbl U = true) {c : Cls}
    (hc : c ∈ U) {e : Ev} (he : e ∈ initEvs tbl c) :
    (∀ meth key, e = .callMeth meth key → meth ≠ initSym) ∧
    (∀ d, e = .callInit d → ∀ e' ∈ initEvs tbl d, ∀ meth key, e' = .callMeth meth key →
      meth ≠ initSym) := by
  unfold checkCalls at h
  simp only [List.all_eq_true] at h
  have := h c hc e he
  constructor
  · intro meth key heq
    subst heq
    simpa using this
  · intro d heq e' he' meth key heq'
    subst heq
    simp only [List.all_eq_true] at this
    have := this e' he'
    subst heq'
    simpa using this

theorem stepsOf_eq {tbl : Table} {u : Universe} {m1 m2 : List Cls} (h1 : Legit u m1)
    (h2 : Legit u m2) (hn : checkNames tbl u.mros u.U = true)
    (hcalls : checkCalls tbl u.U = true) {c : Cls} (hc : c ∈ u.U) :
    stepsOf tbl m1 c = stepsOf tbl m2 c := by
  unfold stepsOf
  cases h : initOf tbl c with
  | absent => rfl
  | object => rfl
  | unknown => rfl
  | evs pre sup post =>
    have hev : ∀ e ∈ pre ++ post, expand1 tbl m1 c e = expand1 tbl m2 c e := by
      intro e he
      have hspec := checkCalls_spec hcalls hc (initEvs_eq h ▸ he)
      cases e with
      | prim p => rfl
      | callMeth meth key =>
        simp only [expand1]
        exact expandMeth_eq h1 h2 hn (hspec.1 meth key rfl)
      | callInit d =>
        simp only [expand1]
        cases hd : initOf tbl d with
        | absent => rfl
        | object => rfl
        | unknown => rfl
        | evs pre' sup' post' =>
          cases sup' with
          | true => rfl
          | false =>
            simp only
            congr 2
            apply flatMap_congr'
            intro e' he'
            cases e' with
            | prim p => rfl
            | callInit d' => rfl
            | callMeth meth key =>
              simp only [expand0]
              exact expandMeth_eq h1 h2 hn
                (hspec.2 d rfl _ (initEvs_eq hd ▸ he') meth key rfl)
    simp only
    rw [flatMap_congr' (fun e he => hev e (List.mem_append_left _ he)),
      flatMap_congr' (fun e he => hev e (List.mem_append_right _ he))]

/-- **the flattened runs of two arrangements consist of the same steps** -/
theorem trace_mem_iff {tbl : Table} {u : Universe} {m1 m2 : List Cls} (h1 : Legit u m1)
    (h2 : Legit u m2) (hn : checkNames tbl u.mros u.U = true)
    (hchain : checkChain tbl u.mros u.U = true) (hcalls : checkCalls tbl u.U = true)
    (st : Step) : st ∈ trace tbl m1 ↔ st ∈ trace tbl m2 := by
  obtain ⟨t, htU, ht, hts, hall⟩ := checkChain_spec hchain
  unfold trace
  rw [mem_chainTrace, mem_chainTrace]
  constructor
  · rintro ⟨c, hc, hst⟩
    have hP := (exe_mem_iff h1 htU ht hts hall c).1 hc
    exact ⟨c, (exe_mem_iff h2 htU ht hts hall c).2 hP, stepsOf_eq h1 h2 hn hcalls hP.1 ▸ hst⟩
  · rintro ⟨c, hc, hst⟩
    have hP := (exe_mem_iff h2 htU ht hts hall c).1 hc
    exact ⟨c, (exe_mem_iff h1 htU ht hts hall c).2 hP, stepsOf_eq h1 h2 hn hcalls hP.1 ▸ hst⟩

end Gep.Mro

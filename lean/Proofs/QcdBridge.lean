/-
  Proofs/QcdBridge.lean — the formulas translated from the CURRENT src/gepard/qcd.py and constants.py by
  tools/gen_qcd.py (Gen/QcdSrcR.lean, regenerated on every run) are equal, over ℝ, to the hand-written model of
  the coupling (Gen/CouplingR.lean from Scalar/Coupling.lean.in) that the theorems of Props/C15.lean are about
  and that the driver executes.

  Every lemma is closed by `bridge_simp` (Proofs/Bridge.lean: rfl, ring1, ring_nf, hypothesis-free field_simp +
  ring1): identities of commutative fields only, so a change of a VALUE in the source breaks the lemma, a
  re-spelling does not.
-/
import Gen.QcdSrcR
import Gen.CouplingR
import Proofs.Bridge
import Mathlib.Tactic.NormNum

namespace Gep.R.QcdBridge
open Gep.R

theorem NC_eq : QcdSrc.NC = Coupling.NC := by bridge_simp [QcdSrc.NC, Coupling.NC]
theorem CF_eq : QcdSrc.CF = Coupling.CF := by bridge_simp [QcdSrc.CF, Coupling.CF, QcdSrc.NC, Coupling.NC]
theorem CA_eq : QcdSrc.CA = Coupling.CA := by bridge_simp [QcdSrc.CA, Coupling.CA, QcdSrc.NC, Coupling.NC]
theorem TF_eq : QcdSrc.TF = Coupling.TF := by bridge_simp [QcdSrc.TF, Coupling.TF]

theorem beta_0_eq (nf : ℝ) : QcdSrc.beta_0 nf = Coupling.beta0 nf := by
  bridge_simp [QcdSrc.beta_0, Coupling.beta0, Coupling.B00, Coupling.B01, QcdSrc.CA, QcdSrc.TF, QcdSrc.NC,
    Coupling.CA, Coupling.TF, Coupling.NC]

theorem beta_1_eq (nf : ℝ) : QcdSrc.beta_1 nf = Coupling.beta1 nf := by
  bridge_simp [QcdSrc.beta_1, Coupling.beta1, Coupling.B10, Coupling.B11, QcdSrc.CA, QcdSrc.CF, QcdSrc.TF, QcdSrc.NC,
    Coupling.CA, Coupling.CF, Coupling.TF, Coupling.NC]

theorem beta_2_eq (nf : ℝ) : QcdSrc.beta_2 nf = Coupling.beta2 nf := by
  bridge_simp [QcdSrc.beta_2, Coupling.beta2]

theorem beta_3_eq (nf : ℝ) : QcdSrc.beta_3 nf = Coupling.beta3 nf := by
  bridge_simp [QcdSrc.beta_3, Coupling.beta3]

theorem fbeta1_eq (a nf : ℝ) : QcdSrc.fbeta1 a nf = Coupling.fbeta1 a nf := by
  bridge_simp [QcdSrc.fbeta1, Coupling.fbeta1, beta_0_eq, beta_1_eq]

theorem rkStep_eq (nf dlr a : ℝ) : QcdSrc.rkStep nf dlr a = Coupling.rk4Step nf dlr a := by
  bridge_simp [QcdSrc.rkStep, Coupling.rk4Step, fbeta1_eq]

theorem loop_eq (nf dlr : ℝ) (ks : List Nat) (a : ℝ) :
    ks.foldl (fun acc _ => QcdSrc.rkStep nf dlr acc) a = Coupling.rk4Loop nf dlr ks a := by
  simp only [Coupling.rk4Loop, rkStep_eq]

theorem loA_eq (nf r2 as0 r20 : ℝ) :
    QcdSrc.loA nf r2 as0 r20 = 0.5 * as0 / Coupling.loDen nf as0 (klog (r2 / r20)) := by
  bridge_simp [QcdSrc.loA, Coupling.loDen, beta_0_eq]

theorem finalA_eq (a : ℝ) : QcdSrc.finalA a = 2 * a := by bridge_simp [QcdSrc.finalA]

end Gep.R.QcdBridge

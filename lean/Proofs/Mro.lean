/-
  Proofs/Mro.lean — helper lemmas for property C20 (about Model/Mro.lean).
-/
import Model.Mro
import Mathlib.Data.List.Basic
import Mathlib.Data.List.Nodup
import Mathlib.Data.List.Perm.Basic

namespace Gep.Mro
open List

/-! ### C3 merge -/
section C3
variable {α : Type} [DecidableEq α]

theorem pickHead_spec {ls : List (List α)} {h : α} (hp : pickHead ls = some h) :
    (∃ l ∈ ls, l.head? = some h) ∧ ∀ l ∈ ls, h ∉ l.tail := by
  unfold pickHead at hp
  have h1 := List.mem_of_find?_eq_some hp
  have h2 := List.find?_some hp
  constructor
  · simp only [List.mem_filterMap] at h1
    obtain ⟨l, hl, hh⟩ := h1
    exact ⟨l, hl, hh⟩
  · intro l hl hmem
    simp only [inTails, Bool.not_eq_true', List.any_eq_false] at h2
    exact h2 l hl (by simpa using hmem)

theorem mem_dropHead {c : α} {ls : List (List α)} {l' : List α} (h : l' ∈ dropHead c ls) :
    ∃ l ∈ ls, (l.head? = some c ∧ l' = l.tail) ∨ (l.head? ≠ some c ∧ l' = l) := by
  unfold dropHead at h
  simp only [List.mem_map] at h
  obtain ⟨l, hl, rfl⟩ := h
  refine ⟨l, hl, ?_⟩
  by_cases hc : l.head? = some c <;> simp [hc]

theorem dropHead_mem {c : α} {ls : List (List α)} {l : List α} (h : l ∈ ls) :
    (if l.head? = some c then l.tail else l) ∈ dropHead c ls := by
  unfold dropHead
  exact List.mem_map_of_mem h

theorem mergeAux_sublist : ∀ (fuel : Nat) (ls : List (List α)) (r : List α),
    mergeAux fuel ls = some r → ∀ l ∈ ls, l.Sublist r := by
  intro fuel
  induction fuel with
  | zero => intro ls r h; simp [mergeAux] at h
  | succ n ih =>
    intro ls r h l hl
    simp only [mergeAux] at h
    split at h
    · -- all lists empty
      rename_i hemp
      injection h with h; subst h
      have : l = [] := by
        by_contra hne
        have : l ∈ ls.filter (fun l => !l.isEmpty) := by
          simp [List.mem_filter, hl, hne]
        simp only [List.isEmpty_iff] at hemp
        rw [hemp] at this; cases this
      subst this; exact List.Sublist.refl _
    · split at h
      · cases h
      · rename_i hne c hpick
        cases hrec : mergeAux n (dropHead c (ls.filter (fun l => !l.isEmpty))) with
        | none => simp [hrec] at h
        | some r' =>
          simp only [hrec, Option.map_some, Option.some.injEq] at h
          subst h
          cases l with
          | nil => exact List.nil_sublist _
          | cons a t =>
            have hmem : (a :: t) ∈ ls.filter (fun l => !l.isEmpty) := by
              simp [List.mem_filter, hl]
            have := ih _ _ hrec _ (dropHead_mem (c := c) hmem)
            by_cases hac : a = c
            · subst hac
              simp only [List.head?_cons, if_true, List.tail_cons] at this
              exact this.cons_cons _
            · have hne' : (a :: t).head? ≠ some c := by simp [hac]
              simp only [hne', if_false] at this
              exact this.cons _

theorem mergeAux_mem : ∀ (fuel : Nat) (ls : List (List α)) (r : List α),
    mergeAux fuel ls = some r → ∀ x, x ∈ r ↔ ∃ l ∈ ls, x ∈ l := by
  intro fuel
  induction fuel with
  | zero => intro ls r h; simp [mergeAux] at h
  | succ n ih =>
    intro ls r h x
    constructor
    · intro hx
      simp only [mergeAux] at h
      split at h
      · injection h with h; subst h; cases hx
      · split at h
        · cases h
        · rename_i hne c hpick
          cases hrec : mergeAux n (dropHead c (ls.filter (fun l => !l.isEmpty))) with
          | none => simp [hrec] at h
          | some r' =>
            simp only [hrec, Option.map_some, Option.some.injEq] at h
            subst h
            rcases List.mem_cons.1 hx with rfl | hx'
            · obtain ⟨⟨l, hl, hh⟩, _⟩ := pickHead_spec hpick
              refine ⟨l, (List.mem_filter.1 hl).1, ?_⟩
              exact List.mem_of_mem_head? hh
            · obtain ⟨l', hl', hxl'⟩ := (ih _ _ hrec x).1 hx'
              obtain ⟨l, hl, hcase⟩ := mem_dropHead hl'
              refine ⟨l, (List.mem_filter.1 hl).1, ?_⟩
              rcases hcase with ⟨_, rfl⟩ | ⟨_, rfl⟩
              · exact List.mem_of_mem_tail hxl'
              · exact hxl'
    · rintro ⟨l, hl, hxl⟩
      exact (mergeAux_sublist _ _ _ h l hl).subset hxl

theorem mergeAux_nodup : ∀ (fuel : Nat) (ls : List (List α)) (r : List α),
    mergeAux fuel ls = some r → (∀ l ∈ ls, l.Nodup) → r.Nodup := by
  intro fuel
  induction fuel with
  | zero => intro ls r h; simp [mergeAux] at h
  | succ n ih =>
    intro ls r h hnd
    simp only [mergeAux] at h
    split at h
    · injection h with h; subst h; exact List.nodup_nil
    · split at h
      · cases h
      · rename_i hne c hpick
        cases hrec : mergeAux n (dropHead c (ls.filter (fun l => !l.isEmpty))) with
        | none => simp [hrec] at h
        | some r' =>
          simp only [hrec, Option.map_some, Option.some.injEq] at h
          subst h
          obtain ⟨_, hnot⟩ := pickHead_spec hpick
          have hnd' : ∀ l' ∈ dropHead c (ls.filter (fun l => !l.isEmpty)), l'.Nodup := by
            intro l' hl'
            obtain ⟨l, hl, hcase⟩ := mem_dropHead hl'
            have := hnd l (List.mem_filter.1 hl).1
            rcases hcase with ⟨_, rfl⟩ | ⟨_, rfl⟩
            · exact this.tail
            · exact this
          refine List.nodup_cons.2 ⟨?_, ih _ _ hrec hnd'⟩
          intro hc
          obtain ⟨l', hl', hcl'⟩ := (mergeAux_mem _ _ _ hrec c).1 hc
          obtain ⟨l, hl, hcase⟩ := mem_dropHead hl'
          rcases hcase with ⟨hh, rfl⟩ | ⟨hh, rfl⟩
          · exact hnot l hl hcl'
          · -- head of l is not c, yet c ∈ l: then c is in the tail of l
            cases l' with
            | nil => cases hcl'
            | cons a t =>
              rcases List.mem_cons.1 hcl' with rfl | ht
              · exact hh (by simp)
              · exact hnot _ hl (by simpa using ht)

end C3


theorem merge_sublist {α : Type} [DecidableEq α] {ls : List (List α)} {r : List α}
    (h : merge ls = some r) : ∀ l ∈ ls, l.Sublist r := mergeAux_sublist _ _ _ h

theorem merge_mem {α : Type} [DecidableEq α] {ls : List (List α)} {r : List α}
    (h : merge ls = some r) : ∀ x, x ∈ r ↔ ∃ l ∈ ls, x ∈ l := mergeAux_mem _ _ _ h

theorem merge_nodup {α : Type} [DecidableEq α] {ls : List (List α)} {r : List α}
    (h : merge ls = some r) (hnd : ∀ l ∈ ls, l.Nodup) : r.Nodup := mergeAux_nodup _ _ _ h hnd

/-! ### linearisation -/

theorem allSome_eq_some {β : Type} : ∀ {l : List (Option β)} {r : List β},
    allSome l = some r → l = r.map some := by
  intro l
  induction l with
  | nil => intro r h; simp [allSome] at h; subst h; rfl
  | cons a t ih =>
    intro r h
    cases a with
    | none => simp [allSome] at h
    | some x =>
      simp only [allSome] at h
      cases ht : allSome t with
      | none => simp [ht] at h
      | some r' =>
        simp only [ht, Option.map_some, Option.some.injEq] at h
        subst h
        simp [ih ht]

theorem allSome_map_mem {β γ : Type} {f : γ → Option β} {l : List γ} {r : List β}
    (h : allSome (l.map f) = some r) :
    (∀ x ∈ l, ∃ y ∈ r, f x = some y) ∧ (∀ y ∈ r, ∃ x ∈ l, f x = some y) := by
  have h' := allSome_eq_some h
  constructor
  · intro x hx
    have : f x ∈ l.map f := List.mem_map_of_mem hx
    rw [h'] at this
    obtain ⟨y, hy, hxy⟩ := List.mem_map.1 this
    exact ⟨y, hy, hxy.symm⟩
  · intro y hy
    have : some y ∈ r.map some := List.mem_map_of_mem hy
    rw [← h'] at this
    obtain ⟨x, hx, hxy⟩ := List.mem_map.1 this
    exact ⟨x, hx, hxy⟩

/-- unfolding of `mroOf` -/
theorem mroOf_succ_eq {tbl : Table} {fuel : Nat} {c : Cls} {m : List Cls}
    (h : mroOf tbl (fuel + 1) c = some m) :
    ∃ r ms rest, tbl[c]? = some r ∧ allSome (r.bases.map (mroOf tbl fuel)) = some ms ∧
      merge (ms ++ [r.bases]) = some rest ∧ m = c :: rest := by
  simp only [mroOf] at h
  split at h
  · cases h
  · rename_i r hr
    split at h
    · cases h
    · rename_i ms hms
      cases hm : merge (ms ++ [r.bases]) with
      | none => simp [hm] at h
      | some rest =>
        simp only [hm, Option.map_some, Option.some.injEq] at h
        exact ⟨r, ms, rest, hr, hms, hm, h.symm⟩

theorem mroOf_head {tbl : Table} {fuel : Nat} {c : Cls} {m : List Cls}
    (h : mroOf tbl fuel c = some m) : c ∈ m := by
  cases fuel with
  | zero => simp [mroOf] at h
  | succ n =>
    obtain ⟨_, _, rest, _, _, _, rfl⟩ := mroOf_succ_eq h
    exact List.mem_cons_self

theorem mroAdhoc_eq {tbl : Table} {bs m : List Cls} (h : mroAdhoc tbl bs = some m) :
    ∃ ms, allSome (bs.map (mroOf tbl (mroFuel tbl))) = some ms ∧ merge (ms ++ [bs]) = some m := by
  unfold mroAdhoc at h
  split at h
  · cases h
  · rename_i ms hms
    exact ⟨ms, hms, h⟩



/-! ### what every linearisation of a permutation of the blocks satisfies -/

theorem mem_dedup {x : Nat} : ∀ {l : List Nat}, x ∈ dedup l ↔ x ∈ l := by
  intro l
  induction l with
  | nil => simp [dedup]
  | cons a t ih =>
    simp only [dedup]
    split
    · rename_i hat
      rw [ih]
      constructor
      · exact fun h => List.mem_cons_of_mem _ h
      · intro h
        rcases List.mem_cons.1 h with rfl | h
        · exact hat
        · exact h
    · simp [ih]

/-- `m` is a duplicate-free arrangement of exactly the classes of the universe that keeps the
    MRO of every block as a subsequence -/
structure Legit (u : Universe) (m : List Cls) : Prop where
  nodup : m.Nodup
  mem : ∀ x, x ∈ m ↔ x ∈ u.U
  sub : ∀ mb ∈ u.mros, mb.Sublist m

theorem mkUniverse_eq {tbl : Table} {blocks : List Cls} {u : Universe}
    (hu : mkUniverse tbl blocks = some u) :
    allSome (blocks.map (mroOf tbl (mroFuel tbl))) = some u.mros ∧ u.U = dedup u.mros.flatten := by
  unfold mkUniverse at hu
  split at hu
  · cases hu
  · rename_i mros hm
    injection hu with hu; subst hu
    exact ⟨hm, rfl⟩

theorem mem_U {u : Universe} (hU : u.U = dedup u.mros.flatten) {x : Cls} :
    x ∈ u.U ↔ ∃ mb ∈ u.mros, x ∈ mb := by
  rw [hU, mem_dedup, List.mem_flatten]

theorem legit_of_mroAdhoc {tbl : Table} {blocks bs m : List Cls} {u : Universe}
    (hu : mkUniverse tbl blocks = some u) (hnd : blocks.Nodup) (hmnd : ∀ mb ∈ u.mros, mb.Nodup)
    (hp : bs.Perm blocks) (hm : mroAdhoc tbl bs = some m) : Legit u m := by
  obtain ⟨hmros, hU⟩ := mkUniverse_eq hu
  obtain ⟨ms, hms, hmerge⟩ := mroAdhoc_eq hm
  obtain ⟨hb1, hb2⟩ := allSome_map_mem hmros
  obtain ⟨hs1, hs2⟩ := allSome_map_mem hms
  have h12 : ∀ mb ∈ u.mros, mb ∈ ms := by
    intro mb hmb
    obtain ⟨b, hb, hfb⟩ := hb2 mb hmb
    obtain ⟨y, hy, hfy⟩ := hs1 b (hp.mem_iff.2 hb)
    rw [hfb] at hfy; injection hfy with hfy; subst hfy; exact hy
  have h21 : ∀ y ∈ ms, y ∈ u.mros := by
    intro y hy
    obtain ⟨b, hb, hfb⟩ := hs2 y hy
    obtain ⟨mb, hmb, hfm⟩ := hb1 b (hp.mem_iff.1 hb)
    rw [hfb] at hfm; injection hfm with hfm; subst hfm; exact hmb
  refine ⟨?_, ?_, ?_⟩
  · apply merge_nodup hmerge
    intro l hl
    rcases List.mem_append.1 hl with hl | hl
    · exact hmnd l (h21 l hl)
    · simp only [List.mem_singleton] at hl; subst hl; exact hp.nodup_iff.2 hnd
  · intro x
    rw [merge_mem hmerge x, mem_U hU]
    constructor
    · rintro ⟨l, hl, hxl⟩
      rcases List.mem_append.1 hl with hl | hl
      · exact ⟨l, h21 l hl, hxl⟩
      · simp only [List.mem_singleton] at hl; subst hl
        obtain ⟨y, hy, hfy⟩ := hs1 x hxl
        exact ⟨y, h21 y hy, mroOf_head hfy⟩
    · rintro ⟨mb, hmb, hx⟩
      exact ⟨mb, List.mem_append_left _ (h12 mb hmb), hx⟩
  · intro mb hmb
    exact merge_sublist hmerge mb (List.mem_append_left _ (h12 mb hmb))

/-! ### positions in a duplicate-free list -/

theorem pair_sublist_left {α : Type} {c t : α} : ∀ {A B : List α},
    (A ++ t :: B).Nodup → [c, t].Sublist (A ++ t :: B) → c ≠ t → c ∈ A := by
  intro A
  induction A with
  | nil =>
    intro B hnd hs hne
    simp only [List.nil_append] at hs hnd
    cases hs with
    | cons _ h =>
      have : t ∈ B := h.subset (by simp)
      exact absurd this (List.nodup_cons.1 hnd).1
    | cons_cons _ h => exact absurd rfl hne
  | cons a A' ih =>
    intro B hnd hs hne
    simp only [List.cons_append] at hs hnd
    cases hs with
    | cons _ h => exact List.mem_cons_of_mem _ (ih (List.nodup_cons.1 hnd).2 h hne)
    | cons_cons _ h => exact List.mem_cons_self

theorem pair_sublist_right {α : Type} {c t : α} : ∀ {A B : List α},
    (A ++ t :: B).Nodup → [t, c].Sublist (A ++ t :: B) → c ∈ B := by
  intro A
  induction A with
  | nil =>
    intro B hnd hs
    simp only [List.nil_append] at hs hnd
    cases hs with
    | cons _ h =>
      have : t ∈ B := h.subset (by simp)
      exact absurd this (List.nodup_cons.1 hnd).1
    | cons_cons _ h => exact h.subset (by simp)
  | cons a A' ih =>
    intro B hnd hs
    simp only [List.cons_append] at hs hnd
    cases hs with
    | cons _ h => exact ih (List.nodup_cons.1 hnd).2 h
    | cons_cons _ h =>
      exact absurd (by simp) (List.nodup_cons.1 hnd).1

/-- in a duplicate-free list, if `d` satisfies `p` and precedes every other element that
    satisfies `p`, then `find? p` returns `d` -/
theorem find?_eq_of_first {α : Type} {p : α → Bool} {d : α} : ∀ {m : List α},
    m.Nodup → d ∈ m → p d = true → (∀ x ∈ m, p x = true → x = d ∨ [d, x].Sublist m) →
    m.find? p = some d := by
  intro m
  induction m with
  | nil => intro _ hd; cases hd
  | cons y ys ih =>
    intro hnd hd hpd hall
    by_cases hyd : y = d
    · subst hyd; simp [hpd]
    · have hpy : p y = false := by
        by_contra hpy
        have hpy' : p y = true := by simpa using hpy
        rcases hall y List.mem_cons_self hpy' with h | h
        · exact hyd h
        · cases h with
          | cons _ h' =>
            have : y ∈ ys := h'.subset (by simp)
            exact (List.nodup_cons.1 hnd).1 this
          | cons_cons _ h' => exact hyd rfl
      rw [List.find?_cons, hpy]
      have hd' : d ∈ ys := by
        rcases List.mem_cons.1 hd with h | h
        · exact absurd h.symm hyd
        · exact h
      apply ih (List.nodup_cons.1 hnd).2 hd' hpd
      intro x hx hpx
      rcases hall x (List.mem_cons_of_mem _ hx) hpx with h | h
      · exact Or.inl h
      · cases h with
        | cons _ h' => exact Or.inr h'
        | cons_cons _ h' => exact absurd rfl hyd

theorem nat_beq_iff {a b : Nat} : Nat.beq a b = true ↔ a = b :=
  ⟨Nat.eq_of_beq_eq_true, fun h => h ▸ Nat.beq_refl a⟩

theorem memNat_iff {x : Nat} : ∀ {l : List Nat}, memNat x l = true ↔ x ∈ l := by
  intro l
  induction l with
  | nil => simp [memNat]
  | cons y ys ih =>
    simp only [memNat, Bool.or_eq_true, ih, List.mem_cons, nat_beq_iff]

theorem pairSub_sublist {x y : Nat} : ∀ {l : List Nat}, pairSub x y l = true → [x, y].Sublist l := by
  intro l
  induction l with
  | nil => intro h; simp [pairSub] at h
  | cons z zs ih =>
    intro h
    simp only [pairSub, Bool.or_eq_true, Bool.and_eq_true, nat_beq_iff, memNat_iff] at h
    rcases h with ⟨rfl, hy⟩ | h
    · exact List.Sublist.cons_cons _ (List.singleton_sublist.2 hy)
    · exact (ih h).cons _

theorem before_sublist {u : Universe} {m : List Cls} (hl : Legit u m) {x y : Cls}
    (h : before u.mros x y = true) : [x, y].Sublist m := by
  unfold before at h
  simp only [List.any_eq_true] at h
  obtain ⟨mb, hmb, hs⟩ := h
  exact (pairSub_sublist hs).trans (hl.sub mb hmb)

/-! ### name resolution -/

/-- `find?` returns the first element satisfying `p`: nothing before it does -/
theorem find?_first {α : Type} {p : α → Bool} {d x : α} : ∀ {m : List α},
    m.find? p = some d → [x, d].Sublist m → m.Nodup → x ≠ d → p x = false := by
  intro m
  induction m with
  | nil => intro h; simp at h
  | cons y ys ih =>
    intro hf hs hnd hne
    rw [List.find?_cons] at hf
    cases hpy : p y with
    | true =>
      rw [hpy] at hf
      injection hf with hf; subst hf
      cases hs with
      | cons _ h' =>
        have : y ∈ ys := h'.subset (by simp)
        exact absurd this (List.nodup_cons.1 hnd).1
      | cons_cons _ h' => exact absurd rfl hne
    | false =>
      rw [hpy] at hf
      cases hs with
      | cons _ h' => exact ih hf h' (List.nodup_cons.1 hnd).2 hne
      | cons_cons _ h' => exact hpy

theorem checkNames_spec {tbl : Table} {u : Universe} (h : checkNames tbl u.mros u.U = true)
    {c c' : Cls} (hc : c ∈ u.U) (hc' : c' ∈ u.U) (hne : c ≠ c') {n : Sym} (hn : n ≠ initSym)
    (hd : defines tbl n c = true) (hd' : defines tbl n c' = true) :
    before u.mros c c' = true ∨ before u.mros c' c = true := by
  unfold checkNames at h
  simp only [List.all_eq_true, Bool.or_eq_true, nat_beq_iff] at h
  rcases h c hc c' hc' with ((h | h) | h) | h
  · exact absurd h hne
  · exact Or.inl h
  · exact Or.inr h
  · exfalso
    unfold sharedOK at h
    simp only [List.all_eq_true, Bool.or_eq_true, nat_beq_iff, Bool.not_eq_true'] at h
    have hnc : n ∈ defsOf tbl c := by simpa [defines] using hd
    have hnc' : n ∈ defsOf tbl c' := by simpa [defines] using hd'
    rcases h n hnc with h | h
    · exact hn h
    · have := memNat_iff.2 hnc'
      rw [h] at this; cases this

theorem resolve_eq_of_checkNames {tbl : Table} {u : Universe} {n : Sym} {m1 m2 : List Cls}
    (h1 : Legit u m1) (h2 : Legit u m2) (hck : checkNames tbl u.mros u.U = true)
    (hn : n ≠ initSym) : resolve tbl n m1 = resolve tbl n m2 := by
  have key : ∀ {ma mb : List Cls}, Legit u ma → Legit u mb → ∀ d,
      resolve tbl n ma = some d → resolve tbl n mb = some d := by
    intro ma mb ha hb d hd
    unfold resolve at hd ⊢
    have hdm := List.mem_of_find?_eq_some hd
    have hpd := List.find?_some hd
    have hdU := (ha.mem d).1 hdm
    apply find?_eq_of_first hb.nodup ((hb.mem d).2 hdU) hpd
    intro x hx hpx
    by_cases hxd : x = d
    · exact Or.inl hxd
    · right
      have hxU := (hb.mem x).1 hx
      rcases checkNames_spec hck hdU hxU (Ne.symm hxd) hn hpd hpx with h | h
      · exact before_sublist hb h
      · have := find?_first hd (before_sublist ha h) ha.nodup hxd
        rw [hpx] at this; cases this
  cases hr1 : resolve tbl n m1 with
  | some d => rw [key h1 h2 d hr1]
  | none =>
    cases hr2 : resolve tbl n m2 with
    | none => rfl
    | some d => rw [key h2 h1 d hr2] at hr1; cases hr1

/-! ### fuel of `merge` -/

section
variable {α : Type} [DecidableEq α]

omit [DecidableEq α] in
theorem totalLen_cons (l : List α) (ls : List (List α)) :
    totalLen (l :: ls) = l.length + totalLen ls := by
  simp [totalLen]

omit [DecidableEq α] in
theorem totalLen_filter_le (p : List α → Bool) : ∀ ls : List (List α),
    totalLen (ls.filter p) ≤ totalLen ls := by
  intro ls
  induction ls with
  | nil => simp [totalLen]
  | cons l t ih =>
    rw [List.filter_cons]
    split
    · rw [totalLen_cons, totalLen_cons]; omega
    · rw [totalLen_cons]; omega

theorem totalLen_dropHead_le (h : α) : ∀ ls : List (List α),
    totalLen (dropHead h ls) ≤ totalLen ls := by
  intro ls
  induction ls with
  | nil => simp [dropHead, totalLen]
  | cons l t ih =>
    have : dropHead h (l :: t) = (if l.head? = some h then l.tail else l) :: dropHead h t := by
      simp [dropHead]
    rw [this, totalLen_cons, totalLen_cons]
    split
    · have := List.length_tail (l := l); omega
    · omega

theorem totalLen_dropHead_lt (h : α) : ∀ ls : List (List α),
    (∃ l ∈ ls, l.head? = some h) → totalLen (dropHead h ls) < totalLen ls := by
  intro ls
  induction ls with
  | nil => rintro ⟨l, hl, _⟩; cases hl
  | cons l t ih =>
    rintro ⟨l', hl', hh⟩
    have : dropHead h (l :: t) = (if l.head? = some h then l.tail else l) :: dropHead h t := by
      simp [dropHead]
    rw [this, totalLen_cons, totalLen_cons]
    have hle := totalLen_dropHead_le h t
    by_cases hc : l.head? = some h
    · simp only [hc, if_true]
      cases l with
      | nil => simp at hc
      | cons a r => simp; omega
    · simp only [hc, if_false]
      rcases List.mem_cons.1 hl' with rfl | hl'
      · exact absurd hh hc
      · have := ih ⟨l', hl', hh⟩; omega

/-- the fuel of `merge` is never what makes it fail: any larger amount gives the same result -/
theorem mergeAux_fuel_irrelevant : ∀ (f f' : Nat) (ls : List (List α)),
    totalLen ls < f → totalLen ls < f' → mergeAux f ls = mergeAux f' ls := by
  intro f
  induction f with
  | zero => intro f' ls h; omega
  | succ n ih =>
    intro f' ls h h'
    cases f' with
    | zero => omega
    | succ n' =>
      simp only [mergeAux]
      split
      · rfl
      · split
        · rfl
        · rename_i c hpick
          have hlt := totalLen_dropHead_lt c _ (pickHead_spec hpick).1
          have hle := totalLen_filter_le (fun l => !l.isEmpty) ls
          rw [ih n' _ (by omega) (by omega)]
end

end Gep.Mro

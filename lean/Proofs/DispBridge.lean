/-
  Proofs/DispBridge.lean — the closed-form pieces of the dispersive models translated from the CURRENT src/gepard/cff.py
  by tools/gen_disp.py (Gen/DispSrcR.lean, regenerated on every run) equal, over ℝ, those of the hand-written model
  (Gen/DispR.lean).  Closed by `bridge_simp` (Proofs/Bridge.lean), after the case split on the particle flag.
-/
import Gen.DispSrcR
import Gen.DispR
import Proofs.Bridge

namespace Gep.R.DispBridge
open Gep.R

theorem defaultSubtraction_eq : DispSrc.defaultSubtraction = (0 : ℝ) := by bridge_simp [DispSrc.defaultSubtraction]

theorem kmSubtraction_eq (p : KMPar) (t : ℝ) : DispSrc.kmSubtraction p.C p.mC2 t = kmSubtraction p t := by
  bridge_simp [DispSrc.kmSubtraction, kmSubtraction]

theorem dmFixPole_eq (t xi : ℝ) (n : Bool) : DispSrc.dmFixPole t xi n = dmFixPole t xi n := by
  cases n <;> bridge_simp [DispSrc.dmFixPole, dmFixPole]

theorem dmFreePole_eq (rpi mpi2 t xi : ℝ) (n : Bool) :
    DispSrc.dmFreePole rpi mpi2 t xi n = dmFreePole rpi mpi2 t xi n := by
  cases n <;> bridge_simp [DispSrc.dmFreePole, dmFreePole]

end Gep.R.DispBridge

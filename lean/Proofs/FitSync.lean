/-
  Proofs/FitSync.lean — helper lemmas about the association-list dictionaries of Model/FitSync.lean (property C11).
-/
import Model.FitSync
import Mathlib.Data.List.Basic
import Mathlib.Tactic.Basic

namespace Gep.Fit
variable {L V β : Type}

theorem dget_dset (d : List (Name × β)) (k n : Name) (v : β) :
    dget (dset d k v) n = if n = k then some v else dget d n := by
  induction d with
  | nil =>
    by_cases h : n = k
    · simp [dset, dget, h]
    · have : (k == n) = false := by simpa using fun h' => h h'.symm
      simp [dset, dget, h, this]
  | cons kv r ih =>
    obtain ⟨k', v'⟩ := kv
    by_cases hk : k' = k
    · subst hk
      by_cases hn : n = k'
      · simp [dset, dget, hn]
      · have : (k' == n) = false := by simpa using fun h' => hn h'.symm
        simp [dset, dget, hn, this]
    · have hk' : (k' == k) = false := by simpa using hk
      by_cases hn : k' = n
      · have hnk : n ≠ k := fun h' => hk (hn ▸ h')
        simp [dset, dget, hk', hn, hnk]
      · have hn' : (k' == n) = false := by simpa using hn
        simp [dset, dget, hk', hn', ih]

theorem dget_setAll (d : List (Name × β)) (ks : List Name) (v : β) (n : Name) :
    dget (setAll d ks v) n = if n ∈ ks then some v else dget d n := by
  unfold setAll
  induction ks generalizing d with
  | nil => simp
  | cons k ks ih =>
    simp only [List.foldl_cons, ih, dget_dset, List.mem_cons]
    by_cases h1 : n ∈ ks <;> by_cases h2 : n = k <;> simp [h1, h2]

/-- two dictionaries that agree on every key still agree after the same updates -/
theorem dget_updateAll_congr (d e : List (Name × β)) (kvs : List (Name × β))
    (h : ∀ n, dget d n = dget e n) : ∀ n, dget (updateAll d kvs) n = dget (updateAll e kvs) n := by
  unfold updateAll
  induction kvs generalizing d e with
  | nil => simpa using h
  | cons kv kvs ih =>
    simp only [List.foldl_cons]
    apply ih
    intro n; simp [dget_dset, h n]

theorem dget_none_of_not_mem (d : List (Name × β)) (n : Name) (h : n ∉ d.map (·.1)) : dget d n = none := by
  induction d with
  | nil => rfl
  | cons kv r ih =>
    obtain ⟨k', v'⟩ := kv
    simp only [List.map_cons, List.mem_cons, not_or] at h
    have : (k' == n) = false := by simpa using fun h' => h.1 h'.symm
    simp [dget, this, ih h.2]

theorem dget_updateAll (d kvs : List (Name × β)) (n : Name) (hnd : (kvs.map (·.1)).Nodup) :
    dget (updateAll d kvs) n = match dget kvs n with | some v => some v | none => dget d n := by
  unfold updateAll
  induction kvs generalizing d with
  | nil => simp [dget]
  | cons kv rest ih =>
    obtain ⟨k', v'⟩ := kv
    simp only [List.map_cons, List.nodup_cons] at hnd
    simp only [List.foldl_cons, ih _ hnd.2, dget_dset]
    by_cases hn : n = k'
    · subst hn
      simp [dget, dget_none_of_not_mem rest n hnd.1]
    · have : (k' == n) = false := by simpa using fun h' => hn h'.symm
      simp [dget, this, hn]


theorem dget_ddel (d : List (Name × β)) (k n : Name) :
    dget (ddel d k) n = if n = k then none else dget d n := by
  induction d with
  | nil => simp [ddel, dget]
  | cons kv r ih =>
    obtain ⟨k', v'⟩ := kv
    by_cases hk : k' = k
    · subst hk
      by_cases hn : n = k'
      · subst hn; simp [ddel, ih]
      · have : (k' == n) = false := by simpa using fun h' => hn h'.symm
        simp [ddel, dget, ih, hn, this]
    · have hk' : (k' == k) = false := by simpa using hk
      by_cases hn : k' = n
      · have hnk : n ≠ k := fun h' => hk (hn ▸ h')
        simp [ddel, dget, hk', hn, hnk]
      · have hn' : (k' == n) = false := by simpa using hn
        simp [ddel, dget, hk', hn', ih]

/-- setting limits touches only the named parameters -/
theorem mSetLimits_outside [LimitOK L] (ml d : List (Name × L)) (n : Name) (hn : n ∉ d.map (·.1)) :
    dget (mSetLimits ml d).1 n = dget ml n := by
  induction d generalizing ml with
  | nil => rfl
  | cons kv r ih =>
    obtain ⟨k, v⟩ := kv
    simp only [List.map_cons, List.mem_cons, not_or] at hn
    simp only [mSetLimits]
    split
    · rw [ih _ hn.2, dget_dset, if_neg hn.1]
    · simp only [dget_ddel, if_neg hn.1]

/-- when every interval is accepted, the minimiser's table is updated exactly as a dictionary update -/
theorem mSetLimits_ok [LimitOK L] (ml d : List (Name × L)) (h : (mSetLimits ml d).2 = true) :
    (mSetLimits ml d).1 = updateAll ml d := by
  unfold updateAll
  induction d generalizing ml with
  | nil => rfl
  | cons kv r ih =>
    obtain ⟨k, v⟩ := kv
    simp only [mSetLimits] at h ⊢
    split
    · rename_i hv; simp only [hv, if_true] at h; simpa using ih _ h
    · rename_i hv; simp [hv] at h

/-- all intervals valid ⇒ accepted -/
theorem mSetLimits_all_valid [LimitOK L] (ml d : List (Name × L)) (h : ∀ kv ∈ d, LimitOK.valid kv.2 = true) :
    (mSetLimits ml d).2 = true := by
  induction d generalizing ml with
  | nil => rfl
  | cons kv r ih =>
    obtain ⟨k, v⟩ := kv
    simp only [mSetLimits, h (k, v) (List.mem_cons_self), if_true]
    exact ih _ (fun kv hkv => h kv (List.mem_cons_of_mem _ hkv))

/-- one invalid interval ⇒ rejected -/
theorem mSetLimits_invalid [LimitOK L] (ml d : List (Name × L)) (kv : Name × L) (hk : kv ∈ d)
    (hv : LimitOK.valid kv.2 = false) : (mSetLimits ml d).2 = false := by
  induction d generalizing ml with
  | nil => cases hk
  | cons kv' r ih =>
    obtain ⟨k, v⟩ := kv'
    simp only [mSetLimits]
    split
    · rcases List.mem_cons.1 hk with h | h
      · rename_i hvv; subst h; simp [hvv] at hv
      · exact ih _ h
    · rfl

/-- restoring the saved entries of the keys `ks` brings back the original look-ups, provided nothing outside `ks`
    was touched -/
theorem dget_restoreLimits (orig cur : List (Name × L)) (ks : List Name)
    (hout : ∀ n, n ∉ ks → dget cur n = dget orig n) (n : Name) :
    dget (restoreLimits cur (ks.map fun k => (k, dget orig k))) n = dget orig n := by
  unfold restoreLimits
  induction ks generalizing cur with
  | nil => simpa using hout n (by simp)
  | cons k ks ih =>
    simp only [List.map_cons, List.foldl_cons]
    by_cases hk : k ∈ ks
    · -- k is restored again later: the intermediate table still agrees outside ks
      apply ih
      intro m hm
      have hmk : m ≠ k := fun h => hm (h ▸ hk)
      cases hd : dget orig k with
      | some v => simp only [dget_dset, if_neg hmk]; exact hout m (by simp [hmk, hm])
      | none => simp only [dget_ddel, if_neg hmk]; exact hout m (by simp [hmk, hm])
    · apply ih
      intro m hm
      by_cases hmk : m = k
      · subst hmk
        cases hd : dget orig m with
        | some v => simp [dget_dset]
        | none => simp [dget_ddel]
      · cases hd : dget orig k with
        | some v => simp only [dget_dset, if_neg hmk]; exact hout m (by simp [hmk, hm])
        | none => simp only [dget_ddel, if_neg hmk]; exact hout m (by simp [hmk, hm])

end Gep.Fit

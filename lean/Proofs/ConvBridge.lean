/-
  Proofs/ConvBridge.lean — the completion formulas translated from the CURRENT src/gepard/data.py by tools/gen_kin.py
  (Gen/ConvSrcR.lean, regenerated on every run) equal, over ℝ, the expressions of the hand-written model
  (Gen/ConvR.lean: completeTrio, fillDuo).  Closed by `bridge_simp` (Proofs/Bridge.lean).
-/
import Gen.ConvSrcR
import Gen.ConvR
import Proofs.Bridge
import Mathlib.Tactic.Ring
import Mathlib.Tactic.FieldSimp
import Mathlib.Tactic.Linarith

namespace Gep.R.ConvBridge
open Gep.R

/-  The three formulas are compared under the guard Python itself imposes (a zero denominator raises ZeroDivisionError
    there and is an error branch of the model, `trioRaises`), so that re-spellings which are identities only where the
    denominators do not vanish (`Q2/xB - Q2` ↔ `Q2/xB*(1 - xB)`) still check. -/
theorem trio_0_eq (M2 q w : ℝ) (h : w ^ (2:Nat) + q - M2 ≠ 0) : ConvSrc.trio_0 M2 q w = q / (w ^ (2:Nat) + q - M2) := by
  first
  | bridge_simp [ConvSrc.trio_0]
  | (simp only [ConvSrc.trio_0]; rw [div_eq_div_iff (by intro h'; apply h; rw [← h']; ring) h]; ring)
theorem trio_1_eq (M2 q x : ℝ) (h : x ≠ 0) : ConvSrc.trio_1 M2 q x = ksqrt (q / x - q + M2) := by
  first
  | bridge_simp [ConvSrc.trio_1]
  | (simp only [ConvSrc.trio_1]; congr 1; field_simp; ring)
theorem trio_2_eq (M2 w x : ℝ) (h : 1 - x ≠ 0) : ConvSrc.trio_2 M2 w x = x * (w ^ (2:Nat) - M2) / (1 - x) := by
  first
  | bridge_simp [ConvSrc.trio_2]
  | (simp only [ConvSrc.trio_2]; field_simp; ring)
theorem duo_0_eq (M2 t : ℝ) : ConvSrc.duo_0 M2 t = -t := by bridge_simp [ConvSrc.duo_0]
theorem duo_1_eq (M2 tm : ℝ) : ConvSrc.duo_1 M2 tm = -tm := by bridge_simp [ConvSrc.duo_1]

end Gep.R.ConvBridge

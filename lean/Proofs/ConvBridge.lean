/-
  Proofs/ConvBridge.lean — the completion formulas translated from the CURRENT src/gepard/data.py by tools/gen_kin.py
  (Gen/ConvSrcR.lean, regenerated on every run) equal, over ℝ, the expressions of the hand-written model
  (Gen/ConvR.lean: completeTrio, fillDuo).  Closed by `bridge_simp` (Proofs/Bridge.lean).
-/
import Gen.ConvSrcR
import Gen.ConvR
import Proofs.Bridge

namespace Gep.R.ConvBridge
open Gep.R

theorem trio_0_eq (M2 q w : ℝ) : ConvSrc.trio_0 M2 q w = q / (w ^ (2:Nat) + q - M2) := by
  bridge_simp [ConvSrc.trio_0]
theorem trio_1_eq (M2 q x : ℝ) : ConvSrc.trio_1 M2 q x = ksqrt (q / x - q + M2) := by
  bridge_simp [ConvSrc.trio_1]
theorem trio_2_eq (M2 w x : ℝ) : ConvSrc.trio_2 M2 w x = x * (w ^ (2:Nat) - M2) / (1 - x) := by
  bridge_simp [ConvSrc.trio_2]
theorem duo_0_eq (M2 t : ℝ) : ConvSrc.duo_0 M2 t = -t := by bridge_simp [ConvSrc.duo_0]
theorem duo_1_eq (M2 tm : ℝ) : ConvSrc.duo_1 M2 tm = -tm := by bridge_simp [ConvSrc.duo_1]

end Gep.R.ConvBridge

/-
  Proofs/EffBridge.lean — the form-factor formulas translated from the CURRENT src/gepard/eff.py by tools/gen_eff.py
  (Gen/EffSrcR.lean, regenerated on every run) equal, over ℝ, the hand-written model (Gen/EffR.lean from
  Scalar/Eff.lean.in) that the theorems of Props/C19.lean are about and that the driver executes.  Closed by
  `bridge_simp` (identities of commutative fields only; see Proofs/Bridge.lean).
-/
import Gen.EffSrcR
import Gen.EffR
import Proofs.Bridge

namespace Gep.R.EffBridge
open Gep.R

theorem pF1_eq (t : ℝ) : EffSrc.pF1 t = pF1 t := by bridge_simp [EffSrc.pF1, pF1, pDenE, pDenM, pDenTau]
theorem pF2_eq (t : ℝ) : EffSrc.pF2 t = pF2 t := by bridge_simp [EffSrc.pF2, pF2, pDenE, pDenM, pDenTau]
theorem nF1_eq (t : ℝ) : EffSrc.nF1 t = nF1 t := by bridge_simp [EffSrc.nF1, nF1, nDenE, nDenM, nDenTau]
theorem nF2_eq (t : ℝ) : EffSrc.nF2 t = nF2 t := by bridge_simp [EffSrc.nF2, nF2, nDenE, nDenM, nDenTau]
theorem dipF1_eq (t : ℝ) : EffSrc.dipF1 t = dipF1 t := by bridge_simp [EffSrc.dipF1, dipF1, dipDen]
theorem dipF2_eq (t : ℝ) : EffSrc.dipF2 t = dipF2 t := by bridge_simp [EffSrc.dipF2, dipF2, dipDen]

end Gep.R.EffBridge
